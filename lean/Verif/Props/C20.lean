import Verif.Model.EAB
/-!
  C20 — ACME external account binding keys bind once, to the key that proved them.

  Property theorems about `Verif.EAB` (model of acme/api/eab.go, acme/api/account.go NewAccount,
  acme/account.go BindTo/AlreadyBound, acme/db/nosql/eab.go; tied to the code by the C20
  correspondence stages `hist` and `conc`).

  * `account_only_if`        — the full conjunction behind every account created under RequireEAB
  * `created_spends_key`     — a creation through key k leaves k bound to that account, secret erased
  * `bound_key_refused`      — no request creates an account through a bound key
  * `bind_once_seq`          — every *sequential* history creates ≤ 1 account per key; afterwards spent
  * `bind_once_conc_refuted` — the all-interleavings statement is FALSE as coded (D11): schedule
                               validate₁ validate₂ create₁ create₂ update₁ update₂
  * `bind_once_conc_partial` — it holds for schedules in which requests do not overlap
  * `bind_once_conc_serial`  — … for any number of requests run one after the other in any order
  * `policy_limits_orders`   — the policy attached to a key limits every order of the account bound to it
  * `overlap_always_double`  — (table, `decide`) for the witness pair every one of the 18 overlapping
                               schedules creates two accounts; the 2 serial ones create one
-/
namespace Verif.EAB

/-! ## lookups -/

theorem findKey_id {ks : List EKey} {id : Nat} {k : EKey} (h : findKey ks id = some k) : k.id = id := by
  induction ks with
  | nil => simp [findKey] at h
  | cons x xs ih =>
    simp only [findKey] at h
    split at h
    · simp at h; subst h; assumption
    · exact ih h

theorem getKey_id {st : State} {id : Nat} {k : EKey} (h : getKey st id = some k) : k.id = id :=
  findKey_id h

theorem findKey_setKey_ne (ks : List EKey) (nu : EKey) (id : Nat) (hne : id ≠ nu.id) :
    findKey (setKey ks nu) id = findKey ks id := by
  induction ks with
  | nil => rfl
  | cons x xs ih =>
    simp only [setKey, findKey]
    by_cases hx : x.id = nu.id
    · have h1 : ¬ nu.id = id := fun h => hne h.symm
      simp [hx, h1, ih]
    · simp [hx, ih]

theorem findKey_setKey_eq (ks : List EKey) (nu : EKey) :
    findKey (setKey ks nu) nu.id = (findKey ks nu.id).map (fun _ => nu) := by
  induction ks with
  | nil => rfl
  | cons x xs ih =>
    simp only [setKey, findKey]
    by_cases hx : x.id = nu.id
    · simp [hx]
    · simp [hx, ih]

/-! ## 1. an account is created under RequireEAB only if … -/

theorem validateEABJWS_ok {u : Nat} {b : Binding} {kid : Nat} (h : validateEABJWS u b = .ok kid) :
    b.nsigs = 1 ∧ b.algMac = true ∧ b.kid ≠ 0 ∧ b.hasNonce = false ∧ b.url = some u ∧ kid = b.kid := by
  unfold validateEABJWS at h
  repeat' (split at h <;> try (simp at h))
  simp_all

/-- Everything `validateExternalAccountBinding` has established when it hands back key `k`. -/
structure BindingAccepted (st : State) (r : Req) (b : Binding) (k : EKey) : Prop where
  given : r.binding = some b
  parses : r.bindingParses = true
  oneSig : b.nsigs = 1
  macAlg : b.algMac = true                 -- HS256 / HS384 / HS512
  kid : b.kid ≠ 0
  noNonce : b.hasNonce = false
  sameUrl : b.url = some r.outerUrl        -- url present and equal to the outer JWS's
  stored : getKey st b.kid = some k        -- the key exists …
  thisProv : k.prov = r.prov               -- … for the provisioner of the request
  secret : k.hasSecret = true
  unbound : k.bound = false
  mac : b.macOk = true                     -- the MAC verifies under the key's secret
  sameKey : b.payloadKey = some r.outerKey -- the payload is exactly the outer account key

theorem validateEAB_some {st : State} {r : Req} {k : EKey} (h : validateEAB st r = .ok (some k)) :
    r.requireEAB = true ∧ ∃ b, BindingAccepted st r b k := by
  unfold validateEAB at h
  repeat' (split at h <;> try (simp at h))
  have hv' := validateEABJWS_ok ‹validateEABJWS _ _ = .ok _›
  rename_i b _ _ _ _ _ _ _ _ _ _ _ _ _ _ _ _
  refine ⟨by simp_all, b, ?_⟩
  constructor <;> simp_all

theorem validateEAB_none {st : State} {r : Req} (h : validateEAB st r = .ok none) : r.requireEAB = false := by
  unfold validateEAB at h
  repeat' (split at h <;> try (simp at h))
  simp_all

theorem stepStart_inr {st : State} {r : Req} {k : Option EKey} (h : stepStart st r = .inr k) :
    r.payloadOk = true ∧ acctOfKey st r.outerKey = none ∧ r.onlyExisting = false ∧ validateEAB st r = .ok k := by
  unfold stepStart at h
  repeat' (split at h <;> try (simp at h))
  simp_all

theorem stepStart_not_created {st : State} {r : Req} {a v : Nat} : stepStart st r ≠ .inl (.created a v) := by
  unfold stepStart
  repeat' (split <;> try simp)

/-- Shape of every successful creation by a request run alone. -/
theorem handle_created {st st' : State} {r : Req} {acc via : Nat}
    (h : handle st r = (st', .created acc via)) :
    r.payloadOk = true ∧ acctOfKey st r.outerKey = none ∧ r.onlyExisting = false ∧ acc = st.next ∧
    ((validateEAB st r = .ok none ∧ via = 0 ∧ st' = addAcct st r.outerKey) ∨
     (∃ k, validateEAB st r = .ok (some k) ∧ via = k.id ∧
        st' = { addAcct st r.outerKey with keys := setKey st.keys (bindTo k acc) })) := by
  unfold handle at h
  cases h1 : stepStart st r with
  | inl x =>
    simp [h1] at h
    exact absurd (h.2 ▸ h1) stepStart_not_created
  | inr k =>
    have ⟨p1, p2, p3, p4⟩ := stepStart_inr h1
    simp only [h1, stepCreate, p2] at h
    cases k with
    | none =>
      simp at h
      refine ⟨p1, p2, p3, h.2.1.symm, .inl ⟨p4, h.2.2.symm, h.1.symm⟩⟩
    | some k =>
      simp only [stepUpdate] at h
      have ⟨_, b, hb⟩ := validateEAB_some p4
      have hid := getKey_id hb.stored
      have hg : getKey (addAcct st r.outerKey) k.id = some k := by
        simp only [getKey, addAcct]; rw [hid]; exact hb.stored
      simp [hb.unbound, hg, hb.thisProv] at h
      refine ⟨p1, p2, p3, h.2.1.symm, .inr ⟨k, p4, h.2.2.symm, ?_⟩⟩
      rw [← h.1, ← h.2.1]
      simp [addAcct]

/-- **account_only_if.** Under a provisioner that requires external account binding, a request run
    alone creates an account only if no account exists for its key and it embeds a binding that:
    has one signature, a MAC algorithm, a key id, no nonce, the outer URL; names a stored key of
    *this* provisioner that still has its secret and is not bound; verifies under that secret; and
    whose payload is exactly the outer account key. The key it is recorded against is that key. -/
theorem account_only_if {st st' : State} {r : Req} {acc via : Nat}
    (h : handle st r = (st', .created acc via)) (hE : r.requireEAB = true) :
    acctOfKey st r.outerKey = none ∧ ∃ b k, BindingAccepted st r b k ∧ via = k.id ∧ via ≠ 0 := by
  have ⟨_, p2, _, _, hc⟩ := handle_created h
  refine ⟨p2, ?_⟩
  rcases hc with ⟨hn, _, _⟩ | ⟨k, hk, hv, _⟩
  · have := validateEAB_none hn; simp [hE] at this
  · have ⟨_, b, hb⟩ := validateEAB_some hk
    refine ⟨b, k, hb, hv, ?_⟩
    rw [hv, getKey_id hb.stored]; exact hb.kid

/-- the hypotheses of `account_only_if` are satisfiable: a well-formed request against a fresh key -/
def exKey : EKey := { id := 7, prov := 1, hasSecret := true, bound := false, account := 0 }
def exBinding : Binding :=
  { nsigs := 1, algMac := true, kid := 7, hasNonce := false, url := some 100, macOk := true, payloadKey := some 41 }
def exReq : Req :=
  { prov := 1, requireEAB := true, outerKey := 41, outerUrl := 100, payloadOk := true,
    onlyExisting := false, binding := some exBinding, bindingParses := true }
def exState : State := { keys := [exKey], accts := [], next := 1 }

example : (handle exState exReq).2 = .created 1 7 := by decide
example : (handle (handle exState exReq).1 { exReq with outerKey := 42, binding := some { exBinding with payloadKey := some 42 } }).2
    = .err .serverInternal := by decide   -- the spent key has no secret bytes left

/-! ## 2. bind once — sequential histories -/

/-- key `k` is bound in the store -/
def Bound (st : State) (k : Nat) : Prop := ∃ key, getKey st k = some key ∧ key.bound = true
/-- key `k` is bound to account `a` and its secret is gone -/
def SpentOn (st : State) (k a : Nat) : Prop :=
  ∃ key, getKey st k = some key ∧ key.bound = true ∧ key.hasSecret = false ∧ key.account = a
/-- key `k` is bound and its secret is gone -/
def Spent (st : State) (k : Nat) : Prop := ∃ a, SpentOn st k a

theorem Spent.bound {st : State} {k : Nat} (h : Spent st k) : Bound st k := by
  obtain ⟨_, key, h1, h2, _⟩ := h; exact ⟨key, h1, h2⟩

/-- **created_spends_key.** After an account was created through key `via`, the stored key is
    bound to exactly that account and its secret is erased. -/
theorem created_spends_key {st st' : State} {r : Req} {acc via : Nat}
    (h : handle st r = (st', .created acc via)) (hv : via ≠ 0) : SpentOn st' via acc := by
  have ⟨_, _, _, _, hc⟩ := handle_created h
  rcases hc with ⟨_, h0, _⟩ | ⟨k, hk, hvia, hst⟩
  · exact absurd h0 hv
  · have ⟨_, b, hb⟩ := validateEAB_some hk
    have hid := getKey_id hb.stored
    refine ⟨bindTo k acc, ?_, rfl, rfl, rfl⟩
    subst hst
    have := findKey_setKey_eq st.keys (bindTo k acc)
    simp only [bindTo] at this ⊢
    simp only [getKey, hvia]
    rw [this]
    have hs : findKey st.keys k.id = some k := by rw [hid]; exact hb.stored
    simp [hs]

/-- **bound_key_refused.** Whatever the request, no account is created through a key that is
    already bound (`k ≠ 0`: `via = 0` means "no key was involved"). -/
theorem bound_key_refused {st : State} {k : Nat} (hk0 : k ≠ 0) (hb : Bound st k) (r : Req) (acc : Nat) :
    (handle st r).2 ≠ .created acc k := by
  intro hx
  obtain ⟨key, hk, hkb⟩ := hb
  have h : handle st r = ((handle st r).1, .created acc k) := by rw [← hx]
  have ⟨_, _, _, _, hc⟩ := handle_created h
  rcases hc with ⟨_, h0, _⟩ | ⟨k', hk', hvia, _⟩
  · exact hk0 h0
  · have ⟨_, b, hb⟩ := validateEAB_some hk'
    have hid := getKey_id hb.stored
    have hs := hb.stored
    rw [← hid, ← hvia, hk] at hs
    have hu := hb.unbound
    simp at hs; subst hs
    simp [hkb] at hu

theorem stepCreate_keys (st : State) (r : Req) (k : Option EKey) : (stepCreate st r k).1.keys = st.keys := by
  unfold stepCreate
  split
  · rfl
  · split <;> rfl

theorem stepUpdate_cases (st : State) (r : Req) (k : EKey) (acc : Nat) :
    (∃ e, stepUpdate st r k acc = (st, .err e)) ∨
    stepUpdate st r k acc = ({ st with keys := setKey st.keys (bindTo k acc) }, .created acc k.id) := by
  unfold stepUpdate
  repeat' split
  all_goals first | exact .inl ⟨_, rfl⟩ | exact .inr rfl

/-- a request that does not end in a creation leaves the key store alone -/
theorem handle_keys {st st' : State} {r : Req} {x : Resp} (h : handle st r = (st', x)) :
    st'.keys = st.keys ∨ ∃ acc via, x = .created acc via := by
  unfold handle at h
  cases h1 : stepStart st r with
  | inl y => simp [h1] at h; left; rw [← h.1]
  | inr k =>
    simp only [h1] at h
    have hk := stepCreate_keys st r k
    cases hc : stepCreate st r k with
    | mk s y =>
      rw [hc] at h hk
      cases y with
      | inl y => simp at h; left; rw [← h.1]; exact hk
      | inr p =>
        obtain ⟨k', acc⟩ := p
        simp only [] at h
        rcases stepUpdate_cases s r k' acc with ⟨e, he⟩ | he
        · rw [he] at h; simp at h; left; rw [← h.1]; exact hk
        · rw [he] at h; simp at h; right; exact ⟨acc, k'.id, h.2.symm⟩

/-- one request changes a stored key only by spending it -/
theorem handle_getKey {st st' : State} {r : Req} {x : Resp} (h : handle st r = (st', x)) (id : Nat) :
    getKey st' id = getKey st id ∨ (∃ acc, x = .created acc id ∧ id ≠ 0) := by
  rcases handle_keys h with hk | ⟨acc, via, hx⟩
  · left; simp [getKey, hk]
  · subst hx
    have ⟨_, _, _, _, hc⟩ := handle_created h
    rcases hc with ⟨_, _, hst⟩ | ⟨k, hk, hvia, hst⟩
    · left; subst hst; rfl
    · by_cases hid : id = via
      · right
        have ⟨_, b, hb⟩ := validateEAB_some hk
        refine ⟨acc, by rw [hid], ?_⟩
        rw [hid, hvia, getKey_id hb.stored]; exact hb.kid
      · left
        subst hst
        simp only [getKey]
        exact findKey_setKey_ne _ _ _ (by simpa [bindTo, ← hvia] using hid)

theorem handle_keeps_spent {st st' : State} {r : Req} {x : Resp} (h : handle st r = (st', x))
    {k : Nat} (hk0 : k ≠ 0) (hs : Spent st k) : Spent st' k := by
  rcases handle_getKey h k with he | ⟨acc, hx, _⟩
  · obtain ⟨a, key, h1, h2⟩ := hs
    exact ⟨a, key, by rw [he]; exact h1, h2⟩
  · subst hx
    exact absurd (congrArg Prod.snd h) (bound_key_refused hk0 hs.bound r acc)

/-- **bind_once_seq.** In every sequential history, from every store, each binding key creates at
    most one account; none at all if it was bound at the start; and once it has created one it is
    bound with its secret erased at the end of the history. -/
theorem bind_once_seq (k : Nat) (hk0 : k ≠ 0) (reqs : List Req) (st : State) :
    countVia k (runHist st reqs).2 ≤ 1 ∧
    (Bound st k → countVia k (runHist st reqs).2 = 0) ∧
    (countVia k (runHist st reqs).2 = 1 → Spent (runHist st reqs).1 k) ∧
    (Spent st k → Spent (runHist st reqs).1 k) := by
  induction reqs generalizing st with
  | nil => simp [runHist, countVia]
  | cons r rs ih =>
    simp only [runHist]
    cases hh : handle st r with
    | mk s1 x =>
      have ⟨i1, i2, i3, i4⟩ := ih s1
      simp only []
      by_cases hx : ∃ acc, x = .created acc k
      · obtain ⟨acc, hx⟩ := hx
        subst hx
        have hsp : Spent s1 k := ⟨acc, created_spends_key hh hk0⟩
        have h0 := i2 hsp.bound
        refine ⟨by simp [countVia, h0], ?_, fun _ => i4 hsp, fun _ => i4 hsp⟩
        intro hb
        exact absurd (congrArg Prod.snd hh) (bound_key_refused hk0 hb r acc)
      · have hc : countVia k (x :: (runHist s1 rs).2) = countVia k (runHist s1 rs).2 := by
          cases x with
          | created a v =>
            have : v ≠ k := fun hv => hx ⟨a, by rw [hv]⟩
            simp [countVia, this]
          | err e => simp [countVia]
          | existing a => simp [countVia]
        rw [hc]
        have hkeep : getKey s1 k = getKey st k := by
          rcases handle_getKey hh k with he | ⟨acc, hxx, _⟩
          · exact he
          · exact absurd ⟨acc, hxx⟩ hx
        refine ⟨i1, ?_, i3, ?_⟩
        · intro ⟨key, hb1, hb2⟩
          exact i2 ⟨key, by rw [hkeep]; exact hb1, hb2⟩
        · intro hs
          exact i4 (handle_keeps_spent hh hk0 hs)

example : countVia 7 (runHist exState [exReq, { exReq with outerKey := 42, binding := some { exBinding with payloadKey := some 42 } }, exReq]).2 = 1 := by
  decide

/-! ## 3. bind once — all interleavings: false as coded (D11) -/

/-- The clause of the property for simultaneous requests: whatever the interleaving of the
    store-visible steps of any number of new-account requests, a binding key (not bound at the
    start or bound, all the same) ends up having created at most one account. -/
def BindOnceConc : Prop :=
  ∀ (st : State) (reqs : List Req) (sched : List Nat) (k : Nat), k ≠ 0 →
    countVia k (threadResps (runSched st (reqs.map (⟨·, .start⟩)) sched).2) ≤ 1

/-- second request of the witness: another account key, a binding for *that* key MACed with the
    same secret (the holder of the secret can produce as many as it likes) -/
def exReq2 : Req := { exReq with outerKey := 42, binding := some { exBinding with payloadKey := some 42 } }

/-- the schedule validate₁ validate₂ create₁ create₂ update₁ update₂ -/
def d11Sched : List Nat := [0, 1, 0, 1, 0, 1]

/-- both requests are answered 201 and name key 7 -/
theorem d11_two_accounts :
    threadResps (runSched exState [⟨exReq, .start⟩, ⟨exReq2, .start⟩] d11Sched).2
      = [.created 1 7, .created 2 7] := by decide

/-- … and the store ends with the key bound to the *second* account: the first binding is overwritten -/
theorem d11_overwritten :
    getKey (runSched exState [⟨exReq, .start⟩, ⟨exReq2, .start⟩] d11Sched).1 7
      = some { id := 7, prov := 1, hasSecret := false, bound := true, account := 2 } := by decide

/-- **bind_once_conc_refuted.** As coded, the all-interleavings clause is false. -/
theorem bind_once_conc_refuted : ¬ BindOnceConc := by
  intro h
  have := h exState [exReq, exReq2] d11Sched 7 (by decide)
  revert this
  decide

/-- all interleavings of two three-step requests -/
def interleave : Nat → Nat → Nat → List (List Nat)
  | 0, _, _ => [[]]
  | n + 1, a, b =>
    (if a > 0 then (interleave n (a - 1) b).map (0 :: ·) else []) ++
    (if b > 0 then (interleave n a (b - 1)).map (1 :: ·) else [])

def isSerial (s : List Nat) : Bool := s == [0, 0, 0, 1, 1, 1] || s == [1, 1, 1, 0, 0, 0]

/-- **overlap_always_double** (a table closed by evaluation, for the witness pair): of the 20
    interleavings, the 2 serial ones create one account through the key, each of the 18 overlapping
    ones creates two. D11 is therefore not one unlucky schedule but every overlap. -/
theorem overlap_always_double :
    (interleave 6 3 3).length = 20 ∧
    (interleave 6 3 3).all (fun s =>
      countVia 7 (threadResps (runSched exState [⟨exReq, .start⟩, ⟨exReq2, .start⟩] s).2)
        == (if isSerial s then 1 else 2)) = true := by decide

/-! ### … and true when the requests do not overlap -/

def stepN (st : State) (t : Thread) : Nat → State × Thread
  | 0 => (st, t)
  | n + 1 => stepN (step st t).1 (step st t).2 n

theorem stepN_add (st : State) (t : Thread) (a b : Nat) :
    stepN st t (a + b) = stepN (stepN st t a).1 (stepN st t a).2 b := by
  induction a generalizing st t with
  | zero => simp [stepN]
  | succ n ih => rw [Nat.add_right_comm]; simp only [stepN]; exact ih _ _

theorem stepN_done (st : State) (r : Req) (x : Resp) (n : Nat) :
    stepN st ⟨r, .done x⟩ n = (st, ⟨r, .done x⟩) := by
  induction n with
  | zero => rfl
  | succ n ih => simp only [stepN, step]; exact ih

theorem step_req (st : State) (t : Thread) : (step st t).2.req = t.req := by
  unfold step
  repeat' split
  all_goals rfl

/-- three steps of a request from its start are the request run alone -/
theorem stepN_three (st : State) (r : Req) :
    stepN st ⟨r, .start⟩ 3 = ((handle st r).1, ⟨r, .done (handle st r).2⟩) := by
  simp only [stepN, handle]
  cases h1 : stepStart st r with
  | inl x => simp [step, h1]
  | inr k =>
    simp only [step, h1]
    cases hc : stepCreate st r k with
    | mk s y =>
      cases y with
      | inl x => simp
      | inr p => obtain ⟨k', acc⟩ := p; simp

/-- whenever a request has an answer, it is the answer (and the store) of the request run alone
    from the store it started in — provided nobody else moved in between -/
theorem stepN_resp (st : State) (r : Req) (n : Nat) {x : Resp}
    (h : (stepN st ⟨r, .start⟩ n).2.pc = .done x) :
    stepN st ⟨r, .start⟩ n = ((handle st r).1, ⟨r, .done (handle st r).2⟩) := by
  have hreq : ∀ m (s : State) (t : Thread), (stepN s t m).2.req = t.req := by
    intro m
    induction m with
    | zero => intro s t; rfl
    | succ m ih => intro s t; simp only [stepN]; rw [ih, step_req]
  have e1 : stepN st ⟨r, .start⟩ (n + 3) = stepN st ⟨r, .start⟩ n := by
    rw [stepN_add]
    have : (stepN st ⟨r, .start⟩ n).2 = ⟨r, .done x⟩ := by
      have hr := hreq n st ⟨r, .start⟩
      cases hh : (stepN st ⟨r, .start⟩ n).2 with
      | mk rq pc => rw [hh] at h hr; simp at h hr; rw [h, hr]
    rw [this, stepN_done]
    rw [← this]
  have e2 : stepN st ⟨r, .start⟩ (3 + n) = ((handle st r).1, ⟨r, .done (handle st r).2⟩) := by
    rw [stepN_add, stepN_three, stepN_done]
  rw [← e1, Nat.add_comm, e2]

theorem runSched_rep0 (st : State) (t0 t1 : Thread) (n : Nat) (rest : List Nat) :
    runSched st [t0, t1] (List.replicate n 0 ++ rest) =
      runSched (stepN st t0 n).1 [(stepN st t0 n).2, t1] rest := by
  induction n generalizing st t0 with
  | zero => simp [stepN]
  | succ n ih =>
    simp only [List.replicate_succ, List.cons_append, runSched, stepN]
    simp only [List.getElem?_cons_zero, setAt]
    exact ih _ _

theorem runSched_rep1 (st : State) (t0 t1 : Thread) (n : Nat) (rest : List Nat) :
    runSched st [t0, t1] (List.replicate n 1 ++ rest) =
      runSched (stepN st t1 n).1 [t0, (stepN st t1 n).2] rest := by
  induction n generalizing st t1 with
  | zero => simp [stepN]
  | succ n ih =>
    simp only [List.replicate_succ, List.cons_append, runSched, stepN]
    simp only [List.getElem?_cons_succ, List.getElem?_cons_zero, setAt]
    exact ih _ _

theorem countVia_pair_le (k : Nat) (x0 x1 : Resp) (o : Option Resp)
    (h : countVia k [x0, x1] ≤ 1) (ho : o = none ∨ o = some x1) :
    countVia k ([some x0, o].filterMap id) ≤ 1 := by
  rcases ho with rfl | rfl
  · simp only [List.filterMap_cons, id, List.filterMap_nil]
    cases x0 <;> cases x1 <;> simp [countVia] at h ⊢ <;> omega
  · simpa using h

/-- **bind_once_conc_partial.** If the first request has finished (its three steps, or more
    attempts to move) before the second starts, then however far the second gets, the key has
    created at most one account. By symmetry the same holds with the roles exchanged
    (`bind_once_conc_partial_rev`). -/
theorem bind_once_conc_partial (st : State) (r0 r1 : Req) (k : Nat) (hk0 : k ≠ 0)
    (a b : Nat) (ha : 3 ≤ a) :
    countVia k (threadResps (runSched st [⟨r0, .start⟩, ⟨r1, .start⟩]
      (List.replicate a 0 ++ List.replicate b 1)).2) ≤ 1 := by
  obtain ⟨a', rfl⟩ : ∃ a', a = 3 + a' := ⟨a - 3, by omega⟩
  rw [runSched_rep0, stepN_add, stepN_three, stepN_done]
  have := runSched_rep1 (handle st r0).1 ⟨r0, .done (handle st r0).2⟩ ⟨r1, .start⟩ b []
  simp only [List.append_nil] at this
  rw [this]
  simp only [runSched, threadResps, List.filterMap_cons, List.filterMap_nil, Thread.resp]
  have hseq := (bind_once_seq k hk0 [r0, r1] st).1
  simp only [runHist] at hseq
  generalize hs1 : (handle st r0).1 = s1 at *
  generalize hx0 : (handle st r0).2 = x0 at *
  cases hp : (stepN s1 ⟨r1, .start⟩ b).2.pc with
  | done x =>
    have := stepN_resp s1 r1 b hp
    rw [this] at hp
    simp at hp
    rw [← hp]
    exact hseq
  | start => simp; cases x0 <;> simp [countVia] <;> split <;> omega
  | validated _ => simp; cases x0 <;> simp [countVia] <;> split <;> omega
  | created _ _ => simp; cases x0 <;> simp [countVia] <;> split <;> omega

theorem countVia_pair_swap (k : Nat) (x0 x1 : Resp) : countVia k [x1, x0] = countVia k [x0, x1] := by
  cases x0 <;> cases x1 <;> simp [countVia] <;> omega

/-- the same with the second request first -/
theorem bind_once_conc_partial_rev (st : State) (r0 r1 : Req) (k : Nat) (hk0 : k ≠ 0)
    (a b : Nat) (hb : 3 ≤ b) :
    countVia k (threadResps (runSched st [⟨r0, .start⟩, ⟨r1, .start⟩]
      (List.replicate b 1 ++ List.replicate a 0)).2) ≤ 1 := by
  obtain ⟨b', rfl⟩ : ∃ b', b = 3 + b' := ⟨b - 3, by omega⟩
  rw [runSched_rep1, stepN_add, stepN_three, stepN_done]
  have := runSched_rep0 (handle st r1).1 ⟨r0, .start⟩ ⟨r1, .done (handle st r1).2⟩ a []
  simp only [List.append_nil] at this
  rw [this]
  simp only [runSched, threadResps, List.filterMap_cons, List.filterMap_nil, Thread.resp]
  have hseq := (bind_once_seq k hk0 [r1, r0] st).1
  simp only [runHist] at hseq
  generalize hs1 : (handle st r1).1 = s1 at *
  generalize hx1 : (handle st r1).2 = x1 at *
  cases hp : (stepN s1 ⟨r0, .start⟩ a).2.pc with
  | done x =>
    have := stepN_resp s1 r0 a hp
    rw [this] at hp
    simp at hp
    rw [← hp, countVia_pair_swap]
    exact hseq
  | start => simp; cases x1 <;> simp [countVia] <;> split <;> omega
  | validated _ => simp; cases x1 <;> simp [countVia] <;> split <;> omega
  | created _ _ => simp; cases x1 <;> simp [countVia] <;> split <;> omega

/-- the partial theorem is not vacuous: the serial schedule on the D11 pair gives exactly one account -/
example : countVia 7 (threadResps (runSched exState [⟨exReq, .start⟩, ⟨exReq2, .start⟩]
    (List.replicate 3 0 ++ List.replicate 3 1)).2) = 1 := by decide

/-! ### … and for any number of requests that do not overlap -/

theorem getElem?_setAt_self {α : Type} (l : List α) (i : Nat) (a b : α) (h : l[i]? = some a) :
    (setAt l i b)[i]? = some b := by
  induction l generalizing i with
  | nil => simp at h
  | cons x xs ih =>
    cases i with
    | zero => simp [setAt]
    | succ i => simp at h; simp [setAt]; exact ih i h

theorem getElem?_setAt_ne {α : Type} (l : List α) (i j : Nat) (b : α) (h : j ≠ i) :
    (setAt l i b)[j]? = l[j]? := by
  induction l generalizing i j with
  | nil => simp [setAt]
  | cons x xs ih =>
    cases i with
    | zero =>
      cases j with
      | zero => exact absurd rfl h
      | succ j => simp [setAt]
    | succ i =>
      cases j with
      | zero => simp [setAt]
      | succ j => simp [setAt]; exact ih i j (by omega)

theorem setAt_setAt {α : Type} (l : List α) (i : Nat) (a b : α) : setAt (setAt l i a) i b = setAt l i b := by
  induction l generalizing i with
  | nil => simp [setAt]
  | cons x xs ih =>
    cases i with
    | zero => simp [setAt]
    | succ i => simp [setAt]; exact ih i

theorem runSched_move (st : State) (ts : List Thread) (i : Nat) (t : Thread) (rest : List Nat)
    (h : ts[i]? = some t) :
    runSched st ts (i :: rest) = runSched (step st t).1 (setAt ts i (step st t).2) rest := by
  simp [runSched, h]

/-- a request that takes its three steps back to back, whatever the other requests are doing -/
theorem runSched_block (st : State) (ts : List Thread) (i : Nat) (r : Req) (rest : List Nat)
    (h : ts[i]? = some ⟨r, .start⟩) :
    runSched st ts (i :: i :: i :: rest) =
      runSched (handle st r).1 (setAt ts i ⟨r, .done (handle st r).2⟩) rest := by
  have h3 := stepN_three st r
  simp only [stepN] at h3
  rw [runSched_move st ts i _ _ h]
  rw [runSched_move _ _ i _ _ (getElem?_setAt_self ts i _ _ h), setAt_setAt]
  rw [runSched_move _ _ i _ _ (getElem?_setAt_self ts i _ _ h), setAt_setAt]
  have e1 := congrArg Prod.fst h3
  have e2 := congrArg Prod.snd h3
  simp only [] at e1 e2
  rw [e1, e2]

/-- what one thread contributes to `countVia k` -/
def cv (k : Nat) (t : Thread) : Nat :=
  match t.pc with
  | .done (.created _ v) => if v = k then 1 else 0
  | _ => 0

theorem countVia_cons (k : Nat) (t : Thread) (ts : List Thread) :
    countVia k (threadResps (t :: ts)) = cv k t + countVia k (threadResps ts) := by
  obtain ⟨r, pc⟩ := t
  cases pc with
  | done x => cases x <;> simp [threadResps, Thread.resp, cv, countVia]
  | start => simp [threadResps, List.filterMap_cons, Thread.resp, cv]
  | validated _ => simp [threadResps, List.filterMap_cons, Thread.resp, cv]
  | created _ _ => simp [threadResps, List.filterMap_cons, Thread.resp, cv]

theorem countVia_setAt (k : Nat) (ts : List Thread) (i : Nat) (t t' : Thread) (h : ts[i]? = some t) :
    countVia k (threadResps (setAt ts i t')) + cv k t = countVia k (threadResps ts) + cv k t' := by
  induction ts generalizing i with
  | nil => simp at h
  | cons x xs ih =>
    cases i with
    | zero => simp at h; subst h; simp only [setAt, countVia_cons]; omega
    | succ i =>
      simp at h
      have := ih i h
      simp only [setAt, countVia_cons]; omega

/-- the schedule in which the requests listed in `order` run one after the other, each to completion -/
def serialSched (order : List Nat) : List Nat := order.flatMap fun i => [i, i, i]

theorem serial_aux (k : Nat) (hk0 : k ≠ 0) (order : List Nat) (st : State) (ts : List Thread)
    (hnd : order.Nodup) (hstart : ∀ i ∈ order, ∃ r, ts[i]? = some ⟨r, .start⟩) :
    countVia k (threadResps (runSched st ts (serialSched order)).2) ≤ countVia k (threadResps ts) + 1 ∧
    (Bound st k → countVia k (threadResps (runSched st ts (serialSched order)).2) = countVia k (threadResps ts)) := by
  induction order generalizing st ts with
  | nil => simp [serialSched, runSched]
  | cons i rest ih =>
    obtain ⟨r, hi⟩ := hstart i List.mem_cons_self
    have hsched : serialSched (i :: rest) = i :: i :: i :: serialSched rest := by
      simp [serialSched, List.flatMap_cons]
    rw [hsched, runSched_block st ts i r _ hi]
    have hnd' : rest.Nodup := (List.nodup_cons.mp hnd).2
    have hni : i ∉ rest := (List.nodup_cons.mp hnd).1
    cases hh : handle st r with
    | mk s1 x =>
      simp only []
      have hstart' : ∀ j ∈ rest, ∃ r', (setAt ts i ⟨r, .done x⟩)[j]? = some ⟨r', .start⟩ := by
        intro j hj
        obtain ⟨r', hr'⟩ := hstart j (List.mem_cons_of_mem _ hj)
        exact ⟨r', by rw [getElem?_setAt_ne _ _ _ _ (fun e : j = i => hni (e ▸ hj))]; exact hr'⟩
      have ⟨i1, i2⟩ := ih s1 (setAt ts i ⟨r, .done x⟩) hnd' hstart'
      have hc := countVia_setAt k ts i ⟨r, .start⟩ ⟨r, .done x⟩ hi
      have hcv0 : cv k (⟨r, .start⟩ : Thread) = 0 := rfl
      by_cases hx : ∃ acc, x = .created acc k
      · obtain ⟨acc, hx⟩ := hx
        subst hx
        have hsp : Spent s1 k := ⟨acc, created_spends_key hh hk0⟩
        have h0 := i2 hsp.bound
        have hcv1 : cv k (⟨r, .done (.created acc k)⟩ : Thread) = 1 := by simp [cv]
        refine ⟨by omega, fun hb => ?_⟩
        exact absurd (congrArg Prod.snd hh) (bound_key_refused hk0 hb r acc)
      · have hcv1 : cv k (⟨r, .done x⟩ : Thread) = 0 := by
          cases x with
          | created a v =>
            have : v ≠ k := fun hv => hx ⟨a, by rw [hv]⟩
            simp [cv, this]
          | err e => simp [cv]
          | existing a => simp [cv]
        have hkeep : getKey s1 k = getKey st k := by
          rcases handle_getKey hh k with he | ⟨acc, hxx, _⟩
          · exact he
          · exact absurd ⟨acc, hxx⟩ hx
        refine ⟨by omega, fun hb => ?_⟩
        obtain ⟨key, hb1, hb2⟩ := hb
        have := i2 ⟨key, by rw [hkeep]; exact hb1, hb2⟩
        omega

/-- **bind_once_conc_serial.** Any number of new-account requests, any subset of them run one after
    the other in any order, each taking its three steps without another request moving in between:
    a binding key creates at most one account. -/
theorem bind_once_conc_serial (k : Nat) (hk0 : k ≠ 0) (st : State) (reqs : List Req) (order : List Nat)
    (hnd : order.Nodup) (hlt : ∀ i ∈ order, i < reqs.length) :
    countVia k (threadResps (runSched st (reqs.map (⟨·, .start⟩)) (serialSched order)).2) ≤ 1 := by
  have h0 : ∀ l : List Req, countVia k (threadResps (l.map (⟨·, .start⟩))) = 0 := by
    intro l
    induction l with
    | nil => rfl
    | cons r rs ih => rw [List.map_cons, countVia_cons, ih]; rfl
  have hs : ∀ i ∈ order, ∃ r, (reqs.map (⟨·, .start⟩ : Req → Thread))[i]? = some ⟨r, .start⟩ := by
    intro i hi
    have := hlt i hi
    exact ⟨reqs[i], by simp [List.getElem?_map, List.getElem?_eq_getElem this]⟩
  have := (serial_aux k hk0 order st _ hnd hs).1
  rw [h0 reqs] at this
  exact this

-- three requests through one key, run serially in the order 2, 0, 1: one account
example : countVia 7 (threadResps (runSched exState [⟨exReq, .start⟩, ⟨exReq2, .start⟩, ⟨exReq, .start⟩]
    (serialSched [2, 0, 1])).2) = 1 := by decide


/-! ## 4. the key's policy limits every order of the account bound to it -/

theorem allAllowed_pass {e : Policy.Engine} {idents : List Policy.Names} (h : allAllowed e idents = .pass) :
    ∀ n ∈ idents, Policy.validateNames e n = .allow := by
  induction idents with
  | nil => intro n hn; cases hn
  | cons x xs ih =>
    intro n hn
    simp only [allAllowed] at h
    cases hx : Policy.validateNames e x with
    | allow =>
      rw [hx] at h
      cases hn with
      | head => exact hx
      | tail _ hn => exact ih h n hn
    | deny r k => rw [hx] at h; cases h
    | crash => rw [hx] at h; cases h

/-- **policy_limits_orders.** Under a provisioner that requires external account binding, if a key of
    that provisioner is bound to the account and a name policy that builds an engine is attached to
    it, a new-order request gets past the account-level gate only if **every** identifier — as sent,
    a wildcard as the literal wildcard name — is allowed by that engine (`Verif.Policy.validateNames`,
    whose meaning is `Verif.Policy.validateNames_allow` and the `*_sound` theorems of C04). -/
theorem policy_limits_orders {st : State} {prov acc : Nat} {pol : Nat → Option (Policy.Build Policy.Engine)}
    {idents : List Policy.Names} {k : EKey} {e : Policy.Engine}
    (hk : keyOfAccount st prov acc = some k) (he : pol k.id = some (.ok e))
    (h : orderGate st true prov acc pol idents = .pass) :
    ∀ n ∈ idents, Policy.validateNames e n = .allow := by
  unfold orderGate at h
  simp only [Bool.not_true, Bool.false_eq_true, if_false, hk, he] at h
  exact allAllowed_pass h

/-- the key found is one of this provisioner, bound to this very account -/
theorem keyOfAccount_bound {st : State} {prov acc : Nat} {k : EKey} (hk : keyOfAccount st prov acc = some k) :
    k ∈ st.keys ∧ k.prov = prov ∧ k.bound = true ∧ k.account = acc := by
  unfold keyOfAccount at hk
  have h1 := List.mem_of_find?_eq_some hk
  have h2 := List.find?_some hk
  simp at h2
  exact ⟨h1, h2.1.1, h2.1.2, h2.2⟩

/-- not vacuous: after the witness account was created through key 7, an engine that permits only
    `zap.internal` (no literal wildcards) lets `zap.internal` through and stops `*.zap.internal` -/
def exEngine : Policy.Engine :=
  { verifyCN := true, allowWild := false, pCN := [], xCN := [], pDNS := [Verif.s "zap.internal"], xDNS := [],
    pIP := [], xIP := [], pEmail := [], xEmail := [], pURI := [], xURI := [], pPrin := [], xPrin := [] }

def exNames (raw idna : String) : Policy.Names := { dns := [⟨Verif.s raw, some (Verif.s idna)⟩] }
def exPol : Nat → Option (Policy.Build Policy.Engine) := fun k => if k = 7 then some (.ok exEngine) else none

example : keyOfAccount (handle exState exReq).1 1 1 = some { id := 7, prov := 1, hasSecret := false, bound := true, account := 1 } := by
  decide
example : orderGate (handle exState exReq).1 true 1 1 exPol [exNames "zap.internal" "zap.internal"] = .pass := by decide
example : orderGate (handle exState exReq).1 true 1 1 exPol [exNames "zap.internal" "zap.internal", exNames "*.zap.internal" ".zap.internal"]
    = .rejected := by decide
-- another account (none bound to a key) is not limited by key 7's policy
example : orderGate (handle exState exReq).1 true 1 2 exPol [exNames "*.zap.internal" ".zap.internal"] = .pass := by decide

end Verif.EAB
