import Verif.Model.EAB
/-!
  C20 — ACME external account binding keys bind once, to the key that proved them.

  Property theorems about `Verif.EAB` (model of acme/api/eab.go, acme/api/account.go NewAccount,
  acme/account.go BindTo/AlreadyBound, acme/db/nosql/eab.go, the account-level policy gate of
  acme/api/order.go NewOrder; tied to the code by the C20 stages `hist`, `conc`, `bindonce`, `policy`, `order`).

  * `account_only_if`        — the full conjunction behind every account created under RequireEAB
  * `created_spends_key`     — a creation through key k leaves k bound to that account, secret erased
  * `bound_key_refused`      — no request creates an account through a bound key
  * `bind_once_seq`          — every sequential history creates ≤ 1 account per key; afterwards spent
  * `bind_once_conc`         — ANY number of requests, ANY interleaving of their steps (code after fix 1f3b0b9):
                               ≤ 1 request answered 201 per key, the key record names exactly that account,
                               and once all are answered at most one ACTIVE account was stored for the key — that one
  * `keyInv_step`            — the invariant behind it, preserved by every step of every request
  * `interleavings_bind_once`— (table, `decide`) all 70 interleavings of the witness pair
  * `policy_limits_orders`   — the policy attached to a key limits every order of the account bound to it
  * `steps_cover_calls`      — (table) the model's steps are the store calls of one request in source order
  * historic `example`s      — D11 before 1f3b0b9: the second update replaced the first binding
-/
namespace Verif.EAB

/-! ## lookups -/

theorem findKey_id {ks : List EKey} {id : Nat} {k : EKey} (h : findKey ks id = some k) : k.id = id := by
  induction ks with
  | nil => simp [findKey] at h
  | cons x xs ih =>
    simp only [findKey] at h
    split at h
    · simp at h; subst h; assumption
    · exact ih h

theorem getKey_id {st : State} {id : Nat} {k : EKey} (h : getKey st id = some k) : k.id = id :=
  findKey_id h

theorem findKey_setKey_ne (ks : List EKey) (nu : EKey) (id : Nat) (hne : id ≠ nu.id) :
    findKey (setKey ks nu) id = findKey ks id := by
  induction ks with
  | nil => rfl
  | cons x xs ih =>
    simp only [setKey, findKey]
    by_cases hx : x.id = nu.id
    · have h1 : ¬ nu.id = id := fun h => hne h.symm
      simp [hx, h1, ih]
    · simp [hx, ih]

theorem findKey_setKey_eq (ks : List EKey) (nu : EKey) :
    findKey (setKey ks nu) nu.id = (findKey ks nu.id).map (fun _ => nu) := by
  induction ks with
  | nil => rfl
  | cons x xs ih =>
    simp only [setKey, findKey]
    by_cases hx : x.id = nu.id
    · simp [hx]
    · simp [hx, ih]

/-! ## 1. an account is created under RequireEAB only if … -/

theorem validateEABJWS_ok {u : Nat} {b : Binding} {kid : Nat} (h : validateEABJWS u b = .ok kid) :
    b.nsigs = 1 ∧ b.algMac = true ∧ b.kid ≠ 0 ∧ b.hasNonce = false ∧ b.url = some u ∧ kid = b.kid := by
  unfold validateEABJWS at h
  repeat' (split at h <;> try (simp at h))
  simp_all

/-- Everything `validateExternalAccountBinding` has established when it hands back key `k`. -/
structure BindingAccepted (st : State) (r : Req) (b : Binding) (k : EKey) : Prop where
  given : r.binding = some b
  parses : r.bindingParses = true
  oneSig : b.nsigs = 1
  macAlg : b.algMac = true                 -- HS256 / HS384 / HS512
  kid : b.kid ≠ 0
  noNonce : b.hasNonce = false
  sameUrl : b.url = some r.outerUrl        -- url present and equal to the outer JWS's
  stored : getKey st b.kid = some k        -- the key exists …
  thisProv : k.prov = r.prov               -- … for the provisioner of the request
  secret : k.hasSecret = true
  unbound : k.bound = false
  mac : b.macOk = true                     -- the MAC verifies under the key's secret
  sameKey : b.payloadKey = some r.outerKey -- the payload is exactly the outer account key

theorem validateEAB_some {st : State} {r : Req} {k : EKey} (h : validateEAB st r = .ok (some k)) :
    r.requireEAB = true ∧ ∃ b, BindingAccepted st r b k := by
  unfold validateEAB at h
  repeat' (split at h <;> try (simp at h))
  have hv' := validateEABJWS_ok ‹validateEABJWS _ _ = .ok _›
  rename_i b _ _ _ _ _ _ _ _ _ _ _ _ _ _ _ _
  refine ⟨by simp_all, b, ?_⟩
  constructor <;> simp_all

theorem validateEAB_none {st : State} {r : Req} (h : validateEAB st r = .ok none) : r.requireEAB = false := by
  unfold validateEAB at h
  repeat' (split at h <;> try (simp at h))
  simp_all

theorem stepStart_inr {st : State} {r : Req} {k : Option EKey} (h : stepStart st r = .inr k) :
    r.payloadOk = true ∧ acctOfKey st r.outerKey = none ∧ r.onlyExisting = false ∧ validateEAB st r = .ok k := by
  unfold stepStart at h
  repeat' (split at h <;> try (simp at h))
  simp_all

theorem stepStart_not_created {st : State} {r : Req} {a v : Nat} : stepStart st r ≠ .inl (.created a v) := by
  unfold stepStart
  repeat' (split <;> try simp)

theorem stepUpdate_success {st : State} {r : Req} {k : EKey} {acc : Nat}
    (hb : k.bound = false) (hg : getKey st k.id = some k) (hp : k.prov = r.prov) :
    stepUpdate st r k acc = ({ st with keys := setKey st.keys (bindTo k acc) }, .inl (.created acc k.id)) := by
  simp [stepUpdate, hb, hg, hp]

/-- Shape of every successful creation by a request run alone. -/
theorem handle_created {st st' : State} {r : Req} {acc via : Nat}
    (h : handle st r = (st', .created acc via)) :
    r.payloadOk = true ∧ acctOfKey st r.outerKey = none ∧ r.onlyExisting = false ∧ acc = st.next ∧
    ((validateEAB st r = .ok none ∧ via = 0 ∧ st' = addAcct st r.outerKey 0) ∨
     (∃ k, validateEAB st r = .ok (some k) ∧ via = k.id ∧
        st' = { addAcct st r.outerKey k.id with keys := setKey st.keys (bindTo k acc) })) := by
  unfold handle at h
  cases h1 : stepStart st r with
  | inl x =>
    simp [h1] at h
    exact absurd (h.2 ▸ h1) stepStart_not_created
  | inr k =>
    have ⟨p1, p2, p3, p4⟩ := stepStart_inr h1
    simp only [h1, stepCreate, p2] at h
    cases k with
    | none =>
      simp at h
      refine ⟨p1, p2, p3, h.2.1.symm, .inl ⟨p4, h.2.2.symm, h.1.symm⟩⟩
    | some k =>
      have ⟨_, b, hb⟩ := validateEAB_some p4
      have hid := getKey_id hb.stored
      have hg : getKey (addAcct st r.outerKey k.id) k.id = some k := by
        simp only [getKey, addAcct]; rw [hid]; exact hb.stored
      simp only [] at h
      rw [stepUpdate_success hb.unbound hg hb.thisProv] at h
      simp at h
      refine ⟨p1, p2, p3, h.2.1.symm, .inr ⟨k, p4, h.2.2.symm, ?_⟩⟩
      rw [← h.1, ← h.2.1]
      simp [addAcct]

/-- **account_only_if.** Under a provisioner that requires external account binding, a request run
    alone creates an account only if no account exists for its key and it embeds a binding that:
    has one signature, a MAC algorithm, a key id, no nonce, the outer URL; names a stored key of
    *this* provisioner that still has its secret and is not bound; verifies under that secret; and
    whose payload is exactly the outer account key. The key it is recorded against is that key. -/
theorem account_only_if {st st' : State} {r : Req} {acc via : Nat}
    (h : handle st r = (st', .created acc via)) (hE : r.requireEAB = true) :
    acctOfKey st r.outerKey = none ∧ ∃ b k, BindingAccepted st r b k ∧ via = k.id ∧ via ≠ 0 := by
  have ⟨_, p2, _, _, hc⟩ := handle_created h
  refine ⟨p2, ?_⟩
  rcases hc with ⟨hn, _, _⟩ | ⟨k, hk, hv, _⟩
  · have := validateEAB_none hn; simp [hE] at this
  · have ⟨_, b, hb⟩ := validateEAB_some hk
    refine ⟨b, k, hb, hv, ?_⟩
    rw [hv, getKey_id hb.stored]; exact hb.kid

/-- the hypotheses of `account_only_if` are satisfiable: a well-formed request against a fresh key -/
def exKey : EKey := { id := 7, prov := 1, hasSecret := true, bound := false, account := 0 }
def exBinding : Binding :=
  { nsigs := 1, algMac := true, kid := 7, hasNonce := false, url := some 100, macOk := true, payloadKey := some 41 }
def exReq : Req :=
  { prov := 1, requireEAB := true, outerKey := 41, outerUrl := 100, payloadOk := true,
    onlyExisting := false, binding := some exBinding, bindingParses := true }
def exState : State := { keys := [exKey], accts := [], next := 1 }

example : (handle exState exReq).2 = .created 1 7 := by decide
example : (handle (handle exState exReq).1 { exReq with outerKey := 42, binding := some { exBinding with payloadKey := some 42 } }).2
    = .err .serverInternal := by decide   -- the spent key has no secret bytes left

/-! ## 2. bind once — sequential histories -/

/-- key `k` is bound in the store -/
def Bound (st : State) (k : Nat) : Prop := ∃ key, getKey st k = some key ∧ key.bound = true
/-- key `k` is bound to account `a` and its secret is gone -/
def SpentOn (st : State) (k a : Nat) : Prop :=
  ∃ key, getKey st k = some key ∧ key.bound = true ∧ key.hasSecret = false ∧ key.account = a
/-- key `k` is bound and its secret is gone -/
def Spent (st : State) (k : Nat) : Prop := ∃ a, SpentOn st k a

theorem Spent.bound {st : State} {k : Nat} (h : Spent st k) : Bound st k := by
  obtain ⟨_, key, h1, h2, _⟩ := h; exact ⟨key, h1, h2⟩

/-- **created_spends_key.** After an account was created through key `via`, the stored key is
    bound to exactly that account and its secret is erased. -/
theorem created_spends_key {st st' : State} {r : Req} {acc via : Nat}
    (h : handle st r = (st', .created acc via)) (hv : via ≠ 0) : SpentOn st' via acc := by
  have ⟨_, _, _, _, hc⟩ := handle_created h
  rcases hc with ⟨_, h0, _⟩ | ⟨k, hk, hvia, hst⟩
  · exact absurd h0 hv
  · have ⟨_, b, hb⟩ := validateEAB_some hk
    have hid := getKey_id hb.stored
    refine ⟨bindTo k acc, ?_, rfl, rfl, rfl⟩
    subst hst
    have := findKey_setKey_eq st.keys (bindTo k acc)
    simp only [bindTo] at this ⊢
    simp only [getKey, hvia]
    rw [this]
    have hs : findKey st.keys k.id = some k := by rw [hid]; exact hb.stored
    simp [hs]

/-- **bound_key_refused.** Whatever the request, no account is created through a key that is
    already bound (`k ≠ 0`: `via = 0` means "no key was involved"). -/
theorem bound_key_refused {st : State} {k : Nat} (hk0 : k ≠ 0) (hb : Bound st k) (r : Req) (acc : Nat) :
    (handle st r).2 ≠ .created acc k := by
  intro hx
  obtain ⟨key, hk, hkb⟩ := hb
  have h : handle st r = ((handle st r).1, .created acc k) := by rw [← hx]
  have ⟨_, _, _, _, hc⟩ := handle_created h
  rcases hc with ⟨_, h0, _⟩ | ⟨k', hk', hvia, _⟩
  · exact hk0 h0
  · have ⟨_, b, hb⟩ := validateEAB_some hk'
    have hid := getKey_id hb.stored
    have hs := hb.stored
    rw [← hid, ← hvia, hk] at hs
    have hu := hb.unbound
    simp at hs; subst hs
    simp [hkb] at hu

theorem stepCreate_keys (st : State) (r : Req) (k : Option EKey) : (stepCreate st r k).1.keys = st.keys := by
  unfold stepCreate
  split
  · rfl
  · split <;> rfl

theorem stepUpdate_cases (st : State) (r : Req) (k : EKey) (acc : Nat) :
    (∃ e, stepUpdate st r k acc = (st, .inl (.err e))) ∨
    (∃ e, stepUpdate st r k acc = (st, .inr (acc, e))) ∨
    stepUpdate st r k acc = ({ st with keys := setKey st.keys (bindTo k acc) }, .inl (.created acc k.id)) := by
  unfold stepUpdate
  repeat' split
  all_goals first | exact .inl ⟨_, rfl⟩ | exact .inr (.inl ⟨_, rfl⟩) | exact .inr (.inr rfl)

/-- a request that does not end in a creation leaves the key store alone -/
theorem handle_keys {st st' : State} {r : Req} {x : Resp} (h : handle st r = (st', x)) :
    st'.keys = st.keys ∨ ∃ acc via, x = .created acc via := by
  unfold handle at h
  cases h1 : stepStart st r with
  | inl y => simp [h1] at h; left; rw [← h.1]
  | inr k =>
    simp only [h1] at h
    have hk := stepCreate_keys st r k
    cases hc : stepCreate st r k with
    | mk s y =>
      rw [hc] at h hk
      cases y with
      | inl y => simp at h; left; rw [← h.1]; exact hk
      | inr p =>
        obtain ⟨k', acc⟩ := p
        simp only [] at h
        rcases stepUpdate_cases s r k' acc with ⟨e, he⟩ | ⟨e, he⟩ | he
        · rw [he] at h; simp at h; left; rw [← h.1]; exact hk
        · rw [he] at h; simp [stepUndo] at h; left; rw [← h.1]; exact hk
        · rw [he] at h; simp at h; right; exact ⟨acc, k'.id, h.2.symm⟩

/-- one request changes a stored key only by spending it -/
theorem handle_getKey {st st' : State} {r : Req} {x : Resp} (h : handle st r = (st', x)) (id : Nat) :
    getKey st' id = getKey st id ∨ (∃ acc, x = .created acc id ∧ id ≠ 0) := by
  rcases handle_keys h with hk | ⟨acc, via, hx⟩
  · left; simp [getKey, hk]
  · subst hx
    have ⟨_, _, _, _, hc⟩ := handle_created h
    rcases hc with ⟨_, _, hst⟩ | ⟨k, hk, hvia, hst⟩
    · left; subst hst; rfl
    · by_cases hid : id = via
      · right
        have ⟨_, b, hb⟩ := validateEAB_some hk
        refine ⟨acc, by rw [hid], ?_⟩
        rw [hid, hvia, getKey_id hb.stored]; exact hb.kid
      · left
        subst hst
        simp only [getKey]
        exact findKey_setKey_ne _ _ _ (by simpa [bindTo, ← hvia] using hid)

theorem handle_keeps_spent {st st' : State} {r : Req} {x : Resp} (h : handle st r = (st', x))
    {k : Nat} (hk0 : k ≠ 0) (hs : Spent st k) : Spent st' k := by
  rcases handle_getKey h k with he | ⟨acc, hx, _⟩
  · obtain ⟨a, key, h1, h2⟩ := hs
    exact ⟨a, key, by rw [he]; exact h1, h2⟩
  · subst hx
    exact absurd (congrArg Prod.snd h) (bound_key_refused hk0 hs.bound r acc)

/-- **bind_once_seq.** In every sequential history, from every store, each binding key creates at
    most one account; none at all if it was bound at the start; and once it has created one it is
    bound with its secret erased at the end of the history. -/
theorem bind_once_seq (k : Nat) (hk0 : k ≠ 0) (reqs : List Req) (st : State) :
    countVia k (runHist st reqs).2 ≤ 1 ∧
    (Bound st k → countVia k (runHist st reqs).2 = 0) ∧
    (countVia k (runHist st reqs).2 = 1 → Spent (runHist st reqs).1 k) ∧
    (Spent st k → Spent (runHist st reqs).1 k) := by
  induction reqs generalizing st with
  | nil => simp [runHist, countVia]
  | cons r rs ih =>
    simp only [runHist]
    cases hh : handle st r with
    | mk s1 x =>
      have ⟨i1, i2, i3, i4⟩ := ih s1
      simp only []
      by_cases hx : ∃ acc, x = .created acc k
      · obtain ⟨acc, hx⟩ := hx
        subst hx
        have hsp : Spent s1 k := ⟨acc, created_spends_key hh hk0⟩
        have h0 := i2 hsp.bound
        refine ⟨by simp [countVia, h0], ?_, fun _ => i4 hsp, fun _ => i4 hsp⟩
        intro hb
        exact absurd (congrArg Prod.snd hh) (bound_key_refused hk0 hb r acc)
      · have hc : countVia k (x :: (runHist s1 rs).2) = countVia k (runHist s1 rs).2 := by
          cases x with
          | created a v =>
            have : v ≠ k := fun hv => hx ⟨a, by rw [hv]⟩
            simp [countVia, this]
          | err e => simp [countVia]
          | existing a => simp [countVia]
        rw [hc]
        have hkeep : getKey s1 k = getKey st k := by
          rcases handle_getKey hh k with he | ⟨acc, hxx, _⟩
          · exact he
          · exact absurd ⟨acc, hxx⟩ hx
        refine ⟨i1, ?_, i3, ?_⟩
        · intro ⟨key, hb1, hb2⟩
          exact i2 ⟨key, by rw [hkeep]; exact hb1, hb2⟩
        · intro hs
          exact i4 (handle_keeps_spent hh hk0 hs)

example : countVia 7 (runHist exState [exReq, { exReq with outerKey := 42, binding := some { exBinding with payloadKey := some 42 } }, exReq]).2 = 1 := by
  decide

/-! ## 3. bind once — every interleaving of any number of requests (D11 fixed by 1f3b0b9) -/

theorem mem_setAt {α : Type} {l : List α} {i : Nat} {a x : α} (h : x ∈ setAt l i a) : x = a ∨ x ∈ l := by
  induction l generalizing i with
  | nil => simp [setAt] at h
  | cons y ys ih =>
    cases i with
    | zero =>
      simp only [setAt, List.mem_cons] at h
      rcases h with h | h
      · exact .inl h
      · exact .inr (List.mem_cons_of_mem _ h)
    | succ i =>
      simp only [setAt, List.mem_cons] at h
      rcases h with h | h
      · exact .inr (by rw [h]; exact List.mem_cons_self)
      · rcases ih h with h' | h'
        · exact .inl h'
        · exact .inr (List.mem_cons_of_mem _ h')

theorem mem_setAt_self {α : Type} {l : List α} {i : Nat} {t a : α} (h : l[i]? = some t) : a ∈ setAt l i a := by
  induction l generalizing i with
  | nil => simp at h
  | cons y ys ih =>
    cases i with
    | zero => simp [setAt]
    | succ i => simp at h; simp only [setAt, List.mem_cons]; exact .inr (ih h)

theorem mem_setAt_of_ne {α : Type} {l : List α} {i : Nat} {t a x : α} (h : l[i]? = some t) (hx : x ∈ l) (hne : x ≠ t) :
    x ∈ setAt l i a := by
  induction l generalizing i with
  | nil => simp at h
  | cons y ys ih =>
    cases i with
    | zero =>
      simp at h; subst h
      simp only [setAt, List.mem_cons] at hx ⊢
      rcases hx with hx | hx
      · exact absurd hx hne
      · exact .inr hx
    | succ i =>
      simp at h
      simp only [setAt, List.mem_cons] at hx ⊢
      rcases hx with hx | hx
      · exact .inl hx
      · exact .inr (ih h hx)

/-- every way one step of one request can go: state before, program counter before, state after,
    program counter after -/
inductive StepRel (r : Req) : State → Pc → State → Pc → Prop where
  | startDone (st : State) (x : Resp) (hx : ∀ a v, x ≠ .created a v) : StepRel r st .start st (.done x)
  | startVal (st : State) (ko : Option EKey)
      (h : ∀ key, ko = some key → key.bound = false ∧ getKey st key.id = some key) :
      StepRel r st .start st (.validated ko)
  | createFail (st : State) (ko : Option EKey) : StepRel r st (.validated ko) st (.done (.err .serverInternal))
  | createNoKey (st : State) : StepRel r st (.validated none) (addAcct st r.outerKey 0) (.done (.created st.next 0))
  | createKey (st : State) (key : EKey) :
      StepRel r st (.validated (some key)) (addAcct st r.outerKey key.id) (.created key st.next)
  | bindRefused (st : State) (key : EKey) (acc : Nat) (hb : key.bound = true) :
      StepRel r st (.created key acc) st (.done (.err .unauthorized))
  | updateFail (st : State) (key : EKey) (acc : Nat) (e : Err) : StepRel r st (.created key acc) st (.undo acc e)
  | updateOk (st : State) (key : EKey) (acc : Nat) (old : EKey) (hb : key.bound = false)
      (hold : getKey st key.id = some old) (hu : old.bound = false) :
      StepRel r st (.created key acc) { st with keys := setKey st.keys (bindTo key acc) } (.done (.created acc key.id))
  | undo (st : State) (acc : Nat) (e : Err) :
      StepRel r st (.undo acc e) { st with dead := acc :: st.dead } (.done (.err e))
  | idle (st : State) (x : Resp) : StepRel r st (.done x) st (.done x)

theorem step_rel (st : State) (r : Req) (pc : Pc) :
    ∃ st' pc', step st ⟨r, pc⟩ = (st', ⟨r, pc'⟩) ∧ StepRel r st pc st' pc' := by
  cases pc with
  | done x => exact ⟨st, .done x, by simp [step], .idle st x⟩
  | undo acc e => exact ⟨_, _, by simp [step, stepUndo], .undo st acc e⟩
  | start =>
    cases hs : stepStart st r with
    | inl x =>
      refine ⟨st, .done x, by simp [step, hs], .startDone st x ?_⟩
      intro a v hxe
      exact absurd (hxe ▸ hs) stepStart_not_created
    | inr ko =>
      refine ⟨st, .validated ko, by simp [step, hs], .startVal st ko ?_⟩
      intro key hk
      subst hk
      have ⟨_, _, _, hv⟩ := stepStart_inr hs
      have ⟨_, b, hb⟩ := validateEAB_some hv
      exact ⟨hb.unbound, by rw [getKey_id hb.stored]; exact hb.stored⟩
  | validated ko =>
    cases hacc : acctOfKey st r.outerKey with
    | some a => exact ⟨st, _, by simp [step, stepCreate, hacc], .createFail st ko⟩
    | none =>
      cases ko with
      | none => exact ⟨_, _, by simp [step, stepCreate, hacc], .createNoKey st⟩
      | some key => exact ⟨_, _, by simp [step, stepCreate, hacc], .createKey st key⟩
  | created key acc =>
    by_cases hb : key.bound = true
    · exact ⟨st, _, by simp [step, stepUpdate, hb], .bindRefused st key acc hb⟩
    · have hb' : key.bound = false := by simpa using hb
      cases hg : getKey st key.id with
      | none => exact ⟨st, _, by simp [step, stepUpdate, hb', hg], .updateFail st key acc .serverInternal⟩
      | some old =>
        by_cases h1 : old.prov ≠ r.prov
        · exact ⟨st, _, by simp [step, stepUpdate, hb', hg, h1], .updateFail st key acc .serverInternal⟩
        · by_cases h2 : old.prov ≠ key.prov
          · exact ⟨st, _, by simp only [step, stepUpdate, hb', hg]; simp [h1, h2], .updateFail st key acc .serverInternal⟩
          · by_cases h3 : old.bound = true
            · exact ⟨st, _, by simp only [step, stepUpdate, hb', hg]; simp [h1, h2, h3], .updateFail st key acc .unauthorized⟩
            · have h3' : old.bound = false := by simpa using h3
              exact ⟨_, _, by simp only [step, stepUpdate, hb', hg]; simp [h1, h2, h3'], .updateOk st key acc old hb' hg h3'⟩

/-- the request has been answered 201 with key `k` bound -/
def doneVia (k : Nat) (t : Thread) : Bool :=
  match t.pc with
  | .done (.created _ v) => v == k
  | _ => false

def cntT (f : Thread → Bool) : List Thread → Nat
  | [] => 0
  | t :: ts => (if f t then 1 else 0) + cntT f ts

theorem cntT_setAt (f : Thread → Bool) (ts : List Thread) (i : Nat) (t t' : Thread) (h : ts[i]? = some t) :
    cntT f (setAt ts i t') + (if f t then 1 else 0) = cntT f ts + (if f t' then 1 else 0) := by
  induction ts generalizing i with
  | nil => simp at h
  | cons x xs ih =>
    cases i with
    | zero => simp at h; subst h; simp only [setAt, cntT]; omega
    | succ i => simp at h; have := ih i h; simp only [setAt, cntT]; omega

theorem cntT_ge (f : Thread → Bool) (ts : List Thread) (i : Nat) (t : Thread) (h : ts[i]? = some t) :
    (if f t then 1 else 0) ≤ cntT f ts := by
  induction ts generalizing i with
  | nil => simp at h
  | cons x xs ih =>
    cases i with
    | zero => simp at h; subst h; simp only [cntT]; omega
    | succ i => simp at h; have := ih i h; simp only [cntT]; omega

theorem countVia_eq_cntT (k : Nat) (ts : List Thread) : countVia k (threadResps ts) = cntT (doneVia k) ts := by
  induction ts with
  | nil => rfl
  | cons t ts ih =>
    obtain ⟨r, pc⟩ := t
    have hc : threadResps (⟨r, pc⟩ :: ts) = (match pc with | .done x => [x] | _ => []) ++ threadResps ts := by
      cases pc <;> simp [threadResps, List.filterMap_cons, Thread.resp]
    rw [hc]
    cases pc with
    | done x =>
      cases x with
      | created a v => simp only [List.cons_append, List.nil_append, countVia, cntT, doneVia, ih]; simp
      | err e => simp only [List.cons_append, List.nil_append, countVia, cntT, doneVia, ih]; simp
      | existing a => simp only [List.cons_append, List.nil_append, countVia, cntT, doneVia, ih]; simp
    | start => simp [cntT, doneVia, ih]
    | validated _ => simp [cntT, doneVia, ih]
    | created _ _ => simp [cntT, doneVia, ih]
    | undo _ _ => simp [cntT, doneVia, ih]

theorem Bound_setKey {st : State} {k : Nat} (nu : EKey) (hnu : nu.bound = true) (h : Bound st k) :
    Bound { st with keys := setKey st.keys nu } k := by
  obtain ⟨key, hk, hb⟩ := h
  by_cases hid : k = nu.id
  · subst hid
    refine ⟨nu, ?_, hnu⟩
    simp only [getKey] at hk ⊢
    rw [findKey_setKey_eq, hk]; rfl
  · exact ⟨key, by simp only [getKey] at hk ⊢; rw [findKey_setKey_ne _ _ _ hid]; exact hk, hb⟩

/-- no step unbinds a key or moves a spent key to another account -/
theorem spent_rel {r : Req} {st st' : State} {pc pc' : Pc} (h : StepRel r st pc st' pc') {k a : Nat}
    (hs : SpentOn st k a) : SpentOn st' k a := by
  cases h with
  | updateOk key acc old hb hold hu =>
    obtain ⟨x, hx, hxb, hrest⟩ := hs
    by_cases hid : k = key.id
    · subst hid; rw [hold] at hx; cases hx; rw [hu] at hxb; cases hxb
    · exact ⟨x, by simp only [getKey] at hx ⊢; rw [findKey_setKey_ne _ _ _ (by simpa [bindTo] using hid)]; exact hx, hxb, hrest⟩
  | _ => exact hs

theorem bound_rel {r : Req} {st st' : State} {pc pc' : Pc} (h : StepRel r st pc st' pc') {k : Nat}
    (hb : Bound st k) : Bound st' k := by
  cases h with
  | updateOk key acc old hb' hold hu => exact Bound_setKey _ rfl hb
  | _ => exact hb

/-- account `a`, stored for key `k`, is still in the hands of its request: the key update or the
    deactivation is yet to come -/
def heldBy (k a : Nat) (t : Thread) : Prop :=
  (∃ key, t.pc = .created key a ∧ key.id = k ∧ key.bound = false) ∨ (∃ e, t.pc = .undo a e)

/-- what is true of key `k` in every reachable state of every interleaving -/
structure KeyInv (k : Nat) (st : State) (ts : List Thread) : Prop where
  /-- at most one request has been answered 201 through `k` … -/
  once : cntT (doneVia k) ts ≤ 1
  /-- … and then `k` is bound -/
  doneBound : cntT (doneVia k) ts ≥ 1 → Bound st k
  /-- the key record names exactly the account of that answer, secret erased -/
  named : ∀ t ∈ ts, ∀ acc, t.pc = .done (.created acc k) → SpentOn st k acc
  /-- private copies handed out by validation are unbound -/
  copies : ∀ t ∈ ts, ∀ key, t.pc = .validated (some key) → key.bound = false
  /-- every account stored for `k` that is still active is the one the key names, or is still in the
      hands of its request -/
  active : ∀ a, (a, k) ∈ st.via → a ∉ st.dead → SpentOn st k a ∨ ∃ t ∈ ts, heldBy k a t

/-- the facts about one step that the invariant needs, case by case of `StepRel` -/
theorem rel_facts (k : Nat) (hk0 : k ≠ 0) {r : Req} {st st' : State} {pc pc' : Pc} (h : StepRel r st pc st' pc')
    (hcopy : ∀ key, pc = .validated (some key) → key.bound = false) :
    (∀ acc, pc' = .done (.created acc k) → pc = .done (.created acc k) ∨ (¬ Bound st k ∧ SpentOn st' k acc)) ∧
    (∀ key, pc' = .validated (some key) → key.bound = false) ∧
    (∀ a, (a, k) ∈ st'.via → a ∉ st'.dead → ((a, k) ∈ st.via ∧ a ∉ st.dead) ∨ heldBy k a ⟨r, pc'⟩) ∧
    (∀ a, heldBy k a ⟨r, pc⟩ → a ∉ st'.dead → heldBy k a ⟨r, pc'⟩ ∨ SpentOn st' k a) := by
  have nohold : ∀ {p : Pc} (a : Nat), (∀ key acc, p ≠ .created key acc) → (∀ acc e, p ≠ .undo acc e) →
      ¬ heldBy k a ⟨r, p⟩ := by
    intro p a h1 h2 hh
    rcases hh with ⟨key, hp, _⟩ | ⟨e, hp⟩
    · exact h1 _ _ hp
    · exact h2 _ _ hp
  cases h with
  | startDone x hx =>
    refine ⟨?_, ?_, ?_, ?_⟩
    · intro acc h; exact absurd (Pc.done.inj h) (hx acc k)
    · intro key h; cases h
    · intro a h1 h2; exact .inl ⟨h1, h2⟩
    · intro a hh; exact absurd hh (nohold a (fun _ _ h => by cases h) (fun _ _ h => by cases h))
  | startVal ko hv =>
    refine ⟨?_, ?_, ?_, ?_⟩
    · intro acc h; cases h
    · intro key h; exact (hv key (Pc.validated.inj h)).1
    · intro a h1 h2; exact .inl ⟨h1, h2⟩
    · intro a hh; exact absurd hh (nohold a (fun _ _ h => by cases h) (fun _ _ h => by cases h))
  | createFail ko =>
    refine ⟨?_, ?_, ?_, ?_⟩
    · intro acc h; cases h
    · intro key h; cases h
    · intro a h1 h2; exact .inl ⟨h1, h2⟩
    · intro a hh; exact absurd hh (nohold a (fun _ _ h => by cases h) (fun _ _ h => by cases h))
  | createNoKey =>
    refine ⟨?_, ?_, ?_, ?_⟩
    · intro acc h
      have := Pc.done.inj h; simp at this; exact absurd this.2 (fun e => hk0 e.symm)
    · intro key h; cases h
    · intro a h1 h2
      simp only [addAcct, List.mem_append, List.mem_singleton, Prod.mk.injEq] at h1
      rcases h1 with h1 | ⟨_, h0⟩
      · exact .inl ⟨h1, h2⟩
      · exact absurd h0 hk0
    · intro a hh; exact absurd hh (nohold a (fun _ _ h => by cases h) (fun _ _ h => by cases h))
  | createKey key =>
    refine ⟨?_, ?_, ?_, ?_⟩
    · intro acc h; cases h
    · intro key' h; cases h
    · intro a h1 h2
      simp only [addAcct, List.mem_append, List.mem_singleton, Prod.mk.injEq] at h1
      rcases h1 with h1 | ⟨ha, hkid⟩
      · exact .inl ⟨h1, h2⟩
      · right; left; exact ⟨key, by rw [ha], hkid.symm, hcopy key rfl⟩
    · intro a hh; exact absurd hh (nohold a (fun _ _ h => by cases h) (fun _ _ h => by cases h))
  | bindRefused key acc hb =>
    refine ⟨?_, ?_, ?_, ?_⟩
    · intro acc' h; cases h
    · intro key' h; cases h
    · intro a h1 h2; exact .inl ⟨h1, h2⟩
    · intro a hh _
      rcases hh with ⟨key', hp, _, hub⟩ | ⟨e, hp⟩
      · cases hp; rw [hb] at hub; cases hub
      · cases hp
  | updateFail key acc e =>
    refine ⟨?_, ?_, ?_, ?_⟩
    · intro acc' h; cases h
    · intro key' h; cases h
    · intro a h1 h2; exact .inl ⟨h1, h2⟩
    · intro a hh _
      rcases hh with ⟨key', hp, _, _⟩ | ⟨e', hp⟩
      · cases hp; exact .inl (.inr ⟨e, rfl⟩)
      · cases hp
  | updateOk key acc old hb hold hu =>
    have hsp : SpentOn { st with keys := setKey st.keys (bindTo key acc) } key.id acc := by
      refine ⟨bindTo key acc, ?_, rfl, rfl, rfl⟩
      simp only [getKey] at hold ⊢
      have := findKey_setKey_eq st.keys (bindTo key acc)
      simp only [bindTo] at this ⊢
      rw [this, hold]; rfl
    refine ⟨?_, ?_, ?_, ?_⟩
    · intro acc' h
      have := Pc.done.inj h; simp at this
      obtain ⟨ha, hid⟩ := this
      right
      refine ⟨?_, by rw [← ha, ← hid]; exact hsp⟩
      intro ⟨x, hx, hxb⟩
      rw [← hid, hold] at hx; cases hx; rw [hu] at hxb; cases hxb
    · intro key' h; cases h
    · intro a h1 h2; exact .inl ⟨h1, h2⟩
    · intro a hh _
      rcases hh with ⟨key', hp, hid, _⟩ | ⟨e, hp⟩
      · cases hp; right; rw [← hid]; exact hsp
      · cases hp
  | undo acc e =>
    refine ⟨?_, ?_, ?_, ?_⟩
    · intro acc' h; cases h
    · intro key' h; cases h
    · intro a h1 h2
      simp only [List.mem_cons, not_or] at h2; exact .inl ⟨h1, h2.2⟩
    · intro a hh hd
      rcases hh with ⟨key', hp, _⟩ | ⟨e', hp⟩
      · cases hp
      · cases hp; simp at hd
  | idle x =>
    refine ⟨?_, ?_, ?_, ?_⟩
    · intro acc h; exact .inl h
    · intro key h; cases h
    · intro a h1 h2; exact .inl ⟨h1, h2⟩
    · intro a hh _; exact .inl hh

theorem dead_mono {r : Req} {st st' : State} {pc pc' : Pc} (h : StepRel r st pc st' pc') {a : Nat}
    (hd : a ∉ st'.dead) : a ∉ st.dead := by
  cases h with
  | undo acc e => simp only [List.mem_cons, not_or] at hd; exact hd.2
  | _ => exact hd

theorem keyInv_step (k : Nat) (hk0 : k ≠ 0) (st : State) (ts : List Thread) (i : Nat) (t : Thread)
    (hi : ts[i]? = some t) (hinv : KeyInv k st ts) :
    KeyInv k (step st t).1 (setAt ts i (step st t).2) := by
  obtain ⟨r, pc⟩ := t
  obtain ⟨st', pc', hstep, hrel⟩ := step_rel st r pc
  rw [hstep]
  simp only []
  have hmem : (⟨r, pc⟩ : Thread) ∈ ts := List.mem_of_getElem? hi
  have cd := cntT_setAt (doneVia k) ts i ⟨r, pc⟩ ⟨r, pc'⟩ hi
  have gd := cntT_ge (doneVia k) ts i ⟨r, pc⟩ hi
  obtain ⟨fA, fB, fC, fD⟩ := rel_facts k hk0 hrel (fun key hp => hinv.copies ⟨r, pc⟩ hmem key hp)
  -- doneVia of the moving request before / after
  have hDnew : doneVia k ⟨r, pc'⟩ = true → doneVia k ⟨r, pc⟩ = true ∨ (¬ Bound st k ∧ Bound st' k) := by
    intro hd
    cases hpc : pc' with
    | done x =>
      cases x with
      | created acc v =>
        rw [hpc] at hd
        have hv : v = k := by simpa [doneVia] using hd
        subst hv
        rcases fA acc hpc with h | ⟨h1, h2⟩
        · left; simp [doneVia, h]
        · right; exact ⟨h1, ⟨_, h2.choose_spec.1, h2.choose_spec.2.1⟩⟩
      | err e => rw [hpc] at hd; simp [doneVia] at hd
      | existing a => rw [hpc] at hd; simp [doneVia] at hd
    | start => rw [hpc] at hd; simp [doneVia] at hd
    | validated _ => rw [hpc] at hd; simp [doneVia] at hd
    | created _ _ => rw [hpc] at hd; simp [doneVia] at hd
    | undo _ _ => rw [hpc] at hd; simp [doneVia] at hd
  refine ⟨?_, ?_, ?_, ?_, ?_⟩
  · -- once
    by_cases hn : doneVia k ⟨r, pc'⟩ = true
    · rcases hDnew hn with ho | ⟨hnb, _⟩
      · simp [hn, ho] at cd; have := hinv.once; omega
      · have hd0 : cntT (doneVia k) ts = 0 := by
          by_cases hd : cntT (doneVia k) ts ≥ 1
          · exact absurd (hinv.doneBound hd) hnb
          · omega
        have : doneVia k ⟨r, pc⟩ = false := by
          by_cases h : doneVia k ⟨r, pc⟩ = true
          · simp [h] at gd; omega
          · simpa using h
        simp [hn, this] at cd; omega
    · have hn' : doneVia k ⟨r, pc'⟩ = false := by simpa using hn
      simp [hn'] at cd; have := hinv.once; omega
  · -- doneBound
    intro hd'
    by_cases hd : cntT (doneVia k) ts ≥ 1
    · exact bound_rel hrel (hinv.doneBound hd)
    · have hn : doneVia k ⟨r, pc'⟩ = true := by
        by_cases h : doneVia k ⟨r, pc'⟩ = true
        · exact h
        · simp [h] at cd; omega
      rcases hDnew hn with ho | ⟨_, hb⟩
      · simp [ho] at gd; omega
      · exact hb
  · -- named
    intro x hx acc hp
    rcases mem_setAt hx with rfl | hx'
    · simp only [] at hp
      rcases fA acc hp with h | ⟨_, h2⟩
      · exact spent_rel hrel (hinv.named ⟨r, pc⟩ hmem acc h)
      · exact h2
    · exact spent_rel hrel (hinv.named x hx' acc hp)
  · -- copies
    intro x hx key hp
    rcases mem_setAt hx with rfl | hx'
    · exact fB key hp
    · exact hinv.copies x hx' key hp
  · -- active
    intro a hv hd
    rcases fC a hv hd with ⟨hv0, hd0⟩ | hheld
    · rcases hinv.active a hv0 hd0 with hs | ⟨x, hx, hh⟩
      · exact .inl (spent_rel hrel hs)
      · by_cases hxt : x = ⟨r, pc⟩
        · subst hxt
          rcases fD a hh hd with h | h
          · exact .inr ⟨_, mem_setAt_self hi, h⟩
          · exact .inl h
        · exact .inr ⟨x, mem_setAt_of_ne hi hx hxt, hh⟩
    · exact .inr ⟨_, mem_setAt_self hi, hheld⟩

theorem keyInv_run (k : Nat) (hk0 : k ≠ 0) (sched : List Nat) (st : State) (ts : List Thread)
    (hinv : KeyInv k st ts) : KeyInv k (runSched st ts sched).1 (runSched st ts sched).2 := by
  induction sched generalizing st ts with
  | nil => exact hinv
  | cons i rest ih =>
    simp only [runSched]
    cases hi : ts[i]? with
    | none => exact ih st ts hinv
    | some t => exact ih _ _ (keyInv_step k hk0 st ts i t hi hinv)

/-- the invariant holds at the start: every request at its beginning, and every active account
    recorded for `k` so far is the one `k` names -/
theorem keyInv_init (k : Nat) (st : State) (reqs : List Req)
    (h0 : ∀ a, (a, k) ∈ st.via → a ∉ st.dead → SpentOn st k a) :
    KeyInv k st (reqs.map (⟨·, .start⟩)) := by
  have hc : cntT (doneVia k) (reqs.map (⟨·, .start⟩)) = 0 := by
    induction reqs with
    | nil => rfl
    | cons r rs ih => simp [cntT, doneVia, ih]
  have hstart : ∀ t ∈ reqs.map (fun r => (⟨r, .start⟩ : Thread)), t.pc = .start := by
    intro t ht
    simp only [List.mem_map] at ht
    obtain ⟨r, _, rfl⟩ := ht
    rfl
  refine ⟨by omega, fun h => by omega, ?_, ?_, fun a hv hd => .inl (h0 a hv hd)⟩
  · intro t ht acc hp; rw [hstart t ht] at hp; cases hp
  · intro t ht key hp; rw [hstart t ht] at hp; cases hp

/-- every request has been answered -/
def allDone (ts : List Thread) : Prop := ∀ t ∈ ts, ∃ x, t.pc = .done x

/-- **bind_once_conc.** Any number of new-account requests, ANY interleaving of their store-visible
    steps (validation reads, `CreateAccount`, key update, deactivation after a failed update), from
    any store in which the active accounts recorded for key `k` so far are the one `k` names:

    1. at most one request is answered 201 through key `k`;
    2. whenever a request has been answered 201 for account `acc` through `k`, the key record is bound
       to exactly `acc`, its secret erased — at that moment and in every later state;
    3. once every request has been answered, every account that was stored on behalf of `k` and is
       still active is the account the key record names: at most one ACTIVE account per key, and it is
       the one in the key record (the accounts of the requests that lost the race are deactivated). -/
theorem bind_once_conc (k : Nat) (hk0 : k ≠ 0) (st : State) (reqs : List Req) (sched : List Nat)
    (h0 : ∀ a, (a, k) ∈ st.via → a ∉ st.dead → SpentOn st k a) :
    let fin := runSched st (reqs.map (⟨·, .start⟩)) sched
    countVia k (threadResps fin.2) ≤ 1 ∧
    (∀ t ∈ fin.2, ∀ acc, t.pc = .done (.created acc k) → SpentOn fin.1 k acc) ∧
    (allDone fin.2 → ∀ a, (a, k) ∈ fin.1.via → a ∉ fin.1.dead → SpentOn fin.1 k a) ∧
    (allDone fin.2 → ∀ a b, (a, k) ∈ fin.1.via → a ∉ fin.1.dead → (b, k) ∈ fin.1.via → b ∉ fin.1.dead → a = b) := by
  intro fin
  have inv := keyInv_run k hk0 sched st _ (keyInv_init k st reqs h0)
  have h3 : allDone fin.2 → ∀ a, (a, k) ∈ fin.1.via → a ∉ fin.1.dead → SpentOn fin.1 k a := by
    intro hall a hv hd
    rcases inv.active a hv hd with hs | ⟨t, ht, hh⟩
    · exact hs
    · obtain ⟨x, hx⟩ := hall t ht
      rcases hh with ⟨key, hp, _⟩ | ⟨e, hp⟩ <;> (rw [hx] at hp; cases hp)
  refine ⟨by rw [countVia_eq_cntT]; exact inv.once, inv.named, h3, ?_⟩
  intro hall a b ha hda hb hdb
  obtain ⟨x, hx, _, _, hxa⟩ := h3 hall a ha hda
  obtain ⟨y, hy, _, _, hyb⟩ := h3 hall b hb hdb
  rw [hx] at hy; cases hy
  rw [← hxa, ← hyb]

/-- second request of the witness pair: another account key, a binding for *that* key MACed with the
    same secret (the holder of the secret can produce as many as it likes) -/
def exReq2 : Req := { exReq with outerKey := 42, binding := some { exBinding with payloadKey := some 42 } }

/-- the schedule validate₁ validate₂ create₁ create₂ update₁ update₂ (then the loser's deactivation) -/
def d11Sched : List Nat := [0, 1, 0, 1, 0, 1, 1]

-- D11's schedule on the repaired code: the first request wins, the second is refused, its account is
-- deactivated, the key names account 1
example : threadResps (runSched exState [⟨exReq, .start⟩, ⟨exReq2, .start⟩] d11Sched).2
    = [.created 1 7, .err .unauthorized] := by decide
example : (runSched exState [⟨exReq, .start⟩, ⟨exReq2, .start⟩] d11Sched).1.dead = [2] ∧
    getKey (runSched exState [⟨exReq, .start⟩, ⟨exReq2, .start⟩] d11Sched).1 7
      = some { id := 7, prov := 1, hasSecret := false, bound := true, account := 1 } := by decide

/-- all interleavings of two four-step requests (the fourth step is used only by a loser) -/
def interleave : Nat → Nat → Nat → List (List Nat)
  | 0, _, _ => [[]]
  | n + 1, a, b =>
    (if a > 0 then (interleave n (a - 1) b).map (0 :: ·) else []) ++
    (if b > 0 then (interleave n a (b - 1)).map (1 :: ·) else [])

/-- **interleavings_bind_once** (table, `decide`; what stage `conc` demands of the real handlers for
    the witness pair): in each of the 70 interleavings of two requests with four moves each, exactly
    one account is created through the key, exactly one account is active, and the key names it. -/
theorem interleavings_bind_once :
    (interleave 8 4 4).length = 70 ∧
    (interleave 8 4 4).all (fun s =>
      let fin := runSched exState [⟨exReq, .start⟩, ⟨exReq2, .start⟩] s
      countVia 7 (threadResps fin.2) == 1 &&
      ((fin.1.via.filter fun p => p.2 == 7 && !fin.1.dead.contains p.1).map (·.1)
        == (match getKey fin.1 7 with | some key => [key.account] | none => []))) = true := by decide

/-- historic (before commit 1f3b0b9): `UpdateExternalAccountKey` compare-and-swapped from the record it
    had just re-read, bound or not, and nothing was undone: after validate₁ validate₂ create₁ create₂
    update₁ the second update replaced the binding -/
def stepUpdateBeforeFix (st : State) (r : Req) (k : EKey) (acc : Nat) : State × Resp :=
  match getKey st k.id with
  | none => (st, .err .serverInternal)
  | some old =>
    if old.prov ≠ r.prov then (st, .err .serverInternal)
    else ({ st with keys := setKey st.keys (bindTo k acc) }, .created acc k.id)

example :
    let s := (runSched exState [⟨exReq, .start⟩, ⟨exReq2, .start⟩] [0, 1, 0, 1, 0]).1   -- … update₁ done
    (stepUpdateBeforeFix s exReq2 exKey 2).2 = .created 2 7 ∧
    getKey (stepUpdateBeforeFix s exReq2 exKey 2).1 7
      = some { id := 7, prov := 1, hasSecret := false, bound := true, account := 2 } := by decide


/-! ## 4. the key's policy limits every order of the account bound to it -/

theorem allAllowed_pass {e : Policy.Engine} {idents : List Policy.Names} (h : allAllowed e idents = .pass) :
    ∀ n ∈ idents, Policy.validateNames e n = .allow := by
  induction idents with
  | nil => intro n hn; cases hn
  | cons x xs ih =>
    intro n hn
    simp only [allAllowed] at h
    cases hx : Policy.validateNames e x with
    | allow =>
      rw [hx] at h
      cases hn with
      | head => exact hx
      | tail _ hn => exact ih h n hn
    | deny r k => rw [hx] at h; cases h
    | crash => rw [hx] at h; cases h

/-- **policy_limits_orders.** Under a provisioner that requires external account binding, if a key of
    that provisioner is bound to the account and a name policy that builds an engine is attached to
    it, a new-order request gets past the account-level gate only if **every** identifier — as sent,
    a wildcard as the literal wildcard name — is allowed by that engine (`Verif.Policy.validateNames`,
    whose meaning is `Verif.Policy.validateNames_allow` and the `*_sound` theorems of C04). -/
theorem policy_limits_orders {st : State} {prov acc : Nat} {pol : Nat → Option (Policy.Build Policy.Engine)}
    {idents : List Policy.Names} {k : EKey} {e : Policy.Engine}
    (hk : keyOfAccount st prov acc = some k) (he : pol k.id = some (.ok e))
    (h : orderGate st true prov acc pol idents = .pass) :
    ∀ n ∈ idents, Policy.validateNames e n = .allow := by
  unfold orderGate at h
  simp only [Bool.not_true, Bool.false_eq_true, if_false, hk, he] at h
  exact allAllowed_pass h

/-- the key found is one of this provisioner, bound to this very account -/
theorem keyOfAccount_bound {st : State} {prov acc : Nat} {k : EKey} (hk : keyOfAccount st prov acc = some k) :
    k ∈ st.keys ∧ k.prov = prov ∧ k.bound = true ∧ k.account = acc := by
  unfold keyOfAccount at hk
  have h1 := List.mem_of_find?_eq_some hk
  have h2 := List.find?_some hk
  simp at h2
  exact ⟨h1, h2.1.1, h2.1.2, h2.2⟩

/-- not vacuous: after the witness account was created through key 7, an engine that permits only
    `zap.internal` (no literal wildcards) lets `zap.internal` through and stops `*.zap.internal` -/
def exEngine : Policy.Engine :=
  { verifyCN := true, allowWild := false, pCN := [], xCN := [], pDNS := [Verif.s "zap.internal"], xDNS := [],
    pIP := [], xIP := [], pEmail := [], xEmail := [], pURI := [], xURI := [], pPrin := [], xPrin := [] }

def exNames (raw idna : String) : Policy.Names := { dns := [⟨Verif.s raw, some (Verif.s idna)⟩] }
def exPol : Nat → Option (Policy.Build Policy.Engine) := fun k => if k = 7 then some (.ok exEngine) else none

example : keyOfAccount (handle exState exReq).1 1 1 = some { id := 7, prov := 1, hasSecret := false, bound := true, account := 1 } := by
  decide
example : orderGate (handle exState exReq).1 true 1 1 exPol [exNames "zap.internal" "zap.internal"] = .pass := by decide
example : orderGate (handle exState exReq).1 true 1 1 exPol [exNames "zap.internal" "zap.internal", exNames "*.zap.internal" ".zap.internal"]
    = .rejected := by decide
-- another account (none bound to a key) is not limited by key 7's policy
example : orderGate (handle exState exReq).1 true 1 2 exPol [exNames "*.zap.internal" ".zap.internal"] = .pass := by decide

/-! ## 5. the requirement survives the migration of the provisioner to the admin database -/

/-- **migration_keeps_requirement.** Whatever the provisioner, after the round trip through the
    admin-database form the authority serves one that requires external account binding exactly when
    the configured one did — and with the same forceCN, terms of service, website, CAA identities,
    attestation formats and roots. -/
theorem migration_keeps_requirement (p : AcmeProv) :
    (migrate p).requireEAB = p.requireEAB ∧ (migrate p).forceCN = p.forceCN ∧
    (migrate p).termsOfService = p.termsOfService ∧ (migrate p).website = p.website ∧
    (migrate p).caaIdentities = p.caaIdentities ∧ (migrate p).formats = p.formats ∧ (migrate p).roots = p.roots :=
  ⟨rfl, rfl, rfl, rfl, rfl, rfl, rfl⟩

/-- the whole provisioner comes back unchanged unless it lists wire challenges (the admin-database
    form has no value for them: they are dropped) -/
theorem migration_identity_partial (p : AcmeProv) (h : ∀ c ∈ p.challenges, isWire c = false) : migrate p = p := by
  have hf : p.challenges.filter (fun c => !isWire c) = p.challenges := by
    apply List.filter_eq_self.mpr
    intro c hc; simp [h c hc]
  simp only [migrate, toCert, toLinked, hf]

/-- **migrated_still_requires.** On the migrated authority a new-account request without a binding
    for a provisioner that was configured with requireEAB is refused (externalAccountRequired), from
    every store. -/
theorem migrated_still_requires (p : AcmeProv) (hp : p.requireEAB = true) (st : State) (r : Req)
    (hr : r.requireEAB = (migrate p).requireEAB) (hb : r.binding = none) :
    validateEAB st r = .error .externalAccountRequired := by
  have : r.requireEAB = true := by rw [hr, (migration_keeps_requirement p).1, hp]
  simp [validateEAB, this, hb]

def exProv : AcmeProv :=
  { requireEAB := true, forceCN := false, termsOfService := 3, website := 0, caaIdentities := [5],
    challenges := [.http01, .wireOidc01, .deviceAttest01], formats := [.step], roots := 9 }

example : migrate exProv = { exProv with challenges := [.http01, .deviceAttest01] } := by decide

/-- **steps_cover_calls** (table): the three steps of the model are exactly the store calls of one
    new-account request in program order — the two reads, `CreateAccount`, `BindTo` +
    `UpdateExternalAccountKey` (the call lists are re-derived from the source on every run). -/
theorem steps_cover_calls :
    (stepCalls.map (·.2)).flatten =
      callsExtractJWK ++ (callsNewAccount.flatMap fun c => if c = "validateExternalAccountBinding" then callsValidateEAB else [c]) := by
  decide

/-! ## the provisioner collection: what the ACME handlers are served by name after an administrative change -/

theorem Idx.look_del_self (m : Idx) (k : Nat) : (m.del k).look k = none := by
  induction m with
  | nil => rfl
  | cons e rest ih =>
    obtain ⟨k', p⟩ := e
    by_cases h : k' = k
    · simp only [Idx.del, if_pos h]; exact ih
    · simp only [Idx.del, if_neg h, Idx.look]; exact ih

theorem Idx.look_del_other (m : Idx) (k q : Nat) (h : k ≠ q) : (m.del k).look q = m.look q := by
  induction m with
  | nil => rfl
  | cons e rest ih =>
    obtain ⟨k', p⟩ := e
    by_cases h1 : k' = k
    · subst h1
      simp only [Idx.del, if_true, Idx.look, if_neg h]; exact ih
    · simp only [Idx.del, if_neg h1, Idx.look]
      by_cases h2 : k' = q
      · simp [h2]
      · simp only [if_neg h2]; exact ih

/-- **store_visible.** A provisioner that `Store` accepts is what every index answers under its keys. -/
theorem store_visible {c c' : Coll} {p : CProv} (h : c.store p = some c') :
    c'.byName.look p.name = some p ∧ c'.byID.look p.id = some p ∧ c'.byTok.look p.tok = some p := by
  unfold Coll.store at h
  split at h; · simp at h
  split at h; · simp at h
  split at h; · simp at h
  simp at h; subst h
  simp [Idx.look]

/-- **update_visible.** After `Update(nu)` succeeds, the lookup by NAME — the one the ACME linker uses — answers `nu`,
    and so do the lookups by id and by token id: no index keeps the object from before the update. -/
theorem update_visible {c c' : Coll} {nu : CProv} (h : c.update nu = some c') :
    c'.byName.look nu.name = some nu ∧ c'.byID.look nu.id = some nu ∧ c'.byTok.look nu.tok = some nu := by
  unfold Coll.update at h
  split at h; · simp at h
  rename_i old ho
  split at h; · simp at h
  split at h; · simp at h
  cases hr : c.remove old.id with
  | none => rw [hr] at h; simp at h
  | some c1 => rw [hr] at h; exact store_visible (by simpa using h)

/-- **update_served_requirement.** What a new-account request under the provisioner's (new) name is decided on after
    an update is the updated `requireEAB`. -/
theorem update_served_requirement {c c' : Coll} {nu : CProv} (h : c.update nu = some c') :
    c'.servedEAB nu.name = some nu.eab := by
  simp [Coll.servedEAB, (update_visible h).1]

theorem store_served_requirement {c c' : Coll} {p : CProv} (h : c.store p = some c') :
    c'.servedEAB p.name = some p.eab := by
  simp [Coll.servedEAB, (store_visible h).1]

/-- **remove_gone.** A removed provisioner is no longer served under its name (nor found by id). -/
theorem remove_gone {c c' : Coll} {id : Nat} {p : CProv} (hp : c.byID.look id = some p) (h : c.remove id = some c') :
    c'.servedEAB p.name = none ∧ c'.byID.look id = none := by
  unfold Coll.remove at h
  rw [hp] at h
  simp at h; subst h
  simp [Coll.servedEAB, Idx.look_del_self]

/-- **rename_old_name_gone.** After a renaming update the OLD name serves nothing (so not the old configuration). -/
theorem rename_old_name_gone {c c' : Coll} {nu old : CProv} (ho : c.byID.look nu.id = some old)
    (hid : old.id = nu.id) (hn : old.name ≠ nu.name) (h : c.update nu = some c') : c'.servedEAB old.name = none := by
  unfold Coll.update at h
  rw [ho] at h
  simp only at h
  split at h; · simp at h
  split at h; · simp at h
  cases hr : c.remove old.id with
  | none => simp [hr] at h
  | some c1 =>
    simp [hr] at h
    unfold Coll.remove at hr
    rw [hid, ho] at hr
    simp at hr; subst hr
    unfold Coll.store at h
    split at h; · simp at h
    split at h; · simp at h
    split at h; · simp at h
    simp at h; subst h
    simp [Coll.servedEAB, Idx.look, Ne.symm hn, Idx.look_del_self]

-- the hypotheses are satisfiable: a provisioner stored without the requirement, then updated to require it
example : ((Coll.empty.store ⟨1, 10, 20, false⟩).bind (·.update ⟨1, 10, 20, true⟩)).map (·.servedEAB 10) = some (some true) := by
  decide
-- … renamed: the new name requires, the old name serves nothing
example : ((Coll.empty.store ⟨1, 10, 20, false⟩).bind (·.update ⟨1, 11, 21, true⟩)).map (fun c => (c.servedEAB 11, c.servedEAB 10))
    = some (some true, none) := by decide

end Verif.EAB
