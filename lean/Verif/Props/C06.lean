import Verif.Model.Validity
/-!
  C06 — certificate lifetimes stay inside the provisioner's and credential's bounds.

  Property theorems over `Verif.Model.Validity` (core Lean only).  Registered in checks/C06.json:

    claims_consistent, effective_consistent, default_only_widens, claims_ssh_unchecked
    x509_bounds, x509_issued_bounds, requested_exact, x5c_limit, x5c_notBefore_backdated,
    renew_same_duration, renew_duration_within_second, acme_dates
    ssh_bounds, ssh_requested_exact, ssh_limit, ssh_no_crash, ssh_renew_same_duration
    acme_order_exact, ssh_default_crash_iff, ssh_sign_aborts_on_negative_default,
    identity_sign_exact, identity_renew_matches_ssh, migration_preserves_effective
    ssh_renew_no_crash; historic: ssh_renew_forever_aborted_before, ssh_renew_292y_aborted_before
    historic (pre-fix code): ssh_bounds_unguarded_refuted (D6), ssh_no_crash_unguarded_refuted (D7)
-/
open Verif Verif.Validity

namespace Verif.Validity

/-! ### helpers -/

theorem Out.bind_ok {α β : Type} {x : Out α} {f : α → Out β} {b : β} (h : (x >>= f) = .ok b) :
    ∃ a, x = .ok a ∧ f a = .ok b := by
  cases x with
  | ok a => exact ⟨a, rfl, h⟩
  | rej r => cases h
  | crash => cases h

theorem Out.bind_not_crash {α β : Type} {x : Out α} {f : α → Out β} (hx : x ≠ .crash)
    (hf : ∀ a, x = .ok a → f a ≠ .crash) : (x >>= f) ≠ .crash := by
  cases x with
  | ok a => exact hf a rfl
  | rej r => intro h; cases h
  | crash => exact absurd rfl hx

theorem wrap64_id (x : Int) (h1 : minI64 ≤ x) (h2 : x ≤ maxI64) : wrap64 x = x := by
  unfold wrap64 minI64 maxI64 at *; omega

theorem wrap64_neg (b : Int) (h1 : 0 ≤ b) (h2 : b ≤ maxI64) : wrap64 (-1 * b) = -b := by
  unfold wrap64 maxI64 at *; omega

/-! ## Claims -/

/-- `Claimer.Validate() == nil` ⇒ the *effective* TLS durations satisfy `0 < min ≤ default ≤ max`,
    whatever mixture of provisioner-level and inherited values they come from. -/
theorem claims_consistent (c : Claimer) (h : c.validate = true) :
    0 < c.minTLS ∧ c.minTLS ≤ c.defTLS ∧ c.defTLS ≤ c.maxTLS := by
  unfold Claimer.validate at h
  simp only [] at h
  split at h <;> try contradiction
  split at h <;> try contradiction
  split at h <;> try contradiction
  split at h <;> try contradiction
  split at h <;> try contradiction
  split at h <;> try contradiction
  omega

example : (⟨hardcoded, some { defTLS := some (2 * day) }⟩ : Claimer).validate = true := by decide

/-- Every provisioner that initialises (authority claims over the hard-coded ones, provisioner claims
    over the merge) works with consistent TLS durations, for every combination of set / unset fields
    at both levels; and the merge it inherits from is consistent too. -/
theorem effective_consistent (auth prov : Option Claims) (c : Claimer) (h : effective auth prov = some c) :
    (0 < c.minTLS ∧ c.minTLS ≤ c.defTLS ∧ c.defTLS ≤ c.maxTLS) ∧
    (0 < c.global.minTLS ∧ c.global.minTLS ≤ c.global.defTLS ∧ c.global.defTLS ≤ c.global.maxTLS) ∧
    c.claims = prov := by
  unfold effective at h
  simp only [] at h
  split at h
  · rename_i ha
    split at h
    · rename_i hp
      cases h
      exact ⟨claims_consistent _ hp, claims_consistent _ ha, rfl⟩
    · cases h
  · cases h

example : (effective (some { maxTLS := some (7 * day) }) (some { defTLS := some (3 * day) })).isSome = true := by
  decide

/-- The inheritance rule: a provisioner that sets only a (positive) default over consistent inherited
    durations always validates, and its window is the inherited one widened to contain the default. -/
theorem default_only_widens (g : Full) (own : Claims) (d : Int)
    (hg : 0 < g.minTLS ∧ g.minTLS ≤ g.defTLS ∧ g.defTLS ≤ g.maxTLS) (hd : 0 < d)
    (ho : own.minTLS = none ∧ own.maxTLS = none ∧ own.defTLS = some d) :
    let c : Claimer := ⟨g, some own⟩
    c.validate = true ∧ c.defTLS = d ∧ c.minTLS = min d g.minTLS ∧ c.maxTLS = max d g.maxTLS := by
  obtain ⟨h1, h2, h3⟩ := ho
  have e1 : (⟨g, some own⟩ : Claimer).defTLS = d := by
    simp [Claimer.defTLS, Claimer.own, pickDef, h3]
  have e2 : (⟨g, some own⟩ : Claimer).minTLS = min d g.minTLS := by
    simp only [Claimer.minTLS, Claimer.own, Option.getD, pickMin, h1, h3, Int.min_def]
    split <;> split <;> omega
  have e3 : (⟨g, some own⟩ : Claimer).maxTLS = max d g.maxTLS := by
    simp only [Claimer.maxTLS, Claimer.own, Option.getD, pickMax, h2, h3, Int.max_def]
    split <;> split <;> omega
  refine ⟨?_, e1, e2, e3⟩
  simp only [Claimer.validate, e1, e2, e3, Int.min_def, Int.max_def]
  split <;> split <;> simp <;> omega

/-- Nothing comparable is checked for the SSH durations: `Validate` passes with an SSH maximum below
    the minimum and a negative default (which makes `sshDefaultDuration` abort: hypothesis `hd` of `ssh_no_crash`). -/
theorem claims_ssh_unchecked :
    ∃ c : Claimer, c.validate = true ∧ c.maxUser < c.minUser ∧ c.defUser < 0 :=
  ⟨⟨hardcoded, some { minUser := some day, maxUser := some (3600 * second), defUser := some (-3600 * second) }⟩,
    by decide⟩

/-! ## X.509 -/

/-- effective start before backdating, the backdate applied, requested / template end (0 = none) -/
def nb0of (now : Int) (c : Cert) (so : SignOpts) : Int := timeOr (relativeTime now so.nb) c.nb
def nb1of (now : Int) (c : Cert) (so : SignOpts) : Int := if nb0of now c so = 0 then now else nb0of now c so
def bdof (now : Int) (c : Cert) (so : SignOpts) : Int := if nb0of now c so = 0 then wrap64 (-1 * so.backdate) else 0
def na0of (now : Int) (c : Cert) (so : SignOpts) : Int := timeOr (relativeTime (nb1of now c so) so.na) c.na

theorem profileDefault_eq (v now : Int) (c : Cert) (so : SignOpts) :
    profileDefault v now c so = ⟨nb1of now c so + bdof now c so,
      if na0of now c so = 0 then (if v ≠ 0 then nb1of now c so + v else nb1of now c so + defaultCertValidity)
      else na0of now c so⟩ := rfl

theorem profileLimit_ok {dflt lnb lna now : Int} {c : Cert} {so : SignOpts} {leaf : Cert}
    (h : profileLimit dflt lnb lna now c so = .ok leaf) :
    ¬ nb1of now c so < lnb ∧ ¬ na0of now c so > lna ∧
    leaf = ⟨nb1of now c so + bdof now c so,
      if na0of now c so = 0 then (if nb1of now c so + dflt > lna then lna else nb1of now c so + dflt)
      else na0of now c so⟩ := by
  have e : profileLimit dflt lnb lna now c so =
      if nb1of now c so < lnb then .rej .credNotBefore
      else if na0of now c so > lna then .rej .credNotAfter
      else .ok ⟨nb1of now c so + bdof now c so,
        if na0of now c so = 0 then (if nb1of now c so + dflt > lna then lna else nb1of now c so + dflt)
        else na0of now c so⟩ := rfl
  rw [e] at h
  by_cases h1 : nb1of now c so < lnb
  · rw [if_pos h1] at h; cases h
  · rw [if_neg h1] at h
    by_cases h2 : na0of now c so > lna
    · rw [if_pos h2] at h; cases h
    · rw [if_neg h2] at h; cases h; exact ⟨h1, h2, rfl⟩

theorem x509Leaf_dflt_ok {cl : Claimer} {now vnow : Int} {c : Cert} {so : SignOpts} {leaf : Cert}
    (h : x509Leaf cl .dflt now vnow c so = .ok leaf) :
    leaf = profileDefault cl.defTLS now c so ∧
    validityValid cl.minTLS cl.maxTLS vnow leaf so.backdate = .ok () := by
  unfold x509Leaf at h
  obtain ⟨l, h1, h2⟩ := Out.bind_ok h
  obtain ⟨u, h3, h4⟩ := Out.bind_ok h2
  cases h1; cases h4
  exact ⟨rfl, h3⟩

theorem x509Leaf_limit_ok {cl : Claimer} {lnb lna now vnow : Int} {c : Cert} {so : SignOpts} {leaf : Cert}
    (h : x509Leaf cl (.limit lnb lna) now vnow c so = .ok leaf) :
    profileLimit cl.defTLS lnb lna now c so = .ok leaf ∧
    validityValid cl.minTLS cl.maxTLS vnow leaf so.backdate = .ok () := by
  unfold x509Leaf at h
  obtain ⟨l, h1, h2⟩ := Out.bind_ok h
  obtain ⟨u, h3, h4⟩ := Out.bind_ok h2
  cases h4
  exact ⟨h1, h3⟩

theorem x509Leaf_valid {cl : Claimer} {m : Mode} {now vnow : Int} {c : Cert} {so : SignOpts} {leaf : Cert}
    (h : x509Leaf cl m now vnow c so = .ok leaf) :
    validityValid cl.minTLS cl.maxTLS vnow leaf so.backdate = .ok () := by
  cases m with
  | dflt => exact (x509Leaf_dflt_ok h).2
  | limit a b => exact (x509Leaf_limit_ok h).2

theorem validityValid_bounds (mn mx vnow bd : Int) (c : Cert)
    (hmx : 0 ≤ mx) (hbd : 0 ≤ bd) (hbd2 : bd ≤ maxI64) (hmx2 : mx ≤ maxI64) (hsum : mx + bd ≠ maxI64)
    (h : validityValid mn mx vnow c bd = .ok ()) :
    trunc vnow ≤ trunc c.na ∧ mn ≤ trunc c.na - trunc c.nb ∧ trunc c.na - trunc c.nb ≤ mx + bd := by
  unfold validityValid at h
  simp only [] at h
  split at h <;> try contradiction
  split at h <;> try contradiction
  split at h <;> try contradiction
  split at h <;> try contradiction
  unfold tsub wrap64 maxI64 minI64 at *
  simp only [] at *
  omega

/-- **x509_bounds.** Whatever the request, the template and the credential window: if the
    provisioner's modifier and validator accept, the certificate (dates at the second precision
    X.509 carries) does not end before the validator's clock, and its lifetime lies in
    `[min, max + backdate]` — as integers, `Time.Sub` saturation and int64 wrap of `max + backdate`
    included.  Hypotheses: the claims passed `Claimer.Validate`, the backdate passed
    `AuthConfig.Validate` (`0 ≤ backdate`), both are int64 values, and `max + backdate` is not
    exactly `MaxInt64` (then a saturated `Sub` would pass). -/
theorem x509_bounds (cl : Claimer) (m : Mode) (now vnow : Int) (c : Cert) (so : SignOpts) (leaf : Cert)
    (hv : cl.validate = true) (hbd : 0 ≤ so.backdate) (hbd2 : so.backdate ≤ maxI64)
    (hmx : cl.maxTLS ≤ maxI64) (hsum : cl.maxTLS + so.backdate ≠ maxI64)
    (h : x509Leaf cl m now vnow c so = .ok leaf) :
    trunc vnow ≤ trunc leaf.na ∧
    cl.minTLS ≤ trunc leaf.na - trunc leaf.nb ∧
    trunc leaf.na - trunc leaf.nb ≤ cl.maxTLS + so.backdate := by
  have hc := claims_consistent cl hv
  exact validityValid_bounds _ _ _ _ _ (by omega) hbd hbd2 hmx hsum (x509Leaf_valid h)

example : x509Leaf ⟨hardcoded, none⟩ .dflt (63900000000 * second + 5) (63900000000 * second + 7) ⟨0, 0⟩
    { backdate := 60 * second } = .ok ⟨63899999940 * second + 5, 63900086400 * second + 5⟩ := by decide

/-- … and the same for the certificate SoftCAS issues from the accepted leaf (the clock has passed
    year 293 so that "now − backdate" is not the zero time). -/
theorem x509_issued_bounds (cl : Claimer) (m : Mode) (now vnow casNow : Int) (c : Cert) (so : SignOpts) (cert : Cert)
    (hv : cl.validate = true) (hbd : 0 ≤ so.backdate) (hbd2 : so.backdate ≤ maxI64)
    (hmx : cl.maxTLS ≤ maxI64) (hsum : cl.maxTLS + so.backdate ≠ maxI64)
    (hnow : maxI64 < now) (hvnow : second ≤ vnow)
    (h : x509Sign cl m now vnow casNow c so = .ok cert) :
    trunc vnow ≤ cert.na ∧ cl.minTLS ≤ cert.na - cert.nb ∧ cert.na - cert.nb ≤ cl.maxTLS + so.backdate := by
  unfold x509Sign at h
  obtain ⟨leaf, h1, h2⟩ := Out.bind_ok h
  have hb := x509_bounds cl m now vnow c so leaf hv hbd hbd2 hmx hsum h1
  have hc := claims_consistent cl hv
  -- the leaf's dates are not the zero time
  have hna : leaf.na ≠ 0 := by
    intro h0
    have := hb.1
    rw [h0] at this
    unfold trunc second at *
    omega
  have hnb : leaf.nb ≠ 0 := by
    intro h0
    cases m with
    | dflt =>
      have := (x509Leaf_dflt_ok h1).1
      rw [this, profileDefault_eq] at h0
      simp only [] at h0
      unfold bdof nb1of at h0
      rw [wrap64_neg _ hbd hbd2] at h0
      unfold maxI64 at *
      omega
    | limit lnb lna =>
      obtain ⟨_, _, h3⟩ := profileLimit_ok (x509Leaf_limit_ok h1).1
      rw [h3] at h0
      simp only [] at h0
      unfold bdof nb1of at h0
      rw [wrap64_neg _ hbd hbd2] at h0
      unfold maxI64 at *
      omega
  have e : softcasCreate casNow leaf so.backdate =
      if tsub leaf.na (leaf.nb + so.backdate) = 0 then .rej .lifetime0
      else if encodable (if leaf.nb = 0 then casNow + wrap64 (-1 * so.backdate) else leaf.nb) ∧
              encodable (if leaf.na = 0 then casNow + tsub leaf.na (leaf.nb + so.backdate) else leaf.na)
        then .ok ⟨trunc (if leaf.nb = 0 then casNow + wrap64 (-1 * so.backdate) else leaf.nb),
                  trunc (if leaf.na = 0 then casNow + tsub leaf.na (leaf.nb + so.backdate) else leaf.na)⟩
        else .rej .encode := rfl
  rw [e, if_neg hnb, if_neg hna] at h2
  by_cases hl : tsub leaf.na (leaf.nb + so.backdate) = 0
  · rw [if_pos hl] at h2; cases h2
  · rw [if_neg hl] at h2
    by_cases he : encodable leaf.nb ∧ encodable leaf.na
    · rw [if_pos he] at h2; cases h2; exact hb
    · rw [if_neg he] at h2; cases h2

/-- what a request asks for as `notBefore`: the absolute instant, or `now + d` (zero = nothing asked) -/
def reqNb (now : Int) (so : SignOpts) : Int := relativeTime now so.nb

/-- **requested_exact.** A requested `notBefore` (absolute or relative to the provisioner's clock) is
    the leaf's `notBefore`, without backdate; a requested `notAfter` (absolute, or relative to the
    effective start: the requested one, else the template's, else the clock) is the leaf's
    `notAfter` — or the request is refused.  Nothing is clamped or stretched. -/
theorem requested_exact (cl : Claimer) (m : Mode) (now vnow : Int) (c : Cert) (so : SignOpts) (leaf : Cert)
    (h : x509Leaf cl m now vnow c so = .ok leaf) :
    (reqNb now so ≠ 0 → leaf.nb = reqNb now so) ∧
    (let start := if reqNb now so ≠ 0 then reqNb now so else if c.nb ≠ 0 then c.nb else now
     relativeTime start so.na ≠ 0 → leaf.na = relativeTime start so.na) := by
  have key : leaf.nb = nb1of now c so + bdof now c so ∧ (na0of now c so ≠ 0 → leaf.na = na0of now c so) := by
    cases m with
    | dflt =>
      rw [(x509Leaf_dflt_ok h).1, profileDefault_eq]
      exact ⟨rfl, fun hn => by simp [hn]⟩
    | limit lnb lna =>
      obtain ⟨_, _, h3⟩ := profileLimit_ok (x509Leaf_limit_ok h).1
      rw [h3]
      exact ⟨rfl, fun hn => by simp [hn]⟩
  obtain ⟨k1, k2⟩ := key
  unfold reqNb
  have hstart : (if relativeTime now so.nb ≠ 0 then relativeTime now so.nb else if c.nb ≠ 0 then c.nb else now)
      = nb1of now c so := by
    unfold nb1of nb0of timeOr
    generalize relativeTime now so.nb = r
    omega
  constructor
  · intro hr
    rw [k1]
    unfold bdof nb1of nb0of timeOr
    generalize relativeTime now so.nb = r at *
    simp [hr]
  · simp only []
    rw [hstart]
    intro hr
    have : na0of now c so = relativeTime (nb1of now c so) so.na := by
      unfold na0of timeOr; simp [hr]
    rw [k2 (by rw [this]; exact hr), this]

example : (x509Leaf ⟨hardcoded, none⟩ .dflt (63900000000 * second) (63900000000 * second) ⟨0, 0⟩
    { nb := { d := 3600 * second }, na := { d := 7200 * second }, backdate := 60 * second }) =
    .ok ⟨63900003600 * second, 63900010800 * second⟩ := by decide

/-- **x5c_limit / nebula_limit.** A certificate authorized by presenting another certificate
    (`profileLimitDuration` bound to that credential) never outlives it, and does not start before it
    by more than the backdate (not at all when the start was requested). -/
theorem x5c_limit (cl : Claimer) (lnb lna now vnow : Int) (c : Cert) (so : SignOpts) (leaf : Cert)
    (hbd : 0 ≤ so.backdate) (hbd2 : so.backdate ≤ maxI64)
    (h : x509Leaf cl (.limit lnb lna) now vnow c so = .ok leaf) :
    leaf.na ≤ lna ∧ lnb ≤ leaf.nb + so.backdate ∧
    ((reqNb now so ≠ 0 ∨ c.nb ≠ 0) → lnb ≤ leaf.nb) := by
  obtain ⟨h1, h2, h3⟩ := profileLimit_ok (x509Leaf_limit_ok h).1
  subst h3
  simp only []
  unfold bdof at *
  rw [wrap64_neg _ hbd hbd2]
  unfold reqNb na0of nb1of nb0of timeOr at *
  generalize relativeTime now so.nb = r at *
  refine ⟨?_, ?_, ?_⟩ <;> omega

example : x509Leaf ⟨hardcoded, none⟩ (.limit (63800000000 * second) (63900003600 * second)) (63900000000 * second)
    (63900000000 * second) ⟨0, 0⟩ { backdate := 60 * second } =
    .ok ⟨63899999940 * second, 63900003600 * second⟩ := by decide

/-- The start *can* precede the credential's `notBefore` (by up to the backdate) when no start was
    requested: the clause "notBefore ≥ credential.notBefore" of the design does not hold as such. -/
theorem x5c_notBefore_backdated :
    ¬ ∀ (cl : Claimer) (lnb lna now vnow : Int) (c : Cert) (so : SignOpts) (leaf : Cert),
      0 ≤ so.backdate → x509Leaf cl (.limit lnb lna) now vnow c so = .ok leaf → lnb ≤ leaf.nb := by
  intro h
  have := h ⟨hardcoded, none⟩ (63900000000 * second - 5) (63900086400 * second) (63900000000 * second)
    (63900000000 * second) ⟨0, 0⟩ { backdate := 60 * second } ⟨63899999940 * second, 63900086400 * second⟩
    (by decide) (by decide)
  revert this
  decide

/-- **renew_same_duration.** Renewal (`renewContext` + SoftCAS `RenewCertificate`) issues a certificate
    that starts at the CAS clock minus the backdate and has exactly the duration of the one it
    replaces — for whole-second backdates (the old certificate's dates are whole seconds by
    construction) and durations `Time.Sub` can represent (< 292 years). -/
theorem renew_same_duration (casNow bd : Int) (old new : Cert)
    (hold : trunc old.nb = old.nb ∧ trunc old.na = old.na) (hbds : trunc bd = bd)
    (hbd : 0 ≤ bd) (hbd2 : bd ≤ maxI64) (hd : 0 ≤ old.na - old.nb) (hd2 : old.na - old.nb ≤ maxI64)
    (h : x509Renew casNow bd old = .ok new) :
    new.na - new.nb = old.na - old.nb ∧ new.nb = trunc (casNow - bd) := by
  have e1 : tsub old.na old.nb = old.na - old.nb := by unfold tsub maxI64 minI64 at *; simp only []; omega
  have e2 : wrap64 (old.na - old.nb - bd) = old.na - old.nb - bd := wrap64_id _ (by unfold minI64 maxI64 at *; omega) (by unfold maxI64 at *; omega)
  have e : x509Renew casNow bd old =
      if wrap64 (tsub old.na old.nb - bd) ≤ 0 then .rej .renewShort
      else .ok ⟨trunc (casNow + wrap64 (-1 * bd)), trunc (casNow + wrap64 (tsub old.na old.nb - bd))⟩ := rfl
  rw [e, e1, e2, wrap64_neg _ hbd hbd2] at h
  by_cases hl : old.na - old.nb - bd ≤ 0
  · rw [if_pos hl] at h; cases h
  · rw [if_neg hl] at h; cases h
    simp only []
    unfold trunc second at *
    omega

/-- … and for any backdate the new duration differs from the old one by less than a second. -/
theorem renew_duration_within_second (casNow bd : Int) (old new : Cert)
    (hold : trunc old.nb = old.nb ∧ trunc old.na = old.na)
    (hbd : 0 ≤ bd) (hbd2 : bd ≤ maxI64) (hd : 0 ≤ old.na - old.nb) (hd2 : old.na - old.nb ≤ maxI64)
    (h : x509Renew casNow bd old = .ok new) :
    old.na - old.nb - second < new.na - new.nb ∧ new.na - new.nb < old.na - old.nb + second := by
  have e1 : tsub old.na old.nb = old.na - old.nb := by unfold tsub maxI64 minI64 at *; simp only []; omega
  have e2 : wrap64 (old.na - old.nb - bd) = old.na - old.nb - bd := wrap64_id _ (by unfold minI64 maxI64 at *; omega) (by unfold maxI64 at *; omega)
  have e : x509Renew casNow bd old =
      if wrap64 (tsub old.na old.nb - bd) ≤ 0 then .rej .renewShort
      else .ok ⟨trunc (casNow + wrap64 (-1 * bd)), trunc (casNow + wrap64 (tsub old.na old.nb - bd))⟩ := rfl
  rw [e, e1, e2, wrap64_neg _ hbd hbd2] at h
  by_cases hl : old.na - old.nb - bd ≤ 0
  · rw [if_pos hl] at h; cases h
  · rw [if_neg hl] at h; cases h
    simp only []
    unfold trunc second at *
    omega

example : x509Renew (63900000000 * second + 123456789) (60 * second) ⟨63800000000 * second, 63800086460 * second⟩ =
    .ok ⟨63899999940 * second, 63900086400 * second⟩ := by decide

/-- **acme_dates.** The dates of an ACME order are the requested ones where given, and Finalize's
    certificate carries exactly the order's dates (or is refused). -/
theorem acme_dates (cl : Claimer) (clk now vnow bd rnb rna : Int) (leaf : Cert)
    (h : x509Leaf cl .dflt now vnow ⟨0, 0⟩ (acmeSignOpts (acmeOrderDates clk cl.defTLS rnb rna) bd) = .ok leaf)
    (hnz : (acmeOrderDates clk cl.defTLS rnb rna).nb ≠ 0 ∧ (acmeOrderDates clk cl.defTLS rnb rna).na ≠ 0) :
    leaf = acmeOrderDates clk cl.defTLS rnb rna ∧
    (rnb ≠ 0 → leaf.nb = rnb) ∧ (rna ≠ 0 → leaf.na = rna) := by
  have h1 := (x509Leaf_dflt_ok h).1
  obtain ⟨hn1, hn2⟩ := hnz
  have hl : leaf = acmeOrderDates clk cl.defTLS rnb rna := by
    rw [h1]
    generalize acmeOrderDates clk cl.defTLS rnb rna = o at *
    unfold profileDefault acmeSignOpts relativeTime timeOr
    simp [hn1, hn2]
  refine ⟨hl, ?_, ?_⟩
  · intro hr; rw [hl]; unfold acmeOrderDates; simp [hr]
  · intro hr; rw [hl]; unfold acmeOrderDates; simp [hr]

example : acmeOrderDates (63900000000 * second) day 0 0 = ⟨63899999940 * second, 63900086400 * second⟩ := by decide

/-! ## SSH -/

theorem castU64_bind {β : Type} (x : Int) (f : U64 → Out β) :
    (castU64 x >>= f) = if x < 0 then .crash else f (BitVec.ofInt 64 x) := by
  unfold castU64; split <;> rfl

theorem safeU64_bind {β : Type} (x : Int) (r : Rej) (f : U64 → Out β) :
    (safeU64 x r >>= f) = if x < 0 then .rej r else f (BitVec.ofInt 64 x) := by
  unfold safeU64; split <;> rfl

theorem castI64_bind {β : Type} (x : U64) (f : Int → Out β) :
    (castI64 x >>= f) = if x.toNat ≥ 9223372036854775808 then .crash else f (x.toNat : Int) := by
  unfold castI64; split <;> rfl

theorem pure_bind' {α β : Type} (a : α) (f : α → Out β) : ((pure a : Out α) >>= f) = f a := rfl

theorem toNat_ofInt_small (x : Int) (h0 : 0 ≤ x) (h1 : x < 18446744073709551616) :
    ((BitVec.ofInt 64 x).toNat : Int) = x := by
  rw [BitVec.toNat_ofInt]; omega

theorem unixOf_trunc (t : Int) : unixOf (trunc t) = unixOf t := by
  unfold unixOf trunc second; omega

/-- closes the leaves of an unfolded if-chain in the "never aborts" lemmas -/
macro "nocrash_finish" : tactic =>
  `(tactic| ((repeat' split) <;> first | omega | (intro hh; cases hh; done) | (simp_all; done) | (simp_all; omega)))

/-- below `MaxInt64 / 10⁹` seconds the 64-bit product `time.Duration(x) * time.Second` is the integer product -/
theorem secsToDur_small (x : Int) (h0 : 0 ≤ x) (h1 : x ≤ 9223372036) : secsToDur x = x * 1000000000 := by
  unfold secsToDur
  rw [BitVec.toInt_eq_toNat_cond, BitVec.toNat_mul, BitVec.toNat_ofInt]
  simp only [BitVec.toNat_ofNat]
  omega

/-! ### the validity validator -/

theorem sshValidityValid_ok {cl : Claimer} {now bd : Int} {c : SshCert}
    (h : sshValidityValid cl now bd c = .ok ()) :
    c.va ≠ 0#64 ∧ 0 ≤ unixOf now ∧ ¬ c.vb < BitVec.ofInt 64 (unixOf now) ∧ ¬ c.vb < c.va ∧
    (c.vb - c.va).toNat ≤ 9223372036 ∧
    ∃ mn mx, cl.minMaxSSH c.ctype = some (mn, mx) ∧
      ¬ secsToDur ((c.vb - c.va).toNat : Int) < mn ∧ ¬ secsToDur ((c.vb - c.va).toNat : Int) > wrap64 (mx + bd) := by
  unfold sshValidityValid at h
  simp only [castU64_bind, castI64_bind] at h
  split at h
  · cases h
  rename_i h1
  split at h
  · cases h
  rename_i h2
  split at h
  · cases h
  rename_i h3
  split at h
  · cases h
  rename_i h4
  split at h
  · split at h <;> cases h
  rename_i mn mx hm
  split at h
  · cases h
  rename_i hg
  split at h
  · cases h
  rename_i h5
  split at h
  · cases h
  rename_i h6
  split at h
  · cases h
  rename_i h7
  exact ⟨h1, by omega, h3, h4, by omega, mn, mx, hm, h6, h7⟩

/-- **ssh_bounds** at the validator: accepted ⇒ the certificate does not end before it starts or
    before the clock, and `(vb − va)` seconds lies in `[min, max + backdate]` **as integers**. -/
theorem sshValidityValid_bounds {cl : Claimer} {now bd : Int} {c : SshCert} (mn mx : Int)
    (hm : cl.minMaxSSH c.ctype = some (mn, mx))
    (hmx : 0 ≤ mx) (hmx2 : mx ≤ maxI64) (hbd : 0 ≤ bd) (hbd2 : bd ≤ maxI64)
    (hnow : unixOf now < 9223372036854775808)
    (h : sshValidityValid cl now bd c = .ok ()) :
    c.va.toNat ≤ c.vb.toNat ∧ unixOf now ≤ c.vb.toNat ∧
    mn ≤ ((c.vb.toNat : Int) - c.va.toNat) * 1000000000 ∧
    ((c.vb.toNat : Int) - c.va.toNat) * 1000000000 ≤ mx + bd := by
  obtain ⟨h1, h2, h3, h4, hsmall, mn', mx', hm', h6, h7⟩ := sshValidityValid_ok h
  rw [hm] at hm'
  cases hm'
  rw [secsToDur_small _ (by omega) (by omega)] at h6 h7
  rw [BitVec.lt_def] at h3 h4
  rw [BitVec.toNat_ofInt] at h3
  rw [BitVec.toNat_sub] at h6 h7 hsmall
  have := c.va.isLt
  have := c.vb.isLt
  unfold wrap64 maxI64 at *
  refine ⟨by omega, by omega, by omega, by omega⟩

/-! ### request options, token modifiers, default / limit modifiers -/

/-- what the request options resolve to (`cast.SafeUint64(x.RelativeTime(now).Unix())`), else `dflt` -/
def resolve (now : Int) (x : TD) (dflt : U64) : U64 :=
  if x.isZero then dflt else BitVec.ofInt 64 (unixOf (relativeTime now x))

theorem modifyValidity_ok {now : Int} {o : SshOpts} {c c1 : SshCert} (h : modifyValidity now o c = .ok c1) :
    c1 = ⟨resolve now o.va c.va, resolve now o.vb c.vb, c.ctype⟩ ∧
    (o.va.isZero = false → 0 ≤ unixOf (relativeTime now o.va)) ∧
    (o.vb.isZero = false → 0 ≤ unixOf (relativeTime now o.vb)) := by
  unfold modifyValidity tdUnix at h
  unfold resolve
  cases ha : o.va.isZero <;> cases hb : o.vb.isZero <;>
    simp only [ha, hb, Bool.not_true, Bool.not_false, safeU64_bind, pure_bind', if_true, if_false,
      Bool.false_eq_true] at h ⊢
  all_goals (repeat' (split at h)) <;> first | cases h | skip
  all_goals (refine ⟨rfl, ?_, ?_⟩ <;> intro hh <;> first | omega | cases hh)

/-- `ModifyValidity` never aborts, whatever instants are requested (since fix fffcedb) -/
theorem modifyValidity_nocrash (now : Int) (o : SshOpts) (c : SshCert) : modifyValidity now o c ≠ .crash := by
  unfold modifyValidity tdUnix
  cases h1 : o.va.isZero <;> cases h2 : o.vb.isZero <;>
    simp only [Bool.not_true, Bool.not_false, safeU64_bind, pure_bind', if_true, if_false,
      Bool.false_eq_true] <;> nocrash_finish

/-- the token-derived modifiers never abort either -/
theorem tokenMods_nocrash (now : Int) (o : SshOpts) : tokenMods now o ≠ .crash := by
  unfold tokenMods tdUnix
  cases h1 : o.va.isZero <;> cases h2 : o.vb.isZero <;>
    simp only [Bool.not_true, Bool.not_false, safeU64_bind, pure_bind', if_true, if_false,
      Bool.false_eq_true] <;> nocrash_finish

theorem tokenMods_ok {now : Int} {o : SshOpts} {m : Option U64 × Option U64} (h : tokenMods now o = .ok m) :
    m = (if o.va.isZero then none else some (BitVec.ofInt 64 (unixOf (relativeTime now o.va))),
         if o.vb.isZero then none else some (BitVec.ofInt 64 (unixOf (relativeTime now o.vb)))) ∧
    (o.va.isZero = false → 0 ≤ unixOf (relativeTime now o.va)) ∧
    (o.vb.isZero = false → 0 ≤ unixOf (relativeTime now o.vb)) := by
  unfold tokenMods tdUnix at h
  cases h1 : o.va.isZero <;> cases h2 : o.vb.isZero <;>
    simp only [h1, h2, Bool.not_true, Bool.not_false, safeU64_bind, pure_bind', if_true, if_false,
      Bool.false_eq_true] at h ⊢
  all_goals (repeat' (split at h)) <;> first | cases h | skip
  all_goals (refine ⟨rfl, ?_, ?_⟩ <;> intro hh <;> first | omega | cases hh)

theorem sshDefault_keeps {cl : Claimer} {now : Int} {o : SshOpts} {c c' : SshCert}
    (h : sshDefault cl now o c = .ok c') :
    (c.va ≠ 0#64 → c'.va = c.va) ∧ (c.vb ≠ 0#64 → c'.vb = c.vb) ∧ c'.ctype = c.ctype := by
  unfold sshDefault at h
  split at h
  · cases h
  by_cases hva : c.va = 0#64 <;> by_cases hvb : c.vb = 0#64 <;>
    simp only [hva, hvb, castU64_bind, pure_bind', if_true, if_false] at h
  all_goals (repeat' (split at h)) <;> first | cases h | skip
  all_goals (refine ⟨?_, ?_, rfl⟩ <;> intro hh <;> first | exact absurd rfl hh | exact absurd hva hh | exact absurd hvb hh | skip)
  all_goals simp_all

/-- the start the limit modifier works with -/
def limVa (now : Int) (c : SshCert) : U64 := if c.va = 0#64 then BitVec.ofInt 64 (unixOf (trunc now)) else c.va
/-- the end it computes when none is set -/
def limEnd (lna : GTime) (va : U64) (d : Int) : GTime :=
  let t := (GTime.ofUnix (va.toNat : Int)).add d
  if lna.before t then lna else t

theorem sshLimit_ok {cl : Claimer} {lna : GTime} {now : Int} {o : SshOpts} {c c' : SshCert}
    (hz : lna.isZero = false) (h : sshLimit cl lna now o c = .ok c') :
    c'.ctype = c.ctype ∧ (c.va ≠ 0#64 → c'.va = c.va) ∧ (c.vb ≠ 0#64 → c'.vb = c.vb) ∧
    ∃ d, cl.defSSH c.ctype = some d ∧ (limVa now c).toNat < 9223372036854775808 ∧
      (GTime.ofUnix ((limVa now c).toNat : Int)).after lna = false ∧
      (c.vb ≠ 0#64 → c.vb.toNat < 9223372036854775808 ∧ lna.before (GTime.ofUnix (c.vb.toNat : Int)) = false) ∧
      (c.vb = 0#64 → 0 ≤ (limEnd lna (limVa now c) d).unix ∧ c'.vb = BitVec.ofInt 64 (limEnd lna (limVa now c) d).unix) := by
  unfold sshLimit at h
  rw [hz] at h
  simp only [Bool.false_eq_true, if_false] at h
  split at h
  · cases h
  rename_i d hd
  unfold limVa limEnd
  by_cases hva : c.va = 0#64 <;> by_cases hvb : c.vb = 0#64 <;>
    simp only [hva, hvb, castU64_bind, castI64_bind, pure_bind', if_true, if_false] at h ⊢
  all_goals (repeat' (split at h)) <;> first | cases h | skip
  all_goals simp_all
  all_goals omega

theorem addSec_nonneg (e q : Int) (he1 : minI64 ≤ e) (he2 : e ≤ maxI64) (hq : 0 ≤ q) (hq2 : q ≤ maxI64) :
    addSec e q = if e + q ≤ maxI64 then e + q else maxI64 := by
  unfold addSec
  simp only [decide_eq_decide]
  unfold wrap64 minI64 maxI64 at *
  split <;> split <;> omega

theorem add_ns0 (t : GTime) (d : Int) (h : t.ns = 0) (hd : 0 ≤ d) :
    t.add d = ⟨addSec t.sec (Int.tdiv d second), Int.tmod d second⟩ := by
  have h3 := Int.tmod_nonneg second hd
  have h4 : Int.tmod d second < second := Int.tmod_lt_of_pos d (by decide)
  unfold GTime.add
  simp only [h]
  rw [if_neg (by omega), if_neg (by omega)]
  simp

/-- the end the limit modifier computes lies between 1970 and the credential's end -/
theorem limEnd_le (lna : GTime) (va : U64) (d : Int)
    (hl1 : unixToInternal ≤ lna.sec) (hl2 : lna.sec ≤ maxI64)
    (hva : (va.toNat : Int) + unixToInternal ≤ maxI64) (hd : 0 ≤ d) (hd2 : d ≤ maxI64) :
    0 ≤ (limEnd lna va d).unix ∧ (limEnd lna va d).unix ≤ lna.sec - unixToInternal := by
  have h1 := Int.tdiv_nonneg hd (by decide : (0:Int) ≤ second)
  have h2 : Int.tdiv d second * second + Int.tmod d second = d := Int.tdiv_mul_add_tmod d second
  have h3 := Int.tmod_nonneg second hd
  have hvn : (0:Int) ≤ va.toNat := Int.natCast_nonneg _
  have hw : wrap64 ((va.toNat : Int) + unixToInternal) = (va.toNat : Int) + unixToInternal :=
    wrap64_id _ (by unfold minI64 unixToInternal; omega) hva
  unfold limEnd
  simp only []
  rw [add_ns0 _ _ rfl hd]
  unfold GTime.ofUnix
  simp only [hw]
  rw [addSec_nonneg _ _ (by unfold minI64 unixToInternal; omega) hva h1 (by unfold second maxI64 at *; omega)]
  generalize Int.tdiv d second = q at *
  generalize Int.tmod d second = r at *
  have key : ∀ e : Int, (va.toNat : Int) + unixToInternal ≤ e → e ≤ maxI64 →
      0 ≤ (if lna.before ⟨e, r⟩ = true then lna else ⟨e, r⟩ : GTime).unix ∧
      (if lna.before ⟨e, r⟩ = true then lna else ⟨e, r⟩ : GTime).unix ≤ lna.sec - unixToInternal := by
    intro e he1 he2
    by_cases hb : lna.before ⟨e, r⟩ = true
    · rw [if_pos hb]
      unfold GTime.unix
      rw [wrap64_id _ (by unfold minI64 unixToInternal at *; omega) (by unfold maxI64 unixToInternal at *; omega)]
      omega
    · rw [if_neg hb]
      unfold GTime.before at hb
      simp only [Bool.or_eq_true, Bool.and_eq_true, decide_eq_true_eq, beq_iff_eq, not_or, not_and] at hb
      unfold GTime.unix
      simp only [] at hb ⊢
      rw [wrap64_id _ (by unfold minI64 unixToInternal at *; omega) (by unfold maxI64 unixToInternal at *; omega)]
      omega
  by_cases hs : (va.toNat : Int) + unixToInternal + q ≤ maxI64
  · rw [if_pos hs]; exact key _ (by omega) hs
  · rw [if_neg hs]; exact key _ (by omega) (by omega)

theorem sshModify_keeps {cl : Claimer} {m : SshMode} {now : Int} {o : SshOpts} {c c' : SshCert}
    (h : sshModify cl m now o c = .ok c') :
    (c.va ≠ 0#64 → c'.va = c.va) ∧ (c.vb ≠ 0#64 → c'.vb = c.vb) ∧ c'.ctype = c.ctype := by
  cases m with
  | dflt => exact sshDefault_keeps h
  | limit lna =>
    unfold sshModify at h
    simp only [] at h
    cases hz : lna.isZero with
    | true =>
      unfold sshLimit at h
      rw [hz] at h
      simp only [if_true] at h
      exact sshDefault_keeps h
    | false =>
      obtain ⟨h1, h2, h3, _⟩ := sshLimit_ok hz h
      exact ⟨h2, h3, h1⟩

/-! ### the chain -/

theorem sshSignWith_ok {cl : Claimer} {m : SshMode} {now : Int} {user : SshOpts} {mods : Option U64 × Option U64}
    {c0 c : SshCert} (h : sshSignWith cl m now user mods c0 = .ok c) :
    ∃ c1, modifyValidity now user c0 = .ok c1 ∧
      sshModify cl m now user (applyMods mods c1) = .ok c ∧
      sshValidityValid cl now user.backdate c = .ok () ∧ sshDefaultValid now c = .ok () := by
  unfold sshSignWith at h
  obtain ⟨c1, h1, h2⟩ := Out.bind_ok h
  obtain ⟨c3, h3, h4⟩ := Out.bind_ok h2
  obtain ⟨u, h5, h6⟩ := Out.bind_ok h4
  obtain ⟨u', h7, h8⟩ := Out.bind_ok h6
  cases h8
  exact ⟨c1, h1, h3, h5, h7⟩

/-- **ssh_bounds** (full strength since fix 1fe6db7).  Whatever the request options, the token
    modifiers, the template's leftovers (any two 64-bit values) and the credential limit: an issued SSH
    certificate has `validAfter ≤ validBefore`, does not end before the provisioner's clock, and its
    lifetime in seconds, as an integer number of nanoseconds, lies in `[min, max + backdate]` for the
    claims of its certificate type.  Hypotheses are about configuration only: `0 ≤ max`, `0 ≤ backdate`
    (`AuthConfig.Validate`), both int64 values, clock below 2⁶³ s. -/
theorem ssh_bounds (cl : Claimer) (m : SshMode) (now : Int) (user : SshOpts)
    (mods : Option U64 × Option U64) (c0 c : SshCert) (mn mx : Int)
    (hm : cl.minMaxSSH c.ctype = some (mn, mx))
    (hmx : 0 ≤ mx) (hmx2 : mx ≤ maxI64) (hbd : 0 ≤ user.backdate) (hbd2 : user.backdate ≤ maxI64)
    (hnow : unixOf now < 9223372036854775808)
    (h : sshSignWith cl m now user mods c0 = .ok c) :
    c.va.toNat ≤ c.vb.toNat ∧ unixOf now ≤ c.vb.toNat ∧
    mn ≤ ((c.vb.toNat : Int) - c.va.toNat) * 1000000000 ∧
    ((c.vb.toNat : Int) - c.va.toNat) * 1000000000 ≤ mx + user.backdate := by
  obtain ⟨c1, _, _, h3, _⟩ := sshSignWith_ok h
  exact sshValidityValid_bounds mn mx hm hmx hmx2 hbd hbd2 hnow h3

/-- the certificate type always has claims when the chain accepts (so `ssh_bounds` is never vacuous) -/
theorem ssh_bounds_has_claims (cl : Claimer) (m : SshMode) (now : Int) (user : SshOpts)
    (mods : Option U64 × Option U64) (c0 c : SshCert) (h : sshSignWith cl m now user mods c0 = .ok c) :
    ∃ mn mx, cl.minMaxSSH c.ctype = some (mn, mx) := by
  obtain ⟨c1, _, _, h3, _⟩ := sshSignWith_ok h
  obtain ⟨_, _, _, _, _, mn, mx, hm, _⟩ := sshValidityValid_ok h3
  exact ⟨mn, mx, hm⟩

def d6now : Int := 63900000000 * second
/-- the D6 request: validAfter = now, validBefore = now + 18446744374 s (584.5 years) -/
def d6user : SshOpts :=
  { va := { t := d6now }, vb := { t := d6now + 18446744374 * second }, backdate := 60 * second }

example : sshSignWith ⟨hardcoded, none⟩ .dflt d6now { backdate := 60 * second } (none, none) ⟨0#64, 0#64, userCert⟩ =
    .ok ⟨1764403140#64, 1764460800#64, userCert⟩ := by decide

/-- regression witness: the D6 request is refused by the code as it is now -/
theorem d6_now_refused :
    sshSignWith ⟨hardcoded, none⟩ .dflt d6now d6user (none, none) ⟨0#64, 0#64, userCert⟩ = .rej .tooLong := by
  decide

/-- **historic (D6, fixed by 1fe6db7).** Without the guard the validator accepted a 584.5-year
    certificate under a 24 h maximum: the bound of `ssh_bounds` was false for the unguarded code. -/
theorem ssh_bounds_unguarded_refuted :
    ¬ ∀ (cl : Claimer) (now bd : Int) (c : SshCert) (mn mx : Int),
      cl.minMaxSSH c.ctype = some (mn, mx) → 0 ≤ mx → mx ≤ maxI64 → 0 ≤ bd → bd ≤ maxI64 →
      sshValidityValidUnguarded cl now bd c = .ok () →
      ((c.vb.toNat : Int) - c.va.toNat) * 1000000000 ≤ mx + bd := by
  intro h
  have := h ⟨hardcoded, none⟩ d6now (60 * second) ⟨1764403200#64, 20211147574#64, userCert⟩ (300 * second) day
    (by decide) (by decide) (by decide) (by decide) (by decide) (by decide)
  revert this
  decide

/-- what the request (options, then token modifiers) asks for; `0` = nothing -/
def wantVA (now : Int) (user : SshOpts) (mods : Option U64 × Option U64) (c0 : SshCert) : U64 :=
  mods.1.getD (resolve now user.va c0.va)
def wantVB (now : Int) (user : SshOpts) (mods : Option U64 × Option U64) (c0 : SshCert) : U64 :=
  mods.2.getD (resolve now user.vb c0.vb)

/-- **ssh_requested_exact.** A requested `validAfter` / `validBefore` (token modifier, else request
    option resolved against the clock, else what the template left), when it is not the "unset" value
    0, is the certificate's — no backdate, no clamping — or the request is refused; and a request
    option that resolves to an instant before 1970 is always refused. -/
theorem ssh_requested_exact (cl : Claimer) (m : SshMode) (now : Int) (user : SshOpts)
    (mods : Option U64 × Option U64) (c0 c : SshCert)
    (h : sshSignWith cl m now user mods c0 = .ok c) :
    (wantVA now user mods c0 ≠ 0#64 → c.va = wantVA now user mods c0) ∧
    (wantVB now user mods c0 ≠ 0#64 → c.vb = wantVB now user mods c0) ∧
    (user.va.isZero = false → 0 ≤ unixOf (relativeTime now user.va)) ∧
    (user.vb.isZero = false → 0 ≤ unixOf (relativeTime now user.vb)) := by
  obtain ⟨c1, h1, h2, _, _⟩ := sshSignWith_ok h
  obtain ⟨e1, e2, e3⟩ := modifyValidity_ok h1
  obtain ⟨k1, k2, _⟩ := sshModify_keeps h2
  subst e1
  unfold wantVA wantVB
  unfold applyMods at k1 k2
  exact ⟨k1, k2, e2, e3⟩

example : sshSignWith ⟨hardcoded, none⟩ .dflt d6now
    { va := { d := 60 * second }, vb := { d := 3660 * second }, backdate := 60 * second } (none, none)
    ⟨0#64, 0#64, userCert⟩ = .ok ⟨1764403260#64, 1764406860#64, userCert⟩ := by decide

/-- bound below which `time.Unix(x, 0)` does not wrap: every instant a request can express
    (RFC 3339 up to year 9999, plus any `time.Duration`) is far below it -/
def reach (x : U64) : Prop := (x.toNat : Int) + unixToInternal ≤ maxI64

/-- **ssh_limit.** With `sshLimitDuration` bound to a credential (X5C, Nebula) an issued SSH
    certificate never outlives the credential: `validBefore ≤ credential.NotAfter.Unix()`. -/
theorem ssh_limit (cl : Claimer) (lna : GTime) (now : Int) (user : SshOpts)
    (mods : Option U64 × Option U64) (c0 c : SshCert)
    (hz : lna.isZero = false) (hl1 : unixToInternal ≤ lna.sec) (hl2 : lna.sec ≤ maxI64)
    (hd : ∀ d, cl.defSSH c0.ctype = some d → 0 ≤ d ∧ d ≤ maxI64)
    (hnow : 0 ≤ unixOf (trunc now) ∧ unixOf (trunc now) + unixToInternal ≤ maxI64)
    (hreach : reach (wantVA now user mods c0)) (hreachB : reach (wantVB now user mods c0))
    (h : sshSignWith cl (.limit lna) now user mods c0 = .ok c) :
    (c.vb.toNat : Int) ≤ lna.sec - unixToInternal := by
  unfold reach at hreach hreachB
  obtain ⟨c1, h1, h2, _, _⟩ := sshSignWith_ok h
  obtain ⟨e1, _, _⟩ := modifyValidity_ok h1
  subst e1
  unfold sshModify at h2
  simp only [] at h2
  obtain ⟨_, _, k3, d, kd, k4, k5, k6, k7⟩ := sshLimit_ok hz h2
  unfold applyMods at k3 k4 k5 k6 k7 kd
  simp only [] at k3 k4 k5 k6 k7 kd
  obtain ⟨hd1, hd2⟩ := hd d kd
  by_cases hvb : mods.2.getD (resolve now user.vb c0.vb) = 0#64
  · obtain ⟨k8, k9⟩ := k7 hvb
    have hva : ((limVa now ⟨mods.1.getD (resolve now user.va c0.va), mods.2.getD (resolve now user.vb c0.vb), c0.ctype⟩).toNat : Int)
        + unixToInternal ≤ maxI64 := by
      unfold limVa
      simp only []
      split
      · rw [toNat_ofInt_small _ hnow.1 (by unfold maxI64 unixToInternal at *; omega)]; exact hnow.2
      · exact hreach
    have := limEnd_le lna _ d hl1 hl2 hva hd1 hd2
    rw [k9, toNat_ofInt_small _ k8 (by unfold maxI64 unixToInternal at *; omega)]
    exact this.2
  · obtain ⟨k8, k9⟩ := k6 hvb
    rw [k3 hvb]
    unfold GTime.before GTime.ofUnix at k9
    simp only [Bool.or_eq_false_iff, decide_eq_false_iff_not] at k9
    have hw := k9.1
    unfold wantVB at hreachB
    unfold wrap64 unixToInternal maxI64 at *
    omega

example : sshSignWith ⟨hardcoded, none⟩ (.limit ⟨63900003600, 0⟩) d6now { backdate := 60 * second } (none, none)
    ⟨0#64, 0#64, userCert⟩ = .ok ⟨1764403140#64, 1764406800#64, userCert⟩ := by decide

/-! ### never aborts -/

theorem reach_ofInt (x : Int) (h0 : 0 ≤ x) (h1 : x + unixToInternal ≤ maxI64) : reach (BitVec.ofInt 64 x) := by
  unfold reach
  rw [toNat_ofInt_small x h0 (by unfold maxI64 unixToInternal at *; omega)]
  exact h1

theorem sshDefault_nocrash (cl : Claimer) (now : Int) (o : SshOpts) (c : SshCert)
    (hbd : 0 ≤ o.backdate) (hnow : 0 ≤ unixOf (trunc now))
    (hd : ∀ d, cl.defSSH c.ctype = some d → 0 ≤ d) : sshDefault cl now o c ≠ .crash := by
  unfold sshDefault
  split
  · intro hh; cases hh
  rename_i d hdd
  have h1 := hd d hdd
  have h2 := Int.tdiv_nonneg h1 (by decide : (0:Int) ≤ second)
  have h3 := Int.tdiv_nonneg hbd (by decide : (0:Int) ≤ second)
  by_cases hva : c.va = 0#64 <;> by_cases hvb : c.vb = 0#64 <;>
    simp only [hva, hvb, castU64_bind, pure_bind', if_true, if_false] <;> nocrash_finish

theorem sshDefault_post {cl : Claimer} {now : Int} {o : SshOpts} {c c' : SshCert}
    (hnow : 0 ≤ unixOf (trunc now) ∧ unixOf (trunc now) + unixToInternal ≤ maxI64)
    (hd : ∀ d, cl.defSSH c.ctype = some d → 0 ≤ d ∧ d ≤ maxI64)
    (hva : reach c.va) (hvb : reach c.vb)
    (h : sshDefault cl now o c = .ok c') : c'.vb.toNat < 9223372036854775808 := by
  unfold reach at hva hvb
  unfold sshDefault at h
  split at h
  · cases h
  rename_i d hdd
  obtain ⟨h0, h1⟩ := hd d hdd
  by_cases hz : c.vb = 0#64
  · by_cases hza : c.va = 0#64 <;>
      simp only [hz, hza, castU64_bind, pure_bind', if_true, if_false] at h
    all_goals (repeat' (split at h)) <;> first | cases h | skip
    all_goals simp only []
    all_goals rw [BitVec.toNat_add]
    all_goals
      have hq : Int.tdiv d second ≤ 9223372036 := by
        have : Int.tdiv d second * second + Int.tmod d second = d := Int.tdiv_mul_add_tmod d second
        have := Int.tmod_nonneg second h0
        have := Int.tdiv_nonneg h0 (by decide : (0:Int) ≤ second)
        unfold second maxI64 at *; omega
    all_goals
      have e1 := toNat_ofInt_small (unixOf (trunc now)) hnow.1 (by unfold maxI64 unixToInternal at *; omega)
      have e2 := toNat_ofInt_small (Int.tdiv d second) (by omega) (by omega)
      unfold maxI64 unixToInternal at *
      omega
  · rw [(sshDefault_keeps (by unfold sshDefault; rw [hdd]; exact h)).2.1 hz]
    unfold maxI64 unixToInternal at *
    omega

theorem sshLimit_nocrash (cl : Claimer) (lna : GTime) (now : Int) (o : SshOpts) (c : SshCert)
    (hz : lna.isZero = false) (hl1 : unixToInternal ≤ lna.sec) (hl2 : lna.sec ≤ maxI64)
    (hbd : 0 ≤ o.backdate) (hnow : 0 ≤ unixOf (trunc now) ∧ unixOf (trunc now) + unixToInternal ≤ maxI64)
    (hd : ∀ d, cl.defSSH c.ctype = some d → 0 ≤ d ∧ d ≤ maxI64)
    (hva : reach c.va) (hvb : reach c.vb) : sshLimit cl lna now o c ≠ .crash := by
  unfold reach at hva hvb
  unfold sshLimit
  rw [hz]
  simp only [Bool.false_eq_true, if_false]
  split
  · intro hh; cases hh
  rename_i d hdd
  obtain ⟨h0, h1⟩ := hd d hdd
  have h3 := Int.tdiv_nonneg hbd (by decide : (0:Int) ≤ second)
  have e1 := toNat_ofInt_small (unixOf (trunc now)) hnow.1 (by unfold maxI64 unixToInternal at *; omega)
  have hlv : reach (limVa now c) := by
    unfold limVa reach; split
    · rw [e1]; exact hnow.2
    · exact hva
  have hle := (limEnd_le lna (limVa now c) d hl1 hl2 hlv h0 h1).1
  unfold limVa limEnd at hle
  have := c.va.isLt
  have := c.vb.isLt
  by_cases hza : c.va = 0#64 <;> by_cases hzb : c.vb = 0#64 <;>
    simp only [hza, hzb, castU64_bind, castI64_bind, pure_bind', if_true, if_false] at hle ⊢ <;>
    unfold maxI64 unixToInternal at * <;> nocrash_finish

theorem sshLimit_post {cl : Claimer} {lna : GTime} {now : Int} {o : SshOpts} {c c' : SshCert}
    (hz : lna.isZero = false) (hl1 : unixToInternal ≤ lna.sec) (hl2 : lna.sec ≤ maxI64)
    (hnow : 0 ≤ unixOf (trunc now) ∧ unixOf (trunc now) + unixToInternal ≤ maxI64)
    (hd : ∀ d, cl.defSSH c.ctype = some d → 0 ≤ d ∧ d ≤ maxI64)
    (hva : reach c.va)
    (h : sshLimit cl lna now o c = .ok c') : c'.vb.toNat < 9223372036854775808 := by
  obtain ⟨_, _, k3, d, kd, _, _, k6, k7⟩ := sshLimit_ok hz h
  obtain ⟨h0, h1⟩ := hd d kd
  have e1 := toNat_ofInt_small (unixOf (trunc now)) hnow.1 (by unfold maxI64 unixToInternal at *; omega)
  have hlv : reach (limVa now c) := by
    unfold limVa reach; split
    · rw [e1]; exact hnow.2
    · exact hva
  have hle := limEnd_le lna (limVa now c) d hl1 hl2 hlv h0 h1
  by_cases hzb : c.vb = 0#64
  · obtain ⟨k8, k9⟩ := k7 hzb
    have := toNat_ofInt_small _ k8 (by unfold maxI64 unixToInternal at *; omega)
    rw [k9]
    unfold maxI64 unixToInternal at *
    omega
  · rw [k3 hzb]
    exact (k6 hzb).1

theorem sshValidityValid_nocrash (cl : Claimer) (now bd : Int) (c : SshCert) (hnow : 0 ≤ unixOf now) :
    sshValidityValid cl now bd c ≠ .crash := by
  unfold sshValidityValid
  simp only [castU64_bind, castI64_bind]
  nocrash_finish

theorem sshDefaultValid_nocrash (now : Int) (c : SshCert) (hnow : 0 ≤ unixOf now) :
    sshDefaultValid now c ≠ .crash := by
  unfold sshDefaultValid
  simp only [castU64_bind]
  nocrash_finish

/-- a requested instant is one Go's `time.Time` can hold without `time.Unix` wrapping — every RFC 3339
    instant (years 0000–9999) and every `now + time.Duration` is.  No lower bound: instants before
    1970, the zero time, negative durations are all included. -/
def tdRepresentable (now : Int) (x : TD) : Prop := unixOf (relativeTime now x) + unixToInternal ≤ maxI64

/-- the credential end is absent, or a sane instant from 1970 on -/
def modeFine : SshMode → Prop
  | .dflt => True
  | .limit lna => lna.isZero = true ∨ (unixToInternal ≤ lna.sec ∧ lna.sec ≤ maxI64)

theorem reach_resolve (now : Int) (x : TD) (d : U64) (hx : tdRepresentable now x)
    (hnn : x.isZero = false → 0 ≤ unixOf (relativeTime now x)) (hd : reach d) : reach (resolve now x d) := by
  unfold resolve
  cases hz : x.isZero with
  | true => exact hd
  | false => exact reach_ofInt _ (hnn hz) hx

/-- **ssh_no_crash** (full strength since fix fffcedb).  For *every* request — absolute or relative
    `validAfter`/`validBefore` in the request and in the token, zero, negative, before 1970, far future —
    the SSH sign chain of a JWK / X5C / Nebula / OIDC … provisioner returns a certificate or an error;
    it never aborts.  Hypotheses are about the deployment, not the request: the clock is after 1970,
    `0 ≤ backdate` (`AuthConfig.Validate`), the default SSH duration of the certificate's type is a
    non-negative int64 (NOT checked by `Claimer.Validate`, see `claims_ssh_unchecked`), the credential's
    end (if any) is a sane instant, and the template left `validAfter`/`validBefore` unset or below
    2⁶³ − 62135596800 (the default templates leave 0). -/
theorem ssh_no_crash (cl : Claimer) (m : SshMode) (now : Int) (user tok : SshOpts) (c0 : SshCert)
    (hnow : 0 ≤ unixOf now ∧ unixOf now + unixToInternal ≤ maxI64)
    (hua : tdRepresentable now user.va) (hub : tdRepresentable now user.vb)
    (hta : tdRepresentable now tok.va) (htb : tdRepresentable now tok.vb)
    (hbd : 0 ≤ user.backdate)
    (hd : ∀ d, cl.defSSH c0.ctype = some d → 0 ≤ d ∧ d ≤ maxI64)
    (hm : modeFine m) (hc0 : reach c0.va ∧ reach c0.vb) :
    sshSign cl m now user tok c0 ≠ .crash := by
  have hnow' : 0 ≤ unixOf (trunc now) ∧ unixOf (trunc now) + unixToInternal ≤ maxI64 := by
    rw [unixOf_trunc]; exact hnow
  unfold sshSign
  apply Out.bind_not_crash (tokenMods_nocrash now tok)
  intro mods hmods
  obtain ⟨hme, hma, hmb⟩ := tokenMods_ok hmods
  unfold sshSignWith
  apply Out.bind_not_crash (modifyValidity_nocrash now user c0)
  intro c1 hc1
  obtain ⟨e1, hna, hnb⟩ := modifyValidity_ok hc1
  have hct : (applyMods mods c1).ctype = c0.ctype := by rw [e1]; rfl
  have hra : reach (applyMods mods c1).va := by
    rw [e1, hme]; unfold applyMods; simp only []
    cases hz : tok.va.isZero with
    | true => exact reach_resolve now _ _ hua hna hc0.1
    | false => exact reach_ofInt _ (hma hz) hta
  have hrb : reach (applyMods mods c1).vb := by
    rw [e1, hme]; unfold applyMods; simp only []
    cases hz : tok.vb.isZero with
    | true => exact reach_resolve now _ _ hub hnb hc0.2
    | false => exact reach_ofInt _ (hmb hz) htb
  have hd' : ∀ d, cl.defSSH (applyMods mods c1).ctype = some d → 0 ≤ d ∧ d ≤ maxI64 := by rw [hct]; exact hd
  have hmod : sshModify cl m now user (applyMods mods c1) ≠ .crash := by
    cases m with
    | dflt => exact sshDefault_nocrash cl now user _ hbd hnow'.1 (fun d h => (hd' d h).1)
    | limit lna =>
      unfold sshModify
      simp only []
      cases hz : lna.isZero with
      | true =>
        have : sshLimit cl lna now user (applyMods mods c1) = sshDefault cl now user (applyMods mods c1) := by
          unfold sshLimit; rw [hz]; rfl
        rw [this]
        exact sshDefault_nocrash cl now user _ hbd hnow'.1 (fun d h => (hd' d h).1)
      | false =>
        have hl : unixToInternal ≤ lna.sec ∧ lna.sec ≤ maxI64 := by
          cases hm with
          | inl h => rw [hz] at h; cases h
          | inr h => exact h
        exact sshLimit_nocrash cl lna now user _ hz hl.1 hl.2 hbd hnow' hd' hra hrb
  apply Out.bind_not_crash hmod
  intro c3 _
  apply Out.bind_not_crash (sshValidityValid_nocrash cl now user.backdate c3 hnow.1)
  intro _ _
  apply Out.bind_not_crash (sshDefaultValid_nocrash now c3 hnow.1)
  intro _ _ hh
  cases hh

/-- the hypotheses of `ssh_no_crash` are met by the D7 request (validAfter = 1960-01-01), which is now
    refused with 400 … -/
theorem d7_now_refused :
    sshSign ⟨hardcoded, none⟩ .dflt d6now { va := { t := 61819977600 * second }, backdate := 60 * second } {}
      ⟨0#64, 0#64, userCert⟩ = .rej .mvEpoch := by decide

/-- **historic (D7, fixed by fffcedb).** … whereas the unguarded `ModifyValidity` aborted on it. -/
theorem ssh_no_crash_unguarded_refuted :
    ¬ ∀ (now : Int) (o : SshOpts) (c : SshCert), modifyValidityUnguarded now o c ≠ .crash := by
  intro h
  exact h d6now { va := { t := 61819977600 * second } } ⟨0#64, 0#64, userCert⟩ (by decide)

/-- the refusals of the repaired `renewSSH` / `rekeySSH` peeled off -/
theorem sshRenewDates_cases (anow bd : Int) (old : SshCert) :
    (sshRenewDates anow bd old = .rej .noValidity) ∨ (sshRenewDates anow bd old = .rej .renewPeriod) ∨
    (sshRenewDates anow bd old = .rej .renewShort) ∨
    (old.va.toNat ≤ old.vb.toNat ∧ old.vb.toNat - old.va.toNat ≤ 9223372036 ∧
      bd < secsToDur ((old.vb.toNat : Int) - old.va.toNat) ∧
      sshRenewDates anow bd old =
        (castU64 (unixOf (anow + wrap64 (-1 * bd))) >>= fun va =>
         castU64 (unixOf (anow + wrap64 (secsToDur ((old.vb.toNat : Int) - old.va.toNat) - bd))) >>= fun vb =>
         pure { old with va := va, vb := vb })) := by
  have e : sshRenewDates anow bd old =
      if old.va = 0#64 ∨ old.vb = 0#64 then .rej .noValidity
      else if old.vb < old.va then .rej .renewPeriod
      else if (old.vb - old.va).toNat > 9223372036 then .rej .renewPeriod
      else (castI64 (old.vb - old.va) >>= fun di =>
        if secsToDur di ≤ bd then .rej .renewShort
        else
          castU64 (unixOf (anow + wrap64 (-1 * bd))) >>= fun va =>
          castU64 (unixOf (anow + wrap64 (secsToDur di - bd))) >>= fun vb =>
          pure { old with va := va, vb := vb }) := rfl
  rw [e]
  by_cases h0 : old.va = 0#64 ∨ old.vb = 0#64
  · left; rw [if_pos h0]
  rw [if_neg h0]
  by_cases h1 : old.vb < old.va
  · right; left; rw [if_pos h1]
  rw [if_neg h1]
  by_cases h2 : (old.vb - old.va).toNat > 9223372036
  · right; left; rw [if_pos h2]
  rw [if_neg h2]
  rw [BitVec.lt_def] at h1
  have hs : (old.vb - old.va).toNat = old.vb.toNat - old.va.toNat := by
    rw [BitVec.toNat_sub]
    have := old.va.isLt
    have := old.vb.isLt
    omega
  have hc : ((old.vb.toNat - old.va.toNat : Nat) : Int) = (old.vb.toNat : Int) - old.va.toNat := by omega
  rw [castI64_bind, if_neg (by omega), hs, hc]
  by_cases h3 : secsToDur ((old.vb.toNat : Int) - old.va.toNat) ≤ bd
  · right; right; left; rw [if_pos h3]
  · right; right; right
    rw [if_neg h3]
    exact ⟨by omega, by omega, by omega, rfl⟩

/-- inversion of the repaired `renewSSH` / `rekeySSH` date arithmetic -/
theorem sshRenewDates_ok {anow bd : Int} {old c : SshCert} (hbd : 0 ≤ bd) (hbd2 : bd ≤ maxI64)
    (h : sshRenewDates anow bd old = .ok c) :
    old.va.toNat ≤ old.vb.toNat ∧ old.vb.toNat - old.va.toNat ≤ 9223372036 ∧
    0 ≤ unixOf (anow - bd) ∧
    c = ⟨BitVec.ofInt 64 (unixOf (anow - bd)),
         BitVec.ofInt 64 (unixOf (anow + (((old.vb.toNat : Int) - old.va.toNat) * 1000000000 - bd))), old.ctype⟩ := by
  rcases sshRenewDates_cases anow bd old with h0 | h0 | h0 | ⟨h1, h2, _, h3⟩
  · rw [h0] at h; cases h
  · rw [h0] at h; cases h
  · rw [h0] at h; cases h
  rw [h3] at h
  simp only [castU64_bind] at h
  rw [secsToDur_small _ (by omega) (by omega), wrap64_neg _ hbd hbd2,
    wrap64_id _ (by unfold minI64 maxI64 at *; omega) (by unfold maxI64 at *; omega)] at h
  have e : anow + -bd = anow - bd := by omega
  rw [e] at h
  by_cases ha : unixOf (anow - bd) < 0
  · rw [if_pos ha] at h; cases h
  rw [if_neg ha] at h
  by_cases hb : unixOf (anow + (((old.vb.toNat : Int) - old.va.toNat) * 1000000000 - bd)) < 0
  · rw [if_pos hb] at h; cases h
  rw [if_neg hb] at h
  cases h
  exact ⟨h1, h2, by omega, rfl⟩

/-- **ssh_renew_same_duration** (full strength since fix b334f43).  For EVERY old certificate — any
    `ValidAfter`, `ValidBefore`, including `vb < va`, 0 and "forever" — when `renewSSH` / `rekeySSH`
    issue, the new certificate starts at the authority's clock minus the backdate, lasts exactly as many
    seconds as the one it replaces, that lifetime is ≤ 9223372036 s (292 years), and the new
    `ValidBefore` is below 2⁶³ (so `cast.Uint64(va.Unix())`, `cast.Uint64(vb.Unix())` and every later
    `cast.Int64` on the new certificate cannot fail). -/
theorem ssh_renew_same_duration (anow bd : Int) (old c : SshCert)
    (hbd : 0 ≤ bd) (hbd2 : bd ≤ maxI64) (hnow : unixOf anow < 4611686018427387904)
    (h : sshRenewDates anow bd old = .ok c) :
    (c.vb.toNat : Int) - c.va.toNat = (old.vb.toNat : Int) - old.va.toNat ∧
    (c.vb.toNat : Int) - c.va.toNat ≤ 9223372036 ∧
    (c.va.toNat : Int) = unixOf (anow - bd) ∧ c.vb.toNat < 9223372036854775808 ∧ c.ctype = old.ctype := by
  obtain ⟨h1, h2, h3, h4⟩ := sshRenewDates_ok hbd hbd2 h
  subst h4
  simp only []
  unfold unixOf second unixToInternal maxI64 at *
  have e1 := toNat_ofInt_small ((anow - bd) / 1000000000 - 62135596800) (by omega) (by omega)
  have e2 := toNat_ofInt_small ((anow + (((old.vb.toNat : Int) - old.va.toNat) * 1000000000 - bd)) / 1000000000 - 62135596800)
    (by omega) (by omega)
  refine ⟨by omega, by omega, by omega, by omega, trivial⟩

example : sshRenewDates (d6now + 5) (60 * second) ⟨1700000000#64, 1700057600#64, userCert⟩ =
    .ok ⟨1764403140#64, 1764460740#64, userCert⟩ := by decide


/-- **acme_order_exact.** What `NewOrder` stores: requested dates verbatim; an absent `notBefore` is the
    ACME clock minus one minute, an absent `notAfter` is the (un-backdated) start plus the provisioner's
    default duration; an order whose dates JSON cannot carry (year > 9999) is not created. -/
theorem acme_order_exact (clk dflt rnb rna : Int) (o : Cert) (h : acmeNewOrder clk dflt rnb rna = .ok o) :
    (rnb ≠ 0 → o.nb = rnb) ∧ (rna ≠ 0 → o.na = rna) ∧
    (rnb = 0 → o.nb = clk - acmeBackdate) ∧
    (rna = 0 → o.na = (if rnb = 0 then clk else rnb) + dflt) ∧ encodable o.nb ∧ encodable o.na := by
  unfold acmeNewOrder at h
  simp only [] at h
  split at h
  · rename_i he
    cases h
    unfold acmeOrderDates at he ⊢
    simp only [] at he ⊢
    refine ⟨?_, ?_, ?_, ?_, he.1, he.2⟩
    · intro hr; simp [hr]
    · intro hr; simp [hr]
    · intro hr; simp [hr]; omega
    · intro hr; simp [hr]
  · cases h

/-! ### which configured SSH durations make which request abort -/


theorem tdiv_second_neg_iff (d : Int) : Int.tdiv d second < 0 ↔ d ≤ -second := by
  rw [Int.tdiv_eq_ediv]
  unfold second
  split <;> simp [Int.sign] <;> omega

/-- **ssh_default_crash_iff.** Exact characterisation of the hypothesis `hd` of `ssh_no_crash` for the
    default-duration modifier: with a sane clock and backdate it aborts **iff** no `validBefore` is in
    effect and the configured default SSH duration of the certificate's type is ≤ −1 s.  (Minimum and
    maximum SSH durations never make it abort, whatever their values.) -/
theorem ssh_default_crash_iff (cl : Claimer) (now : Int) (o : SshOpts) (c : SshCert) (d : Int)
    (hd : cl.defSSH c.ctype = some d) (hbd : 0 ≤ o.backdate) (hnow : 0 ≤ unixOf (trunc now)) :
    sshDefault cl now o c = .crash ↔ (c.vb = 0#64 ∧ d ≤ -second) := by
  have h3 : ¬ Int.tdiv o.backdate second < 0 := by
    have := Int.tdiv_nonneg hbd (by decide : (0:Int) ≤ second); omega
  have hn : ¬ unixOf (trunc now) < 0 := by omega
  have hk := tdiv_second_neg_iff d
  have crash_bind : ∀ (f : U64 → Out SshCert), ((Out.crash : Out U64) >>= f) = .crash := fun _ => rfl
  unfold sshDefault
  rw [hd]
  simp only []
  by_cases hvb : c.vb = 0#64
  · by_cases hneg : Int.tdiv d second < 0
    · have hd' := hk.mp hneg
      by_cases hva : c.va = 0#64 <;>
        simp only [hva, hvb, castU64_bind, pure_bind', if_true, if_false, if_neg h3, if_neg hn, if_pos hneg, crash_bind,
          true_and, hd']
    · have hd' : ¬ d ≤ -second := fun h => hneg (hk.mpr h)
      by_cases hva : c.va = 0#64 <;>
        simp only [hva, hvb, castU64_bind, pure_bind', if_true, if_false, if_neg h3, if_neg hn, if_neg hneg,
          true_and, hd', iff_false] <;> (split <;> (intro hh; cases hh))
  · by_cases hva : c.va = 0#64 <;>
      simp only [hva, hvb, castU64_bind, pure_bind', if_true, if_false, if_neg h3, if_neg hn, false_and, iff_false] <;>
      (split <;> (intro hh; cases hh))


/-- … and through the whole sign chain of a default-duration provisioner (JWK, OIDC, cloud identity,
    K8sSA): a request that the options stage lets through and that leaves `validBefore` unset aborts
    the handler when the type's default SSH duration is configured ≤ −1 s — a configuration
    `Claimer.Validate` accepts (`claims_ssh_unchecked`). -/
theorem ssh_sign_aborts_on_negative_default (cl : Claimer) (now : Int) (user : SshOpts)
    (mods : Option U64 × Option U64) (c0 c1 : SshCert) (d : Int)
    (hmv : modifyValidity now user c0 = .ok c1) (hvb : (applyMods mods c1).vb = 0#64)
    (hd : cl.defSSH c0.ctype = some d) (hneg : d ≤ -second)
    (hbd : 0 ≤ user.backdate) (hnow : 0 ≤ unixOf now) :
    sshSignWith cl .dflt now user mods c0 = .crash := by
  have hct : (applyMods mods c1).ctype = c0.ctype := by rw [(modifyValidity_ok hmv).1]; rfl
  have hc := (ssh_default_crash_iff cl now user (applyMods mods c1) d (by rw [hct]; exact hd) hbd
    (by rw [unixOf_trunc]; exact hnow)).mpr ⟨hvb, hneg⟩
  unfold sshSignWith
  rw [hmv]
  show (sshModify cl .dflt now user (applyMods mods c1) >>= _) = _
  unfold sshModify
  simp only []
  rw [hc]
  rfl

example : sshSignWith ⟨hardcoded, some { defUser := some (-3600 * second) }⟩ .dflt d6now { backdate := 60 * second }
    (none, none) ⟨0#64, 0#64, userCert⟩ = .crash := by decide

/-! ### renewSSH / rekeySSH on an authorized certificate (the `cast.Int64(ValidBefore − ValidAfter)` site) -/

/-- **ssh_renew_no_crash** (full strength since fix b334f43).  For EVERY old certificate (any two 64-bit
    bounds) `renewSSH` never aborts, and `rekeySSH` (which then runs the SSHPOP validators) does not
    either; the only deployment hypotheses are `0 ≤ backdate` and a clock such that clock − backdate is
    not before 1970.  Moreover a certificate that passed the renewal gate and was renewed has
    `ValidAfter, ValidBefore < 2⁶³`, so the `cast.Int64(oldCert.ValidAfter/ValidBefore)` of
    api/sshRenew.go and api/sshRekey.go cannot fail after a successful renewal. -/
theorem ssh_renew_no_crash (cl : Claimer) (unixNow anow pnow bd : Int) (allowExpired : Bool) (old : SshCert)
    (hbd : 0 ≤ bd) (hbd2 : bd ≤ maxI64) (hclk : 0 ≤ unixOf (anow - bd)) (hpnow : 0 ≤ unixOf pnow)
    (hnow : unixNow < 4611686018427387904) :
    sshRenewDates anow bd old ≠ .crash ∧ sshRekey cl anow pnow bd old ≠ .crash ∧
    (∀ c, renewGate unixNow allowExpired old = true → sshRenewDates anow bd old = .ok c →
      old.va.toNat < 9223372036854775808 ∧ old.vb.toNat < 9223372036854775808) := by
  have hnc : sshRenewDates anow bd old ≠ .crash := by
    rcases sshRenewDates_cases anow bd old with h0 | h0 | h0 | ⟨h1, h2, _, h3⟩
    · rw [h0]; intro hh; cases hh
    · rw [h0]; intro hh; cases hh
    · rw [h0]; intro hh; cases hh
    rw [h3]
    simp only [castU64_bind]
    rw [secsToDur_small _ (by omega) (by omega), wrap64_neg _ hbd hbd2,
      wrap64_id _ (by unfold minI64 maxI64 at *; omega) (by unfold maxI64 at *; omega)]
    have e : anow + -bd = anow - bd := by omega
    rw [e]
    unfold unixOf second unixToInternal at *
    nocrash_finish
  refine ⟨hnc, ?_, ?_⟩
  · unfold sshRekey
    apply Out.bind_not_crash hnc
    intro c _
    apply Out.bind_not_crash (sshValidityValid_nocrash cl pnow bd c hpnow)
    intro _ _
    apply Out.bind_not_crash (sshDefaultValid_nocrash pnow c hpnow)
    intro _ _ hh
    cases hh
  · intro c hg hok
    obtain ⟨h1, h2, _, _⟩ := sshRenewDates_ok hbd hbd2 hok
    unfold renewGate at hg
    split at hg
    · cases hg
    · rename_i hva
      omega

example : sshRenewDates d6now (60 * second) ⟨1#64, certTimeInfinity, hostCert⟩ = .rej .renewPeriod := by decide
example : sshRenewDates d6now (60 * second) ⟨1764403000#64, 10987775100#64, hostCert⟩ = .rej .renewPeriod := by decide
example : sshRenewDates d6now (60 * second) ⟨100#64, 50#64, hostCert⟩ = .rej .renewPeriod := by decide

/-- **historic (fixed by b334f43).** Before the fix the gates alone did not suffice: a certificate valid
    "forever" (`ValidBefore = CertTimeInfinity`), signed with the CA's SSH key, passes
    `DefaultAuthorizeSSHRenew` (and `SSHPOP.authorizeToken`), and `renewSSH` / `rekeySSH` aborted in
    `cast.Int64(ValidBefore − ValidAfter)`. -/
theorem ssh_renew_forever_aborted_before :
    renewGate 1764403200 false ⟨1#64, certTimeInfinity, hostCert⟩ = true ∧
    sshRenewDatesBefore d6now (60 * second) ⟨1#64, certTimeInfinity, hostCert⟩ = .crash := by decide

/-- **historic.** Same for a 292-year certificate (lifetime 9223372100 s): the wrapping product was about
    −292 years and `cast.Uint64(vb.Unix())` aborted. -/
theorem ssh_renew_292y_aborted_before :
    renewGate 1764403200 false ⟨1764403000#64, 10987775100#64, hostCert⟩ = true ∧
    sshRenewDatesBefore d6now (60 * second) ⟨1764403000#64, 10987775100#64, hostCert⟩ = .crash := by decide

/-! ### identity certificate; migration into the admin database -/


theorem unixInstant_ok {x : U64} {t : Int} (h : unixInstant x = .ok t) (hr : reach x) :
    t = ((x.toNat : Int) + unixToInternal) * second := by
  unfold unixInstant at h
  simp only [castI64_bind] at h
  split at h
  · cases h
  have h' : wrap64 ((x.toNat : Int) + unixToInternal) * second = t := Out.ok.inj h
  rw [← h']
  unfold reach at hr
  rw [wrap64_id _ (by unfold minI64 unixToInternal; omega) hr]

/-- **identity_sign_exact.** The identity certificate issued together with an SSH certificate
    (`/ssh/sign` with an identity CSR) takes exactly that SSH certificate's validity. -/
theorem identity_sign_exact (c : SshCert) (i : Cert) (hva : reach c.va) (hvb : reach c.vb)
    (h : identitySign c = .ok i) :
    unixOf i.nb = c.va.toNat ∧ unixOf i.na = c.vb.toNat ∧ trunc i.nb = i.nb ∧ trunc i.na = i.na := by
  unfold identitySign at h
  obtain ⟨nb, h1, h2⟩ := Out.bind_ok h
  obtain ⟨na, h3, h4⟩ := Out.bind_ok h2
  cases h4
  rw [unixInstant_ok h1 hva, unixInstant_ok h3 hvb]
  simp only []
  unfold unixOf trunc second unixToInternal
  omega

/-- **identity_renew_matches_ssh.** `/ssh/renew` and `/ssh/rekey` over mTLS: when both certificates are
    issued, the renewed identity certificate has exactly the lifetime of the new SSH certificate (which is
    the old one's, `ssh_renew_same_duration`) and, like it, starts at the clock minus the backdate — it
    neither outlives the SSH certificate it comes with nor is stretched by the age of the old one. -/
theorem identity_renew_matches_ssh (unixNow anow casNow bd : Int) (allowExpired : Bool) (old c : SshCert) (i : Cert)
    (hbd : 0 ≤ bd) (hbd2 : bd ≤ maxI64) (hbds : trunc bd = bd)
    (hnow : unixNow < 4611686018427387904) (hanow : unixOf anow < 4611686018427387904)
    (hg : renewGate unixNow allowExpired old = true)
    (h : sshRenewWithIdentity anow casNow bd old = .ok (c, i)) :
    i.na - i.nb = ((c.vb.toNat : Int) - c.va.toNat) * second ∧
    i.nb = trunc (casNow - bd) ∧ (c.va.toNat : Int) = unixOf (anow - bd) := by
  unfold sshRenewWithIdentity at h
  obtain ⟨c', h1, h2⟩ := Out.bind_ok h
  obtain ⟨i', h3, h4⟩ := Out.bind_ok h2
  cases h4
  obtain ⟨k1, k2, _, _⟩ := sshRenewDates_ok hbd hbd2 h1
  obtain ⟨s1, _, s3, _, _⟩ := ssh_renew_same_duration anow bd old c hbd hbd2 hanow h1
  have hva : old.va.toNat < 9223372036854775808 ∧ (old.va.toNat : Int) ≤ unixNow := by
    unfold renewGate at hg
    split at hg
    · cases hg
    · omega
  have hra : reach old.va := by unfold reach maxI64 unixToInternal; omega
  have hrb : reach old.vb := by unfold reach maxI64 unixToInternal; omega
  unfold identityRenew at h3
  obtain ⟨w, h5, h6⟩ := Out.bind_ok h3
  obtain ⟨w1, w2, w3, w4⟩ := identity_sign_exact old w hra hrb h5
  have hd : w.na - w.nb = ((old.vb.toNat : Int) - old.va.toNat) * second := by
    unfold unixOf trunc second at *; omega
  have := renew_same_duration casNow bd w i ⟨w3, w4⟩ hbds hbd hbd2
    (by rw [hd]; unfold second; omega) (by rw [hd]; unfold second maxI64; omega) h6
  refine ⟨by rw [this.1, hd, s1], this.2, s3⟩

/-- **migration_preserves_effective.** Moving a ca.json provisioner into the admin database and loading it
    back (`claimsToLinkedca`, `claimsToCertificates`) leaves its effective X.509 durations — for every
    subset of {min, max, default} it overrides — and the outcome of `Validate` unchanged; with the SSH CA
    enabled for it, every effective duration is unchanged. -/
theorem migration_preserves_effective (g : Full) (c : Option Claims) (ssh : Bool) :
    let a : Claimer := ⟨g, c⟩
    let b : Claimer := ⟨g, migrateClaims ssh c⟩
    b.minTLS = a.minTLS ∧ b.maxTLS = a.maxTLS ∧ b.defTLS = a.defTLS ∧ b.validate = a.validate ∧
    (ssh = true → b.merged = a.merged) := by
  cases c with
  | none => simp [migrateClaims]
  | some c =>
    cases ssh with
    | true => simp [migrateClaims]
    | false => exact ⟨rfl, rfl, rfl, rfl, fun h => by cases h⟩


/-! ### certificate templates that set the validity -/


/-- a template instant the SSH conversion can digest: not set, or from 1970 on and representable -/
def tplFine (t : Int) : Prop := t = 0 ∨ (0 ≤ unixOf t ∧ unixOf t + unixToInternal ≤ maxI64)

theorem templateValidity_fine (t : Int) (h : tplFine t) : ∃ v, templateValidity t = .ok v ∧ reach v := by
  unfold templateValidity
  cases h with
  | inl h0 =>
    rw [if_pos h0]
    exact ⟨0#64, rfl, by unfold reach unixToInternal maxI64; decide⟩
  | inr h1 =>
    by_cases h0 : t = 0
    · rw [if_pos h0]
      exact ⟨0#64, rfl, by unfold reach unixToInternal maxI64; decide⟩
    · rw [if_neg h0]
      unfold castU64
      rw [if_neg (by omega)]
      exact ⟨_, rfl, reach_ofInt _ h1.1 h1.2⟩

/-- **ssh_no_crash_template.** `ssh_no_crash` with the certificate coming from the provisioner's SSH template:
    when the template sets no validity (default templates) or instants from 1970 on, the sign chain never
    aborts, for every request. -/
theorem ssh_no_crash_template (cl : Claimer) (m : SshMode) (now : Int) (user tok : SshOpts) (tva tvb : Int) (ctype : Nat)
    (hnow : 0 ≤ unixOf now ∧ unixOf now + unixToInternal ≤ maxI64)
    (hua : tdRepresentable now user.va) (hub : tdRepresentable now user.vb)
    (hta : tdRepresentable now tok.va) (htb : tdRepresentable now tok.vb)
    (hbd : 0 ≤ user.backdate)
    (hd : ∀ d, cl.defSSH ctype = some d → 0 ≤ d ∧ d ≤ maxI64)
    (hm : modeFine m) (htpl : tplFine tva ∧ tplFine tvb) :
    sshSignTemplate cl m now user tok tva tvb ctype ≠ .crash := by
  obtain ⟨va, e1, r1⟩ := templateValidity_fine tva htpl.1
  obtain ⟨vb, e2, r2⟩ := templateValidity_fine tvb htpl.2
  have key := ssh_no_crash cl m now user tok ⟨va, vb, ctype⟩ hnow hua hub hta htb hbd hd hm ⟨r1, r2⟩
  unfold sshSign at key
  unfold sshSignTemplate sshTemplateCert
  rw [e1, e2]
  exact key

/-- A template whose `validAfter` lies before 1970 aborts `Authority.signSSH` (sshutil's `toValidity` uses
    `utils.MustUint64`) — for every request, before any option of the request is looked at. -/
theorem ssh_template_pre1970_aborts :
    sshSignTemplate ⟨hardcoded, none⟩ .dflt d6now { backdate := 60 * second } {} (61819977600 * second) 0 userCert = .crash := by
  decide

/-- **ssh_bounds_template.** Whatever validity the SSH template sets, an issued certificate is inside the
    bounds (`ssh_bounds` quantifies over the template's leftovers already). -/
theorem ssh_bounds_template (cl : Claimer) (m : SshMode) (now : Int) (user tok : SshOpts) (tva tvb : Int) (ctype : Nat)
    (c : SshCert) (mn mx : Int) (hm : cl.minMaxSSH c.ctype = some (mn, mx))
    (hmx : 0 ≤ mx) (hmx2 : mx ≤ maxI64) (hbd : 0 ≤ user.backdate) (hbd2 : user.backdate ≤ maxI64)
    (hnow : unixOf now < 9223372036854775808)
    (h : sshSignTemplate cl m now user tok tva tvb ctype = .ok c) :
    c.va.toNat ≤ c.vb.toNat ∧ unixOf now ≤ c.vb.toNat ∧
    mn ≤ ((c.vb.toNat : Int) - c.va.toNat) * 1000000000 ∧
    ((c.vb.toNat : Int) - c.va.toNat) * 1000000000 ≤ mx + user.backdate := by
  unfold sshSignTemplate at h
  obtain ⟨mods, _, h2⟩ := Out.bind_ok h
  obtain ⟨c0, _, h3⟩ := Out.bind_ok h2
  exact ssh_bounds cl m now user mods c0 c mn mx hm hmx hmx2 hbd hbd2 hnow h3

/-- **template_dates_exact.** X.509 dates set by the provisioner's template are the leaf's when the request
    does not ask for its own (no backdate is applied to a template `notBefore`), or the request is refused;
    `x509_bounds` holds for them like for any other. -/
theorem template_dates_exact (cl : Claimer) (m : Mode) (now vnow : Int) (c : Cert) (so : SignOpts) (leaf : Cert)
    (h : x509Leaf cl m now vnow c so = .ok leaf) :
    (reqNb now so = 0 → c.nb ≠ 0 → leaf.nb = c.nb) ∧
    (relativeTime (nb1of now c so) so.na = 0 → c.na ≠ 0 → leaf.na = c.na) := by
  have key : leaf.nb = nb1of now c so + bdof now c so ∧ (na0of now c so ≠ 0 → leaf.na = na0of now c so) := by
    cases m with
    | dflt =>
      rw [(x509Leaf_dflt_ok h).1, profileDefault_eq]
      exact ⟨rfl, fun hn => by simp [hn]⟩
    | limit lnb lna =>
      obtain ⟨_, _, h3⟩ := profileLimit_ok (x509Leaf_limit_ok h).1
      rw [h3]
      exact ⟨rfl, fun hn => by simp [hn]⟩
  obtain ⟨k1, k2⟩ := key
  constructor
  · intro h0 hc
    unfold reqNb at h0
    rw [k1]
    unfold bdof nb1of nb0of timeOr
    rw [h0]
    simp [hc]
  · intro h0 hc
    have : na0of now c so = c.na := by
      unfold na0of timeOr
      rw [h0]
      simp [hc]
    rw [k2 (by rw [this]; exact hc), this]

example : x509Leaf ⟨hardcoded, none⟩ .dflt (63900000000 * second) (63900000000 * second)
    ⟨63899996400 * second, 63900007200 * second⟩ { backdate := 60 * second } =
    .ok ⟨63899996400 * second, 63900007200 * second⟩ := by decide


/-! ### the chains every provisioner installs (source-derived table) -/


/-- **all_chains_validated.** In the (source-derived) table of what every provisioner's `AuthorizeSign`,
    `AuthorizeSSHSign` and `AuthorizeSSHRekey` installs: whoever installs an X.509 validity modifier also
    installs `validityValidator` with the claims' min/max, and whoever installs an SSH validity modifier
    (or, for rekey, nothing but validators) installs both SSH validators. -/
theorem all_chains_validated :
    ∀ e ∈ chainTable, (e.x509.isSome = true → e.x509Val = true) ∧
      (e.ssh.isSome = true → e.sshVal = true ∧ e.sshDVal = true) ∧ (e.sshVal = e.sshDVal) := by decide

/-- the methods through which X.509 certificates are authorized (every provisioner type with a sign flow) -/
def x509Issuers : List String := ["ACME.AuthorizeSign", "AWS.AuthorizeSign", "Azure.AuthorizeSign", "GCP.AuthorizeSign",
  "JWK.AuthorizeSign", "K8sSA.AuthorizeSign", "Nebula.AuthorizeSign", "OIDC.AuthorizeSign", "SCEP.AuthorizeSign", "X5C.AuthorizeSign"]
def sshIssuers : List String := ["AWS.AuthorizeSSHSign", "Azure.AuthorizeSSHSign", "GCP.AuthorizeSSHSign", "JWK.AuthorizeSSHSign",
  "K8sSA.AuthorizeSSHSign", "Nebula.AuthorizeSSHSign", "OIDC.AuthorizeSSHSign", "X5C.AuthorizeSSHSign"]

/-- every one of them is in the table with one of the two modelled modifiers (and, by
    `all_chains_validated`, the validator); the remaining table rows (`base`, `noop`, rekey) install no
    validity modifier at all -/
theorem issuers_modelled :
    (∀ n ∈ x509Issuers, ∃ e ∈ chainTable, e.fn = n ∧ e.x509.isSome = true) ∧
    (∀ n ∈ sshIssuers, ∃ e ∈ chainTable, e.fn = n ∧ e.ssh.isSome = true) ∧
    (∀ e ∈ chainTable, e.fn ∉ x509Issuers → e.x509 = none) ∧
    (∀ e ∈ chainTable, e.fn ∉ sshIssuers → e.ssh = none) := by decide

/-- **chain_bounds_x509.** For every provisioner in the table: whatever the request, template and credential
    window, a leaf its chain accepts is inside the bounds (`x509_bounds` instantiated at the mode the
    provisioner actually installs). -/
theorem chain_bounds_x509 (e : ChainEntry) (_he : e ∈ chainTable) (md : XMod) (_hmd : e.x509 = some md)
    (cl : Claimer) (lnb lna now vnow : Int) (c : Cert) (so : SignOpts) (leaf : Cert)
    (hv : cl.validate = true) (hbd : 0 ≤ so.backdate) (hbd2 : so.backdate ≤ maxI64)
    (hmx : cl.maxTLS ≤ maxI64) (hsum : cl.maxTLS + so.backdate ≠ maxI64)
    (h : x509Leaf cl (md.toMode lnb lna) now vnow c so = .ok leaf) :
    trunc vnow ≤ trunc leaf.na ∧ cl.minTLS ≤ trunc leaf.na - trunc leaf.nb ∧
    trunc leaf.na - trunc leaf.nb ≤ cl.maxTLS + so.backdate ∧
    (md = .limit → leaf.na ≤ lna) := by
  have hb := x509_bounds cl (md.toMode lnb lna) now vnow c so leaf hv hbd hbd2 hmx hsum h
  refine ⟨hb.1, hb.2.1, hb.2.2, ?_⟩
  intro hl
  subst hl
  exact (x5c_limit cl lnb lna now vnow c so leaf hbd hbd2 h).1

/-- **chain_bounds_ssh.** Same for SSH: every table entry with an SSH modifier also has the validators
    (`all_chains_validated`), so `ssh_bounds` applies to what it issues. -/
theorem chain_bounds_ssh (e : ChainEntry) (_he : e ∈ chainTable) (md : SMod) (_hmd : e.ssh = some md)
    (cl : Claimer) (lna : GTime) (now : Int) (user : SshOpts) (mods : Option U64 × Option U64) (c0 c : SshCert)
    (mn mx : Int) (hm : cl.minMaxSSH c.ctype = some (mn, mx))
    (hmx : 0 ≤ mx) (hmx2 : mx ≤ maxI64) (hbd : 0 ≤ user.backdate) (hbd2 : user.backdate ≤ maxI64)
    (hnow : unixOf now < 9223372036854775808)
    (h : sshSignWith cl (md.toMode lna) now user mods c0 = .ok c) :
    c.va.toNat ≤ c.vb.toNat ∧ unixOf now ≤ c.vb.toNat ∧
    mn ≤ ((c.vb.toNat : Int) - c.va.toNat) * 1000000000 ∧
    ((c.vb.toNat : Int) - c.va.toNat) * 1000000000 ≤ mx + user.backdate :=
  ssh_bounds cl (md.toMode lna) now user mods c0 c mn mx hm hmx hmx2 hbd hbd2 hnow h

example : (chainTable.filter (fun e => e.x509.isSome)).length = 10 := by decide


/-- observation: with authority backdate 0 and default = max, the *default* ACME order (start backdated by the
    ACME minute) is one minute too long for the validator and Finalize refuses it -/
example : x509Leaf ⟨hardcoded, none⟩ .dflt (63900000000 * second) (63900000000 * second) ⟨0, 0⟩
    (acmeSignOpts (acmeOrderDates (63900000000 * second) day 0 0) 0) = .rej .tooLong := by decide

/-! ### claims conversion ca.json ↔ linkedca, every duration -/


/-- **conv_preserves_tls.** `claimsToCertificates ∘ claimsToLinkedca` (the ca.json → admin DB migration and
    every reload, for every provisioner type: the type-specific code only passes the claims through) keeps
    the three X.509 duration pointers exactly, for every subset that is set and every value. -/
theorem conv_preserves_tls (c : CClaims) :
    ∃ c', toCert (toLinked (some c)) = some c' ∧
      c'.d.minTLS = c.d.minTLS ∧ c'.d.maxTLS = c.d.maxTLS ∧ c'.d.defTLS = c.d.defTLS := by
  refine ⟨_, rfl, ?_, ?_, ?_⟩ <;>
    (simp only [Dur3.any]
     cases h1 : c.d.minTLS <;> cases h2 : c.d.maxTLS <;> cases h3 : c.d.defTLS <;> simp)

/-- **conv_ssh_enabled_exact.** With `enableSSHCA: true` the round trip is the identity on all nine durations
    and on the flag. -/
theorem conv_ssh_enabled_exact (c : CClaims) (h : c.enableSSH = some true) :
    toCert (toLinked (some c)) = some c := by
  obtain ⟨d, e⟩ := c
  obtain ⟨a1, a2, a3, a4, a5, a6, a7, a8, a9⟩ := d
  simp only at h
  subst h
  simp only [toLinked, toCert, Option.map, Dur3.any]
  cases a1 <;> cases a2 <;> cases a3 <;> cases a4 <;> cases a5 <;> cases a6 <;> cases a7 <;> cases a8 <;> cases a9 <;> rfl

/-- **conv_ssh_not_enabled.** Without `enableSSHCA: true` the SSH block is not written: the SSH durations come
    back unset and — observation — an explicit `enableSSHCA: false` comes back as "not set", i.e. the provisioner
    inherits the authority-level value after the migration. -/
theorem conv_ssh_not_enabled (c : CClaims) (h : c.enableSSH ≠ some true) :
    ∃ c', toCert (toLinked (some c)) = some c' ∧ c'.enableSSH = none ∧
      c'.d.minUser = none ∧ c'.d.maxUser = none ∧ c'.d.defUser = none ∧
      c'.d.minHost = none ∧ c'.d.maxHost = none ∧ c'.d.defHost = none := by
  refine ⟨_, rfl, ?_⟩
  simp [toLinked, toCert, if_neg h]

theorem conv_explicit_ssh_disable_lost :
    ¬ ∀ c : CClaims, ∃ c', toCert (toLinked (some c)) = some c' ∧ c'.enableSSH = c.enableSSH := by
  intro h
  obtain ⟨c', h1, h2⟩ := h { enableSSH := some false }
  simp [toLinked, toCert, Dur3.any] at h1
  subst h1
  simp at h2

/-- **conv_idempotent.** What the admin database holds is stable: converting it to the in-memory form and back
    changes nothing any more. -/
theorem conv_idempotent (c : Option CClaims) : toLinked (toCert (toLinked c)) = toLinked c := by
  cases c with
  | none => rfl
  | some c =>
    by_cases h : c.enableSSH = some true
    · rw [conv_ssh_enabled_exact c h]
    · obtain ⟨d, e⟩ := c
      obtain ⟨a1, a2, a3, a4, a5, a6, a7, a8, a9⟩ := d
      simp only at h
      simp only [toLinked, toCert, Option.map, Dur3.any, if_neg h]
      cases a1 <;> cases a2 <;> cases a3 <;> simp

/-- the migration function used by `migration_preserves_effective` is this round trip -/
theorem migrateClaims_eq_conv (ssh : Bool) (c : Option Claims) :
    migrateClaims ssh c =
      (toCert (toLinked (c.map fun d => { d := d, enableSSH := if ssh then some true else none }))).map (·.d) := by
  cases c with
  | none => rfl
  | some d =>
    cases ssh with
    | true =>
      have := conv_ssh_enabled_exact { d := d, enableSSH := some true } rfl
      simp only [Option.map, if_true] at this ⊢
      rw [this]; rfl
    | false =>
      obtain ⟨a1, a2, a3, a4, a5, a6, a7, a8, a9⟩ := d
      simp only [migrateClaims, toLinked, toCert, Option.map, Dur3.any]
      cases a1 <;> cases a2 <;> cases a3 <;> simp


/-- **conv_x509_flag_ignored.** The X.509 durations an admin-database provisioner carries are the ones in force
    whatever its `X509.Enabled` flag says (an admin client that leaves the flag out does not silently get the
    authority-wide durations): `claimsToCertificates` reads the `Durations` block of every `X509` block. -/
theorem conv_x509_flag_ignored (l : LClaims) (e e' : Bool) (d : Option Dur3) :
    toCert (some { l with x509 := some (e, d) }) = toCert (some { l with x509 := some (e', d) }) := rfl

/-- … so the durations read back are exactly the block's, for every block and flag -/
theorem conv_l2c_tls_exact (l : LClaims) (e : Bool) (d : Dur3) (c : CClaims)
    (hx : l.x509 = some (e, some d)) (h : toCert (some l) = some c) :
    c.d.minTLS = d.min ∧ c.d.maxTLS = d.max ∧ c.d.defTLS = d.dflt := by
  simp only [toCert, Option.map, hx] at h
  injection h with h
  subst h
  exact ⟨rfl, rfl, rfl⟩

/-! ### the admin API's claim validation -/


/-- **admin_validate_sound** (full strength since fix e2d04ab).  For every block the admin API's
    `ValidateDurations` accepts: every set duration is non-negative and `min ≤ default ≤ max` holds between every
    two that are set (`min ≤ max`, `min ≤ default`, `default ≤ max`). -/
theorem admin_validate_sound (d : Dur3) (h : validateDurations d = true) :
    (∀ v, d.min = some v → 0 ≤ v) ∧ (∀ v, d.max = some v → 0 ≤ v) ∧ (∀ v, d.dflt = some v → 0 ≤ v) ∧
    (∀ a b, d.min = some a → d.max = some b → a ≤ b) ∧ (∀ a b, d.min = some a → d.dflt = some b → a ≤ b) ∧
    (∀ a b, d.dflt = some a → d.max = some b → a ≤ b) := by
  obtain ⟨mn, mx, df⟩ := d
  unfold validateDurations at h
  cases mn <;> cases mx <;> cases df <;> simp at h ⊢ <;> omega

example : validateDurations { min := some (300 * second), max := some day, dflt := some (3600 * second) } = true := by decide

/-- … in particular an SSH default duration set through the admin API is non-negative: provisioners created or
    updated there satisfy the configuration hypothesis of `ssh_no_crash` (ca.json provisioners do not:
    `claims_ssh_unchecked`). -/
theorem admin_validated_ssh_default_nonneg (l : LClaims) (e : Bool) (u h : Option Dur3)
    (hs : l.ssh = some (e, u, h)) (hv : validateLClaims (some l) = true) :
    (∀ d v, u = some d → d.dflt = some v → 0 ≤ v) ∧ (∀ d v, h = some d → d.dflt = some v → 0 ≤ v) := by
  unfold validateLClaims at hv
  simp only [hs, Bool.and_eq_true] at hv
  obtain ⟨_, hu, hh⟩ := hv
  constructor
  · intro d v hd hdv
    subst hd
    exact (admin_validate_sound d hu).2.2.1 v hdv
  · intro d v hd hdv
    subst hd
    exact (admin_validate_sound d hh).2.2.1 v hdv

example : validateDurations { max := some day, dflt := some (2 * day) } = false := by decide

/-- **historic (fixed by e2d04ab).** The check that should refuse `default > max` repeated `min > default`: a block
    with default 48 h and maximum 24 h was accepted.  (For X.509 the provisioner then failed to initialise — 500
    instead of 400; for SSH nothing refused it and every default-duration SSH sign was refused as too long.) -/
theorem admin_validate_default_above_max_before :
    validateDurationsBefore { max := some day, dflt := some (2 * day) } = true ∧
    ¬ ∀ d : Dur3, validateDurationsBefore d = true → ∀ a b, d.dflt = some a → d.max = some b → a ≤ b := by
  refine ⟨by decide, ?_⟩
  intro h
  have := h { max := some day, dflt := some (2 * day) } (by decide) (2 * day) day rfl rfl
  revert this
  decide

/-! ### the lifetime handed to the CAS (RA / cloud / vault style issuance) -/


/-- **cas_lifetime_bounds.** The lifetime `signX509` hands to the CAS is the validated length minus the backdate,
    so a CAS that issues from its own clock — StepCAS in RA mode, CloudCAS, VaultCAS: `[t − backdate, t + lifetime]`
    for whatever clock `t` — issues a certificate whose lifetime is the leaf's: inside `[min, max + backdate]` up to
    the two seconds the truncations (leaf and CAS clock) can move, whatever notBefore / notAfter the request or the template asked for
    (an explicit future notBefore does not stretch it). -/
theorem cas_lifetime_bounds (cl : Claimer) (m : Mode) (now vnow : Int) (c : Cert) (so : SignOpts) (leaf : Cert)
    (hv : cl.validate = true) (hbd : 0 ≤ so.backdate) (hbd2 : so.backdate ≤ maxI64)
    (hmx : cl.maxTLS + so.backdate + 2 * second ≤ maxI64)
    (h : x509Leaf cl m now vnow c so = .ok leaf) :
    casLifetime leaf so.backdate + so.backdate = leaf.na - leaf.nb ∧
    ∀ t : Int, cl.minTLS - 2 * second < trunc (t + casLifetime leaf so.backdate) - trunc (t - so.backdate) ∧
               trunc (t + casLifetime leaf so.backdate) - trunc (t - so.backdate) < cl.maxTLS + so.backdate + 2 * second := by
  have hc := claims_consistent cl hv
  have hb := x509_bounds cl m now vnow c so leaf hv hbd hbd2 (by unfold second maxI64 at *; omega)
    (by unfold second maxI64 at *; omega) h
  have e : casLifetime leaf so.backdate = leaf.na - leaf.nb - so.backdate := by
    unfold casLifetime tsub
    unfold trunc second maxI64 minI64 at *
    simp only []
    omega
  refine ⟨by omega, ?_⟩
  intro t
  rw [e]
  unfold trunc second maxI64 at *
  omega

/-- … and when a lifetime-based CAS issues for an accepted leaf, that is the certificate -/
theorem lifetimeCas_issue (casNow : Int) (leaf cert : Cert) (bd : Int) (hbd : 0 ≤ bd) (hbd2 : bd ≤ maxI64)
    (h : lifetimeCasCreate casNow leaf bd = .ok cert) :
    cert = ⟨trunc (casNow - bd), trunc (casNow + casLifetime leaf bd)⟩ ∧ casLifetime leaf bd ≠ 0 := by
  unfold lifetimeCasCreate at h
  simp only [] at h
  rw [wrap64_neg _ hbd hbd2] at h
  split at h
  · cases h
  · rename_i hl
    split at h
    · cases h
      have : casNow + -bd = casNow - bd := by omega
      rw [this]
      exact ⟨rfl, hl⟩
    · cases h

example : lifetimeCasCreate (63900000000 * second + 7) ⟨63900021600 * second, 63900108000 * second⟩ (60 * second) =
    .ok ⟨63899999940 * second, 63900086340 * second⟩ := by decide


/-! ### renewed certificates and the backdate -/


/-- **renew_expires_in_future** (full strength since fix 5596a41).  Every certificate a renewal or rekey issues
    expires after the clock it was issued at — X.509 (`renewContext` + CAS) and SSH (`renewSSH`, `rekeySSH`) — whatever
    the backdate and whatever the (well-formed: `notBefore ≤ notAfter`, whole seconds, < 292 years) certificate it
    replaces: a certificate not longer than the backdate is refused. -/
theorem renew_expires_in_future (casNow bd : Int) (old new : Cert)
    (hold : trunc old.nb = old.nb ∧ trunc old.na = old.na) (hbds : trunc bd = bd)
    (hbd : 0 ≤ bd) (hbd2 : bd ≤ maxI64) (hd : 0 ≤ old.na - old.nb) (hd2 : old.na - old.nb ≤ maxI64)
    (h : x509Renew casNow bd old = .ok new) : casNow < new.na := by
  have e1 : tsub old.na old.nb = old.na - old.nb := by unfold tsub maxI64 minI64 at *; simp only []; omega
  have e2 : wrap64 (old.na - old.nb - bd) = old.na - old.nb - bd :=
    wrap64_id _ (by unfold minI64 maxI64 at *; omega) (by unfold maxI64 at *; omega)
  have e : x509Renew casNow bd old =
      if wrap64 (tsub old.na old.nb - bd) ≤ 0 then .rej .renewShort
      else .ok ⟨trunc (casNow + wrap64 (-1 * bd)), trunc (casNow + wrap64 (tsub old.na old.nb - bd))⟩ := rfl
  rw [e, e1, e2, wrap64_neg _ hbd hbd2] at h
  by_cases hl : old.na - old.nb - bd ≤ 0
  · rw [if_pos hl] at h; cases h
  · rw [if_neg hl] at h; cases h
    simp only []
    unfold trunc second at *
    omega

/-- the SSH half: the new `ValidBefore` lies after the authority's clock -/
theorem ssh_renew_expires_in_future (anow bd : Int) (old c : SshCert)
    (hbd : 0 ≤ bd) (hbd2 : bd ≤ maxI64) (hbds : trunc bd = bd) (hnow : unixOf anow < 4611686018427387904)
    (h : sshRenewDates anow bd old = .ok c) : unixOf anow < (c.vb.toNat : Int) := by
  rcases sshRenewDates_cases anow bd old with h0 | h0 | h0 | ⟨h1, h2, h3, _⟩
  · rw [h0] at h; cases h
  · rw [h0] at h; cases h
  · rw [h0] at h; cases h
  obtain ⟨_, _, k3, k4⟩ := sshRenewDates_ok hbd hbd2 h
  rw [secsToDur_small _ (by omega) (by omega)] at h3
  subst k4
  simp only []
  unfold unixOf trunc second unixToInternal maxI64 at *
  rw [toNat_ofInt_small _ (by omega) (by omega)]
  omega

example : x509Renew (63900000000 * second) (600 * second) ⟨63899999000 * second, 63899999300 * second⟩ = .rej .renewShort := by
  decide
example : sshRenewDates d6now (600 * second) ⟨1764402000#64, 1764402300#64, hostCert⟩ = .rej .renewShort := by decide

/-- **historic (D62, fixed by 5596a41).** Before the fix a certificate shorter than the configured backdate (5 minutes
    under a 10-minute backdate; `AuthConfig.Validate` only asks `backdate ≥ 0`) was renewed into one whose `notAfter` /
    `validBefore` was already in the past: `renewContext` computed `lifetime = duration − backdate < 0`, SoftCAS refused
    only `lifetime == 0`; `renewSSH` had no validator (`rekeySSH` was stopped by `sshCertValidityValidator`). -/
theorem renew_expired_when_shorter_than_backdate_historic :
    (∃ new, x509RenewBefore (63900000000 * second) (600 * second) ⟨63899999000 * second, 63899999300 * second⟩ = .ok new ∧
      new.na < 63900000000 * second) ∧
    (∃ c, sshRenewDatesNoBackdateCheck d6now (600 * second) ⟨1764402000#64, 1764402300#64, hostCert⟩ = .ok c ∧
      (c.vb.toNat : Int) < unixOf d6now) := by
  refine ⟨⟨⟨63899999400 * second, 63899999700 * second⟩, by decide, by decide⟩,
    ⟨⟨1764402600#64, 1764402900#64, hostCert⟩, by decide, by decide⟩⟩

end Verif.Validity
