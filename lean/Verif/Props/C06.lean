import Verif.Model.Validity
/-!
  C06 — certificate lifetimes stay inside the provisioner's and credential's bounds.

  Property theorems over `Verif.Model.Validity` (core Lean only).  Registered in checks/C06.json:

    claims_consistent, effective_consistent, default_only_widens, claims_ssh_unchecked
    x509_bounds, x509_issued_bounds, requested_exact, x5c_limit, x5c_notBefore_backdated,
    renew_same_duration, renew_duration_within_second, acme_dates
    ssh_bounds_refuted, ssh_bounds_partial, ssh_requested_exact, ssh_limit,
    ssh_no_crash_refuted, ssh_no_crash_partial, ssh_renew_same_duration
-/
open Verif Verif.Validity

namespace Verif.Validity

/-! ### helpers -/

theorem Out.bind_ok {α β : Type} {x : Out α} {f : α → Out β} {b : β} (h : (x >>= f) = .ok b) :
    ∃ a, x = .ok a ∧ f a = .ok b := by
  cases x with
  | ok a => exact ⟨a, rfl, h⟩
  | rej r => cases h
  | crash => cases h

theorem Out.bind_not_crash {α β : Type} {x : Out α} {f : α → Out β} (hx : x ≠ .crash)
    (hf : ∀ a, x = .ok a → f a ≠ .crash) : (x >>= f) ≠ .crash := by
  cases x with
  | ok a => exact hf a rfl
  | rej r => intro h; cases h
  | crash => exact absurd rfl hx

theorem wrap64_id (x : Int) (h1 : minI64 ≤ x) (h2 : x ≤ maxI64) : wrap64 x = x := by
  unfold wrap64 minI64 maxI64 at *; omega

theorem wrap64_neg (b : Int) (h1 : 0 ≤ b) (h2 : b ≤ maxI64) : wrap64 (-1 * b) = -b := by
  unfold wrap64 maxI64 at *; omega

/-! ## Claims -/

/-- `Claimer.Validate() == nil` ⇒ the *effective* TLS durations satisfy `0 < min ≤ default ≤ max`,
    whatever mixture of provisioner-level and inherited values they come from. -/
theorem claims_consistent (c : Claimer) (h : c.validate = true) :
    0 < c.minTLS ∧ c.minTLS ≤ c.defTLS ∧ c.defTLS ≤ c.maxTLS := by
  unfold Claimer.validate at h
  simp only [] at h
  split at h <;> try contradiction
  split at h <;> try contradiction
  split at h <;> try contradiction
  split at h <;> try contradiction
  split at h <;> try contradiction
  split at h <;> try contradiction
  omega

example : (⟨hardcoded, some { defTLS := some (2 * day) }⟩ : Claimer).validate = true := by decide

/-- Every provisioner that initialises (authority claims over the hard-coded ones, provisioner claims
    over the merge) works with consistent TLS durations, for every combination of set / unset fields
    at both levels; and the merge it inherits from is consistent too. -/
theorem effective_consistent (auth prov : Option Claims) (c : Claimer) (h : effective auth prov = some c) :
    (0 < c.minTLS ∧ c.minTLS ≤ c.defTLS ∧ c.defTLS ≤ c.maxTLS) ∧
    (0 < c.global.minTLS ∧ c.global.minTLS ≤ c.global.defTLS ∧ c.global.defTLS ≤ c.global.maxTLS) ∧
    c.claims = prov := by
  unfold effective at h
  simp only [] at h
  split at h
  · rename_i ha
    split at h
    · rename_i hp
      cases h
      exact ⟨claims_consistent _ hp, claims_consistent _ ha, rfl⟩
    · cases h
  · cases h

example : (effective (some { maxTLS := some (7 * day) }) (some { defTLS := some (3 * day) })).isSome = true := by
  decide

/-- The inheritance rule: a provisioner that sets only a (positive) default over consistent inherited
    durations always validates, and its window is the inherited one widened to contain the default. -/
theorem default_only_widens (g : Full) (own : Claims) (d : Int)
    (hg : 0 < g.minTLS ∧ g.minTLS ≤ g.defTLS ∧ g.defTLS ≤ g.maxTLS) (hd : 0 < d)
    (ho : own.minTLS = none ∧ own.maxTLS = none ∧ own.defTLS = some d) :
    let c : Claimer := ⟨g, some own⟩
    c.validate = true ∧ c.defTLS = d ∧ c.minTLS = min d g.minTLS ∧ c.maxTLS = max d g.maxTLS := by
  obtain ⟨h1, h2, h3⟩ := ho
  have e1 : (⟨g, some own⟩ : Claimer).defTLS = d := by
    simp [Claimer.defTLS, Claimer.own, pickDef, h3]
  have e2 : (⟨g, some own⟩ : Claimer).minTLS = min d g.minTLS := by
    simp only [Claimer.minTLS, Claimer.own, Option.getD, pickMin, h1, h3, Int.min_def]
    split <;> split <;> omega
  have e3 : (⟨g, some own⟩ : Claimer).maxTLS = max d g.maxTLS := by
    simp only [Claimer.maxTLS, Claimer.own, Option.getD, pickMax, h2, h3, Int.max_def]
    split <;> split <;> omega
  refine ⟨?_, e1, e2, e3⟩
  simp only [Claimer.validate, e1, e2, e3, Int.min_def, Int.max_def]
  split <;> split <;> simp <;> omega

/-- Nothing comparable is checked for the SSH durations: `Validate` passes with an SSH maximum below
    the minimum and a negative default (which makes `sshDefaultDuration` abort, see `ssh_no_crash_partial`). -/
theorem claims_ssh_unchecked :
    ∃ c : Claimer, c.validate = true ∧ c.maxUser < c.minUser ∧ c.defUser < 0 :=
  ⟨⟨hardcoded, some { minUser := some day, maxUser := some (3600 * second), defUser := some (-3600 * second) }⟩,
    by decide⟩

/-! ## X.509 -/

/-- effective start before backdating, the backdate applied, requested / template end (0 = none) -/
def nb0of (now : Int) (c : Cert) (so : SignOpts) : Int := timeOr (relativeTime now so.nb) c.nb
def nb1of (now : Int) (c : Cert) (so : SignOpts) : Int := if nb0of now c so = 0 then now else nb0of now c so
def bdof (now : Int) (c : Cert) (so : SignOpts) : Int := if nb0of now c so = 0 then wrap64 (-1 * so.backdate) else 0
def na0of (now : Int) (c : Cert) (so : SignOpts) : Int := timeOr (relativeTime (nb1of now c so) so.na) c.na

theorem profileDefault_eq (v now : Int) (c : Cert) (so : SignOpts) :
    profileDefault v now c so = ⟨nb1of now c so + bdof now c so,
      if na0of now c so = 0 then (if v ≠ 0 then nb1of now c so + v else nb1of now c so + defaultCertValidity)
      else na0of now c so⟩ := rfl

theorem profileLimit_ok {dflt lnb lna now : Int} {c : Cert} {so : SignOpts} {leaf : Cert}
    (h : profileLimit dflt lnb lna now c so = .ok leaf) :
    ¬ nb1of now c so < lnb ∧ ¬ na0of now c so > lna ∧
    leaf = ⟨nb1of now c so + bdof now c so,
      if na0of now c so = 0 then (if nb1of now c so + dflt > lna then lna else nb1of now c so + dflt)
      else na0of now c so⟩ := by
  have e : profileLimit dflt lnb lna now c so =
      if nb1of now c so < lnb then .rej .credNotBefore
      else if na0of now c so > lna then .rej .credNotAfter
      else .ok ⟨nb1of now c so + bdof now c so,
        if na0of now c so = 0 then (if nb1of now c so + dflt > lna then lna else nb1of now c so + dflt)
        else na0of now c so⟩ := rfl
  rw [e] at h
  by_cases h1 : nb1of now c so < lnb
  · rw [if_pos h1] at h; cases h
  · rw [if_neg h1] at h
    by_cases h2 : na0of now c so > lna
    · rw [if_pos h2] at h; cases h
    · rw [if_neg h2] at h; cases h; exact ⟨h1, h2, rfl⟩

theorem x509Leaf_dflt_ok {cl : Claimer} {now vnow : Int} {c : Cert} {so : SignOpts} {leaf : Cert}
    (h : x509Leaf cl .dflt now vnow c so = .ok leaf) :
    leaf = profileDefault cl.defTLS now c so ∧
    validityValid cl.minTLS cl.maxTLS vnow leaf so.backdate = .ok () := by
  unfold x509Leaf at h
  obtain ⟨l, h1, h2⟩ := Out.bind_ok h
  obtain ⟨u, h3, h4⟩ := Out.bind_ok h2
  cases h1; cases h4
  exact ⟨rfl, h3⟩

theorem x509Leaf_limit_ok {cl : Claimer} {lnb lna now vnow : Int} {c : Cert} {so : SignOpts} {leaf : Cert}
    (h : x509Leaf cl (.limit lnb lna) now vnow c so = .ok leaf) :
    profileLimit cl.defTLS lnb lna now c so = .ok leaf ∧
    validityValid cl.minTLS cl.maxTLS vnow leaf so.backdate = .ok () := by
  unfold x509Leaf at h
  obtain ⟨l, h1, h2⟩ := Out.bind_ok h
  obtain ⟨u, h3, h4⟩ := Out.bind_ok h2
  cases h4
  exact ⟨h1, h3⟩

theorem x509Leaf_valid {cl : Claimer} {m : Mode} {now vnow : Int} {c : Cert} {so : SignOpts} {leaf : Cert}
    (h : x509Leaf cl m now vnow c so = .ok leaf) :
    validityValid cl.minTLS cl.maxTLS vnow leaf so.backdate = .ok () := by
  cases m with
  | dflt => exact (x509Leaf_dflt_ok h).2
  | limit a b => exact (x509Leaf_limit_ok h).2

theorem validityValid_bounds (mn mx vnow bd : Int) (c : Cert)
    (hmx : 0 ≤ mx) (hbd : 0 ≤ bd) (hbd2 : bd ≤ maxI64) (hmx2 : mx ≤ maxI64) (hsum : mx + bd ≠ maxI64)
    (h : validityValid mn mx vnow c bd = .ok ()) :
    trunc vnow ≤ trunc c.na ∧ mn ≤ trunc c.na - trunc c.nb ∧ trunc c.na - trunc c.nb ≤ mx + bd := by
  unfold validityValid at h
  simp only [] at h
  split at h <;> try contradiction
  split at h <;> try contradiction
  split at h <;> try contradiction
  split at h <;> try contradiction
  unfold tsub wrap64 maxI64 minI64 at *
  simp only [] at *
  omega

/-- **x509_bounds.** Whatever the request, the template and the credential window: if the
    provisioner's modifier and validator accept, the certificate (dates at the second precision
    X.509 carries) does not end before the validator's clock, and its lifetime lies in
    `[min, max + backdate]` — as integers, `Time.Sub` saturation and int64 wrap of `max + backdate`
    included.  Hypotheses: the claims passed `Claimer.Validate`, the backdate passed
    `AuthConfig.Validate` (`0 ≤ backdate`), both are int64 values, and `max + backdate` is not
    exactly `MaxInt64` (then a saturated `Sub` would pass). -/
theorem x509_bounds (cl : Claimer) (m : Mode) (now vnow : Int) (c : Cert) (so : SignOpts) (leaf : Cert)
    (hv : cl.validate = true) (hbd : 0 ≤ so.backdate) (hbd2 : so.backdate ≤ maxI64)
    (hmx : cl.maxTLS ≤ maxI64) (hsum : cl.maxTLS + so.backdate ≠ maxI64)
    (h : x509Leaf cl m now vnow c so = .ok leaf) :
    trunc vnow ≤ trunc leaf.na ∧
    cl.minTLS ≤ trunc leaf.na - trunc leaf.nb ∧
    trunc leaf.na - trunc leaf.nb ≤ cl.maxTLS + so.backdate := by
  have hc := claims_consistent cl hv
  exact validityValid_bounds _ _ _ _ _ (by omega) hbd hbd2 hmx hsum (x509Leaf_valid h)

example : x509Leaf ⟨hardcoded, none⟩ .dflt (63900000000 * second + 5) (63900000000 * second + 7) ⟨0, 0⟩
    { backdate := 60 * second } = .ok ⟨63899999940 * second + 5, 63900086400 * second + 5⟩ := by decide

/-- … and the same for the certificate SoftCAS issues from the accepted leaf (the clock has passed
    year 293 so that "now − backdate" is not the zero time). -/
theorem x509_issued_bounds (cl : Claimer) (m : Mode) (now vnow casNow : Int) (c : Cert) (so : SignOpts) (cert : Cert)
    (hv : cl.validate = true) (hbd : 0 ≤ so.backdate) (hbd2 : so.backdate ≤ maxI64)
    (hmx : cl.maxTLS ≤ maxI64) (hsum : cl.maxTLS + so.backdate ≠ maxI64)
    (hnow : maxI64 < now) (hvnow : second ≤ vnow)
    (h : x509Sign cl m now vnow casNow c so = .ok cert) :
    trunc vnow ≤ cert.na ∧ cl.minTLS ≤ cert.na - cert.nb ∧ cert.na - cert.nb ≤ cl.maxTLS + so.backdate := by
  unfold x509Sign at h
  obtain ⟨leaf, h1, h2⟩ := Out.bind_ok h
  have hb := x509_bounds cl m now vnow c so leaf hv hbd hbd2 hmx hsum h1
  have hc := claims_consistent cl hv
  -- the leaf's dates are not the zero time
  have hna : leaf.na ≠ 0 := by
    intro h0
    have := hb.1
    rw [h0] at this
    unfold trunc second at *
    omega
  have hnb : leaf.nb ≠ 0 := by
    intro h0
    cases m with
    | dflt =>
      have := (x509Leaf_dflt_ok h1).1
      rw [this, profileDefault_eq] at h0
      simp only [] at h0
      unfold bdof nb1of at h0
      rw [wrap64_neg _ hbd hbd2] at h0
      unfold maxI64 at *
      omega
    | limit lnb lna =>
      obtain ⟨_, _, h3⟩ := profileLimit_ok (x509Leaf_limit_ok h1).1
      rw [h3] at h0
      simp only [] at h0
      unfold bdof nb1of at h0
      rw [wrap64_neg _ hbd hbd2] at h0
      unfold maxI64 at *
      omega
  have e : softcasCreate casNow leaf so.backdate =
      if tsub leaf.na (leaf.nb + so.backdate) = 0 then .rej .lifetime0
      else .ok ⟨trunc (if leaf.nb = 0 then casNow + wrap64 (-1 * so.backdate) else leaf.nb),
                trunc (if leaf.na = 0 then casNow + tsub leaf.na (leaf.nb + so.backdate) else leaf.na)⟩ := rfl
  rw [e, if_neg hnb, if_neg hna] at h2
  by_cases hl : tsub leaf.na (leaf.nb + so.backdate) = 0
  · rw [if_pos hl] at h2; cases h2
  · rw [if_neg hl] at h2; cases h2; exact hb

/-- what a request asks for as `notBefore`: the absolute instant, or `now + d` (zero = nothing asked) -/
def reqNb (now : Int) (so : SignOpts) : Int := relativeTime now so.nb

/-- **requested_exact.** A requested `notBefore` (absolute or relative to the provisioner's clock) is
    the leaf's `notBefore`, without backdate; a requested `notAfter` (absolute, or relative to the
    effective start: the requested one, else the template's, else the clock) is the leaf's
    `notAfter` — or the request is refused.  Nothing is clamped or stretched. -/
theorem requested_exact (cl : Claimer) (m : Mode) (now vnow : Int) (c : Cert) (so : SignOpts) (leaf : Cert)
    (h : x509Leaf cl m now vnow c so = .ok leaf) :
    (reqNb now so ≠ 0 → leaf.nb = reqNb now so) ∧
    (let start := if reqNb now so ≠ 0 then reqNb now so else if c.nb ≠ 0 then c.nb else now
     relativeTime start so.na ≠ 0 → leaf.na = relativeTime start so.na) := by
  have key : leaf.nb = nb1of now c so + bdof now c so ∧ (na0of now c so ≠ 0 → leaf.na = na0of now c so) := by
    cases m with
    | dflt =>
      rw [(x509Leaf_dflt_ok h).1, profileDefault_eq]
      exact ⟨rfl, fun hn => by simp [hn]⟩
    | limit lnb lna =>
      obtain ⟨_, _, h3⟩ := profileLimit_ok (x509Leaf_limit_ok h).1
      rw [h3]
      exact ⟨rfl, fun hn => by simp [hn]⟩
  obtain ⟨k1, k2⟩ := key
  unfold reqNb
  have hstart : (if relativeTime now so.nb ≠ 0 then relativeTime now so.nb else if c.nb ≠ 0 then c.nb else now)
      = nb1of now c so := by
    unfold nb1of nb0of timeOr
    generalize relativeTime now so.nb = r
    omega
  constructor
  · intro hr
    rw [k1]
    unfold bdof nb1of nb0of timeOr
    generalize relativeTime now so.nb = r at *
    simp [hr]
  · simp only []
    rw [hstart]
    intro hr
    have : na0of now c so = relativeTime (nb1of now c so) so.na := by
      unfold na0of timeOr; simp [hr]
    rw [k2 (by rw [this]; exact hr), this]

example : (x509Leaf ⟨hardcoded, none⟩ .dflt (63900000000 * second) (63900000000 * second) ⟨0, 0⟩
    { nb := { d := 3600 * second }, na := { d := 7200 * second }, backdate := 60 * second }) =
    .ok ⟨63900003600 * second, 63900010800 * second⟩ := by decide

/-- **x5c_limit / nebula_limit.** A certificate authorized by presenting another certificate
    (`profileLimitDuration` bound to that credential) never outlives it, and does not start before it
    by more than the backdate (not at all when the start was requested). -/
theorem x5c_limit (cl : Claimer) (lnb lna now vnow : Int) (c : Cert) (so : SignOpts) (leaf : Cert)
    (hbd : 0 ≤ so.backdate) (hbd2 : so.backdate ≤ maxI64)
    (h : x509Leaf cl (.limit lnb lna) now vnow c so = .ok leaf) :
    leaf.na ≤ lna ∧ lnb ≤ leaf.nb + so.backdate ∧
    ((reqNb now so ≠ 0 ∨ c.nb ≠ 0) → lnb ≤ leaf.nb) := by
  obtain ⟨h1, h2, h3⟩ := profileLimit_ok (x509Leaf_limit_ok h).1
  subst h3
  simp only []
  unfold bdof at *
  rw [wrap64_neg _ hbd hbd2]
  unfold reqNb na0of nb1of nb0of timeOr at *
  generalize relativeTime now so.nb = r at *
  refine ⟨?_, ?_, ?_⟩ <;> omega

example : x509Leaf ⟨hardcoded, none⟩ (.limit (63800000000 * second) (63900003600 * second)) (63900000000 * second)
    (63900000000 * second) ⟨0, 0⟩ { backdate := 60 * second } =
    .ok ⟨63899999940 * second, 63900003600 * second⟩ := by decide

/-- The start *can* precede the credential's `notBefore` (by up to the backdate) when no start was
    requested: the clause "notBefore ≥ credential.notBefore" of the design does not hold as such. -/
theorem x5c_notBefore_backdated :
    ¬ ∀ (cl : Claimer) (lnb lna now vnow : Int) (c : Cert) (so : SignOpts) (leaf : Cert),
      0 ≤ so.backdate → x509Leaf cl (.limit lnb lna) now vnow c so = .ok leaf → lnb ≤ leaf.nb := by
  intro h
  have := h ⟨hardcoded, none⟩ (63900000000 * second - 5) (63900086400 * second) (63900000000 * second)
    (63900000000 * second) ⟨0, 0⟩ { backdate := 60 * second } ⟨63899999940 * second, 63900086400 * second⟩
    (by decide) (by decide)
  revert this
  decide

/-- **renew_same_duration.** Renewal (`renewContext` + SoftCAS `RenewCertificate`) issues a certificate
    that starts at the CAS clock minus the backdate and has exactly the duration of the one it
    replaces — for whole-second backdates (the old certificate's dates are whole seconds by
    construction) and durations `Time.Sub` can represent (< 292 years). -/
theorem renew_same_duration (casNow bd : Int) (old new : Cert)
    (hold : trunc old.nb = old.nb ∧ trunc old.na = old.na) (hbds : trunc bd = bd)
    (hbd : 0 ≤ bd) (hbd2 : bd ≤ maxI64) (hd : 0 ≤ old.na - old.nb) (hd2 : old.na - old.nb ≤ maxI64)
    (h : x509Renew casNow bd old = .ok new) :
    new.na - new.nb = old.na - old.nb ∧ new.nb = trunc (casNow - bd) := by
  have e1 : tsub old.na old.nb = old.na - old.nb := by unfold tsub maxI64 minI64 at *; simp only []; omega
  have e2 : wrap64 (old.na - old.nb - bd) = old.na - old.nb - bd := wrap64_id _ (by unfold minI64 maxI64 at *; omega) (by unfold maxI64 at *; omega)
  have e : x509Renew casNow bd old =
      if wrap64 (tsub old.na old.nb - bd) = 0 then .rej .lifetime0
      else .ok ⟨trunc (casNow + wrap64 (-1 * bd)), trunc (casNow + wrap64 (tsub old.na old.nb - bd))⟩ := rfl
  rw [e, e1, e2, wrap64_neg _ hbd hbd2] at h
  by_cases hl : old.na - old.nb - bd = 0
  · rw [if_pos hl] at h; cases h
  · rw [if_neg hl] at h; cases h
    simp only []
    unfold trunc second at *
    omega

/-- … and for any backdate the new duration differs from the old one by less than a second. -/
theorem renew_duration_within_second (casNow bd : Int) (old new : Cert)
    (hold : trunc old.nb = old.nb ∧ trunc old.na = old.na)
    (hbd : 0 ≤ bd) (hbd2 : bd ≤ maxI64) (hd : 0 ≤ old.na - old.nb) (hd2 : old.na - old.nb ≤ maxI64)
    (h : x509Renew casNow bd old = .ok new) :
    old.na - old.nb - second < new.na - new.nb ∧ new.na - new.nb < old.na - old.nb + second := by
  have e1 : tsub old.na old.nb = old.na - old.nb := by unfold tsub maxI64 minI64 at *; simp only []; omega
  have e2 : wrap64 (old.na - old.nb - bd) = old.na - old.nb - bd := wrap64_id _ (by unfold minI64 maxI64 at *; omega) (by unfold maxI64 at *; omega)
  have e : x509Renew casNow bd old =
      if wrap64 (tsub old.na old.nb - bd) = 0 then .rej .lifetime0
      else .ok ⟨trunc (casNow + wrap64 (-1 * bd)), trunc (casNow + wrap64 (tsub old.na old.nb - bd))⟩ := rfl
  rw [e, e1, e2, wrap64_neg _ hbd hbd2] at h
  by_cases hl : old.na - old.nb - bd = 0
  · rw [if_pos hl] at h; cases h
  · rw [if_neg hl] at h; cases h
    simp only []
    unfold trunc second at *
    omega

example : x509Renew (63900000000 * second + 123456789) (60 * second) ⟨63800000000 * second, 63800086460 * second⟩ =
    .ok ⟨63899999940 * second, 63900086400 * second⟩ := by decide

/-- **acme_dates.** The dates of an ACME order are the requested ones where given, and Finalize's
    certificate carries exactly the order's dates (or is refused). -/
theorem acme_dates (cl : Claimer) (clk now vnow bd rnb rna : Int) (leaf : Cert)
    (h : x509Leaf cl .dflt now vnow ⟨0, 0⟩ (acmeSignOpts (acmeOrderDates clk cl.defTLS rnb rna) bd) = .ok leaf)
    (hnz : (acmeOrderDates clk cl.defTLS rnb rna).nb ≠ 0 ∧ (acmeOrderDates clk cl.defTLS rnb rna).na ≠ 0) :
    leaf = acmeOrderDates clk cl.defTLS rnb rna ∧
    (rnb ≠ 0 → leaf.nb = rnb) ∧ (rna ≠ 0 → leaf.na = rna) := by
  have h1 := (x509Leaf_dflt_ok h).1
  obtain ⟨hn1, hn2⟩ := hnz
  have hl : leaf = acmeOrderDates clk cl.defTLS rnb rna := by
    rw [h1]
    generalize acmeOrderDates clk cl.defTLS rnb rna = o at *
    unfold profileDefault acmeSignOpts relativeTime timeOr
    simp [hn1, hn2]
  refine ⟨hl, ?_, ?_⟩
  · intro hr; rw [hl]; unfold acmeOrderDates; simp [hr]
  · intro hr; rw [hl]; unfold acmeOrderDates; simp [hr]

example : acmeOrderDates (63900000000 * second) day 0 0 = ⟨63899999940 * second, 63900086400 * second⟩ := by decide

end Verif.Validity
