import Verif.Generated.PolicyCalls
/-!
  C04 — "the same verdict is applied on every issuance path": table obligations over the call
  sites of the policy engine, regenerated from the source on every run.
-/
namespace Verif.Policy.Calls
open Verif.Generated.PolicyCalls

/-- Reviewed call sites of the policy engine's entry points (outside package policy itself).
    Every name decision of the CA goes through one of these, and each ends in
    `NamePolicyEngine.validateNames` / `validateCommonName` (the functions C04's theorems are about):
    * authority level: `isAllowedToSignX509Certificate` (sign, ACME finalize, SCEP — all through
      `signX509`), `isAllowedToSignSSHCertificate` (`signSSH`), `Authority.AreSANsAllowed` (ACME new-order),
      `isAllowed` (admin-subject lock-out test of the policy API);
    * provisioner level: `x509NamePolicyValidator`, `sshNamePolicyValidator`, `ACME.AuthorizeOrderIdentifier`;
    * ACME account level: `isIdentifierAllowed`;
    * `authority/policy.Engine` only forwards. -/
def reviewedSites : List (String × String × Nat) := [
  ("acme/api/order.go:NewOrder", "AreSANsAllowed", 1),
  ("acme/api/order.go:isIdentifierAllowed", "AreSANsAllowed", 1),
  ("authority/policy.go:isAllowed", "AreSANsAllowed", 1),
  ("authority/ssh.go:Authority.isAllowedToSignSSHCertificate", "IsSSHCertificateAllowed", 1),
  ("authority/tls.go:Authority.isAllowedToSignX509Certificate", "IsX509CertificateAllowed", 1),
  ("authority/tls.go:Authority.AreSANsAllowed", "AreSANsAllowed", 1),
  ("authority/policy/engine.go:Engine.IsX509CertificateAllowed", "IsX509CertificateAllowed", 1),
  ("authority/policy/engine.go:Engine.AreSANsAllowed", "AreSANsAllowed", 1),
  ("authority/policy/engine.go:Engine.IsSSHCertificateAllowed", "IsSSHCertificateAllowed", 2),
  ("authority/provisioner/acme.go:ACME.AuthorizeOrderIdentifier", "IsIPAllowed", 1),
  ("authority/provisioner/acme.go:ACME.AuthorizeOrderIdentifier", "IsDNSAllowed", 1),
  ("authority/provisioner/acme.go:ACME.AuthorizeOrderIdentifier", "AreSANsAllowed", 2),
  ("authority/provisioner/sign_options.go:x509NamePolicyValidator.Valid", "IsX509CertificateAllowed", 1),
  ("authority/provisioner/sign_ssh_options.go:sshNamePolicyValidator.Valid", "IsSSHCertificateAllowed", 2)
]

theorem calls_extracted : extractorOk = true := by decide

/-- **one engine**: the policy engine is consulted at exactly the reviewed places -/
theorem one_engine : sites = reviewedSites := by decide +kernel

/-- in each issuance function the policy gate comes before the signing / storing call, and
    ACME new-order consults provisioner, account and authority policy before it creates anything -/
theorem policy_before_issuance : callOrder = [
    ("acme/api/order.go:NewOrder", ["isIdentifierAllowed", "AuthorizeOrderIdentifier", "AreSANsAllowed", "newAuthorization", "CreateOrder"]),
    ("acme/api/order.go:isIdentifierAllowed", ["AreSANsAllowed"]),
    ("authority/ssh.go:Authority.signSSH", ["isAllowedToSignSSHCertificate", "CreateCertificate", "storeSSHCertificate"]),
    ("authority/tls.go:Authority.signX509", ["isAllowedToSignX509Certificate", "CreateCertificate", "storeCertificate"])] := by
  decide +kernel

/-- Reviewed: the name-policy validators each provisioner type builds for its sign options. Every X.509 signer passes
    the provisioner's X.509 policy; every SSH signer passes the provisioner's SSH host policy; the types that can issue
    user certificates (JWK, X5C, OIDC, K8sSA, GCP) pass the user policy as well, the host-only types (AWS, Azure, Nebula)
    pass `nil` for it — `sshNamePolicyValidator.Valid` then refuses user certificates whenever a host policy exists
    (`ssh_other_section_only_denies`). A validator built without one of its sections would take the "no policy" branch
    for that certificate type. -/
def reviewedValidators : List (String × String × String) := [
  ("authority/provisioner/acme.go:ACME.AuthorizeSign", "newX509NamePolicyValidator", "p.ctl.getPolicy().getX509()"),
  ("authority/provisioner/aws.go:AWS.AuthorizeSign", "newX509NamePolicyValidator", "p.ctl.getPolicy().getX509()"),
  ("authority/provisioner/aws.go:AWS.AuthorizeSSHSign", "newSSHNamePolicyValidator", "p.ctl.getPolicy().getSSHHost(),nil"),
  ("authority/provisioner/azure.go:Azure.AuthorizeSign", "newX509NamePolicyValidator", "p.ctl.getPolicy().getX509()"),
  ("authority/provisioner/azure.go:Azure.AuthorizeSSHSign", "newSSHNamePolicyValidator", "p.ctl.getPolicy().getSSHHost(),nil"),
  ("authority/provisioner/gcp.go:GCP.AuthorizeSign", "newX509NamePolicyValidator", "p.ctl.getPolicy().getX509()"),
  ("authority/provisioner/gcp.go:GCP.AuthorizeSSHSign", "newSSHNamePolicyValidator", "p.ctl.getPolicy().getSSHHost(),p.ctl.getPolicy().getSSHUser()"),
  ("authority/provisioner/jwk.go:JWK.AuthorizeSign", "newX509NamePolicyValidator", "p.ctl.getPolicy().getX509()"),
  ("authority/provisioner/jwk.go:JWK.AuthorizeSSHSign", "newSSHNamePolicyValidator", "p.ctl.getPolicy().getSSHHost(),p.ctl.getPolicy().getSSHUser()"),
  ("authority/provisioner/k8sSA.go:K8sSA.AuthorizeSign", "newX509NamePolicyValidator", "p.ctl.getPolicy().getX509()"),
  ("authority/provisioner/k8sSA.go:K8sSA.AuthorizeSSHSign", "newSSHNamePolicyValidator", "p.ctl.getPolicy().getSSHHost(),p.ctl.getPolicy().getSSHUser()"),
  ("authority/provisioner/nebula.go:Nebula.AuthorizeSign", "newX509NamePolicyValidator", "p.ctl.getPolicy().getX509()"),
  ("authority/provisioner/nebula.go:Nebula.AuthorizeSSHSign", "newSSHNamePolicyValidator", "p.ctl.getPolicy().getSSHHost(),nil"),
  ("authority/provisioner/oidc.go:OIDC.AuthorizeSign", "newX509NamePolicyValidator", "o.ctl.getPolicy().getX509()"),
  ("authority/provisioner/oidc.go:OIDC.AuthorizeSSHSign", "newSSHNamePolicyValidator", "o.ctl.getPolicy().getSSHHost(),o.ctl.getPolicy().getSSHUser()"),
  ("authority/provisioner/scep.go:SCEP.AuthorizeSign", "newX509NamePolicyValidator", "s.ctl.getPolicy().getX509()"),
  ("authority/provisioner/x5c.go:X5C.AuthorizeSign", "newX509NamePolicyValidator", "p.ctl.getPolicy().getX509()"),
  ("authority/provisioner/x5c.go:X5C.AuthorizeSSHSign", "newSSHNamePolicyValidator", "p.ctl.getPolicy().getSSHHost(),p.ctl.getPolicy().getSSHUser()")
]

/-- the validators are built exactly as reviewed (regenerated from authority/provisioner/*.go on every run) -/
theorem validators_reviewed : validators = reviewedValidators := by decide +kernel

/-- every provisioner type's SSH validator is given the provisioner's own host policy, and every X.509 validator the
    provisioner's own X.509 policy -/
theorem validators_get_own_policy :
    validators.all (fun v =>
      (v.2.1 = "newX509NamePolicyValidator" && (v.2.2 = "p.ctl.getPolicy().getX509()" || v.2.2 = "o.ctl.getPolicy().getX509()" || v.2.2 = "s.ctl.getPolicy().getX509()"))
      || (v.2.1 = "newSSHNamePolicyValidator" && (v.2.2.startsWith "p.ctl.getPolicy().getSSHHost()," || v.2.2.startsWith "o.ctl.getPolicy().getSSHHost(),"))) = true := by
  decide +kernel

end Verif.Policy.Calls
