import Verif.Generated.PolicyCalls
/-!
  C04 — "the same verdict is applied on every issuance path": table obligations over the call
  sites of the policy engine, regenerated from the source on every run.
-/
namespace Verif.Policy.Calls
open Verif.Generated.PolicyCalls

/-- Reviewed call sites of the policy engine's entry points (outside package policy itself).
    Every name decision of the CA goes through one of these, and each ends in
    `NamePolicyEngine.validateNames` / `validateCommonName` (the functions C04's theorems are about):
    * authority level: `isAllowedToSignX509Certificate` (sign, ACME finalize, SCEP — all through
      `signX509`), `isAllowedToSignSSHCertificate` (`signSSH`), `Authority.AreSANsAllowed` (ACME new-order),
      `isAllowed` (admin-subject lock-out test of the policy API);
    * provisioner level: `x509NamePolicyValidator`, `sshNamePolicyValidator`, `ACME.AuthorizeOrderIdentifier`;
    * ACME account level: `isIdentifierAllowed`;
    * `authority/policy.Engine` only forwards. -/
def reviewedSites : List (String × String × Nat) := [
  ("acme/api/order.go:NewOrder", "AreSANsAllowed", 1),
  ("acme/api/order.go:isIdentifierAllowed", "AreSANsAllowed", 1),
  ("authority/policy.go:isAllowed", "AreSANsAllowed", 1),
  ("authority/ssh.go:Authority.isAllowedToSignSSHCertificate", "IsSSHCertificateAllowed", 1),
  ("authority/tls.go:Authority.isAllowedToSignX509Certificate", "IsX509CertificateAllowed", 1),
  ("authority/tls.go:Authority.AreSANsAllowed", "AreSANsAllowed", 1),
  ("authority/policy/engine.go:Engine.IsX509CertificateAllowed", "IsX509CertificateAllowed", 1),
  ("authority/policy/engine.go:Engine.AreSANsAllowed", "AreSANsAllowed", 1),
  ("authority/policy/engine.go:Engine.IsSSHCertificateAllowed", "IsSSHCertificateAllowed", 2),
  ("authority/provisioner/acme.go:ACME.AuthorizeOrderIdentifier", "IsIPAllowed", 1),
  ("authority/provisioner/acme.go:ACME.AuthorizeOrderIdentifier", "IsDNSAllowed", 1),
  ("authority/provisioner/acme.go:ACME.AuthorizeOrderIdentifier", "AreSANsAllowed", 2),
  ("authority/provisioner/sign_options.go:x509NamePolicyValidator.Valid", "IsX509CertificateAllowed", 1),
  ("authority/provisioner/sign_ssh_options.go:sshNamePolicyValidator.Valid", "IsSSHCertificateAllowed", 2)
]

theorem calls_extracted : extractorOk = true := by decide

/-- **one engine**: the policy engine is consulted at exactly the reviewed places -/
theorem one_engine : sites = reviewedSites := by decide +kernel

/-- in each issuance function the policy gate comes before the signing / storing call, and
    ACME new-order consults provisioner, account and authority policy before it creates anything -/
theorem policy_before_issuance : callOrder = [
    ("acme/api/order.go:NewOrder", ["isIdentifierAllowed", "AuthorizeOrderIdentifier", "AreSANsAllowed", "newAuthorization", "CreateOrder"]),
    ("acme/api/order.go:isIdentifierAllowed", ["AreSANsAllowed"]),
    ("authority/ssh.go:Authority.signSSH", ["isAllowedToSignSSHCertificate", "CreateCertificate", "storeSSHCertificate"]),
    ("authority/tls.go:Authority.signX509", ["isAllowedToSignX509Certificate", "CreateCertificate", "storeCertificate"])] := by
  decide +kernel

end Verif.Policy.Calls
