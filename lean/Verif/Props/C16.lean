import Verif.Lemmas.Admin
/-!
  C16 — administrative state stays consistent, recoverable and never locks everyone out.

  Property theorems about `Verif.Admin` (model of the two in-memory collections and of the
  authority layer above them; tied to /repo by the C16 correspondence stages).
  `Variant.coded` is the code as it stands, `Variant.fixed` the repaired code (notes/C16.md).
-/
namespace Verif.Admin
open Verif

/-! ## 1. administrator collection: indexes agree, ids unique, listing sorted -/

/-- number of super administrators the listing shows -/
def supers (c : AColl) : Nat := nsuper c.sorted

/-- structural invariant of the administrator collection: `byID` is exactly the index of the
    listed admins (so ids are unique), the listing is strictly ascending by id (sorted and
    duplicate-free), and no (subject, provisioner) key occurs twice -/
structure AInv (c : AColl) : Prop where
  idx : IsIndex (·.id) c.byID c.sorted
  sorted : Sorted (·.id) c.sorted
  sp : (c.bySubProv.map (·.1)).Nodup

/-- the counter the last-super-admin guards read equals the number of listed super admins -/
def CInv (c : AColl) : Prop := c.superCount = (supers c : Int)

theorem AInv.empty : AInv {} := ⟨IsIndex.nil, List.Pairwise.nil, List.nodup_nil⟩
theorem CInv.empty : CInv {} := rfl

theorem AInv.nodup_id {c : AColl} (h : AInv c) : (c.sorted.map (·.id)).Nodup := h.sorted.nodup_key

theorem AColl.store_spec (c : AColl) (a : Adm) (pid pname : Str) (h : AInv c) :
    let r := c.store a pid pname
    AInv r.1 ∧ (r.2 ≠ none → r.1 = c) ∧
    (r.2 = none → r.1.sorted = insertBy (·.id) a c.sorted ∧ (∀ x ∈ c.sorted, x.id ≠ a.id) ∧
        r.1.superCount = c.superCount + (if a.super then 1 else 0)) := by
  unfold AColl.store
  split
  · exact ⟨h, fun _ => rfl, by simp⟩
  split
  · exact ⟨h, fun _ => rfl, by simp⟩
  rename_i hid
  have hid' : c.byID.has a.id = false := by simpa using hid
  split
  · have e : ({ c with byID := (c.byID.put a.id a).del a.id } : AColl) = c := by
      rw [Map.put_del_absent hid']
    simp only [e]
    refine ⟨h, ?_, ?_⟩ <;> simp
  have hne : ∀ v ∈ c.sorted, v.id ≠ a.id := h.idx.has_false.mp hid'
  refine ⟨⟨?_, ?_, ?_⟩, by simp, fun _ => ⟨rfl, hne, ?_⟩⟩
  · exact (h.idx.put a hne).congr (fun v => by rw [mem_insertBy]; simp)
  · exact insertBy_sorted h.sorted hne
  · exact Map.nodup_put h.sp
  · by_cases hs : a.super <;> simp [hs]

theorem AColl.remove_spec (c : AColl) (pn : Str → Option Str) (id : Str) (h : AInv c) :
    ∃ r, c.remove pn id = .val r ∧ AInv r.1 ∧ (r.2 ≠ none → r.1 = c) ∧
      (r.2 = none → ∃ adm, adm ∈ c.sorted ∧ adm.id = id ∧ ¬(adm.super = true ∧ c.superCount = 1) ∧
         r.1.sorted = c.sorted.filter (fun e => decide (e.id ≠ adm.id)) ∧
         r.1.superCount = c.superCount - (if adm.super then 1 else 0)) := by
  unfold AColl.remove
  cases hg : c.byID.get id with
  | none => exact ⟨_, rfl, h, fun _ => rfl, by simp⟩
  | some adm =>
    have hadm := h.idx.get_some.mp hg
    simp only
    split
    · exact ⟨_, rfl, h, fun _ => rfl, by simp⟩
    rename_i hlast
    cases pn adm.provId with
    | none => exact ⟨_, rfl, h, fun _ => rfl, by simp⟩
    | some n =>
      simp only
      cases c.byProv.get n with
      | none => exact ⟨_, rfl, h, fun _ => rfl, by simp⟩
      | some l =>
        simp only
        obtain ⟨hrm, hdw⟩ := remove_sorted (key := fun (a : Adm) => a.id) h.sorted hadm.1
        split
        · rename_i heq; rw [hdw] at heq; cases heq
        · rename_i x rest heq
          rw [hdw] at heq
          have hx : x = adm := by injection heq with h1 _; exact h1.symm
          subst hx
          split
          · rename_i hne; exact absurd rfl hne
          split
          · exact ⟨_, rfl, h, fun _ => rfl, by simp⟩
          refine ⟨_, rfl, ⟨?_, ?_, ?_⟩, by simp, fun _ => ⟨x, hadm.1, hadm.2.symm, hlast, ?_, ?_⟩⟩
          · simp only
            rw [hrm]
            exact h.idx.del x.id
          · simp only
            rw [hrm]
            exact List.Pairwise.filter _ h.sorted
          · exact Map.nodup_del h.sp
          · simp only; rw [hrm]
          · by_cases hs : x.super <;> simp [hs]

theorem AInv.retype {c : AColl} (h : AInv c) (id : Str) (t : Bool) : AInv (c.retype id t) := by
  refine ⟨?_, ?_, ?_⟩
  · exact h.idx.map (setTy id t) (setTy_id id t)
  · unfold Sorted AColl.retype
    simp only [List.pairwise_map, setTy_id]
    exact h.sorted
  · unfold AColl.retype
    simpa [List.map_map, Function.comp_def] using h.sp

/-- what `Update` does, for either variant: it never breaks the structural invariant, it refuses
    to demote the last *counted* super admin, and an accepted call retypes exactly that admin -/
theorem AColl.update_spec (v : Variant) (c : AColl) (pn : Str → Option Str) (id : Str) (t : Bool)
    (h : AInv c) (r : AColl × Option AErr) (hr : c.update v pn id t = .val r) :
    AInv r.1 ∧ (r.2 ≠ none → r.1 = c) ∧
    (r.2 = none → ∃ adm, adm ∈ c.sorted ∧ adm.id = id ∧
       (adm.super = t ∧ r.1 = c ∨
        adm.super ≠ t ∧ ¬(adm.super = true ∧ c.superCount = 1) ∧ r.1.sorted = c.sorted.map (setTy id t) ∧
          r.1.superCount = if v.fixUpdate then c.superCount + (if t then 1 else -1) else c.superCount)) := by
  unfold AColl.update at hr
  cases hg : c.byID.get id with
  | none =>
    rw [hg] at hr
    by_cases hv : v.fixUpdate <;> simp [hv] at hr
    subst hr; exact ⟨h, fun _ => rfl, by simp⟩
  | some adm =>
    have hadm := h.idx.get_some.mp hg
    rw [hg] at hr
    simp only at hr
    split at hr
    · rename_i hsame
      cases hr
      exact ⟨h, by simp, fun _ => ⟨adm, hadm.1, hadm.2.symm, .inl ⟨hsame, rfl⟩⟩⟩
    rename_i hdiff
    split at hr
    · cases hr; exact ⟨h, fun _ => rfl, by simp⟩
    rename_i hlast
    split at hr
    · rename_i hv
      cases hp : pn adm.provId with
      | none => rw [hp] at hr; cases hr; exact ⟨h, fun _ => rfl, by simp⟩
      | some n =>
        rw [hp] at hr
        cases hr
        refine ⟨⟨(h.retype id t).idx, (h.retype id t).sorted, (h.retype id t).sp⟩, by simp,
          fun _ => ⟨adm, hadm.1, hadm.2.symm, .inr ⟨hdiff, hlast, rfl, ?_⟩⟩⟩
        simp [hv]
    · rename_i hv
      cases hr
      refine ⟨h.retype id t, by simp, fun _ => ⟨adm, hadm.1, hadm.2.symm, .inr ⟨hdiff, hlast, rfl, ?_⟩⟩⟩
      simp [hv, AColl.retype]

/-! ## 2. the counter and the last-super-admin guarantee, over arbitrary operation sequences -/

/-- the operation is an `Update` that really changes the type of an existing admin -/
def roleChange (s : Cache) : COp → Bool
  | .aUpdate id t => match s.A.byID.get id with
    | some adm => adm.super != t
    | none => false
  | _ => false

/-- no operation of the sequence changes an admin's role (evaluated along the run) -/
def NoRoleChange (v : Variant) : Cache → List COp → Prop
  | _, [] => True
  | s, o :: r => roleChange s o = false ∧ NoRoleChange v (cstep v s o).1 r

theorem cstep_admin (v : Variant) (s : Cache) (op : COp) (h : AInv s.A) :
    AInv (cstep v s op).1.A ∧
    ((v.fixUpdate = true ∨ roleChange s op = false) → CInv s.A →
      CInv (cstep v s op).1.A ∧ (1 ≤ supers s.A → 1 ≤ supers (cstep v s op).1.A)) := by
  cases op with
  | pStore p => exact ⟨h, fun _ hc => ⟨hc, fun x => x⟩⟩
  | pRemove id => exact ⟨h, fun _ hc => ⟨hc, fun x => x⟩⟩
  | pUpdate p => exact ⟨h, fun _ hc => ⟨hc, fun x => x⟩⟩
  | aStore a pid pname =>
    have sp := AColl.store_spec s.A a pid pname h
    simp only at sp
    refine ⟨sp.1, fun _ hc => ?_⟩
    simp only [cstep]
    cases hr : (s.A.store a pid pname).2 with
    | some e =>
      have := sp.2.1 (by rw [hr]; simp)
      rw [this]; exact ⟨hc, fun x => x⟩
    | none =>
      obtain ⟨hso, _, hcnt⟩ := sp.2.2 hr
      have hn : supers (s.A.store a pid pname).1 = (if a.super then 1 else 0) + supers s.A := by
        unfold supers; rw [hso, nsuper_perm (insertBy_perm _ a _), nsuper_cons]
      unfold CInv at *
      refine ⟨by rw [hcnt, hn, hc]; by_cases hs : a.super <;> simp [hs] <;> omega, fun h1 => by rw [hn]; omega⟩
  | aRemove id =>
    obtain ⟨r, hr, hinv, hsame, hok⟩ := AColl.remove_spec s.A s.provName id h
    simp only [cstep, hr]
    refine ⟨hinv, fun _ hc => ?_⟩
    cases hr2 : r.2 with
    | some e => rw [hsame (by rw [hr2]; simp)]; exact ⟨hc, fun x => x⟩
    | none =>
      obtain ⟨adm, hmem, _, hlast, hso, hcnt⟩ := hok hr2
      have hn := nsuper_remove h.nodup_id hmem
      unfold CInv supers at *
      rw [hso, hcnt]
      by_cases hs : adm.super <;> simp [hs] at hn hlast ⊢ <;> omega
  | aUpdate id t =>
    simp only [cstep]
    cases hr : s.A.update v s.provName id t with
    | crash => exact ⟨h, fun _ hc => ⟨hc, fun x => x⟩⟩
    | val r =>
      obtain ⟨hinv, hsame, hok⟩ := AColl.update_spec v s.A s.provName id t h r hr
      refine ⟨hinv, fun hv hc => ?_⟩
      cases hr2 : r.2 with
      | some e => simp only; rw [hsame (by rw [hr2]; simp)]; exact ⟨hc, fun x => x⟩
      | none =>
        obtain ⟨adm, hmem, hid, hcase⟩ := hok hr2
        rcases hcase with ⟨_, hrc⟩ | ⟨hdiff, hlast, hso, hcnt⟩
        · simp only; rw [hrc]; exact ⟨hc, fun x => x⟩
        · have hfix : v.fixUpdate = true := by
            rcases hv with hv | hv
            · exact hv
            · have hg : s.A.byID.get id = some adm := h.idx.get_some.mpr ⟨hmem, hid.symm⟩
              simp [roleChange, hg] at hv
              exact absurd hv hdiff
          have hn := nsuper_retype h.nodup_id hmem t
          rw [hid] at hn
          simp only
          unfold CInv supers at *
          rw [hso, hcnt]
          simp only [hfix, if_true]
          by_cases hs : adm.super <;> by_cases ht : t <;> simp [hs, ht] at hn hlast hdiff ⊢ <;> omega

/-- **Inv (administrators, structural)** — for either variant and every sequence of collection
    operations, accepted, rejected or aborted: `byID` indexes exactly the listed admins, ids are
    unique, the listing is sorted and duplicate-free, (subject, provisioner) keys are unique. -/
theorem admin_inv_preserved (v : Variant) (ops : List COp) (s : Cache) (h : AInv s.A) :
    AInv (crun v s ops).A := by
  induction ops generalizing s with
  | nil => exact h
  | cons o r ih => exact ih _ (cstep_admin v s o h).1

theorem admin_inv_reachable (v : Variant) (ops : List COp) : AInv (crun v {} ops).A :=
  admin_inv_preserved v ops {} AInv.empty

/-- **Inv (counter) + super_remains, repaired code** — with `Update` adjusting the counters, after
    every sequence of operations the counter equals the number of listed super admins, and if
    there was a super admin there still is one. -/
theorem super_remains_fixed (v : Variant) (hv : v.fixUpdate = true) (ops : List COp) (s : Cache)
    (h : AInv s.A) (hc : CInv s.A) :
    CInv (crun v s ops).A ∧ (1 ≤ supers s.A → 1 ≤ supers (crun v s ops).A) := by
  induction ops generalizing s with
  | nil => exact ⟨hc, fun x => x⟩
  | cons o r ih =>
    have h1 := cstep_admin v s o h
    have h2 := h1.2 (.inl hv) hc
    have h3 := ih _ h1.1 h2.1
    exact ⟨h3.1, fun x => h3.2 (h2.2 x)⟩

/-- **Inv (counter) + super_remains, code as it is (partial)** — the same holds for the current
    code over every history in which no `Update` changes an admin's role. -/
theorem super_remains_partial (v : Variant) (ops : List COp) (s : Cache)
    (h : AInv s.A) (hc : CInv s.A) (hn : NoRoleChange v s ops) :
    CInv (crun v s ops).A ∧ (1 ≤ supers s.A → 1 ≤ supers (crun v s ops).A) := by
  induction ops generalizing s with
  | nil => exact ⟨hc, fun x => x⟩
  | cons o r ih =>
    have h1 := cstep_admin v s o h
    have h2 := h1.2 (.inr hn.1) hc
    have h3 := ih _ h1.1 h2.1 hn.2
    exact ⟨h3.1, fun x => h3.2 (h2.2 x)⟩

namespace Witness
def p0 : Prov := { id := s "p0", name := s "n0", tok := s "t0", kid := none, sum := s "00112233445566778899aabbccddeeff" }
def a0 : Adm := { id := s "a0", sub := s "s0", provId := s "p0", super := true }
def a1 : Adm := { id := s "a1", sub := s "s1", provId := s "p0", super := true }
/-- one provisioner with two super admins -/
def base : Cache := crun .coded {} [.pStore p0, .aStore a0 (s "p0") (s "n0"), .aStore a1 (s "p0") (s "n0")]
end Witness
open Witness

/-- the hypotheses of the theorems above are met by a non-trivial state -/
example : AInv base.A ∧ CInv base.A ∧ supers base.A = 2 :=
  ⟨admin_inv_reachable _ _, by unfold CInv; decide, by decide⟩
example : NoRoleChange .coded base [.aUpdate (s "a0") true, .aRemove (s "a1"), .aRemove (s "a0")] := by
  simp only [NoRoleChange]; decide

/-- **D2 (refutation)** — as coded, demoting one super admin and deleting the other leaves *no*
    super admin while the counter still says 1: both `CInv` and `super_remains` fail. -/
theorem super_remains_refuted :
    let t := crun .coded base [.aUpdate (s "a0") false, .aRemove (s "a1")]
    AInv base.A ∧ CInv base.A ∧ supers base.A = 2 ∧ supers t.A = 0 ∧ t.A.superCount = 1 :=
  ⟨admin_inv_reachable _ _, by unfold CInv; decide, by decide, by decide, by decide⟩

/-- **D3 (refutation)** — as coded, `Update` of an id that is not registered aborts (nil
    dereference); the repaired code answers not-found. -/
theorem update_unknown_crashes :
    (cstep .coded base (.aUpdate (s "zz") false)).2 = .crash ∧
    (cstep .fixed base (.aUpdate (s "zz") false)).2 = .aerr .notFound := by decide

/-- with the repaired `Update`, no administrator-collection call aborts on a consistent state -/
theorem admin_no_crash_fixed (v : Variant) (hv : v.fixUpdate = true) (s : Cache) (op : COp) (h : AInv s.A) :
    (cstep v s op).2 ≠ .crash := by
  cases op with
  | pStore p => simp only [cstep]; cases (s.P.store p).2 <;> simp [pOut]
  | pRemove id => simp only [cstep]; cases (s.P.remove id).2 <;> simp [pOut]
  | pUpdate p => simp only [cstep]; cases (s.P.update p).2 <;> simp [pOut]
  | aStore a pid pname => simp only [cstep]; cases (s.A.store a pid pname).2 <;> simp [aOut]
  | aRemove id =>
    obtain ⟨r, hr, _⟩ := AColl.remove_spec s.A s.provName id h
    simp only [cstep, hr]; cases r.2 <;> simp [aOut]
  | aUpdate id t =>
    simp only [cstep]
    cases hr : s.A.update v s.provName id t with
    | val r => simp only; cases r.2 <;> simp [aOut]
    | crash =>
      exfalso
      unfold AColl.update at hr
      cases hg : s.A.byID.get id with
      | none => simp [hg, hv] at hr
      | some adm =>
        simp only [hg, hv, if_true] at hr
        split at hr
        · cases hr
        split at hr
        · cases hr
        cases hp : s.provName adm.provId <;> simp [hp] at hr
