import Verif.Lemmas.Admin
/-!
  C16 — administrative state stays consistent, recoverable and never locks everyone out.

  Property theorems about `Verif.Admin` (model of the two in-memory collections and of the
  authority layer above them; tied to /repo by the C16 correspondence stages).
  `Variant.coded` is the code as it stands, `Variant.fixed` the repaired code (notes/C16.md).
-/
namespace Verif.Admin
open Verif

/-! ## 1. administrator collection: indexes agree, ids unique, listing sorted -/

/-- number of super administrators the listing shows -/
def supers (c : AColl) : Nat := nsuper c.sorted

/-- structural invariant of the administrator collection: `byID` is exactly the index of the
    listed admins (so ids are unique), the listing is strictly ascending by id (sorted and
    duplicate-free), and no (subject, provisioner) key occurs twice -/
structure AInv (c : AColl) : Prop where
  idx : IsIndex (·.id) c.byID c.sorted
  sorted : Sorted (·.id) c.sorted
  sp : (c.bySubProv.map (·.1)).Nodup

/-- the counter the last-super-admin guards read equals the number of listed super admins -/
def CInv (c : AColl) : Prop := c.superCount = (supers c : Int)

theorem AInv.empty : AInv {} := ⟨IsIndex.nil, List.Pairwise.nil, List.nodup_nil⟩
theorem CInv.empty : CInv {} := rfl

theorem AInv.nodup_id {c : AColl} (h : AInv c) : (c.sorted.map (·.id)).Nodup := h.sorted.nodup_key

theorem AColl.store_spec (c : AColl) (a : Adm) (pid pname : Str) (h : AInv c) :
    let r := c.store a pid pname
    AInv r.1 ∧ (r.2 ≠ none → r.1 = c) ∧
    (r.2 = none → r.1.sorted = insertBy (·.id) a c.sorted ∧ (∀ x ∈ c.sorted, x.id ≠ a.id) ∧
        r.1.superCount = c.superCount + (if a.super then 1 else 0)) := by
  unfold AColl.store
  split
  · exact ⟨h, fun _ => rfl, by simp⟩
  split
  · exact ⟨h, fun _ => rfl, by simp⟩
  rename_i hid
  have hid' : c.byID.has a.id = false := by simpa using hid
  split
  · have e : ({ c with byID := (c.byID.put a.id a).del a.id } : AColl) = c := by
      rw [Map.put_del_absent hid']
    simp only [e]
    refine ⟨h, ?_, ?_⟩ <;> simp
  have hne : ∀ v ∈ c.sorted, v.id ≠ a.id := h.idx.has_false.mp hid'
  refine ⟨⟨?_, ?_, ?_⟩, by simp, fun _ => ⟨rfl, hne, ?_⟩⟩
  · exact (h.idx.put a hne).congr (fun v => by rw [mem_insertBy]; simp)
  · exact insertBy_sorted h.sorted hne
  · exact Map.nodup_put h.sp
  · by_cases hs : a.super <;> simp [hs]

theorem AColl.remove_spec (c : AColl) (pn : Str → Option Str) (id : Str) (h : AInv c) :
    ∃ r, c.remove pn id = .val r ∧ AInv r.1 ∧ (r.2 ≠ none → r.1 = c) ∧
      (r.2 = none → ∃ adm, adm ∈ c.sorted ∧ adm.id = id ∧ ¬(adm.super = true ∧ c.superCount = 1) ∧
         r.1.sorted = c.sorted.filter (fun e => decide (e.id ≠ adm.id)) ∧
         r.1.superCount = c.superCount - (if adm.super then 1 else 0)) := by
  unfold AColl.remove
  cases hg : c.byID.get id with
  | none => exact ⟨_, rfl, h, fun _ => rfl, by simp⟩
  | some adm =>
    have hadm := h.idx.get_some.mp hg
    simp only
    split
    · exact ⟨_, rfl, h, fun _ => rfl, by simp⟩
    rename_i hlast
    cases pn adm.provId with
    | none => exact ⟨_, rfl, h, fun _ => rfl, by simp⟩
    | some n =>
      simp only
      cases c.byProv.get n with
      | none => exact ⟨_, rfl, h, fun _ => rfl, by simp⟩
      | some l =>
        simp only
        obtain ⟨hrm, hdw⟩ := remove_sorted (key := fun (a : Adm) => a.id) h.sorted hadm.1
        split
        · rename_i heq; rw [hdw] at heq; cases heq
        · rename_i x rest heq
          rw [hdw] at heq
          have hx : x = adm := by injection heq with h1 _; exact h1.symm
          subst hx
          split
          · rename_i hne; exact absurd rfl hne
          split
          · exact ⟨_, rfl, h, fun _ => rfl, by simp⟩
          refine ⟨_, rfl, ⟨?_, ?_, ?_⟩, by simp, fun _ => ⟨x, hadm.1, hadm.2.symm, hlast, ?_, ?_⟩⟩
          · simp only
            rw [hrm]
            exact h.idx.del x.id
          · simp only
            rw [hrm]
            exact List.Pairwise.filter _ h.sorted
          · exact Map.nodup_del h.sp
          · simp only; rw [hrm]
          · by_cases hs : x.super <;> simp [hs]

theorem AInv.retype {c : AColl} (h : AInv c) (id : Str) (t : Bool) : AInv (c.retype id t) := by
  refine ⟨?_, ?_, ?_⟩
  · exact h.idx.map (setTy id t) (setTy_id id t)
  · unfold Sorted AColl.retype
    simp only [List.pairwise_map, setTy_id]
    exact h.sorted
  · unfold AColl.retype
    simpa [List.map_map, Function.comp_def] using h.sp

/-- what `Update` does, for either variant: it never breaks the structural invariant, it refuses
    to demote the last *counted* super admin, and an accepted call retypes exactly that admin -/
theorem AColl.update_spec (v : Variant) (c : AColl) (pn : Str → Option Str) (id : Str) (t : Bool)
    (h : AInv c) (r : AColl × Option AErr) (hr : c.update v pn id t = .val r) :
    AInv r.1 ∧ (r.2 ≠ none → r.1 = c) ∧
    (r.2 = none → ∃ adm, adm ∈ c.sorted ∧ adm.id = id ∧
       (adm.super = t ∧ r.1 = c ∨
        adm.super ≠ t ∧ ¬(adm.super = true ∧ c.superCount = 1) ∧ r.1.sorted = c.sorted.map (setTy id t) ∧
          r.1.superCount = if v.fixUpdate then c.superCount + (if t then 1 else -1) else c.superCount)) := by
  unfold AColl.update at hr
  cases hg : c.byID.get id with
  | none =>
    rw [hg] at hr
    by_cases hv : v.fixUpdate <;> simp [hv] at hr
    subst hr; exact ⟨h, fun _ => rfl, by simp⟩
  | some adm =>
    have hadm := h.idx.get_some.mp hg
    rw [hg] at hr
    simp only at hr
    split at hr
    · rename_i hsame
      cases hr
      exact ⟨h, by simp, fun _ => ⟨adm, hadm.1, hadm.2.symm, .inl ⟨hsame, rfl⟩⟩⟩
    rename_i hdiff
    split at hr
    · cases hr; exact ⟨h, fun _ => rfl, by simp⟩
    rename_i hlast
    split at hr
    · rename_i hv
      cases hp : pn adm.provId with
      | none => rw [hp] at hr; cases hr; exact ⟨h, fun _ => rfl, by simp⟩
      | some n =>
        rw [hp] at hr
        cases hr
        refine ⟨⟨(h.retype id t).idx, (h.retype id t).sorted, (h.retype id t).sp⟩, by simp,
          fun _ => ⟨adm, hadm.1, hadm.2.symm, .inr ⟨hdiff, hlast, rfl, ?_⟩⟩⟩
        simp [hv]
    · rename_i hv
      cases hr
      refine ⟨h.retype id t, by simp, fun _ => ⟨adm, hadm.1, hadm.2.symm, .inr ⟨hdiff, hlast, rfl, ?_⟩⟩⟩
      simp [hv, AColl.retype]

/-! ## 2. the counter and the last-super-admin guarantee, over arbitrary operation sequences -/

/-- the operation is an `Update` that really changes the type of an existing admin -/
def roleChange (s : Cache) : COp → Bool
  | .aUpdate id t => match s.A.byID.get id with
    | some adm => adm.super != t
    | none => false
  | _ => false

/-- no operation of the sequence changes an admin's role (evaluated along the run) -/
def NoRoleChange (v : Variant) : Cache → List COp → Prop
  | _, [] => True
  | s, o :: r => roleChange s o = false ∧ NoRoleChange v (cstep v s o).1 r

theorem cstep_admin (v : Variant) (s : Cache) (op : COp) (h : AInv s.A) :
    AInv (cstep v s op).1.A ∧
    ((v.fixUpdate = true ∨ roleChange s op = false) → CInv s.A →
      CInv (cstep v s op).1.A ∧ (1 ≤ supers s.A → 1 ≤ supers (cstep v s op).1.A)) := by
  cases op with
  | pStore p => exact ⟨h, fun _ hc => ⟨hc, fun x => x⟩⟩
  | pRemove id => exact ⟨h, fun _ hc => ⟨hc, fun x => x⟩⟩
  | pUpdate p => exact ⟨h, fun _ hc => ⟨hc, fun x => x⟩⟩
  | aStore a pid pname =>
    have sp := AColl.store_spec s.A a pid pname h
    simp only at sp
    refine ⟨sp.1, fun _ hc => ?_⟩
    simp only [cstep]
    cases hr : (s.A.store a pid pname).2 with
    | some e =>
      have := sp.2.1 (by rw [hr]; simp)
      rw [this]; exact ⟨hc, fun x => x⟩
    | none =>
      obtain ⟨hso, _, hcnt⟩ := sp.2.2 hr
      have hn : supers (s.A.store a pid pname).1 = (if a.super then 1 else 0) + supers s.A := by
        unfold supers; rw [hso, nsuper_perm (insertBy_perm _ a _), nsuper_cons]
      unfold CInv at *
      refine ⟨by rw [hcnt, hn, hc]; by_cases hs : a.super <;> simp [hs] <;> omega, fun h1 => by rw [hn]; omega⟩
  | aRemove id =>
    obtain ⟨r, hr, hinv, hsame, hok⟩ := AColl.remove_spec s.A s.provName id h
    simp only [cstep, hr]
    refine ⟨hinv, fun _ hc => ?_⟩
    cases hr2 : r.2 with
    | some e => rw [hsame (by rw [hr2]; simp)]; exact ⟨hc, fun x => x⟩
    | none =>
      obtain ⟨adm, hmem, _, hlast, hso, hcnt⟩ := hok hr2
      have hn := nsuper_remove h.nodup_id hmem
      unfold CInv supers at *
      rw [hso, hcnt]
      by_cases hs : adm.super <;> simp [hs] at hn hlast ⊢ <;> omega
  | aUpdate id t =>
    simp only [cstep]
    cases hr : s.A.update v s.provName id t with
    | crash => exact ⟨h, fun _ hc => ⟨hc, fun x => x⟩⟩
    | val r =>
      obtain ⟨hinv, hsame, hok⟩ := AColl.update_spec v s.A s.provName id t h r hr
      refine ⟨hinv, fun hv hc => ?_⟩
      cases hr2 : r.2 with
      | some e => simp only; rw [hsame (by rw [hr2]; simp)]; exact ⟨hc, fun x => x⟩
      | none =>
        obtain ⟨adm, hmem, hid, hcase⟩ := hok hr2
        rcases hcase with ⟨_, hrc⟩ | ⟨hdiff, hlast, hso, hcnt⟩
        · simp only; rw [hrc]; exact ⟨hc, fun x => x⟩
        · have hfix : v.fixUpdate = true := by
            rcases hv with hv | hv
            · exact hv
            · have hg : s.A.byID.get id = some adm := h.idx.get_some.mpr ⟨hmem, hid.symm⟩
              simp [roleChange, hg] at hv
              exact absurd hv hdiff
          have hn := nsuper_retype h.nodup_id hmem t
          rw [hid] at hn
          simp only
          unfold CInv supers at *
          rw [hso, hcnt]
          simp only [hfix, if_true]
          by_cases hs : adm.super <;> by_cases ht : t <;> simp [hs, ht] at hn hlast hdiff ⊢ <;> omega

/-- **Inv (administrators, structural)** — for either variant and every sequence of collection
    operations, accepted, rejected or aborted: `byID` indexes exactly the listed admins, ids are
    unique, the listing is sorted and duplicate-free, (subject, provisioner) keys are unique. -/
theorem admin_inv_preserved (v : Variant) (ops : List COp) (s : Cache) (h : AInv s.A) :
    AInv (crun v s ops).A := by
  induction ops generalizing s with
  | nil => exact h
  | cons o r ih => exact ih _ (cstep_admin v s o h).1

theorem admin_inv_reachable (v : Variant) (ops : List COp) : AInv (crun v {} ops).A :=
  admin_inv_preserved v ops {} AInv.empty

/-- **Inv (counter) + super_remains, repaired code** — with `Update` adjusting the counters, after
    every sequence of operations the counter equals the number of listed super admins, and if
    there was a super admin there still is one. -/
theorem super_remains_fixed (v : Variant) (hv : v.fixUpdate = true) (ops : List COp) (s : Cache)
    (h : AInv s.A) (hc : CInv s.A) :
    CInv (crun v s ops).A ∧ (1 ≤ supers s.A → 1 ≤ supers (crun v s ops).A) := by
  induction ops generalizing s with
  | nil => exact ⟨hc, fun x => x⟩
  | cons o r ih =>
    have h1 := cstep_admin v s o h
    have h2 := h1.2 (.inl hv) hc
    have h3 := ih _ h1.1 h2.1
    exact ⟨h3.1, fun x => h3.2 (h2.2 x)⟩

/-- **Inv (counter) + super_remains for /repo as it stands** (`current`, after `fix:` 80a4538):
    for every sequence of collection operations — role changes, rejected and aborted calls
    included — the counter equals the number of listed super admins and a super admin remains. -/
theorem super_remains (ops : List COp) (s : Cache) (h : AInv s.A) (hc : CInv s.A) :
    CInv (crun current s ops).A ∧ (1 ≤ supers s.A → 1 ≤ supers (crun current s ops).A) :=
  super_remains_fixed current rfl ops s h hc

/-- every state reachable from the empty collections satisfies the whole administrator invariant -/
theorem admin_inv_reachable_current (ops : List COp) :
    AInv (crun current {} ops).A ∧ CInv (crun current {} ops).A :=
  ⟨admin_inv_reachable current ops, (super_remains ops {} AInv.empty CInv.empty).1⟩

/-- **Inv (counter) + super_remains, historic (partial)** — before `fix:` 80a4538, and for any variant: — the same holds for the current
    code over every history in which no `Update` changes an admin's role. -/
theorem super_remains_partial (v : Variant) (ops : List COp) (s : Cache)
    (h : AInv s.A) (hc : CInv s.A) (hn : NoRoleChange v s ops) :
    CInv (crun v s ops).A ∧ (1 ≤ supers s.A → 1 ≤ supers (crun v s ops).A) := by
  induction ops generalizing s with
  | nil => exact ⟨hc, fun x => x⟩
  | cons o r ih =>
    have h1 := cstep_admin v s o h
    have h2 := h1.2 (.inr hn.1) hc
    have h3 := ih _ h1.1 h2.1 hn.2
    exact ⟨h3.1, fun x => h3.2 (h2.2 x)⟩

namespace Witness
def p0 : Prov := { id := s "p0", name := s "n0", tok := s "t0", kid := none, sum := s "00112233445566778899aabbccddeeff" }
def a0 : Adm := { id := s "a0", sub := s "s0", provId := s "p0", super := true }
def a1 : Adm := { id := s "a1", sub := s "s1", provId := s "p0", super := true }
/-- one provisioner with two super admins -/
def base : Cache := crun .coded {} [.pStore p0, .aStore a0 (s "p0") (s "n0"), .aStore a1 (s "p0") (s "n0")]
end Witness
open Witness

/-- the hypotheses of the theorems above are met by a non-trivial state -/
example : AInv base.A ∧ CInv base.A ∧ supers base.A = 2 :=
  ⟨admin_inv_reachable _ _, by unfold CInv; decide, by decide⟩
example : NoRoleChange .coded base [.aUpdate (s "a0") true, .aRemove (s "a1"), .aRemove (s "a0")] := by
  simp only [NoRoleChange]; decide

/-- **D2 (historic refutation, tree before `fix:` 80a4538)** — as then coded, demoting one super admin and deleting the other leaves *no*
    super admin while the counter still says 1: both `CInv` and `super_remains` fail. -/
theorem super_remains_refuted :
    let t := crun .coded base [.aUpdate (s "a0") false, .aRemove (s "a1")]
    AInv base.A ∧ CInv base.A ∧ supers base.A = 2 ∧ supers t.A = 0 ∧ t.A.superCount = 1 :=
  ⟨admin_inv_reachable _ _, by unfold CInv; decide, by decide, by decide, by decide⟩

/-- **D3 (historic refutation, tree before `fix:` e3cc9eb)** — as then coded, `Update` of an id that is not registered aborts (nil
    dereference); the repaired code answers not-found. -/
theorem update_unknown_crashes :
    (cstep .coded base (.aUpdate (s "zz") false)).2 = .crash ∧
    (cstep .fixed base (.aUpdate (s "zz") false)).2 = .aerr .notFound := by decide

/-- with the repaired `Update`, no administrator-collection call aborts on a consistent state -/
theorem admin_no_crash_fixed (v : Variant) (hv : v.fixUpdate = true) (s : Cache) (op : COp) (h : AInv s.A) :
    (cstep v s op).2 ≠ .crash := by
  cases op with
  | pStore p => simp only [cstep]; cases (s.P.store p).2 <;> simp [pOut]
  | pRemove id => simp only [cstep]; cases (s.P.remove id).2 <;> simp [pOut]
  | pUpdate p => simp only [cstep]; cases (s.P.update p).2 <;> simp [pOut]
  | aStore a pid pname => simp only [cstep]; cases (s.A.store a pid pname).2 <;> simp [aOut]
  | aRemove id =>
    obtain ⟨r, hr, _⟩ := AColl.remove_spec s.A s.provName id h
    simp only [cstep, hr]; cases r.2 <;> simp [aOut]
  | aUpdate id t =>
    simp only [cstep]
    cases hr : s.A.update v s.provName id t with
    | val r => simp only; cases r.2 <;> simp [aOut]
    | crash =>
      exfalso
      unfold AColl.update at hr
      cases hg : s.A.byID.get id with
      | none => simp [hg, hv] at hr
      | some adm =>
        simp only [hg, hv, if_true] at hr
        split at hr
        · cases hr
        split at hr
        · cases hr
        cases hp : s.provName adm.provId <;> simp [hp] at hr

/-- /repo as it stands: no administrator-collection call aborts on a consistent state -/
theorem admin_no_crash (s : Cache) (op : COp) (h : AInv s.A) : (cstep current s op).2 ≠ .crash :=
  admin_no_crash_fixed current rfl s op h

/-- on the history that refuted the property before the fix, /repo as it stands refuses the deletion -/
example : let t := crun current base [.aUpdate (s "a0") false, .aRemove (s "a1")]
    supers t.A = 1 ∧ t.A.superCount = 1 ∧ (cstep current base (.aUpdate (s "zz") false)).2 = .aerr .notFound := by
  decide

/-! ## 3. paging through administrators -/

/-- **paging_exact (administrators)** — following `Find` from the empty cursor with any page size
    (non-positive sizes mean the default 20, sizes above 100 mean 100) returns the listing, every
    administrator exactly once and in order. -/
theorem admin_paging_exact (c : AColl) (h : AInv c) (limit : Int) (fuel : Nat) (hf : c.sorted.length < fuel) :
    (c.pages limit fuel).flatten = c.sorted ∧ (c.sorted.map (·.id)).Nodup := by
  refine ⟨?_, h.nodup_id⟩
  unfold AColl.pages
  apply pagesG_all (fun (a : Adm) => a.id) id id c.sorted (normLimit limit) h.sorted (normLimit_pos limit)
  · intro x _; exact slt_nil _
  · intro x _; rfl
  · intro x _ y _ hxy e
    simp only [id] at e
    rw [e, slt_nil] at hxy; cases hxy
  · exact hf

example : AInv base.A ∧ (base.A.pages 1 10) = [[a0], [a1]] := ⟨admin_inv_reachable _ _, by decide⟩

/-! ## 4. provisioner collection -/

/-- what the harness guarantees about the SHA-1 input: 32 hex digits -/
def WfProv (p : Prov) : Prop := p.sum.length = 32 ∧ ∀ c ∈ p.sum, 48 ≤ c

/-- invariant of the provisioner collection: `byID`, `byName`, `byTokenID` index exactly the listed
    provisioners (hence ids, names and token ids are unique), the listing is strictly ascending by
    uid (sorted, duplicate-free) and every uid is 8 hex digits followed by the SHA-1 tail -/
structure PInv (c : PColl) : Prop where
  idx_id : IsIndex (·.id) c.byID (c.sorted.map (·.2))
  idx_name : IsIndex (·.name) c.byName (c.sorted.map (·.2))
  idx_tok : IsIndex (·.tok) c.byTok (c.sorted.map (·.2))
  sorted : Sorted (·.1) c.sorted
  nodup_id : (c.sorted.map (·.2.id)).Nodup
  uid : ∀ e ∈ c.sorted, ∃ n, e.1 = uidOf n e.2
  wf : ∀ e ∈ c.sorted, WfProv e.2

theorem PInv.empty : PInv {} :=
  ⟨IsIndex.nil, IsIndex.nil, IsIndex.nil, List.Pairwise.nil, List.nodup_nil, by simp, by simp⟩

/-- no listed provisioner with a different id has the same SHA-1 tail as `p` -/
def SumFresh (c : PColl) (p : Prov) : Prop := ∀ e ∈ c.sorted, e.2.sum = p.sum → e.2.id = p.id

theorem PColl.store_spec (c : PColl) (p : Prov) (h : PInv c) (hw : WfProv p) (hs : SumFresh c p) :
    PInv (c.store p).1 ∧ ((c.store p).2 ≠ none → (c.store p).1 = c) ∧
    ((c.store p).2 = none → ∀ q, q ∈ (c.store p).1.sorted.map (·.2) ↔ q = p ∨ q ∈ c.sorted.map (·.2)) := by
  unfold PColl.store
  split
  · exact ⟨h, fun _ => rfl, by simp⟩
  rename_i hid
  have hid' : c.byID.has p.id = false := by simpa using hid
  split
  · have e : ({ c with byID := (c.byID.put p.id p).del p.id } : PColl) = c := by
      rw [Map.put_del_absent hid']
    simp only [e]
    refine ⟨h, ?_, ?_⟩ <;> simp
  rename_i hname
  have hname' : c.byName.has p.name = false := by simpa using hname
  split
  · have e : ({ c with byID := (c.byID.put p.id p).del p.id, byName := (c.byName.put p.name p).del p.name } : PColl) = c := by
      rw [Map.put_del_absent hid', Map.put_del_absent hname']
    simp only [e]
    refine ⟨h, ?_, ?_⟩ <;> simp
  rename_i htok
  have htok' : c.byTok.has p.tok = false := by simpa using htok
  have nid : ∀ v ∈ c.sorted.map (·.2), v.id ≠ p.id := h.idx_id.has_false.mp hid'
  have nname : ∀ v ∈ c.sorted.map (·.2), v.name ≠ p.name := h.idx_name.has_false.mp hname'
  have ntok : ∀ v ∈ c.sorted.map (·.2), v.tok ≠ p.tok := h.idx_tok.has_false.mp htok'
  have hmem : ∀ q, q ∈ (insertBy (·.1) (uidOf c.sorted.length p, p) c.sorted).map (·.2) ↔ q = p ∨ q ∈ c.sorted.map (·.2) := by
    intro q
    simp only [List.mem_map, mem_insertBy]
    constructor
    · rintro ⟨e, rfl | he, rfl⟩
      · exact .inl rfl
      · exact .inr ⟨e, he, rfl⟩
    · rintro (rfl | ⟨e, he, rfl⟩)
      · exact ⟨_, .inl rfl, rfl⟩
      · exact ⟨e, .inr he, rfl⟩
  have hcongr : ∀ v, v ∈ p :: c.sorted.map (·.2) ↔
      v ∈ (insertBy (·.1) (uidOf c.sorted.length p, p) c.sorted).map (·.2) := by
    intro v; rw [hmem]; simp
  refine ⟨⟨?_, ?_, ?_, ?_, ?_, ?_, ?_⟩, by simp, fun _ => hmem⟩
  · exact (h.idx_id.put p nid).congr hcongr
  · exact (h.idx_name.put p nname).congr hcongr
  · exact (h.idx_tok.put p ntok).congr hcongr
  · apply insertBy_sorted h.sorted
    intro e he heq
    obtain ⟨m, hm⟩ := h.uid e he
    simp only at heq
    rw [hm] at heq
    unfold uidOf at heq
    have := (List.append_inj heq (by rw [hex8_length, hex8_length])).2
    exact nid e.2 (List.mem_map.mpr ⟨e, he, rfl⟩) (hs e he this)
  · simp only
    have hp : ((insertBy (·.1) (uidOf c.sorted.length p, p) c.sorted).map (·.2.id)).Perm
        (((uidOf c.sorted.length p, p) :: c.sorted).map (·.2.id)) := (insertBy_perm _ _ _).map _
    rw [hp.nodup_iff, List.map_cons, List.nodup_cons]
    refine ⟨?_, h.nodup_id⟩
    intro hin
    obtain ⟨e, he, heq⟩ := List.mem_map.mp hin
    exact nid e.2 (List.mem_map.mpr ⟨e, he, rfl⟩) heq
  · intro e he
    rcases mem_insertBy.mp he with rfl | he
    · exact ⟨_, rfl⟩
    · exact h.uid e he
  · intro e he
    rcases mem_insertBy.mp he with rfl | he
    · exact hw
    · exact h.wf e he

theorem PColl.remove_spec (c : PColl) (id : Str) (h : PInv c) :
    PInv (c.remove id).1 ∧ ((c.remove id).2 ≠ none → (c.remove id).1 = c) ∧
    ((c.remove id).2 = none →
      (c.remove id).1.sorted = c.sorted.filter (fun e => decide (e.2.id ≠ id)) ∧ ∃ e ∈ c.sorted, e.2.id = id) := by
  unfold PColl.remove
  cases hg : c.byID.get id with
  | none => exact ⟨h, fun _ => rfl, by simp⟩
  | some prov =>
    have hp := h.idx_id.get_some.mp hg
    obtain ⟨e0, he0, he0p⟩ := List.mem_map.mp hp.1
    simp only
    split
    · exact ⟨h, fun _ => rfl, by simp⟩
    have hso := eraseId_eq_filter (id := id) h.nodup_id
    have hvs : ∀ v, v ∈ (c.sorted.filter (fun e => decide (e.2.id ≠ id))).map (·.2) ↔
        v ∈ c.sorted.map (·.2) ∧ v.id ≠ id := by
      intro v
      simp only [List.mem_map, List.mem_filter, decide_eq_true_eq]
      constructor
      · rintro ⟨e, ⟨he, hne⟩, rfl⟩; exact ⟨⟨e, he, rfl⟩, hne⟩
      · rintro ⟨⟨e, he, rfl⟩, hne⟩; exact ⟨e, ⟨he, hne⟩, rfl⟩
    refine ⟨⟨?_, ?_, ?_, ?_, ?_, ?_, ?_⟩, by simp, fun _ => ⟨hso, e0, he0, by rw [he0p]; exact hp.2.symm⟩⟩
    · simp only [hso]
      exact (h.idx_id.del id).congr (fun v => by rw [hvs]; simp [List.mem_filter])
    · simp only [hso]
      refine (h.idx_name.del prov.name).congr (fun v => ?_)
      rw [hvs, List.mem_filter, decide_eq_true_eq]
      constructor
      · rintro ⟨hv, hne⟩
        refine ⟨hv, fun hid => hne ?_⟩
        rw [h.idx_id.inj hv hp.1 (by rw [hid]; exact hp.2)]
      · rintro ⟨hv, hne⟩
        refine ⟨hv, fun hnm => hne ?_⟩
        rw [h.idx_name.inj hv hp.1 hnm]; exact hp.2.symm
    · simp only [hso]
      refine (h.idx_tok.del prov.tok).congr (fun v => ?_)
      rw [hvs, List.mem_filter, decide_eq_true_eq]
      constructor
      · rintro ⟨hv, hne⟩
        refine ⟨hv, fun hid => hne ?_⟩
        rw [h.idx_id.inj hv hp.1 (by rw [hid]; exact hp.2)]
      · rintro ⟨hv, hne⟩
        refine ⟨hv, fun hnm => hne ?_⟩
        rw [h.idx_tok.inj hv hp.1 hnm]; exact hp.2.symm
    · simp only [hso]; exact List.Pairwise.filter _ h.sorted
    · simp only [hso]
      exact List.Nodup.sublist (List.Sublist.map _ List.filter_sublist) h.nodup_id
    · simp only [hso]; intro e he; exact h.uid e (List.mem_filter.mp he).1
    · simp only [hso]; intro e he; exact h.wf e (List.mem_filter.mp he).1

theorem PColl.update_spec (c : PColl) (nu : Prov) (h : PInv c) (hw : WfProv nu) (hs : SumFresh c nu) :
    PInv (c.update nu).1 := by
  unfold PColl.update
  cases hg : c.byID.get nu.id with
  | none => exact h
  | some old =>
    simp only
    split
    · exact h
    split
    · exact h
    have hr := PColl.remove_spec c old.id h
    cases hr2 : (c.remove old.id) with
    | mk c' e =>
      rw [hr2] at hr
      cases e with
      | some e => exact hr.1
      | none =>
        simp only
        have hso := (hr.2.2 rfl).1
        simp only at hso
        refine (PColl.store_spec c' nu hr.1 hw ?_).1
        intro e he; rw [hso] at he
        exact hs e (List.mem_filter.mp he).1

/-- the SHA-1 facts assumed about a universe of provisioners: 32 hex digits each, and no two
    different ids with the same tail (`hex(sha1(id))[8:]`) -/
def SumsOK (U : List Prov) : Prop :=
  (∀ p ∈ U, WfProv p) ∧ ∀ p ∈ U, ∀ q ∈ U, p.sum = q.sum → p.id = q.id

def provOf : COp → Option Prov
  | .pStore p => some p
  | .pUpdate p => some p
  | _ => none

theorem cstep_prov (v : Variant) (U : List Prov) (hU : SumsOK U) (s : Cache) (op : COp)
    (hop : ∀ p, provOf op = some p → p ∈ U) (h : PInv s.P) (hsU : ∀ e ∈ s.P.sorted, e.2 ∈ U) :
    PInv (cstep v s op).1.P ∧ ∀ e ∈ (cstep v s op).1.P.sorted, e.2 ∈ U := by
  have fresh : ∀ (c : PColl) (p : Prov), p ∈ U → (∀ e ∈ c.sorted, e.2 ∈ U) → SumFresh c p :=
    fun c p hp hc e he heq => hU.2 e.2 (hc e he) p hp heq
  cases op with
  | pStore p =>
    have hp := hop p rfl
    have sp := PColl.store_spec s.P p h (hU.1 p hp) (fresh _ p hp hsU)
    refine ⟨sp.1, ?_⟩
    simp only [cstep]
    cases hr : (s.P.store p).2 with
    | some e => rw [sp.2.1 (by rw [hr]; simp)]; exact hsU
    | none =>
      intro e he
      rcases (sp.2.2 hr e.2).mp (List.mem_map.mpr ⟨e, he, rfl⟩) with h1 | h1
      · rw [h1]; exact hp
      · obtain ⟨e', he', heq⟩ := List.mem_map.mp h1
        rw [← heq]; exact hsU e' he'
  | pRemove id =>
    have sp := PColl.remove_spec s.P id h
    refine ⟨sp.1, ?_⟩
    simp only [cstep]
    cases hr : (s.P.remove id).2 with
    | some e => rw [sp.2.1 (by rw [hr]; simp)]; exact hsU
    | none =>
      rw [(sp.2.2 hr).1]
      intro e he; exact hsU e (List.mem_filter.mp he).1
  | pUpdate p =>
    have hp := hop p rfl
    refine ⟨PColl.update_spec s.P p h (hU.1 p hp) (fresh _ p hp hsU), ?_⟩
    simp only [cstep]
    unfold PColl.update
    cases hg : s.P.byID.get p.id with
    | none => exact hsU
    | some old =>
      simp only
      split
      · exact hsU
      split
      · exact hsU
      have hr := PColl.remove_spec s.P old.id h
      cases hr2 : (s.P.remove old.id) with
      | mk c' e =>
        rw [hr2] at hr
        have hc'U : ∀ e ∈ c'.sorted, e.2 ∈ U := by
          cases e with
          | some e =>
            have := hr.2.1 (by simp)
            simp only at this
            rw [this]; exact hsU
          | none =>
            have := (hr.2.2 rfl).1
            simp only at this
            rw [this]; intro e he; exact hsU e (List.mem_filter.mp he).1
        cases e with
        | some e => exact hc'U
        | none =>
          simp only
          have sp := PColl.store_spec c' p hr.1 (hU.1 p hp) (fresh _ p hp hc'U)
          cases hr3 : (c'.store p).2 with
          | some e => rw [sp.2.1 (by rw [hr3]; simp)]; exact hc'U
          | none =>
            intro e he
            rcases (sp.2.2 hr3 e.2).mp (List.mem_map.mpr ⟨e, he, rfl⟩) with h1 | h1
            · rw [h1]; exact hp
            · obtain ⟨e', he', heq⟩ := List.mem_map.mp h1
              rw [← heq]; exact hc'U e' he'
  | aStore a pid pname => exact ⟨h, hsU⟩
  | aRemove id =>
    simp only [cstep]
    cases s.A.remove s.provName id <;> exact ⟨h, hsU⟩
  | aUpdate id t =>
    simp only [cstep]
    cases s.A.update v s.provName id t <;> exact ⟨h, hsU⟩

/-- **Inv (provisioners)** — for every sequence of collection operations, accepted or rejected,
    on provisioners whose SHA-1 inputs are sound: the three indexes agree with the listing, ids,
    names and token ids are unique, the listing is sorted by uid and duplicate-free. -/
theorem prov_inv_preserved (v : Variant) (U : List Prov) (hU : SumsOK U) (ops : List COp)
    (hops : ∀ o ∈ ops, ∀ p, provOf o = some p → p ∈ U) (s : Cache)
    (h : PInv s.P) (hsU : ∀ e ∈ s.P.sorted, e.2 ∈ U) : PInv (crun v s ops).P := by
  induction ops generalizing s with
  | nil => exact h
  | cons o r ih =>
    have h1 := cstep_prov v U hU s o (hops o List.mem_cons_self) h hsU
    exact ih (fun o' ho' => hops o' (List.mem_cons_of_mem _ ho')) _ h1.1 h1.2

/-- uniqueness as the admin API shows it: two listed provisioners with the same id, the same
    name or the same token id are the same provisioner -/
theorem PInv.unique {c : PColl} (h : PInv c) {p q : Prov} (hp : p ∈ c.sorted.map (·.2)) (hq : q ∈ c.sorted.map (·.2)) :
    (p.id = q.id → p = q) ∧ (p.name = q.name → p = q) ∧ (p.tok = q.tok → p = q) :=
  ⟨h.idx_id.inj hp hq, h.idx_name.inj hp hq, h.idx_tok.inj hp hq⟩

theorem PInv.uid_shape {c : PColl} (h : PInv c) {e : Str × Prov} (he : e ∈ c.sorted) :
    e.1.length = 40 ∧ ∀ x ∈ e.1, 48 ≤ x := by
  obtain ⟨n, hn⟩ := h.uid e he
  have hw := h.wf e he
  rw [hn]; unfold uidOf
  refine ⟨by rw [List.length_append, hex8_length, hw.1], ?_⟩
  intro x hx
  rcases List.mem_append.mp hx with hx | hx
  · exact hex8_ge n x hx
  · exact hw.2 x hx

/-- **paging_exact (provisioners)** — following `Find` from the empty cursor with any page size
    returns the listing, every provisioner exactly once (cursor = uid without leading zeros,
    re-padded to 40 digits by the next call). -/
theorem prov_paging_exact (c : PColl) (h : PInv c) (limit : Int) (fuel : Nat) (hf : c.sorted.length < fuel) :
    (c.pages limit fuel).flatten = c.sorted ∧ (c.sorted.map (·.2.id)).Nodup := by
  refine ⟨?_, h.nodup_id⟩
  unfold PColl.pages
  apply pagesG_all (fun (e : Str × Prov) => e.1) PColl.pad40 PColl.trim0 c.sorted (normLimit limit) h.sorted
    (normLimit_pos limit)
  · intro x hx
    have := h.uid_shape hx
    exact not_lt_zeros 40 x.1 this.1 this.2
  · intro x hx; exact pad40_trim0 x.1 (h.uid_shape hx).1
  · intro x hx y hy hxy e
    have hy0 := trim0_eq_nil e
    rw [(h.uid_shape hy).1] at hy0
    have := not_lt_zeros 40 x.1 (h.uid_shape hx).1 (h.uid_shape hx).2
    rw [hy0, this] at hxy
    cases hxy
  · exact hf

namespace Witness
def q0 : Prov := { id := s "p0", name := s "n0", tok := s "t0", kid := none, sum := s "22cb0444557b525de5b371e58e7199ef" }
def q1 : Prov := { id := s "p1", name := s "n1", tok := s "t1", kid := some (s "k"), sum := s "11ec06f96af3ca654c22172a5d746c40" }
def q2 : Prov := { id := s "p2", name := s "n2", tok := s "t2", kid := none, sum := s "9f737a955a308050062e7a2c34ee67c3" }
/-- three provisioners stored, the first removed, one re-stored: two uids share the index prefix -/
def pops : List COp := [.pStore q0, .pStore q1, .pStore q2, .pRemove (s "p0"), .pStore q0]
end Witness

example : SumsOK [q0, q1, q2] := by
  refine ⟨?_, ?_⟩
  · intro p hp
    simp only [List.mem_cons, List.not_mem_nil, or_false] at hp
    rcases hp with rfl | rfl | rfl <;> exact ⟨by decide, by decide⟩
  · intro p hp q hq
    simp only [List.mem_cons, List.not_mem_nil, or_false] at hp hq
    rcases hp with rfl | rfl | rfl <;> rcases hq with rfl | rfl | rfl <;> decide

example : ((crun .coded {} pops).P.pages 1 10).map (·.map (·.2.id)) = [[s "p1"], [s "p0"], [s "p2"]] := by decide

/-! ## 5. the authority layer: cache versus database -/

/-- the cache is exactly what a restart would build from the database -/
def IsImage (s : Auth) : Prop := buildCache s.db.provs s.db.adms = some s.cache

theorem reload_image (f : Faults) (s : Auth) (h : (reload f s).2 = false) :
    IsImage (reload f s).1 ∧ (reload f s).1.db = s.db := by
  unfold reload at h ⊢
  simp only [tick] at h ⊢
  by_cases hb1 : s.calls + 1 ∈ f
  · simp [hb1] at h
  by_cases hb2 : s.calls + 1 + 1 ∈ f
  · simp [hb1, hb2] at h
  cases hbc : buildCache s.db.provs s.db.adms with
  | none => simp [hb1, hb2, hbc] at h
  | some c => simp [hb1, hb2, IsImage, hbc]

theorem afterFail_image (f : Faults) (s : Auth) (o : AuthOut) (_ho : o ≠ .reloadFailed)
    (h : (afterFail f s o).2 ≠ .reloadFailed) :
    IsImage (afterFail f s o).1 ∧ (afterFail f s o).1.db = s.db := by
  unfold afterFail at h ⊢
  cases hr : (reload f s).2 with
  | true => simp [hr] at h
  | false =>
    have := reload_image f s hr
    simpa using this

/-- **cache_eq_store (restart)** — a CA that starts (or restarts) successfully holds exactly the
    image of the database. -/
theorem restart_is_image (v : Variant) (f : Faults) (s : Auth) (h : (Auth.step v f s .restart).2 = .ok) :
    IsImage (Auth.step v f s .restart).1 ∧ (Auth.step v f s .restart).1.db = s.db := by
  unfold Auth.step at h ⊢
  simp only at h ⊢
  cases hr : reload f { s with calls := 0 } with
  | mk s' b =>
    cases b with
    | true => simp [hr] at h
    | false =>
      have := reload_image f { s with calls := 0 } (by rw [hr])
      rw [hr] at this
      simpa [IsImage] using this

/-- **cache_eq_store (failed admin update / delete)** — when the database write of `UpdateAdmin`
    or `RemoveAdmin` fails and the request reports that failure, the cache has been rebuilt from
    the database, which the failed write left untouched. -/
theorem admin_write_failure_restores (v : Variant) (f : Faults) (s : Auth) (id : Str) (t : Bool) :
    ((Auth.step v f s (.updateAdmin id t)).2 = .storeFailed →
      IsImage (Auth.step v f s (.updateAdmin id t)).1 ∧ (Auth.step v f s (.updateAdmin id t)).1.db = s.db) ∧
    ((Auth.step v f s (.removeAdmin id)).2 = .storeFailed →
      IsImage (Auth.step v f s (.removeAdmin id)).1 ∧ (Auth.step v f s (.removeAdmin id)).1.db = s.db) := by
  constructor
  · intro h
    unfold Auth.step at h ⊢
    simp only at h ⊢
    cases hu : AColl.update v s.cache.A s.cache.provName id t with
    | crash => simp [hu] at h
    | val r =>
      obtain ⟨A, e⟩ := r
      cases e with
      | some e => simp only [hu] at h; cases e <;> simp [aerrClass] at h
      | none =>
        simp only [hu] at h ⊢
        simp only [tick] at h ⊢
        by_cases hb : 1 ∈ f
        · simp only [Nat.zero_add, List.contains_eq_mem, hb, decide_true, if_true] at h ⊢
          rw [afterFailUndo_snd] at h
          rw [afterFailUndo_eq _ _ _ _ _ (.inl (by rw [h]; simp))]
          have := afterFail_image f _ .storeFailed (by simp) (by rw [h]; simp)
          simpa using this
        · simp [hb] at h
  · intro h
    unfold Auth.step Auth.removeAdmin1 at h ⊢
    simp only at h ⊢
    cases hu : AColl.remove s.cache.A s.cache.provName id with
    | crash => simp [hu] at h
    | val r =>
      obtain ⟨A, e⟩ := r
      cases e with
      | some e => simp only [hu] at h; cases e <;> simp [aerrClass] at h
      | none =>
        simp only [hu] at h ⊢
        simp only [tick] at h ⊢
        by_cases hb : 1 ∈ f
        · simp only [Nat.zero_add, List.contains_eq_mem, hb, decide_true, if_true] at h ⊢
          rw [afterFailUndo_snd] at h
          rw [afterFailUndo_eq _ _ _ _ _ (.inl (by rw [h]; simp))]
          have := afterFail_image f _ .storeFailed (by simp) (by rw [h]; simp)
          simpa using this
        · simp [hb] at h

namespace Witness
def db0 : DB := { provs := [p0], adms := [{ id := s "a0", sub := s "step", provId := s "p0", super := true }] }
def p0' : Prov := { p0 with name := s "n2", tok := s "t2" }
/-- a CA started on a database with one provisioner `n0` and its only super admin `step` -/
def booted (v : Variant) : Auth := (Auth.step v [] { db := db0 } .restart).1
/-- … after renaming that provisioner to `n2` -/
def renamed (v : Variant) : Auth := (Auth.step v [] (booted v) (.updateProv p0')).1
end Witness

example : IsImage (booted .updateFixed) ∧ (booted .updateFixed).cache.A.bySubProv.get (s "step", s "n0") ≠ none := by
  unfold IsImage; decide

/-- the hypothesis of `admin_write_failure_restores` is met: a failing first database call -/
example : (Auth.step .updateFixed [1] (booted .updateFixed) (.updateAdmin (s "a0") true)).2 = .storeFailed ∧
    (Auth.step .updateFixed [1] (booted .updateFixed) (.removeAdmin (s "a0"))).2 = .badRequest ∧
    (Auth.step .updateFixed [1, 2] (booted .updateFixed) (.updateAdmin (s "a0") true)).2 = .reloadFailed := by decide

/-- **cache_eq_store / remove_provisioner_exact (historic refutation, D26: tree before `fix:` 2140646, `Variant.updateFixed`)** — renaming a
    provisioner that has administrators is accepted and stored, but the administrator cache keeps
    the old name: the running CA no longer finds the admin under (subject, current name) although
    a restart would; `RemoveProvisioner` then succeeds without deleting that admin — the last
    super admin — from the database, and the next start fails. -/
theorem rename_breaks_cache_eq_store :
    (Auth.step .updateFixed [] (booted .updateFixed) (.updateProv p0')).2 = .ok ∧
    (renamed .updateFixed).cache.A.bySubProv.get (s "step", s "n2") = none ∧
    ((buildCache (renamed .updateFixed).db.provs (renamed .updateFixed).db.adms).bind
        (fun c => c.A.bySubProv.get (s "step", s "n2"))).isSome = true ∧
    (let r := Auth.step .updateFixed [] (renamed .updateFixed) (.removeProv (s "p0"))
     r.2 = .ok ∧ r.1.db.provs = [] ∧ r.1.db.adms = db0.adms ∧
     (Auth.step .updateFixed [] r.1 .restart).2 = .reloadFailed) := by decide

/-- /repo as it stands (`current`, after `fix:` 2140646) on the same history: the cache is the image
    of the database after the rename, the admin is found under (subject, new name), and the
    provisioner holding the last super admin cannot be removed -/
theorem rename_consistent_current :
    (Auth.step current [] (booted current) (.updateProv p0')).2 = .ok ∧ IsImage (renamed current) ∧
    (renamed current).cache.A.bySubProv.get (s "step", s "n2") ≠ none ∧
    (Auth.step current [] (renamed current) (.removeProv (s "p0"))).2 = .badRequest := by
  unfold IsImage; decide

/-! ## 6. a policy that would lock an administrator out is refused -/

/-- **policy_no_lockout** — `checkPolicy` accepts a policy only if the engine built from it
    allows the subject of the requesting admin and of every other admin it is given. -/
theorem policy_no_lockout (verdict : Str → SanVerdict) (subjects : List Str) :
    checkPolicy verdict subjects = .ok ↔ ∀ sub ∈ subjects, verdict sub = .allowed := by
  induction subjects with
  | nil => simp [checkPolicy]
  | cons x r ih =>
    unfold checkPolicy
    cases hx : verdict x <;> simp [hx, ih]

example : checkPolicy (fun x => if x = s "step" then .notAllowed else .allowed) [s "a", s "step"] = .lockOut := by
  decide

/-! ## 7. an administration request is honoured only with a valid admin token -/

theorem findAdmin_some {A : AColl} {pn : Str} {sans : List Str} {adm : Adm}
    (h : findAdmin A pn sans = some adm) : ∃ san ∈ sans, A.bySubProv.get (san, pn) = some adm := by
  induction sans with
  | nil => simp [findAdmin] at h
  | cons x r ih =>
    unfold findAdmin at h
    cases hx : A.bySubProv.get (x, pn) with
    | some a => rw [hx] at h; cases h; exact ⟨x, List.mem_cons_self, hx⟩
    | none =>
      rw [hx] at h
      obtain ⟨san, hs, hg⟩ := ih h
      exact ⟨san, List.mem_cons_of_mem _ hs, hg⟩

/-- what the time check means: not before `nbf − 1 min`, not after `exp + 1 min`, not issued more
    than a minute in the future -/
theorem timeOk_iff (r : AdminReq) : timeOk r = true ↔
    (∀ n, r.nbf = some n → n ≤ r.now + 60) ∧ (∀ e, r.exp = some e → r.now - 60 ≤ e) ∧
    (∀ i, r.iat = some i → i ≤ r.now + 60) := by
  unfold timeOk
  cases r.nbf <;> cases r.exp <;> cases r.iat <;> simp <;> omega

/-- what the audience check means: one audience of the token is `https://<a CA name><path>` or
    `<path>` for the path of *this* request (literally or after removing a port) -/
theorem matchesAud_iff (as : List Aud) (bs : List Str) : matchesAud as bs = true ↔
    ∃ b ∈ bs, ∃ a ∈ as, a.raw = b ∨ a.stripped = b := by
  simp [matchesAud]

/-- **admin_token_only_if** — `AuthorizeAdminToken` lets a request through only if: the token
    parses, its x5c chain verifies to the CA roots for client authentication, the leaf may sign,
    the token is signed by the leaf's key, the leaf was issued through a provisioner of this CA,
    the token's reuse key was not seen before (and is recorded now), the time window holds, the
    audience is this request's path, the issuer is the admin client or the provisioner, the
    subject is not empty, a name of the leaf is registered as administrator of that provisioner
    (that administrator is the one returned), and — for any request other than GET below
    `/admin/admins` — that administrator is a super administrator. -/
theorem admin_token_only_if (A : AColl) (used used' : List Str) (r : AdminReq) (adm : Adm)
    (h : authorizeAdmin A used r = (used', .ok adm)) :
    r.parseOk = true ∧ r.chainOk = true ∧ r.digSig = true ∧ r.sigOk = true ∧
    ∃ pn, r.prov = some pn ∧
      (∀ k, r.reuseKey = some k → k ∉ used ∧ used' = k :: used) ∧
      timeOk r = true ∧ matchesAud r.aud (audiencesFor r.dnsNames r.path) = true ∧
      (r.iss = adminClientIssuer ∨ r.iss = pn) ∧ r.sub ≠ [] ∧
      (∃ san ∈ r.sans, A.bySubProv.get (san, pn) = some adm) ∧
      (adminsPrefix.isPrefixOf r.path = true → r.method ≠ GET → adm.super = true) := by
  unfold authorizeAdmin at h
  split at h
  · simp at h
  rename_i h1
  split at h
  · simp at h
  rename_i h2
  split at h
  · simp at h
  rename_i h3
  split at h
  · simp at h
  rename_i h4
  replace h1 : r.parseOk = true := by simpa using h1
  replace h2 : r.chainOk = true := by simpa using h2
  replace h3 : r.digSig = true := by simpa using h3
  replace h4 : r.sigOk = true := by simpa using h4
  refine ⟨h1, h2, h3, h4, ?_⟩
  cases hp : r.prov with
  | none => simp [hp] at h
  | some pn =>
    simp only [hp] at h
    refine ⟨pn, rfl, ?_⟩
    split at h
    · simp at h
    rename_i hused
    split at h
    · simp at h
    rename_i htime
    split at h
    · simp at h
    rename_i haud
    split at h
    · simp at h
    rename_i hiss
    split at h
    · simp at h
    rename_i hsub
    cases hf : findAdmin A pn r.sans with
    | none => simp [hf] at h
    | some a =>
      simp only [hf] at h
      split at h
      · simp at h
      rename_i hsuper
      simp only [Prod.mk.injEq, AdminAuthz.ok.injEq] at h
      obtain ⟨hu, ha⟩ := h
      subst ha
      refine ⟨?_, by simpa using htime, by simpa using haud, ?_, hsub, findAdmin_some hf, ?_⟩
      · intro k hk
        simp only [hk, reused, record] at hused hu
        exact ⟨by simpa using hused, hu.symm⟩
      · by_cases hi : r.iss = adminClientIssuer
        · exact .inl hi
        · by_cases hj : r.iss = pn
          · exact .inr hj
          · exact absurd ⟨hi, hj⟩ hiss
      · intro hpre hm
        by_cases hs : a.super = true
        · exact hs
        · exact absurd ⟨hpre, hm, by simpa using hs⟩ hsuper


/-- the converse: when every clause holds the request is authorized as that administrator, so a
    refusal of the model means that one of the clauses of `admin_token_only_if` is false -/
theorem admin_token_if (A : AColl) (used : List Str) (r : AdminReq) (adm : Adm) (pn : Str)
    (h1 : r.parseOk = true) (h2 : r.chainOk = true) (h3 : r.digSig = true) (h4 : r.sigOk = true)
    (hp : r.prov = some pn) (hu : reused used r.reuseKey = false) (ht : timeOk r = true)
    (ha : matchesAud r.aud (audiencesFor r.dnsNames r.path) = true)
    (hi : r.iss = adminClientIssuer ∨ r.iss = pn) (hs : r.sub ≠ [])
    (hf : findAdmin A pn r.sans = some adm)
    (hsup : adminsPrefix.isPrefixOf r.path = true → r.method ≠ GET → adm.super = true) :
    authorizeAdmin A used r = (record used r.reuseKey, .ok adm) := by
  unfold authorizeAdmin
  have hi' : ¬(r.iss ≠ adminClientIssuer ∧ r.iss ≠ pn) := by
    rintro ⟨a, b⟩; rcases hi with h | h
    · exact a h
    · exact b h
  have hs' : ¬(adminsPrefix.isPrefixOf r.path = true ∧ r.method ≠ GET ∧ adm.super = false) := by
    rintro ⟨a, b, c⟩
    have := hsup a b
    rw [this] at c; cases c
  simp only [h1, h2, h3, h4, hp, hu, ht, ha, hf, Bool.not_true, Bool.false_eq_true, if_false, hi', hs, hs']

/-- **only_super_changes_admins** — for *every* method string other than `GET` (no list of
    verbs), a request below `/admin/admins` is authorized only for a super administrator. -/
theorem only_super_changes_admins (A : AColl) (used used' : List Str) (r : AdminReq) (adm : Adm)
    (hpath : adminsPrefix.isPrefixOf r.path = true) (hmethod : r.method ≠ GET)
    (h : authorizeAdmin A used r = (used', .ok adm)) : adm.super = true := by
  obtain ⟨_, _, _, _, pn, _, _, _, _, _, _, _, hs⟩ := admin_token_only_if A used used' r adm h
  exact hs hpath hmethod

/-- **single use** — a reuse key that has been recorded never authorizes again, whatever else the
    request says; and an authorized request records its key. -/
theorem admin_token_single_use (A : AColl) (used : List Str) (r : AdminReq) (k : Str)
    (hk : r.reuseKey = some k) :
    (k ∈ used → ∀ adm, (authorizeAdmin A used r).2 ≠ .ok adm) ∧
    (∀ adm, (authorizeAdmin A used r).2 = .ok adm → k ∈ (authorizeAdmin A used r).1) := by
  constructor
  · intro hin adm heq
    have := admin_token_only_if A used (authorizeAdmin A used r).1 r adm (by rw [← heq])
    obtain ⟨_, _, _, _, pn, _, hu, _⟩ := this
    exact (hu k hk).1 hin
  · intro adm heq
    have := admin_token_only_if A used (authorizeAdmin A used r).1 r adm (by rw [← heq])
    obtain ⟨_, _, _, _, pn, _, hu, _⟩ := this
    rw [(hu k hk).2]; exact List.mem_cons_self

namespace Witness
def ordAdm : Adm := { id := s "a9", sub := s "ord", provId := s "p0", super := false }
def supAdm : Adm := { id := s "a0", sub := s "step", provId := s "p0", super := true }
def tokA : AColl := { bySubProv := [((s "ord", s "jwk"), ordAdm), ((s "step", s "jwk"), supAdm)] }
/-- a valid token of the ordinary admin `ord` for `PATCH /admin/admins/a9` -/
def patchReq (method subj : String) : AdminReq :=
  { parseOk := true, chainOk := true, digSig := true, sigOk := true, prov := some (s "jwk"),
    reuseKey := some (s "jti1"), now := 1000, nbf := some 999, exp := some 1240, iat := some 1000,
    aud := [⟨s "https://ca.verif.test/admin/admins/a9", s "https://ca.verif.test/admin/admins/a9"⟩],
    dnsNames := [s "ca.verif.test"], path := s "/admin/admins/a9", method := s method,
    iss := s "step-admin-client/1.0", sub := s subj, sans := [s subj] }
end Witness

/-- the hypotheses are satisfiable and the rule bites: the ordinary admin may GET, may not PATCH
    (nor use a made-up verb); the super admin may PATCH; a replayed token is refused -/
example : (authorizeAdmin tokA [] (patchReq "GET" "ord")).2 = .ok ordAdm ∧
    (authorizeAdmin tokA [] (patchReq "PATCH" "ord")).2 = .unauthorized ∧
    (authorizeAdmin tokA [] (patchReq "FROB" "ord")).2 = .unauthorized ∧
    (authorizeAdmin tokA [] (patchReq "PATCH" "step")).2 = .ok supAdm ∧
    (authorizeAdmin tokA [s "jti1"] (patchReq "PATCH" "step")).2 = .unauthorized := by decide

end Verif.Admin
