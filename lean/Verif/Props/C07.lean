import Verif.Model.Revocation
/-!
  C07 — revocation is durable, exactly-once and blocks every later renewal.

  Property theorems about `Verif.Rev` (model of `Authority.Revoke`, the revoked tables and the
  renewal gates, tied to /repo by the C07 correspondence stages).  Histories are arbitrary event
  lists over arbitrary request sets: every interleaving of the atomic steps of revocations and
  renewals (of any route: each request carries only the table and the key string the code
  uses; `revoked_blocks_full` starts from the serial string as sent), every placement of restarts, and every fault sequence (each request carries the fault
  that hits its storage step).
-/
namespace Verif.Rev
open Verif Verif.Store

/-! ## step facts -/

theorem table_setTable (g : G) (b b' : Bool) (m : Map Nat) :
    (g.setTable b m).table b' = if b = b' then m else g.table b' := by
  unfold G.setTable G.table; cases b <;> cases b' <;> simp

theorem step_inp (g : G) (r : Req) : (step g r).2.inp = r.inp := by
  unfold step stepRevoke stepRenew
  (repeat' split) <;> simp

theorem restartL_inp (r : Req) : (restartL r).inp = r.inp := by
  unfold restartL; split <;> simp

/-- what a step can do to the tables: nothing, or insert this request's record at an absent key -/
theorem step_tables (g : G) (r : Req) :
    ((step g r).1 = g ∧ (step g r).2.stored = r.stored) ∨
    (r.inp.kind.isRevoke = true ∧ r.out = .pending ∧ r.pc = 1 ∧ r.inp.fault ≠ .before ∧
      has (g.table r.inp.kind.isSSH) r.inp.key = false ∧
      (step g r).1 = g.setTable r.inp.kind.isSSH (casNil (g.table r.inp.kind.isSSH) r.inp.key r.inp.tag).1 ∧
      (step g r).2.stored = true) := by
  unfold step
  split
  · left; simp
  · rename_i hp
    have hp : r.out = .pending := by simpa using hp
    split
    · rename_i hk
      unfold stepRevoke
      split
      · left; simp
      · rename_i h1
        split
        · left; simp
        · rename_i hf
          split
          · rename_i hc
            right
            have := (casNil_swapped _ _ _).1 hc
            refine ⟨hk, hp, h1, by rw [hf]; simp, by simp [has, this], by simp, by simp⟩
          · left; simp
        · rename_i hf
          split
          · rename_i hc
            right
            have := (casNil_swapped _ _ _).1 hc
            refine ⟨hk, hp, h1, by rw [hf]; simp, by simp [has, this], by simp, by simp⟩
          · left; simp
      · left; split <;> (try split) <;> simp
      · left; simp
    · left
      unfold stepRenew
      split <;> (try split) <;> (try split) <;> simp

/-! ## 1. records are immutable and durable -/

theorem step_get_mono (g : G) (r : Req) (b : Bool) (k : Str) (v : Nat) :
    get (g.table b) k = some v → get ((step g r).1.table b) k = some v := by
  intro h
  rcases step_tables g r with ⟨hg, _⟩ | ⟨_, _, _, _, _, hg, _⟩
  · rw [hg]; exact h
  · rw [hg, table_setTable]
    split
    · rename_i hb; subst hb; exact casNil_mono _ _ _ _ _ h
    · exact h

theorem exec_get_mono (s : G × List Req) (e : Ev) (b : Bool) (k : Str) (v : Nat) :
    get (s.1.table b) k = some v → get ((machine.exec s e).1.table b) k = some v := by
  intro h
  cases e with
  | restart now => exact h
  | step t =>
    simp only [Machine.exec, machine]
    cases hr : s.2[t]? with
    | none => exact h
    | some r => exact step_get_mono s.1 r b k v h

/-- **record_immutable.** Whatever happens afterwards — any requests, interleaving, restarts,
    faults — a stored revocation record is still there and unchanged (this is also the
    "leaves the original record untouched" half of `second_revoke`). -/
theorem record_immutable (s : G × List Req) (evs : List Ev) (b : Bool) (k : Str) (v : Nat) :
    get (s.1.table b) k = some v → get ((machine.run s evs).1.table b) k = some v :=
  fun h => Machine.run_inv machine (fun s => get (s.1.table b) k = some v)
    (fun s e h => exec_get_mono s e b k v h) evs s h

theorem has_of_get {m : Map Nat} {k : Str} {v : Nat} (h : get m k = some v) : has m k = true := by
  unfold has; rw [h]; rfl

theorem has_run_mono (s : G × List Req) (evs : List Ev) (b : Bool) (k : Str) :
    has (s.1.table b) k = true → has ((machine.run s evs).1.table b) k = true := by
  unfold has
  cases h : get (s.1.table b) k with
  | none => simp
  | some v => intro _; rw [record_immutable s evs b k v h]; rfl

/-! ## 2. an acknowledgement implies a stored record -/

def Loc (r : Req) : Prop :=
  (r.out = .ok → r.stored = true) ∧ (r.stored = true → r.inp.kind.isRevoke = true) ∧
  (r.out = .allowed → r.inp.kind.isRevoke = false) ∧
  (r.out = .pending → r.pc = 2 → r.inp.kind.isRevoke = true → r.stored = true)

theorem loc_step (g : G) (r : Req) : Loc r → Loc (step g r).2 := by
  unfold Loc step stepRevoke stepRenew
  intro ⟨a, b, c, d⟩
  (repeat' split) <;> simp_all

theorem loc_restart (r : Req) : Loc r → Loc (restartL r) := by
  unfold Loc restartL; intro ⟨a, b, c, d⟩; split <;> simp_all

/-- whoever stored, its key is in its table -/
def Rec (s : G × List Req) : Prop :=
  ∀ r ∈ s.2, Loc r ∧ (r.stored = true → has (s.1.table r.inp.kind.isSSH) r.inp.key = true)

theorem rec_exec (s : G × List Req) (e : Ev) : Rec s → Rec (machine.exec s e) := by
  intro h
  cases e with
  | restart now =>
    simp only [Machine.exec, machine, Rec, restartG]
    intro r hr
    rcases List.mem_map.1 hr with ⟨r', hr', rfl⟩
    have hs : (restartL r').stored = r'.stored := by unfold restartL; split <;> simp
    rw [restartL_inp, hs]
    exact ⟨loc_restart r' (h r' hr').1, (h r' hr').2⟩
  | step t =>
    simp only [Machine.exec, machine]
    cases hr : s.2[t]? with
    | none => exact h
    | some r =>
      show Rec ((step s.1 r).1, s.2.set t (step s.1 r).2)
      unfold Rec; dsimp only
      have hmem := mem_of_getElem? _ _ _ hr
      refine forall_set (fun y => Loc y ∧ (y.stored = true → has ((step s.1 r).1.table y.inp.kind.isSSH) y.inp.key = true))
        s.2 t _ ?_ ?_
      · intro y hy
        refine ⟨(h y hy).1, fun hst => ?_⟩
        have := (h y hy).2 hst
        unfold has at this ⊢
        cases hg : get (s.1.table y.inp.kind.isSSH) y.inp.key with
        | none => rw [hg] at this; cases this
        | some v => rw [step_get_mono s.1 r _ _ v hg]; rfl
      · refine ⟨loc_step s.1 r (h r hmem).1, ?_⟩
        rw [step_inp]
        rcases step_tables s.1 r with ⟨hg, hst⟩ | ⟨_, _, _, _, _, hg, _⟩
        · rw [hg, hst]; exact (h r hmem).2
        · intro _; rw [hg, table_setTable]; simp [has_casNil_same]

theorem rec_run (g : G) (rs : List Req) (hfresh : ∀ r ∈ rs, r.fresh) (evs : List Ev) :
    Rec (machine.run (g, rs) evs) :=
  Machine.run_inv machine Rec (fun s e h => rec_exec s e h) evs (g, rs) (fun r hr => by
    obtain ⟨h1, h2, h3⟩ := hfresh r hr
    unfold Loc; simp [h1, h2, h3])

/-- **ack_implies_stored.** In every history (all interleavings, restarts, faults): a revocation
    that was answered with success has its record in the table — also in the table the next
    process starts from (`restartG` keeps both tables). -/
theorem ack_implies_stored (g : G) (rs : List Req) (hfresh : ∀ r ∈ rs, r.fresh) (evs : List Ev)
    (r : Req) (hr : r ∈ (machine.run (g, rs) evs).2) (hok : r.out = .ok) (now : Nat) :
    has ((restartG now (machine.run (g, rs) evs).1).table r.inp.kind.isSSH) r.inp.key = true := by
  have := rec_run g rs hfresh evs r hr
  exact this.2 (this.1.1 hok)

/-! ## 3. once revoked, every later renewal is refused; a further revocation says "already" -/

theorem casNil_not_swapped_of_has {m : Map Nat} {k : Str} (v : Nat) (h : has m k = true) :
    (casNil m k v).2 = false := by
  cases hc : (casNil m k v).2 with
  | false => rfl
  | true =>
    have := (casNil_swapped m k v).1 hc
    unfold has at h; rw [this] at h; cases h

theorem casNil_not_swapped_of_has' {m : Map Nat} {k : Str} {v : Nat}
    (hc : (casNil m k v).2 = false) : has m k = true := by
  cases h : has m k with
  | true => rfl
  | false =>
    unfold has at h
    have : get m k = none := by cases hg : get m k <;> simp [hg] at h ⊢
    rw [(casNil_swapped m k v).2 this] at hc; cases hc

/-- a renewal that has not read the table yet, or has been refused -/
def Blocked (inp : Inp) (r : Req) : Prop :=
  r.inp = inp ∧ (r.out = .pending → r.pc ≤ 1) ∧ r.out ≠ .allowed

theorem blocked_step (g : G) (inp : Inp) (r : Req) (hk : inp.kind.isRevoke = false)
    (hh : has (g.table inp.kind.isSSH) inp.key = true) : Blocked inp r → Blocked inp (step g r).2 := by
  intro ⟨hi, hp, hna⟩
  subst hi
  unfold Blocked
  rw [step_inp]
  unfold step
  split
  · exact ⟨rfl, hp, hna⟩
  · rename_i hpend
    have hpend : r.out = .pending := by simpa using hpend
    have hpc := hp hpend
    simp only [hk]
    unfold stepRenew
    have : r.pc = 0 ∨ r.pc = 1 := by omega
    rcases this with h0 | h1
    · rw [h0]; simp [hpend]
    · rw [h1]; cases hf : r.inp.fault <;> simp [hh]

theorem blocked_restart (inp : Inp) (r : Req) : Blocked inp r → Blocked inp (restartL r) := by
  intro ⟨hi, hp, hna⟩
  unfold Blocked restartL
  split
  · simp [hi]
  · exact ⟨hi, hp, hna⟩

/-- a revocation that has not reached its CAS yet, or has been answered without success -/
def BlockedRev (inp : Inp) (r : Req) : Prop :=
  r.inp = inp ∧ (r.out = .pending → r.pc ≤ 1) ∧ r.out ≠ .ok ∧ r.stored = false

theorem blockedRev_step (g : G) (inp : Inp) (r : Req) (hk : inp.kind.isRevoke = true)
    (hh : has (g.table inp.kind.isSSH) inp.key = true) :
    BlockedRev inp r → BlockedRev inp (step g r).2 ∧ (step g r).1 = g := by
  intro ⟨hi, hp, hno, hst⟩
  subst hi
  unfold BlockedRev
  rw [step_inp]
  unfold step
  split
  · exact ⟨⟨rfl, hp, hno, hst⟩, rfl⟩
  · rename_i hpend
    have hpend : r.out = .pending := by simpa using hpend
    have hpc := hp hpend
    simp only [hk]
    unfold stepRevoke
    have hc := casNil_not_swapped_of_has r.inp.tag hh
    have : r.pc = 0 ∨ r.pc = 1 := by omega
    rcases this with h0 | h1
    · rw [h0]; simp [hpend, hst]
    · rw [h1]; cases hf : r.inp.fault <;> simp [hc, hst]

theorem blockedRev_restart (inp : Inp) (r : Req) : BlockedRev inp r → BlockedRev inp (restartL r) := by
  intro ⟨hi, hp, hno, hst⟩
  unfold BlockedRev restartL
  split
  · simp [hi, hst]
  · exact ⟨hi, hp, hno, hst⟩

/-- generic: a per-thread predicate that steps preserve while table `b` holds key `k` -/
theorem thread_inv (P : Req → Prop) (b : Bool) (k : Str)
    (hstep : ∀ g r, has (g.table b) k = true → P r → P (step g r).2)
    (hrestart : ∀ r, P r → P (restartL r))
    (s : G × List Req) (evs : List Ev) (j : Nat) (rj : Req)
    (hh : has (s.1.table b) k = true) (hj : s.2[j]? = some rj) (hP : P rj) :
    ∃ rj', (machine.run s evs).2[j]? = some rj' ∧ P rj' := by
  have := Machine.run_inv machine
    (fun s => has (s.1.table b) k = true ∧ ∃ rj', s.2[j]? = some rj' ∧ P rj')
    (fun s e ⟨hh, rj', hj, hP⟩ => by
      refine ⟨by simpa [Machine.run] using has_run_mono s [e] b k hh, ?_⟩
      rw [Machine.exec_getElem?]
      cases e with
      | restart now => exact ⟨restartL rj', by simp [hj, machine], hrestart rj' hP⟩
      | step t =>
        by_cases htj : t = j
        · exact ⟨(step s.1 rj').2, by simp [htj, hj, machine], hstep s.1 rj' hh hP⟩
        · exact ⟨rj', by simp [htj, hj], hP⟩)
    evs s ⟨hh, rj, hj, hP⟩
  exact this.2

/-- **revoked_blocks.** Take any history `evs1` after which some revocation of key `k` (table:
    X.509 or SSH) has been answered with success, and any renewal/rekey request `j` of the same
    table and key that has not started by then (it comes later — by any route: mTLS, renew
    token, SSH proof of possession all reach the same gate).  Then after every continuation
    `evs2` — any interleaving with other requests, any number of restarts, any faults,
    including a fault on `j`'s own lookup — request `j` is not allowed. -/
theorem revoked_blocks (g : G) (rs : List Req) (hfresh : ∀ r ∈ rs, r.fresh) (evs1 evs2 : List Ev)
    (ri rj : Req) (j : Nat)
    (hri : ri ∈ (machine.run (g, rs) evs1).2) (hok : ri.out = .ok)
    (hrj : (machine.run (g, rs) evs1).2[j]? = some rj) (hjfresh : rj.fresh)
    (hjk : rj.inp.kind.isRevoke = false) (hssh : rj.inp.kind.isSSH = ri.inp.kind.isSSH)
    (hkey : rj.inp.key = ri.inp.key) :
    ∃ rj', (machine.run (g, rs) (evs1 ++ evs2)).2[j]? = some rj' ∧ rj'.out ≠ .allowed := by
  have hst := ack_implies_stored g rs hfresh evs1 ri hri hok 0
  simp only [restartG] at hst
  rw [← hssh, ← hkey] at hst
  rw [Machine.run_append]
  obtain ⟨rj', h1, h2⟩ := thread_inv (Blocked rj.inp) rj.inp.kind.isSSH rj.inp.key
    (fun g r hh hb => blocked_step g rj.inp r hjk hh hb) (blocked_restart rj.inp)
    (machine.run (g, rs) evs1) evs2 j rj hst hrj
    ⟨rfl, fun _ => by rw [hjfresh.1]; omega, by rw [hjfresh.2.2]; simp⟩
  exact ⟨rj', h1, h2.2.2⟩

/-! ## 3b. linked CA: the same guarantee where the tables live at the linked CA service -/

theorem lstep_inp (g : G) (r : Req) : (lstep g r).2.inp = r.inp := by
  unfold lstep lstepRevoke stepRenew
  (repeat' split) <;> simp

/-- what a step of a linked CA can do to the service's tables: nothing, or insert-if-absent at this request's key -/
theorem lstep_tables (g : G) (r : Req) :
    ((lstep g r).1 = g ∧ (lstep g r).2.stored = r.stored) ∨
    ((lstep g r).1 = g.setTable r.inp.kind.isSSH (casNil (g.table r.inp.kind.isSSH) r.inp.key r.inp.tag).1 ∧
      (lstep g r).2.stored = true) := by
  unfold lstep
  split
  · left; simp
  · split
    · unfold lstepRevoke
      split
      · left; simp
      · split
        · left; simp
        · right; simp
        · right; simp
      · left; split <;> (try split) <;> simp
      · left; simp
    · left
      unfold stepRenew
      split <;> (try split) <;> (try split) <;> simp

theorem lstep_get_mono (g : G) (r : Req) (b : Bool) (k : Str) (v : Nat) :
    get (g.table b) k = some v → get ((lstep g r).1.table b) k = some v := by
  intro h
  rcases lstep_tables g r with ⟨hg, _⟩ | ⟨hg, _⟩
  · rw [hg]; exact h
  · rw [hg, table_setTable]
    split
    · rename_i hb; subst hb; exact casNil_mono _ _ _ _ _ h
    · exact h

theorem lexec_get_mono (s : G × List Req) (e : Ev) (b : Bool) (k : Str) (v : Nat) :
    get (s.1.table b) k = some v → get ((lmachine.exec s e).1.table b) k = some v := by
  intro h
  cases e with
  | restart now => exact h
  | step t =>
    simp only [Machine.exec, lmachine]
    cases hr : s.2[t]? with
    | none => exact h
    | some r => exact lstep_get_mono s.1 r b k v h

/-- **linked_record_immutable.** At the linked CA service too, a revocation record stays and stays unchanged. -/
theorem linked_record_immutable (s : G × List Req) (evs : List Ev) (b : Bool) (k : Str) (v : Nat) :
    get (s.1.table b) k = some v → get ((lmachine.run s evs).1.table b) k = some v :=
  fun h => Machine.run_inv lmachine (fun s => get (s.1.table b) k = some v)
    (fun s e h => lexec_get_mono s e b k v h) evs s h

theorem lhas_run_mono (s : G × List Req) (evs : List Ev) (b : Bool) (k : Str) :
    has (s.1.table b) k = true → has ((lmachine.run s evs).1.table b) k = true := by
  unfold has
  cases h : get (s.1.table b) k with
  | none => simp
  | some v => intro _; rw [linked_record_immutable s evs b k v h]; rfl

theorem lloc_step (g : G) (r : Req) : Loc r → Loc (lstep g r).2 := by
  unfold Loc lstep lstepRevoke stepRenew
  intro ⟨a, b, c, d⟩
  (repeat' split) <;> simp_all

def LRec (s : G × List Req) : Prop :=
  ∀ r ∈ s.2, Loc r ∧ (r.stored = true → has (s.1.table r.inp.kind.isSSH) r.inp.key = true)

theorem lrec_exec (s : G × List Req) (e : Ev) : LRec s → LRec (lmachine.exec s e) := by
  intro h
  cases e with
  | restart now =>
    simp only [Machine.exec, lmachine, LRec, restartG]
    intro r hr
    rcases List.mem_map.1 hr with ⟨r', hr', rfl⟩
    have hs : (restartL r').stored = r'.stored := by unfold restartL; split <;> simp
    rw [restartL_inp, hs]
    exact ⟨loc_restart r' (h r' hr').1, (h r' hr').2⟩
  | step t =>
    simp only [Machine.exec, lmachine]
    cases hr : s.2[t]? with
    | none => exact h
    | some r =>
      show LRec ((lstep s.1 r).1, s.2.set t (lstep s.1 r).2)
      unfold LRec; dsimp only
      have hmem := mem_of_getElem? _ _ _ hr
      refine forall_set (fun y => Loc y ∧ (y.stored = true → has ((lstep s.1 r).1.table y.inp.kind.isSSH) y.inp.key = true))
        s.2 t _ ?_ ?_
      · intro y hy
        refine ⟨(h y hy).1, fun hst => ?_⟩
        have := (h y hy).2 hst
        unfold has at this ⊢
        cases hg : get (s.1.table y.inp.kind.isSSH) y.inp.key with
        | none => rw [hg] at this; cases this
        | some v => rw [lstep_get_mono s.1 r _ _ v hg]; rfl
      · refine ⟨lloc_step s.1 r (h r hmem).1, ?_⟩
        rw [lstep_inp]
        rcases lstep_tables s.1 r with ⟨hg, hst⟩ | ⟨hg, _⟩
        · rw [hg, hst]; exact (h r hmem).2
        · intro _; rw [hg, table_setTable]; simp [has_casNil_same]

/-- **linked_ack_implies_stored.** Linked CA, every history (interleavings, restarts, RPC faults): a revocation that was
    answered with success is recorded at the linked CA service — the place the renewal gates ask. -/
theorem linked_ack_implies_stored (g : G) (rs : List Req) (hfresh : ∀ r ∈ rs, r.fresh) (evs : List Ev)
    (r : Req) (hr : r ∈ (lmachine.run (g, rs) evs).2) (hok : r.out = .ok) :
    has ((lmachine.run (g, rs) evs).1.table r.inp.kind.isSSH) r.inp.key = true := by
  have := Machine.run_inv lmachine LRec (fun s e h => lrec_exec s e h) evs (g, rs) (fun r hr => by
    obtain ⟨h1, h2, h3⟩ := hfresh r hr
    unfold Loc; simp [h1, h2, h3]) r hr
  exact this.2 (this.1.1 hok)

theorem lblocked_step (g : G) (inp : Inp) (r : Req) (hk : inp.kind.isRevoke = false)
    (hh : has (g.table inp.kind.isSSH) inp.key = true) : Blocked inp r → Blocked inp (lstep g r).2 := by
  intro hb
  have : lstep g r = step g r := by
    obtain ⟨hi, _, _⟩ := hb
    unfold lstep step; rw [hi, hk]; simp
  rw [this]; exact blocked_step g inp r hk hh hb

theorem lthread_inv (P : Req → Prop) (b : Bool) (k : Str)
    (hstep : ∀ g r, has (g.table b) k = true → P r → P (lstep g r).2)
    (hrestart : ∀ r, P r → P (restartL r))
    (s : G × List Req) (evs : List Ev) (j : Nat) (rj : Req)
    (hh : has (s.1.table b) k = true) (hj : s.2[j]? = some rj) (hP : P rj) :
    ∃ rj', (lmachine.run s evs).2[j]? = some rj' ∧ P rj' := by
  have := Machine.run_inv lmachine
    (fun s => has (s.1.table b) k = true ∧ ∃ rj', s.2[j]? = some rj' ∧ P rj')
    (fun s e ⟨hh, rj', hj, hP⟩ => by
      refine ⟨by simpa [Machine.run] using lhas_run_mono s [e] b k hh, ?_⟩
      rw [Machine.exec_getElem?]
      cases e with
      | restart now => exact ⟨restartL rj', by simp [hj, lmachine], hrestart rj' hP⟩
      | step t =>
        by_cases htj : t = j
        · exact ⟨(lstep s.1 rj').2, by simp [htj, hj, lmachine], hstep s.1 rj' hh hP⟩
        · exact ⟨rj', by simp [htj, hj], hP⟩)
    evs s ⟨hh, rj, hj, hP⟩
  exact this.2

/-- **linked_revoked_blocks.** `revoked_blocks` for a linked CA: after any history in which a revocation of key `k` was
    answered with success, every renewal / rekey of the same table and key that starts later is not allowed, whatever
    follows (interleavings, restarts of the CA, RPC faults, including a fault of its own status lookup). -/
theorem linked_revoked_blocks (g : G) (rs : List Req) (hfresh : ∀ r ∈ rs, r.fresh) (evs1 evs2 : List Ev)
    (ri rj : Req) (j : Nat)
    (hri : ri ∈ (lmachine.run (g, rs) evs1).2) (hok : ri.out = .ok)
    (hrj : (lmachine.run (g, rs) evs1).2[j]? = some rj) (hjfresh : rj.fresh)
    (hjk : rj.inp.kind.isRevoke = false) (hssh : rj.inp.kind.isSSH = ri.inp.kind.isSSH)
    (hkey : rj.inp.key = ri.inp.key) :
    ∃ rj', (lmachine.run (g, rs) (evs1 ++ evs2)).2[j]? = some rj' ∧ rj'.out ≠ .allowed := by
  have hst := linked_ack_implies_stored g rs hfresh evs1 ri hri hok
  rw [← hssh, ← hkey] at hst
  rw [Machine.run_append]
  obtain ⟨rj', h1, h2⟩ := lthread_inv (Blocked rj.inp) rj.inp.kind.isSSH rj.inp.key
    (fun g r hh hb => lblocked_step g rj.inp r hjk hh hb) (blocked_restart rj.inp)
    (lmachine.run (g, rs) evs1) evs2 j rj hst hrj
    ⟨rfl, fun _ => by rw [hjfresh.1]; omega, by rw [hjfresh.2.2]; simp⟩
  exact ⟨rj', h1, h2.2.2⟩

/-- what the round-5 seed did (an RPC error answered with success after a write to the *local* table) is excluded:
    a revocation whose RPC was not performed is never answered with success -/
theorem linked_fault_not_acknowledged (g : G) (r : Req) (hf : r.fresh) (hk : r.inp.kind.isRevoke = true)
    (hfault : r.inp.fault = .before) :
    (lstep (lstep g r).1 (lstep g r).2).2.out = .err ∧ (lstep (lstep g r).1 (lstep g r).2).1 = g := by
  obtain ⟨h1, h2, h3⟩ := hf
  cases r with
  | mk inp pc stored out =>
    simp only at h1 h2 h3 hk hfault
    subst h1 h2 h3
    simp [lstep, lstepRevoke, hk, hfault]

/-- **second_revoke.** If key `k` is already in the table (record `v`), a revocation request `j`
    for `k` that starts afterwards is never answered with success and never stores anything,
    and the original record is still `v` — whatever else happens (interleavings, restarts,
    faults).  Without a fault its answer is "already revoked" (`second_revoke_answer`). -/
theorem second_revoke (s : G × List Req) (evs : List Ev) (j : Nat) (rj : Req) (v : Nat)
    (hv : get (s.1.table rj.inp.kind.isSSH) rj.inp.key = some v)
    (hrj : s.2[j]? = some rj) (hjfresh : rj.fresh) (hjk : rj.inp.kind.isRevoke = true) :
    (∃ rj', (machine.run s evs).2[j]? = some rj' ∧ rj'.out ≠ .ok ∧ rj'.stored = false) ∧
    get ((machine.run s evs).1.table rj.inp.kind.isSSH) rj.inp.key = some v := by
  refine ⟨?_, record_immutable s evs _ _ v hv⟩
  obtain ⟨rj', h1, h2⟩ := thread_inv (BlockedRev rj.inp) rj.inp.kind.isSSH rj.inp.key
    (fun g r hh hb => (blockedRev_step g rj.inp r hjk hh hb).1) (blockedRev_restart rj.inp)
    s evs j rj (has_of_get hv) hrj
    ⟨rfl, fun _ => by rw [hjfresh.1]; omega, by rw [hjfresh.2.2]; simp, hjfresh.2.1⟩
  exact ⟨rj', h1, h2.2.2.1, h2.2.2.2⟩

/-- the answer of an undisturbed second revocation: run alone to completion it says "already" -/
theorem second_revoke_answer (g : G) (r : Req) (hfresh : r.fresh) (hk : r.inp.kind.isRevoke = true)
    (hf : r.inp.fault = .none) (hh : has (g.table r.inp.kind.isSSH) r.inp.key = true) :
    (machine.run (g, [r]) [.step 0, .step 0]).2 = [{ r with pc := 1, out := .already }] ∧
    (machine.run (g, [r]) [.step 0, .step 0]).1 = g := by
  obtain ⟨h1, h2, h3⟩ := hfresh
  have hc := casNil_not_swapped_of_has r.inp.tag hh
  simp [Machine.run, Machine.exec, machine, step, stepRevoke, h1, h3, hk, hf, hc]

/-! ## 4. of k simultaneous revocations of one serial exactly one succeeds -/

/-- the requests of `exactly_one`: revocations of key `k` in table `b`, no fault -/
def Same (b : Bool) (k : Str) (i : Inp) : Prop :=
  i.kind.isRevoke = true ∧ i.kind.isSSH = b ∧ i.key = k ∧ i.fault = .none ∧ i.crlFails = false

/-- control-state facts of such a request -/
def LocE (r : Req) : Prop :=
  (r.out = .pending → r.pc ≤ 1 → r.stored = false) ∧ (r.out = .pending → r.pc = 2 → r.stored = true) ∧
  (r.out = .pending → r.pc ≤ 2) ∧ (r.out = .ok → r.stored = true) ∧ (r.out = .already → r.stored = false) ∧
  (r.out = .pending ∨ r.out = .ok ∨ r.out = .already)

theorem locE_step (g : G) (r : Req) (b : Bool) (k : Str) (hs : Same b k r.inp) : LocE r → LocE (step g r).2 := by
  obtain ⟨h1, h2, h3, h4, h5⟩ := hs
  unfold LocE step stepRevoke
  intro ⟨a, b', c, d, e, f⟩
  simp only [h1, h4, h5]
  (repeat' split) <;> simp_all <;> omega

def InvE (b : Bool) (k : Str) (s : G × List Req) : Prop :=
  (∀ r ∈ s.2, Same b k r.inp ∧ LocE r ∧ (r.out ≠ .pending → has (s.1.table b) k = true)) ∧
  s.2.countP (·.stored) = if has (s.1.table b) k then 1 else 0

theorem invE_exec (b : Bool) (k : Str) (s : G × List Req) (t : Nat) :
    InvE b k s → InvE b k (machine.exec s (.step t)) := by
  intro ⟨hall, hcnt⟩
  simp only [Machine.exec, machine]
  cases hr : s.2[t]? with
  | none => exact ⟨hall, hcnt⟩
  | some r =>
    show InvE b k ((step s.1 r).1, s.2.set t (step s.1 r).2)
    have hmem := mem_of_getElem? _ _ _ hr
    obtain ⟨hsame, hloc, hdone⟩ := hall r hmem
    have hloc' := locE_step s.1 r b k hsame hloc
    have hc := countP_set (·.stored) s.2 t r (step s.1 r).2 hr
    obtain ⟨hs1, hs2, hs3, hs4, hs5⟩ := hsame
    unfold InvE; dsimp only
    rcases step_tables s.1 r with ⟨hg, hst⟩ | ⟨_, hpend, hpc, _, hno, hg, hst⟩
    · refine ⟨forall_set _ s.2 t _ (fun y hy => by rw [hg]; exact hall y hy) ?_, ?_⟩
      · refine ⟨by rw [step_inp]; exact ⟨hs1, hs2, hs3, hs4, hs5⟩, hloc', ?_⟩
        rw [hg]
        intro hnp
        by_cases hp : r.out = .pending
        · -- the step answered: either the CAS found the key, or the request had stored it
          have hrec : r.stored = true → has (s.1.table b) k = true := by
            intro hst'
            cases hh : has (s.1.table b) k with
            | true => rfl
            | false =>
              rw [hh] at hcnt; simp at hcnt
              have := hcnt r hmem; rw [hst'] at this; cases this
          have hpc2 : r.pc = 2 → has (s.1.table b) k = true := fun h => hrec (hloc.2.1 hp h)
          revert hnp hst
          unfold step stepRevoke
          simp only [hp, hs1, hs4, hs5, hs2, hs3]
          (repeat' split) <;> simp_all
          · rename_i hcas; exact casNil_not_swapped_of_has' hcas
        · exact hdone hp
      · rw [hg]; rw [hst] at hc
        have : (s.2.set t (step s.1 r).2).countP (·.stored) = s.2.countP (·.stored) := by
          split at hc <;> omega
        rw [this]; exact hcnt
    · rw [hs2, hs3] at hno hg
      rw [hno] at hcnt; simp at hcnt
      have hrs : r.stored = false := by
        cases h : r.stored with
        | false => rfl
        | true => have := hcnt r hmem; rw [h] at this; cases this
      have hk : has ((step s.1 r).1.table b) k = true := by
        rw [hg, table_setTable]; simp [has_casNil_same]
      refine ⟨forall_set _ s.2 t _ (fun y hy => ⟨(hall y hy).1, (hall y hy).2.1, fun _ => hk⟩) ?_, ?_⟩
      · exact ⟨by rw [step_inp]; exact ⟨hs1, hs2, hs3, hs4, hs5⟩, hloc', fun _ => hk⟩
      · have h0 : s.2.countP (·.stored) = 0 := by
          rw [List.countP_eq_zero]; intro a ha; simp [hcnt a ha]
        rw [hst, hrs, h0] at hc
        rw [hk]
        simp at hc ⊢; omega

/-- **exactly_one.** `k ≥ 1` revocations of one serial (same table, same key), none of them hit
    by a fault, the serial not revoked before: under every interleaving of their steps in which
    all of them get answered (no restart in between), exactly one is answered with success;
    all others are answered "already revoked". -/
theorem exactly_one (g : G) (rs : List Req) (b : Bool) (k : Str) (hne : rs ≠ [])
    (hfresh : ∀ r ∈ rs, r.fresh) (hsame : ∀ r ∈ rs, Same b k r.inp)
    (habs : has (g.table b) k = false) (evs : List Ev) (hsteps : ∀ e ∈ evs, ∃ t, e = .step t)
    (hdone : ∀ r ∈ (machine.run (g, rs) evs).2, r.out ≠ .pending) :
    (machine.run (g, rs) evs).2.countP (·.out == .ok) = 1 ∧
    ∀ r ∈ (machine.run (g, rs) evs).2, r.out = .ok ∨ r.out = .already := by
  have hinv := Machine.run_inv_of machine (InvE b k) (fun e => ∃ t, e = .step t)
    (fun s e ⟨t, he⟩ h => by subst he; exact invE_exec b k s t h) evs (g, rs) hsteps
    ⟨fun r hr => ⟨hsame r hr, by
        obtain ⟨h1, h2, h3⟩ := hfresh r hr
        unfold LocE; simp [h1, h2, h3], fun h => absurd (hfresh r hr).2.2 h⟩,
     by rw [habs]; simp; intro a ha; simp [(hfresh a ha).2.1]⟩
  obtain ⟨hall, hcnt⟩ := hinv
  have hlen : (machine.run (g, rs) evs).2 ≠ [] := by
    have : ∀ (evs : List Ev) (s : G × List Req), (machine.run s evs).2.length = s.2.length := by
      intro evs; induction evs with
      | nil => intro s; rfl
      | cons e evs ih => intro s; rw [Machine.run_cons, ih, Machine.length_exec]
    intro h
    have := this evs (g, rs)
    rw [h] at this
    cases rs with
    | nil => exact hne rfl
    | cons a l => simp at this
  obtain ⟨r0, hr0⟩ := List.exists_mem_of_ne_nil _ hlen
  have hk := (hall r0 hr0).2.2 (hdone r0 hr0)
  rw [hk] at hcnt
  have hiff : ∀ r ∈ (machine.run (g, rs) evs).2, (r.out == Out.ok) = r.stored := by
    intro r hr
    obtain ⟨_, ⟨a, b', c, d, e, f⟩, _⟩ := hall r hr
    have hnp := hdone r hr
    rcases f with f | f | f
    · exact absurd f hnp
    · simp [f, d f]
    · simp [f, e f]
  refine ⟨?_, ?_⟩
  · rw [List.countP_congr (fun r hr => by rw [hiff r hr])]; simpa using hcnt
  · intro r hr
    obtain ⟨_, ⟨_, _, _, _, _, f⟩, _⟩ := hall r hr
    rcases f with f | f | f
    · exact absurd f (hdone r hr)
    · exact .inl f
    · exact .inr f

/-! ## 4b. serial canonicalisation (`RevokeRequest.Validate`) -/

theorem digitVal_digit (d : Nat) (h : d < 10) : digitVal (48 + d) = some d := by
  unfold digitVal
  have h1 : 48 ≤ 48 + d ∧ 48 + d ≤ 57 := by omega
  simp [h1]

theorem scanDigits_append (b : Nat) (xs ys : Str) (v c : Nat) (p i : Bool) :
    scanDigits b (xs ++ ys) v c p i =
      match scanDigits b xs v c p i with
      | none => none
      | some (v', c', p', i') => scanDigits b ys v' c' p' i' := by
  induction xs generalizing v c p i with
  | nil => simp [scanDigits]
  | cons x xs ih =>
    simp only [List.cons_append, scanDigits]
    split
    · exact ih ..
    · split
      · split
        · exact ih ..
        · rfl
      · rfl

/-- scanning the decimal digits of `m` from a clean state yields `m` -/
theorem scan_dec (f : Nat) : ∀ m, m < 10 ^ (f + 1) → ∀ p i,
    ∃ c, 1 ≤ c ∧ scanDigits 10 (decDigitsF (f + 1) m) 0 0 p i = some (m, c, true, i) := by
  induction f with
  | zero =>
    intro m hm p i
    have hm : m < 10 := by simpa using hm
    refine ⟨1, Nat.le_refl _, ?_⟩
    simp [decDigitsF, hm, scanDigits, digitVal_digit m hm]
    omega
  | succ f ih =>
    intro m hm p i
    by_cases h10 : m < 10
    · refine ⟨1, Nat.le_refl _, ?_⟩
      simp [decDigitsF, h10, scanDigits, digitVal_digit m h10]
      omega
    · have hdiv : m / 10 < 10 ^ (f + 1) := by
        apply Nat.div_lt_of_lt_mul
        rw [Nat.pow_succ] at hm; omega
      obtain ⟨c, hc, hs⟩ := ih (m / 10) hdiv p i
      refine ⟨c + 1, by omega, ?_⟩
      have hd : decDigitsF (f + 1 + 1) m = decDigitsF (f + 1) (m / 10) ++ [48 + m % 10] := by
        rw [decDigitsF]; simp [h10]
      rw [hd, scanDigits_append, hs]
      have hmod : m % 10 < 10 := Nat.mod_lt _ (by omega)
      simp [scanDigits, digitVal_digit _ hmod, hmod]
      have h95 : ¬ (48 + m % 10 = 95) := by omega
      simp [h95]
      omega

theorem lt_pow_succ (n : Nat) : n < 10 ^ (n + 1) := by
  have : n + 1 < 10 ^ (n + 1) := Nat.lt_pow_self (by omega)
  omega

/-- the first decimal digit of a positive number is not `0`, and it is a digit -/
theorem dec_head (f : Nat) : ∀ m, 1 ≤ m → m < 10 ^ (f + 1) →
    ∃ d rest, decDigitsF (f + 1) m = d :: rest ∧ 49 ≤ d ∧ d ≤ 57 := by
  induction f with
  | zero =>
    intro m h1 hm
    have hm : m < 10 := by simpa using hm
    exact ⟨48 + m, [], by simp [decDigitsF, hm], by omega, by omega⟩
  | succ f ih =>
    intro m h1 hm
    by_cases h10 : m < 10
    · exact ⟨48 + m, [], by simp [decDigitsF, h10], by omega, by omega⟩
    · have hdiv : m / 10 < 10 ^ (f + 1) := by
        apply Nat.div_lt_of_lt_mul
        rw [Nat.pow_succ] at hm; omega
      obtain ⟨d, rest, hd, h49, h57⟩ := ih (m / 10) (by omega) hdiv
      refine ⟨d, rest ++ [48 + m % 10], ?_, h49, h57⟩
      rw [decDigitsF]; simp [h10, hd]

theorem scanNat_dec (n : Nat) : scanNat (decDigits n) = some n := by
  by_cases h0 : n = 0
  · subst h0; rfl
  · obtain ⟨d, rest, hd, h49, h57⟩ := dec_head n n (by omega) (lt_pow_succ n)
    obtain ⟨c, hc, hs⟩ := scan_dec n n (lt_pow_succ n) false false
    unfold decDigits
    unfold scanNat
    rw [hd] at hs ⊢
    split
    · rename_i heq; simp at heq; omega
    · rename_i heq; simp at heq; omega
    · rw [hs]; simp; omega

theorem parse_print (v : Bool × Nat) :
    parseSerial (printSerial v) = some (v.1 && v.2 != 0, v.2) := by
  unfold printSerial
  by_cases hneg : v.1 = true ∧ v.2 ≠ 0
  · simp only [hneg]
    simp [parseSerial, scanNat_dec, hneg.2]
  · simp only [hneg, if_false]
    have hb : (v.1 && v.2 != 0) = false := by
      cases h1 : v.1 <;> simp_all
    rw [hb]
    by_cases h0 : v.2 = 0
    · rw [h0]; rfl
    · obtain ⟨d, rest, hd, h49, h57⟩ := dec_head v.2 v.2 (by omega) (lt_pow_succ v.2)
      have := scanNat_dec v.2
      unfold decDigits at this ⊢
      rw [hd] at this ⊢
      unfold parseSerial
      split
      · rename_i heq; simp at heq; omega
      · rename_i heq; simp at heq; omega
      · rw [this]; rfl

theorem decDigitsF_ne_nil (f m : Nat) : decDigitsF (f + 1) m ≠ [] := by
  rw [decDigitsF]; split <;> simp

/-- **serial_canonical (idempotence).** What `Validate` produces is a fixed point of `Validate`:
    the stored key is canonical, so every spelling of one value is mapped to one key and that key
    maps to itself. -/
theorem serial_canonical (t c : Str) (h : canonSerial t = some c) : canonSerial c = some c := by
  unfold canonSerial at h
  split at h
  · cases h
  · cases hp : parseSerial t with
    | none => rw [hp] at h; cases h
    | some v =>
      rw [hp] at h; simp at h; subst h
      unfold canonSerial
      have hne : printSerial v ≠ [] := by
        unfold printSerial decDigits; split
        · simp
        · exact decDigitsF_ne_nil _ _
      simp only [hne, if_false]
      rw [parse_print]
      simp [printSerial]

/-- the key depends only on the parsed value: two spellings of one number share their key -/
theorem serial_same_value (a b : Str) (v : Bool × Nat) (ha : parseSerial a = some v) (hb : parseSerial b = some v)
    (hna : a ≠ []) (hnb : b ≠ []) : canonSerial a = canonSerial b ∧ canonSerial a = some (printSerial v) := by
  unfold canonSerial; simp [ha, hb, hna, hnb]

/-! ## 4c. the SSH route's canonicalisation (since c1e180f) and the full-strength blocking theorem -/

theorem uintDigits_append (xs ys : Str) (v : Nat) :
    uintDigits (xs ++ ys) v = match uintDigits xs v with | none => none | some v' => uintDigits ys v' := by
  induction xs generalizing v with
  | nil => simp [uintDigits]
  | cons x xs ih =>
    simp only [List.cons_append, uintDigits]
    split
    · exact ih _
    · rfl

theorem uint_dec (f : Nat) : ∀ m, m < 10 ^ (f + 1) → uintDigits (decDigitsF (f + 1) m) 0 = some m := by
  induction f with
  | zero =>
    intro m hm
    have hm : m < 10 := by simpa using hm
    have : 48 ≤ 48 + m ∧ 48 + m ≤ 57 := by omega
    simp [decDigitsF, hm, uintDigits, this]
  | succ f ih =>
    intro m hm
    by_cases h10 : m < 10
    · have : 48 ≤ 48 + m ∧ 48 + m ≤ 57 := by omega
      simp [decDigitsF, h10, uintDigits, this]
    · have hdiv : m / 10 < 10 ^ (f + 1) := by
        apply Nat.div_lt_of_lt_mul
        rw [Nat.pow_succ] at hm; omega
      have hd : decDigitsF (f + 1 + 1) m = decDigitsF (f + 1) (m / 10) ++ [48 + m % 10] := by
        rw [decDigitsF]; simp [h10]
      rw [hd, uintDigits_append, ih _ hdiv]
      have hmod : m % 10 < 10 := Nat.mod_lt _ (by omega)
      have : 48 ≤ 48 + m % 10 ∧ 48 + m % 10 ≤ 57 := by omega
      simp [uintDigits, this]
      omega

theorem parseUint10_dec (n : Nat) (h : n < 2 ^ 64) : parseUint10 (decDigits n) = some n := by
  unfold parseUint10 decDigits
  have hne := decDigitsF_ne_nil n n
  simp only [hne, if_false]
  rw [uint_dec n n (lt_pow_succ n)]
  simp [h]

theorem parseUint10_lt (t : Str) (n : Nat) (h : parseUint10 t = some n) : n < 2 ^ 64 := by
  unfold parseUint10 at h
  split at h
  · cases h
  · split at h
    · split at h
      · cases h; assumption
      · cases h
    · cases h

/-- **ssh_serial_canonical.** What `SSHRevokeRequest.Validate` (since c1e180f) produces is a fixed
    point of it: the stored SSH key is the canonical decimal form. -/
theorem ssh_serial_canonical (t c : Str) (h : canonSSHSerial t = some c) : canonSSHSerial c = some c := by
  unfold canonSSHSerial at h ⊢
  cases hp : parseUint10 t with
  | none => rw [hp] at h; cases h
  | some v =>
    rw [hp] at h; simp at h; subst h
    rw [parseUint10_dec v (parseUint10_lt t v hp)]; rfl

/-- **wire_key_of_value.** On both routes the key a revocation is stored under depends only on the
    number its serial string denotes, and it is exactly the key a renewal of the certificate with
    that serial number looks up — whatever spelling the request used ("016", "0x10" on the X.509
    route; "016", "0016" on the SSH route, which accepts decimal only). -/
theorem wire_key_of_value (ssh : Bool) (raw : Str) (n : Nat) (h : wireValue ssh raw = some n) :
    wireKey ssh raw = some (certKey n) := by
  unfold wireValue at h
  unfold wireKey certKey
  cases ssh with
  | true => simp at h ⊢; unfold canonSSHSerial; rw [h]; rfl
  | false =>
    simp at h ⊢
    obtain ⟨hne, h⟩ := h
    unfold canonSerial
    simp only [hne, if_false]
    cases hp : parseSerial raw with
    | none => rw [hp] at h; simp at h
    | some v =>
      rw [hp] at h
      obtain ⟨neg, m⟩ := v
      cases neg with
      | false => simp at h; subst h; simp [printSerial]
      | true =>
        cases m with
        | zero => simp at h; subst h; simp [printSerial]
        | succ k => simp at h

/-- **revoked_blocks_full.** Full strength, all routes, no hypothesis on strings: a revocation
    request whose serial string `raw` (any spelling its route accepts) denotes the number `n` has
    been acknowledged after `evs1`; request `j` is a renewal or rekey (mTLS, renew token, SSH
    proof of possession) of the certificate of the same kind with serial number `n` that has not
    started by then.  After every continuation — interleavings, restarts, faults — `j` is not
    allowed. -/
theorem revoked_blocks_full (g : G) (rs : List Req) (hfresh : ∀ r ∈ rs, r.fresh) (evs1 evs2 : List Ev)
    (ri rj : Req) (j : Nat) (raw : Str) (n : Nat)
    (hri : ri ∈ (machine.run (g, rs) evs1).2) (hok : ri.out = .ok)
    (hwire : wireKey ri.inp.kind.isSSH raw = some ri.inp.key)
    (hval : wireValue ri.inp.kind.isSSH raw = some n)
    (hrj : (machine.run (g, rs) evs1).2[j]? = some rj) (hjfresh : rj.fresh)
    (hjk : rj.inp.kind.isRevoke = false) (hssh : rj.inp.kind.isSSH = ri.inp.kind.isSSH)
    (hcert : rj.inp.key = certKey n) :
    ∃ rj', (machine.run (g, rs) (evs1 ++ evs2)).2[j]? = some rj' ∧ rj'.out ≠ .allowed := by
  have := wire_key_of_value _ raw n hval
  rw [hwire] at this
  exact revoked_blocks g rs hfresh evs1 evs2 ri rj j hri hok hrj hjfresh hjk hssh
    (by rw [hcert]; exact (Option.some.inj this).symm)

example : wireKey true (Verif.s "016") = some (certKey 16) ∧ wireKey true (Verif.s "0x10") = none ∧
    wireKey true (Verif.s "+16") = none ∧ wireKey true (Verif.s "1_6") = none ∧
    wireKey true (Verif.s "18446744073709551616") = none ∧
    wireKey true (Verif.s "18446744073709551615") = some (certKey 18446744073709551615) ∧
    wireKey false (Verif.s "0x10") = some (certKey 16) ∧ canonSSHSerialOld (Verif.s "016") = some (Verif.s "016") := by decide
/-! ## 4d. the ACME revoke-cert handler -/

/-- **acme_reason_codes.** The reason codes the handler accepts are exactly: none, 0-6, 8, 9, 10. -/
theorem acme_reason_codes (r : Option Int) :
    acmeReasonOK r = true ↔ r = none ∨ ∃ n, r = some n ∧ 0 ≤ n ∧ n ≤ 10 ∧ n ≠ 7 := by
  cases r with
  | none => simp [acmeReasonOK]
  | some n => simp [acmeReasonOK, and_assoc]

/-- **acme_revoke_exact.** One ACME revoke-cert request, from any state of the tables:
    * signed by another account or by a key that is not the certificate's: refused (403), tables untouched;
    * otherwise, serial already revoked: `alreadyRevoked`, tables untouched (whatever the reason code);
    * otherwise, reason code out of range: `badRevocationReason`, tables untouched;
    * otherwise acknowledged, and the serial is in the X.509 table afterwards with every earlier record unchanged.
    Hence only the owning account or a holder of the certificate's key can change the table, and an acknowledged
    ACME revocation is stored (so `revoked_blocks_full` applies to it). -/
theorem acme_revoke_exact (g : G) (key : Str) (tag : Nat) (signer : AcmeSigner) (reason : Option Int) :
    (signer.authorized = false → acmeRevoke g key tag signer reason = (g, .unauthorized)) ∧
    (signer.authorized = true → has g.x509 key = true → acmeRevoke g key tag signer reason = (g, .already)) ∧
    (signer.authorized = true → has g.x509 key = false → acmeReasonOK reason = false →
      acmeRevoke g key tag signer reason = (g, .badReason)) ∧
    (signer.authorized = true → has g.x509 key = false → acmeReasonOK reason = true →
      (acmeRevoke g key tag signer reason).2 = .ok ∧ has (acmeRevoke g key tag signer reason).1.x509 key = true ∧
      (acmeRevoke g key tag signer reason).1.ssh = g.ssh ∧
      ∀ k v, get g.x509 k = some v → get (acmeRevoke g key tag signer reason).1.x509 k = some v) := by
  refine ⟨?_, ?_, ?_, ?_⟩
  · intro h; simp [acmeRevoke, h]
  · intro h1 h2; simp [acmeRevoke, h1, h2]
  · intro h1 h2 h3; simp [acmeRevoke, h1, h2, h3]
  · intro h1 h2 h3
    have hn : get g.x509 key = none := by
      unfold has at h2; cases hg : get g.x509 key <;> simp [hg] at h2 ⊢
    have hsw : (casNil g.x509 key tag).2 = true := (casNil_swapped _ _ _).2 hn
    simp [acmeRevoke, h1, h2, h3, Machine.run, Machine.exec, machine, step, stepRevoke, Kind.isRevoke, Kind.isSSH,
      G.table, G.setTable, hsw]
    refine ⟨has_casNil_same _ _ _, fun k v hv => casNil_mono _ _ _ _ _ hv⟩

example : (acmeRevoke { x509 := [], ssh := [] } (Verif.s "16") 0 .otherAccount (some 1)).2 = .unauthorized ∧
    (acmeRevoke { x509 := [], ssh := [] } (Verif.s "16") 0 .certKey (some 7)).2 = .badReason ∧
    (acmeRevoke { x509 := [], ssh := [] } (Verif.s "16") 0 .certKey (some 1)).2 = .ok ∧
    (acmeRevoke (acmeRevoke { x509 := [], ssh := [] } (Verif.s "16") 0 .owner none).1 (Verif.s "16") 1 .certKey (some 7)).2 = .already := by decide
/-! ## 5. historic: the SSH route before c1e180f did not canonicalise (D13, fixed) -/

def mk (kind : Kind) (key : String) (tag : Nat) : Req :=
  { inp := { kind := kind, key := Verif.s key, tag := tag, fault := .none, crlFails := false, otherOK := true } }

/-- **D13 (historic refutation, about `canonSSHSerialOld`).** Before c1e180f `/1.0/ssh/revoke`
    stored the record under the serial string *as sent*: a revocation sent as `"016"` was stored
    under `"016"`, acknowledged, and the renewal of the certificate with serial 16 — whose gate
    looks up `"16"` — was allowed.  With the current `canonSSHSerial` the same request is stored
    under `"16"` and `revoked_blocks_full` applies. -/
theorem ssh_revoke_unnormalised :
    ∃ (rs : List Req) (evs : List Ev), (∀ r ∈ rs, r.fresh) ∧
      (machine.run ({ x509 := [], ssh := [] }, rs) evs).2.map (·.out) = [.ok, .allowed] ∧
      rs.map (·.inp.kind) = [.revokeSSH, .renewSSH] ∧
      rs.map (·.inp.key) = [Verif.s "016", Verif.s "16"] ∧
      canonSSHSerialOld (Verif.s "016") = some (Verif.s "016") ∧ certKey 16 = Verif.s "16" ∧
      canonSSHSerial (Verif.s "016") = some (Verif.s "16") :=
  ⟨[mk .revokeSSH "016" 0, mk .renewSSH "16" 1],
   [.step 0, .step 0, .step 0, .step 1, .step 1, .step 1], by decide⟩

/-- on the X.509 route the two spellings are the same key: `Validate` maps both to `"16"` -/
example : canonSerial (Verif.s "0x10") = some (Verif.s "16") ∧ canonSerial (Verif.s "16") = some (Verif.s "16")
    ∧ canonSerial (Verif.s "020") = some (Verif.s "16") ∧ canonSerial (Verif.s "0b1_0000") = some (Verif.s "16") := by decide

/-! ## non-vacuity -/

example : (machine.run ({ x509 := [], ssh := [] },
    [mk (.revokeX false) "16" 0, mk .renewX "16" 1, mk (.revokeX false) "16" 2, mk .renewX "16" 3])
    [.step 1, .step 1, .step 0, .step 2, .step 0, .step 2, .step 0, .step 1, .restart 0, .step 3, .step 3, .step 3, .step 2]).2.map (·.out)
    = [.ok, .allowed, .already, .refusedRevoked] := by decide

end Verif.Rev
