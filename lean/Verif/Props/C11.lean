import Verif.Model.AcmeChallenge
/-!
  C11 — ACME challenges turn valid only on proof of control bound to the account key.

  Property theorems only.  All statements are about `Verif.AcmeChallenge` (the model of
  /repo/acme/challenge.go and api.challengeTypes, tied to the code by the C11 correspondence
  check).  SHA-256, the JWK thumbprint, signature and chain verification are oracles / input
  fields: every theorem holds for *every* such oracle.
-/
namespace Verif.AcmeChallenge
open Verif Verif.Str

/-! ## 0. bookkeeping lemmas about `store` -/

theorem store_status (dbOk : Bool) (ch : Ch) (st : Status) (e : ErrT) (t : Target) :
    (store dbOk ch st e t).status = if dbOk then st else ch.status := by
  unfold store; cases dbOk <;> simp

theorem storeError_status (dbOk : Bool) (ch : Ch) (m : Bool) (e : ErrT) (t : Target) :
    (storeError dbOk ch m e t).status = if dbOk ∧ m then .invalid else ch.status := by
  unfold storeError store; cases dbOk <;> cases m <;> simp

theorem storeError_not_valid (dbOk : Bool) (ch : Ch) (m : Bool) (e : ErrT) (t : Target)
    (hp : ch.status = .pending) : (storeError dbOk ch m e t).status ≠ .valid := by
  rw [storeError_status]; split <;> simp [hp]

theorem storeError_pending_or_invalid (dbOk : Bool) (ch : Ch) (m : Bool) (e : ErrT) (t : Target)
    (hp : ch.status = .pending) :
    (storeError dbOk ch m e t).status = .pending ∨ (storeError dbOk ch m e t).status = .invalid := by
  rw [storeError_status]; split <;> simp [hp]

theorem noWrite_not_valid (ch : Ch) (t : Target) (hp : ch.status = .pending) :
    (noWrite ch t).status ≠ .valid := by simp [noWrite, hp]

theorem store_valid_iff (dbOk : Bool) (ch : Ch) (e : ErrT) (t : Target) (hp : ch.status = .pending) :
    (store dbOk ch .valid e t).status = .valid ↔ dbOk = true := by
  rw [store_status]; cases dbOk <;> simp [hp]

/-! ## 1. the key authorization binds token and account key -/

/-- Two key authorizations built from tokens without a dot (tokens are 32 alphanumeric
    characters) are equal only if token *and* thumbprint are equal. -/
theorem keyAuth_inj (t₁ t₂ th₁ th₂ : Str) (h₁ : 46 ∉ t₁) (h₂ : 46 ∉ t₂) :
    keyAuth t₁ th₁ = keyAuth t₂ th₂ → t₁ = t₂ ∧ th₁ = th₂ := by
  unfold keyAuth
  induction t₁ generalizing t₂ with
  | nil =>
    cases t₂ with
    | nil => intro h; simpa using h
    | cons b bs =>
      intro h
      simp at h
      exact absurd (by rw [h.1]; exact List.mem_cons_self) h₂
  | cons a as ih =>
    cases t₂ with
    | nil =>
      intro h
      simp at h
      exact absurd (by rw [← h.1]; exact List.mem_cons_self) h₁
    | cons b bs =>
      intro h
      simp at h
      have := ih bs (fun hm => h₁ (List.mem_cons_of_mem _ hm)) (fun hm => h₂ (List.mem_cons_of_mem _ hm))
        (by simpa using h.2)
      exact ⟨by rw [h.1, this.1], this.2⟩

example : keyAuth (s "tok") (s "thumb") = s "tok.thumb" := by decide

/-! ## 2. http-01 -/

/-- the accepting condition of http-01 -/
def HttpAccept (ch : Ch) (r : HttpResp) : Prop :=
  ∃ status body th, r = .resp status (some body) ∧ status < 400 ∧ ch.thumb = some th ∧
    goTrimSpace body = keyAuth ch.token th

/-- **http-01 turns valid exactly when** the GET succeeded with a status below 400, the body could
    be read and, with leading/trailing white space removed, *equals* token "." thumbprint of the
    requesting account's key (and the database took the write) — for every response. -/
theorem http01_valid_only_if (cfg : Cfg) (dbOk : Bool) (ch : Ch) (r : HttpResp)
    (hp : ch.status = .pending) :
    (http01Validate cfg dbOk ch r).status = .valid ↔ dbOk = true ∧ HttpAccept ch r := by
  unfold http01Validate HttpAccept
  cases r with
  | err => simp [storeError_not_valid _ _ _ _ _ hp]
  | resp status body =>
    by_cases hs : status ≥ 400
    · simp only [hs, if_true]
      constructor
      · intro h; exact absurd h (storeError_not_valid _ _ _ _ _ hp)
      · rintro ⟨_, st, b, th, h, hlt, _⟩
        cases h; omega
    · simp only [hs, if_false]
      cases body with
      | none => simp [noWrite_not_valid _ _ hp]
      | some b =>
        cases hth : ch.thumb with
        | none => simp [noWrite_not_valid _ _ hp]
        | some th =>
          by_cases hk : goTrimSpace b = keyAuth ch.token th
          · simp only [hk, ne_eq, not_true_eq_false, if_false]
            rw [store_valid_iff _ _ _ _ hp]
            constructor
            · intro h; exact ⟨h, status, b, th, rfl, by omega, rfl, hk⟩
            · exact fun h => h.1
          · simp only [ne_eq, hk, not_false_eq_true, if_true]
            constructor
            · intro h; exact absurd h (storeError_not_valid _ _ _ _ _ hp)
            · rintro ⟨_, st, b', th', h, _, h2, h3⟩
              cases h; cases h2; exact absurd h3 hk

example : (http01Validate ⟨false, 0, 0⟩ true
    ⟨.http01, .pending, .none, s "example.com", s "tok", some (s "thumb"), none⟩
    (.resp 200 (some (s " tok.thumb\r\n")))).status = .valid := by decide

/-- every other http response leaves the challenge pending or makes it invalid -/
theorem http01_never_valid_otherwise (cfg : Cfg) (dbOk : Bool) (ch : Ch) (r : HttpResp)
    (hp : ch.status = .pending) (hn : ¬ HttpAccept ch r) :
    (http01Validate cfg dbOk ch r).status = .pending ∨ (http01Validate cfg dbOk ch r).status = .invalid := by
  have hv : (http01Validate cfg dbOk ch r).status ≠ .valid :=
    fun h => hn ((http01_valid_only_if cfg dbOk ch r hp).1 h).2
  revert hv
  unfold http01Validate
  cases r with
  | err => intro _; exact storeError_pending_or_invalid _ _ _ _ _ hp
  | resp status body =>
    by_cases hs : status ≥ 400
    · simp only [hs, if_true]; intro _; exact storeError_pending_or_invalid _ _ _ _ _ hp
    · simp only [hs, if_false]
      cases body with
      | none => intro _; left; simp [noWrite, hp]
      | some b =>
        cases hth : ch.thumb with
        | none => intro _; left; simp [noWrite, hp]
        | some th =>
          by_cases hk : goTrimSpace b = keyAuth ch.token th
          · simp only [hk, ne_eq, not_true_eq_false, if_false]
            rw [store_status]; cases dbOk <;> simp [hp]
          · simp only [ne_eq, hk, not_false_eq_true, if_true]
            intro _; exact storeError_pending_or_invalid _ _ _ _ _ hp

/-- a transport error or an error status keeps the challenge pending (retryable) -/
theorem http01_error_pending (cfg : Cfg) (dbOk : Bool) (ch : Ch) (r : HttpResp)
    (hp : ch.status = .pending)
    (hr : r = .err ∨ ∃ st b, r = .resp st b ∧ st ≥ 400) :
    (http01Validate cfg dbOk ch r).status = .pending := by
  unfold http01Validate
  rcases hr with rfl | ⟨st, b, rfl, hs⟩
  · simp [storeError_status, hp]
  · simp [hs, storeError_status, hp]

/-- the key authorization of another account (other thumbprint) or of another challenge (other
    token) is never accepted, whatever white space surrounds it -/
theorem http01_other_binding_rejected (cfg : Cfg) (dbOk : Bool) (ch : Ch) (st : Int) (body tok' th th' : Str)
    (hp : ch.status = .pending) (hth : ch.thumb = some th)
    (hd : 46 ∉ ch.token) (hd' : 46 ∉ tok')
    (hb : goTrimSpace body = keyAuth tok' th') (hne : tok' ≠ ch.token ∨ th' ≠ th) :
    (http01Validate cfg dbOk ch (.resp st (some body))).status ≠ .valid := by
  intro h
  obtain ⟨_, st', b', th'', hr, _, h2, h3⟩ := (http01_valid_only_if cfg dbOk ch _ hp).1 h
  cases hr
  rw [hth] at h2; cases h2
  rw [hb] at h3
  have := keyAuth_inj _ _ _ _ hd' hd h3
  rcases hne with h | h
  · exact h this.1
  · exact h this.2


/-- **http-01 through the real validation client**: the challenge turns valid exactly when the host
    could be reached, answered within ten redirects with a status below 400, and the *entire* body it
    sent is white space ++ token "." thumbprint ++ white space — a body that only *starts* with the
    key authorization (followed by padding and foreign content) is never accepted. -/
theorem http01_real_client_valid_only_if (cfg : Cfg) (dbOk : Bool) (ch : Ch) (refused : Bool) (redirects : Nat)
    (status : Int) (body : Str) (hp : ch.status = .pending) :
    (http01Validate cfg dbOk ch (clientGet refused redirects status body)).status = .valid ↔
      dbOk = true ∧ refused = false ∧ redirects < 10 ∧ status < 400 ∧
        ∃ th, ch.thumb = some th ∧ goTrimSpace body = keyAuth ch.token th := by
  rw [http01_valid_only_if cfg dbOk ch _ hp]
  unfold clientGet HttpAccept
  cases refused
  · by_cases hr : redirects ≥ 10
    · simp only [Bool.false_eq_true, if_false, hr, if_true]
      constructor
      · rintro ⟨_, st, b, th, h, _⟩; cases h
      · rintro ⟨_, _, h, _⟩; omega
    · simp only [Bool.false_eq_true, if_false, hr]
      constructor
      · rintro ⟨hd, st, b, th, h, hs, ht, hb⟩
        cases h
        exact ⟨hd, by simp, by omega, hs, th, ht, hb⟩
      · rintro ⟨hd, _, _, hs, th, ht, hb⟩
        exact ⟨hd, status, body, th, rfl, hs, ht, hb⟩
  · simp only [if_true]
    constructor
    · rintro ⟨_, st, b, th, h, _⟩; cases h
    · rintro ⟨_, h, _⟩; cases h

example : (http01Validate ⟨false, 0, 0⟩ true
    ⟨.http01, .pending, .none, s "127.0.0.1", s "tok", some (s "thumb"), none⟩
    (clientGet false 2 200 (s "tok.thumb   <html>anything</html>"))).status = .invalid := by decide

/-! ### what `TrimSpace` removes: only white-space runes at the two ends -/

/-- a concatenation of UTF-8 encoded white-space runes -/
inductive Spaces : Str → Prop where
  | nil : Spaces []
  | cons (q rest : Str) : q ∈ spaceSeqs → Spaces rest → Spaces (q ++ rest)

theorem Spaces.append {a b : Str} (ha : Spaces a) (hb : Spaces b) : Spaces (a ++ b) := by
  induction ha with
  | nil => simpa
  | cons q rest hq _ ih => rw [List.append_assoc]; exact .cons q _ hq ih

theorem spaceLenFront_pos (a : Str) (n : Nat) (h : spaceLenFront a = n + 1) :
    ∃ q ∈ spaceSeqs, a = q ++ a.drop (n + 1) := by
  unfold spaceLenFront at h
  cases hf : spaceSeqs.find? (fun q => q.isPrefixOf a) with
  | none => simp [hf] at h
  | some q =>
    simp [hf] at h
    have hm := List.mem_of_find?_eq_some hf
    have hp := List.find?_some hf
    simp at hp
    obtain ⟨t, ht⟩ := hp
    refine ⟨q, hm, ?_⟩
    rw [← h, ← ht]; simp

theorem trimLeft_decomp (fuel : Nat) (a : Str) :
    ∃ l, a = l ++ trimLeftSpace fuel a ∧ Spaces l := by
  induction fuel generalizing a with
  | zero => exact ⟨[], by simp [trimLeftSpace], .nil⟩
  | succ k ih =>
    unfold trimLeftSpace
    cases hn : spaceLenFront a with
    | zero => exact ⟨[], by simp, .nil⟩
    | succ n =>
      obtain ⟨q, hq, ha⟩ := spaceLenFront_pos a n hn
      obtain ⟨l, hl, hs⟩ := ih (a.drop (n + 1))
      refine ⟨q ++ l, ?_, (Spaces.cons q [] hq .nil).append (by simpa using hs) |> fun h => by simpa using h⟩
      simp only [List.append_assoc]
      rw [← hl]; exact ha

/-- reversed white-space runs (the right trim works on the reversed string) -/
inductive SpacesRev : Str → Prop where
  | nil : SpacesRev []
  | cons (q rest : Str) : q ∈ spaceSeqs → SpacesRev rest → SpacesRev (q.reverse ++ rest)

theorem SpacesRev.reverse {a : Str} (h : SpacesRev a) : Spaces a.reverse := by
  induction h with
  | nil => exact .nil
  | cons q rest hq _ ih =>
    rw [List.reverse_append, List.reverse_reverse]
    exact ih.append (by simpa using Spaces.cons q [] hq .nil)

theorem spaceLenBack_pos (a : Str) (n : Nat) (h : spaceLenBack a = n + 1) :
    ∃ q ∈ spaceSeqs, a = q.reverse ++ a.drop (n + 1) := by
  unfold spaceLenBack at h
  cases hf : spaceSeqs.find? (fun q => q.reverse.isPrefixOf a) with
  | none => simp [hf] at h
  | some q =>
    simp [hf] at h
    have hm := List.mem_of_find?_eq_some hf
    have hp := List.find?_some hf
    simp at hp
    obtain ⟨t, ht⟩ := hp
    refine ⟨q, hm, ?_⟩
    rw [← h, ← ht]; simp

theorem trimRight_decomp (fuel : Nat) (a : Str) :
    ∃ l, a = l ++ trimRightSpaceRev fuel a ∧ SpacesRev l := by
  induction fuel generalizing a with
  | zero => exact ⟨[], by simp [trimRightSpaceRev], .nil⟩
  | succ k ih =>
    unfold trimRightSpaceRev
    cases hn : spaceLenBack a with
    | zero => exact ⟨[], by simp, .nil⟩
    | succ n =>
      obtain ⟨q, hq, ha⟩ := spaceLenBack_pos a n hn
      obtain ⟨l, hl, hs⟩ := ih (a.drop (n + 1))
      refine ⟨q.reverse ++ l, ?_, .cons q l hq hs⟩
      simp only [List.append_assoc]
      rw [← hl]; exact ha

/-- **`TrimSpace` only strips white space**: the body is the trimmed text with white-space runes
    before and after it — nothing else is ever removed, so an accepted http-01 body is the key
    authorization itself, padded by white space only. -/
theorem goTrimSpace_decomp (a : Str) :
    ∃ l r, a = l ++ goTrimSpace a ++ r ∧ Spaces l ∧ Spaces r := by
  unfold goTrimSpace
  obtain ⟨l, hl, hls⟩ := trimLeft_decomp a.length a
  obtain ⟨r, hr, hrs⟩ := trimRight_decomp (trimLeftSpace a.length a).length (trimLeftSpace a.length a).reverse
  refine ⟨l, r.reverse, ?_, hls, hrs.reverse⟩
  have h2 : trimLeftSpace a.length a =
      (trimRightSpaceRev (trimLeftSpace a.length a).length (trimLeftSpace a.length a).reverse).reverse ++ r.reverse := by
    have := congrArg List.reverse hr
    simpa using this
  calc a = l ++ trimLeftSpace a.length a := hl
    _ = l ++ ((trimRightSpaceRev (trimLeftSpace a.length a).length (trimLeftSpace a.length a).reverse).reverse ++ r.reverse) := by rw [← h2]
    _ = _ := by simp

/-- accepted http-01 bodies, spelled out -/
theorem http01_accepted_body_shape (cfg : Cfg) (dbOk : Bool) (ch : Ch) (st : Int) (body : Str)
    (hp : ch.status = .pending)
    (hv : (http01Validate cfg dbOk ch (.resp st (some body))).status = .valid) :
    ∃ th l r, ch.thumb = some th ∧ body = l ++ keyAuth ch.token th ++ r ∧ Spaces l ∧ Spaces r := by
  obtain ⟨_, st', b', th, hr, _, h2, h3⟩ := (http01_valid_only_if cfg dbOk ch _ hp).1 hv
  cases hr
  obtain ⟨l, r, h, hl, hr⟩ := goTrimSpace_decomp body
  exact ⟨th, l, r, h2, by rw [← h3]; exact h, hl, hr⟩

/-! ## 3. dns-01 -/

def DnsAccept (h : Hash) (ch : Ch) (r : TxtResp) : Prop :=
  ∃ recs th, r = some recs ∧ ch.thumb = some th ∧ h.b64 (keyAuth ch.token th) ∈ recs

/-- **dns-01 turns valid exactly when** the lookup succeeded and one TXT record *equals*
    base64url(SHA-256(token "." thumbprint)) — for every record set and every lookup failure. -/
theorem dns01_valid_only_if (h : Hash) (cfg : Cfg) (dbOk : Bool) (ch : Ch) (r : TxtResp)
    (hp : ch.status = .pending) :
    (dns01Validate h cfg dbOk ch r).status = .valid ↔ dbOk = true ∧ DnsAccept h ch r := by
  unfold dns01Validate DnsAccept
  cases r with
  | none => simp [storeError_not_valid _ _ _ _ _ hp]
  | some recs =>
    cases hth : ch.thumb with
    | none => simp [noWrite_not_valid _ _ hp]
    | some th =>
      by_cases hc : recs.contains (h.b64 (keyAuth ch.token th)) = true
      · simp only [hc, if_true]
        rw [store_valid_iff _ _ _ _ hp]
        constructor
        · intro hd; exact ⟨hd, recs, th, rfl, rfl, by simpa using hc⟩
        · exact fun x => x.1
      · simp only [hc]
        constructor
        · intro hv; exact absurd hv (storeError_not_valid _ _ _ _ _ hp)
        · rintro ⟨_, recs', th', h1, h2, h3⟩
          cases h1; cases h2
          exact absurd (by simpa using h3) hc

/-- every failure of dns-01 is retryable: the challenge stays pending (never invalid) -/
theorem dns01_never_valid_otherwise (h : Hash) (cfg : Cfg) (dbOk : Bool) (ch : Ch) (r : TxtResp)
    (hp : ch.status = .pending) (hn : ¬ DnsAccept h ch r) :
    (dns01Validate h cfg dbOk ch r).status = .pending := by
  have hv : (dns01Validate h cfg dbOk ch r).status ≠ .valid :=
    fun x => hn ((dns01_valid_only_if h cfg dbOk ch r hp).1 x).2
  revert hv
  unfold dns01Validate
  cases r with
  | none => intro _; simp [storeError_status, hp]
  | some recs =>
    cases hth : ch.thumb with
    | none => intro _; simp [noWrite, hp]
    | some th =>
      by_cases hc : recs.contains (h.b64 (keyAuth ch.token th)) = true
      · simp only [hc, if_true]; rw [store_status]; cases dbOk <;> simp [hp]
      · simp only [hc]; intro _; simp [storeError_status, hp]

/-- a record set holding only digests of *other* key authorizations (another account's
    thumbprint, another token) is rejected, provided SHA-256 does not collide on them -/
theorem dns01_other_binding_rejected (h : Hash) (cfg : Cfg) (dbOk : Bool) (ch : Ch) (recs : List Str) (th : Str)
    (hp : ch.status = .pending) (hth : ch.thumb = some th)
    (hne : ∀ x ∈ recs, x ≠ h.b64 (keyAuth ch.token th)) :
    (dns01Validate h cfg dbOk ch (some recs)).status = .pending := by
  apply dns01_never_valid_otherwise h cfg dbOk ch _ hp
  rintro ⟨recs', th', h1, h2, h3⟩
  cases h1; rw [hth] at h2; cases h2
  exact hne _ h3 rfl

example : (dns01Validate ⟨fun x => x, fun x => x ++ [1]⟩ ⟨false, 0, 0⟩ true
    ⟨.dns01, .pending, .none, s "*.example.com", s "tok", some (s "thumb"), none⟩
    (some [s "junk", s "tok.thumb" ++ [1]])).status = .valid := by decide


/-- **dns-01 through the real validation client**: valid exactly when the lookup succeeded and one
    TXT record, *as the name server published it*, equals base64url(SHA-256(token "." thumbprint)) —
    a record that carries the digest inside quotes or white space is not accepted. -/
theorem dns01_real_client_valid_only_if (h : Hash) (cfg : Cfg) (dbOk : Bool) (ch : Ch) (fail : Bool) (records : List Str)
    (hp : ch.status = .pending) :
    (dns01Validate h cfg dbOk ch (clientLookupTxt fail records)).status = .valid ↔
      dbOk = true ∧ fail = false ∧ ∃ th, ch.thumb = some th ∧ h.b64 (keyAuth ch.token th) ∈ records := by
  rw [dns01_valid_only_if h cfg dbOk ch _ hp]
  unfold clientLookupTxt DnsAccept
  cases fail
  · by_cases he : records = []
    · subst he; simp
    · simp only [Bool.false_eq_true, he, or_self, if_false]
      constructor
      · rintro ⟨hd, recs, th, h1, h2, h3⟩; cases h1; exact ⟨hd, by simp, th, h2, h3⟩
      · rintro ⟨hd, _, th, h2, h3⟩; exact ⟨hd, records, th, rfl, h2, h3⟩
  · simp

example : (dns01Validate ⟨fun x => x, fun x => x ++ [1]⟩ ⟨false, 0, 0⟩ true
    ⟨.dns01, .pending, .none, s "example.com", s "tok", some (s "thumb"), none⟩
    (clientLookupTxt false [[34] ++ s "tok.thumb" ++ [1, 34]])).status = .pending := by decide

/-! ## 4. tls-alpn-01 -/

/-- the first extension carrying the acme identifier OID is `e`, and no earlier one does -/
def FirstAcme (exts : List Ext) (e : Ext) : Prop :=
  ∃ pre post, exts = pre ++ e :: post ∧ (∀ x ∈ pre, x.id ≠ .acme) ∧ e.id = .acme

/-- the certificate names exactly the identifier: one DNS name equal to it under `strings.EqualFold`
    (ASCII case, KELVIN SIGN = k, LONG S = s), or no DNS name and exactly one IP address equal to
    `net.ParseIP(identifier)` -/
def LeafNamesIdentifier (ch : Ch) (l : Leaf) : Prop :=
  (l.dns = [] ∧ ∃ a b, l.ips = [a] ∧ ch.ip = some b ∧ ipEqual a b = true) ∨
  (∃ d, l.dns = [d] ∧ equalFoldAscii d ch.value = true)

theorem leafNameOk_iff (ch : Ch) (l : Leaf) : leafNameOk ch l = true ↔ LeafNamesIdentifier ch l := by
  unfold leafNameOk LeafNamesIdentifier
  cases hd : l.dns with
  | nil =>
    simp only [List.length_nil, if_true]
    cases hi : l.ips with
    | nil => simp
    | cons a as =>
      cases as with
      | nil =>
        cases hb : ch.ip with
        | none => simp
        | some b => simp
      | cons a' as' => cases ch.ip <;> simp
  | cons d ds =>
    cases ds with
    | nil => simp
    | cons d' ds' => simp


/-! ### which names `EqualFold` lets through -/

/-- on an ASCII identifier `EqualFold` is ASCII case-insensitive equality, nothing more -/
theorem equalFoldAscii_ascii (d v : Str) (hv : ∀ b ∈ v, b < 128) :
    equalFoldAscii d v = foldEq d v := by
  induction d generalizing v with
  | nil => cases v <;> simp [equalFoldAscii, foldEq]
  | cons c ds ih =>
    cases v with
    | nil => simp [equalFoldAscii, foldEq]
    | cons b vs =>
      have hb : b < 128 := hv b List.mem_cons_self
      have := ih vs (fun x hx => hv x (List.mem_cons_of_mem _ hx))
      unfold equalFoldAscii
      simp only [hb, if_true, this, foldEq, List.map_cons]
      by_cases hc : lo c = lo b <;> simp [hc]

/-- a matching name has at most as many bytes as the identifier, and an empty one matches only
    the empty identifier -/
theorem equalFoldAscii_length (d v : Str) (h : equalFoldAscii d v = true) : d.length ≤ v.length := by
  induction d generalizing v with
  | nil => simp
  | cons c ds ih =>
    cases v with
    | nil => simp [equalFoldAscii] at h
    | cons b vs =>
      unfold equalFoldAscii at h
      by_cases hb : b < 128
      · simp only [hb, if_true, Bool.and_eq_true] at h
        have := ih vs h.2
        simp; omega
      · simp only [hb, if_false] at h
        split at h
        · simp only [Bool.and_eq_true] at h
          have := ih _ h.2
          simp; omega
        · simp only [Bool.and_eq_true] at h
          have := ih _ h.2
          simp; omega
        · cases h

example : equalFoldAscii (s "K.example") [0xE2, 0x84, 0xAA, 46, 101, 120, 97, 109, 112, 108, 101] = true := by decide
example : equalFoldAscii (s "Sub") [0xC5, 0xBF, 117, 66] = true := by decide
example : equalFoldAscii (s "b") [0xC3, 0xBC] = false := by decide

def TlsAccept (h : Hash) (ch : Ch) (r : DialRes) : Prop :=
  ∃ leaf th e, r = .conn (some leaf) acmeTls1 ∧ LeafNamesIdentifier ch leaf ∧ ch.thumb = some th ∧
    FirstAcme leaf.exts e ∧ e.critical = true ∧ e.octets = some (h.raw (keyAuth ch.token th))

theorem extLoop_valid_iff (dbOk : Bool) (ch : Ch) (digest : Str) (t : Target) (exts : List Ext) (obs : Bool)
    (hp : ch.status = .pending) :
    (extLoop dbOk ch digest t exts obs).status = .valid ↔
      dbOk = true ∧ ∃ e, FirstAcme exts e ∧ e.critical = true ∧ e.octets = some digest := by
  induction exts generalizing obs with
  | nil =>
    unfold extLoop
    constructor
    · intro hv; exact absurd hv (storeError_not_valid _ _ _ _ _ hp)
    · rintro ⟨_, e, ⟨pre, post, h, _⟩, _⟩
      cases pre <;> simp at h
  | cons x rest ih =>
    have tailCase : x.id ≠ .acme → ∀ o,
        ((extLoop dbOk ch digest t rest o).status = .valid ↔
          dbOk = true ∧ ∃ e, FirstAcme (x :: rest) e ∧ e.critical = true ∧ e.octets = some digest) := by
      intro hx o
      rw [ih o]
      constructor
      · rintro ⟨hd, e, ⟨pre, post, h, hpre, he⟩, hc, ho⟩
        exact ⟨hd, e, ⟨x :: pre, post, by simp [h], by
          intro y hy
          cases hy with
          | head => exact hx
          | tail _ hy => exact hpre y hy, he⟩, hc, ho⟩
      · rintro ⟨hd, e, ⟨pre, post, h, hpre, he⟩, hc, ho⟩
        cases pre with
        | nil => simp at h; rw [← h.1] at he; exact absurd he hx
        | cons y ys =>
          simp at h
          exact ⟨hd, e, ⟨ys, post, h.2, fun z hz => hpre z (List.mem_cons_of_mem _ hz), he⟩, hc, ho⟩
    unfold extLoop
    cases hid : x.id with
    | acmeObsolete => simp only; exact tailCase (by simp [hid]) true
    | other => simp only; exact tailCase (by simp [hid]) obs
    | acme =>
      simp only
      have first : ∀ e, FirstAcme (x :: rest) e → e = x := by
        rintro e ⟨pre, post, h, hpre, _⟩
        cases pre with
        | nil => simp at h; exact h.1.symm
        | cons y ys =>
          simp at h
          exact absurd hid (by rw [h.1]; exact hpre y List.mem_cons_self)
      have isFirst : FirstAcme (x :: rest) x := ⟨[], rest, rfl, by simp, hid⟩
      by_cases hc : x.critical = true
      · simp only [hc, Bool.not_true, Bool.false_eq_true, if_false]
        cases ho : x.octets with
        | none =>
          simp only
          constructor
          · intro hv; exact absurd hv (storeError_not_valid _ _ _ _ _ hp)
          · rintro ⟨_, e, hf, _, h3⟩
            rw [first e hf, ho] at h3; cases h3
        | some v =>
          simp only
          by_cases hl : digest.length ≠ v.length
          · rw [if_pos hl]
            constructor
            · intro hv; exact absurd hv (storeError_not_valid _ _ _ _ _ hp)
            · rintro ⟨_, e, hf, _, h3⟩
              rw [first e hf, ho] at h3; cases h3; exact absurd rfl hl
          · rw [if_neg hl]
            by_cases hv' : digest = v
            · subst hv'
              rw [if_neg (by simp)]
              rw [store_valid_iff _ _ _ _ hp]
              exact ⟨fun hd => ⟨hd, x, isFirst, hc, ho⟩, fun hh => hh.1⟩
            · rw [if_pos hv']
              constructor
              · intro hv; exact absurd hv (storeError_not_valid _ _ _ _ _ hp)
              · rintro ⟨_, e, hf, _, h3⟩
                rw [first e hf, ho] at h3; cases h3; exact absurd rfl hv'
      · have hc' : x.critical = false := by cases hx : x.critical <;> simp_all
        simp only [hc', Bool.not_false, if_true]
        constructor
        · intro hv; exact absurd hv (storeError_not_valid _ _ _ _ _ hp)
        · rintro ⟨_, e, hf, h2, _⟩
          rw [first e hf, hc'] at h2; cases h2

/-- **tls-alpn-01 turns valid exactly when** the dial succeeded, a peer certificate was
    presented, the negotiated protocol is `acme-tls/1`, the leaf names exactly the identifier,
    and the *first* acme-identifier extension is critical, a well-formed OCTET STRING, and equal
    to SHA-256(token "." thumbprint) — for every dial result (SNI derivation may not crash). -/
theorem tlsalpn01_valid_only_if (h : Hash) (cfg : Cfg) (dbOk : Bool) (ch : Ch) (r : DialRes) (o : Outcome)
    (hp : ch.status = .pending) (ho : tlsalpn01Validate h cfg dbOk ch r = .val o) :
    o.status = .valid ↔ dbOk = true ∧ TlsAccept h ch r := by
  unfold tlsalpn01Validate at ho
  cases hsn : serverName ch.value ch.ip with
  | crash => simp [hsn, bind] at ho
  | val sni =>
    simp only [hsn, bind] at ho
    unfold TlsAccept
    cases r with
    | alert n =>
      simp only at ho
      split at ho <;> (cases ho; simp [storeError_not_valid _ _ _ _ _ hp])
    | other => cases ho; simp [storeError_not_valid _ _ _ _ _ hp]
    | conn leaf proto =>
      cases leaf with
      | none => cases ho; simp [storeError_not_valid _ _ _ _ _ hp]
      | some leaf =>
        simp only at ho
        by_cases hpr : proto = acmeTls1
        · simp only [hpr, ne_eq, not_true_eq_false, if_false] at ho
          by_cases hn : leafNameOk ch leaf = true
          · simp only [hn, Bool.not_true, Bool.false_eq_true, if_false] at ho
            cases hth : ch.thumb with
            | none =>
              simp only [hth, pure] at ho; cases ho
              simp [noWrite_not_valid _ _ hp]
            | some th =>
              simp only [hth, pure] at ho; cases ho
              rw [extLoop_valid_iff _ _ _ _ _ _ hp]
              constructor
              · rintro ⟨hd, e, hf, hc, hoct⟩
                exact ⟨hd, leaf, th, e, by rw [hpr], (leafNameOk_iff ch leaf).1 hn, rfl, hf, hc, hoct⟩
              · rintro ⟨hd, leaf', th', e, hr, _, h3, hf, hc, hoct⟩
                cases hr; cases h3
                exact ⟨hd, e, hf, hc, hoct⟩
          · have hn' : leafNameOk ch leaf = false := by cases hx : leafNameOk ch leaf <;> simp_all
            simp only [hn', Bool.not_false, if_true, pure] at ho; cases ho
            constructor
            · intro hv; exact absurd hv (storeError_not_valid _ _ _ _ _ hp)
            · rintro ⟨_, leaf', th', e, hr, h2, _⟩
              cases hr
              rw [← leafNameOk_iff, hn'] at h2; cases h2
        · simp only [ne_eq, hpr, not_false_eq_true, if_true, pure] at ho; cases ho
          constructor
          · intro hv; exact absurd hv (storeError_not_valid _ _ _ _ _ hp)
          · rintro ⟨_, leaf', th', e, hr, _⟩
            cases hr; exact absurd rfl hpr

example : (tlsalpn01Validate ⟨fun x => x ++ [7], fun x => x⟩ ⟨false, 0, 0⟩ true
    ⟨.tlsalpn01, .pending, .none, s "example.com", s "tok", some (s "thumb"), none⟩
    (.conn (some ⟨[s "EXAMPLE.com"], [], [⟨.other, true, none⟩, ⟨.acme, true, some (s "tok.thumb" ++ [7])⟩]⟩) acmeTls1)) =
      .val ⟨.valid, .none, .ok, .tls (s "example.com:443") (s "example.com"), false⟩ := by decide

theorem extLoop_pending_or_invalid_or_valid (dbOk : Bool) (ch : Ch) (digest : Str) (t : Target) (exts : List Ext)
    (obs : Bool) (hp : ch.status = .pending) :
    (extLoop dbOk ch digest t exts obs).status ≠ .valid →
      (extLoop dbOk ch digest t exts obs).status = .pending ∨ (extLoop dbOk ch digest t exts obs).status = .invalid := by
  induction exts generalizing obs with
  | nil => intro _; unfold extLoop; exact storeError_pending_or_invalid _ _ _ _ _ hp
  | cons x rest ih =>
    unfold extLoop
    cases x.id with
    | acmeObsolete => exact ih true
    | other => exact ih obs
    | acme =>
      simp only
      intro hv
      split
      · exact storeError_pending_or_invalid _ _ _ _ _ hp
      · split
        · exact storeError_pending_or_invalid _ _ _ _ _ hp
        · split
          · exact storeError_pending_or_invalid _ _ _ _ _ hp
          · split
            · exact storeError_pending_or_invalid _ _ _ _ _ hp
            · rename_i h1 _ _ h2 h3 h4
              rw [store_status]; cases dbOk <;> simp [hp]
              simp [h1, h2, h3, h4, store_status] at hv

/-- every other dial result leaves the challenge pending (connection problems, alerts other than
    no_application_protocol) or makes it invalid -/
theorem tlsalpn01_never_valid_otherwise (h : Hash) (cfg : Cfg) (dbOk : Bool) (ch : Ch) (r : DialRes) (o : Outcome)
    (hp : ch.status = .pending) (ho : tlsalpn01Validate h cfg dbOk ch r = .val o)
    (hn : ¬ TlsAccept h ch r) : o.status = .pending ∨ o.status = .invalid := by
  have hv : o.status ≠ .valid := fun x => hn ((tlsalpn01_valid_only_if h cfg dbOk ch r o hp ho).1 x).2
  revert hv
  unfold tlsalpn01Validate at ho
  cases hsn : serverName ch.value ch.ip with
  | crash => simp [hsn, bind] at ho
  | val sni =>
    simp only [hsn, bind] at ho
    cases r with
    | alert n =>
      simp only at ho
      split at ho <;> (cases ho; intro _; exact storeError_pending_or_invalid _ _ _ _ _ hp)
    | other => cases ho; intro _; exact storeError_pending_or_invalid _ _ _ _ _ hp
    | conn leaf proto =>
      cases leaf with
      | none => cases ho; intro _; exact storeError_pending_or_invalid _ _ _ _ _ hp
      | some leaf =>
        simp only at ho
        split at ho
        · cases ho; intro _; exact storeError_pending_or_invalid _ _ _ _ _ hp
        · split at ho
          · cases ho; intro _; exact storeError_pending_or_invalid _ _ _ _ _ hp
          · cases hth : ch.thumb with
            | none => simp only [hth, pure] at ho; cases ho; intro _; left; simp [noWrite, hp]
            | some th =>
              simp only [hth, pure] at ho; cases ho
              exact extLoop_pending_or_invalid_or_valid _ _ _ _ _ _ hp

/-- named consequences: a connection error or an alert other than 120 is retryable; … -/
theorem tlsalpn01_transport_error_pending (h : Hash) (cfg : Cfg) (dbOk : Bool) (ch : Ch) (r : DialRes) (o : Outcome)
    (hp : ch.status = .pending) (ho : tlsalpn01Validate h cfg dbOk ch r = .val o)
    (hr : r = .other ∨ ∃ n, r = .alert n ∧ n % 256 ≠ 120) : o.status = .pending := by
  unfold tlsalpn01Validate at ho
  cases hsn : serverName ch.value ch.ip with
  | crash => simp [hsn, bind] at ho
  | val sni =>
    simp only [hsn, bind] at ho
    rcases hr with rfl | ⟨n, rfl, hn⟩
    · cases ho; simp [storeError_status, hp]
    · simp only [hn, if_false] at ho; cases ho; simp [storeError_status, hp]

/-- … and a non-critical acme extension, an additional DNS name, a different negotiated protocol,
    a digest for another key authorization each falsify the accepting condition. -/
theorem tlsalpn01_rejects (h : Hash) (ch : Ch) (leaf : Leaf) (proto : Str) :
    (proto ≠ acmeTls1 → ¬ TlsAccept h ch (.conn (some leaf) proto)) ∧
    (leaf.dns.length ≥ 2 → ¬ TlsAccept h ch (.conn (some leaf) proto)) ∧
    (leaf.dns = [] → leaf.ips.length ≠ 1 → ¬ TlsAccept h ch (.conn (some leaf) proto)) ∧
    ((∀ e ∈ leaf.exts, e.id = .acme → e.critical = false) → ¬ TlsAccept h ch (.conn (some leaf) proto)) ∧
    ((∀ e ∈ leaf.exts, e.id ≠ .acme) → ¬ TlsAccept h ch (.conn (some leaf) proto)) ∧
    (∀ th, ch.thumb = some th → (∀ e ∈ leaf.exts, e.octets ≠ some (h.raw (keyAuth ch.token th))) →
      ¬ TlsAccept h ch (.conn (some leaf) proto)) := by
  refine ⟨?_, ?_, ?_, ?_, ?_, ?_⟩
  · rintro hp ⟨l, th, e, hr, _⟩; cases hr; exact hp rfl
  · rintro hl ⟨l, th, e, hr, hn, _⟩
    cases hr
    rcases hn with ⟨h0, _⟩ | ⟨d, h1, _⟩
    · rw [h0] at hl; simp at hl
    · rw [h1] at hl; simp at hl
  · rintro h0 hi ⟨l, th, e, hr, hn, _⟩
    cases hr
    rcases hn with ⟨_, a, b, h1, _⟩ | ⟨d, h1, _⟩
    · rw [h1] at hi; simp at hi
    · rw [h0] at h1; cases h1
  · rintro hc ⟨l, th, e, hr, _, _, ⟨pre, post, hx, _, hid⟩, hcr, _⟩
    cases hr
    have := hc e (by rw [hx]; simp) hid
    rw [this] at hcr; cases hcr
  · rintro hc ⟨l, th, e, hr, _, _, ⟨pre, post, hx, _, hid⟩, _⟩
    cases hr
    exact hc e (by rw [hx]; simp) hid
  · rintro th hth hc ⟨l, th', e, hr, _, h3, ⟨pre, post, hx, _, _⟩, _, hoct⟩
    cases hr
    rw [hth] at h3; cases h3
    exact hc e (by rw [hx]; simp) hoct

/-! ## 5. the target is a function of the stored identifier -/

/-- the request a validator makes, computed from package configuration, challenge type, the stored
    identifier value (and `net.ParseIP` of it) and the token — nothing else -/
def targetFor (cfg : Cfg) (typ : ChType) (value : Str) (ip : Option Str) (token : Str) : M Target :=
  match typ with
  | .http01 =>
    .val (.httpGet (s "http://" ++ escapeWith hostKeep (http01Host cfg value ip ++
      (if cfg.portHTTP = 0 then [] else [58] ++ itoa cfg.portHTTP)) ++ wellKnown ++ escapeWith pathKeep token))
  | .dns01 => .val (.txt (s "_acme-challenge." ++ rootedName cfg (trimPrefix (s "*.") value)))
  | .tlsalpn01 =>
    match serverName value ip with
    | .val sni => .val (.tls (joinHostPort (tlsAlpn01Host cfg value ip) (if cfg.portTLS = 0 then s "443" else itoa cfg.portTLS)) sni)
    | .crash => .crash
  | _ => .val .none

@[simp] theorem store_target (dbOk : Bool) (ch : Ch) (st : Status) (e : ErrT) (t : Target) :
    (store dbOk ch st e t).target = t := by unfold store; split <;> rfl

@[simp] theorem storeError_target (dbOk : Bool) (ch : Ch) (m : Bool) (e : ErrT) (t : Target) :
    (storeError dbOk ch m e t).target = t := by unfold storeError; simp

@[simp] theorem noWrite_target (ch : Ch) (t : Target) : (noWrite ch t).target = t := rfl

theorem extLoop_target (dbOk : Bool) (ch : Ch) (digest : Str) (t : Target) (exts : List Ext) (obs : Bool) :
    (extLoop dbOk ch digest t exts obs).target = t := by
  induction exts generalizing obs with
  | nil => unfold extLoop; simp
  | cons x rest ih =>
    unfold extLoop
    cases x.id with
    | acmeObsolete => exact ih true
    | other => exact ih obs
    | acme =>
      simp only
      repeat' split
      all_goals simp

theorem http01_target (cfg : Cfg) (dbOk : Bool) (ch : Ch) (r : HttpResp) :
    (http01Validate cfg dbOk ch r).target = .httpGet (http01URL cfg ch) := by
  unfold http01Validate
  cases r with
  | err => simp
  | resp st body =>
    simp only
    repeat' split
    all_goals simp

theorem dns01_target (h : Hash) (cfg : Cfg) (dbOk : Bool) (ch : Ch) (r : TxtResp) :
    (dns01Validate h cfg dbOk ch r).target = .txt (dns01Name cfg ch) := by
  unfold dns01Validate
  cases r with
  | none => simp
  | some recs =>
    simp only
    repeat' split
    all_goals simp

theorem tlsalpn01_target (h : Hash) (cfg : Cfg) (dbOk : Bool) (ch : Ch) (r : DialRes) (o : Outcome) (sni : Str)
    (hsn : serverName ch.value ch.ip = .val sni) (ho : tlsalpn01Validate h cfg dbOk ch r = .val o) :
    o.target = .tls (tlsAddr cfg ch) sni := by
  unfold tlsalpn01Validate at ho
  simp only [hsn, bind] at ho
  cases r with
  | alert n => simp only at ho; split at ho <;> (cases ho; simp)
  | other => cases ho; simp
  | conn leaf proto =>
    cases leaf with
    | none => cases ho; simp
    | some leaf =>
      simp only at ho
      split at ho
      · cases ho; simp
      · split at ho
        · cases ho; simp
        · cases hth : ch.thumb with
          | none => simp only [hth, pure] at ho; cases ho; simp
          | some th => simp only [hth, pure] at ho; cases ho; simp [extLoop_target]

/-- **The fetched URL / TXT name / dial address / SNI depends only on the stored identifier**
    (plus token and package configuration): whatever the response, the account key, the previous
    error or the database do, a pending http-01, dns-01 or tls-alpn-01 challenge contacts
    `targetFor cfg typ value ip token`. -/
theorem target_from_identifier (h : Hash) (cfg : Cfg) (dbOk : Bool) (ch : Ch) (w : World) (o : Outcome)
    (hp : ch.status = .pending)
    (ht : ch.typ = .http01 ∨ ch.typ = .dns01 ∨ ch.typ = .tlsalpn01)
    (hv : validate h cfg dbOk ch w = .done o) :
    targetFor cfg ch.typ ch.value ch.ip ch.token = .val o.target := by
  unfold validate at hv
  simp only [hp, ne_eq, not_true_eq_false, if_false] at hv
  rcases ht with ht | ht | ht
  · rw [ht] at hv ⊢
    cases w with
    | http r => simp only at hv; injection hv with hv; subst hv; rw [http01_target]; rfl
    | _ => simp at hv
  · rw [ht] at hv ⊢
    cases w with
    | txt r => simp only at hv; injection hv with hv; subst hv; rw [dns01_target]; rfl
    | _ => simp at hv
  · rw [ht] at hv ⊢
    cases w with
    | tls r =>
      simp only at hv
      cases hr : tlsalpn01Validate h cfg dbOk ch r with
      | crash => simp [hr] at hv
      | val o' =>
        simp only [hr] at hv
        injection hv with hv; subst hv
        cases hsn : serverName ch.value ch.ip with
        | crash => unfold tlsalpn01Validate at hr; simp [hsn, bind] at hr
        | val sni =>
          rw [tlsalpn01_target h cfg dbOk ch r o' sni hsn hr]
          unfold targetFor; simp only [hsn]; rfl
    | _ => simp at hv


/-- percent-escaping leaves a string of kept characters alone (identifiers and tokens that reach
    http-01 through NewOrder are such strings), and escapes every other byte as `%XX` -/
theorem escapeWith_id (keep : Nat → Bool) (a : Str) (h : ∀ c ∈ a, keep c = true) : escapeWith keep a = a := by
  induction a with
  | nil => rfl
  | cons c cs ih =>
    have hc := h c List.mem_cons_self
    have := ih (fun x hx => h x (List.mem_cons_of_mem _ hx))
    unfold escapeWith at this ⊢
    simp [hc, this]

example : escapeWith hostKeep (s "a b/[::1]:80") = s "a%20b%2F[::1]:80" := by decide
example : escapeWith pathKeep (s "a/b?c d") = s "a/b%3Fc%20d" := by decide

/-- the host part: a DNS identifier is contacted under its own name (optionally rooted), an IPv6
    literal in brackets, an IPv4 literal as is — `http01Host` never contains anything but the
    identifier and these fixed decorations -/
theorem http01Host_shape (cfg : Cfg) (value : Str) (ip : Option Str) :
    http01Host cfg value ip = value ∨ http01Host cfg value ip = value ++ [46] ∨
    http01Host cfg value ip = [91] ++ value ++ [93] := by
  unfold http01Host rootedName
  cases ip with
  | some a => simp only; split <;> simp
  | none => simp only; split <;> (try split) <;> simp

/-- dns-01 looks up `_acme-challenge.` + the identifier without one leading `*.` (optionally rooted) -/
theorem dns01Name_shape (cfg : Cfg) (ch : Ch) :
    dns01Name cfg ch = s "_acme-challenge." ++ trimPrefix (s "*.") ch.value ∨
    dns01Name cfg ch = s "_acme-challenge." ++ trimPrefix (s "*.") ch.value ++ [46] := by
  unfold dns01Name dns01Host rootedName
  split <;> (try split) <;> simp

example : targetFor ⟨true, 0, 0⟩ .dns01 (s "*.example.com") none (s "t") = .val (.txt (s "_acme-challenge.example.com.")) := by decide
example : targetFor ⟨false, 0, 0⟩ .http01 (s "::1") (some (List.replicate 15 0 ++ [1])) (s "t") =
    .val (.httpGet (s "http://[::1]/.well-known/acme-challenge/t")) := by decide
example : targetFor ⟨false, 0, 0⟩ .tlsalpn01 (s "1.2.3.4") (some (List.replicate 10 0 ++ [255, 255, 1, 2, 3, 4])) (s "t") =
    .val (.tls (s "1.2.3.4:443") (s "4.3.2.1.in-addr.arpa.")) := by decide

/-! ## 6. totality of the address helpers -/

theorem idx_val (l : Str) (i : Nat) (h : i < l.length) : ∃ v, idx l i = .val v := by
  unfold idx
  cases hl : l[i]? with
  | some v => exact ⟨v, rfl⟩
  | none => simp at hl; omega

/-- `reverseAddr` aborts exactly on an address `To4` accepts that is shorter than 16 bytes
    (a 4-byte `net.IP`): it indexes `ip[12..15]` -/
theorem reverseAddr_crash_iff (ip : Str) :
    reverseAddr ip = .crash ↔ (to4 ip).isSome = true ∧ ip.length < 16 := by
  unfold reverseAddr
  by_cases h4 : (to4 ip).isSome = true
  · simp only [h4, if_true, true_and]
    constructor
    · intro hc
      by_cases hl : ip.length < 16
      · exact hl
      · exfalso
        obtain ⟨a, ha⟩ := idx_val ip 15 (by omega)
        obtain ⟨b, hb⟩ := idx_val ip 14 (by omega)
        obtain ⟨c, hc'⟩ := idx_val ip 13 (by omega)
        obtain ⟨d, hd⟩ := idx_val ip 12 (by omega)
        simp [ha, hb, hc', hd, bind, pure] at hc
    · intro hl
      have : idx ip 15 = .crash := by
        unfold idx
        have : ip[15]? = none := by simp; omega
        simp [this]
      simp [this, bind]
  · simp [h4]

/-- `net.ParseIP` returns 16-byte slices, so `serverName` (and with it tls-alpn-01) never aborts -/
theorem serverName_total (value : Str) (ip : Option Str) (h16 : ∀ a, ip = some a → a.length = 16) :
    ∃ n, serverName value ip = .val n := by
  unfold serverName
  cases ip with
  | none => exact ⟨value, rfl⟩
  | some a =>
    simp only
    cases hr : reverseAddr a with
    | val n => exact ⟨n, rfl⟩
    | crash =>
      have := (reverseAddr_crash_iff a).1 hr
      have := h16 a rfl
      omega

theorem tlsalpn01Validate_total (h : Hash) (cfg : Cfg) (dbOk : Bool) (ch : Ch) (r : DialRes)
    (h16 : ∀ a, ch.ip = some a → a.length = 16) : ∃ o, tlsalpn01Validate h cfg dbOk ch r = .val o := by
  obtain ⟨n, hn⟩ := serverName_total ch.value ch.ip h16
  unfold tlsalpn01Validate
  simp only [hn, bind]
  cases r with
  | alert n => simp only; split <;> exact ⟨_, rfl⟩
  | other => exact ⟨_, rfl⟩
  | conn leaf proto =>
    cases leaf with
    | none => exact ⟨_, rfl⟩
    | some leaf =>
      simp only
      split
      · exact ⟨_, rfl⟩
      · split
        · exact ⟨_, rfl⟩
        · cases ch.thumb <;> exact ⟨_, rfl⟩

example : reverseAddr [1, 2, 3, 4] = .crash := by decide
example : reverseAddr (List.replicate 10 0 ++ [255, 255, 1, 2, 3, 4]) = .val (s "4.3.2.1.in-addr.arpa.") := by decide

/-! ## 7. challenge types offered per identifier -/

/-- **No http-01 and no tls-alpn-01 for a wildcard DNS identifier**, and what is stored as the
    challenge value is the name without its `*.` prefix. -/
theorem offered_types (raw : Str) :
    let (v, w, tys) := newAuthorization .dns raw
    ((s "*.").isPrefixOf raw = true → w = true ∧ tys = [.dns01] ∧ raw = s "*." ++ v) ∧
    ((s "*.").isPrefixOf raw = false → w = false ∧ v = raw ∧ tys = [.dns01, .http01, .tlsalpn01]) := by
  unfold newAuthorization trimIfWildcard challengeTypes trimPrefix
  simp only [if_true]
  by_cases h : (s "*.").isPrefixOf raw = true
  · simp only [h, if_true, Bool.not_true, Bool.false_eq_true, if_false, true_and, reduceCtorEq, false_implies, and_true]
    intro _
    obtain ⟨t, ht⟩ := List.isPrefixOf_iff_prefix.1 h
    rw [← ht]; simp
  · have h' : (s "*.").isPrefixOf raw = false := by cases hx : (s "*.").isPrefixOf raw <;> simp_all
    simp [h']

/-- for every identifier type: http-01 / tls-alpn-01 are offered only for IP identifiers and
    for non-wildcard DNS identifiers; device-attest-01 only for permanent identifiers -/
theorem offered_types_all (t : IdType) (wild : Bool) :
    ((.http01 ∈ challengeTypes t wild ∨ .tlsalpn01 ∈ challengeTypes t wild) → t = .ip ∨ (t = .dns ∧ wild = false)) ∧
    (.dns01 ∈ challengeTypes t wild → t = .dns) ∧
    (.deviceAttest01 ∈ challengeTypes t wild → t = .permanentIdentifier) := by
  cases t <;> cases wild <;> simp [challengeTypes]

/-- **only DNS identifiers have a wildcard form** (fix 77ebdfa): an identifier of any other type is
    stored exactly as given and never marked wildcard — a permanent identifier `*.1234567` is
    that string, to be attested as such -/
theorem non_dns_identifier_kept (t : IdType) (raw : Str) (h : t ≠ .dns) :
    newAuthorization t raw = (raw, false, challengeTypes t false) := by
  unfold newAuthorization; simp [h]

theorem ip_identifier_not_wildcard (raw : Str) : (newAuthorization .ip raw).2.1 = false := by
  rw [non_dns_identifier_kept .ip raw (by decide)]

example : newAuthorization .permanentIdentifier (s "*.1234567") = (s "*.1234567", false, [.deviceAttest01]) := by decide

example : newAuthorization .dns (s "*.example.com") = (s "example.com", true, [.dns01]) := by decide

/-! ## 8. device-attest-01 -/

theorem daBad_not_valid (dbOk : Bool) (ch : Ch) (e : ErrT) (hp : ch.status = .pending) :
    (daBad dbOk ch e).status ≠ .valid := storeError_not_valid _ _ _ _ _ hp

theorem daFinish_valid (dbOk : Bool) (ch : Ch) (i : DaIn) (hp : ch.status = .pending) :
    (daFinish dbOk ch i).status = .valid → dbOk = true ∧ (i.fpNonEmpty = true → i.authzDbOk = true) := by
  unfold daFinish
  split
  · intro hv; exact absurd hv (noWrite_not_valid _ _ hp)
  · rename_i hc
    simp only
    rw [store_status]
    intro hv
    cases dbOk
    · simp [hp] at hv
    · refine ⟨rfl, fun hf => ?_⟩
      cases ha : i.authzDbOk
      · exact absurd ⟨hf, by simp [ha]⟩ hc
      · rfl

theorem x5cCheck_none (e : ErrT) (x : X5c) : x5cCheck e x = none →
    x.present = true ∧ x.len ≠ 0 ∧ x.leafOk = true ∧ x.restOk = true ∧ x.chainOk = true := by
  unfold x5cCheck
  cases x.present <;> cases x.leafOk <;> cases x.restOk <;> cases x.chainOk <;> by_cases hl : x.len = 0 <;> simp [hl]

/-- what a successful `step` attestation proves -/
theorem doStep_data (ch : Ch) (f : StepFacts) (d : Str) (hd : doStep ch f = .data d) :
    f.x5c.chainOk = true ∧ f.x5c.leafOk = true ∧
    (∃ th, ch.thumb = some th ∧ f.verifies (keyAuth ch.token th) = true) ∧
    (f.key = .ecP256 ∨ f.key = .rsa ∨ f.key = .ed25519) ∧
    ((f.serial = .absent ∧ d = []) ∨ f.serial = .value d) := by
  unfold doStep at hd
  cases hx : x5cCheck .rejectedIdentifier f.x5c with
  | some r => cases r <;> simp [hx] at hd
  | none =>
    obtain ⟨_, _, hl, _, hc⟩ := x5cCheck_none _ _ hx
    simp only [hx] at hd
    split at hd; · cases hd
    split at hd; · cases hd
    cases hth : ch.thumb with
    | none => simp [hth] at hd
    | some th =>
      simp only [hth] at hd
      split at hd; · cases hd
      split at hd; · cases hd
      split at hd; · cases hd
      split at hd; · cases hd
      rename_i hk1 hk2 hv _
      refine ⟨hc, hl, ⟨th, rfl, by simpa using hv⟩, ?_, ?_⟩
      · cases hk : f.key <;> simp_all
      · cases hs : f.serial <;> simp [hs] at hd
        · exact .inl ⟨rfl, hd⟩
        · exact .inr (by rw [hd])

/-- the conjunct the property asks for, literally: the attestation chains to a trusted root,
    binds the key authorization (token *and* account key) and attests the permanent identifier -/
def DaAccept (h : Hash) (ch : Ch) (i : DaIn) : Prop :=
  match i.facts with
  | .step f => f.x5c.chainOk = true ∧ (∃ th, ch.thumb = some th ∧ f.verifies (keyAuth ch.token th) = true) ∧
      f.serial = .value ch.value
  | .apple f => f.x5c.chainOk = true ∧ (∃ th, ch.thumb = some th ∧ f.nonce = h.raw (keyAuth ch.token th)) ∧
      (f.udid = ch.value ∨ f.serial = ch.value)
  | .tpm f => f.pre = .ok ∧ (∃ th, ch.thumb = some th ∧ f.extraData = h.raw (keyAuth ch.token th)) ∧
      ch.value ∈ f.permanentIdentifiers
  | .none => False

/-- what the code as written enforces -/
def DaAcceptCoded (h : Hash) (ch : Ch) (i : DaIn) : Prop :=
  match i.format, i.facts with
  | .step, .step f => f.x5c.chainOk = true ∧ (∃ th, ch.thumb = some th ∧ f.verifies (keyAuth ch.token th) = true) ∧
      (f.serial = .value ch.value ∨ (f.serial = .absent ∧ ch.value = []))
  | .apple, .apple f => f.x5c.chainOk = true ∧ f.nonce = h.raw ch.token ∧
      (f.udid = ch.value ∨ f.serial = ch.value)
  | .tpm, .tpm f => f.pre = .ok ∧ (∃ th, ch.thumb = some th ∧ f.extraData = h.raw (keyAuth ch.token th)) ∧
      (f.permanentIdentifiers = [] ∨ ch.value ∈ f.permanentIdentifiers)
  | _, _ => False

theorem daStep_valid (dbOk : Bool) (ch : Ch) (i : DaIn) (f : StepFacts) (o : Outcome) (hp : ch.status = .pending)
    (ho : daStep dbOk ch i f = .val o) (hv : o.status = .valid) :
    dbOk = true ∧ f.x5c.chainOk = true ∧ (∃ th, ch.thumb = some th ∧ f.verifies (keyAuth ch.token th) = true) ∧
      (f.serial = .value ch.value ∨ (f.serial = .absent ∧ ch.value = [])) := by
  unfold daStep at ho
  cases hd : doStep ch f with
  | ise => simp only [hd] at ho; cases ho; exact absurd hv (noWrite_not_valid _ _ hp)
  | nilErr => simp [hd] at ho
  | bad e => simp only [hd] at ho; cases ho; exact absurd hv (daBad_not_valid _ _ _ hp)
  | data d =>
    simp only [hd] at ho
    obtain ⟨hc, _, hs, _, hser⟩ := doStep_data ch f d hd
    split at ho
    · cases ho; exact absurd hv (daBad_not_valid _ _ _ hp)
    · rename_i heq
      have heq : d = ch.value := by simpa using heq
      cases ho
      refine ⟨(daFinish_valid _ _ _ hp hv).1, hc, hs, ?_⟩
      rcases hser with ⟨h1, h2⟩ | h1
      · exact .inr ⟨h1, by rw [← heq, h2]⟩
      · exact .inl (by rw [h1, heq])

theorem daApple_valid (h : Hash) (dbOk : Bool) (ch : Ch) (i : DaIn) (f : AppleFacts) (o : Outcome)
    (hp : ch.status = .pending) (ho : daApple h dbOk ch i f = .val o) (hv : o.status = .valid) :
    dbOk = true ∧ f.x5c.chainOk = true ∧ f.nonce = h.raw ch.token ∧
      (f.udid = ch.value ∨ f.serial = ch.value) := by
  unfold daApple doApple at ho
  cases hx : x5cCheck .badAttestationStatement f.x5c with
  | some r =>
    cases r <;> simp only [hx] at ho <;> first
      | (cases ho; exact absurd hv (noWrite_not_valid _ _ hp))
      | (cases ho; exact absurd hv (daBad_not_valid _ _ _ hp))
      | (simp at ho)
  | none =>
    obtain ⟨_, _, _, _, hc⟩ := x5cCheck_none _ _ hx
    simp only [hx] at ho
    by_cases hf : f.fpOk = true
    · simp only [hf, Bool.not_true, Bool.false_eq_true, if_false] at ho
      split at ho
      · cases ho; exact absurd hv (daBad_not_valid _ _ _ hp)
      · split at ho
        · cases ho; exact absurd hv (daBad_not_valid _ _ _ hp)
        · rename_i hn hid
          cases ho
          refine ⟨(daFinish_valid _ _ _ hp hv).1, hc, by simpa using hn, ?_⟩
          by_cases h0 : f.udid = ch.value
          · exact .inl h0
          · by_cases h1 : f.serial = ch.value
            · exact .inr h1
            · exact absurd ⟨h0, h1⟩ hid
    · have hf' : f.fpOk = false := by cases hx : f.fpOk <;> simp_all
      simp only [hf', Bool.not_false, if_true] at ho
      cases ho; exact absurd hv (noWrite_not_valid _ _ hp)

theorem doTpm_data (h : Hash) (ch : Ch) (f : TpmFacts) (p : List Str) (hd : doTpm h ch f = .data p) :
    f.pre = .ok ∧ (∃ th, ch.thumb = some th ∧ f.extraData = h.raw (keyAuth ch.token th)) ∧
      p = f.permanentIdentifiers := by
  unfold doTpm at hd
  cases hpre : f.pre with
  | bad => simp [hpre] at hd
  | noRoots => simp [hpre] at hd
  | ok =>
    simp only [hpre] at hd
    cases hth : ch.thumb with
    | none => simp [hth] at hd
    | some th =>
      simp only [hth] at hd
      split at hd; · cases hd
      split at hd; · cases hd
      split at hd; · cases hd
      rename_i hx _ _
      injection hd with hd
      have hx' : h.raw (keyAuth ch.token th) = f.extraData := by simpa using hx
      exact ⟨rfl, ⟨th, rfl, hx'.symm⟩, hd.symm⟩

theorem daTpm_valid (h : Hash) (dbOk : Bool) (ch : Ch) (i : DaIn) (f : TpmFacts) (o : Outcome)
    (hp : ch.status = .pending) (ho : daTpm h dbOk ch i f = .val o) (hv : o.status = .valid) :
    dbOk = true ∧ f.pre = .ok ∧ (∃ th, ch.thumb = some th ∧ f.extraData = h.raw (keyAuth ch.token th)) ∧
      (f.permanentIdentifiers = [] ∨ ch.value ∈ f.permanentIdentifiers) := by
  unfold daTpm at ho
  cases hd : doTpm h ch f with
  | ise => simp only [hd] at ho; cases ho; exact absurd hv (noWrite_not_valid _ _ hp)
  | nilErr => simp [hd] at ho
  | bad e => simp only [hd] at ho; cases ho; exact absurd hv (daBad_not_valid _ _ _ hp)
  | data p =>
    simp only [hd] at ho
    obtain ⟨hpre, hb, hpe⟩ := doTpm_data h ch f p hd
    subst hpe
    split at ho
    · cases ho; exact absurd hv (daBad_not_valid _ _ _ hp)
    · rename_i hpid
      cases ho
      refine ⟨(daFinish_valid _ _ _ hp hv).1, hpre, hb, ?_⟩
      cases hl : f.permanentIdentifiers with
      | nil => exact .inl rfl
      | cons a as =>
        right
        rw [hl] at hpid
        by_cases hc : (a :: as).contains ch.value = true
        · simpa using hc
        · exact absurd ⟨by simp, by cases hx : (a :: as).contains ch.value <;> simp_all⟩ hpid

/-- **device-attest-01 as coded**: the challenge turns valid only if the payload is well-formed,
    the format is enabled, and — `step`: the leaf chains to the configured (or Yubico) root, its
    key signed exactly token "." thumbprint, and the certificate's serial extension is the
    identifier; `apple`: the leaf chains to the configured (or Apple) root, the nonce extension is
    SHA-256(token) (since fix 9ce0826 it must be present), and UDID or serial is the identifier; `tpm`: every structural check
    passed against the configured roots, extraData = SHA-256(token "." thumbprint), and the
    permanent-identifier list is *empty* or contains the identifier. -/
theorem device_attest_valid_only_if_partial (h : Hash) (dbOk : Bool) (ch : Ch) (i : DaIn) (o : Outcome)
    (hp : ch.status = .pending) (ho : deviceAttest01Validate h dbOk ch i = .val o) (hv : o.status = .valid) :
    dbOk = true ∧ i.authzOk = true ∧ i.jsonOk = true ∧ i.errField = false ∧ i.b64Ok = true ∧ i.emptyObj = false ∧
      i.cborWellformed = true ∧ i.cborOk = true ∧ i.enabled = true ∧ DaAcceptCoded h ch i := by
  unfold deviceAttest01Validate at ho
  split at ho; · cases ho; exact absurd hv (by simp [noWrite, hp])
  split at ho; · cases ho; exact absurd hv (by simp [noWrite, hp])
  split at ho; · cases ho; exact absurd hv (by simp [noWrite, hp])
  split at ho; · cases ho; exact absurd hv (noWrite_not_valid _ _ hp)
  split at ho; · cases ho; exact absurd hv (daBad_not_valid _ _ _ hp)
  split at ho; · cases ho; exact absurd hv (daBad_not_valid _ _ _ hp)
  split at ho; · cases ho; exact absurd hv (daBad_not_valid _ _ _ hp)
  split at ho; · cases ho; exact absurd hv (daBad_not_valid _ _ _ hp)
  split at ho; · cases ho; exact absurd hv (noWrite_not_valid _ _ hp)
  split at ho; · cases ho; exact absurd hv (daBad_not_valid _ _ _ hp)
  rename_i h1 h1b h1c h2 h3 h4 h5 h6 h7 h8
  have core : dbOk = true ∧ DaAcceptCoded h ch i := by
    unfold daCore at ho
    unfold DaAcceptCoded
    cases hfmt : i.format <;> cases hfac : i.facts <;> simp only [hfmt, hfac] at ho ⊢ <;> first
      | exact daApple_valid h dbOk ch i _ o hp ho hv
      | exact daStep_valid dbOk ch i _ o hp ho hv
      | exact daTpm_valid h dbOk ch i _ o hp ho hv
      | (cases ho; exact absurd hv (daBad_not_valid _ _ _ hp))
  refine ⟨core.1, ?_, ?_, ?_, ?_, ?_, ?_, ?_, ?_, core.2⟩ <;> simp_all


/-- **fix 365cae8**: when the authorization named by the request belongs to another account than
    the challenge, device-attest-01 answers "unauthorized" and touches nothing: no status, no
    error, no fingerprint — whatever the attestation is. -/
theorem device_attest_other_account_authz_refused (h : Hash) (dbOk : Bool) (ch : Ch) (i : DaIn)
    (ha : i.authzOk = true) (ho : i.authzOtherAccount = true) :
    deviceAttest01Validate h dbOk ch i = .val ⟨ch.status, ch.err, .unauthorized, .none, false⟩ := by
  unfold deviceAttest01Validate; simp [ha, ho, noWrite]

/-- **fix e055659**: the same when the authorization is the account's own but this challenge is not
    one of its challenges — the key attested for one identifier cannot become the attested key of
    another authorization -/
theorem device_attest_not_own_authz_refused (h : Hash) (dbOk : Bool) (ch : Ch) (i : DaIn)
    (ha : i.authzOk = true) (ho : i.authzOtherAccount = false) (hn : i.authzNotOwn = true) :
    deviceAttest01Validate h dbOk ch i = .val ⟨ch.status, ch.err, .unauthorized, .none, false⟩ := by
  unfold deviceAttest01Validate; simp [ha, ho, hn, noWrite]

/-- consequently a POST that names another authorization in its URL never writes a fingerprint,
    whichever account that authorization belongs to -/
theorem getChallenge_foreign_authz_no_fingerprint (h : Hash) (cfg : Cfg) (dbOk : Bool) (ch : Ch) (i : DaIn) (req : HReq) (r : HOut)
    (ht : ch.typ = .deviceAttest01) (hp : ch.status = .pending) (hi : i.authzOk = true)
    (hf : req.azUrl = .foreign ∨ req.azUrl = .foreignOther)
    (hr : getChallenge h cfg dbOk ch (.attest i) req = .val r) : r.effect.authzFp = false ∧ r.effect.status = .pending := by
  unfold getChallenge at hr
  cases hau : req.authed
  · simp [hau] at hr; subst hr; simp [untouched, hp]
  cases hex : req.chExists
  · simp [hau, hex] at hr; subst hr; simp [untouched, hp]
  cases hown : req.owner
  · simp [hau, hex, hown] at hr; subst hr; simp [untouched, hp]
  simp only [hau, hex, hown, Bool.not_true, Bool.false_eq_true, if_false] at hr
  unfold validate at hr
  simp only [hp, ne_eq, not_true_eq_false, if_false, ht] at hr
  rcases hf with hf | hf
  · simp only [worldVia, hf] at hr
    by_cases ho : i.authzOtherAccount = true
    · have := device_attest_other_account_authz_refused h dbOk ch { i with authzNotOwn := true } hi ho
      rw [this] at hr
      simp at hr; subst hr; simp [hp]
    · have ho' : i.authzOtherAccount = false := by simpa using ho
      have := device_attest_not_own_authz_refused h dbOk ch { i with authzNotOwn := true } hi ho' rfl
      rw [this] at hr
      simp at hr; subst hr; simp [hp]
  · simp only [worldVia, hf] at hr
    have := device_attest_other_account_authz_refused h dbOk ch { i with authzOtherAccount := true } hi rfl
    rw [this] at hr
    simp at hr; subst hr; simp [hp]

/-- `step` alone meets the property's conjunct in full (identifiers are never empty: NewOrder
    rejects an empty permanent identifier) -/
theorem device_attest_step_full (h : Hash) (dbOk : Bool) (ch : Ch) (i : DaIn) (o : Outcome) (f : StepFacts)
    (hp : ch.status = .pending) (hne : ch.value ≠ []) (hf : i.facts = .step f)
    (ho : deviceAttest01Validate h dbOk ch i = .val o) (hv : o.status = .valid) : DaAccept h ch i := by
  have := (device_attest_valid_only_if_partial h dbOk ch i o hp ho hv).2.2.2.2.2.2.2.2.2
  unfold DaAcceptCoded at this
  unfold DaAccept
  rw [hf] at this ⊢
  cases hfmt : i.format <;> simp only [hfmt] at this
  obtain ⟨a, b, c | ⟨_, c⟩⟩ := this
  · exact ⟨a, b, c⟩
  · exact absurd c hne

/-- the property's device-attest clause at full strength -/
def DaFull : Prop :=
  ∀ (h : Hash) (dbOk : Bool) (ch : Ch) (i : DaIn) (o : Outcome), ch.status = .pending → ch.value ≠ [] →
    deviceAttest01Validate h dbOk ch i = .val o → o.status = .valid → DaAccept h ch i

def wX5c : X5c := ⟨true, 2, true, true, true⟩
def wCh : Ch := ⟨.deviceAttest01, .pending, .none, s "udid-1", s "tok", some (s "thumb"), none⟩
def wHash : Hash := ⟨fun x => x ++ [0], fun x => x ++ [1]⟩
def wIn (fm : AttFormat) (f : FmtFacts) : DaIn :=
  { authzOk := true, authzMissing := false, authzOtherAccount := false, authzNotOwn := false, jsonOk := true, errField := false, b64Ok := true, emptyObj := false, cborWellformed := true,
    cborOk := true, format := fm, enabled := true, facts := f, fpNonEmpty := true, authzDbOk := true }

/-- **Refutation (apple binds the token only; reproduced on the real code)**: the clause at full
    strength asks for a binding to the key authorization; an `apple` attestation carries
    SHA-256(token) as its nonce and is accepted — the account key is not bound.  (The former
    witness, an attestation *without* nonce extension, is refused since fix 9ce0826.) -/
theorem device_attest_valid_only_if_refuted_apple : ¬ DaFull := by
  intro hall
  have := hall wHash true wCh (wIn .apple (.apple ⟨wX5c, true, s "sn", s "udid-1", s "tok" ++ [0]⟩))
    ⟨.valid, .none, .ok, .none, true⟩ rfl (by decide) (by decide) rfl
  simp [DaAccept, wIn, wCh, wHash, keyAuth] at this

/-- since fix 9ce0826: an `apple` attestation without nonce extension (or with an empty one) is
    refused whenever the digest oracle returns a non-empty digest -/
theorem device_attest_apple_requires_nonce (h : Hash) (dbOk : Bool) (ch : Ch) (i : DaIn) (o : Outcome) (f : AppleFacts)
    (hp : ch.status = .pending) (hf : i.facts = .apple f) (hn : f.nonce = []) (hd : h.raw ch.token ≠ [])
    (ho : deviceAttest01Validate h dbOk ch i = .val o) : o.status ≠ .valid := by
  intro hv
  have := (device_attest_valid_only_if_partial h dbOk ch i o hp ho hv).2.2.2.2.2.2.2.2.2
  unfold DaAcceptCoded at this
  rw [hf] at this
  cases hfmt : i.format <;> simp only [hfmt] at this
  exact hd (by rw [← this.2.1, hn])

/-- **Refutation (apple, the same for every account key; reproduced)**: the
    `apple` format binds SHA-256(token) only — the same attestation is accepted whichever account
    key signs the request. -/
theorem device_attest_apple_ignores_account_key (th : Option Str) :
    deviceAttest01Validate wHash true { wCh with thumb := th }
      (wIn .apple (.apple ⟨wX5c, true, s "sn", s "udid-1", s "tok" ++ [0]⟩)) =
      .val ⟨.valid, .none, .ok, .none, true⟩ := by
  cases th <;> rfl

/-- **Refutation (D14, tpm half; reproduced on the real code with software-built TPM
    structures)**: a `tpm` attestation whose AK certificate lists no permanent identifier is
    accepted for any identifier. -/
theorem device_attest_valid_only_if_refuted_tpm : ¬ DaFull := by
  intro hall
  have := hall wHash true wCh (wIn .tpm (.tpm ⟨.ok, s "tok.thumb" ++ [0], false, true, []⟩))
    ⟨.valid, .none, .ok, .none, true⟩ rfl (by decide) (by decide) rfl
  simp [DaAccept, wIn] at this

/-- with the two gaps closed by hypothesis the clause holds: `step` always; `tpm` when the AK
    certificate lists at least one permanent identifier; `apple` never binds the account key, for
    it the nonce binds the token when present -/
theorem device_attest_valid_only_if_partial_full (h : Hash) (dbOk : Bool) (ch : Ch) (i : DaIn) (o : Outcome)
    (hp : ch.status = .pending) (hne : ch.value ≠ [])
    (happle : ∀ f, i.facts ≠ .apple f)
    (htpm : ∀ f, i.facts = .tpm f → f.permanentIdentifiers ≠ [])
    (ho : deviceAttest01Validate h dbOk ch i = .val o) (hv : o.status = .valid) : DaAccept h ch i := by
  have := (device_attest_valid_only_if_partial h dbOk ch i o hp ho hv).2.2.2.2.2.2.2.2.2
  unfold DaAcceptCoded at this
  unfold DaAccept
  cases hf : i.facts with
  | apple f => exact absurd hf (happle f)
  | step f =>
    rw [hf] at this
    cases hfmt : i.format <;> simp only [hfmt] at this
    obtain ⟨a, b, c | ⟨_, c⟩⟩ := this
    · exact ⟨a, b, c⟩
    · exact absurd c hne
  | tpm f =>
    rw [hf] at this
    cases hfmt : i.format <;> simp only [hfmt] at this
    obtain ⟨a, b, c | c⟩ := this
    · exact absurd c (htpm f hf)
    · exact ⟨a, b, c⟩
  | none =>
    rw [hf] at this
    cases hfmt : i.format <;> simp only [hfmt] at this

theorem device_attest_apple_nonce (h : Hash) (dbOk : Bool) (ch : Ch) (i : DaIn) (o : Outcome) (f : AppleFacts)
    (hp : ch.status = .pending) (hf : i.facts = .apple f)
    (ho : deviceAttest01Validate h dbOk ch i = .val o) (hv : o.status = .valid) :
    f.x5c.chainOk = true ∧ f.nonce = h.raw ch.token ∧ (f.udid = ch.value ∨ f.serial = ch.value) := by
  have := (device_attest_valid_only_if_partial h dbOk ch i o hp ho hv).2.2.2.2.2.2.2.2.2
  unfold DaAcceptCoded at this
  rw [hf] at this
  cases hfmt : i.format <;> simp only [hfmt] at this
  exact this

example : deviceAttest01Validate wHash true { wCh with value := s "123" }
    (wIn .step (.step ⟨wX5c, true, true, .rsa, fun m => m == s "tok.thumb", true, .value (s "123")⟩)) =
    .val ⟨.valid, .none, .ok, .none, true⟩ := by decide

/-! ### totality of device-attest-01 (full strength since fix b9777f2) -/

/-- `doStepAttestationFormat` as it was before fix b9777f2: two refusals were built with
    `WrapError(typ, nil, …)`, i.e. as a nil `*Error` -/
def doStepPreFix (ch : Ch) (f : StepFacts) : Fmt Str :=
  match x5cCheck .rejectedIdentifier f.x5c with
  | some (.bad e) => .bad e
  | some _ => .ise
  | none =>
    if !f.sigPresent then .bad .badAttestationStatement
    else if !f.sigCborOk then .bad .badAttestationStatement
    else match ch.thumb with
      | none => .ise
      | some th =>
        if f.key = .ecOther then .nilErr
        else if f.key = .unsupported then .bad .badAttestationStatement
        else if !f.verifies (keyAuth ch.token th) then .bad .badAttestationStatement
        else if !f.fpOk then .ise
        else match f.serial with
          | .absent => .data []
          | .malformed => .bad .badAttestationStatement
          | .trailing => .nilErr
          | .value d => .data d

/-- **Historic (pre-fix b9777f2, reproduced on that tree)**: a `step` attestation whose leaf key is
    an EC key on a curve other than P-256, or whose serial-number extension parses with trailing
    bytes, made the format function return a nil `*Error`, which `deviceAttest01Validate`
    dereferences (`acmeError.Status`) — a nil-pointer abort of the challenge handler. -/
theorem device_attest_crashes_historic :
    doStepPreFix wCh ⟨wX5c, true, true, .ecOther, fun _ => true, true, .absent⟩ = .nilErr ∧
    doStepPreFix wCh ⟨wX5c, true, true, .ecP256, fun _ => true, true, .trailing⟩ = .nilErr :=
  ⟨rfl, rfl⟩

/-- the same two inputs on the current code: refusals that make the challenge invalid -/
example : deviceAttest01Validate wHash true wCh
    (wIn .step (.step ⟨wX5c, true, true, .ecOther, fun _ => true, true, .absent⟩)) =
    .val ⟨.invalid, .badAttestationStatement, .ok, .none, false⟩ := by decide
example : deviceAttest01Validate wHash true wCh
    (wIn .step (.step ⟨wX5c, true, true, .ecP256, fun _ => true, true, .trailing⟩)) =
    .val ⟨.invalid, .badAttestationStatement, .ok, .none, false⟩ := by decide

theorem doApple_ne_nilErr (f : AppleFacts) : doApple f ≠ .nilErr := by
  unfold doApple
  intro hd
  repeat' split at hd
  all_goals simp_all

theorem doTpm_ne_nilErr (h : Hash) (ch : Ch) (f : TpmFacts) : doTpm h ch f ≠ .nilErr := by
  unfold doTpm
  intro hd
  repeat' split at hd
  all_goals simp_all

theorem doStep_ne_nilErr (ch : Ch) (f : StepFacts) : doStep ch f ≠ .nilErr := by
  unfold doStep
  intro hd
  repeat' split at hd
  all_goals simp_all

/-- **device-attest-01 validation never aborts**, for every payload, format and fact. -/
theorem device_attest_total (h : Hash) (dbOk : Bool) (ch : Ch) (i : DaIn) :
    ∃ o, deviceAttest01Validate h dbOk ch i = .val o := by
  unfold deviceAttest01Validate
  repeat' split
  all_goals first
    | exact ⟨_, rfl⟩
    | skip
  unfold daCore
  cases hfmt : i.format <;> cases hfac : i.facts <;> simp only <;> first
    | exact ⟨_, rfl⟩
    | skip
  · rename_i f
    unfold daApple
    cases hd : doApple f with
    | nilErr => exact absurd hd (doApple_ne_nilErr f)
    | ise => exact ⟨_, rfl⟩
    | bad e => exact ⟨_, rfl⟩
    | data d => simp only; repeat' split
                all_goals exact ⟨_, rfl⟩
  · rename_i f
    unfold daStep
    cases hd : doStep ch f with
    | nilErr => exact absurd hd (doStep_ne_nilErr ch f)
    | ise => exact ⟨_, rfl⟩
    | bad e => exact ⟨_, rfl⟩
    | data d => simp only; split <;> exact ⟨_, rfl⟩
  · rename_i f
    unfold daTpm
    cases hd : doTpm h ch f with
    | nilErr => exact absurd hd (doTpm_ne_nilErr h ch f)
    | ise => exact ⟨_, rfl⟩
    | bad e => exact ⟨_, rfl⟩
    | data d => simp only; split <;> exact ⟨_, rfl⟩

/-- `Challenge.Validate` never aborts on a modelled challenge type (ParseIP's 16-byte results) -/
theorem validate_total (h : Hash) (cfg : Cfg) (dbOk : Bool) (ch : Ch) (w : World)
    (h16 : ∀ a, ch.ip = some a → a.length = 16) : validate h cfg dbOk ch w ≠ .crash := by
  unfold validate
  split
  · simp
  · cases htyp : ch.typ <;> cases w <;> simp only <;> try simp
    · rename_i r
      obtain ⟨o, ho⟩ := tlsalpn01Validate_total h cfg dbOk ch r h16
      simp [ho]
    · rename_i i
      obtain ⟨o, ho⟩ := device_attest_total h dbOk ch i
      simp [ho]


/-! ## 8b. wire-dpop-01 and wire-oidc-01 -/

theorem wireFinish_valid_iff (dbOk : Bool) (ch : Ch) (a : Bool) (hp : ch.status = .pending) :
    (wireFinish dbOk ch a).status = .valid ↔ dbOk = true := by
  unfold wireFinish
  simp only
  split
  · simp only; exact store_valid_iff _ _ _ _ hp
  · exact store_valid_iff _ _ _ _ hp

/-- the accepting condition of wire-dpop-01 -/
def DpopAccept (ch : Ch) (f : DpopFacts) : Prop :=
  f.provOk = true ∧ f.payloadOk = true ∧ f.idOk = true ∧ f.targetOk = true ∧ dpopTokenOk ch f = true

/-- **wire-dpop-01 turns valid exactly when** the payload parses, the stored identifier is a Wire
    device id, and every check of `parseAndVerifyWireAccessToken` passes — for every payload. -/
theorem wiredpop01_valid_only_if (dbOk : Bool) (ch : Ch) (f : DpopFacts) (hp : ch.status = .pending) :
    (wireDpop01Validate dbOk ch f).status = .valid ↔ dbOk = true ∧ DpopAccept ch f := by
  unfold wireDpop01Validate DpopAccept
  cases h1 : f.provOk
  · simp [noWrite, hp]
  cases h2 : f.payloadOk
  · simp [noWrite, hp]
  cases h3 : f.idOk
  · simp [noWrite, hp]
  cases h4 : f.targetOk
  · simp [noWrite, hp]
  cases h5 : dpopTokenOk ch f
  · simp [storeError_not_valid _ _ _ _ _ hp]
  · simp [wireFinish_valid_iff _ _ _ hp]

/-- **what an accepted wire-dpop-01 response proves**: the access token is signed by the configured
    wire-server key and names this challenge's URL, the evaluated issuer and the stored client id;
    its `cnf.kid` is the requesting account's key id; the DPoP proof is signed by the *requesting
    account's key*, carries that key id, this challenge's *token* (`chal`), the same nonce and
    challenge as the access token, the URL, and the stored handle and display name. -/
theorem dpopTokenOk_spec (ch : Ch) (f : DpopFacts) (h : dpopTokenOk ch f = true) :
    (f.tok.sigOk = true ∧ f.tok.kid = f.serverKid ∧ f.tok.timeOk = true ∧ f.tok.expTooFar = false) ∧
    (f.atIss = f.issuer ∧ f.audience ∈ f.atAud ∧ f.atClientId = f.clientId ∧ f.atScope = s "wire_client_id") ∧
    (f.atCnfKid = f.accountKid ∧ f.pf.kid = some f.accountKid ∧ f.pf.sigOk = true) ∧
    (f.mapChal = some ch.token ∧ f.pfChal = f.atChal ∧ f.pfNonce = f.atNonce ∧ f.pfNonce ≠ []) ∧
    (f.audience ∈ f.pfAud ∧ f.pfHtu = f.issuer ∧ f.pfSub = f.clientId ∧ f.pf.timeOk = true ∧ f.pf.expTooFar = false) ∧
    (f.mapHandle = some f.handle ∧ f.mapName = some f.name) := by
  unfold dpopTokenOk at h
  simp only [Bool.and_eq_true, beq_iff_eq, bne_iff_ne, ne_eq, Bool.not_eq_true', List.contains_iff_mem] at h
  obtain ⟨⟨⟨⟨⟨⟨⟨⟨⟨⟨⟨⟨⟨⟨⟨⟨⟨⟨⟨⟨⟨⟨⟨⟨⟨⟨⟨⟨⟨⟨⟨⟨⟨⟨⟨⟨⟨⟨a1, a2⟩, a3⟩, a4⟩, a5⟩, a6⟩, a7⟩, a8⟩, a9⟩, a10⟩, a11⟩, a12⟩, a13⟩, a14⟩, a15⟩, a16⟩, a17⟩, a18⟩, a19⟩, a20⟩, a21⟩, a22⟩, a23⟩, a24⟩, a25⟩, a26⟩, a27⟩, a28⟩, a29⟩, a30⟩, a31⟩, a32⟩, a33⟩, a34⟩, a35⟩, a36⟩, a37⟩, a38⟩, a39⟩ := h
  exact ⟨⟨a6, a5, a7, a14⟩, ⟨a8, a9, a13, a15⟩, ⟨a12, a18, a19⟩, ⟨a33, a29, a27, a26⟩, ⟨a21, a23, a25, a20, a24⟩, ⟨a36, a39⟩⟩

def OidcAccept (ch : Ch) (f : OidcFacts) : Prop :=
  f.provOk = true ∧ f.payloadOk = true ∧ f.idOk = true ∧ f.verifierOk = true ∧ f.verifyOk = true ∧ f.claimsOk = true ∧
  (∃ th, ch.thumb = some th ∧ f.keyauth = keyAuth ch.token th) ∧ f.acmeAud = f.audience ∧
  f.transformOk = true ∧ f.tName = some f.name ∧ f.tHandle = some f.handle

theorem oidcPost_iff (ch : Ch) (th : Str) (f : OidcFacts) :
    oidcPost ch th f = true ↔ f.keyauth = keyAuth ch.token th ∧ f.acmeAud = f.audience ∧ f.transformOk = true ∧
      f.tName = some f.name ∧ f.tHandle = some f.handle := by
  unfold oidcPost
  simp only [Bool.and_eq_true, beq_iff_eq]
  constructor
  · rintro ⟨⟨⟨⟨a, b⟩, c⟩, d⟩, e⟩; exact ⟨a.symm, b, c, d, e⟩
  · rintro ⟨a, b, c, d, e⟩; exact ⟨⟨⟨⟨a.symm, b⟩, c⟩, d⟩, e⟩

/-- **wire-oidc-01 turns valid exactly when** the id token verifies under the configured provider,
    its `keyauth` claim *equals* token "." thumbprint of the requesting account's key, its `acme_aud`
    claim is this challenge's URL, and the (transformed) name and preferred_username are the stored
    identifier's display name and handle. -/
theorem wireoidc01_valid_only_if (dbOk : Bool) (ch : Ch) (f : OidcFacts) (hp : ch.status = .pending) :
    (wireOidc01Validate dbOk ch f).status = .valid ↔ dbOk = true ∧ OidcAccept ch f := by
  unfold wireOidc01Validate OidcAccept
  cases h1 : f.provOk
  · simp [noWrite, hp]
  cases h2 : f.payloadOk
  · simp [noWrite, hp]
  cases h3 : f.idOk
  · simp [noWrite, hp]
  cases h4 : f.verifierOk
  · simp [noWrite, hp]
  cases h5 : oidcPre f
  · have : ¬ (f.verifyOk = true ∧ f.claimsOk = true) := by
      unfold oidcPre at h5; intro ⟨a, b⟩; simp [a, b] at h5
    simp only [Bool.not_true, Bool.false_eq_true, if_false, Bool.not_false, if_true, true_and]
    constructor
    · intro hv; exact absurd hv (storeError_not_valid _ _ _ _ _ hp)
    · rintro ⟨_, a, b, _⟩; exact absurd ⟨a, b⟩ this
  · have hpre : f.verifyOk = true ∧ f.claimsOk = true := by
      unfold oidcPre at h5; simpa using h5
    simp only [Bool.not_true, Bool.false_eq_true, if_false, true_and, hpre.1, hpre.2]
    cases hth : ch.thumb with
    | none => simp [noWrite, hp]
    | some th =>
      simp only [Option.some.injEq, exists_eq_left']
      cases h6 : oidcPost ch th f
      · simp only [Bool.not_false, if_true]
        constructor
        · intro hv; exact absurd hv (storeError_not_valid _ _ _ _ _ hp)
        · rintro ⟨_, hh⟩
          have := (oidcPost_iff ch th f).2 hh
          rw [h6] at this; cases this
      · simp only [Bool.not_true, Bool.false_eq_true, if_false]
        rw [wireFinish_valid_iff _ _ _ hp]
        exact ⟨fun hd => ⟨hd, (oidcPost_iff ch th f).1 h6⟩, fun hh => hh.1⟩

/-- both Wire validators store the challenge valid *before* they look up the account's orders and
    keep the token: a failure there returns an internal error although the challenge is already valid -/
theorem wire_valid_before_token_store (dbOk : Bool) (ch : Ch) (f : DpopFacts) (hp : ch.status = .pending)
    (hd : dbOk = true) (ha : DpopAccept ch f) (hf : (f.ordersOk && f.tokenStoreOk) = false) :
    (wireDpop01Validate dbOk ch f).status = .valid ∧ (wireDpop01Validate dbOk ch f).ret = .ise := by
  obtain ⟨h1, h2, h3, h4, h5⟩ := ha
  unfold wireDpop01Validate wireFinish
  simp [h1, h2, h3, h4, h5, hd, store, hf]

/-! ## 9. the dispatcher: nothing else ever turns a challenge valid -/

/-- `Challenge.Validate` does nothing to a challenge that is not pending, and a pending challenge
    of a modelled type turns valid only through its own validator's accepting condition. -/
theorem validate_valid_only_if (h : Hash) (cfg : Cfg) (dbOk : Bool) (ch : Ch) (w : World) (o : Outcome)
    (hp : ch.status = .pending) (hv : validate h cfg dbOk ch w = .done o) (hval : o.status = .valid) :
    dbOk = true ∧
    ((ch.typ = .http01 ∧ ∃ r, w = .http r ∧ HttpAccept ch r) ∨
     (ch.typ = .dns01 ∧ ∃ r, w = .txt r ∧ DnsAccept h ch r) ∨
     (ch.typ = .tlsalpn01 ∧ ∃ r, w = .tls r ∧ TlsAccept h ch r) ∨
     (ch.typ = .deviceAttest01 ∧ ∃ i, w = .attest i ∧ DaAcceptCoded h ch i) ∨
     (ch.typ = .wireDpop01 ∧ ∃ f, w = .dpop f ∧ DpopAccept ch f) ∨
     (ch.typ = .wireOidc01 ∧ ∃ f, w = .oidc f ∧ OidcAccept ch f)) := by
  unfold validate at hv
  simp only [hp, ne_eq, not_true_eq_false, if_false] at hv
  cases htyp : ch.typ with
  | http01 =>
    cases w with
    | http r =>
      simp only [htyp] at hv
      injection hv with hv; subst hv
      have := (http01_valid_only_if cfg dbOk ch r hp).1 hval
      exact ⟨this.1, .inl ⟨rfl, r, rfl, this.2⟩⟩
    | _ => simp [htyp] at hv
  | dns01 =>
    cases w with
    | txt r =>
      simp only [htyp] at hv
      injection hv with hv; subst hv
      have := (dns01_valid_only_if h cfg dbOk ch r hp).1 hval
      exact ⟨this.1, .inr (.inl ⟨rfl, r, rfl, this.2⟩)⟩
    | _ => simp [htyp] at hv
  | tlsalpn01 =>
    cases w with
    | tls r =>
      simp only [htyp] at hv
      cases ho : tlsalpn01Validate h cfg dbOk ch r with
      | crash => simp [ho] at hv
      | val o' =>
        simp only [ho] at hv
        injection hv with hv; subst hv
        have := (tlsalpn01_valid_only_if h cfg dbOk ch r o' hp ho).1 hval
        exact ⟨this.1, .inr (.inr (.inl ⟨rfl, r, rfl, this.2⟩))⟩
    | _ => simp [htyp] at hv
  | deviceAttest01 =>
    cases w with
    | attest i =>
      simp only [htyp] at hv
      cases ho : deviceAttest01Validate h dbOk ch i with
      | crash => simp [ho] at hv
      | val o' =>
        simp only [ho] at hv
        injection hv with hv; subst hv
        have := device_attest_valid_only_if_partial h dbOk ch i o' hp ho hval
        exact ⟨this.1, .inr (.inr (.inr (.inl ⟨rfl, i, rfl, this.2.2.2.2.2.2.2.2.2⟩)))⟩
    | _ => simp [htyp] at hv
  | wireOidc01 =>
    cases w with
    | oidc f =>
      simp only [htyp] at hv
      injection hv with hv; subst hv
      have := (wireoidc01_valid_only_if dbOk ch f hp).1 hval
      exact ⟨this.1, .inr (.inr (.inr (.inr (.inr ⟨rfl, f, rfl, this.2⟩))))⟩
    | _ => simp [htyp] at hv
  | wireDpop01 =>
    cases w with
    | dpop f =>
      simp only [htyp] at hv
      injection hv with hv; subst hv
      have := (wiredpop01_valid_only_if dbOk ch f hp).1 hval
      exact ⟨this.1, .inr (.inr (.inr (.inr (.inl ⟨rfl, f, rfl, this.2⟩))))⟩
    | _ => simp [htyp] at hv
  | unknown =>
    have : o = noWrite ch .none := by cases w <;> simp [htyp] at hv <;> exact hv.symm
    subst this
    exact absurd hval (noWrite_not_valid _ _ hp)

theorem validate_not_pending_noop (h : Hash) (cfg : Cfg) (dbOk : Bool) (ch : Ch) (w : World)
    (hp : ch.status ≠ .pending) :
    validate h cfg dbOk ch w = .done ⟨ch.status, ch.err, .ok, .none, false⟩ := by
  unfold validate; simp [hp]

/-- **never valid otherwise**: for a pending challenge of a modelled type, unless the validator's
    accepting condition holds the stored status afterwards is pending or invalid, and the
    authorization that owns the challenge does not become valid. -/
theorem never_valid_otherwise (h : Hash) (cfg : Cfg) (dbOk : Bool) (ch : Ch) (w : World) (o : Outcome)
    (hp : ch.status = .pending) (hv : validate h cfg dbOk ch w = .done o)
    (hn : ¬ ((∃ r, w = .http r ∧ HttpAccept ch r) ∨ (∃ r, w = .txt r ∧ DnsAccept h ch r) ∨
             (∃ r, w = .tls r ∧ TlsAccept h ch r) ∨ (∃ i, w = .attest i ∧ DaAcceptCoded h ch i) ∨
             (∃ f, w = .dpop f ∧ DpopAccept ch f) ∨ (∃ f, w = .oidc f ∧ OidcAccept ch f))) :
    o.status ≠ .valid ∧ authzAfter o = .pending := by
  have : o.status ≠ .valid := by
    intro hval
    obtain ⟨_, hc⟩ := validate_valid_only_if h cfg dbOk ch w o hp hv hval
    apply hn
    rcases hc with ⟨_, r, a, b⟩ | ⟨_, r, a, b⟩ | ⟨_, r, a, b⟩ | ⟨_, r, a, b⟩ | ⟨_, r, a, b⟩ | ⟨_, r, a, b⟩
    · exact .inl ⟨r, a, b⟩
    · exact .inr (.inl ⟨r, a, b⟩)
    · exact .inr (.inr (.inl ⟨r, a, b⟩))
    · exact .inr (.inr (.inr (.inl ⟨r, a, b⟩)))
    · exact .inr (.inr (.inr (.inr (.inl ⟨r, a, b⟩))))
    · exact .inr (.inr (.inr (.inr (.inr ⟨r, a, b⟩))))
  exact ⟨this, by unfold authzAfter; simp [this]⟩

/-! ## 10. the owning authorization: only `Authorization.UpdateStatus` decides its status -/

/-- an authorization is valid after `UpdateStatus` only if it already was, or it was pending, not
    expired, and one of its challenges is valid -/
theorem authz_valid_cause (az : AzRec) (cv : Bool) :
    authzUpdateStatus az cv = .valid →
      az.status = .valid ∨ (az.status = .pending ∧ az.expired = false ∧ cv = true) := by
  unfold authzUpdateStatus
  cases hs : az.status <;> simp
  cases az.expired <;> cases cv <;> simp


/-- **An authorization becomes valid only through a valid challenge**, however many challenges it
    has and whatever the others are: all of them invalid (or some invalid, some pending) leaves a
    pending authorization pending -/
theorem authz_valid_needs_valid_challenge (az : AzRec) (chs : List Status) :
    authzUpdateStatusL az chs = .valid → az.status = .valid ∨ (az.status = .pending ∧ az.expired = false ∧ .valid ∈ chs) := by
  intro hv
  unfold authzUpdateStatusL at hv
  rcases authz_valid_cause _ _ hv with h | ⟨h1, h2, h3⟩
  · exact .inl h
  · refine .inr ⟨h1, h2, ?_⟩
    obtain ⟨x, hx, he⟩ := List.any_eq_true.1 h3
    have : x = .valid := by simpa using he
    rw [← this]; exact hx

example : authzUpdateStatusL ⟨.pending, false⟩ [.invalid, .invalid, .invalid] = .pending := by decide
example : authzUpdateStatusL ⟨.pending, false⟩ [.invalid, .valid, .pending] = .valid := by decide

/-- **A late but genuine attestation revives nothing**: whatever `deviceAttest01Validate` does
    (any payload, any outcome, also a *valid* challenge), an authorization that is stored invalid,
    or pending but expired, is not valid afterwards — the validator writes the fingerprint into the
    record, never its status or expiry. -/
theorem authz_not_revived (h : Hash) (dbOk : Bool) (ch : Ch) (i : DaIn) (o : Outcome) (az : AzRec)
    (_ : deviceAttest01Validate h dbOk ch i = .val o)
    (hd : az.status = .invalid ∨ (az.status = .pending ∧ az.expired = true)) :
    authzUpdateStatus (daAuthzRecord az o) (o.status = .valid) ≠ .valid := by
  intro hv
  rcases authz_valid_cause _ _ hv with h1 | ⟨h1, h2, _⟩ <;> unfold daAuthzRecord at h1
  · rcases hd with hd | ⟨hd, _⟩ <;> rw [hd] at h1 <;> cases h1
  · unfold daAuthzRecord at h2
    rcases hd with hd | ⟨_, hd⟩
    · rw [hd] at h1; cases h1
    · rw [hd] at h2; cases h2

example : authzUpdateStatus (daAuthzRecord ⟨.pending, false⟩ ⟨.valid, .none, .ok, .none, true⟩) true = .valid := by decide
example : authzUpdateStatus (daAuthzRecord ⟨.pending, true⟩ ⟨.valid, .none, .ok, .none, true⟩) true = .invalid := by decide

/-- **An authorization turns valid only through its own challenges**: when the authorization
    loaded by `deviceAttest01Validate` (its id comes from the request URL) is another identifier's
    — none of its own challenges valid — then whatever the attestation is, and even though the
    device challenge itself may turn valid, that authorization is valid afterwards only if it
    already was. -/
theorem authz_foreign_not_valid (az : AzRec) (o : Outcome) (hs : az.status ≠ .valid) :
    authzUpdateStatus (daAuthzRecord az o) (ownChallengeValid true o) ≠ .valid := by
  intro hv
  rcases authz_valid_cause _ _ hv with h1 | ⟨_, _, h3⟩
  · exact hs h1
  · simp [ownChallengeValid] at h3

/-- **tpm: the qualifying data must be the whole digest.**  If `certInfo.extraData` differs from
    SHA-256(token "." thumbprint) in any way — empty, a proper prefix, longer, another account's or
    another token's digest — the challenge does not turn valid. -/
theorem tpm_qualifying_data_must_equal_digest (h : Hash) (dbOk : Bool) (ch : Ch) (i : DaIn) (o : Outcome) (f : TpmFacts)
    (hp : ch.status = .pending) (hf : i.facts = .tpm f)
    (hne : ∀ th, ch.thumb = some th → f.extraData ≠ h.raw (keyAuth ch.token th))
    (ho : deviceAttest01Validate h dbOk ch i = .val o) : o.status ≠ .valid := by
  intro hv
  have := (device_attest_valid_only_if_partial h dbOk ch i o hp ho hv).2.2.2.2.2.2.2.2.2
  unfold DaAcceptCoded at this
  rw [hf] at this
  cases hfmt : i.format <;> simp only [hfmt] at this
  obtain ⟨_, ⟨th, h1, h2⟩, _⟩ := this
  exact hne th h1 h2

example : (deviceAttest01Validate wHash true wCh
    (wIn .tpm (.tpm ⟨.ok, [], false, true, [s "udid-1"]⟩))) =
    .val ⟨.invalid, .badAttestationStatement, .ok, .none, false⟩ := by decide
example : (deviceAttest01Validate wHash true wCh
    (wIn .tpm (.tpm ⟨.ok, s "tok.thumb" ++ [0], false, true, [s "udid-1"]⟩))) =
    .val ⟨.valid, .none, .ok, .none, true⟩ := by decide

/-! ## 11. the request handler `api.GetChallenge` and the authorization polls -/

/-- **Only the owning account can move a challenge**: a request signed by any other account is
    answered 401; the stored challenge is untouched and the validation client is not used —
    whatever the host would have served, whichever key authorization it carries. -/
theorem getChallenge_not_owner (h : Hash) (cfg : Cfg) (dbOk : Bool) (ch : Ch) (w : World) (req : HReq)
    (ha : req.authed = true) (hex : req.chExists = true) (hno : req.owner = false) :
    getChallenge h cfg dbOk ch w req = .val ⟨.unauthorized, untouched ch⟩ := by
  unfold getChallenge; simp [ha, hex, hno]

/-- a request the middleware refuses (no `kid`, unknown or inactive account, account of another
    provisioner, signature not by the account's stored key) never reaches the handler -/
theorem getChallenge_not_authenticated (h : Hash) (cfg : Cfg) (dbOk : Bool) (ch : Ch) (w : World) (req : HReq)
    (ha : req.authed = false) :
    getChallenge h cfg dbOk ch w req = .val ⟨.notFound, untouched ch⟩ := by
  unfold getChallenge; simp [ha]

theorem getChallenge_unknown_challenge (h : Hash) (cfg : Cfg) (dbOk : Bool) (ch : Ch) (w : World) (req : HReq)
    (hex : req.chExists = false) :
    getChallenge h cfg dbOk ch w req = .val ⟨.notFound, untouched ch⟩ := by
  unfold getChallenge; cases req.authed <;> simp [hex]

/-- **A POST to the challenge URL turns the stored challenge valid only if** the challenge exists,
    the signing account owns it, and its validator's accepting condition holds for the response —
    with the key authorization computed from the stored token and the *requesting account's* key
    (`ch.thumb`), and, for device-attest-01, with the authorization the URL names loadable. -/
theorem getChallenge_valid_only_if (h : Hash) (cfg : Cfg) (dbOk : Bool) (ch : Ch) (w : World) (req : HReq) (r : HOut)
    (hp : ch.status = .pending) (hr : getChallenge h cfg dbOk ch w req = .val r) (hv : r.effect.status = .valid) :
    req.authed = true ∧ req.chExists = true ∧ req.owner = true ∧ dbOk = true ∧
    ((ch.typ = .http01 ∧ ∃ x, worldVia req.azUrl w = .http x ∧ HttpAccept ch x) ∨
     (ch.typ = .dns01 ∧ ∃ x, worldVia req.azUrl w = .txt x ∧ DnsAccept h ch x) ∨
     (ch.typ = .tlsalpn01 ∧ ∃ x, worldVia req.azUrl w = .tls x ∧ TlsAccept h ch x) ∨
     (ch.typ = .deviceAttest01 ∧ ∃ i, worldVia req.azUrl w = .attest i ∧ DaAcceptCoded h ch i) ∨
     (ch.typ = .wireDpop01 ∧ ∃ f, worldVia req.azUrl w = .dpop f ∧ DpopAccept ch f) ∨
     (ch.typ = .wireOidc01 ∧ ∃ f, worldVia req.azUrl w = .oidc f ∧ OidcAccept ch f)) := by
  unfold getChallenge at hr
  cases hau : req.authed
  · simp [hau] at hr; subst hr; simp [untouched, hp] at hv
  cases hex : req.chExists
  · simp [hau, hex] at hr; subst hr; simp [untouched, hp] at hv
  · cases hown : req.owner
    · simp [hau, hex, hown] at hr; subst hr; simp [untouched, hp] at hv
    · simp only [hau, hex, hown, Bool.not_true, Bool.false_eq_true, if_false] at hr
      cases hval : validate h cfg dbOk ch (worldVia req.azUrl w) with
      | crash => simp [hval] at hr
      | unmodelled => simp only [hval] at hr; injection hr with hr; subst hr; simp [untouched, hp] at hv
      | mismatch => simp only [hval] at hr; injection hr with hr; subst hr; simp [untouched, hp] at hv
      | done o =>
        simp only [hval] at hr
        injection hr with hr; subst hr
        obtain ⟨hd, hc⟩ := validate_valid_only_if h cfg dbOk ch _ o hp hval hv
        exact ⟨rfl, rfl, rfl, hd, hc⟩

/-- an unknown authorization id in the URL never yields a valid device-attest-01 challenge -/
theorem getChallenge_missing_authz (h : Hash) (cfg : Cfg) (dbOk : Bool) (ch : Ch) (i : DaIn) (req : HReq) (r : HOut)
    (hp : ch.status = .pending) (ht : ch.typ = .deviceAttest01) (hm : req.azUrl = .missing)
    (hr : getChallenge h cfg dbOk ch (.attest i) req = .val r) : r.effect.status ≠ .valid := by
  intro hv
  unfold getChallenge at hr
  cases hau : req.authed
  · simp [hau] at hr; subst hr; simp [untouched, hp] at hv
  cases hex : req.chExists
  · simp [hau, hex] at hr; subst hr; simp [untouched, hp] at hv
  · cases hown : req.owner
    · simp [hau, hex, hown] at hr; subst hr; simp [untouched, hp] at hv
    · simp only [hau, hex, hown, Bool.not_true, Bool.false_eq_true, if_false, worldVia, hm, if_true] at hr
      unfold validate at hr
      simp only [hp, ne_eq, not_true_eq_false, if_false, ht] at hr
      cases hd : deviceAttest01Validate h dbOk ch { i with authzOk := false, authzMissing := true } with
      | crash => simp [hd] at hr
      | val o =>
        simp only [hd] at hr
        injection hr with hr; subst hr
        have := (device_attest_valid_only_if_partial h dbOk ch _ o hp hd hv).2.1
        simp at this

/-- a 200 answer shows the stored state: the validator returned nil, so what it wrote is stored -/
theorem getChallenge_ok_ret (h : Hash) (cfg : Cfg) (dbOk : Bool) (ch : Ch) (w : World) (req : HReq) (r : HOut)
    (hr : getChallenge h cfg dbOk ch w req = .val r) (hc : r.code = .ok) : r.effect.ret = .ok := by
  unfold getChallenge at hr
  split at hr; · injection hr with hr; subst hr; cases hc
  split at hr; · injection hr with hr; subst hr; cases hc
  split at hr; · injection hr with hr; subst hr; cases hc
  split at hr
  · rename_i o _
    injection hr with hr; subst hr
    cases hret : o.ret <;> simp [hret] at hc ⊢
  · cases hr
  · injection hr with hr; subst hr; cases hc
  · injection hr with hr; subst hr; cases hc

/-- the handler never aborts (ParseIP's 16-byte results) -/
theorem getChallenge_total (h : Hash) (cfg : Cfg) (dbOk : Bool) (ch : Ch) (w : World) (req : HReq)
    (h16 : ∀ a, ch.ip = some a → a.length = 16) : getChallenge h cfg dbOk ch w req ≠ .crash := by
  unfold getChallenge
  split; · simp
  split; · simp
  split; · simp
  have := validate_total h cfg dbOk ch (worldVia req.azUrl w) h16
  split <;> simp_all

/-- **End to end**: after the POST and a poll of the owning authorization, that authorization is
    valid only if it already was, or it was pending and unexpired and the stored challenge is valid;
    an authorization merely *named in the URL* is valid only if it already was. -/
theorem handler_authz_valid_cause (own foreign : AzRec) (e : Outcome) :
    (pollOwn own e = .valid → own.status = .valid ∨ (own.status = .pending ∧ own.expired = false ∧ e.status = .valid)) ∧
    (pollForeign foreign = .valid → foreign.status = .valid) := by
  constructor
  · intro hv
    rcases authz_valid_cause _ _ hv with h1 | ⟨h1, h2, h3⟩
    · exact .inl h1
    · exact .inr ⟨h1, h2, by simpa using h3⟩
  · intro hv
    rcases authz_valid_cause _ _ hv with h1 | ⟨_, _, h3⟩
    · exact h1
    · cases h3

example : getChallenge wHash ⟨false, 0, 0⟩ true
    ⟨.http01, .pending, .none, s "example.com", s "tok", some (s "thumb"), none⟩
    (.http (.resp 200 (some (s "tok.thumb")))) ⟨true, true, true, .own⟩ =
    .val ⟨.ok, ⟨.valid, .none, .ok, .httpGet (s "http://example.com/.well-known/acme-challenge/tok"), false⟩⟩ := by decide

/-! ## 12. what the source-derived tables mean (stage `src`, regenerated with go/ast on every run) -/

/-- **The only functions of package acme that set a challenge's status to valid are the six
    validators `Challenge.Validate` dispatches to** — four of them modelled here with a proved
    accepting condition, the two Wire validators listed but not modelled.  A new writer changes the
    regenerated table and this obligation. -/
def dispatchedTypes : List ChType := [.http01, .dns01, .tlsalpn01, .deviceAttest01, .wireOidc01, .wireDpop01]

theorem src_challenge_valid_writers :
    ∀ e ∈ Src.statusWriters, e.2.1 = "ch" → e.2.2 = "StatusValid" →
      ∃ t ∈ dispatchedTypes, t.goValidator = e.1 ∧ (t.goConst, e.1) ∈ Src.dispatch := by
  decide

/-- the only other writer of a challenge status is `storeError` (invalid) -/
theorem src_challenge_other_writers :
    ∀ e ∈ Src.statusWriters, e.2.1 = "ch" → e.2.2 ≠ "StatusValid" → e = ("storeError", "ch", "StatusInvalid") := by
  decide

/-- **`Authorization.UpdateStatus` is the only function that assigns an authorization's status**,
    in package acme and in package acme/api; `deviceAttest01Validate` writes an authorization
    record (the fingerprint) without assigning its status — which is what `daAuthzRecord` models
    and `authz_not_revived` / `authz_foreign_not_valid` rely on. -/
theorem src_authz_status_single_writer :
    (∀ e ∈ Src.statusWriters, e.2.1 = "az" → e.1 = "Authorization.UpdateStatus") ∧
    (∀ e ∈ Src.apiStatusWriters, e.2.1 ≠ "az") ∧
    Src.authzUpdaters = ["Authorization.UpdateStatus", "deviceAttest01Validate"] ∧ Src.apiAuthzUpdaters = [] ∧
    (∀ e ∈ Src.statusWriters, e.1 ≠ "deviceAttest01Validate" ∨ e.2.1 = "ch") := by
  decide

/-- `Challenge.Validate` returns at once unless the challenge is pending and then calls, for each
    modelled type, exactly the validator `validate` models for it -/
theorem src_dispatch_agrees :
    Src.dispatchGuard = "pending-only" ∧
    (∀ t : ChType, (Src.dispatch.find? (·.1 = t.goConst)).map (·.2) = some t.goValidator) ∧
    Src.dispatch.length = 7 := by
  refine ⟨rfl, ?_, rfl⟩
  intro t; cases t <;> decide

/-- **`api.challengeTypes` as written in the source is the model's `challengeTypes`**, for every
    identifier type and wildcard flag -/
theorem src_types_agree (t : IdType) (w : Bool) :
    Src.typesFor t.goConst w = (challengeTypes t w).map (fun c => "acme." ++ c.goConst) := by
  cases t <;> cases w <;> decide

/-- `api.GetChallenge` as written: the ownership comparison is a top-level statement that returns,
    placed before `ch.Validate`; the key handed to `Validate` is the one `jwkFromContext` returned
    and is assigned once; the challenge comes from `db.GetChallenge`; the authorization id is the URL
    parameter — the shape `getChallenge` models -/
theorem src_handler_shape :
    Src.handlerOrder = "ownership-then-validate;validate(ctx+db+jwk+payload.value);jwk=jwkFromContext();jwk-assignments=1;ch=db.GetChallenge;ch.AuthorizationID=azID;azID=chi.URLParam:authzID" := rfl

/-! ## 13. provisioner configuration glue: what is offered, and what survives the admin database -/

/-- the provisioner's filter only removes challenge types: a wildcard DNS identifier still gets
    neither http-01 nor tls-alpn-01, and only DNS identifiers are ever marked wildcard -/
theorem offered_filtered (p : ProvCfg) (t : IdType) (raw : Str) :
    (offered p t raw).1 = (newAuthorization t raw).1 ∧ (offered p t raw).2.1 = (newAuthorization t raw).2.1 ∧
    (∀ c ∈ (offered p t raw).2.2, c ∈ (newAuthorization t raw).2.2 ∧ isChallengeEnabled p c = true) := by
  unfold offered
  refine ⟨rfl, rfl, ?_⟩
  intro c hc
  simpa [List.mem_filter] using hc

theorem offered_wildcard (p : ProvCfg) (raw : Str) (h : (s "*.").isPrefixOf raw = true) :
    .http01 ∉ (offered p .dns raw).2.2 ∧ .tlsalpn01 ∉ (offered p .dns raw).2.2 := by
  unfold offered newAuthorization trimIfWildcard challengeTypes
  simp [h, List.mem_filter]

theorem lo_lo (c : Nat) : lo (lo c) = lo c := by
  unfold lo
  by_cases h : 65 ≤ c ∧ c ≤ 90
  · have : ¬ (65 ≤ c + 32 ∧ c + 32 ≤ 90) := by omega
    rw [if_pos h, if_neg this]
  · rw [if_neg h, if_neg h]

theorem lower_lower (a : Str) : lower (lower a) = lower a := by
  unfold lower; simp [List.map_map, Function.comp_def, lo_lo]

theorem foldEq_lower_left (a b : Str) : foldEq (lower a) b = foldEq a b := by
  unfold foldEq; rw [show (lower a).map lo = a.map lo from lower_lower a]

/-- **attestation formats survive the admin database**: every format `Init` accepts exists in the
    linkedca enumeration, so the set of enabled formats is the same before and after migration -/
theorem migrate_preserves_formats (p : ProvCfg) (hv : ∀ n ∈ p.formats, linkedcaFormats.contains (lower n) = true)
    (f : Str) : isFormatEnabled (migrate p) f = isFormatEnabled p f := by
  have hm : (migrate p).formats = p.formats.map lower := by
    unfold migrate
    simp only
    apply List.filter_eq_self.2
    intro x hx
    obtain ⟨n, hn, rfl⟩ := List.mem_map.1 hx
    exact hv n hn
  unfold isFormatEnabled
  rw [hm]
  by_cases he : p.formats = []
  · simp [he]
  · have : p.formats.map lower ≠ [] := by simpa using he
    simp only [he, this, if_false, List.any_map, Function.comp_def, foldEq_lower_left]

/-- the attestation roots are carried through the admin database unchanged: the pool
    device-attest-01 verifies against after migration is the configured one, never the empty pool
    (which for step / apple means the built-in vendor root) -/
theorem migrate_preserves_roots (p : ProvCfg) : (migrate p).roots = p.roots := rfl

/-- the clause one would want: the challenge types a provisioner offers are the same after the
    configuration went through the admin database -/
def MigrationKeepsChallenges : Prop :=
  ∀ (p : ProvCfg), (∀ n ∈ p.challenges, ∃ c : ChType, c ≠ .unknown ∧ lower n = c.name) →
    ∀ c ∈ [ChType.http01, .dns01, .tlsalpn01, .deviceAttest01], isChallengeEnabled (migrate p) c = isChallengeEnabled p c

/-- **Refutation (reproduced on the real code)**: a provisioner configured with Wire challenges only
    offers no http-01 / dns-01 / tls-alpn-01; the linkedca enumeration has no Wire challenge types,
    the conversion *skips* them, the list comes back empty, and an empty list means the three
    default challenges: after migration the provisioner offers what it was configured not to. -/
theorem migrate_wire_only_opens_defaults : ¬ MigrationKeepsChallenges := by
  intro h
  have := h ⟨[s "wire-oidc-01", s "wire-dpop-01"], [], 0⟩
    (by intro n hn
        simp at hn
        rcases hn with rfl | rfl
        · exact ⟨.wireOidc01, by decide, by decide⟩
        · exact ⟨.wireDpop01, by decide, by decide⟩)
    .http01 (by simp)
  revert this; decide

theorem mem_filter_contains (l : List Str) (x : Str) :
    ((l.map lower).filter (linkedcaChallenges.contains ·)).any (fun n => foldEq n x) =
      l.any (fun n => linkedcaChallenges.contains (lower n) && foldEq n x) := by
  induction l with
  | nil => rfl
  | cons a as ih =>
    by_cases hc : linkedcaChallenges.contains (lower a) = true
    · rw [List.map_cons, List.filter_cons_of_pos (by simpa using hc)]
      simp only [List.any_cons, ih, hc, Bool.true_and, foldEq_lower_left]
    · have hf : linkedcaChallenges.contains (lower a) = false := by simpa using hc
      rw [List.map_cons, List.filter_cons_of_neg (by simpa using hc)]
      simp only [List.any_cons, ih, hf, Bool.false_and, Bool.false_or]

/-- with the gap closed by hypothesis — at least one configured challenge is one linkedca knows,
    or none is configured — migration changes nothing for the four representable types -/
theorem migrate_preserves_challenges_partial (p : ProvCfg)
    (hne : p.challenges = [] ∨ ∃ n ∈ p.challenges, linkedcaChallenges.contains (lower n) = true)
    (c : ChType) (hc : c ∈ [ChType.http01, .dns01, .tlsalpn01, .deviceAttest01]) :
    isChallengeEnabled (migrate p) c = isChallengeEnabled p c := by
  have hcn : ∀ n : Str, foldEq n c.name = true → linkedcaChallenges.contains (lower n) = true := by
    intro n hn
    have : lower n = c.name := by
      have h2 : lower c.name = c.name := by
        simp at hc; rcases hc with rfl | rfl | rfl | rfl <;> decide
      unfold foldEq at hn
      have := of_decide_eq_true (by simpa using hn) 
      unfold lower at h2 ⊢
      rw [this, h2]
    rw [this]
    simp at hc; rcases hc with rfl | rfl | rfl | rfl <;> decide
  rcases hne with he | ⟨n0, hn0, hr0⟩
  · unfold isChallengeEnabled migrate; simp [he]
  · have hmne : (migrate p).challenges ≠ [] := by
      unfold migrate
      simp only
      intro hnil
      have : lower n0 ∈ (p.challenges.map lower).filter (linkedcaChallenges.contains ·) :=
        List.mem_filter.2 ⟨List.mem_map.2 ⟨n0, hn0, rfl⟩, hr0⟩
      rw [hnil] at this; cases this
    have hpne : p.challenges ≠ [] := by intro h; rw [h] at hn0; cases hn0
    unfold isChallengeEnabled
    simp only [hmne, hpne, if_false]
    unfold migrate
    simp only
    rw [mem_filter_contains]
    apply Bool.eq_iff_iff.2
    simp only [List.any_eq_true, Bool.and_eq_true]
    constructor
    · rintro ⟨n, hn, _, hf⟩; exact ⟨n, hn, hf⟩
    · rintro ⟨n, hn, hf⟩; exact ⟨n, hn, hcn n hf, hf⟩

example : offered ⟨[s "DNS-01", s "http-01"], [], 0⟩ .dns (s "*.example.com") = (s "example.com", true, [.dns01]) := by decide
example : offered (migrate ⟨[s "wire-oidc-01"], [], 0⟩) .dns (s "example.com") =
    (s "example.com", false, [.dns01, .http01, .tlsalpn01]) := by decide
example : offered ⟨[s "wire-oidc-01"], [], 0⟩ .dns (s "example.com") = (s "example.com", false, []) := by decide

/-! ### source tables behind the configuration glue and the route -/

def Src.nameOf (tbl : List (String × String)) (qualified : String) : Option String :=
  (tbl.find? (fun e => "provisioner." ++ e.1 == qualified)).map (·.2)

/-- **the conversion switches are what `migrate` models**: `challengesToLinkedca` switches on the
    lower-cased name and knows exactly the four names in `linkedcaChallenges` (no Wire type);
    `challengesToCertificates` is its inverse; the same for the three attestation formats -/
theorem src_conversions_match_migrate :
    Src.convChallengesToLinkedca.1 = "provisioner.ACMEChallenge(ch.String())" ∧
    (Src.convChallengesToLinkedca.2.filterMap (fun e => Src.nameOf Src.constProvChallenges e.1)).map Verif.s = linkedcaChallenges ∧
    Src.convChallengesToCertificates.2 = Src.convChallengesToLinkedca.2.map (fun e => (e.2, e.1)) ∧
    Src.convFormatsToLinkedca.1 = "provisioner.ACMEAttestationFormat(f.String())" ∧
    (Src.convFormatsToLinkedca.2.filterMap (fun e => Src.nameOf Src.constProvFormats e.1)).map Verif.s = linkedcaFormats ∧
    Src.convFormatsToCertificates.2 = Src.convFormatsToLinkedca.2.map (fun e => (e.2, e.1)) := by
  decide

/-- the default lists and the comparison of `IsChallengeEnabled` / `IsAttestationFormatEnabled`
    are the ones `isChallengeEnabled` / `isFormatEnabled` use -/
theorem src_enabled_defaults_match :
    (Src.enabledChallenges.1.filterMap (fun n => (Src.constProvChallenges.find? (·.1 == n)).map (·.2))).map Verif.s =
      [s "http-01", s "dns-01", s "tls-alpn-01"] ∧
    Src.enabledChallenges.2 = ("len(p.Challenges)>0", "strings.EqualFold(string(ch),string(challenge))") ∧
    (Src.enabledFormats.1.filterMap (fun n => (Src.constProvFormats.find? (·.1 == n)).map (·.2))).map Verif.s = linkedcaFormats ∧
    Src.enabledFormats.2 = ("len(p.AttestationFormats)>0", "strings.EqualFold(string(f),string(format))") := by
  decide

/-- the challenge-type strings of package acme and of package provisioner are the model's names -/
theorem src_consts_match :
    (∀ t ∈ dispatchedTypes, (Src.constAcmeChallenges.find? (·.1 == t.goConst)).map (fun e => Verif.s e.2) = some t.name) ∧
    Src.constProvChallenges.map (·.2) = Src.constAcmeChallenges.map (·.2) := by
  decide

/-- the challenge URL is served by `GetChallenge` behind `extractPayloadByKid`: the request must be
    signed by an existing account referenced by `kid` (`lookupJWK` puts that account and *its stored
    key* into the context) — an embedded JWK is not accepted on this route; the authorization URL
    likewise, as POST-as-GET -/
theorem src_route_shape :
    Src.routeChallenge = "POST getPath(acme.ChallengeLinkType,\"{provisionerID}\",\"{authzID}\",\"{chID}\") extractPayloadByKid(GetChallenge)" ++ Src.routeMiddleware ∧
    Src.routeAuthz = "POST getPath(acme.AuthzLinkType,\"{provisionerID}\",\"{authzID}\") extractPayloadByKid(isPostAsGet(GetAuthorization))" ++ Src.routeMiddleware :=
  ⟨rfl, rfl⟩

/-- the validation client as written: every method hands the validator's own arguments (URL, TXT
    name, address and TLS configuration) to the standard library unchanged — so what is contacted is
    what `target_from_identifier` says — and there is no redirect policy besides net/http's default
    (at most ten hops; the correspondence drives it against loopback servers) -/
theorem src_client_shape :
    Src.clientShape = "NewClient:http{,Timeout=30*time.Second,Transport{,Proxy=http.ProxyFromEnvironment,TLSClientConfig{,InsecureSkipVerify=true,dialer{,Timeout=30*time.Second;client.Get=c.http.Get(url);client.LookupTxt=net.LookupTXT(name);client.TLSDial=tls.DialWithDialer(c.dialer,network,addr,config);MustClientFromContext=NewClient()|c" :=
  rfl

end Verif.AcmeChallenge
