import Verif.Model.Constraints
/-!
  C05 — everything the CA signs validates under its own chain and name constraints.

  Property theorems about `Verif.Constraints` (the model of authority/internal/constraints and
  of the chain selection in authority.init, tied to the code by the two C05 correspondence
  stages). The specification is `specAccept`: RFC 5280 §6.1.4(g), every certificate of the path
  applied on its own, with the subtree membership of today's crypto/x509.

  State of the code: `fix:` 4a0d6e3 (per-certificate evaluation), 94a532b (issuing root found by
  subject + signature) and 41cbd56 (unparsable dNSName refused under any constraint,
  `domainToReverseLabels` synchronised with crypto/x509) are in. Theorems about `validate (New chain)`
  (the union engine), `chainFor` (the key-identifier selection) and `validate2021` (the 2021
  matchers) are kept as *historic* statements.

  * `engine_eq_spec`        the engine under test (`validateF ∘ NewF`) equals the specification
  * `fixed_eq_percert`      … because it computes the per-certificate evaluation exactly
  * `engine_sound_parsed`   allow ⇒ RFC 5280 accept for every chain of parsed certificates and all
                            names (no hypothesis on the chain's content since 3d20cbd)
  * `authority_sound(_parsed)`  the same on intermediates ++ issuing root, key ids or not
  * `excluded_exact`, `excluded_sound_*`   exclusion over the flat lists
  * `all_paths`, `checked_is_signed`   where the engine is consulted (source-derived tables)
  * `sign_sound_partial`, `extsan_refuted`   templates whose SANs ride in an extension are not seen by the gate (open finding)
  * `bundle_root_found`, `bundle_sound`   roots read from a PEM bundle: position in the bundle is irrelevant
  * `front_issues_iff`, `front_sound`, `front_client_error`   the HTTP sign/renew/rekey handlers,
                            ACME and SCEP (ACME included since 89421a7)
  * `err_only_unparsable_email`, `refusal_is_typed`   a refusal for name constraints is the typed 403 error,
                            through the flat lists and through the per-certificate engines alike
  * `validate_total`        no name makes the engine abort on subtrees a parsed certificate can carry
  * historic: `permitted_refuted` (D8), `permitted_partial`, `rootdrop_refuted`,
    `unparsable_dns_refuted`, `leadingdot_refuted` (O1), `v4mapped_refuted` (F3),
    `acme_status_refuted` (F4), `matchDomain/Email/URI_eq_spec`
-/
namespace Verif.Constraints
open Verif Verif.Str
open Verif.Policy (MR reverseLabels labelsFoldEq parseMailbox Mailbox Uri)

/-! ## 1. `checkNameConstraints`, generically in the matcher -/

theorem checkExcluded_ok_iff {C : Type} (m : C → MR) (X : List C) :
    checkExcluded m X = .ok ↔ ∀ c ∈ X, m c = .no := by
  induction X with
  | nil => simp [checkExcluded]
  | cons x xs ih =>
    unfold checkExcluded
    cases hx : m x <;> simp [hx, ih]

theorem checkExcluded_excluded {C : Type} (m : C → MR) (X : List C) :
    checkExcluded m X = .excluded → ∃ c ∈ X, m c = .yes := by
  induction X with
  | nil => simp [checkExcluded]
  | cons x xs ih =>
    unfold checkExcluded
    cases hx : m x <;> simp [hx]
    intro h
    exact ih h

theorem permLoop_ok {C : Type} (m : C → MR) (P : List C) :
    permLoop m P = .ok → ∃ c ∈ P, m c = .yes := by
  induction P with
  | nil => simp [permLoop]
  | cons p ps ih =>
    unfold permLoop
    cases hp : m p <;> simp [hp]
    intro h
    exact ih h

/-- the matcher gives a plain yes/no on every subtree of the list (no error, no abort) -/
def Decided {C : Type} (m : C → MR) (L : List C) : Prop := ∀ c ∈ L, m c = .yes ∨ m c = .no

theorem permLoop_ok_of {C : Type} (m : C → MR) (P : List C) (hd : Decided m P) :
    (∃ c ∈ P, m c = .yes) → permLoop m P = .ok := by
  induction P with
  | nil => simp
  | cons p ps ih =>
    intro ⟨c, hc, hy⟩
    unfold permLoop
    rcases hd p List.mem_cons_self with h | h
    · simp [h]
    · simp [h]
      apply ih (fun c hc => hd c (List.mem_cons_of_mem _ hc))
      cases hc with
      | head => rw [h] at hy; cases hy
      | tail _ hc => exact ⟨c, hc, hy⟩

/-- what a nil result of `checkNameConstraints` means -/
theorem checkName_ok {C : Type} (m : C → MR) (P X : List C) :
    checkName m P X = .ok → nameOk m P X = true := by
  intro h
  unfold checkName at h
  cases hx : checkExcluded m X <;> rw [hx] at h <;> try (cases h; done)
  have hX := (checkExcluded_ok_iff m X).1 hx
  unfold nameOk
  simp only [Bool.and_eq_true, List.all_eq_true, Bool.or_eq_true, List.any_eq_true, beq_iff_eq]
  refine ⟨hX, ?_⟩
  cases hP : P.isEmpty
  · right
    rw [hP] at h
    exact permLoop_ok m P h
  · left; rfl

theorem checkName_ok_of {C : Type} (m : C → MR) (P X : List C) (hd : Decided m P) :
    nameOk m P X = true → checkName m P X = .ok := by
  unfold nameOk
  simp only [Bool.and_eq_true, List.all_eq_true, Bool.or_eq_true, List.any_eq_true, beq_iff_eq]
  intro ⟨hX, hP⟩
  unfold checkName
  rw [(checkExcluded_ok_iff m X).2 hX]
  cases hE : P.isEmpty
  · simp
    rcases hP with h | h
    · simp [hE] at h
    · exact permLoop_ok_of m P hd h
  · simp

/-! ## 2. Exclusion: the union over the chain is exact -/

/-- **excluded_exact**: the engine built from the whole chain passes the exclusion loop for a
    name iff every certificate's own exclusion loop passes it; for every matcher, every
    projection `x` of a certificate to its excluded subtrees of one kind, every chain. -/
theorem excluded_exact {C : Type} (m : C → MR) (x : Level → List C) (chain : List Level) :
    checkExcluded m (chain.flatMap x) = .ok ↔ ∀ l ∈ chain, checkExcluded m (x l) = .ok := by
  simp only [checkExcluded_ok_iff, List.mem_flatMap]
  constructor
  · intro h l hl c hc; exact h c ⟨l, hl, hc⟩
  · intro h c ⟨l, hl, hc⟩; exact h l hl c hc

/-- and a refusal "excluded by constraint" always has a cause on some certificate -/
theorem excluded_has_cause {C : Type} (m : C → MR) (p x : Level → List C) (chain : List Level) :
    checkName m (chain.flatMap p) (chain.flatMap x) = .excluded → ∃ l ∈ chain, ∃ c ∈ x l, m c = .yes := by
  intro h
  unfold checkName at h
  cases hx : checkExcluded m (chain.flatMap x) <;> simp [hx] at h
  · split at h
    · cases h
    · -- the permitted loop never answers `excluded`
      exfalso
      generalize chain.flatMap p = P at h
      induction P with
      | nil => simp [permLoop] at h
      | cons q qs ih => unfold permLoop at h; cases hq : m q <;> simp [hq] at h; exact ih h
  · obtain ⟨c, hc, hy⟩ := checkExcluded_excluded m _ hx
    obtain ⟨l, hl, hcl⟩ := List.mem_flatMap.1 hc
    exact ⟨l, hl, c, hcl, hy⟩

theorem firstBad_allow_iff {α : Type} (f : α → Verdict) (l : List α) :
    firstBad f l = .allow ↔ ∀ a ∈ l, f a = .allow := by
  induction l with
  | nil => simp [firstBad]
  | cons x xs ih =>
    unfold firstBad
    cases hx : f x <;> simp [hx, ih]

theorem verdict_allow (o : Out) (k : Kind) : o.verdict k = .allow ↔ o = .ok := by
  cases o <;> simp [Out.verdict]

theorem preParse_allow_iff (n : Names) :
    preParse n = .allow ↔ ∀ d ∈ n.dns, (strictLabels d).isSome = true := by
  unfold preParse
  rw [firstBad_allow_iff]
  constructor
  · intro h d hd
    have := h d hd
    cases hs : strictLabels d <;> simp_all
  · intro h d hd
    have := h d hd
    cases hs : strictLabels d <;> simp_all

theorem validateCore_allow_iff (e : Engine) (n : Names) :
    validateCore e n = .allow ↔
      ((∀ d ∈ n.dns, checkDNS e d = .allow) ∧ (∀ i ∈ n.ips, checkIP e i = .allow) ∧
       (∀ a ∈ n.emails, checkEmail e a = .allow) ∧ (∀ u ∈ n.uris, checkURI e u = .allow)) := by
  unfold validateCore
  simp only [← firstBad_allow_iff]
  cases h1 : firstBad (checkDNS e) n.dns <;> simp
  cases h2 : firstBad (checkIP e) n.ips <;> simp
  cases h3 : firstBad (checkEmail e) n.emails <;> simp

/-- what `allow` means for `Validate` (flat lists) -/
theorem validate_allow_iff (e : Engine) (n : Names) :
    validate e n = .allow ↔
      (e.has = false ∨
        ((∀ d ∈ n.dns, checkDNS e d = .allow) ∧ (∀ i ∈ n.ips, checkIP e i = .allow) ∧
         (∀ a ∈ n.emails, checkEmail e a = .allow) ∧ (∀ u ∈ n.uris, checkURI e u = .allow) ∧
         (∀ d ∈ n.dns, (strictLabels d).isSome = true))) := by
  unfold validate
  cases hh : e.has
  · simp
  · simp only [Bool.not_true, Bool.false_eq_true, if_false]
    cases hp : preParse n <;> simp only [] <;>
      first
      | (rw [validateCore_allow_iff, ← preParse_allow_iff, hp]; simp)
      | (simp only [← preParse_allow_iff, hp]; simp)

theorem has_of_mem {chain : List Level} {l : Level} (hl : l ∈ chain) (h : l.has = true) :
    (New chain).has = true := by
  unfold Level.has at h ⊢
  simp only [Bool.or_eq_true, Bool.not_eq_true', List.isEmpty_eq_false_iff] at h ⊢
  have key : ∀ {C : Type} (f : Level → List C), f l ≠ [] → chain.flatMap f ≠ [] := by
    intro C f hne hflat
    have := List.flatMap_eq_nil_iff.1 hflat l hl
    exact hne this
  simp only [New]
  rcases h with ((((((h | h) | h) | h) | h) | h) | h) | h
  · exact .inl (.inl (.inl (.inl (.inl (.inl (.inl (key _ h)))))))
  · exact .inl (.inl (.inl (.inl (.inl (.inl (.inr (key _ h)))))))
  · exact .inl (.inl (.inl (.inl (.inl (.inr (key _ h))))))
  · exact .inl (.inl (.inl (.inl (.inr (key _ h)))))
  · exact .inl (.inl (.inl (.inr (key _ h))))
  · exact .inl (.inl (.inr (key _ h)))
  · exact .inl (.inr (key _ h))
  · exact .inr (key _ h)

/-- one excluded hit anywhere in the chain refuses the name, whatever is permitted -/
theorem checkName_not_ok_of_excluded {C : Type} (m : C → MR) (p x : Level → List C)
    (chain : List Level) (l : Level) (hl : l ∈ chain) (c : C) (hc : c ∈ x l) (hy : m c ≠ .no) :
    checkName m (chain.flatMap p) (chain.flatMap x) ≠ .ok := by
  intro h
  have := checkName_ok m _ _ h
  unfold nameOk at this
  simp only [Bool.and_eq_true, List.all_eq_true, beq_iff_eq] at this
  exact hy (this.1 c (List.mem_flatMap.2 ⟨l, hl, hc⟩))

/-- **exclusion is sound for the whole `Validate`, DNS**: a dNSName inside an excluded DNS
    subtree of *any* certificate of the chain is never allowed. -/
theorem excluded_sound_dns (chain : List Level) (n : Names) (l : Level) (hl : l ∈ chain)
    (d : Str) (hd : d ∈ n.dns) (c : Str) (hc : c ∈ l.xDNS) (hy : specMatchDomain d c = .yes) :
    validate (New chain) n ≠ .allow := by
  intro h
  have hhas : (New chain).has = true := has_of_mem hl (by
    unfold Level.has; cases hx : l.xDNS with
    | nil => rw [hx] at hc; cases hc
    | cons a as => simp)
  rcases (validate_allow_iff _ _).1 h with h0 | ⟨h1, _⟩
  · rw [hhas] at h0; cases h0
  · have := h1 d hd
    unfold checkDNS at this
    rw [verdict_allow] at this
    exact checkName_not_ok_of_excluded (specMatchDomain d) (·.pDNS) (·.xDNS) chain l hl c hc (by simp [hy]) this

theorem excluded_sound_ip (chain : List Level) (n : Names) (l : Level) (hl : l ∈ chain)
    (i : List Nat) (hi : i ∈ n.ips) (c : IpNet) (hc : c ∈ l.xIP) (hy : matchIP i c = .yes) :
    validate (New chain) n ≠ .allow := by
  intro h
  have hhas : (New chain).has = true := has_of_mem hl (by
    unfold Level.has; cases hx : l.xIP with
    | nil => rw [hx] at hc; cases hc
    | cons a as => simp)
  rcases (validate_allow_iff _ _).1 h with h0 | ⟨_, h1, _⟩
  · rw [hhas] at h0; cases h0
  · have := h1 i hi
    unfold checkIP at this
    rw [verdict_allow] at this
    exact checkName_not_ok_of_excluded (matchIP i) (·.pIP) (·.xIP) chain l hl c hc (by simp [hy]) this

theorem excluded_sound_email (chain : List Level) (n : Names) (l : Level) (hl : l ∈ chain)
    (a : Str) (ha : a ∈ n.emails) (mb : Mailbox) (hp : specParseMailbox a = some mb)
    (c : Str) (hc : c ∈ l.xEmail) (hy : specMatchEmail mb c = .yes) :
    validate (New chain) n ≠ .allow := by
  intro h
  have hhas : (New chain).has = true := has_of_mem hl (by
    unfold Level.has; cases hx : l.xEmail with
    | nil => rw [hx] at hc; cases hc
    | cons a as => simp)
  rcases (validate_allow_iff _ _).1 h with h0 | ⟨_, _, h1, _⟩
  · rw [hhas] at h0; cases h0
  · have := h1 a ha
    unfold checkEmail at this
    rw [hp] at this
    simp only [verdict_allow] at this
    exact checkName_not_ok_of_excluded (specMatchEmail mb) (·.pEmail) (·.xEmail) chain l hl c hc (by simp [hy]) this

theorem excluded_sound_uri (chain : List Level) (n : Names) (l : Level) (hl : l ∈ chain)
    (u : Uri) (hu : u ∈ n.uris) (c : Str) (hc : c ∈ l.xURI) (hy : specMatchURI u c = .yes) :
    validate (New chain) n ≠ .allow := by
  intro h
  have hhas : (New chain).has = true := has_of_mem hl (by
    unfold Level.has; cases hx : l.xURI with
    | nil => rw [hx] at hc; cases hc
    | cons a as => simp)
  rcases (validate_allow_iff _ _).1 h with h0 | ⟨_, _, _, h1, _⟩
  · rw [hhas] at h0; cases h0
  · have := h1 u hu
    unfold checkURI at this
    rw [verdict_allow] at this
    exact checkName_not_ok_of_excluded (specMatchURI u) (·.pURI) (·.xURI) chain l hl c hc (by simp [hy]) this

/-- hypotheses of `excluded_sound_dns` are met by a two-level chain (root excludes) -/
example : validate (New [{}, { xDNS := [s "bad.example.com"] }]) { dns := [s "x.bad.example.com"] }
    = .deny .excluded .dns := by decide

/-! ## 3. Permission: the union over the chain is wrong (D8), and when it is right -/

/-- the intermediate permits `sub.example.com`, the root permits `example.com` -/
def d8Chain : List Level := [{ pDNS := [s "sub.example.com"] }, { pDNS := [s "example.com"] }]
def d8Names : Names := { dns := [s "other.example.com"] }

/-- **permitted_refuted** (D8, historic: the union engine `validate (New chain)` that was all
    of `Validate` before 4a0d6e3): it allows a name the specification rejects:
    `other.example.com` lies in the root's permitted subtree but not in the intermediate's; the
    engine asks for *one* permitted subtree of the concatenated list. -/
theorem permitted_refuted :
    ¬ ∀ (chain : List Level) (n : Names), validate (New chain) n = .allow → specAccept chain n = true := by
  intro h
  exact absurd (h d8Chain d8Names (by decide)) (by decide)

/-- at most one certificate of the chain carries a non-empty list under projection `p` -/
def AtMostOne {C : Type} (p : Level → List C) (chain : List Level) : Prop :=
  (chain.filter fun l => !(p l).isEmpty).length ≤ 1

theorem eq_of_length_le_one {α : Type} {L : List α} (h : L.length ≤ 1) {a b : α}
    (ha : a ∈ L) (hb : b ∈ L) : a = b := by
  match L, h with
  | [], _ => cases ha
  | [x], _ => simp at ha hb; rw [ha, hb]
  | _ :: _ :: _, h => simp at h

/-- the generic core of `permitted_partial`: with permitted subtrees (of this kind) on at most
    one certificate, a name the union engine passes is acceptable to every certificate. -/
theorem union_ok_level_ok {C : Type} (m : C → MR) (p x : Level → List C) (chain : List Level)
    (h1 : AtMostOne p chain) (h : checkName m (chain.flatMap p) (chain.flatMap x) = .ok) :
    ∀ l ∈ chain, nameOk m (p l) (x l) = true := by
  intro l hl
  have hu := checkName_ok m _ _ h
  unfold nameOk at hu ⊢
  simp only [Bool.and_eq_true, List.all_eq_true, Bool.or_eq_true, List.any_eq_true, beq_iff_eq,
    List.mem_flatMap] at hu ⊢
  refine ⟨fun c hc => hu.1 c ⟨l, hl, hc⟩, ?_⟩
  cases hE : (p l).isEmpty
  · right
    rcases hu.2 with h0 | ⟨c, ⟨l', hl', hc'⟩, hy⟩
    · exfalso
      have : chain.flatMap p = [] := by simpa using h0
      have := List.flatMap_eq_nil_iff.1 this l hl
      simp [this] at hE
    · have hne' : (p l').isEmpty = false := by
        cases hq : p l' with
        | nil => rw [hq] at hc'; cases hc'
        | cons _ _ => rfl
      have e : l' = l := eq_of_length_le_one h1
        (List.mem_filter.2 ⟨hl', by simp [hne']⟩) (List.mem_filter.2 ⟨hl, by simp [hE]⟩)
      subst e
      exact ⟨c, hc', hy⟩
  · left; rfl

/-- the one place where the engine's matchers and the verifier's still differ (IP subtrees, F3)
    does not matter for these names and these subtrees; since 41cbd56 the DNS, e-mail and URI
    matchers are the same functions on both sides -/
structure Agree (chain : List Level) (n : Names) : Prop where
  ip : ∀ i ∈ n.ips, ∀ l ∈ chain, ∀ c, c ∈ l.pIP ∨ c ∈ l.xIP → matchIP i c = specMatchIP i c

theorem nameOk_congr {C : Type} (m m' : C → MR) (P X : List C)
    (h : ∀ c, c ∈ P ∨ c ∈ X → m c = m' c) : nameOk m P X = nameOk m' P X := by
  unfold nameOk
  have h1 : X.all (fun c => m c == .no) = X.all (fun c => m' c == .no) := by
    rw [Bool.eq_iff_iff]; simp only [List.all_eq_true]
    exact ⟨fun k c hc => by rw [← h c (.inr hc)]; exact k c hc, fun k c hc => by rw [h c (.inr hc)]; exact k c hc⟩
  have h2 : P.any (fun c => m c == .yes) = P.any (fun c => m' c == .yes) := by
    rw [Bool.eq_iff_iff]; simp only [List.any_eq_true]
    exact ⟨fun ⟨c, hc, k⟩ => ⟨c, hc, by rw [← h c (.inl hc)]; exact k⟩, fun ⟨c, hc, k⟩ => ⟨c, hc, by rw [h c (.inl hc)]; exact k⟩⟩
  rw [h1, h2]

/-- **permitted_partial**: when, for each kind of name, at most one certificate of the chain
    carries permitted subtrees, everything the engine as coded allows is acceptable under
    RFC 5280 to every certificate of the chain (given that the engine's 2021 matchers and
    today's agree on the names at hand — see `matchDomain_eq_spec`, `matchIP_eq_spec`). -/
theorem permitted_partial (chain : List Level) (n : Names)
    (hDNS : AtMostOne (·.pDNS) chain) (hIP : AtMostOne (·.pIP) chain)
    (hEm : AtMostOne (·.pEmail) chain) (hURI : AtMostOne (·.pURI) chain)
    (hA : Agree chain n) :
    validate (New chain) n = .allow → specAccept chain n = true := by
  intro h
  unfold specAccept
  rw [List.all_eq_true]
  intro l hl
  unfold levelAccept
  cases hh : l.has
  · simp
  · have hhas := has_of_mem hl hh
    rcases (validate_allow_iff _ _).1 h with h0 | ⟨h1, h2, h3, h4, h5⟩
    · rw [hhas] at h0; cases h0
    · simp only [Bool.not_true, Bool.false_or, Bool.and_eq_true, List.all_eq_true]
      refine ⟨⟨⟨?_, ?_⟩, ?_⟩, ?_⟩
      · intro d hd
        have := h1 d hd
        unfold checkDNS at this; rw [verdict_allow] at this
        have := union_ok_level_ok (specMatchDomain d) (·.pDNS) (·.xDNS) chain hDNS this l hl
        exact ⟨h5 d hd, this⟩
      · intro i hi
        have := h2 i hi
        unfold checkIP at this; rw [verdict_allow] at this
        have := union_ok_level_ok (matchIP i) (·.pIP) (·.xIP) chain hIP this l hl
        rwa [nameOk_congr _ _ _ _ (hA.ip i hi l hl)] at this
      · intro a ha
        have := h3 a ha
        unfold checkEmail at this
        cases hp : specParseMailbox a with
        | none => rw [hp] at this; cases this
        | some mb =>
          rw [hp] at this
          simp only [verdict_allow] at this
          have := union_ok_level_ok (specMatchEmail mb) (·.pEmail) (·.xEmail) chain hEm this l hl
          exact this
      · intro u hu
        have := h4 u hu
        unfold checkURI at this; rw [verdict_allow] at this
        have := union_ok_level_ok (specMatchURI u) (·.pURI) (·.xURI) chain hURI this l hl
        exact this

/-! ### when the matchers agree -/

/-- on names and subtrees without a leading period (after the subtree's own optional one) the
    2021 copy of `matchDomainConstraint` and today's are the same function -/
theorem matchDomain_eq_spec (d c : Str) (hd : leadingDot d = false)
    (hc : leadingDot (if c.head? = some 46 then c.tail else c) = false) :
    matchDomain d c = specMatchDomain d c := by
  unfold specMatchDomain
  rw [hd, hc]
  split
  · unfold matchDomain; simp_all
  · simp

/-- an `IPNet` as `x509.ParseCertificate` produces it: mask as long as the address -/
def IpNet.parsed (n : IpNet) : Prop := n.mask.length = n.ip.length
instance (n : IpNet) : Decidable n.parsed := by unfold IpNet.parsed; infer_instance

/-- on every parsed IP subtree the engine's `matchIPConstraint` (since 3d20cbd) is RFC 5280
    membership as crypto/x509 computes it -/
theorem matchIP_eq_spec (i : List Nat) (c : IpNet) (hc : c.parsed) :
    matchIP i c = specMatchIP i c := by
  have he : c.eff = c.ip := by
    unfold IpNet.eff
    split
    · rename_i h4
      have : c.ip.length = 4 := by unfold IpNet.parsed at hc; omega
      simp [normalizeIP, to4, this]
    · rfl
  unfold matchIP specMatchIP
  simp [he]

theorem matchURI_eq_spec (u : Uri) (c : Str)
    (hh : leadingDot u.host = false) (hs : ∀ h, u.split = some h → leadingDot h = false)
    (hc : leadingDot (if c.head? = some 46 then c.tail else c) = false) :
    matchURI u c = specMatchURI u c := by
  have key : ∀ h, leadingDot h = false → matchDomain h c = specMatchDomain h c :=
    fun h hl => matchDomain_eq_spec h c hl hc
  have hsp : leadingDot (u.split.getD []) = false := by
    cases hq : u.split with
    | none => simp [leadingDot]
    | some h => simpa using hs h hq
  have hk : leadingDot (if (has 58 u.host && !hasSuffix [93] u.host) = true then u.split.getD [] else u.host) = false := by
    split <;> assumption
  unfold matchURI specMatchURI
  simp only [key _ hk]

/-- non-vacuity of `permitted_partial`: a three-certificate chain with permitted DNS subtrees on
    one certificate and excluded ones on another, a name that passes, and `Agree` holds for it -/
def okChain : List Level := [{ xDNS := [s "bad.example.com"] }, {}, { pDNS := [s "example.com"], pIP := [⟨[10,0,0,0],[255,0,0,0]⟩] }]
def okNames : Names := { dns := [s "www.example.com"], ips := [[10,1,2,3]] }
example : validate (New okChain) okNames = .allow := by decide
example : specAccept okChain okNames = true := by decide
example : AtMostOne (·.pDNS) okChain ∧ AtMostOne (·.pIP) okChain := by
  unfold AtMostOne; decide
example : Agree okChain okNames where
  ip := by
    intro i hi l hl c hc
    simp [okNames] at hi; subst hi
    simp [okChain] at hl
    rcases hl with rfl | rfl | rfl <;> simp at hc <;> subst hc <;> decide

/-! ## 4. The per-certificate engine (fix candidate) equals the specification -/

theorem New_singleton (l : Level) : New [l] = l := by
  cases l; simp [New]

/-- every subtree list of the chain gets a plain yes/no from the engine's matchers for these
    names (true for well-formed names against subtrees a parsed certificate carries) -/
structure AllDecided (chain : List Level) (n : Names) : Prop where
  dns : ∀ d ∈ n.dns, ∀ l ∈ chain, Decided (specMatchDomain d) l.pDNS
  ip : ∀ i ∈ n.ips, ∀ l ∈ chain, Decided (matchIP i) l.pIP
  email : ∀ a ∈ n.emails, ∀ mb, specParseMailbox a = some mb → ∀ l ∈ chain, Decided (specMatchEmail mb) l.pEmail
  uri : ∀ u ∈ n.uris, ∀ l ∈ chain, Decided (specMatchURI u) l.pURI

/-- **percert_eq_spec**: evaluating every certificate of the chain with its own engine
    (`validatePerCert`) allows exactly the names RFC 5280 accepts, for every placement of
    permitted and excluded subtrees on any number of levels. Hypotheses: the two generations of
    matchers agree on the names at hand (`Agree`) and no subtree errors out (`AllDecided`); the
    direction "allowed ⇒ acceptable" (`percert_sound`) needs only `Agree`. -/
theorem percert_sound (chain : List Level) (n : Names) (hA : Agree chain n) :
    validatePerCert chain n = .allow → specAccept chain n = true := by
  intro h
  unfold validatePerCert at h
  rw [firstBad_allow_iff] at h
  unfold specAccept
  rw [List.all_eq_true]
  intro l hl
  have hv := h l hl
  rw [New_singleton] at hv
  unfold levelAccept
  cases hh : l.has
  · simp
  · rcases (validate_allow_iff _ _).1 hv with h0 | ⟨h1, h2, h3, h4, h5⟩
    · rw [hh] at h0; cases h0
    · simp only [Bool.not_true, Bool.false_or, Bool.and_eq_true, List.all_eq_true]
      refine ⟨⟨⟨?_, ?_⟩, ?_⟩, ?_⟩
      · intro d hd
        have := h1 d hd
        unfold checkDNS at this; rw [verdict_allow] at this
        have := checkName_ok _ _ _ this
        exact ⟨h5 d hd, this⟩
      · intro i hi
        have := h2 i hi
        unfold checkIP at this; rw [verdict_allow] at this
        have := checkName_ok _ _ _ this
        rwa [nameOk_congr _ _ _ _ (hA.ip i hi l hl)] at this
      · intro a ha
        have := h3 a ha
        unfold checkEmail at this
        cases hp : specParseMailbox a with
        | none => rw [hp] at this; cases this
        | some mb =>
          rw [hp] at this
          simp only [verdict_allow] at this
          have := checkName_ok _ _ _ this
          exact this
      · intro u hu
        have := h4 u hu
        unfold checkURI at this; rw [verdict_allow] at this
        have := checkName_ok _ _ _ this
        exact this

theorem percert_complete (chain : List Level) (n : Names) (hA : Agree chain n)
    (hD : AllDecided chain n) :
    specAccept chain n = true → validatePerCert chain n = .allow := by
  intro h
  unfold specAccept at h
  rw [List.all_eq_true] at h
  unfold validatePerCert
  rw [firstBad_allow_iff]
  intro l hl
  rw [New_singleton, validate_allow_iff]
  have hl' := h l hl
  unfold levelAccept at hl'
  cases hh : l.has
  · left; rfl
  · right
    simp only [hh, Bool.not_true, Bool.false_or, Bool.and_eq_true, List.all_eq_true] at hl'
    obtain ⟨⟨⟨h1, h2⟩, h3⟩, h4⟩ := hl'
    refine ⟨?_, ?_, ?_, ?_, ?_⟩
    · intro d hd
      unfold checkDNS; rw [verdict_allow]
      apply checkName_ok_of _ _ _ (hD.dns d hd l hl)
      exact (h1 d hd).2
    · intro i hi
      unfold checkIP; rw [verdict_allow]
      apply checkName_ok_of _ _ _ (hD.ip i hi l hl)
      rw [nameOk_congr _ _ _ _ (hA.ip i hi l hl)]
      exact h2 i hi
    · intro a ha
      have := h3 a ha
      unfold checkEmail
      cases hp : specParseMailbox a with
      | none => rw [hp] at this; cases this
      | some mb =>
        rw [hp] at this
        simp only [verdict_allow]
        exact checkName_ok_of _ _ _ (hD.email a ha mb hp l hl) this
    · intro u hu
      unfold checkURI; rw [verdict_allow]
      exact checkName_ok_of _ _ _ (hD.uri u hu l hl) (h4 u hu)
    · intro d hd
      exact (h1 d hd).1

theorem percert_eq_spec (chain : List Level) (n : Names) (hA : Agree chain n)
    (hD : AllDecided chain n) :
    validatePerCert chain n = .allow ↔ specAccept chain n = true :=
  ⟨percert_sound chain n hA, percert_complete chain n hA hD⟩

/-- the per-certificate engine refuses the D8 witness -/
example : validatePerCert d8Chain d8Names = .deny .notPermitted .dns := by decide
/-- and still allows what both levels permit -/
example : validatePerCert d8Chain { dns := [s "a.sub.example.com"] } = .allow := by decide

/-- the per-certificate engine never allows more than the engine as coded does not:
    switching cannot make the CA sign a name it refuses today -/
theorem percert_le_union_dns (chain : List Level) (d : Str) :
    (∀ l ∈ chain, checkName (matchDomain d) l.pDNS l.xDNS = .ok) →
    (∀ l ∈ chain, Decided (matchDomain d) l.pDNS) →
    checkName (matchDomain d) (chain.flatMap (·.pDNS)) (chain.flatMap (·.xDNS)) = .ok := by
  intro h hd
  apply checkName_ok_of
  · intro c hc
    obtain ⟨l, hl, hcl⟩ := List.mem_flatMap.1 hc
    exact hd l hl c hcl
  · unfold nameOk
    simp only [Bool.and_eq_true, List.all_eq_true, Bool.or_eq_true, List.any_eq_true, beq_iff_eq,
      List.mem_flatMap]
    refine ⟨?_, ?_⟩
    · intro c ⟨l, hl, hc⟩
      have := checkName_ok _ _ _ (h l hl)
      unfold nameOk at this
      simp only [Bool.and_eq_true, List.all_eq_true, beq_iff_eq] at this
      exact this.1 c hc
    · cases hE : (chain.flatMap (·.pDNS)).isEmpty
      · right
        have hne : chain.flatMap (·.pDNS) ≠ [] := by intro h0; simp [h0] at hE
        have : ∃ l ∈ chain, l.pDNS ≠ [] := by
          apply Classical.byContradiction
          intro hno
          apply hne
          apply List.flatMap_eq_nil_iff.2
          intro l hl
          apply Classical.byContradiction
          intro hx
          exact hno ⟨l, hl, hx⟩
        obtain ⟨l, hl, hp⟩ := this
        have := checkName_ok _ _ _ (h l hl)
        unfold nameOk at this
        simp only [Bool.and_eq_true, Bool.or_eq_true, List.any_eq_true, beq_iff_eq] at this
        rcases this.2 with h0 | ⟨c, hc, hy⟩
        · simp at h0; exact absurd h0 hp
        · exact ⟨c, ⟨l, hl, hc⟩, hy⟩
      · left; rfl

/-! ## 5. Three more places where the engine as coded and the verifier part -/

def caCert (sub iss ski aki : String) (nc : Level) (signsLast : Bool := false) : Cert :=
  ⟨s sub, s iss, s ski, s aki, nc, signsLast⟩

/-- **rootdrop_refuted** (historic: the selection before 94a532b): `authority.init` added the configured root to the engine only when the
    last intermediate's authority key identifier equals the root's subject key identifier.
    An intermediate issued without that extension (RFC 5280 path building does not need it)
    leaves the root's constraints out: the root excludes `bad.example.com`, the CA allows it. -/
theorem rootdrop_refuted :
    ¬ ∀ (ints roots : List Cert) (n : Names), authorityValidate ints roots n = .allow →
        specAccept ((ints ++ roots).map (·.nc)) n = true := by
  intro h
  exact absurd
    (h [caCert "int" "root" "k1" "" {}] [caCert "root" "root" "k0" "" { xDNS := [s "bad.example.com"] }]
       { dns := [s "x.bad.example.com"] } (by decide))
    (by decide)

/-- with the key identifiers in place the same root is part of the engine and the name is refused -/
example : authorityValidate [caCert "int" "root" "k1" "k0" {}]
    [caCert "root" "root" "k0" "" { xDNS := [s "bad.example.com"] }] { dns := [s "x.bad.example.com"] }
    = .deny .excluded .dns := by decide

/-- **chain selection is complete when the identifiers line up**: every configured root whose
    subject and key identifier match the last intermediate is part of the engine, after all
    intermediates, in order. -/
theorem chainFor_spec (ints roots : List Cert) (last : Cert) (hl : ints.getLast? = some last) :
    chainFor ints roots =
      some (ints ++ roots.filter fun r => last.issuer == r.subject && last.aki == r.ski) := by
  unfold chainFor; rw [hl]

theorem chainFor_all_roots (ints roots : List Cert) (last : Cert) (hl : ints.getLast? = some last)
    (hm : ∀ r ∈ roots, last.issuer = r.subject ∧ last.aki = r.ski) :
    chainFor ints roots = some (ints ++ roots) := by
  rw [chainFor_spec ints roots last hl]
  congr 2
  apply List.filter_eq_self.2
  intro r hr
  simp [(hm r hr).1, (hm r hr).2]

/-- **v4mapped_refuted** (historic: `matchIPConstraint` before 3d20cbd, `matchIP2021`): a
    permitted IPv6 subtree `::ffff:10.0.0.0/104` (an IPv4-mapped address) was rewritten to IPv4
    and compared under the first four octets of its 16-octet mask (all ones), so the iPAddress
    10.0.0.0 matched a subtree no verifier that compares families as encoded puts it in. -/
def mappedNet : IpNet := ⟨[0,0,0,0,0,0,0,0,0,0,255,255,10,0,0,0], [255,255,255,255,255,255,255,255,255,255,255,255,255,0,0,0]⟩
theorem v4mapped_refuted :
    ¬ ∀ (i : List Nat) (c : IpNet), c.parsed → matchIP2021 i c = specMatchIP i c := by
  intro h
  exact absurd (h [10,0,0,0] mappedNet (by decide)) (by decide)

/-- now the same subtree does not match, and the engine refuses the address -/
example : matchIP [10,0,0,0] mappedNet = .no := by decide
example : validateF (NewF [{ pIP := [mappedNet] }]) { ips := [[10,0,0,0]] } = .deny .notPermitted .ip := by decide

/-- **leadingdot_refuted** (historic: the flat engine before 41cbd56, `validate2021`): the 2021
    `domainToReverseLabels` dropped a leading empty label, so the URI host `.example.com` was
    allowed under a permitted `example.com`; the verifier cannot match it at all. -/
theorem leadingdot_refuted :
    ¬ ∀ (l : Level) (n : Names), validate2021 l n = .allow → specAccept [l] n = true := by
  intro h
  exact absurd (h { pURI := [s "example.com"] } { uris := [⟨s ".example.com", none, false⟩] } (by decide)) (by decide)

/-- now refused, as a matching error on the URI -/
example : validateF (NewF [{ pURI := [s "example.com"] }]) { uris := [⟨s ".example.com", none, false⟩] }
    = .deny .matchErr .uri := by decide

/-! ## 6. Totality -/

theorem matchDomain_ne_crash (d c : Str) : matchDomain d c ≠ .crash := by
  unfold matchDomain; grind (splits := 30)

theorem matchEmail_ne_crash (mb : Mailbox) (c : Str) : matchEmail mb c ≠ .crash := by
  have := matchDomain_ne_crash
  unfold matchEmail; grind (splits := 30)

theorem matchURI_ne_crash (u : Uri) (c : Str) : matchURI u c ≠ .crash := by
  have := matchDomain_ne_crash
  unfold matchURI; grind (splits := 30)

/-- the mask is at least as long as the (normalised) subtree address: true of every
    `*net.IPNet` that `x509.ParseCertificate` produces (4+4 or 16+16 octets) -/
def IpNet.wf (n : IpNet) : Prop := n.eff.length ≤ n.mask.length

theorem ipLoop_ne_crash (a c m : List Nat) (h : a.length ≤ m.length) : ipLoop a c m ≠ .crash := by
  induction a generalizing c m with
  | nil => simp [ipLoop]
  | cons x xs ih =>
    cases m with
    | nil => simp at h
    | cons y ys =>
      cases c with
      | nil => simp [ipLoop]
      | cons z zs =>
        unfold ipLoop
        split
        · simp
        · exact ih zs ys (by simpa using h)

theorem matchIP_ne_crash (i : List Nat) (n : IpNet) (h : n.wf) : matchIP i n ≠ .crash := by
  unfold matchIP
  simp only
  split
  · simp
  · rename_i hlen
    apply ipLoop_ne_crash
    unfold IpNet.wf at h
    have : (normalizeIP i).length = n.eff.length := by simpa using hlen
    omega

/-- the abort is real for a hand-built `IPNet` with a short mask (no parsed certificate has one) -/
theorem matchIP_crash_short_mask : matchIP [10,0,0,1] ⟨[10,0,0,0], []⟩ = .crash := by decide

theorem specMatchDomain_ne_crash (d c : Str) : specMatchDomain d c ≠ .crash := by
  have := matchDomain_ne_crash d c
  unfold specMatchDomain; grind

theorem specMatchEmail_ne_crash (mb : Mailbox) (c : Str) : specMatchEmail mb c ≠ .crash := by
  have := specMatchDomain_ne_crash
  unfold specMatchEmail; grind (splits := 30)

theorem specMatchURI_ne_crash (u : Uri) (c : Str) : specMatchURI u c ≠ .crash := by
  have := specMatchDomain_ne_crash
  unfold specMatchURI; grind (splits := 30)

theorem checkExcluded_ne_crash {C : Type} (m : C → MR) (X : List C) (hm : ∀ c ∈ X, m c ≠ .crash) :
    checkExcluded m X ≠ .crash := by
  induction X with
  | nil => simp [checkExcluded]
  | cons x xs ih =>
    unfold checkExcluded
    cases hx : m x <;> simp
    · exact ih (fun c hc => hm c (List.mem_cons_of_mem _ hc))
    · exact hm x List.mem_cons_self hx

theorem permLoop_ne_crash {C : Type} (m : C → MR) (P : List C) (hm : ∀ c ∈ P, m c ≠ .crash) :
    permLoop m P ≠ .crash := by
  induction P with
  | nil => simp [permLoop]
  | cons x xs ih =>
    unfold permLoop
    cases hx : m x <;> simp
    · exact ih (fun c hc => hm c (List.mem_cons_of_mem _ hc))
    · exact hm x List.mem_cons_self hx

theorem checkName_ne_crash {C : Type} (m : C → MR) (P X : List C)
    (hP : ∀ c ∈ P, m c ≠ .crash) (hX : ∀ c ∈ X, m c ≠ .crash) : checkName m P X ≠ .crash := by
  unfold checkName
  have h1 := checkExcluded_ne_crash m X hX
  have h2 := permLoop_ne_crash m P hP
  cases hx : checkExcluded m X <;> simp_all
  split <;> simp_all

theorem firstBad_ne_crash {α : Type} (f : α → Verdict) (l : List α) (hf : ∀ a ∈ l, f a ≠ .crash) :
    firstBad f l ≠ .crash := by
  induction l with
  | nil => simp [firstBad]
  | cons x xs ih =>
    unfold firstBad
    have hx := hf x List.mem_cons_self
    cases hfx : f x <;> simp_all

theorem verdict_crash (o : Out) (k : Kind) : o.verdict k = .crash ↔ o = .crash := by
  cases o <;> simp [Out.verdict]

/-- **validate_total**: with IP subtrees as a certificate parser produces them, no list of
    names (empty strings, odd-length addresses, host-less URIs included) aborts `Validate`. -/
theorem validate_total (e : Engine) (n : Names)
    (hp : ∀ c ∈ e.pIP, c.wf) (hx : ∀ c ∈ e.xIP, c.wf) : validate e n ≠ .crash := by
  have h1 : firstBad (checkDNS e) n.dns ≠ .crash := firstBad_ne_crash _ _ (fun d _ => by
    unfold checkDNS; rw [Ne, verdict_crash]
    exact checkName_ne_crash _ _ _ (fun c _ => specMatchDomain_ne_crash d c) (fun c _ => specMatchDomain_ne_crash d c))
  have h2 : firstBad (checkIP e) n.ips ≠ .crash := firstBad_ne_crash _ _ (fun i _ => by
    unfold checkIP; rw [Ne, verdict_crash]
    exact checkName_ne_crash _ _ _ (fun c hc => matchIP_ne_crash i c (hp c hc)) (fun c hc => matchIP_ne_crash i c (hx c hc)))
  have h3 : firstBad (checkEmail e) n.emails ≠ .crash := firstBad_ne_crash _ _ (fun a _ => by
    unfold checkEmail
    split
    · simp
    · rw [Ne, verdict_crash]
      exact checkName_ne_crash _ _ _ (fun c _ => specMatchEmail_ne_crash _ c) (fun c _ => specMatchEmail_ne_crash _ c))
  have h4 : firstBad (checkURI e) n.uris ≠ .crash := firstBad_ne_crash _ _ (fun u _ => by
    unfold checkURI; rw [Ne, verdict_crash]
    exact checkName_ne_crash _ _ _ (fun c _ => specMatchURI_ne_crash u c) (fun c _ => specMatchURI_ne_crash u c))
  have h0 : preParse n ≠ .crash := by
    unfold preParse
    exact firstBad_ne_crash _ _ (fun d _ => by split <;> simp)
  unfold validate validateCore
  grind (splits := 30)

/-- the subtrees of the whole chain are well-formed when each certificate's are -/
theorem New_wf (chain : List Level) (h : ∀ l ∈ chain, (∀ c ∈ l.pIP, c.wf) ∧ (∀ c ∈ l.xIP, c.wf)) :
    (∀ c ∈ (New chain).pIP, c.wf) ∧ (∀ c ∈ (New chain).xIP, c.wf) := by
  simp only [New, List.mem_flatMap]
  exact ⟨fun c ⟨l, hl, hc⟩ => (h l hl).1 c hc, fun c ⟨l, hl, hc⟩ => (h l hl).2 c hc⟩

/-! ## 7. `AllDecided` is what well-formed input gives -/

/-- a well-formed name against a well-formed subtree always gets a plain yes/no -/
theorem matchDomain_decided (d c : Str) (hd : (reverseLabels d).isSome = true)
    (hc : (reverseLabels (if c.head? = some 46 then c.tail else c)).isSome = true) :
    matchDomain d c = .yes ∨ matchDomain d c = .no := by
  unfold matchDomain
  cases h1 : reverseLabels d with
  | none => simp [h1] at hd
  | some dl =>
    cases h2 : reverseLabels (if c.head? = some 46 then c.tail else c) with
    | none => simp [h2] at hc
    | some cl => simp only [h2]; grind

theorem matchIP_decided (i : List Nat) (n : IpNet) (h : n.wf) : matchIP i n = .yes ∨ matchIP i n = .no := by
  have hc := matchIP_ne_crash i n h
  have he : matchIP i n ≠ .err := by
    unfold matchIP; simp only
    split
    · simp
    · generalize normalizeIP i = a
      generalize n.eff = c
      generalize n.mask = m
      induction a generalizing c m with
      | nil => simp [ipLoop]
      | cons x xs ih =>
        cases m with
        | nil => simp [ipLoop]
        | cons y ys => cases c with
          | nil => simp [ipLoop]
          | cons z zs => unfold ipLoop; split; simp; exact ih zs ys
  cases h : matchIP i n <;> simp_all

/-- non-vacuity of `engine_eq_spec`: its hypotheses hold for the example chain -/
example : AllDecided okChain okNames where
  dns := by
    intro d hd l hl c hc
    simp [okNames] at hd; subst hd
    simp [okChain] at hl
    rcases hl with rfl | rfl | rfl <;> simp at hc <;> subst hc <;> decide
  ip := by
    intro i hi l hl c hc
    simp [okNames] at hi; subst hi
    simp [okChain] at hl
    rcases hl with rfl | rfl | rfl <;> simp at hc <;> subst hc <;> decide
  email := by intro a ha; cases ha
  uri := by intro u hu; cases hu

/-! ## 8. The engine as it is now (after 4a0d6e3) is the per-certificate evaluation -/

theorem has_false_eq (l : Level) (h : l.has = false) : l = {} := by
  cases l
  simp [Level.has] at h
  simp [h]

theorem validate_nohas (l : Level) (n : Names) (h : l.has = false) : validate l n = .allow := by
  unfold validate; simp [h]

theorem New_nil : New [] = {} := by simp [New]

theorem New_cons_empty (ch : List Level) : New (({} : Level) :: ch) = New ch := by simp [New]

theorem New_nohas (ch : List Level) (h : ∀ l ∈ ch, l.has = false) : New ch = {} := by
  induction ch with
  | nil => exact New_nil
  | cons l ch ih =>
    have := has_false_eq l (h l List.mem_cons_self)
    subst this
    rw [New_cons_empty]
    exact ih (fun x hx => h x (List.mem_cons_of_mem _ hx))

theorem New_cons_nohas (l : Level) (ch : List Level) (h : ∀ x ∈ ch, x.has = false) :
    New (l :: ch) = l := by
  have h0 := New_nohas ch h
  have : New (l :: ch) = ⟨l.pDNS ++ (New ch).pDNS, l.xDNS ++ (New ch).xDNS, l.pIP ++ (New ch).pIP,
      l.xIP ++ (New ch).xIP, l.pEmail ++ (New ch).pEmail, l.xEmail ++ (New ch).xEmail,
      l.pURI ++ (New ch).pURI, l.xURI ++ (New ch).xURI⟩ := by simp [New]
  rw [this, h0]
  cases l; simp

theorem validatePerCert_nohas (ch : List Level) (n : Names) (h : ∀ x ∈ ch, x.has = false) :
    validatePerCert ch n = .allow := by
  unfold validatePerCert
  rw [firstBad_allow_iff]
  intro l hl
  rw [New_singleton]
  exact validate_nohas l n (h l hl)

/-- with at most one constrained certificate the flat engine *is* the per-certificate
    evaluation, verdict for verdict (same refusal, same kind) -/
theorem union_eq_percert_of_le_one (chain : List Level) (n : Names)
    (h : (chain.filter (·.has)).length ≤ 1) : validate (New chain) n = validatePerCert chain n := by
  induction chain with
  | nil => rw [New_nil, validate_nohas _ _ (by decide)]; rfl
  | cons l ch ih =>
    cases hh : l.has
    · have := has_false_eq l hh
      subst this
      rw [New_cons_empty]
      have hf : (ch.filter (·.has)).length ≤ 1 := by simpa [List.filter, hh] using h
      rw [ih hf]
      unfold validatePerCert
      conv => rhs; unfold firstBad
      rw [New_singleton, validate_nohas _ _ hh]
    · have hf : ch.filter (·.has) = [] := by
        simp [List.filter, hh] at h
        exact List.filter_eq_nil_iff.2 (by simpa using h)
      have hno : ∀ x ∈ ch, x.has = false := by
        intro x hx
        have := List.filter_eq_nil_iff.1 hf x hx
        simpa using this
      rw [New_cons_nohas l ch hno]
      unfold validatePerCert
      conv => rhs; unfold firstBad
      rw [New_singleton]
      have := validatePerCert_nohas ch n hno
      unfold validatePerCert at this
      cases hv : validate l n <;> simp [this]

theorem firstBad_filter {α : Type} (f : α → Verdict) (p : α → Bool) (l : List α)
    (h : ∀ a ∈ l, p a = false → f a = .allow) : firstBad f (l.filter p) = firstBad f l := by
  induction l with
  | nil => rfl
  | cons a as ih =>
    have ih' := ih (fun x hx => h x (List.mem_cons_of_mem _ hx))
    cases hp : p a
    · rw [List.filter_cons_of_neg (by simp [hp])]
      conv => rhs; unfold firstBad
      rw [h a List.mem_cons_self hp, ih']
    · rw [List.filter_cons_of_pos hp]
      unfold firstBad
      rw [ih']

theorem map_New_singleton (chain : List Level) : (chain.map fun l => New [l]) = chain := by
  induction chain with
  | nil => rfl
  | cons l ch ih => simp [New_singleton]

theorem validate_eq_core (e : Engine) (n : Names) (hh : e.has = true) (hp : preParse n = .allow) :
    validate e n = validateCore e n := by
  unfold validate; simp [hh, hp]

theorem validate_of_preParse (e : Engine) (n : Names) (hh : e.has = true) (v : Verdict)
    (hp : preParse n = v) (hv : v ≠ .allow) : validate e n = v := by
  unfold validate
  simp only [hh, Bool.not_true, Bool.false_eq_true, if_false, hp]

theorem firstBad_head {α : Type} (f : α → Verdict) (l : List α) (v : Verdict) (hne : l ≠ [])
    (h : ∀ a ∈ l, f a = v) (hv : v ≠ .allow) : firstBad f l = v := by
  cases l with
  | nil => exact absurd rfl hne
  | cons a as =>
    unfold firstBad
    rw [h a List.mem_cons_self]
    cases v <;> simp_all

/-- **fixed_eq_percert**: `constraints.New` + `Validate` as they are now compute exactly the
    per-certificate evaluation — same verdict, and a refusal is the first refusing certificate's
    in chain order — whether or not the `perCert` engines are populated, and with the dNSName
    pre-parse of 41cbd56 hoisted in front of them. -/
theorem fixed_eq_percert (chain : List Level) (n : Names) :
    validateF (NewF chain) n = validatePerCert chain n := by
  unfold validateF NewF
  simp only [map_New_singleton]
  cases hflat : (New chain).has
  · have hno : ∀ l ∈ chain, l.has = false := by
      intro l hl
      cases hl' : l.has
      · rfl
      · rw [has_of_mem hl hl'] at hflat; cases hflat
    simp [validatePerCert_nohas chain n hno]
  · simp only [Bool.not_true, Bool.false_eq_true, if_false]
    have hpc : firstBad (fun c => validate c n) (chain.filter (·.has)) = validatePerCert chain n := by
      unfold validatePerCert
      have : (fun l => validate (New [l]) n) = fun c => validate c n := by
        funext l; rw [New_singleton]
      rw [this]
      exact firstBad_filter _ _ _ (fun a _ ha => validate_nohas a n ha)
    have hne : chain.filter (·.has) ≠ [] := by
      intro h0
      have hno : ∀ l ∈ chain, l.has = false := by
        intro l hl
        have := List.filter_eq_nil_iff.1 h0 l hl
        simpa using this
      rw [New_nohas chain hno] at hflat
      exact absurd hflat (by decide)
    cases hp : preParse n with
    | allow =>
      simp only []
      by_cases h1 : chain.length > 1
      · by_cases h2 : (chain.filter (·.has)).length > 1
        · have hne' : (chain.filter (·.has)).isEmpty = false := by
            cases hq : chain.filter (·.has) with
            | nil => exact absurd hq hne
            | cons _ _ => rfl
          simp [h1, h2, hne', hpc]
        · simp [h1, h2]
          rw [← validate_eq_core _ _ hflat hp]
          exact union_eq_percert_of_le_one chain n (by omega)
      · simp [h1]
        rw [← validate_eq_core _ _ hflat hp]
        apply union_eq_percert_of_le_one
        have := List.length_filter_le (·.has) chain
        omega
    | deny r k =>
      simp only []
      rw [← hpc]
      exact (firstBad_head _ _ _ hne (fun c hc =>
        validate_of_preParse c n (by simpa using (List.mem_filter.1 hc).2) _ hp (by simp)) (by simp)).symm
    | errRfc822 =>
      simp only []
      rw [← hpc]
      exact (firstBad_head _ _ _ hne (fun c hc =>
        validate_of_preParse c n (by simpa using (List.mem_filter.1 hc).2) _ hp (by simp)) (by simp)).symm
    | crash =>
      simp only []
      rw [← hpc]
      exact (firstBad_head _ _ _ hne (fun c hc =>
        validate_of_preParse c n (by simpa using (List.mem_filter.1 hc).2) _ hp (by simp)) (by simp)).symm

/-- **engine_eq_spec** (the property theorem for the engine under test): what
    `constraints.New(chain...).Validate` allows is exactly what RFC 5280 §6.1.4(g) accepts, for
    every placement of permitted and excluded subtrees on any number of certificates. -/
theorem engine_eq_spec (chain : List Level) (n : Names) (hA : Agree chain n)
    (hD : AllDecided chain n) :
    validateF (NewF chain) n = .allow ↔ specAccept chain n = true := by
  rw [fixed_eq_percert]; exact percert_eq_spec chain n hA hD

theorem engine_sound (chain : List Level) (n : Names) (hA : Agree chain n) :
    validateF (NewF chain) n = .allow → specAccept chain n = true := by
  rw [fixed_eq_percert]; exact percert_sound chain n hA

/-- the D8 witness is refused now, by the intermediate (first in chain order) -/
example : validateF (NewF d8Chain) d8Names = .deny .notPermitted .dns := by decide
example : validateF (NewF d8Chain) { dns := [s "a.sub.example.com"] } = .allow := by decide
/-- hypotheses of `engine_eq_spec` on a chain with permitted subtrees on two levels -/
example : validateF (NewF okChain) okNames = .allow ∧ specAccept okChain okNames = true := by decide

/-! ## 9. Root selection as it is now (after 94a532b) -/

/-- every configured root that issued the last intermediate (subject matches, signature
    verifies) is part of the engine's chain, whatever the key identifiers say, together with all
    intermediates -/
theorem rootsel_any (ints roots : List Cert) (c r : Cert) (hc : c ∈ ints) (hr : r ∈ roots)
    (hs : c.issuer = r.subject) (hv : r.signsLast = true) :
    ∃ ch, chainForSig ints roots = some ch ∧ (∀ x ∈ ints ++ [r], x ∈ ch) := by
  unfold chainForSig
  cases ints with
  | nil => cases hc
  | cons i is =>
    refine ⟨_, rfl, ?_⟩
    intro x hx
    rcases List.mem_append.1 hx with h | h
    · exact List.mem_append_left _ h
    · simp at h; subst h
      apply List.mem_append_right
      refine List.mem_filter.2 ⟨hr, ?_⟩
      simp only [Bool.and_eq_true, List.any_eq_true, beq_iff_eq]
      exact ⟨⟨c, hc, hs⟩, hv⟩

theorem rootsel_complete (ints roots : List Cert) (last : Cert) (hl : ints.getLast? = some last)
    (r : Cert) (hr : r ∈ roots) (hs : last.issuer = r.subject) (hv : r.signsLast = true) :
    ∃ ch, chainForSig ints roots = some ch ∧ (∀ c ∈ ints ++ [r], c ∈ ch) :=
  rootsel_any ints roots last r (List.mem_of_getLast? hl) hr hs hv

theorem specAccept_mono (ch sub : List Level) (n : Names) (h : ∀ l ∈ sub, l ∈ ch) :
    specAccept ch n = true → specAccept sub n = true := by
  unfold specAccept
  simp only [List.all_eq_true]
  intro hc l hl
  exact hc l (h l hl)

/-- **authority_sound**: if the authority allows the names, they are acceptable under RFC 5280
    on the path a relying party validates — all intermediates and the configured root that
    issued the last one — with or without authority key identifiers. -/
theorem authority_sound (ints roots : List Cert) (n : Names) (last r : Cert)
    (hl : ints.getLast? = some last) (hr : r ∈ roots) (hs : last.issuer = r.subject)
    (hv : r.signsLast = true)
    (hA : ∀ ch, chainForSig ints roots = some ch → Agree (ch.map (·.nc)) n) :
    authorityValidateF ints roots n = .allow → specAccept ((ints ++ [r]).map (·.nc)) n = true := by
  obtain ⟨ch, hch, hsub⟩ := rootsel_complete ints roots last hl r hr hs hv
  intro h
  unfold authorityValidateF at h
  rw [hch] at h
  have := engine_sound _ n (hA ch hch) h
  apply specAccept_mono _ _ n _ this
  intro l hl'
  obtain ⟨c, hc, rfl⟩ := List.mem_map.1 hl'
  exact List.mem_map.2 ⟨c, hsub c hc, rfl⟩

/-- the `rootdrop_refuted` witness under the new selection: refused -/
example : authorityValidateF [caCert "int" "root" "k1" "" {}]
    [caCert "root" "root" "k0" "" { xDNS := [s "bad.example.com"] } true] { dns := [s "x.bad.example.com"] }
    = .deny .excluded .dns := by decide
/-- a root that merely has the same name but did not sign the intermediate is not consulted -/
example : authorityValidateF [caCert "int" "root" "k1" "k0" {}]
    [caCert "root" "root" "k0" "" { xDNS := [s "bad.example.com"] } false] { dns := [s "x.bad.example.com"] }
    = .allow := by decide

/-! ## 10. Where the engine is consulted (table re-derived from the source on every run) -/

/-- **all_paths**: in package `authority` exactly three functions reach the CAS for an X.509
    leaf (`signX509`, `renewContext`, `GetTLSCertificate`); in each of them a checked
    name-constraints validation comes first in source order — directly, or through the gate
    `isAllowedToSignX509Certificate`, whose own first step is the checked validation. -/
theorem all_paths :
    (∀ p ∈ issuePaths, guarded p.2 = true) ∧
    ((issuePaths.filter fun p => p.2.any Step.isCas).map (·.1) = ["GetTLSCertificate", "renewContext", "signX509"]) ∧
    (issuePaths.find? (·.1 = "isAllowedToSignX509Certificate")).map (·.2) = some [.validate true] ∧
    (∀ p ∈ issuePaths, p.2.any (· == .gate false) = false ∧ p.2.any (· == .validate false) = false) := by
  decide

/-- `guarded` means what it says: a CAS step at position `i` has a checked step before it -/
theorem guarded_spec (l : List Step) (h : guarded l = true) :
    ∀ pre st post, l = pre ++ st :: post → st.isCas = true → ∃ c ∈ pre, c.isCheck = true := by
  induction l with
  | nil => intro pre st post e; simp at e
  | cons a as ih =>
    intro pre st post e hc
    unfold guarded at h
    cases hk : a.isCheck
    · simp [hk] at h
      cases pre with
      | nil =>
        simp at e
        rw [← e.1] at hc
        rw [hc] at h; simp at h
      | cons b bs =>
        simp at e
        obtain ⟨c, hcm, hck⟩ := ih h.2 bs st post e.2 hc
        exact ⟨c, List.mem_cons_of_mem _ hcm, hck⟩
    · cases pre with
      | nil =>
        simp at e
        rw [← e.1] at hc
        cases a <;> simp [Step.isCas, Step.isCheck] at hc hk
      | cons b bs =>
        simp at e
        exact ⟨a, by rw [e.1]; exact List.mem_cons_self, hk⟩

/-- an unguarded order is recognised (what a moved call site would look like) -/
example : guarded [.casCreate, .validate true] = false := by decide
example : guarded [.validate false, .casCreate] = false := by decide

/-! ## 11. After `fix:` 41cbd56 and 3d20cbd: no divergence left between engine and verifier -/

/-- every IP subtree of the chain has a mask as long as its address: the shape of every
    `net.IPNet` that `x509.ParseCertificate` puts into a certificate (8 or 32 octets split in
    half). A structural fact about parsed certificates, not a restriction on which subtrees a
    chain may carry. -/
def ParsedIP (chain : List Level) : Prop :=
  ∀ l ∈ chain, ∀ c, c ∈ l.pIP ∨ c ∈ l.xIP → c.parsed

theorem agree_of_parsed (chain : List Level) (n : Names) (h : ParsedIP chain) : Agree chain n where
  ip := fun i _ l hl c hc => matchIP_eq_spec i c (h l hl c hc)

/-- **engine_sound_parsed** (the former `divergence_only_v4mapped`, the hypothesis on the
    *content* of the chain is gone): for every chain of parsed certificates — any number of
    levels, any placement of permitted and excluded DNS, IP, e-mail and URI subtrees,
    IPv4-mapped IPv6 subtrees included — and every list of names, what
    `constraints.New(chain...).Validate` allows is acceptable under RFC 5280 §6.1.4(g) to every
    certificate of the chain. -/
theorem engine_sound_parsed (chain : List Level) (n : Names) (h : ParsedIP chain) :
    validateF (NewF chain) n = .allow → specAccept chain n = true :=
  engine_sound chain n (agree_of_parsed chain n h)

/-- the same for the authority as a whole: intermediates ++ issuing root -/
theorem authority_sound_parsed (ints roots : List Cert) (n : Names) (last r : Cert)
    (hl : ints.getLast? = some last) (hr : r ∈ roots) (hs : last.issuer = r.subject)
    (hv : r.signsLast = true)
    (hp : ∀ ch, chainForSig ints roots = some ch → ParsedIP (ch.map (·.nc))) :
    authorityValidateF ints roots n = .allow → specAccept ((ints ++ [r]).map (·.nc)) n = true :=
  authority_sound ints roots n last r hl hr hs hv (fun ch hch => agree_of_parsed _ n (hp ch hch))

example : ParsedIP okChain := by
  intro l hl c hc
  simp [okChain] at hl
  rcases hl with rfl | rfl | rfl <;> simp at hc <;> (try subst hc) <;> decide
/-- a chain with an IPv4-mapped IPv6 subtree is a chain of parsed certificates too -/
example : ParsedIP [{ pIP := [mappedNet] }] := by
  intro l hl c hc
  simp at hl; subst hl
  simp at hc; subst hc; decide

/-- **unparsable_dns_refuted** (historic: the flat engine before 41cbd56, `validate2021`): it
    looked at a name only when a subtree *of its kind* existed, so under IP subtrees only the
    dNSName `a..b` was never parsed and the certificate was signed; the verifier parses every
    dNSName as soon as any constraint exists. -/
theorem unparsable_dns_refuted :
    ¬ ∀ (l : Level) (n : Names), validate2021 l n = .allow → specAccept [l] n = true := by
  intro h
  exact absurd (h { xIP := [⟨[10,0,0,0],[255,0,0,0]⟩] } { dns := [s "a..b"] } (by decide)) (by decide)

/-- now refused before anything else, for one certificate and for several -/
example : validateF (NewF [{ xIP := [⟨[10,0,0,0],[255,0,0,0]⟩] }]) { dns := [s "a..b"] }
    = .deny .matchErr .dns := by decide
example : validateF (NewF [{ xIP := [⟨[10,0,0,0],[255,0,0,0]⟩] }, { pURI := [s "example.com"] }])
    { dns := [s ".www.example.com"] } = .deny .matchErr .dns := by decide

/-! ### what 41cbd56 changed in the matchers (2021 copy against today's) -/

/-- a domain-like subtree without a leading period after its own optional one -/
def cleanC (c : Str) : Bool := !leadingDot (if c.head? = some 46 then c.tail else c)

theorem leadingDot_of_strict (d : Str) (h : (strictLabels d).isSome = true) : leadingDot d = false := by
  unfold strictLabels at h
  cases hd : leadingDot d
  · rfl
  · simp [hd] at h

theorem parse_eq_spec (a : Str) (h : ∀ mb, parseMailbox a = some mb → leadingDot mb.domain = false) :
    parseMailbox a = specParseMailbox a := by
  unfold specParseMailbox
  cases hp : parseMailbox a with
  | none => rfl
  | some mb => simp [h mb hp]

/-- the 2021 `matchEmailConstraint` and today's differ only on a leading period -/
theorem matchEmail_eq_spec (mb : Mailbox) (c : Str) (hd : leadingDot mb.domain = false)
    (hc : cleanC c = true) (hp : ∀ cm, parseMailbox c = some cm → leadingDot cm.domain = false) :
    matchEmail mb c = specMatchEmail mb c := by
  unfold matchEmail specMatchEmail
  rw [← parse_eq_spec c hp]
  split
  · rfl
  · exact matchDomain_eq_spec _ _ hd (by simpa [cleanC] using hc)

/-! ## 12. What is checked is what is signed -/

/-- **checked_is_signed**: in each of the three functions that reach the CAS, the variable passed
    as `Template:` is defined, changed (field assignments, modifiers, validators, enforcers),
    then put through the checked constraints validation, and after that only read-only calls
    see it before the CAS call: no name is added or rewritten after the check. Table re-derived
    from the source on every run. -/
theorem checked_is_signed :
    (∀ p ∈ templatePaths, sealed p.2 = true) ∧
    templatePaths.map (·.1) = ["GetTLSCertificate", "renewContext", "signX509"] := by decide

/-- meaning of `sealed`: the list splits as `… check, mid…, cas …` with only read-only calls in `mid` -/
theorem sealedGo_spec (l : List TStep) (ok : Bool) (h : sealedGo ok l = true) :
    (ok = true ∧ ∃ mid r post, l = mid ++ .cas r :: post ∧ ∀ st ∈ mid, st.readOnly = true) ∨
    (∃ pre g mid r post, l = pre ++ .check g :: mid ++ .cas r :: post ∧ ∀ st ∈ mid, st.readOnly = true) := by
  induction l generalizing ok with
  | nil => simp [sealedGo] at h
  | cons a as ih =>
    cases a with
    | cas r =>
      simp [sealedGo] at h
      exact .inl ⟨h, [], r, as, rfl, by simp⟩
    | check g =>
      simp [sealedGo] at h
      right
      rcases ih true h with ⟨_, mid, r, post, e, hm⟩ | ⟨pre, g', mid, r, post, e, hm⟩
      · exact ⟨[], g, mid, r, post, by simp [e], hm⟩
      · exact ⟨.check g :: pre, g', mid, r, post, by simp [e], hm⟩
    | define =>
      simp [sealedGo, TStep.readOnly] at h
      right
      rcases ih false h with ⟨hk, _⟩ | ⟨pre, g', mid, r, post, e, hm⟩
      · cases hk
      · exact ⟨.define :: pre, g', mid, r, post, by simp [e], hm⟩
    | assign f =>
      simp [sealedGo, TStep.readOnly] at h
      right
      rcases ih false h with ⟨hk, _⟩ | ⟨pre, g', mid, r, post, e, hm⟩
      · cases hk
      · exact ⟨.assign f :: pre, g', mid, r, post, by simp [e], hm⟩
    | call n =>
      unfold sealedGo at h
      cases hr : (TStep.call n).readOnly
      · simp [hr] at h
        right
        rcases ih false h with ⟨hk, _⟩ | ⟨pre, g', mid, r, post, e, hm⟩
        · cases hk
        · exact ⟨.call n :: pre, g', mid, r, post, by simp [e], hm⟩
      · simp [hr] at h
        rcases ih ok h with ⟨hk, mid, r, post, e, hm⟩ | ⟨pre, g', mid, r, post, e, hm⟩
        · left
          refine ⟨hk, .call n :: mid, r, post, by simp [e], ?_⟩
          intro st hst
          cases hst with
          | head => exact hr
          | tail _ h' => exact hm st h'
        · right
          exact ⟨.call n :: pre, g', mid, r, post, by simp [e], hm⟩

theorem sealed_spec (l : List TStep) (h : sealed l = true) :
    ∃ pre g mid r post, l = pre ++ .check g :: mid ++ .cas r :: post ∧ ∀ st ∈ mid, st.readOnly = true := by
  rcases sealedGo_spec l false h with ⟨hk, _⟩ | h'
  · cases hk
  · exact h'

/-- the order red-team seed out3/C05/1 produced (gate before the enforcers) is not sealed -/
example : sealed [.define, .call "Modify", .call "Modify", .call "Valid", .check true, .call "Enforce",
    .call "Enforce", .call "callAuthorizingWebhooksX509", .cas false] = false := by decide
/-- a field assignment after the check is not sealed either -/
example : sealed [.define, .check false, .assign "DNSNames", .cas false] = false := by decide

/-! ## 13. The front ends: sign / renew / rekey handlers, ACME finalize, SCEP enrolment -/

/-- **front_issues_iff**: through every front end a certificate is handed out iff the
    authority's verdict on the names is `allow` -/
theorem front_issues_iff (f : Front) (v : Verdict) : frontAnswer f v = .issued ↔ v = .allow := by
  cases f <;> cases v <;> simp [frontAnswer]

/-- **front_sound**: a certificate obtained through any front end carries names that are
    acceptable under RFC 5280 on intermediates ++ issuing root (no IPv4-mapped IPv6 subtree) -/
theorem front_sound (f : Front) (ints roots : List Cert) (n : Names) (last r : Cert)
    (hl : ints.getLast? = some last) (hr : r ∈ roots) (hs : last.issuer = r.subject)
    (hv : r.signsLast = true)
    (hp : ∀ ch, chainForSig ints roots = some ch → ParsedIP (ch.map (·.nc))) :
    frontAnswer f (authorityValidateF ints roots n) = .issued →
      specAccept ((ints ++ [r]).map (·.nc)) n = true := by
  intro h
  exact authority_sound_parsed ints roots n last r hl hr hs hv hp ((front_issues_iff f _).1 h)

/-- **front_client_error**: every front end — the sign, renew and rekey handlers, ACME finalize
    and SCEP — answers a refusal for name constraints with a client error (403; ACME
    `rejectedIdentifier`; pkiStatus FAILURE) -/
theorem front_client_error (f : Front) (r : Reason) (k : Kind) :
    frontAnswer f (.deny r k) = .clientError := by
  cases f <;> simp [frontAnswer]

/-- **front_demand**: every front end answers as C05 demands, for every verdict -/
theorem front_demand (f : Front) (v : Verdict) : frontAnswer f v = frontDemand f v := by
  cases f <;> cases v <;> simp [frontAnswer, frontDemand]

/-- **renewTok_issues**: the token-authenticated renewal hands out a certificate only if the
    authority allows the names, whatever the certificate's own (old) chain looks like -/
theorem renewTok_issues (pathOk : Bool) (v : Verdict) :
    renewTokAnswer pathOk v = .issued → v = .allow := by
  unfold renewTokAnswer
  cases pathOk <;> simp
  exact (front_issues_iff .renewTok v).1

/-- … and never answers a name-constraint refusal with anything but a client error -/
theorem renewTok_client_error (pathOk : Bool) (r : Reason) (k : Kind) :
    renewTokAnswer pathOk (.deny r k) = .clientError := by
  unfold renewTokAnswer
  cases pathOk <;> simp [front_client_error]

/-- **acme_status_refuted** (historic: `Order.Finalize` before 89421a7, `frontAnswerOld`): the
    authority's 403 for a name outside the constraints was wrapped into `serverInternal` (500). -/
theorem acme_status_refuted : ¬ ∀ (f : Front) (v : Verdict), frontAnswerOld f v = frontDemand f v := by
  intro h
  exact absurd (h .acme (.deny .notPermitted .dns)) (by decide)

/-! ## 14. Root bundles -/

theorem readBundle_mem (bs : List Block) (roots : List Cert) (h : readBundle bs = some roots)
    (c : Cert) : c ∈ roots ↔ Block.cert c ∈ bs := by
  induction bs generalizing roots with
  | nil => simp [readBundle] at h; subst h; simp
  | cons b rest ih =>
    cases b with
    | skip => simp [readBundle] at h; simp [ih roots h]
    | badCert => simp [readBundle] at h
    | cert d =>
      simp only [readBundle, Option.map_eq_some_iff] at h
      obtain ⟨r', hr', rfl⟩ := h
      simp [ih r' hr']

theorem readBundle_some_of_no_bad (bs : List Block) (h : Block.badCert ∉ bs) :
    ∃ roots, readBundle bs = some roots := by
  induction bs with
  | nil => exact ⟨[], rfl⟩
  | cons b rest ih =>
    have hrest : Block.badCert ∉ rest := fun h' => h (List.mem_cons_of_mem _ h')
    obtain ⟨rs, hrs⟩ := ih hrest
    cases b with
    | skip => exact ⟨rs, by simp [readBundle, hrs]⟩
    | badCert => exact absurd List.mem_cons_self h
    | cert d => exact ⟨d :: rs, by simp [readBundle, hrs]⟩

/-- **bundle_root_found**: a root certificate is in the authority's root list wherever it stands
    in the bundle — after a retired root, after a CRL or any other block — and whatever stands
    after it; so the root that issued the last intermediate reaches the constraints engine. -/
theorem bundle_root_found (ints : List Cert) (bs : List Block) (last r : Cert)
    (hl : ints.getLast? = some last) (hb : Block.cert r ∈ bs) (hok : Block.badCert ∉ bs)
    (hs : last.issuer = r.subject) (hv : r.signsLast = true) :
    ∃ roots ch, readBundle bs = some roots ∧ chainForSig ints roots = some ch ∧ ∀ c ∈ ints ++ [r], c ∈ ch := by
  have hsome := readBundle_some_of_no_bad bs hok
  obtain ⟨roots, hroots⟩ := hsome
  have hr : r ∈ roots := (readBundle_mem bs roots hroots r).2 hb
  obtain ⟨ch, hch, hsub⟩ := rootsel_complete ints roots last hl r hr hs hv
  exact ⟨roots, ch, hroots, hch, hsub⟩

/-- **bundle_sound**: with the roots taken from a bundle, what the authority allows is
    acceptable on intermediates ++ the issuing root, wherever that root stands in the bundle -/
theorem bundle_sound (ints : List Cert) (bs : List Block) (n : Names) (last r : Cert)
    (hl : ints.getLast? = some last) (hb : Block.cert r ∈ bs)
    (hs : last.issuer = r.subject) (hv : r.signsLast = true)
    (hp : ∀ roots ch, readBundle bs = some roots → chainForSig ints roots = some ch → ParsedIP (ch.map (·.nc))) :
    authorityValidateB ints bs n = some .allow → specAccept ((ints ++ [r]).map (·.nc)) n = true := by
  intro h
  unfold authorityValidateB at h
  cases hrb : readBundle bs with
  | none => simp [hrb] at h
  | some roots =>
    simp [hrb] at h
    have hr : r ∈ roots := (readBundle_mem bs roots hrb r).2 hb
    exact authority_sound_parsed ints roots n last r hl hr hs hv (fun ch hch => hp roots ch hrb hch) h

/-- the red-team shape: retired root, its CRL, then the current root that excludes the name -/
example : authorityValidateB [caCert "int" "root" "k1" "" {}]
    [.cert (caCert "retired" "retired" "k9" "" {}), .skip,
     .cert (caCert "root" "root" "k0" "" { xDNS := [s "bad.example.com"] } true)]
    { dns := [s "x.bad.example.com"] } = some (.deny .excluded .dns) := by decide

/-! ## 15. What the gate is shown of the template -/

/-- **sign_sound_partial**: `Authority.Sign` allows only RFC 5280-acceptable names *when the
    template carries them in the name fields* (only DNS / IP / e-mail / URI SANs). Missing for the
    full clause: templates whose subjectAltName is an extension (`SanCarrier.extension`). -/
theorem sign_sound_partial (ints roots : List Cert) (n : Names) (last r : Cert)
    (hl : ints.getLast? = some last) (hr : r ∈ roots) (hs : last.issuer = r.subject)
    (hv : r.signsLast = true)
    (hp : ∀ ch, chainForSig ints roots = some ch → ParsedIP (ch.map (·.nc))) :
    signVerdict .fields ints roots n = .allow → specAccept ((ints ++ [r]).map (·.nc)) n = true :=
  authority_sound_parsed ints roots n last r hl hr hs hv hp

/-- **extsan_refuted**: with an extended SAN in the template (x509util builds the subjectAltName
    extension, the name fields stay empty) the gate sees no name: under an intermediate that
    permits `example.org` only, `web.example.com` is signed. The same holds for the X.509 policy
    engine, which is asked right after the constraints engine on the same empty fields. -/
theorem extsan_refuted :
    ¬ ∀ (c : SanCarrier) (ints roots : List Cert) (n : Names) (r : Cert), r ∈ roots →
        signVerdict c ints roots n = .allow → specAccept ((ints ++ [r]).map (·.nc)) n = true := by
  intro h
  exact absurd
    (h .extension [caCert "int" "root" "k1" "k0" { pDNS := [s "example.org"] }]
       [caCert "root" "root" "k0" "" {} true] { dns := [s "web.example.com"] }
       (caCert "root" "root" "k0" "" {} true) (by simp) (by decide))
    (by decide)

/-- the same names in the fields are refused -/
example : signVerdict .fields [caCert "int" "root" "k1" "k0" { pDNS := [s "example.org"] }]
    [caCert "root" "root" "k0" "" {} true] { dns := [s "web.example.com"] } = .deny .notPermitted .dns := by decide

/-- whatever the names, the gate allows a template of the extension kind -/
theorem extension_always_allowed (ints roots : List Cert) (n : Names) :
    signVerdict .extension ints roots n = authorityValidateF ints roots {} := rfl

/-! ## 16. The class of a refusal: name constraints are answered with the typed 403 error -/

theorem firstBad_eq {α : Type} (f : α → Verdict) (l : List α) (v : Verdict) (hv : v ≠ .allow)
    (h : firstBad f l = v) : ∃ a ∈ l, f a = v := by
  induction l with
  | nil => simp [firstBad] at h; exact absurd h.symm hv
  | cons x xs ih =>
    unfold firstBad at h
    cases hx : f x with
    | allow =>
      rw [hx] at h
      obtain ⟨a, ha, hfa⟩ := ih h
      exact ⟨a, List.mem_cons_of_mem _ ha, hfa⟩
    | deny r k => rw [hx] at h; exact ⟨x, List.mem_cons_self, by rw [hx]; exact h⟩
    | errRfc822 => rw [hx] at h; exact ⟨x, List.mem_cons_self, by rw [hx]; exact h⟩
    | crash => rw [hx] at h; exact ⟨x, List.mem_cons_self, by rw [hx]; exact h⟩

theorem verdict_ne_err (o : Out) (k : Kind) : o.verdict k ≠ .errRfc822 := by
  cases o <;> simp [Out.verdict]

theorem validate_err (e : Engine) (n : Names) (h : validate e n = .errRfc822) :
    ∃ a ∈ n.emails, specParseMailbox a = none := by
  unfold validate at h
  split at h
  · cases h
  · have hpre : preParse n ≠ .errRfc822 := by
      intro hp
      unfold preParse at hp
      obtain ⟨d, _, hd⟩ := firstBad_eq _ _ _ (by simp) hp
      split at hd <;> cases hd
    cases hp : preParse n with
    | allow =>
      rw [hp] at h
      simp only [] at h
      unfold validateCore at h
      cases h1 : firstBad (checkDNS e) n.dns with
      | allow =>
        rw [h1] at h; simp only [] at h
        cases h2 : firstBad (checkIP e) n.ips with
        | allow =>
          rw [h2] at h; simp only [] at h
          cases h3 : firstBad (checkEmail e) n.emails with
          | allow =>
            rw [h3] at h; simp only [] at h
            obtain ⟨u, _, hu⟩ := firstBad_eq _ _ _ (by simp) h
            unfold checkURI at hu
            exact absurd hu (verdict_ne_err _ _)
          | errRfc822 =>
            obtain ⟨a, ha, hfa⟩ := firstBad_eq _ _ _ (by simp) h3
            refine ⟨a, ha, ?_⟩
            unfold checkEmail at hfa
            cases hpm : specParseMailbox a with
            | none => rfl
            | some mb => rw [hpm] at hfa; exact absurd hfa (verdict_ne_err _ _)
          | deny r k => rw [h3] at h; cases h
          | crash => rw [h3] at h; cases h
        | errRfc822 =>
          obtain ⟨i, _, hi⟩ := firstBad_eq _ _ _ (by simp) h2
          unfold checkIP at hi
          exact absurd hi (verdict_ne_err _ _)
        | deny r k => rw [h2] at h; cases h
        | crash => rw [h2] at h; cases h
      | errRfc822 =>
        obtain ⟨d, _, hd⟩ := firstBad_eq _ _ _ (by simp) h1
        unfold checkDNS at hd
        exact absurd hd (verdict_ne_err _ _)
      | deny r k => rw [h1] at h; cases h
      | crash => rw [h1] at h; cases h
    | deny r k => rw [hp] at h; cases h
    | errRfc822 => exact absurd hp hpre
    | crash => rw [hp] at h; cases h

/-- **err_only_unparsable_email**: whatever the chain — one constrained certificate or several,
    i.e. through the flat lists or through the per-certificate engines — `Validate` answers with
    the untyped error (HTTP 500) only for an rfc822Name it cannot parse; every refusal *for name
    constraints* is the typed ConstraintError (403). -/
theorem err_only_unparsable_email (chain : List Level) (n : Names)
    (h : validateF (NewF chain) n = .errRfc822) : ∃ a ∈ n.emails, specParseMailbox a = none := by
  rw [fixed_eq_percert] at h
  unfold validatePerCert at h
  obtain ⟨l, _, hl⟩ := firstBad_eq _ _ _ (by simp) h
  exact validate_err _ n hl

/-- so with parsable rfc822Names a refusal is always a client error, nested constraints included -/
theorem refusal_is_typed (chain : List Level) (n : Names)
    (hm : ∀ a ∈ n.emails, specParseMailbox a ≠ none) (hc : validateF (NewF chain) n ≠ .crash)
    (hr : validateF (NewF chain) n ≠ .allow) : ∃ r k, validateF (NewF chain) n = .deny r k := by
  cases hv : validateF (NewF chain) n with
  | allow => exact absurd hv hr
  | deny r k => exact ⟨r, k, rfl⟩
  | errRfc822 =>
    obtain ⟨a, ha, hp⟩ := err_only_unparsable_email chain n hv
    exact absurd hp (hm a ha)
  | crash => exact absurd hv hc

example : validateF (NewF d8Chain) d8Names = .deny .notPermitted .dns := by decide

/-! ## 17. Option order of an embedded authority -/

/-- **rootsel_any_order** (since `fix:` 6f79d48): the certificate list handed to the engine
    contains all intermediates and every configured root that issued *an* intermediate of the
    list (issuer name equal, signature verifies), wherever that intermediate stands — so also for
    the list `[issuing, policy, issuing]` an embedder gets with `WithX509IntermediateCerts` before
    `WithX509Signer`. -/
theorem rootsel_any_order (ints roots : List Cert) (c r : Cert) (hc : c ∈ ints) (hr : r ∈ roots)
    (hs : c.issuer = r.subject) (hv : r.signsLast = true) :
    (∃ ch, chainForSig ints roots = some ch ∧ ∀ x ∈ ints ++ [r], x ∈ ch) ∧
    (∃ ch, chainForSig (intsIcFirst ints) roots = some ch ∧ ∀ x ∈ ints ++ [r], x ∈ ch) := by
  refine ⟨rootsel_any ints roots c r hc hr hs hv, ?_⟩
  obtain ⟨ch, hch, hsub⟩ := rootsel_any (intsIcFirst ints) roots c r (List.mem_append_left _ hc) hr hs hv
  refine ⟨ch, hch, ?_⟩
  intro x hx
  rcases List.mem_append.1 hx with h | h
  · exact hsub x (List.mem_append_left _ (List.mem_append_left _ h))
  · exact hsub x (List.mem_append_right _ h)

/-- **icfirst_sound**: in the intermediates-first option order too, what the authority allows is
    acceptable on intermediates ++ the issuing root -/
theorem icfirst_sound (ints roots : List Cert) (n : Names) (c r : Cert) (hc : c ∈ ints)
    (hr : r ∈ roots) (hs : c.issuer = r.subject) (hv : r.signsLast = true)
    (hp : ∀ ch, chainForSig (intsIcFirst ints) roots = some ch → ParsedIP (ch.map (·.nc))) :
    authorityValidateF (intsIcFirst ints) roots n = .allow →
      specAccept ((ints ++ [r]).map (·.nc)) n = true := by
  obtain ⟨ch, hch, hsub⟩ := (rootsel_any_order ints roots c r hc hr hs hv).2
  intro h
  unfold authorityValidateF at h
  rw [hch] at h
  have := engine_sound _ n (agree_of_parsed _ n (hp ch hch)) h
  apply specAccept_mono _ _ n _ this
  intro l hl'
  obtain ⟨x, hx, rfl⟩ := List.mem_map.1 hl'
  exact List.mem_map.2 ⟨x, hsub x hx, rfl⟩

def icIssuing : Cert := caCert "issuing" "policy" "k2" "k1" {}
def icPolicy : Cert := caCert "policy" "root" "k1" "k0" {}
def icRoot : Cert := caCert "root" "root" "k0" "" { xDNS := [s "bad.example.com"] } true

/-- **icfirst_refuted_historic** (the last-element selection `chainForLast`, before 6f79d48): the list
    `[issuing, policy, issuing]` ends with the issuing CA, no root issued it, and the root's
    constraints never reached the engine: the root excludes `bad.example.com`, the CA allowed it. -/
theorem icfirst_refuted_historic :
    ¬ ∀ (ints roots : List Cert) (n : Names) (r : Cert), r ∈ roots →
        authorityValidateLast (intsIcFirst ints) roots (fun ch => validateF (NewF ch) n) = .allow →
        specAccept ((ints ++ [r]).map (·.nc)) n = true := by
  intro h
  exact absurd
    (h [icIssuing, icPolicy] [icRoot] { dns := [s "x.bad.example.com"] } icRoot (by simp) (by decide))
    (by decide)

/-- now refused in both option orders -/
example : authorityValidateF (intsIcFirst [icIssuing, icPolicy]) [icRoot] { dns := [s "x.bad.example.com"] }
    = .deny .excluded .dns := by decide
example : authorityValidateF [icIssuing, icPolicy] [icRoot] { dns := [s "x.bad.example.com"] }
    = .deny .excluded .dns := by decide

/-- the constraints of every intermediate reach the engine in both orders -/
theorem icfirst_keeps_intermediates (ints : List Cert) (c : Cert) (hc : c ∈ ints) :
    c ∈ intsIcFirst ints := List.mem_append_left _ hc

end Verif.Constraints
