import Verif.Props.C16
/-!
  C16, second part — the administrator collection in full (groups by provisioner, the
  (subject, provisioner) index, per-provisioner counters), the authority layer (cache = store
  under storage failures and restarts, `RemoveProvisioner` exact), and the slice aliasing in
  `RemoveProvisioner`'s loop.
-/
namespace Verif.Admin
open Verif

/-! ## association-list facts -/

namespace Map
variable {K V : Type} [DecidableEq K]

theorem get_put_same (m : Map K V) (k : K) (v : V) : get (put m k v) k = some v := by
  simp [put, get]

theorem get_del_ne (m : Map K V) {k k' : K} (h : k ≠ k') : get (del m k) k' = get m k' := by
  induction m with
  | nil => rfl
  | cons x r ih =>
    obtain ⟨a, b⟩ := x
    by_cases ha : a = k
    · have : del ((a, b) :: r) k = del r k := by simp [del, ha]
      rw [this, ih]
      have : a ≠ k' := by rw [ha]; exact h
      simp [get, this]
    · have : del ((a, b) :: r) k = (a, b) :: del r k := by simp [del, ha]
      rw [this]
      by_cases hk : a = k' <;> simp [get, hk, ih]

theorem get_put_ne (m : Map K V) {k k' : K} (v : V) (h : k ≠ k') : get (put m k v) k' = get m k' := by
  simp only [put, get, h, if_false]
  exact get_del_ne m h

theorem get_map_val {W : Type} (m : Map K V) (f : V → W) (k : K) :
    get (m.map (fun e => (e.1, f e.2))) k = (get m k).map f := by
  induction m with
  | nil => rfl
  | cons x r ih =>
    obtain ⟨a, b⟩ := x
    by_cases ha : a = k <;> simp [get, ha, ih]

end Map

theorem nsuper_append (l₁ l₂ : List Adm) : nsuper (l₁ ++ l₂) = nsuper l₁ + nsuper l₂ := by
  simp [nsuper, List.filter_append]

theorem nsuper_nil : nsuper [] = 0 := rfl

/-! ## the swap-with-last removal -/

theorem swapRemove_perm {id : Str} {l : List Adm} (nd : (l.map (·.id)).Nodup) :
    (swapRemove id l).Perm (l.filter (fun x => decide (x.id ≠ id))) := by
  induction l with
  | nil => exact List.Perm.refl _
  | cons x r ih =>
    simp only [List.map_cons, List.nodup_cons, List.mem_map] at nd
    unfold swapRemove
    by_cases hx : x.id = id
    · simp only [hx, if_true]
      have hr : r.filter (fun y => decide (y.id ≠ id)) = r := by
        rw [List.filter_eq_self]; intro e he
        have : e.id ≠ id := fun h => nd.1 ⟨e, he, by rw [h, hx]⟩
        simpa using this
      rw [List.filter_cons_of_neg (by simp [hx]), hr]
      cases hl : r.getLast? with
      | none =>
        have : r = [] := by simpa using hl
        simp [this]
      | some z =>
        simp only
        have hne : r ≠ [] := by intro h0; simp [h0] at hl
        have hz : r.getLast hne = z := by
          have := List.getLast?_eq_some_getLast hne
          rw [this] at hl; exact Option.some.inj hl
        have hsplit : r.dropLast ++ [z] = r := by rw [← hz]; exact List.dropLast_concat_getLast hne
        calc (z :: r.dropLast).Perm (r.dropLast ++ [z]) := (List.perm_append_singleton z r.dropLast).symm
          _ = r := hsplit
    · simp only [hx, if_false]
      rw [List.filter_cons_of_pos (by simpa using hx)]
      exact List.Perm.cons x (ih nd.2)

theorem mem_swapRemove {id : Str} {l : List Adm} (nd : (l.map (·.id)).Nodup) {x : Adm} :
    x ∈ swapRemove id l ↔ x ∈ l ∧ x.id ≠ id := by
  rw [(swapRemove_perm nd).mem_iff]; simp [List.mem_filter]

theorem nodup_swapRemove {id : Str} {l : List Adm} (nd : (l.map (·.id)).Nodup) :
    ((swapRemove id l).map (·.id)).Nodup := by
  rw [((swapRemove_perm nd).map _).nodup_iff]
  exact List.Nodup.sublist (List.Sublist.map _ List.filter_sublist) nd

theorem nsuper_swapRemove {id : Str} {l : List Adm} (nd : (l.map (·.id)).Nodup) :
    nsuper (swapRemove id l) = nsuper (l.filter (fun x => decide (x.id ≠ id))) :=
  nsuper_perm (swapRemove_perm nd)

/-! ## the administrator collection in full: groups, (subject, provisioner) index, counters -/

/-- an administrator together with the provisioner *name* it was stored under -/
abbrev Ent := Str × Adm

/-- `LoadByProvisioner(name)` (empty when the name is unknown) -/
def group (c : AColl) (n : Str) : List Adm := (c.byProv.get n).getD []

/-- `E` lists every administrator of the collection once, with the name of its group:
    the listing, the `bySubProv` index, the `byProv` groups and the per-provisioner counters are
    exactly the images of `E`. -/
structure GRep (c : AColl) (E : List Ent) : Prop where
  ids : (E.map (·.2.id)).Nodup
  listed : ∀ a, a ∈ c.sorted ↔ ∃ n, (n, a) ∈ E
  sp : ∀ k a, (k, a) ∈ c.bySubProv ↔ ∃ n, (n, a) ∈ E ∧ k = (a.sub, n)
  grp : ∀ n a, a ∈ group c n ↔ (n, a) ∈ E
  gnd : ∀ n, ((group c n).map (·.id)).Nodup
  cnt : ∀ n, c.superBy n = (nsuper (group c n) : Int)

theorem GRep.empty : GRep {} [] :=
  ⟨List.nodup_nil, by simp, by simp, by simp [group, Map.get], by simp [group, Map.get], by
    intro n; simp [AColl.superBy, group, Map.get, nsuper]⟩

theorem GRep.ent_inj {c : AColl} {E : List Ent} (g : GRep c E) {e e' : Ent} (he : e ∈ E) (he' : e' ∈ E)
    (h : e.2.id = e'.2.id) : e = e' := by
  have key : ∀ (l : List Ent), (l.map (·.2.id)).Nodup → e ∈ l → e' ∈ l → e = e' := by
    intro l
    induction l with
    | nil => intro _ h1; cases h1
    | cons x r ih =>
      intro nd h1 h2
      simp only [List.map_cons, List.nodup_cons, List.mem_map] at nd
      rcases List.mem_cons.mp h1 with h1 | h1 <;> rcases List.mem_cons.mp h2 with h2 | h2
      · rw [h1, h2]
      · exact absurd ⟨e', h2, by rw [← h, h1]⟩ nd.1
      · exact absurd ⟨e, h1, by rw [h, h2]⟩ nd.1
      · exact ih nd.2 h1 h2
  exact key E g.ids he he'

theorem AColl.store_ok {c : AColl} {a : Adm} {pid pname : Str} (h : (c.store a pid pname).2 = none) :
    a.provId = pid ∧ c.byID.has a.id = false ∧ c.bySubProv.has (a.sub, pname) = false ∧
    (c.store a pid pname).1 =
      { byID := c.byID.put a.id a, bySubProv := c.bySubProv.put (a.sub, pname) a,
        byProv := c.byProv.put pname (group c pname ++ [a]),
        sorted := insertBy (·.id) a c.sorted,
        superCount := if a.super then c.superCount + 1 else c.superCount,
        superByProv := if a.super then
            (match c.byProv.get pname with
              | some _ => bump c.superByProv pname 1
              | none => c.superByProv.put pname 1)
          else c.superByProv } := by
  unfold AColl.store at h ⊢
  split at h
  · simp at h
  rename_i h1
  split at h
  · simp at h
  rename_i h2
  split at h
  · simp at h
  rename_i h3
  refine ⟨by simpa using h1, by simpa using h2, by simpa using h3, ?_⟩
  simp only [h1, h2, h3, if_false]
  cases hg : c.byProv.get pname <;> simp [group, hg]

theorem group_put (c : AColl) (n n' : Str) (l : List Adm) (c' : AColl) (h : c'.byProv = c.byProv.put n l) :
    group c' n' = if n' = n then l else group c n' := by
  unfold group
  rw [h]
  by_cases hn : n' = n
  · rw [hn]; simp [Map.get_put_same]
  · simp only [hn, if_false]
    rw [Map.get_put_ne _ _ (fun h => hn h.symm)]

theorem superBy_bump (m : Map Str Int) (k n : Str) (d : Int) :
    ((bump m k d).get n).getD 0 = (m.get n).getD 0 + (if n = k then d else 0) := by
  unfold bump
  by_cases hn : n = k
  · rw [hn]; simp [Map.get_put_same]
  · simp only [hn, if_false, Int.add_zero]
    rw [Map.get_put_ne _ _ (fun h => hn h.symm)]

theorem GRep.mem_listed {c : AColl} {E : List Ent} (g : GRep c E) {e : Ent} (he : e ∈ E) : e.2 ∈ c.sorted :=
  (g.listed e.2).mpr ⟨e.1, he⟩

/-- `Store` extends the representation by the new administrator under the name it was stored with -/
theorem GRep.store {c : AColl} {E : List Ent} {a : Adm} {pid pname : Str} (hinv : AInv c) (g : GRep c E)
    (h : (c.store a pid pname).2 = none) : GRep (c.store a pid pname).1 ((pname, a) :: E) := by
  obtain ⟨_, hid, hsp, heq⟩ := AColl.store_ok h
  have fresh : ∀ x ∈ c.sorted, x.id ≠ a.id := hinv.idx.has_false.mp hid
  have freshE : ∀ e ∈ E, e.2.id ≠ a.id := fun e he => fresh _ (g.mem_listed he)
  have hgrp : ∀ n, group (c.store a pid pname).1 n = if n = pname then group c pname ++ [a] else group c n := by
    intro n; exact group_put c pname n _ _ (by rw [heq])
  refine ⟨?_, ?_, ?_, ?_, ?_, ?_⟩
  · simp only [List.map_cons, List.nodup_cons, List.mem_map]
    exact ⟨fun ⟨e, he, h⟩ => freshE e he h, g.ids⟩
  · intro x
    rw [heq]; simp only [mem_insertBy, List.mem_cons, Prod.mk.injEq]
    rw [g.listed]
    constructor
    · rintro (rfl | ⟨n, hn⟩)
      · exact ⟨pname, .inl ⟨rfl, rfl⟩⟩
      · exact ⟨n, .inr hn⟩
    · rintro ⟨n, ⟨_, rfl⟩ | hn⟩
      · exact .inl rfl
      · exact .inr ⟨n, hn⟩
  · intro k x
    rw [heq]; simp only [Map.put, Map.del_absent hsp, List.mem_cons, Prod.mk.injEq]
    rw [g.sp]
    constructor
    · rintro (⟨rfl, rfl⟩ | ⟨n, hn, rfl⟩)
      · exact ⟨pname, .inl ⟨rfl, rfl⟩, rfl⟩
      · exact ⟨n, .inr hn, rfl⟩
    · rintro ⟨n, ⟨rfl, rfl⟩ | hn, rfl⟩
      · exact .inl ⟨rfl, rfl⟩
      · exact .inr ⟨n, hn, rfl⟩
  · intro n x
    rw [hgrp]
    simp only [List.mem_cons, Prod.mk.injEq]
    by_cases hn : n = pname
    · subst hn
      simp only [if_true, List.mem_append, List.mem_singleton, g.grp, true_and]
      constructor
      · rintro (h | h); exact .inr h; exact .inl h
      · rintro (h | h); exact .inr h; exact .inl h
    · simp only [hn, if_false, g.grp, false_and, false_or]
  · intro n
    rw [hgrp]
    by_cases hn : n = pname
    · subst hn
      simp only [if_true, List.map_append, List.map_cons, List.map_nil]
      rw [List.nodup_append]
      refine ⟨g.gnd n, by simp, ?_⟩
      intro x hx y hy
      simp only [List.mem_singleton] at hy
      obtain ⟨e, he, rfl⟩ := List.mem_map.mp hx
      rw [hy]
      exact fresh e ((g.listed e).mpr ⟨n, (g.grp n e).mp he⟩)
    · simp only [hn, if_false]; exact g.gnd n
  · intro n
    rw [hgrp]
    have hc := g.cnt n
    unfold AColl.superBy at hc ⊢
    rw [heq]
    by_cases hs : a.super = true
    · simp only [hs, if_true]
      cases hg : c.byProv.get pname with
      | some l0 =>
        simp only
        rw [superBy_bump, hc]
        by_cases hn : n = pname
        · simp [hn, nsuper_append, nsuper_cons, hs, nsuper_nil]
        · simp [hn]
      | none =>
        simp only
        by_cases hn : n = pname
        · subst hn
          have h0 : group c n = [] := by simp [group, hg]
          simp [Map.get_put_same, h0, nsuper_cons, hs, nsuper_nil]
        · simp only [hn, if_false]
          rw [Map.get_put_ne _ _ (fun h => hn h.symm)]; exact hc
    · simp only [hs, if_false, Bool.false_eq_true]
      rw [hc]
      by_cases hn : n = pname
      · simp [hn, nsuper_append, nsuper_cons, hs, nsuper_nil]
      · simp [hn]

theorem AColl.remove_ok {c c' : AColl} {pn : Str → Option Str} {id : Str} (hinv : AInv c)
    (h : c.remove pn id = .val (c', none)) :
    ∃ adm n l, c.byID.get id = some adm ∧ adm ∈ c.sorted ∧ adm.id = id ∧ pn adm.provId = some n ∧
      c.byProv.get n = some l ∧ (∃ x ∈ l, x.id = adm.id) ∧ ¬(adm.super = true ∧ c.superCount = 1) ∧
      c' = { byID := c.byID.del adm.id, bySubProv := c.bySubProv.del (adm.sub, n),
             byProv := c.byProv.put n (swapRemove adm.id l),
             sorted := c.sorted.filter (fun e => decide (e.id ≠ adm.id)),
             superCount := if adm.super then c.superCount - 1 else c.superCount,
             superByProv := if adm.super then bump c.superByProv n (-1) else c.superByProv } := by
  unfold AColl.remove at h
  cases hg : c.byID.get id with
  | none => simp [hg] at h
  | some adm =>
    have hadm := hinv.idx.get_some.mp hg
    simp only [hg] at h
    split at h
    · simp at h
    rename_i hlast
    cases hp : pn adm.provId with
    | none => simp [hp] at h
    | some n =>
      simp only [hp] at h
      cases hl : c.byProv.get n with
      | none => simp [hl] at h
      | some l =>
        simp only [hl] at h
        obtain ⟨hrm, hdw⟩ := remove_sorted (key := fun (a : Adm) => a.id) hinv.sorted hadm.1
        split at h
        · rename_i heq; rw [hdw] at heq; cases heq
        · rename_i x rest heq
          rw [hdw] at heq
          have hx : x = adm := by injection heq with h1 _; exact h1.symm
          subst hx
          split at h
          · rename_i hne; exact absurd rfl hne
          split at h
          · simp at h
          rename_i hany
          simp only [M.val.injEq, Prod.mk.injEq, and_true] at h
          refine ⟨x, n, l, rfl, hadm.1, hadm.2.symm, hp, hl, ?_, hlast, ?_⟩
          · simpa using hany
          · rw [← h, hrm]

/-- `Remove` removes exactly the entry of that administrator; the group it was found in is the
    group it had been stored under -/
theorem GRep.remove {c c' : AColl} {E : List Ent} {pn : Str → Option Str} {id : Str} (hinv : AInv c)
    (g : GRep c E) (h : c.remove pn id = .val (c', none)) :
    ∃ adm n, adm.id = id ∧ (n, adm) ∈ E ∧ pn adm.provId = some n ∧
      ¬(adm.super = true ∧ c.superCount = 1) ∧
      c'.sorted = c.sorted.filter (fun e => decide (e.id ≠ id)) ∧
      c'.superCount = c.superCount - (if adm.super then 1 else 0) ∧
      GRep c' (E.filter (fun e => decide (e.2.id ≠ id))) := by
  obtain ⟨adm, n, l, _, hmem, hid, hp, hl, ⟨x, hxl, hxid⟩, hlast, heq⟩ := AColl.remove_ok hinv h
  have hgl : group c n = l := by simp [group, hl]
  have hxE : (n, x) ∈ E := (g.grp n x).mp (by rw [hgl]; exact hxl)
  have hxa : x = adm := hinv.sorted.inj (g.mem_listed hxE) hmem hxid
  subst hxa
  subst hid
  have hgrp : ∀ m, group c' m = if m = n then swapRemove x.id l else group c m := by
    intro m; exact group_put c n m _ _ (by rw [heq])
  have hnd : (l.map (·.id)).Nodup := by rw [← hgl]; exact g.gnd n
  have only : ∀ e ∈ E, e.2.id = x.id → e = (n, x) := fun e he h => g.ent_inj he hxE h
  refine ⟨x, n, rfl, hxE, hp, hlast, by rw [heq], by rw [heq]; by_cases hs : x.super <;> simp [hs], ?_⟩
  refine ⟨?_, ?_, ?_, ?_, ?_, ?_⟩
  · exact List.Nodup.sublist (List.Sublist.map _ List.filter_sublist) g.ids
  · intro a
    rw [heq]; simp only [List.mem_filter, decide_eq_true_eq, g.listed]
    constructor
    · rintro ⟨⟨m, hm⟩, hne⟩; exact ⟨m, hm, hne⟩
    · rintro ⟨m, hm, hne⟩; exact ⟨⟨m, hm⟩, hne⟩
  · intro k a
    rw [heq]; simp only [Map.mem_del, g.sp, List.mem_filter, decide_eq_true_eq]
    constructor
    · rintro ⟨⟨m, hm, rfl⟩, hne⟩
      refine ⟨m, ⟨hm, fun hid => hne ?_⟩, rfl⟩
      have := only _ hm hid
      simp only [Prod.mk.injEq] at this
      rw [this.1, this.2]
    · rintro ⟨m, ⟨hm, hne⟩, rfl⟩
      refine ⟨⟨m, hm, rfl⟩, fun hk => hne ?_⟩
      simp only [Prod.mk.injEq] at hk
      -- both entries sit under the same key of bySubProv, whose keys are unique
      have h1 : ((x.sub, n), a) ∈ c.bySubProv := (g.sp _ _).mpr ⟨m, hm, by rw [hk.1, hk.2]⟩
      have h2 : ((x.sub, n), x) ∈ c.bySubProv := (g.sp _ _).mpr ⟨n, hxE, rfl⟩
      have := Map.get_of_mem hinv.sp h1
      rw [Map.get_of_mem hinv.sp h2] at this
      rw [← Option.some.inj this]
  · intro m a
    rw [hgrp]
    simp only [List.mem_filter, decide_eq_true_eq]
    by_cases hm : m = n
    · subst hm
      simp only [if_true, mem_swapRemove hnd]
      rw [← hgl, g.grp]
    · simp only [hm, if_false, g.grp]
      constructor
      · intro hE; exact ⟨hE, fun hid => hm (by have := only _ hE hid; simp only [Prod.mk.injEq] at this; exact this.1)⟩
      · exact fun h => h.1
  · intro m
    rw [hgrp]
    by_cases hm : m = n
    · simp only [hm, if_true]; exact nodup_swapRemove hnd
    · simp only [hm, if_false]; exact g.gnd m
  · intro m
    rw [hgrp]
    have hc := g.cnt m
    unfold AColl.superBy at hc ⊢
    rw [heq]
    have hrem := nsuper_remove hnd hxl
    by_cases hm : m = n
    · subst hm
      simp only [if_true, nsuper_swapRemove hnd]
      rw [hgl] at hc
      by_cases hs : x.super = true
      · simp only [hs, if_true] at hrem ⊢
        rw [superBy_bump, hc]; simp only [↓reduceIte]; omega
      · simp only [hs, if_false, Bool.false_eq_true] at hrem ⊢
        rw [hc]; omega
    · simp only [hm, if_false]
      by_cases hs : x.super = true
      · simp only [hs, if_true]
        rw [superBy_bump, hc]; simp [hm]
      · simp only [hs, if_false, Bool.false_eq_true]; exact hc

theorem AColl.update_ok {v : Variant} (hv : v.fixUpdate = true) {c c' : AColl} {pn : Str → Option Str} {id : Str}
    {t : Bool} (hinv : AInv c) (h : c.update v pn id t = .val (c', none)) :
    ∃ adm, adm ∈ c.sorted ∧ adm.id = id ∧
      (adm.super = t ∧ c' = c ∨
       adm.super ≠ t ∧ ¬(adm.super = true ∧ c.superCount = 1) ∧ ∃ n, pn adm.provId = some n ∧
         c' = { c.retype id t with superCount := c.superCount + (if t then 1 else -1),
                                   superByProv := bump c.superByProv n (if t then 1 else -1) }) := by
  unfold AColl.update at h
  cases hg : c.byID.get id with
  | none => simp [hg, hv] at h
  | some adm =>
    have hadm := hinv.idx.get_some.mp hg
    simp only [hg, hv, if_true] at h
    refine ⟨adm, hadm.1, hadm.2.symm, ?_⟩
    split at h
    · rename_i hsame
      simp only [M.val.injEq, Prod.mk.injEq, and_true] at h
      exact .inl ⟨hsame, h.symm⟩
    rename_i hdiff
    split at h
    · simp at h
    rename_i hlast
    cases hp : pn adm.provId with
    | none => simp [hp] at h
    | some n =>
      simp only [hp, M.val.injEq, Prod.mk.injEq, and_true] at h
      exact .inr ⟨hdiff, hlast, n, rfl, h.symm⟩

/-- the entry map of a role change -/
def retypeEnt (id : Str) (t : Bool) (e : Ent) : Ent := (e.1, setTy id t e.2)

theorem group_retype (c : AColl) (id : Str) (t : Bool) (c' : AColl)
    (h : c'.byProv = (c.retype id t).byProv) (n : Str) : group c' n = (group c n).map (setTy id t) := by
  unfold group
  rw [h]
  simp only [AColl.retype]
  rw [Map.get_map_val]
  cases c.byProv.get n <;> simp

/-- a role change through the repaired `Update` retypes exactly that entry and moves both counters -/
theorem GRep.retype {c c' : AColl} {E : List Ent} {adm : Adm} {n : Str} {t : Bool} (g : GRep c E)
    (hE : (n, adm) ∈ E) (hdiff : adm.super ≠ t)
    (heq : c' = { c.retype adm.id t with superCount := c.superCount + (if t then 1 else -1),
                                          superByProv := bump c.superByProv n (if t then 1 else -1) }) :
    GRep c' (E.map (retypeEnt adm.id t)) := by
  have hgrp : ∀ m, group c' m = (group c m).map (setTy adm.id t) :=
    fun m => group_retype c adm.id t c' (by rw [heq]) m
  have only : ∀ e ∈ E, e.2.id = adm.id → e = (n, adm) := fun e he h => g.ent_inj he hE h
  refine ⟨?_, ?_, ?_, ?_, ?_, ?_⟩
  · simpa [List.map_map, Function.comp_def, retypeEnt, setTy_id] using g.ids
  · intro a
    rw [heq]; simp only [AColl.retype, List.mem_map, Prod.exists, retypeEnt, Prod.mk.injEq]
    constructor
    · rintro ⟨a0, ha0, rfl⟩
      obtain ⟨m, hm⟩ := (g.listed a0).mp ha0
      exact ⟨m, m, a0, hm, rfl, rfl⟩
    · rintro ⟨m, m', a0, hm, _, rfl⟩
      exact ⟨a0, (g.listed a0).mpr ⟨m', hm⟩, rfl⟩
  · intro k a
    rw [heq]; simp only [AColl.retype, List.mem_map]
    constructor
    · rintro ⟨⟨k0, a0⟩, hm, heq2⟩
      simp only [Prod.mk.injEq] at heq2
      obtain ⟨rfl, rfl⟩ := heq2
      obtain ⟨m, hmE, hk⟩ := (g.sp _ _).mp hm
      exact ⟨m, ⟨(m, a0), hmE, rfl⟩, by rw [setTy_sub]; exact hk⟩
    · rintro ⟨m, ⟨⟨m', a0⟩, hmE, heq2⟩, rfl⟩
      simp only [retypeEnt, Prod.mk.injEq] at heq2
      obtain ⟨rfl, rfl⟩ := heq2
      exact ⟨((a0.sub, m'), a0), (g.sp _ _).mpr ⟨m', hmE, rfl⟩, by simp [setTy_sub]⟩
  · intro m a
    rw [hgrp]; simp only [List.mem_map, Prod.exists, retypeEnt, Prod.mk.injEq]
    constructor
    · rintro ⟨a0, ha0, rfl⟩
      exact ⟨m, a0, (g.grp m a0).mp ha0, rfl, rfl⟩
    · rintro ⟨m', a0, hmE, rfl, rfl⟩
      exact ⟨a0, (g.grp _ a0).mpr hmE, rfl⟩
  · intro m
    rw [hgrp]
    simpa [List.map_map, Function.comp_def, setTy_id] using g.gnd m
  · intro m
    rw [hgrp]
    have hc := g.cnt m
    unfold AColl.superBy at hc ⊢
    rw [heq]; simp only
    rw [superBy_bump, hc]
    by_cases hm : m = n
    · subst hm
      have := nsuper_retype (g.gnd m) ((g.grp m adm).mpr hE) t
      simp only [↓reduceIte]
      by_cases hs : adm.super = true <;> by_cases ht : t = true <;> simp [hs, ht] at this hdiff ⊢ <;> omega
    · have hnone : ∀ e ∈ group c m, e.id ≠ adm.id := by
        intro e he hid
        have := only (m, e) ((g.grp m e).mp he) hid
        simp only [Prod.mk.injEq] at this
        exact hm this.1
      rw [nsuper_retype_none t hnone]
      simp [hm]

/-! ## small list facts -/

theorem nodup_of_nodup_map {α β : Type} (f : α → β) {l : List α} (h : (l.map f).Nodup) : l.Nodup := by
  induction l with
  | nil => exact List.nodup_nil
  | cons x r ih =>
    simp only [List.map_cons, List.nodup_cons, List.mem_map] at h
    rw [List.nodup_cons]
    exact ⟨fun hx => h.1 ⟨x, hx, rfl⟩, ih h.2⟩

theorem nodup_map_of_inj {α β : Type} (f : α → β) {l : List α} (nd : l.Nodup)
    (inj : ∀ x ∈ l, ∀ y ∈ l, f x = f y → x = y) : (l.map f).Nodup := by
  induction l with
  | nil => exact List.nodup_nil
  | cons x r ih =>
    rw [List.nodup_cons] at nd
    simp only [List.map_cons, List.nodup_cons, List.mem_map]
    refine ⟨?_, ih nd.2 (fun a ha b hb => inj a (List.mem_cons_of_mem _ ha) b (List.mem_cons_of_mem _ hb))⟩
    rintro ⟨y, hy, hxy⟩
    have := inj y (List.mem_cons_of_mem _ hy) x List.mem_cons_self hxy
    rw [this] at hy; exact nd.1 hy

theorem inj_of_nodup_map {α β : Type} (f : α → β) {l : List α} (h : (l.map f).Nodup) {x y : α}
    (hx : x ∈ l) (hy : y ∈ l) (e : f x = f y) : x = y := by
  induction l with
  | nil => cases hx
  | cons z r ih =>
    simp only [List.map_cons, List.nodup_cons, List.mem_map] at h
    rcases List.mem_cons.mp hx with hx | hx <;> rcases List.mem_cons.mp hy with hy | hy
    · rw [hx, hy]
    · rw [hx] at e; exact absurd ⟨y, hy, e.symm⟩ h.1
    · rw [hy] at e; exact absurd ⟨x, hx, e⟩ h.1
    · exact ih h.2 hx hy

/-- counting super admins is monotone for duplicate-free lists -/
theorem nsuper_le_of_subset : ∀ (l₁ l₂ : List Adm), (l₁.map (·.id)).Nodup → (l₂.map (·.id)).Nodup →
    (∀ x ∈ l₁, x ∈ l₂) → nsuper l₁ ≤ nsuper l₂
  | [], _, _, _, _ => by simp [nsuper]
  | x :: r, l₂, nd1, nd2, hsub => by
    simp only [List.map_cons, List.nodup_cons, List.mem_map] at nd1
    have hx : x ∈ l₂ := hsub x List.mem_cons_self
    have hrem := nsuper_remove nd2 hx
    have nd2' : ((l₂.filter (fun e => decide (e.id ≠ x.id))).map (·.id)).Nodup :=
      List.Nodup.sublist (List.Sublist.map _ List.filter_sublist) nd2
    have ih := nsuper_le_of_subset r (l₂.filter (fun e => decide (e.id ≠ x.id))) nd1.2 nd2' (by
      intro y hy
      rw [List.mem_filter]
      refine ⟨hsub y (List.mem_cons_of_mem _ hy), ?_⟩
      have : y.id ≠ x.id := fun h => nd1.1 ⟨y, hy, h⟩
      simpa using this)
    rw [nsuper_cons]
    omega

/-! ## when the collections accept -/

theorem PColl.store_succeeds {c : PColl} {p : Prov} (h1 : c.byID.has p.id = false)
    (h2 : c.byName.has p.name = false) (h3 : c.byTok.has p.tok = false) : (c.store p).2 = none := by
  unfold PColl.store
  simp [h1, h2, h3]

theorem AColl.store_succeeds {c : AColl} {a : Adm} {pid pname : Str} (h0 : a.provId = pid)
    (h1 : c.byID.has a.id = false) (h2 : c.bySubProv.has (a.sub, pname) = false) :
    (c.store a pid pname).2 = none := by
  unfold AColl.store
  simp [h0, h1, h2]

/-- the listed provisioners -/
def PColl.provs (P : PColl) : List Prov := P.sorted.map (·.2)

theorem PInv.provName {s : Cache} (h : PInv s.P) {pid n : Str} :
    s.provName pid = some n ↔ ∃ p ∈ s.P.provs, p.id = pid ∧ p.name = n := by
  unfold Cache.provName PColl.provs
  constructor
  · intro hg
    cases hp : s.P.byID.get pid with
    | none => simp [hp] at hg
    | some p =>
      simp only [hp, Option.map_some, Option.some.injEq] at hg
      have := h.idx_id.get_some.mp hp
      exact ⟨p, this.1, this.2.symm, hg⟩
  · rintro ⟨p, hp, rfl, rfl⟩
    rw [h.idx_id.get_some.mpr ⟨hp, rfl⟩]; rfl

/-- every administrator's group name is the *current* name of its provisioner -/
def Linked (P : PColl) (E : List Ent) : Prop :=
  ∀ e ∈ E, ∃ p ∈ P.provs, p.id = e.2.provId ∧ p.name = e.1

theorem Linked.name {s : Cache} {E : List Ent} (hp : PInv s.P) (hl : Linked s.P E) {e : Ent} (he : e ∈ E) :
    s.provName e.2.provId = some e.1 :=
  hp.provName.mpr (hl e he)

theorem Linked.of_name {s : Cache} {E : List Ent} (hp : PInv s.P) (hl : Linked s.P E) {e : Ent} (he : e ∈ E)
    {n : Str} (h : s.provName e.2.provId = some n) : n = e.1 := by
  rw [hl.name hp he] at h; exact (Option.some.inj h).symm

/-! ## (4) what the authentication index returns is a listed administrator -/

/-- **bySubProv is about the listing** — with the invariants of the authority layer,
    `LoadAdminBySubProv(sub, name)` returns `a` exactly when `a` is a listed administrator with
    that subject whose provisioner is *currently* called `name`. -/
theorem lookup_is_listed {s : Cache} {E : List Ent} (hp : PInv s.P) (ha : AInv s.A) (g : GRep s.A E)
    (hl : Linked s.P E) (sub n : Str) (a : Adm) :
    s.A.bySubProv.get (sub, n) = some a ↔ a ∈ s.A.sorted ∧ a.sub = sub ∧ s.provName a.provId = some n := by
  constructor
  · intro h
    obtain ⟨m, hm, hk⟩ := (g.sp _ _).mp (Map.get_mem h)
    simp only [Prod.mk.injEq] at hk
    refine ⟨g.mem_listed hm, hk.1.symm, ?_⟩
    rw [hk.2]; exact hl.name hp hm
  · rintro ⟨hs, rfl, hn⟩
    obtain ⟨m, hm⟩ := (g.listed a).mp hs
    have : n = m := hl.of_name hp hm hn
    subst this
    exact Map.get_of_mem ha.sp ((g.sp _ _).mpr ⟨n, hm, rfl⟩)

theorem findAdmin_listed {s : Cache} {E : List Ent} (hp : PInv s.P) (ha : AInv s.A) (g : GRep s.A E)
    (hl : Linked s.P E) {pn : Str} {sans : List Str} {adm : Adm} (h : findAdmin s.A pn sans = some adm) :
    adm ∈ s.A.sorted ∧ adm.sub ∈ sans ∧ s.provName adm.provId = some pn := by
  obtain ⟨san, hs, hg⟩ := findAdmin_some h
  have := (lookup_is_listed hp ha g hl san pn adm).mp hg
  exact ⟨this.1, by rw [this.2.1]; exact hs, this.2.2⟩

/-- **admin_token_registered** — the administrator on whose behalf a request is authorized is one
    of the *listed* administrators; its subject is a name of the presented certificate and its
    provisioner is the one that issued that certificate (by its current name). -/
theorem admin_token_registered {s : Cache} {E : List Ent} (hp : PInv s.P) (ha : AInv s.A) (g : GRep s.A E)
    (hl : Linked s.P E) (used used' : List Str) (r : AdminReq) (adm : Adm)
    (h : authorizeAdmin s.A used r = (used', .ok adm)) :
    adm ∈ s.A.sorted ∧ adm.sub ∈ r.sans ∧ s.provName adm.provId = r.prov := by
  obtain ⟨_, _, _, _, pn, hpn, _, _, _, _, _, ⟨san, hs, hg⟩, _⟩ := admin_token_only_if s.A used used' r adm h
  have := (lookup_is_listed hp ha g hl san pn adm).mp hg
  exact ⟨this.1, by rw [this.2.1]; exact hs, by rw [hpn]; exact this.2.2⟩

/-! ## rebuilding the caches from the database -/

theorem AColl.store_keeps {c : AColl} {a : Adm} {pid pname : Str} (hi : AInv c) (hc : CInv c) :
    AInv (c.store a pid pname).1 ∧ CInv (c.store a pid pname).1 := by
  have := cstep_admin Variant.fixed { P := {}, A := c } (.aStore a pid pname) hi
  simp only [cstep] at this
  exact ⟨this.1, (this.2 (.inl rfl) hc).1⟩

/-- what the rebuild needs from the stored provisioners -/
structure DBInvP (U : List Prov) (provs : List Prov) : Prop where
  pid : (provs.map (·.id)).Nodup
  pname : (provs.map (·.name)).Nodup
  ptok : (provs.map (·.tok)).Nodup
  pU : ∀ p ∈ provs, p ∈ U

theorem goP_spec (U : List Prov) (hU : SumsOK U) : ∀ (rest : List Prov) (c : PColl), PInv c →
    (∀ e ∈ c.sorted, e.2 ∈ U) → DBInvP U rest →
    (∀ q ∈ c.provs, ∀ p ∈ rest, q.id ≠ p.id ∧ q.name ≠ p.name ∧ q.tok ≠ p.tok) →
    ∃ c', buildCache.goP c rest = some c' ∧ PInv c' ∧ (∀ e ∈ c'.sorted, e.2 ∈ U) ∧
      ∀ q, q ∈ c'.provs ↔ q ∈ c.provs ∨ q ∈ rest
  | [], c, h, hcU, _, _ => ⟨c, rfl, h, hcU, by simp⟩
  | p :: r, c, h, hcU, hd, hdis => by
    have hpU : p ∈ U := hd.pU p List.mem_cons_self
    have d := fun q hq => hdis q hq p List.mem_cons_self
    have h1 : c.byID.has p.id = false := h.idx_id.has_false.mpr (fun q hq => (d q hq).1)
    have h2 : c.byName.has p.name = false := h.idx_name.has_false.mpr (fun q hq => (d q hq).2.1)
    have h3 : c.byTok.has p.tok = false := h.idx_tok.has_false.mpr (fun q hq => (d q hq).2.2)
    have hok := PColl.store_succeeds h1 h2 h3
    have sp := PColl.store_spec c p h (hU.1 p hpU) (fun e he heq => hU.2 e.2 (hcU e he) p hpU heq)
    have hmem := sp.2.2 hok
    have hc1U : ∀ e ∈ (c.store p).1.sorted, e.2 ∈ U := by
      intro e he
      rcases (hmem e.2).mp (List.mem_map.mpr ⟨e, he, rfl⟩) with h1 | h1
      · rw [h1]; exact hpU
      · obtain ⟨e', he', heq⟩ := List.mem_map.mp h1
        rw [← heq]; exact hcU e' he'
    have hpid := hd.pid
    have hpname := hd.pname
    have hptok := hd.ptok
    simp only [List.map_cons, List.nodup_cons, List.mem_map] at hpid hpname hptok
    have hd' : DBInvP U r := ⟨hpid.2, hpname.2, hptok.2, fun q hq => hd.pU q (List.mem_cons_of_mem _ hq)⟩
    have hdis' : ∀ q ∈ (c.store p).1.provs, ∀ p' ∈ r, q.id ≠ p'.id ∧ q.name ≠ p'.name ∧ q.tok ≠ p'.tok := by
      intro q hq p' hp'
      rcases (hmem q).mp hq with rfl | hq
      · exact ⟨fun e => hpid.1 ⟨p', hp', e.symm⟩, fun e => hpname.1 ⟨p', hp', e.symm⟩,
          fun e => hptok.1 ⟨p', hp', e.symm⟩⟩
      · exact hdis q hq p' (List.mem_cons_of_mem _ hp')
    obtain ⟨c', hgo, hinv', hU', hm'⟩ := goP_spec U hU r (c.store p).1 sp.1 hc1U hd' hdis'
    refine ⟨c', ?_, hinv', hU', ?_⟩
    · unfold buildCache.goP
      cases hst : c.store p with
      | mk c1 e =>
        rw [hst] at hok hgo
        simp only at hok
        subst hok
        exact hgo
    · intro q
      rw [hm', PColl.provs, hmem]
      simp only [List.mem_cons, PColl.provs]
      constructor
      · rintro ((h | h) | h)
        · exact .inr (.inl h)
        · exact .inl h
        · exact .inr (.inr h)
      · rintro (h | h | h)
        · exact .inl (.inr h)
        · exact .inl (.inl h)
        · exact .inr h

/-- the administrator collection in full, relative to the provisioner collection it points into -/
structure AState (P : PColl) (c : AColl) (E : List Ent) : Prop where
  ainv : AInv c
  cinv : CInv c
  grep : GRep c E
  linked : Linked P E

def pairOf (a : Adm) : Str × Str := (a.sub, a.provId)

theorem goA_spec (P : PColl) (hp : PInv P) : ∀ (rest : List Adm) (c : AColl) (E : List Ent), AState P c E →
    (rest.map (·.id)).Nodup → (∀ x ∈ c.sorted, ∀ a ∈ rest, x.id ≠ a.id) →
    (rest.map pairOf).Nodup → (∀ x ∈ c.sorted, ∀ a ∈ rest, pairOf x ≠ pairOf a) →
    (∀ a ∈ rest, ∃ p ∈ P.provs, p.id = a.provId) →
    ∃ c' E', buildCache.goA P c rest = some c' ∧ AState P c' E' ∧ ∀ x, x ∈ c'.sorted ↔ x ∈ c.sorted ∨ x ∈ rest
  | [], c, E, h, _, _, _, _, _ => ⟨c, E, rfl, h, by simp⟩
  | a :: r, c, E, h, hid, hidd, hpr, hprd, href => by
    obtain ⟨p, hpl, hpid⟩ := href a List.mem_cons_self
    have hget : P.byID.get a.provId = some p := hp.idx_id.get_some.mpr ⟨hpl, hpid.symm⟩
    have h1 : c.byID.has a.id = false :=
      h.ainv.idx.has_false.mpr (fun x hx => hidd x hx a List.mem_cons_self)
    have h2 : c.bySubProv.has (a.sub, p.name) = false := by
      rw [Map.has_false]
      intro e he hk
      obtain ⟨k, x⟩ := e
      simp only at hk
      obtain ⟨m, hm, hkm⟩ := (h.grep.sp k x).mp he
      rw [hkm] at hk
      simp only [Prod.mk.injEq] at hk
      obtain ⟨p', hp'l, hp'id, hp'n⟩ := h.linked (m, x) hm
      have : p' = p := (hp.unique hp'l hpl).2.1 (by rw [hp'n]; exact hk.2)
      rw [this] at hp'id
      exact hprd x (h.grep.mem_listed hm) a List.mem_cons_self (by
        simp only [pairOf, Prod.mk.injEq]; exact ⟨hk.1, by rw [← hp'id, hpid]⟩)
    have hok := AColl.store_succeeds (pid := p.id) (pname := p.name) hpid.symm h1 h2
    have hkeep := AColl.store_keeps (a := a) (pid := p.id) (pname := p.name) h.ainv h.cinv
    have hg := h.grep.store h.ainv hok
    have hso := (AColl.store_ok hok).2.2.2
    have hsorted : ∀ x, x ∈ (c.store a p.id p.name).1.sorted ↔ x = a ∨ x ∈ c.sorted := by
      intro x; rw [hso]; exact mem_insertBy
    have hst : AState P (c.store a p.id p.name).1 ((p.name, a) :: E) :=
      ⟨hkeep.1, hkeep.2, hg, by
        intro e he
        rcases List.mem_cons.mp he with rfl | he
        · exact ⟨p, hpl, hpid, rfl⟩
        · exact h.linked e he⟩
    simp only [List.map_cons, List.nodup_cons, List.mem_map] at hid hpr
    obtain ⟨c', E', hgo, hst', hm'⟩ := goA_spec P hp r (c.store a p.id p.name).1 ((p.name, a) :: E) hst hid.2
      (by intro x hx b hb
          rcases (hsorted x).mp hx with rfl | hx
          · exact fun e => hid.1 ⟨b, hb, e.symm⟩
          · exact hidd x hx b (List.mem_cons_of_mem _ hb))
      hpr.2
      (by intro x hx b hb
          rcases (hsorted x).mp hx with rfl | hx
          · exact fun e => hpr.1 ⟨b, hb, e.symm⟩
          · exact hprd x hx b (List.mem_cons_of_mem _ hb))
      (fun b hb => href b (List.mem_cons_of_mem _ hb))
    refine ⟨c', E', ?_, hst', ?_⟩
    · unfold buildCache.goA
      simp only [hget]
      cases hst2 : c.store a p.id p.name with
      | mk c1 e =>
        rw [hst2] at hok hgo
        simp only at hok
        subst hok
        exact hgo
    · intro x
      rw [hm', hsorted]
      simp only [List.mem_cons]
      constructor
      · rintro ((h | h) | h)
        · exact .inr (.inl h)
        · exact .inl h
        · exact .inr (.inr h)
      · rintro (h | h | h)
        · exact .inl (.inr h)
        · exact .inl (.inl h)
        · exact .inr h

/-- what the rebuild needs from the database -/
structure DBInv (U : List Prov) (db : DB) : Prop where
  p : DBInvP U db.provs
  aid : (db.adms.map (·.id)).Nodup
  apair : (db.adms.map pairOf).Nodup
  aref : ∀ a ∈ db.adms, ∃ p ∈ db.provs, p.id = a.provId

/-- **the invariant of the authority layer**: both collections are internally consistent
    (indexes, uniqueness, counters, groups), every administrator is grouped under the current name
    of its provisioner, and the listings are exactly the database content. `E` is the list of
    (group name, administrator) entries. -/
structure Agrees (U : List Prov) (cache : Cache) (db : DB) (E : List Ent) : Prop where
  pinv : PInv cache.P
  pU : ∀ e ∈ cache.P.sorted, e.2 ∈ U
  ast : AState cache.P cache.A E
  agreeP : ∀ p, p ∈ cache.P.provs ↔ p ∈ db.provs
  agreeA : ∀ a, a ∈ cache.A.sorted ↔ a ∈ db.adms
  dbP : (db.provs.map (·.id)).Nodup
  dbA : (db.adms.map (·.id)).Nodup

def AuthInv (U : List Prov) (s : Auth) : Prop := ∃ E, Agrees U s.cache s.db E

theorem build_inv (U : List Prov) (hU : SumsOK U) (db : DB) (h : DBInv U db) :
    ∃ c E, buildCache db.provs db.adms = some c ∧ Agrees U c db E := by
  obtain ⟨P, hgoP, hPinv, hPU, hPm⟩ := goP_spec U hU db.provs {} PInv.empty (by simp) h.p (by simp [PColl.provs])
  have hPm' : ∀ q, q ∈ P.provs ↔ q ∈ db.provs := by intro q; rw [hPm]; simp [PColl.provs]
  obtain ⟨A, E, hgoA, hAst, hAm⟩ := goA_spec P hPinv db.adms {} []
    ⟨AInv.empty, CInv.empty, GRep.empty, by intro e he; cases he⟩ h.aid (by simp) h.apair (by simp)
    (by intro a ha; obtain ⟨p, hp, hid⟩ := h.aref a ha; exact ⟨p, (hPm' p).mpr hp, hid⟩)
  refine ⟨{ P := P, A := A }, E, ?_, ⟨hPinv, hPU, hAst, hPm', by intro a; rw [hAm]; simp, h.p.pid, h.aid⟩⟩
  unfold buildCache
  simp only [hgoP, hgoA]

theorem Agrees.dbinv {U : List Prov} {cache : Cache} {db : DB} {E : List Ent} (h : Agrees U cache db E) :
    DBInv U db := by
  have ndP : db.provs.Nodup := nodup_of_nodup_map _ h.dbP
  have ndA : db.adms.Nodup := nodup_of_nodup_map _ h.dbA
  refine ⟨⟨h.dbP, ?_, ?_, ?_⟩, h.dbA, ?_, ?_⟩
  · exact nodup_map_of_inj _ ndP (fun x hx y hy e =>
      (h.pinv.unique ((h.agreeP x).mpr hx) ((h.agreeP y).mpr hy)).2.1 e)
  · exact nodup_map_of_inj _ ndP (fun x hx y hy e =>
      (h.pinv.unique ((h.agreeP x).mpr hx) ((h.agreeP y).mpr hy)).2.2 e)
  · intro p hp
    obtain ⟨e, he, rfl⟩ := List.mem_map.mp ((h.agreeP p).mpr hp)
    exact h.pU e he
  · refine nodup_map_of_inj _ ndA (fun x hx y hy e => ?_)
    simp only [pairOf, Prod.mk.injEq] at e
    obtain ⟨m, hm⟩ := (h.ast.grep.listed x).mp ((h.agreeA x).mpr hx)
    obtain ⟨m', hm'⟩ := (h.ast.grep.listed y).mp ((h.agreeA y).mpr hy)
    have n1 := h.ast.linked.name h.pinv hm
    have n2 := h.ast.linked.name h.pinv hm'
    simp only at n1 n2
    rw [e.2, n2] at n1
    have hmm : m' = m := Option.some.inj n1
    subst hmm
    have k1 : ((x.sub, m'), x) ∈ cache.A.bySubProv := (h.ast.grep.sp _ _).mpr ⟨m', hm, rfl⟩
    have k2 : ((x.sub, m'), y) ∈ cache.A.bySubProv := (h.ast.grep.sp _ _).mpr ⟨m', hm', by rw [e.1]⟩
    have := Map.get_of_mem h.ast.ainv.sp k1
    rw [Map.get_of_mem h.ast.ainv.sp k2] at this
    exact (Option.some.inj this).symm
  · intro a ha
    obtain ⟨m, hm⟩ := (h.ast.grep.listed a).mp ((h.agreeA a).mpr ha)
    obtain ⟨p, hp, hid, _⟩ := h.ast.linked (m, a) hm
    exact ⟨p, (h.agreeP p).mp hp, hid⟩

/-- `ReloadAdminResources` on a consistent database succeeds (unless a read fails) and yields a
    state satisfying the invariant -/
theorem reload_inv (U : List Prov) (hU : SumsOK U) (f : Faults) (s : Auth) (hdb : DBInv U s.db) :
    ((reload f s).2 = false → AuthInv U (reload f s).1 ∧ (reload f s).1.db = s.db ∧ (reload f s).1.engine = s.engine) ∧
    ((reload f s).2 = true → (s.calls + 1 ∈ f ∨ s.calls + 2 ∈ f) ∧ (reload f s).1.cache = s.cache ∧
        (reload f s).1.db = s.db ∧ (reload f s).1.engine = s.engine) := by
  obtain ⟨c, E, hb, hag⟩ := build_inv U hU s.db hdb
  unfold reload
  simp only [tick]
  by_cases hb1 : s.calls + 1 ∈ f
  · simp [hb1]
  by_cases hb2 : s.calls + 1 + 1 ∈ f
  · simp [hb1, hb2]
  simp only [List.contains_eq_mem, hb1, hb2, decide_false, Bool.false_eq_true, if_false, hb]
  simp only [false_implies, and_true, true_implies, and_self]
  exact ⟨E, hag⟩

theorem afterFail_inv (U : List Prov) (hU : SumsOK U) (f : Faults) (s : Auth) (o : AuthOut)
    (_ho : o ≠ .reloadFailed) (hdb : DBInv U s.db) (h : (afterFail f s o).2 ≠ .reloadFailed) :
    AuthInv U (afterFail f s o).1 ∧ (afterFail f s o).1.db = s.db ∧ (afterFail f s o).1.engine = s.engine ∧
      (afterFail f s o).2 = o := by
  have hr := reload_inv U hU f s hdb
  unfold afterFail at h ⊢
  cases hb : (reload f s).2 with
  | true => simp [hb] at h
  | false =>
    have := hr.1 hb
    simp only [hb, Bool.false_eq_true, if_false]
    exact ⟨this.1, this.2.1, this.2.2, trivial⟩

theorem afterFail_reloadFailed (U : List Prov) (hU : SumsOK U) (f : Faults) (s : Auth) (o : AuthOut)
    (ho : o ≠ .reloadFailed) (hdb : DBInv U s.db) (h : (afterFail f s o).2 = .reloadFailed) :
    s.calls + 1 ∈ f ∨ s.calls + 2 ∈ f := by
  have hr := reload_inv U hU f s hdb
  unfold afterFail at h
  cases hb : (reload f s).2 with
  | true => exact (hr.2 hb).1
  | false => simp [hb] at h; exact absurd h ho

theorem afterFailUndo_inv (U : List Prov) (hU : SumsOK U) (v : Variant) (f : Faults) (s : Auth) (o : AuthOut)
    (u : Cache → Cache) (ho : o ≠ .reloadFailed) (hdb : DBInv U s.db)
    (h : (afterFailUndo v f s o u).2 ≠ .reloadFailed) :
    AuthInv U (afterFailUndo v f s o u).1 ∧ (afterFailUndo v f s o u).1.db = s.db ∧
      (afterFailUndo v f s o u).1.engine = s.engine ∧ (afterFailUndo v f s o u).2 = o := by
  rw [afterFailUndo_snd] at h
  rw [afterFailUndo_eq v f s o u (.inl h)]
  exact afterFail_inv U hU f s o ho hdb h

theorem cache_remove_keeps {s : Cache} {id : Str} {A' : AColl} {e : Option AErr} (hi : AInv s.A) (hc : CInv s.A)
    (h : s.A.remove s.provName id = .val (A', e)) : AInv A' ∧ CInv A' := by
  have := cstep_admin Variant.fixed s (.aRemove id) hi
  simp only [cstep, h] at this
  exact ⟨this.1, (this.2 (.inl rfl) hc).1⟩

theorem cache_update_keeps {v : Variant} (hv : v.fixUpdate = true) {s : Cache} {id : Str} {t : Bool} {A' : AColl}
    {e : Option AErr} (hi : AInv s.A) (hc : CInv s.A)
    (h : s.A.update v s.provName id t = .val (A', e)) : AInv A' ∧ CInv A' := by
  have := cstep_admin v s (.aUpdate id t) hi
  simp only [cstep, h] at this
  exact ⟨this.1, (this.2 (.inl hv) hc).1⟩

/-! ## the authority operations keep the invariant -/

/-- `removeAdmin` (lock held): accepted ⇒ exactly that administrator is gone from cache and
    database; refused or failed (with the reload succeeding) ⇒ invariant intact, database untouched -/
theorem removeAdmin1_spec (U : List Prov) (hU : SumsOK U) (v : Variant) (f : Faults) (s : Auth) (id : Str) (E : List Ent)
    (h : Agrees U s.cache s.db E) :
    ((Auth.removeAdmin1 v f s id).2 = .ok →
        Agrees U (Auth.removeAdmin1 v f s id).1.cache (Auth.removeAdmin1 v f s id).1.db
          (E.filter (fun e => decide (e.2.id ≠ id))) ∧
        (Auth.removeAdmin1 v f s id).1.cache.P = s.cache.P ∧
        (Auth.removeAdmin1 v f s id).1.db.provs = s.db.provs ∧
        (Auth.removeAdmin1 v f s id).1.db.adms = s.db.adms.filter (fun a => decide (a.id ≠ id)) ∧
        (Auth.removeAdmin1 v f s id).1.db.policy = s.db.policy ∧
        (Auth.removeAdmin1 v f s id).1.engine = s.engine ∧
        (∃ n adm, (n, adm) ∈ E ∧ adm.id = id ∧ ¬(adm.super = true ∧ s.cache.A.superCount = 1))) ∧
    ((Auth.removeAdmin1 v f s id).2 ≠ .ok → (Auth.removeAdmin1 v f s id).2 ≠ .reloadFailed →
        AuthInv U (Auth.removeAdmin1 v f s id).1 ∧ (Auth.removeAdmin1 v f s id).1.db = s.db ∧
        (Auth.removeAdmin1 v f s id).1.engine = s.engine) := by
  unfold Auth.removeAdmin1
  cases hr : s.cache.A.remove s.cache.provName id with
  | crash => exact ⟨by simp, fun _ _ => ⟨⟨E, h⟩, rfl, rfl⟩⟩
  | val r =>
    obtain ⟨A', e⟩ := r
    cases e with
    | some e => exact ⟨by cases e <;> simp [aerrClass], fun _ _ => ⟨⟨E, h⟩, rfl, rfl⟩⟩
    | none =>
      simp only [tick]
      obtain ⟨adm, n, hid, hE, _, hlast, hso, _, hg⟩ := h.ast.grep.remove h.ast.ainv hr
      obtain ⟨hi', hc'⟩ := cache_remove_keeps h.ast.ainv h.ast.cinv hr
      by_cases hb : s.calls + 1 ∈ f
      · simp only [List.contains_eq_mem, hb, decide_true, if_true]
        have haf := fun u => afterFailUndo_inv U hU v f
          { cache := { P := s.cache.P, A := A' }, db := s.db, engine := s.engine, calls := s.calls + 1 }
          .storeFailed u (by simp) h.dbinv
        refine ⟨fun hok => ?_, fun _ hnr => ?_⟩
        · exfalso
          have := haf _ (by rw [hok]; simp)
          rw [hok] at this; simp at this
        · have := haf _ hnr
          exact ⟨this.1, this.2.1, this.2.2.1⟩
      · simp only [List.contains_eq_mem, hb, decide_false, Bool.false_eq_true, if_false]
        refine ⟨fun _ => ⟨?_, trivial, trivial, trivial, trivial, trivial, n, adm, hE, hid, hlast⟩, by simp⟩
        refine ⟨h.pinv, h.pU, ⟨hi', hc', hg, fun e he => h.ast.linked e (List.mem_filter.mp he).1⟩, h.agreeP, ?_, h.dbP, ?_⟩
        · intro a
          simp only [hso, List.mem_filter, h.agreeA]
        · exact List.Nodup.sublist (List.Sublist.map _ List.filter_sublist) h.dbA

/-- the provisioner handed to `StoreAdmin` is the registered one (the admin API loads it by name);
    provisioners come from the universe `U` whose SHA-1 tails are sound -/
def ValidOp (U : List Prov) (s : Auth) : AOp → Prop
  | .storeAdmin _ pid pname => s.cache.provName pid = some pname
  | .storeProv p => p ∈ U
  | .updateProv p => p ∈ U
  | _ => True

theorem any_id_false {l : List Adm} {id : Str} (h : l.any (fun x => decide (x.id = id)) = false) :
    ∀ x ∈ l, x.id ≠ id := by
  intro x hx e
  have : l.any (fun x => decide (x.id = id)) = true := List.any_eq_true.mpr ⟨x, hx, by simpa using e⟩
  rw [h] at this; cases this

theorem storeAdmin_inv (U : List Prov) (v : Variant) (f : Faults) (s : Auth) (a : Adm) (pid pname : Str)
    (hvalid : s.cache.provName pid = some pname) (h : AuthInv U s) :
    AuthInv U (Auth.step v f s (.storeAdmin a pid pname)).1 := by
  obtain ⟨E, h⟩ := h
  unfold Auth.step
  simp only [tick]
  split
  · exact ⟨E, h⟩
  rename_i hprov
  split
  · exact ⟨E, h⟩
  rename_i hsp
  by_cases hb : 0 + 1 ∈ f
  · simp only [List.contains_eq_mem, hb, decide_true, if_true]; exact ⟨E, h⟩
  simp only [List.contains_eq_mem, hb, decide_false, Bool.false_eq_true, if_false]
  by_cases hany' : (s.db.adms.any fun x => decide (x.id = a.id)) = true
  · simp only [hany', if_true]; exact ⟨E, h⟩
  have hany : (s.db.adms.any fun x => decide (x.id = a.id)) = false := by simpa using hany'
  simp only [hany, Bool.false_eq_true, if_false]
  have hfresh : ∀ x ∈ s.db.adms, x.id ≠ a.id := any_id_false (by simpa using hany)
  have h0 : a.provId = pid := by simpa using hprov
  have h1 : s.cache.A.byID.has a.id = false :=
    h.ast.ainv.idx.has_false.mpr (fun x hx => hfresh x ((h.agreeA x).mp hx))
  have h2 : s.cache.A.bySubProv.has (a.sub, pname) = false := by simpa using hsp
  have hok := AColl.store_succeeds h0 h1 h2
  cases hst : s.cache.A.store a pid pname with
  | mk A' e =>
    rw [hst] at hok
    simp only at hok
    subst hok
    simp only
    have hkeep := AColl.store_keeps (a := a) (pid := pid) (pname := pname) h.ast.ainv h.ast.cinv
    have hg := h.ast.grep.store (a := a) (pid := pid) (pname := pname) h.ast.ainv (by rw [hst])
    have hso := (AColl.store_ok (c := s.cache.A) (a := a) (pid := pid) (pname := pname) (by rw [hst])).2.2.2
    rw [hst] at hkeep hg hso
    simp only at hkeep hg hso
    replace hso : A'.sorted = insertBy (·.id) a s.cache.A.sorted := by rw [hso]
    refine ⟨(pname, a) :: E, h.pinv, h.pU, ⟨hkeep.1, hkeep.2, hg, ?_⟩, h.agreeP, ?_, h.dbP, ?_⟩
    · intro e he
      rcases List.mem_cons.mp he with rfl | he
      · obtain ⟨p, hp, hpid, hpn⟩ := h.pinv.provName.mp hvalid
        exact ⟨p, hp, by rw [hpid, h0], hpn⟩
      · exact h.ast.linked e he
    · intro x
      simp only [hso, insDB, mem_insertBy, h.agreeA]
    · simp only [insDB]
      rw [((insertBy_perm (fun (x : Adm) => x.id) a s.db.adms).map _).nodup_iff, List.map_cons, List.nodup_cons]
      exact ⟨fun hin => by obtain ⟨x, hx, hxe⟩ := List.mem_map.mp hin; exact hfresh x hx hxe, h.dbA⟩

theorem updateAdmin_inv (U : List Prov) (hU : SumsOK U) (v : Variant) (hv : v.fixUpdate = true) (f : Faults)
    (s : Auth) (id : Str) (t : Bool) (h : AuthInv U s)
    (hnr : (Auth.step v f s (.updateAdmin id t)).2 ≠ .reloadFailed) :
    AuthInv U (Auth.step v f s (.updateAdmin id t)).1 := by
  obtain ⟨E, h⟩ := h
  unfold Auth.step at hnr ⊢
  simp only [tick] at hnr ⊢
  cases hu : s.cache.A.update v s.cache.provName id t with
  | crash => exact ⟨E, h⟩
  | val r =>
    obtain ⟨A', e⟩ := r
    cases e with
    | some e => exact ⟨E, h⟩
    | none =>
      simp only [hu] at hnr ⊢
      obtain ⟨hi', hc'⟩ := cache_update_keeps hv h.ast.ainv h.ast.cinv hu
      by_cases hb : 0 + 1 ∈ f
      · simp only [List.contains_eq_mem, hb, decide_true, if_true] at hnr ⊢
        exact (afterFailUndo_inv U hU _ f
          { cache := { P := s.cache.P, A := A' }, db := s.db, engine := s.engine, calls := 0 + 1 }
          .storeFailed _ (by simp) h.dbinv hnr).1
      · simp only [List.contains_eq_mem, hb, decide_false, Bool.false_eq_true, if_false]
        obtain ⟨adm, hmem, hid, hcase⟩ := AColl.update_ok hv h.ast.ainv hu
        subst hid
        obtain ⟨n, hn⟩ := (h.ast.grep.listed adm).mp hmem
        rcases hcase with ⟨hsame, rfl⟩ | ⟨hdiff, _, n', hn', heq⟩
        · -- role unchanged: the database write is the identity
          refine ⟨E, h.pinv, h.pU, h.ast, h.agreeP, ?_, h.dbP, ?_⟩
          · intro a
            rw [h.agreeA]
            have hfix : s.db.adms.map (setTy adm.id t) = s.db.adms := by
              apply map_eq_self
              intro x hx
              by_cases hxid : x.id = adm.id
              · have : x = adm := h.ast.ainv.sorted.inj ((h.agreeA x).mpr hx) hmem hxid
                rw [this]; subst hsame; cases adm; simp [setTy]
              · exact setTy_other hxid
            simp only [hfix]
          · simpa [List.map_map, Function.comp_def, setTy_id] using h.dbA
        · have hnn : n' = n := h.ast.linked.of_name h.pinv hn hn'
          subst hnn
          have hg := h.ast.grep.retype hn hdiff heq
          refine ⟨E.map (retypeEnt adm.id t), h.pinv, h.pU, ⟨hi', hc', hg, ?_⟩, h.agreeP, ?_, h.dbP, ?_⟩
          · intro e he
            obtain ⟨e0, he0, rfl⟩ := List.mem_map.mp he
            obtain ⟨p, hp, hpid, hpn⟩ := h.ast.linked e0 he0
            exact ⟨p, hp, by simp [retypeEnt, setTy_provId, hpid], by simp [retypeEnt, hpn]⟩
          · intro a
            simp only [heq, AColl.retype, List.mem_map, h.agreeA]
          · simpa [List.map_map, Function.comp_def, setTy_id] using h.dbA

theorem removeAdmin_inv (U : List Prov) (hU : SumsOK U) (v : Variant) (f : Faults) (s : Auth) (id : Str)
    (h : AuthInv U s) (hnr : (Auth.step v f s (.removeAdmin id)).2 ≠ .reloadFailed) :
    AuthInv U (Auth.step v f s (.removeAdmin id)).1 := by
  obtain ⟨E, h⟩ := h
  unfold Auth.step at hnr ⊢
  simp only at hnr ⊢
  have sp := removeAdmin1_spec U hU v f { s with calls := 0 } id E h
  by_cases hok : (Auth.removeAdmin1 v f { s with calls := 0 } id).2 = .ok
  · exact ⟨_, (sp.1 hok).1⟩
  · exact (sp.2 hok hnr).1

theorem any_pid_false {l : List Prov} {id : Str} (h : l.any (fun x => decide (x.id = id)) = false) :
    ∀ x ∈ l, x.id ≠ id := by
  intro x hx e
  have : l.any (fun x => decide (x.id = id)) = true := List.any_eq_true.mpr ⟨x, hx, by simpa using e⟩
  rw [h] at this; cases this

theorem storeProv_inv (U : List Prov) (hU : SumsOK U) (v : Variant) (f : Faults) (s : Auth) (p : Prov)
    (hpU : p ∈ U) (h : AuthInv U s) : AuthInv U (Auth.step v f s (.storeProv p)).1 := by
  obtain ⟨E, h⟩ := h
  unfold Auth.step
  simp only [tick]
  split
  · exact ⟨E, h⟩
  split
  · exact ⟨E, h⟩
  rename_i hname
  split
  · exact ⟨E, h⟩
  rename_i htok
  cases hpc : Auth.provPolicyCheck s.cache.A p.name p with
  | some o => exact ⟨E, h⟩
  | none =>
  simp only
  by_cases hini : p.initOK = false
  · rw [if_pos hini]; exact ⟨E, h⟩
  rw [if_neg hini]
  by_cases hb : 0 + 1 ∈ f
  · simp only [List.contains_eq_mem, hb, decide_true, if_true]; exact ⟨E, h⟩
  simp only [List.contains_eq_mem, hb, decide_false, Bool.false_eq_true, if_false]
  by_cases hany' : (s.db.provs.any fun x => decide (x.id = p.id)) = true
  · simp only [hany', if_true]; exact ⟨E, h⟩
  have hany : (s.db.provs.any fun x => decide (x.id = p.id)) = false := by simpa using hany'
  simp only [hany, Bool.false_eq_true, if_false]
  have hfresh : ∀ x ∈ s.db.provs, x.id ≠ p.id := any_pid_false hany
  have h1 : s.cache.P.byID.has p.id = false :=
    h.pinv.idx_id.has_false.mpr (fun x hx => hfresh x ((h.agreeP x).mp hx))
  have h2 : s.cache.P.byName.has p.name = false := by simpa using hname
  have h3 : s.cache.P.byTok.has p.tok = false := by simpa using htok
  have hok := PColl.store_succeeds h1 h2 h3
  have sp := PColl.store_spec s.cache.P p h.pinv (hU.1 p hpU) (fun e he heq => hU.2 e.2 (h.pU e he) p hpU heq)
  have hmem := sp.2.2 hok
  cases hst : s.cache.P.store p with
  | mk P' e =>
    rw [hst] at hok sp hmem
    simp only at hok sp hmem
    subst hok
    simp only
    refine ⟨E, sp.1, ?_, ⟨h.ast.ainv, h.ast.cinv, h.ast.grep, ?_⟩, ?_, h.agreeA, ?_, h.dbA⟩
    · intro e he
      rcases (hmem e.2).mp (List.mem_map.mpr ⟨e, he, rfl⟩) with h1 | h1
      · rw [h1]; exact hpU
      · obtain ⟨e', he', heq⟩ := List.mem_map.mp h1
        rw [← heq]; exact h.pU e' he'
    · intro e he
      obtain ⟨q, hq, hqid, hqn⟩ := h.ast.linked e he
      exact ⟨q, (hmem q).mpr (.inr hq), hqid, hqn⟩
    · intro q
      simp only [PColl.provs, hmem, insDB, mem_insertBy]
      rw [← h.agreeP]; rfl
    · simp only [insDB]
      rw [((insertBy_perm (fun (x : Prov) => x.id) p s.db.provs).map _).nodup_iff, List.map_cons, List.nodup_cons]
      exact ⟨fun hin => by obtain ⟨x, hx, hxe⟩ := List.mem_map.mp hin; exact hfresh x hx hxe, h.dbP⟩

theorem PColl.remove_succeeds {c : PColl} (h : PInv c) {p : Prov} (hp : p ∈ c.provs) : (c.remove p.id).2 = none := by
  unfold PColl.remove
  rw [h.idx_id.get_some.mpr ⟨hp, rfl⟩]
  simp only
  obtain ⟨e, he, hep⟩ := List.mem_map.mp hp
  have : c.sorted.any (fun e => decide (e.2.id = p.id)) = true :=
    List.any_eq_true.mpr ⟨e, he, by simp [hep]⟩
  simp [this]

/-- `Collection.Update` in full: refused ⇒ nothing changed; accepted ⇒ the provisioner with that id
    is replaced by the new one, and a new name / token id was not in use -/
theorem PColl.update_full (c : PColl) (nu : Prov) (h : PInv c) (hw : WfProv nu) (hs : SumFresh c nu) :
    ((c.update nu).2 ≠ none → (c.update nu).1 = c) ∧
    ((c.update nu).2 = none → ∃ old, old ∈ c.provs ∧ old.id = nu.id ∧
        (c.byID.get nu.id = some old) ∧
        (∀ q ∈ c.provs, q.id ≠ nu.id → q.name ≠ nu.name ∧ q.tok ≠ nu.tok) ∧
        PInv (c.update nu).1 ∧ ∀ q, q ∈ (c.update nu).1.provs ↔ q = nu ∨ (q ∈ c.provs ∧ q.id ≠ nu.id)) := by
  unfold PColl.update
  cases hg : c.byID.get nu.id with
  | none => exact ⟨fun _ => rfl, by simp⟩
  | some old =>
    have hold := h.idx_id.get_some.mp hg
    simp only
    split
    · exact ⟨fun _ => rfl, by simp⟩
    rename_i hname
    split
    · exact ⟨fun _ => rfl, by simp⟩
    rename_i htok
    have hrs := PColl.remove_succeeds h (p := old) hold.1
    have hr := PColl.remove_spec c old.id h
    cases hrem : c.remove old.id with
    | mk c1 e =>
      rw [hrem] at hrs hr
      simp only at hrs hr
      subst hrs
      simp only
      have hso := (hr.2.2 rfl).1
      have hc1 : ∀ q, q ∈ c1.provs ↔ q ∈ c.provs ∧ q.id ≠ old.id := by
        intro q
        simp only [PColl.provs, hso, List.mem_map, List.mem_filter, decide_eq_true_eq]
        constructor
        · rintro ⟨e, ⟨he, hne⟩, rfl⟩; exact ⟨⟨e, he, rfl⟩, hne⟩
        · rintro ⟨⟨e, he, rfl⟩, hne⟩; exact ⟨e, ⟨he, hne⟩, rfl⟩
      have nameFree : ∀ q ∈ c1.provs, q.name ≠ nu.name := by
        intro q hq hqn
        obtain ⟨hqc, hqid⟩ := (hc1 q).mp hq
        by_cases hon : old.name = nu.name
        · exact hqid (by rw [(h.unique hqc hold.1).2.1 (by rw [hqn, hon])])
        · have : c.byName.has nu.name = false := by
            by_cases hh : c.byName.has nu.name = true
            · exact absurd ⟨hon, hh⟩ hname
            · simpa using hh
          exact h.idx_name.has_false.mp this q hqc hqn
      have tokFree : ∀ q ∈ c1.provs, q.tok ≠ nu.tok := by
        intro q hq hqn
        obtain ⟨hqc, hqid⟩ := (hc1 q).mp hq
        by_cases hon : old.tok = nu.tok
        · exact hqid (by rw [(h.unique hqc hold.1).2.2 (by rw [hqn, hon])])
        · have : c.byTok.has nu.tok = false := by
            by_cases hh : c.byTok.has nu.tok = true
            · exact absurd ⟨hon, hh⟩ htok
            · simpa using hh
          exact h.idx_tok.has_false.mp this q hqc hqn
      have idFree : ∀ q ∈ c1.provs, q.id ≠ nu.id := fun q hq => by
        rw [hold.2]; exact ((hc1 q).mp hq).2
      have hok := PColl.store_succeeds (c := c1) (p := nu)
        (hr.1.idx_id.has_false.mpr idFree) (hr.1.idx_name.has_false.mpr nameFree)
        (hr.1.idx_tok.has_false.mpr tokFree)
      have sp := PColl.store_spec c1 nu hr.1 hw (by
        intro e he; rw [hso] at he; exact hs e (List.mem_filter.mp he).1)
      refine ⟨fun hne => absurd hok hne, fun _ => ⟨old, hold.1, hold.2.symm, rfl, ?_, sp.1, ?_⟩⟩
      · intro q hq hqid
        have hq1 : q ∈ c1.provs := (hc1 q).mpr ⟨hq, by rw [← hold.2]; exact hqid⟩
        exact ⟨nameFree q hq1, tokFree q hq1⟩
      · intro q
        have := sp.2.2 hok q
        simp only [PColl.provs] at this hc1 ⊢
        rw [this, hc1, hold.2]

theorem mem_map_replace {l : List Prov} {p old : Prov} (hold : old ∈ l) (hid : old.id = p.id) (q : Prov) :
    q ∈ l.map (fun x => if x.id = p.id then p else x) ↔ q = p ∨ (q ∈ l ∧ q.id ≠ p.id) := by
  simp only [List.mem_map]
  constructor
  · rintro ⟨x, hx, rfl⟩
    by_cases h : x.id = p.id
    · simp [h]
    · simp only [h, if_false]; exact .inr ⟨hx, h⟩
  · rintro (rfl | ⟨hq, hne⟩)
    · exact ⟨old, hold, by simp [hid]⟩
    · exact ⟨q, hq, by simp [hne]⟩

theorem map_replace_ids (l : List Prov) (p : Prov) :
    (l.map (fun x => if x.id = p.id then p else x)).map (·.id) = l.map (·.id) := by
  induction l with
  | nil => rfl
  | cons x r ih =>
    simp only [List.map_cons, ih, List.cons.injEq, and_true]
    by_cases h : x.id = p.id <;> simp [h]

/-- the database after `UpdateProvisioner` still has what a rebuild needs -/
theorem dbinv_replace {U : List Prov} {db : DB} (h : DBInv U db) {p old : Prov} (hpU : p ∈ U) (hold : old ∈ db.provs)
    (hid : old.id = p.id) (hfree : ∀ q ∈ db.provs, q.id ≠ p.id → q.name ≠ p.name ∧ q.tok ≠ p.tok) :
    DBInv U { db with provs := db.provs.map (fun x => if x.id = p.id then p else x) } := by
  have hm := fun q => mem_map_replace hold hid q
  have hids := map_replace_ids db.provs p
  have ndl : (db.provs.map (fun x => if x.id = p.id then p else x)).Nodup :=
    nodup_of_nodup_map (·.id) (by rw [hids]; exact h.p.pid)
  refine ⟨⟨by rw [hids]; exact h.p.pid, ?_, ?_, ?_⟩, h.aid, h.apair, ?_⟩
  · refine nodup_map_of_inj _ ndl (fun x hx y hy e => ?_)
    rcases (hm x).mp hx with hxp | ⟨hx', hxid⟩ <;> rcases (hm y).mp hy with hyp | ⟨hy', hyid⟩
    · rw [hxp, hyp]
    · rw [hxp] at e; exact absurd e.symm (hfree y hy' hyid).1
    · rw [hyp] at e; exact absurd e (hfree x hx' hxid).1
    · exact inj_of_nodup_map _ h.p.pname hx' hy' e
  · refine nodup_map_of_inj _ ndl (fun x hx y hy e => ?_)
    rcases (hm x).mp hx with hxp | ⟨hx', hxid⟩ <;> rcases (hm y).mp hy with hyp | ⟨hy', hyid⟩
    · rw [hxp, hyp]
    · rw [hxp] at e; exact absurd e.symm (hfree y hy' hyid).2
    · rw [hyp] at e; exact absurd e (hfree x hx' hxid).2
    · exact inj_of_nodup_map _ h.p.ptok hx' hy' e
  · intro q hq
    rcases (hm q).mp hq with rfl | ⟨hq, _⟩
    · exact hpU
    · exact h.p.pU q hq
  · intro a ha
    obtain ⟨q, hq, hqid⟩ := h.aref a ha
    by_cases hqp : q.id = p.id
    · exact ⟨p, (hm p).mpr (.inl rfl), by rw [← hqp]; exact hqid⟩
    · exact ⟨q, (hm q).mpr (.inr ⟨hq, hqp⟩), hqid⟩

theorem Agrees.sorted_pairs {U : List Prov} {cache : Cache} {db : DB} {E : List Ent} (h : Agrees U cache db E) :
    (cache.A.sorted.map pairOf).Nodup := by
  refine nodup_map_of_inj _ (nodup_of_nodup_map _ h.ast.ainv.nodup_id) (fun x hx y hy e => ?_)
  exact inj_of_nodup_map _ h.dbinv.apair ((h.agreeA x).mp hx) ((h.agreeA y).mp hy) e

/-- **the loop of `reindexAdmins` visits every administrator exactly once, whatever their number**
    (a multiple of the page size included): paging with `DefaultAdminMax` from the empty cursor until
    the next cursor is empty yields the listing (`admin_paging_exact`) -/
theorem AColl.reindexList_eq {A : AColl} (h : AInv A) : A.reindexList = A.sorted :=
  (admin_paging_exact A h adminMax (A.sorted.length + 1) (Nat.lt_succ_self _)).1

/-- `UpdateProvisioner` for the repaired code: a rename re-indexes the administrators from memory
    (`reindexAdmins`), so the only way to `reloadFailed` is a failed write followed by a failed
    reload -/
theorem updateProv_inv (U : List Prov) (hU : SumsOK U) (v : Variant) (hv : v.fixReindex = true) (f : Faults)
    (s : Auth) (p : Prov) (hpU : p ∈ U) (h : AuthInv U s)
    (hnr : (Auth.step v f s (.updateProv p)).2 ≠ .reloadFailed) :
    AuthInv U (Auth.step v f s (.updateProv p)).1 := by
  obtain ⟨E, h⟩ := h
  unfold Auth.step at hnr ⊢
  simp only [tick] at hnr ⊢
  by_cases hg : v.fixDetails = true ∧ p.conv = false
  · rw [if_pos hg]; exact ⟨E, h⟩
  rw [if_neg hg] at hnr ⊢
  generalize (if v.fixPolName = true then (s.cache.provName p.id).getD p.name else p.name) = nm at hnr ⊢
  cases hpc : Auth.provPolicyCheck s.cache.A nm p with
  | some o => exact ⟨E, h⟩
  | none =>
  simp only [hpc] at hnr ⊢
  by_cases hini : p.initOK = false
  · rw [if_pos hini]; exact ⟨E, h⟩
  rw [if_neg hini] at hnr ⊢
  have full := PColl.update_full s.cache.P p h.pinv (hU.1 p hpU) (fun e he heq => hU.2 e.2 (h.pU e he) p hpU heq)
  cases hup : s.cache.P.update p with
  | mk P' e =>
    rw [hup] at full
    simp only at full
    cases e with
    | some e =>
      have hP : P' = s.cache.P := full.1 (by simp)
      subst hP
      cases e <;> exact ⟨E, h⟩
    | none =>
      obtain ⟨old, hold, hoid, hget, hfree, hPinv, hPm⟩ := full.2 rfl
      simp only [hup] at hnr ⊢
      by_cases hb : 0 + 1 ∈ f
      · simp only [List.contains_eq_mem, hb, decide_true, if_true] at hnr ⊢
        exact (afterFailUndo_inv U hU _ f
          { cache := { P := P', A := s.cache.A }, db := s.db, engine := s.engine, calls := 0 + 1 }
          .storeFailed _ (by simp) h.dbinv hnr).1
      · simp only [List.contains_eq_mem, hb, decide_false, Bool.false_eq_true, if_false] at hnr ⊢
        have holdDB : old ∈ s.db.provs := (h.agreeP old).mp hold
        have hpn : s.cache.provName p.id = some old.name := by
          unfold Cache.provName; rw [hget]; rfl
        have hP'U : ∀ e ∈ P'.sorted, e.2 ∈ U := by
          intro e he
          rcases (hPm e.2).mp (List.mem_map.mpr ⟨e, he, rfl⟩) with h1 | h1
          · rw [h1]; exact hpU
          · obtain ⟨e', he', heq⟩ := List.mem_map.mp h1.1
            rw [← heq]; exact h.pU e' he'
        have hagP : ∀ q, q ∈ P'.provs ↔ q ∈ s.db.provs.map (fun x => if x.id = p.id then p else x) := by
          intro q; rw [hPm, mem_map_replace holdDB hoid, h.agreeP]
        have hdbP : ((s.db.provs.map (fun x => if x.id = p.id then p else x)).map (·.id)).Nodup := by
          rw [map_replace_ids]; exact h.dbP
        by_cases hren : s.cache.provName p.id ≠ some p.name
        · -- renamed: the admin collection is rebuilt from the admins it holds
          simp only [hv, true_and] at hnr ⊢
          rw [if_pos hren] at hnr ⊢
          rw [AColl.reindexList_eq h.ast.ainv] at hnr ⊢
          obtain ⟨A', E', hgo, hst, hAm⟩ := goA_spec P' hPinv s.cache.A.sorted {} []
            ⟨AInv.empty, CInv.empty, GRep.empty, by intro e he; cases he⟩ h.ast.ainv.nodup_id (by simp)
            h.sorted_pairs (by simp)
            (by
              intro a ha
              obtain ⟨m, hm⟩ := (h.ast.grep.listed a).mp ha
              obtain ⟨q, hq, hqid, _⟩ := h.ast.linked (m, a) hm
              by_cases hqp : q.id = p.id
              · exact ⟨p, (hPm p).mpr (.inl rfl), by rw [← hqp]; exact hqid⟩
              · exact ⟨q, (hPm q).mpr (.inr ⟨hq, hqp⟩), hqid⟩)
          simp only [hgo]
          exact ⟨E', hPinv, hP'U, hst, hagP, by intro a; rw [hAm]; simp [h.agreeA], hdbP, h.dbA⟩
        · simp only [hv, true_and]
          rw [if_neg hren]
          have hsame : old.name = p.name := by
            have : s.cache.provName p.id = some p.name := by simpa using hren
            rw [hpn] at this; exact Option.some.inj this
          have hnoRen : ¬(v.fixRename = true ∧ s.cache.provName p.id ≠ some p.name) := fun hh => hren hh.2
          rw [if_neg hnoRen]
          refine ⟨E, hPinv, hP'U, ⟨h.ast.ainv, h.ast.cinv, h.ast.grep, ?_⟩, hagP, h.agreeA, hdbP, h.dbA⟩
          intro e he
          obtain ⟨q, hq, hqid, hqn⟩ := h.ast.linked e he
          by_cases hqp : q.id = p.id
          · have : q = old := (h.pinv.unique hq hold).1 (by rw [hqp, hoid])
            exact ⟨p, (hPm p).mpr (.inl rfl), by rw [← hqp]; exact hqid, by rw [← hsame, ← this]; exact hqn⟩
          · exact ⟨q, (hPm q).mpr (.inr ⟨hq, hqp⟩), hqid, hqn⟩

theorem filter_notin_cons {α : Type} (key : α → Str) (l : List α) (id : Str) (ids : List Str) :
    (l.filter (fun e => decide (key e ≠ id))).filter (fun e => !ids.contains (key e)) =
      l.filter (fun e => !(id :: ids).contains (key e)) := by
  rw [List.filter_filter]
  apply List.filter_congr
  intro e _
  by_cases h : key e = id <;> simp [h]

/-- the loop of `RemoveProvisioner`: when it runs to the end every listed administrator with one
    of these ids is gone from cache and database and nothing else has changed; when it stops early
    (refusal or storage failure with a successful reload) the invariant still holds -/
theorem removeAdmins_spec (U : List Prov) (hU : SumsOK U) (v : Variant) (f : Faults) : ∀ (ids : List Str) (s : Auth) (E : List Ent),
    Agrees U s.cache s.db E →
    ((Auth.removeAdmins v f s ids).2 = .ok →
        Agrees U (Auth.removeAdmins v f s ids).1.cache (Auth.removeAdmins v f s ids).1.db
          (E.filter (fun e => !ids.contains e.2.id)) ∧
        (Auth.removeAdmins v f s ids).1.cache.P = s.cache.P ∧
        (Auth.removeAdmins v f s ids).1.db.provs = s.db.provs ∧
        (Auth.removeAdmins v f s ids).1.db.adms = s.db.adms.filter (fun a => !ids.contains a.id) ∧
        (Auth.removeAdmins v f s ids).1.db.policy = s.db.policy ∧
        (Auth.removeAdmins v f s ids).1.engine = s.engine) ∧
    ((Auth.removeAdmins v f s ids).2 ≠ .reloadFailed → AuthInv U (Auth.removeAdmins v f s ids).1 ∧
        (Auth.removeAdmins v f s ids).1.db.policy = s.db.policy ∧ (Auth.removeAdmins v f s ids).1.engine = s.engine)
  | [], s, E, h => by
    have hE : E.filter (fun e => !([] : List Str).contains e.2.id) = E := by
      rw [List.filter_eq_self]; intro e _; simp
    have hA : s.db.adms.filter (fun a => !([] : List Str).contains a.id) = s.db.adms := by
      rw [List.filter_eq_self]; intro e _; simp
    unfold Auth.removeAdmins
    exact ⟨fun _ => ⟨by rw [hE]; exact h, rfl, rfl, hA.symm, rfl, rfl⟩, fun _ => ⟨⟨E, h⟩, rfl, rfl⟩⟩
  | id :: r, s, E, h => by
    have sp := removeAdmin1_spec U hU v f s id E h
    unfold Auth.removeAdmins
    simp only
    by_cases hok : (Auth.removeAdmin1 v f s id).2 = .ok
    · rw [if_pos hok]
      obtain ⟨hag, hP, hprovs, hadms, hpol, heng, _⟩ := sp.1 hok
      have ih := removeAdmins_spec U hU v f r (Auth.removeAdmin1 v f s id).1 _ hag
      refine ⟨fun hok2 => ?_, fun hnr => ?_⟩
      · obtain ⟨hag2, hP2, hprovs2, hadms2, hpol2, heng2⟩ := ih.1 hok2
        refine ⟨?_, by rw [hP2, hP], by rw [hprovs2, hprovs], ?_, by rw [hpol2, hpol], by rw [heng2, heng]⟩
        · rw [filter_notin_cons (fun (e : Ent) => e.2.id)] at hag2; exact hag2
        · rw [hadms2, hadms, filter_notin_cons (fun (a : Adm) => a.id)]
      · have := ih.2 hnr
        exact ⟨this.1, by rw [this.2.1, hpol], by rw [this.2.2, heng]⟩
    · rw [if_neg hok]
      refine ⟨fun h2 => absurd h2 hok, fun hnr => ?_⟩
      have := sp.2 hok hnr
      exact ⟨this.1, by rw [this.2.1], this.2.2⟩

/-- the administrators of the provisioner called `n` are exactly the members of its group -/
theorem group_is_provisioner {U : List Prov} {cache : Cache} {db : DB} {E : List Ent} (h : Agrees U cache db E)
    {p : Prov} (hp : p ∈ cache.P.provs) {a : Adm} (ha : a ∈ cache.A.sorted) :
    ((group cache.A p.name).map (·.id)).contains a.id = true ↔ a.provId = p.id := by
  obtain ⟨m, hm⟩ := (h.ast.grep.listed a).mp ha
  obtain ⟨q, hq, hqid, hqn⟩ := h.ast.linked (m, a) hm
  simp only [List.contains_eq_mem, List.mem_map, decide_eq_true_eq]
  constructor
  · rintro ⟨x, hx, hxid⟩
    have hxE := (h.ast.grep.grp p.name x).mp hx
    have := h.ast.grep.ent_inj hxE hm hxid
    simp only [Prod.mk.injEq] at this
    have hqp : q = p := (h.pinv.unique hq hp).2.1 (by rw [hqn, ← this.1])
    rw [← hqid, hqp]
  · intro hid
    have hqp : q = p := (h.pinv.unique hq hp).1 (by rw [hqid, hid])
    refine ⟨a, (h.ast.grep.grp p.name a).mpr ?_, rfl⟩
    rw [← hqp, hqn]; exact hm

theorem removeProv_spec (U : List Prov) (hU : SumsOK U) (v : Variant) (f : Faults) (s : Auth) (id : Str)
    (E : List Ent) (h : Agrees U s.cache s.db E) :
    ((Auth.step v f s (.removeProv id)).2 ≠ .reloadFailed → AuthInv U (Auth.step v f s (.removeProv id)).1) ∧
    ((Auth.step v f s (.removeProv id)).2 = .ok →
      (∃ p ∈ s.cache.P.provs, p.id = id ∧ s.cache.A.superCount ≠ s.cache.A.superBy p.name) ∧
      (∀ a, a ∈ (Auth.step v f s (.removeProv id)).1.db.adms ↔ a ∈ s.db.adms ∧ a.provId ≠ id) ∧
      (∀ q, q ∈ (Auth.step v f s (.removeProv id)).1.db.provs ↔ q ∈ s.db.provs ∧ q.id ≠ id) ∧
      (Auth.step v f s (.removeProv id)).1.db.policy = s.db.policy) := by
  unfold Auth.step
  simp only
  cases hg : s.cache.P.byID.get id with
  | none => exact ⟨fun _ => ⟨E, h⟩, by simp⟩
  | some p =>
    have hp := h.pinv.idx_id.get_some.mp hg
    simp only
    split
    · exact ⟨fun _ => ⟨E, h⟩, by simp⟩
    rename_i hguard
    have loop := removeAdmins_spec U hU v f (((s.cache.A.byProv.get p.name).getD []).map (·.id))
      { s with calls := 0 } E h
    by_cases hok : (Auth.removeAdmins v f { s with calls := 0 } (((s.cache.A.byProv.get p.name).getD []).map (·.id))).2 = .ok
    · rw [if_neg (by simpa using hok)]
      obtain ⟨hag, hP, hprovs, hadms, hpol, heng⟩ := loop.1 hok
      generalize Auth.removeAdmins v f { s with calls := 0 } (((s.cache.A.byProv.get p.name).getD []).map (·.id)) = r at *
      have hp' : p ∈ r.1.cache.P.provs := by rw [hP]; exact hp.1
      have hrs := PColl.remove_succeeds hag.pinv hp'
      have hr := PColl.remove_spec r.1.cache.P p.id hag.pinv
      cases hrem : r.1.cache.P.remove p.id with
      | mk P' e =>
        rw [hrem] at hrs hr
        simp only at hrs hr
        subst hrs
        simp only [tick]
        have hso := (hr.2.2 rfl).1
        have hadmsIff : ∀ a, a ∈ r.1.db.adms ↔ a ∈ s.db.adms ∧ a.provId ≠ id := by
          intro a
          rw [hadms, List.mem_filter]
          constructor
          · rintro ⟨ha, hc⟩
            refine ⟨ha, fun hid => ?_⟩
            have := (group_is_provisioner h hp.1 ((h.agreeA a).mpr ha)).mpr (by rw [hid, hp.2])
            simp only [group] at this
            rw [this] at hc; cases hc
          · rintro ⟨ha, hne⟩
            refine ⟨ha, ?_⟩
            cases hc : ((s.cache.A.byProv.get p.name).getD []).map (·.id) |>.contains a.id with
            | false => rfl
            | true =>
              exact absurd ((group_is_provisioner h hp.1 ((h.agreeA a).mpr ha)).mp hc) (by rw [← hp.2]; exact hne)
        by_cases hb : r.1.calls + 1 ∈ f
        · simp only [List.contains_eq_mem, hb, decide_true, if_true]
          have haf := fun u => afterFailUndo_inv U hU v f
            { cache := { P := P', A := r.1.cache.A }, db := r.1.db, engine := r.1.engine, calls := r.1.calls + 1 }
            .storeFailed u (by simp) hag.dbinv
          refine ⟨fun hnr => (haf _ hnr).1, fun hok2 => ?_⟩
          rw [afterFailUndo_snd] at hok2
          have := (afterFail_inv U hU f
            { cache := { P := P', A := r.1.cache.A }, db := r.1.db, engine := r.1.engine, calls := r.1.calls + 1 }
            .storeFailed (by simp) hag.dbinv (by rw [hok2]; simp)).2.2.2
          rw [this] at hok2; cases hok2
        · simp only [List.contains_eq_mem, hb, decide_false, Bool.false_eq_true, if_false]
          refine ⟨fun _ => ⟨E.filter (fun e => !(((s.cache.A.byProv.get p.name).getD []).map (·.id)).contains e.2.id), ?_⟩,
            fun _ => ⟨⟨p, hp.1, hp.2.symm, hguard⟩, hadmsIff, ?_, hpol⟩⟩
          · have hPm : ∀ q, q ∈ P'.provs ↔ q ∈ r.1.cache.P.provs ∧ q.id ≠ p.id := by
              intro q
              simp only [PColl.provs, hso, List.mem_map, List.mem_filter, decide_eq_true_eq]
              constructor
              · rintro ⟨e, ⟨he, hne⟩, rfl⟩; exact ⟨⟨e, he, rfl⟩, hne⟩
              · rintro ⟨⟨e, he, rfl⟩, hne⟩; exact ⟨e, ⟨he, hne⟩, rfl⟩
            refine ⟨hr.1, ?_, ⟨hag.ast.ainv, hag.ast.cinv, hag.ast.grep, ?_⟩, ?_, hag.agreeA, ?_, hag.dbA⟩
            · intro e he; rw [hso] at he; exact hag.pU e (List.mem_filter.mp he).1
            · intro e he
              obtain ⟨q, hq, hqid, hqn⟩ := hag.ast.linked e he
              refine ⟨q, (hPm q).mpr ⟨hq, fun hqp => ?_⟩, hqid, hqn⟩
              -- an entry of the removed provisioner would have been deleted by the loop
              have hqp' : q = p := (hag.pinv.unique hq hp').1 hqp
              obtain ⟨heE, hnot⟩ := List.mem_filter.mp he
              have : (e.1, e.2) ∈ E := heE
              have hin : e.2 ∈ group s.cache.A p.name := (h.ast.grep.grp p.name e.2).mpr (by
                rw [← hqp', hqn]; exact this)
              have : (((s.cache.A.byProv.get p.name).getD []).map (·.id)).contains e.2.id = true := by
                simp only [List.contains_eq_mem, List.mem_map, decide_eq_true_eq]
                exact ⟨e.2, hin, rfl⟩
              rw [this] at hnot; cases hnot
            · intro q
              rw [hPm, hP, List.mem_filter, hprovs, h.agreeP, hp.2]
              simp
            · exact List.Nodup.sublist (List.Sublist.map _ List.filter_sublist) (by rw [hprovs]; exact h.dbP)
          · intro q
            rw [List.mem_filter, hprovs]; simp
    · rw [if_pos (by simpa using hok)]
      exact ⟨fun hnr => (loop.2 hnr).1, fun h2 => absurd h2 hok⟩

/-! ## which policy applies: the engine follows the stored policy -/

theorem reload_frame (f : Faults) (s : Auth) :
    (reload f s).1.db = s.db ∧ (reload f s).1.engine = s.engine := by
  unfold reload
  simp only [tick]
  by_cases hb1 : s.calls + 1 ∈ f
  · simp [hb1]
  by_cases hb2 : s.calls + 1 + 1 ∈ f
  · simp [hb1, hb2]
  cases buildCache s.db.provs s.db.adms <;> simp [hb1, hb2]

theorem afterFail_frame (f : Faults) (s : Auth) (o : AuthOut) :
    (afterFail f s o).1.db = s.db ∧ (afterFail f s o).1.engine = s.engine := by
  unfold afterFail
  exact reload_frame f s

theorem afterFailUndo_frame (v : Variant) (f : Faults) (s : Auth) (o : AuthOut) (u : Cache → Cache) :
    (afterFailUndo v f s o u).1.db = s.db ∧ (afterFailUndo v f s o u).1.engine = s.engine := by
  unfold afterFailUndo
  simp only
  have := afterFail_frame f s o
  split
  · exact this
  · exact this

theorem removeAdmin1_frame (v : Variant) (f : Faults) (s : Auth) (id : Str) :
    (Auth.removeAdmin1 v f s id).1.db.policy = s.db.policy ∧ (Auth.removeAdmin1 v f s id).1.engine = s.engine := by
  unfold Auth.removeAdmin1
  cases hr : s.cache.A.remove s.cache.provName id with
  | crash => exact ⟨rfl, rfl⟩
  | val r =>
    obtain ⟨A', e⟩ := r
    cases e with
    | some e => exact ⟨rfl, rfl⟩
    | none =>
      simp only [tick]
      by_cases hb : s.calls + 1 ∈ f
      · simp only [List.contains_eq_mem, hb, decide_true, if_true]
        have := fun u => afterFailUndo_frame v f
          { cache := { P := s.cache.P, A := A' }, db := s.db, engine := s.engine, calls := s.calls + 1 } .storeFailed u
        exact ⟨by rw [(this _).1], (this _).2⟩
      · simp [hb]

theorem removeAdmins_frame (v : Variant) (f : Faults) : ∀ (ids : List Str) (s : Auth),
    (Auth.removeAdmins v f s ids).1.db.policy = s.db.policy ∧ (Auth.removeAdmins v f s ids).1.engine = s.engine
  | [], s => by unfold Auth.removeAdmins; exact ⟨rfl, rfl⟩
  | id :: r, s => by
    unfold Auth.removeAdmins
    simp only
    have h1 := removeAdmin1_frame v f s id
    split
    · have := removeAdmins_frame v f r (Auth.removeAdmin1 v f s id).1
      exact ⟨by rw [this.1, h1.1], by rw [this.2, h1.2]⟩
    · exact h1

def isPolicyOp : AOp → Bool
  | .createPolicy _ _ | .updatePolicy _ _ | .removePolicy | .restart => true
  | _ => false

/-- administrator and provisioner operations never touch the stored policy or the engine -/
theorem step_frame (v : Variant) (f : Faults) (s : Auth) (op : AOp) (hop : isPolicyOp op = false) :
    (Auth.step v f s op).1.db.policy = s.db.policy ∧ (Auth.step v f s op).1.engine = s.engine := by
  cases op with
  | storeAdmin a pid pname =>
    unfold Auth.step
    simp only [tick]
    split
    · exact ⟨rfl, rfl⟩
    split
    · exact ⟨rfl, rfl⟩
    by_cases hb : 0 + 1 ∈ f
    · simp [hb]
    simp only [List.contains_eq_mem, hb, decide_false, Bool.false_eq_true, if_false]
    by_cases hany' : (s.db.adms.any fun x => decide (x.id = a.id)) = true
    · simp only [hany', if_true]; exact ⟨trivial, trivial⟩
    have hany : (s.db.adms.any fun x => decide (x.id = a.id)) = false := by simpa using hany'
    simp only [hany, Bool.false_eq_true, if_false]
    cases hst : s.cache.A.store a pid pname with
    | mk A e =>
      cases e with
      | none => exact ⟨rfl, rfl⟩
      | some e =>
        have := afterFail_frame f
          { cache := { P := s.cache.P, A := A },
            db := { provs := s.db.provs, adms := insDB (fun x => x.id) a s.db.adms, policy := s.db.policy, used := s.db.used },
            engine := s.engine, calls := 0 + 1 } .cacheFailed
        exact ⟨by rw [this.1], this.2⟩
  | updateAdmin id t =>
    unfold Auth.step
    simp only [tick]
    split
    · exact ⟨rfl, rfl⟩
    · exact ⟨rfl, rfl⟩
    · rename_i A _
      by_cases hb : 0 + 1 ∈ f
      · simp only [List.contains_eq_mem, hb, decide_true, if_true]
        have := fun u => afterFailUndo_frame v f
          { cache := { P := s.cache.P, A := A }, db := s.db, engine := s.engine, calls := 0 + 1 } .storeFailed u
        exact ⟨by rw [(this _).1], (this _).2⟩
      · simp [hb]
  | removeAdmin id =>
    unfold Auth.step
    exact removeAdmin1_frame v f { s with calls := 0 } id
  | storeProv p =>
    unfold Auth.step
    simp only [tick]
    split
    · exact ⟨rfl, rfl⟩
    split
    · exact ⟨rfl, rfl⟩
    split
    · exact ⟨rfl, rfl⟩
    split
    · exact ⟨rfl, rfl⟩
    split
    · exact ⟨rfl, rfl⟩
    by_cases hb : 0 + 1 ∈ f
    · simp [hb]
    simp only [List.contains_eq_mem, hb, decide_false, Bool.false_eq_true, if_false]
    by_cases hany' : (s.db.provs.any fun x => decide (x.id = p.id)) = true
    · simp only [hany', if_true]; exact ⟨trivial, trivial⟩
    have hany : (s.db.provs.any fun x => decide (x.id = p.id)) = false := by simpa using hany'
    simp only [hany, Bool.false_eq_true, if_false]
    cases hst : s.cache.P.store p with
    | mk P e =>
      cases e with
      | none => exact ⟨rfl, rfl⟩
      | some e =>
        have := afterFail_frame f
          { cache := { P := P, A := s.cache.A },
            db := { provs := insDB (fun x => x.id) p s.db.provs, adms := s.db.adms, policy := s.db.policy, used := s.db.used },
            engine := s.engine, calls := 0 + 1 } .cacheFailed
        exact ⟨by rw [this.1], this.2⟩
  | updateProv p =>
    unfold Auth.step
    simp only [tick]
    split
    · exact ⟨rfl, rfl⟩
    split
    · exact ⟨rfl, rfl⟩
    split
    · exact ⟨rfl, rfl⟩
    split
    · exact ⟨rfl, rfl⟩
    · exact ⟨rfl, rfl⟩
    · rename_i P _
      by_cases hb : 0 + 1 ∈ f
      · simp only [List.contains_eq_mem, hb, decide_true, if_true]
        have := fun u => afterFailUndo_frame v f
          { cache := { P := P, A := s.cache.A }, db := s.db, engine := s.engine, calls := 0 + 1 } .storeFailed u
        exact ⟨by rw [(this _).1], (this _).2⟩
      · simp only [List.contains_eq_mem, hb, decide_false, Bool.false_eq_true, if_false]
        split
        · cases buildCache.goA P {} s.cache.A.reindexList <;> exact ⟨rfl, rfl⟩
        split
        · have := afterFail_frame f
            { cache := { P := P, A := s.cache.A },
              db := { provs := s.db.provs.map (fun q => if q.id = p.id then p else q), adms := s.db.adms, policy := s.db.policy, used := s.db.used },
              engine := s.engine, calls := 0 + 1 } .ok
          exact ⟨by rw [this.1], this.2⟩
        · exact ⟨rfl, rfl⟩
  | removeProv id =>
    unfold Auth.step
    simp only [tick]
    split
    · exact ⟨rfl, rfl⟩
    split
    · exact ⟨rfl, rfl⟩
    rename_i p _ _
    have hl := removeAdmins_frame v f (((s.cache.A.byProv.get p.name).getD []).map (·.id)) { s with calls := 0 }
    split
    · exact hl
    generalize Auth.removeAdmins v f { s with calls := 0 } (((s.cache.A.byProv.get p.name).getD []).map (·.id)) = r at *
    split
    · exact hl
    · rename_i P' _
      by_cases hb : r.1.calls + 1 ∈ f
      · simp only [List.contains_eq_mem, hb, decide_true, if_true]
        have := fun u => afterFailUndo_frame v f
          { cache := { P := P', A := r.1.cache.A }, db := r.1.db, engine := r.1.engine, calls := r.1.calls + 1 } .storeFailed u
        exact ⟨by rw [(this _).1]; exact hl.1, by rw [(this _).2]; exact hl.2⟩
      · simp only [List.contains_eq_mem, hb, decide_false, Bool.false_eq_true, if_false]
        exact hl
  | createPolicy cur p => simp [isPolicyOp] at hop
  | updatePolicy cur p => simp [isPolicyOp] at hop
  | removePolicy => simp [isPolicyOp] at hop
  | restart => simp [isPolicyOp] at hop

theorem Agrees.with_policy {U : List Prov} {cache : Cache} {db : DB} {E : List Ent} (h : Agrees U cache db E)
    (x : Option Pol) : Agrees U cache { db with policy := x } E :=
  ⟨h.pinv, h.pU, h.ast, h.agreeP, h.agreeA, h.dbP, h.dbA⟩

/-- **the invariant of the running CA**: collections consistent and equal to the database content,
    and the policy engine is the stored authority policy -/
def FullInv (U : List Prov) (s : Auth) : Prop := AuthInv U s ∧ s.engine = s.db.policy

theorem reloadPolicy_inv (U : List Prov) (v : Variant) (hv : v.fixEnforce = true) (f : Faults) (s : Auth)
    (h : AuthInv U s) : FullInv U (Auth.reloadPolicy v f s).1 := by
  unfold Auth.reloadPolicy
  simp only [tick]
  by_cases hb : s.calls + 1 ∈ f
  · simp only [List.contains_eq_mem, hb, decide_true, if_true, hv]
    exact ⟨h, rfl⟩
  · simp only [List.contains_eq_mem, hb, decide_false, Bool.false_eq_true, if_false]
    exact ⟨h, rfl⟩

/-- policy writes of the repaired code keep the invariant whatever fails: when the read-back
    fails the engine is built from the policy just written -/
theorem policyWrite_inv (U : List Prov) (v : Variant) (hv : v.fixEnforce = true) (f : Faults) (s : Auth)
    (cur : Str) (p : Pol) (create : Bool) (h : FullInv U s) : FullInv U (Auth.policyWrite v f s cur p create).1 := by
  unfold Auth.policyWrite
  simp only [tick]
  by_cases hb : s.calls + 1 ∈ f
  · simp only [List.contains_eq_mem, hb, decide_true, if_true]; exact h
  simp only [List.contains_eq_mem, hb, decide_false, Bool.false_eq_true, if_false]
  cases hpc : Auth.polOut (polCheck p (cur :: s.db.adms.map (·.sub))) with
  | some o => exact h
  | none =>
    simp only
    by_cases hb2 : s.calls + 1 + 1 ∈ f
    · simp only [hb2, decide_true, if_true]; exact h
    simp only [hb2, decide_false, Bool.false_eq_true, if_false]
    by_cases h1' : (create && s.db.policy.isSome) = true
    · simp only [h1', if_true]; exact h
    have h1 : (create && s.db.policy.isSome) = false := Bool.eq_false_iff.mpr h1'
    simp only [h1, Bool.false_eq_true, if_false]
    by_cases h2' : (!create && s.db.policy.isNone) = true
    · simp only [h2', if_true]; exact h
    have h2 : (!create && s.db.policy.isNone) = false := Bool.eq_false_iff.mpr h2'
    simp only [h2, Bool.false_eq_true, if_false]
    obtain ⟨E, hE⟩ := h.1
    exact reloadPolicy_inv U v hv f _ ⟨E, hE.with_policy (some p)⟩

/-- **cache_eq_store (all operations, any storage failures)** — for the repaired code
    (`Variant.fixed` = /repo at HEAD), every authority operation — accepted, refused, or hit by
    any number of storage failures — leaves the running CA consistent with the database
    (`FullInv`), unless it is an admin/provisioner operation that *reports* that the reload after
    its failed write failed as well (`reloadFailed`). Policy operations and restarts keep the
    invariant whatever they report. -/
theorem step_inv (U : List Prov) (hU : SumsOK U) (f : Faults) (s : Auth) (op : AOp)
    (hvalid : ValidOp U s op) (h : FullInv U s)
    (hnr : (Auth.step Variant.fixed f s op).2 ≠ .reloadFailed ∨ isPolicyOp op = true) :
    FullInv U (Auth.step Variant.fixed f s op).1 := by
  have frame := step_frame Variant.fixed f s op
  have fin : isPolicyOp op = false → AuthInv U (Auth.step Variant.fixed f s op).1 →
      FullInv U (Auth.step Variant.fixed f s op).1 :=
    fun hop hi => ⟨hi, by rw [(frame hop).2, (frame hop).1]; exact h.2⟩
  cases op with
  | storeAdmin a pid pname => exact fin rfl (storeAdmin_inv U _ f s a pid pname hvalid h.1)
  | updateAdmin id t => exact fin rfl (updateAdmin_inv U hU _ rfl f s id t h.1 (hnr.resolve_right (by simp [isPolicyOp])))
  | removeAdmin id => exact fin rfl (removeAdmin_inv U hU _ f s id h.1 (hnr.resolve_right (by simp [isPolicyOp])))
  | storeProv p => exact fin rfl (storeProv_inv U hU _ f s p hvalid h.1)
  | updateProv p => exact fin rfl (updateProv_inv U hU _ rfl f s p hvalid h.1 (hnr.resolve_right (by simp [isPolicyOp])))
  | removeProv id =>
    obtain ⟨E, hE⟩ := h.1
    exact fin rfl ((removeProv_spec U hU _ f s id E hE).1 (hnr.resolve_right (by simp [isPolicyOp])))
  | createPolicy cur p =>
    unfold Auth.step
    exact policyWrite_inv U _ rfl f { s with calls := 0 } cur p true h
  | updatePolicy cur p =>
    unfold Auth.step
    exact policyWrite_inv U _ rfl f { s with calls := 0 } cur p false h
  | removePolicy =>
    unfold Auth.step
    simp only [tick]
    by_cases hb : 0 + 1 ∈ f
    · simp only [List.contains_eq_mem, hb, decide_true, if_true]; exact h
    simp only [List.contains_eq_mem, hb, decide_false, Bool.false_eq_true, if_false]
    cases hpol : s.db.policy with
    | none => exact h
    | some q =>
      simp only
      obtain ⟨E, hE⟩ := h.1
      exact reloadPolicy_inv U _ rfl f _ ⟨E, hE.with_policy none⟩
  | restart =>
    unfold Auth.step
    simp only
    obtain ⟨E, hE⟩ := h.1
    have hr := reload_inv U hU f { s with calls := 0 } hE.dbinv
    cases hb : reload f { s with calls := 0 } with
    | mk s' b =>
      rw [hb] at hr
      cases b with
      | true =>
        -- the new process does not come up; the running one is untouched
        have := hr.2 rfl
        simp only at this ⊢
        exact ⟨⟨E, by rw [this.2.1, this.2.2.1]; exact hE⟩, by rw [this.2.2.2, this.2.2.1]; exact h.2⟩
      | false =>
        simp only
        have := hr.1 rfl
        exact ⟨this.1, by simp⟩

/-! ## which storage failures can make cache and database disagree -/

/-- two failing database calls at most two positions apart inside one request: the write (or the
    read of a refused write) and one of the two reads of the reload that follows it -/
def TwoFaults (f : Faults) : Prop := ∃ n, n ∈ f ∧ (n + 1 ∈ f ∨ n + 2 ∈ f)

theorem not_twoFaults_of_single {f : Faults} (h : f.length ≤ 1) : ¬TwoFaults f := by
  rintro ⟨n, hn, h2⟩
  match f, h with
  | [], _ => cases hn
  | [x], _ =>
    simp only [List.mem_singleton] at hn h2
    omega

theorem afterFail_rf (U : List Prov) (hU : SumsOK U) (f : Faults) (s : Auth) (o : AuthOut)
    (ho : o ≠ .reloadFailed) (hdb : DBInv U s.db) (hin : s.calls ∈ f)
    (h : (afterFail f s o).2 = .reloadFailed) : TwoFaults f :=
  ⟨s.calls, hin, afterFail_reloadFailed U hU f s o ho hdb h⟩

theorem afterFailUndo_rf (U : List Prov) (hU : SumsOK U) (v : Variant) (f : Faults) (s : Auth) (o : AuthOut)
    (u : Cache → Cache) (ho : o ≠ .reloadFailed) (hdb : DBInv U s.db) (hin : s.calls ∈ f)
    (h : (afterFailUndo v f s o u).2 = .reloadFailed) : TwoFaults f := by
  rw [afterFailUndo_snd] at h
  exact afterFail_rf U hU f s o ho hdb hin h

theorem removeAdmin1_rf (U : List Prov) (hU : SumsOK U) (v : Variant) (f : Faults) (s : Auth) (id : Str) (E : List Ent)
    (h : Agrees U s.cache s.db E) (hrf : (Auth.removeAdmin1 v f s id).2 = .reloadFailed) : TwoFaults f := by
  unfold Auth.removeAdmin1 at hrf
  cases hr : s.cache.A.remove s.cache.provName id with
  | crash => simp [hr] at hrf
  | val r =>
    obtain ⟨A', e⟩ := r
    cases e with
    | some e => simp only [hr] at hrf; cases e <;> simp [aerrClass] at hrf
    | none =>
      simp only [hr, tick] at hrf
      by_cases hb : s.calls + 1 ∈ f
      · simp only [List.contains_eq_mem, hb, decide_true, if_true] at hrf
        exact afterFailUndo_rf U hU _ f
          { cache := { P := s.cache.P, A := A' }, db := s.db, engine := s.engine, calls := s.calls + 1 }
          .storeFailed _ (by simp) h.dbinv hb hrf
      · simp [hb] at hrf

theorem removeAdmins_rf (U : List Prov) (hU : SumsOK U) (v : Variant) (f : Faults) : ∀ (ids : List Str) (s : Auth) (E : List Ent),
    Agrees U s.cache s.db E → (Auth.removeAdmins v f s ids).2 = .reloadFailed → TwoFaults f
  | [], s, E, _, hrf => by unfold Auth.removeAdmins at hrf; cases hrf
  | id :: r, s, E, h, hrf => by
    unfold Auth.removeAdmins at hrf
    simp only at hrf
    by_cases hok : (Auth.removeAdmin1 v f s id).2 = .ok
    · rw [if_pos hok] at hrf
      exact removeAdmins_rf U hU v f r _ _ ((removeAdmin1_spec U hU v f s id E h).1 hok).1 hrf
    · rw [if_neg hok] at hrf
      exact removeAdmin1_rf U hU v f s id E h hrf

theorem provPolicyCheck_out {A : AColl} {nm : Str} {p : Prov} {o : AuthOut}
    (h : Auth.provPolicyCheck A nm p = some o) : o ≠ .reloadFailed := by
  unfold Auth.provPolicyCheck at h
  cases hpp : p.pol with
  | none => simp [hpp] at h
  | some pol =>
    simp only [hpp] at h
    unfold Auth.polOut at h
    cases hq : polCheck pol (((A.byProv.get nm).getD []).map (·.sub)) <;> rw [hq] at h <;> simp at h <;>
      subst h <;> simp

/-- **which failures break cache = store** — an admin or provisioner operation of the repaired
    code reports `reloadFailed` (the only outcome after which cache and database may disagree,
    `step_inv`) only if two database calls of the request failed: the write, and a read of the
    reload that follows the failed write. (Policy operations and restarts may report it after one
    failing read, but keep the invariant: `step_inv`.) -/
theorem reloadFailed_causes (U : List Prov) (hU : SumsOK U) (f : Faults) (s : Auth) (op : AOp)
    (hvalid : ValidOp U s op) (h : FullInv U s)
    (hrf : (Auth.step Variant.fixed f s op).2 = .reloadFailed) : TwoFaults f ∨ isPolicyOp op = true := by
  obtain ⟨E, hE⟩ := h.1
  cases op with
  | storeAdmin a pid pname =>
    exfalso
    -- the cache accepts whatever the database accepted, so no reload is ever attempted
    unfold Auth.step at hrf
    simp only [tick] at hrf
    split at hrf
    · cases hrf
    rename_i hprov
    split at hrf
    · cases hrf
    rename_i hsp
    by_cases hb : 0 + 1 ∈ f
    · simp [hb] at hrf
    simp only [List.contains_eq_mem, hb, decide_false, Bool.false_eq_true, if_false] at hrf
    by_cases hany' : (s.db.adms.any fun x => decide (x.id = a.id)) = true
    · simp [hany'] at hrf
    have hany : (s.db.adms.any fun x => decide (x.id = a.id)) = false := by simpa using hany'
    simp only [hany, Bool.false_eq_true, if_false] at hrf
    have hfresh : ∀ x ∈ s.db.adms, x.id ≠ a.id := any_id_false hany
    have hok := AColl.store_succeeds (c := s.cache.A) (a := a) (pid := pid) (pname := pname) (by simpa using hprov)
      (hE.ast.ainv.idx.has_false.mpr (fun x hx => hfresh x ((hE.agreeA x).mp hx))) (by simpa using hsp)
    cases hst : s.cache.A.store a pid pname with
    | mk A' e =>
      rw [hst] at hok; simp only at hok; subst hok
      simp [hst] at hrf
  | updateAdmin id t =>
    left
    unfold Auth.step at hrf
    simp only [tick] at hrf
    cases hu : s.cache.A.update Variant.fixed s.cache.provName id t with
    | crash => simp [hu] at hrf
    | val r =>
      obtain ⟨A', e⟩ := r
      cases e with
      | some e => simp only [hu] at hrf; cases e <;> simp [aerrClass] at hrf
      | none =>
        simp only [hu] at hrf
        by_cases hb : 0 + 1 ∈ f
        · simp only [List.contains_eq_mem, hb, decide_true, if_true] at hrf
          exact afterFailUndo_rf U hU _ f
            { cache := { P := s.cache.P, A := A' }, db := s.db, engine := s.engine, calls := 0 + 1 }
            .storeFailed _ (by simp) hE.dbinv hb hrf
        · simp [hb] at hrf
  | removeAdmin id =>
    left
    unfold Auth.step at hrf
    exact removeAdmin1_rf U hU _ f { s with calls := 0 } id E hE hrf
  | storeProv p =>
    exfalso
    unfold Auth.step at hrf
    simp only [tick] at hrf
    split at hrf
    · cases hrf
    split at hrf
    · cases hrf
    rename_i hname
    split at hrf
    · cases hrf
    rename_i htok
    cases hpc : Auth.provPolicyCheck s.cache.A p.name p with
    | some o =>
      simp only [hpc] at hrf
      exact provPolicyCheck_out hpc hrf
    | none =>
    simp only [hpc] at hrf
    split at hrf
    · cases hrf
    by_cases hb : 0 + 1 ∈ f
    · simp [hb] at hrf
    simp only [List.contains_eq_mem, hb, decide_false, Bool.false_eq_true, if_false] at hrf
    by_cases hany' : (s.db.provs.any fun x => decide (x.id = p.id)) = true
    · simp [hany'] at hrf
    have hany : (s.db.provs.any fun x => decide (x.id = p.id)) = false := by simpa using hany'
    simp only [hany, Bool.false_eq_true, if_false] at hrf
    have hfresh : ∀ x ∈ s.db.provs, x.id ≠ p.id := any_pid_false hany
    have hok := PColl.store_succeeds (c := s.cache.P) (p := p)
      (hE.pinv.idx_id.has_false.mpr (fun x hx => hfresh x ((hE.agreeP x).mp hx))) (by simpa using hname)
      (by simpa using htok)
    cases hst : s.cache.P.store p with
    | mk P' e =>
      rw [hst] at hok; simp only at hok; subst hok
      simp [hst] at hrf
  | updateProv p =>
    left
    unfold Auth.step at hrf
    simp only [tick] at hrf
    split at hrf
    · cases hrf
    generalize (if Variant.fixed.fixPolName = true then (s.cache.provName p.id).getD p.name else p.name) = nm at hrf
    cases hpc : Auth.provPolicyCheck s.cache.A nm p with
    | some o =>
      simp only [hpc] at hrf
      exact absurd hrf (provPolicyCheck_out hpc)
    | none =>
    simp only [hpc] at hrf
    split at hrf
    · cases hrf
    cases hup : s.cache.P.update p with
    | mk P' e =>
      cases e with
      | some e => simp only [hup] at hrf; cases e <;> simp at hrf
      | none =>
        simp only [hup] at hrf
        by_cases hb : 0 + 1 ∈ f
        · simp only [List.contains_eq_mem, hb, decide_true, if_true] at hrf
          exact afterFailUndo_rf U hU _ f
            { cache := { P := P', A := s.cache.A }, db := s.db, engine := s.engine, calls := 0 + 1 }
            .storeFailed _ (by simp) hE.dbinv hb hrf
        · exfalso
          simp only [List.contains_eq_mem, hb, decide_false, Bool.false_eq_true, if_false, Variant.fixed, true_and] at hrf
          by_cases hren : s.cache.provName p.id ≠ some p.name
          · rw [if_pos hren] at hrf
            cases hgo : buildCache.goA P' {} s.cache.A.reindexList <;> simp [hgo] at hrf
          · rw [if_neg hren, if_neg hren] at hrf; cases hrf
  | removeProv id =>
    left
    unfold Auth.step at hrf
    simp only at hrf
    cases hg : s.cache.P.byID.get id with
    | none => simp [hg] at hrf
    | some p =>
      have hp := hE.pinv.idx_id.get_some.mp hg
      simp only [hg] at hrf
      split at hrf
      · cases hrf
      have loop := removeAdmins_spec U hU Variant.fixed f (((s.cache.A.byProv.get p.name).getD []).map (·.id))
        { s with calls := 0 } E hE
      by_cases hok : (Auth.removeAdmins Variant.fixed f { s with calls := 0 } (((s.cache.A.byProv.get p.name).getD []).map (·.id))).2 = .ok
      · rw [if_neg (by simpa using hok)] at hrf
        obtain ⟨hag, hP, _⟩ := loop.1 hok
        generalize Auth.removeAdmins Variant.fixed f { s with calls := 0 } (((s.cache.A.byProv.get p.name).getD []).map (·.id)) = r at *
        have hrs := PColl.remove_succeeds hag.pinv (p := p) (by rw [hP]; exact hp.1)
        cases hrem : r.1.cache.P.remove p.id with
        | mk P' e =>
          rw [hrem] at hrs; simp only at hrs; subst hrs
          simp only [hrem, tick] at hrf
          by_cases hb : r.1.calls + 1 ∈ f
          · simp only [List.contains_eq_mem, hb, decide_true, if_true] at hrf
            exact afterFailUndo_rf U hU _ f
              { cache := { P := P', A := r.1.cache.A }, db := r.1.db, engine := r.1.engine, calls := r.1.calls + 1 }
              .storeFailed _ (by simp) hag.dbinv hb hrf
          · simp [hb] at hrf
      · rw [if_pos (by simpa using hok)] at hrf
        exact removeAdmins_rf U hU _ f _ { s with calls := 0 } E hE hrf
  | createPolicy cur p => exact .inr rfl
  | updatePolicy cur p => exact .inr rfl
  | removePolicy => exact .inr rfl
  | restart => exact .inr rfl

/-- **cache_eq_store (no two failures)** — unless two database calls of the same request fail at
    positions n and n+1 or n+2 (a write and a read of the reload that follows it), every operation
    of the repaired code — including renames, policy writes and restarts, and whatever it reports —
    leaves the CA consistent with the database. -/
theorem cache_eq_store_unless_two_faults (U : List Prov) (hU : SumsOK U) (f : Faults) (hf : ¬TwoFaults f)
    (s : Auth) (op : AOp) (hvalid : ValidOp U s op) (h : FullInv U s) :
    FullInv U (Auth.step Variant.fixed f s op).1 := by
  apply step_inv U hU f s op hvalid h
  by_cases hp : isPolicyOp op = true
  · exact .inr hp
  · left
    intro hrf
    rcases reloadFailed_causes U hU f s op hvalid h hrf with h2 | h2
    · exact hf h2
    · exact hp h2

/-- **cache_eq_store (any single storage failure)** — with at most one failing database call
    inside the request, *every* operation of the repaired code leaves the CA consistent with the
    database: no exception for renames, policy writes or restarts any more. -/
theorem cache_eq_store_single_fault (U : List Prov) (hU : SumsOK U) (f : Faults) (hf : f.length ≤ 1) (s : Auth)
    (op : AOp) (hvalid : ValidOp U s op) (h : FullInv U s) : FullInv U (Auth.step Variant.fixed f s op).1 :=
  cache_eq_store_unless_two_faults U hU f (not_twoFaults_of_single hf) s op hvalid h

/-- no storage failure at all: every operation keeps the invariant -/
theorem cache_eq_store_no_fault (U : List Prov) (hU : SumsOK U) (s : Auth) (op : AOp)
    (hvalid : ValidOp U s op) (h : FullInv U s) : FullInv U (Auth.step Variant.fixed [] s op).1 :=
  cache_eq_store_single_fault U hU [] (by simp) s op hvalid h

/-- a history: operations with their failing call positions, each valid in the state it meets and
    none with two failures around a reload -/
def ValidRun (U : List Prov) : Auth → List (AOp × Faults) → Prop
  | _, [] => True
  | s, (o, f) :: r => ValidOp U s o ∧ ¬TwoFaults f ∧ ValidRun U (Auth.step Variant.fixed f s o).1 r

/-- **cache_eq_store over histories** — along any history of operations, restarts and storage
    failures in which no single request suffers two failures around a reload, the CA stays
    consistent with the database. -/
theorem run_inv (U : List Prov) (hU : SumsOK U) : ∀ (ops : List (AOp × Faults)) (s : Auth),
    FullInv U s → ValidRun U s ops → FullInv U (Auth.run Variant.fixed s ops)
  | [], _, h, _ => h
  | (o, f) :: r, s, h, hv => by
    unfold Auth.run
    exact run_inv U hU r _ (cache_eq_store_unless_two_faults U hU f hv.2.1 s o hv.1 h) hv.2.2

/-- a freshly started CA on a consistent database satisfies the invariant -/
theorem boot_inv (U : List Prov) (hU : SumsOK U) (db : DB) (hdb : DBInv U db)
    (h : (Auth.step Variant.fixed [] { db := db } .restart).2 = .ok) :
    FullInv U (Auth.step Variant.fixed [] { db := db } .restart).1 := by
  unfold Auth.step at h ⊢
  simp only at h ⊢
  have hr := reload_inv U hU [] { db := db, calls := 0 } hdb
  cases hb : reload [] ({ db := db, calls := 0 } : Auth) with
  | mk s' b =>
    rw [hb] at hr h
    cases b with
    | true => simp at h
    | false => exact ⟨(hr.1 rfl).1, by simp⟩

theorem nsuper_eq_of_same {l₁ l₂ : List Adm} (n1 : (l₁.map (·.id)).Nodup) (n2 : (l₂.map (·.id)).Nodup)
    (h : ∀ a, a ∈ l₁ ↔ a ∈ l₂) : nsuper l₁ = nsuper l₂ :=
  Nat.le_antisymm (nsuper_le_of_subset l₁ l₂ n1 n2 (fun a ha => (h a).mp ha))
    (nsuper_le_of_subset l₂ l₁ n2 n1 (fun a ha => (h a).mpr ha))

/-- **what the invariant means: the running CA is the image of the database.** Who is listed, who
    authenticates as whom, which provisioner answers to which name or id, how many super
    administrators the guards count and which policy is enforced are all functions of the
    database content alone — so a restart, which recomputes them from the database, cannot
    change any of them. -/
theorem inv_is_image {U : List Prov} {s : Auth} (h : FullInv U s) :
    (∀ a, a ∈ s.cache.A.sorted ↔ a ∈ s.db.adms) ∧
    (∀ p, p ∈ s.cache.P.provs ↔ p ∈ s.db.provs) ∧
    (∀ sub n a, s.cache.A.bySubProv.get (sub, n) = some a ↔
        a ∈ s.db.adms ∧ a.sub = sub ∧ ∃ p ∈ s.db.provs, p.id = a.provId ∧ p.name = n) ∧
    (∀ id a, s.cache.A.byID.get id = some a ↔ a ∈ s.db.adms ∧ a.id = id) ∧
    (∀ n p, s.cache.P.byName.get n = some p ↔ p ∈ s.db.provs ∧ p.name = n) ∧
    (∀ id p, s.cache.P.byID.get id = some p ↔ p ∈ s.db.provs ∧ p.id = id) ∧
    s.cache.A.superCount = (nsuper s.db.adms : Int) ∧
    (∀ p ∈ s.db.provs, s.cache.A.superBy p.name = (nsuper (s.db.adms.filter (fun a => decide (a.provId = p.id))) : Int)) ∧
    s.engine = s.db.policy := by
  obtain ⟨⟨E, hE⟩, heng⟩ := h
  refine ⟨hE.agreeA, hE.agreeP, ?_, ?_, ?_, ?_, ?_, ?_, heng⟩
  · intro sub n a
    rw [lookup_is_listed hE.pinv hE.ast.ainv hE.ast.grep hE.ast.linked, hE.agreeA, hE.pinv.provName]
    constructor
    · rintro ⟨h1, h2, p, hp, h3, h4⟩; exact ⟨h1, h2, p, (hE.agreeP p).mp hp, h3, h4⟩
    · rintro ⟨h1, h2, p, hp, h3, h4⟩; exact ⟨h1, h2, p, (hE.agreeP p).mpr hp, h3, h4⟩
  · intro id a
    rw [hE.ast.ainv.idx.get_some, hE.agreeA]
    exact ⟨fun h => ⟨h.1, h.2.symm⟩, fun h => ⟨h.1, h.2.symm⟩⟩
  · intro n p
    rw [hE.pinv.idx_name.get_some]
    exact ⟨fun h => ⟨(hE.agreeP p).mp h.1, h.2.symm⟩, fun h => ⟨(hE.agreeP p).mpr h.1, h.2.symm⟩⟩
  · intro id p
    rw [hE.pinv.idx_id.get_some]
    exact ⟨fun h => ⟨(hE.agreeP p).mp h.1, h.2.symm⟩, fun h => ⟨(hE.agreeP p).mpr h.1, h.2.symm⟩⟩
  · have := hE.ast.cinv
    unfold CInv supers at this
    rw [this, nsuper_eq_of_same hE.ast.ainv.nodup_id hE.dbA hE.agreeA]
  · intro p hp
    rw [hE.ast.grep.cnt p.name]
    congr 1
    apply nsuper_eq_of_same (hE.ast.grep.gnd p.name)
      (List.Nodup.sublist (List.Sublist.map _ List.filter_sublist) hE.dbA)
    intro a
    rw [List.mem_filter, decide_eq_true_eq]
    have hpl := (hE.agreeP p).mpr hp
    constructor
    · intro ha
      have haE := (hE.ast.grep.grp p.name a).mp ha
      have hal := hE.ast.grep.mem_listed haE
      refine ⟨(hE.agreeA a).mp hal, ?_⟩
      exact (group_is_provisioner hE hpl hal).mp (by
        simp only [List.contains_eq_mem, List.mem_map, decide_eq_true_eq]; exact ⟨a, ha, rfl⟩)
    · rintro ⟨ha, hid⟩
      have hal := (hE.agreeA a).mpr ha
      have := (group_is_provisioner hE hpl hal).mpr hid
      simp only [List.contains_eq_mem, List.mem_map, decide_eq_true_eq] at this
      obtain ⟨x, hx, hxid⟩ := this
      have hxl := hE.ast.grep.mem_listed ((hE.ast.grep.grp p.name x).mp hx)
      rw [← hE.ast.ainv.sorted.inj hxl hal hxid]; exact hx

/-! ## at least one super administrator remains — in the database, whatever fails -/

theorem removeAdmin1_db (v : Variant) (f : Faults) (s : Auth) (id : Str) (h : (Auth.removeAdmin1 v f s id).2 ≠ .ok) :
    (Auth.removeAdmin1 v f s id).1.db = s.db := by
  unfold Auth.removeAdmin1 at h ⊢
  cases hr : s.cache.A.remove s.cache.provName id with
  | crash => rfl
  | val r =>
    obtain ⟨A', e⟩ := r
    cases e with
    | some e => rfl
    | none =>
      simp only [hr, tick] at h ⊢
      by_cases hb : s.calls + 1 ∈ f
      · simp only [List.contains_eq_mem, hb, decide_true, if_true]
        exact (afterFailUndo_frame _ f
          { cache := { P := s.cache.P, A := A' }, db := s.db, engine := s.engine, calls := s.calls + 1 } .storeFailed _).1
      · simp [hb] at h

theorem Agrees.count {U : List Prov} {cache : Cache} {db : DB} {E : List Ent} (h : Agrees U cache db E) :
    cache.A.superCount = (nsuper db.adms : Int) := by
  have := h.ast.cinv
  unfold CInv supers at this
  rw [this, nsuper_eq_of_same h.ast.ainv.nodup_id h.dbA h.agreeA]

theorem removeAdmin1_super (U : List Prov) (hU : SumsOK U) (v : Variant) (f : Faults) (s : Auth) (id : Str) (E : List Ent)
    (h : Agrees U s.cache s.db E) (h1 : 1 ≤ nsuper s.db.adms) :
    1 ≤ nsuper (Auth.removeAdmin1 v f s id).1.db.adms := by
  by_cases hok : (Auth.removeAdmin1 v f s id).2 = .ok
  · obtain ⟨_, _, _, hadms, _, _, n, adm, hE, hid, hlast⟩ := (removeAdmin1_spec U hU v f s id E h).1 hok
    rw [hadms]
    have hmem : adm ∈ s.db.adms := (h.agreeA adm).mp (h.ast.grep.mem_listed hE)
    have := nsuper_remove h.dbA hmem
    rw [hid] at this
    have hc := h.count
    by_cases hs : adm.super = true
    · simp only [hs, if_true, true_and] at this hlast
      omega
    · simp only [hs, if_false, Bool.false_eq_true] at this
      omega
  · rw [removeAdmin1_db v f s id hok]; exact h1

theorem removeAdmins_super (U : List Prov) (hU : SumsOK U) (v : Variant) (f : Faults) : ∀ (ids : List Str) (s : Auth) (E : List Ent),
    Agrees U s.cache s.db E → 1 ≤ nsuper s.db.adms → 1 ≤ nsuper (Auth.removeAdmins v f s ids).1.db.adms
  | [], s, E, _, h1 => by unfold Auth.removeAdmins; exact h1
  | id :: r, s, E, h, h1 => by
    unfold Auth.removeAdmins
    simp only
    have hs := removeAdmin1_super U hU v f s id E h h1
    by_cases hok : (Auth.removeAdmin1 v f s id).2 = .ok
    · rw [if_pos hok]
      exact removeAdmins_super U hU v f r _ _ ((removeAdmin1_spec U hU v f s id E h).1 hok).1 hs
    · rw [if_neg hok]; exact hs

theorem reloadPolicy_db (v : Variant) (f : Faults) (s : Auth) : (Auth.reloadPolicy v f s).1.db = s.db := by
  unfold Auth.reloadPolicy
  simp only [tick]
  by_cases hb : s.calls + 1 ∈ f <;> simp [hb]

theorem policyWrite_adms (v : Variant) (f : Faults) (s : Auth) (cur : Str) (p : Pol) (create : Bool) :
    (Auth.policyWrite v f s cur p create).1.db.adms = s.db.adms := by
  unfold Auth.policyWrite
  simp only [tick]
  by_cases hb : s.calls + 1 ∈ f
  · simp [hb]
  simp only [List.contains_eq_mem, hb, decide_false, Bool.false_eq_true, if_false]
  cases Auth.polOut (polCheck p (cur :: s.db.adms.map (·.sub))) with
  | some o => rfl
  | none =>
    simp only
    by_cases hb2 : s.calls + 1 + 1 ∈ f
    · simp [hb2]
    simp only [hb2, decide_false, Bool.false_eq_true, if_false]
    by_cases h1' : (create && s.db.policy.isSome) = true
    · simp [h1']
    have h1 : (create && s.db.policy.isSome) = false := Bool.eq_false_iff.mpr h1'
    simp only [h1, Bool.false_eq_true, if_false]
    by_cases h2' : (!create && s.db.policy.isNone) = true
    · simp [h2']
    have h2 : (!create && s.db.policy.isNone) = false := Bool.eq_false_iff.mpr h2'
    simp only [h2, Bool.false_eq_true, if_false]
    rw [reloadPolicy_db]

/-- **super_remains (authority layer, any storage failures)** — for the repaired code, if the
    database holds a super administrator before an operation it holds one afterwards, whatever the
    operation, whether it is accepted or refused, and whichever database calls fail (even when the
    reload fails and the cache is left stale). -/
theorem auth_super_remains (U : List Prov) (hU : SumsOK U) (f : Faults) (s : Auth) (op : AOp)
    (h : FullInv U s) (h1 : 1 ≤ nsuper s.db.adms) :
    1 ≤ nsuper (Auth.step Variant.fixed f s op).1.db.adms := by
  obtain ⟨E, hE⟩ := h.1
  cases op with
  | storeAdmin a pid pname =>
    unfold Auth.step
    simp only [tick]
    split
    · exact h1
    split
    · exact h1
    by_cases hb : 0 + 1 ∈ f
    · simp only [List.contains_eq_mem, hb, decide_true, if_true]; exact h1
    simp only [List.contains_eq_mem, hb, decide_false, Bool.false_eq_true, if_false]
    by_cases hany' : (s.db.adms.any fun x => decide (x.id = a.id)) = true
    · simp only [hany', if_true]; exact h1
    have hany : (s.db.adms.any fun x => decide (x.id = a.id)) = false := by simpa using hany'
    simp only [hany, Bool.false_eq_true, if_false]
    have hins : 1 ≤ nsuper (insDB (fun x => x.id) a s.db.adms) := by
      unfold insDB
      rw [nsuper_perm (insertBy_perm _ a _), nsuper_cons]; omega
    cases hst : s.cache.A.store a pid pname with
    | mk A e =>
      cases e with
      | none => exact hins
      | some e =>
        simp only
        rw [(afterFail_frame f
          { cache := { P := s.cache.P, A := A },
            db := { provs := s.db.provs, adms := insDB (fun x => x.id) a s.db.adms, policy := s.db.policy, used := s.db.used },
            engine := s.engine, calls := 0 + 1 } .cacheFailed).1]
        exact hins
  | updateAdmin id t =>
    unfold Auth.step
    simp only [tick]
    cases hu : s.cache.A.update Variant.fixed s.cache.provName id t with
    | crash => exact h1
    | val r =>
      obtain ⟨A', e⟩ := r
      cases e with
      | some e => exact h1
      | none =>
        simp only
        by_cases hb : 0 + 1 ∈ f
        · simp only [List.contains_eq_mem, hb, decide_true, if_true]
          rw [(afterFailUndo_frame _ f
            { cache := { P := s.cache.P, A := A' }, db := s.db, engine := s.engine, calls := 0 + 1 } .storeFailed _).1]
          exact h1
        · simp only [List.contains_eq_mem, hb, decide_false, Bool.false_eq_true, if_false]
          obtain ⟨adm, hmem, hid, hcase⟩ := AColl.update_ok rfl hE.ast.ainv hu
          have hdb : adm ∈ s.db.adms := (hE.agreeA adm).mp hmem
          have := nsuper_retype hE.dbA hdb t
          rw [hid] at this
          have hc := hE.count
          rcases hcase with ⟨hsame, _⟩ | ⟨_, hlast, _⟩
          · subst hsame
            cases hs : adm.super <;> simp only [hs, if_true, if_false, Bool.false_eq_true] at this ⊢ <;> omega
          · by_cases hs : adm.super = true
            · simp only [hs, if_true, true_and] at this hlast
              cases t <;> simp only [if_true, if_false, Bool.false_eq_true] at this <;> omega
            · simp only [hs, if_false, Bool.false_eq_true] at this
              cases t <;> simp only [if_true, if_false, Bool.false_eq_true] at this <;> omega
  | removeAdmin id =>
    unfold Auth.step
    exact removeAdmin1_super U hU _ f { s with calls := 0 } id E hE h1
  | storeProv p =>
    unfold Auth.step
    simp only [tick]
    split
    · exact h1
    split
    · exact h1
    split
    · exact h1
    cases Auth.provPolicyCheck s.cache.A p.name p with
    | some o => exact h1
    | none =>
    simp only
    split
    · exact h1
    by_cases hb : 0 + 1 ∈ f
    · simp only [List.contains_eq_mem, hb, decide_true, if_true]; exact h1
    simp only [List.contains_eq_mem, hb, decide_false, Bool.false_eq_true, if_false]
    by_cases hany' : (s.db.provs.any fun x => decide (x.id = p.id)) = true
    · simp only [hany', if_true]; exact h1
    have hany : (s.db.provs.any fun x => decide (x.id = p.id)) = false := by simpa using hany'
    simp only [hany, Bool.false_eq_true, if_false]
    cases hst : s.cache.P.store p with
    | mk P e =>
      cases e with
      | none => exact h1
      | some e =>
        simp only
        rw [(afterFail_frame f
          { cache := { P := P, A := s.cache.A },
            db := { provs := insDB (fun x => x.id) p s.db.provs, adms := s.db.adms, policy := s.db.policy, used := s.db.used },
            engine := s.engine, calls := 0 + 1 } .cacheFailed).1]
        exact h1
  | updateProv p =>
    unfold Auth.step
    simp only [tick]
    split
    · exact h1
    generalize (if Variant.fixed.fixPolName = true then (s.cache.provName p.id).getD p.name else p.name) = nm
    cases Auth.provPolicyCheck s.cache.A nm p with
    | some o => exact h1
    | none =>
    simp only
    split
    · exact h1
    cases hup : s.cache.P.update p with
    | mk P' e =>
      cases e with
      | some e => cases e <;> exact h1
      | none =>
        simp only
        by_cases hb : 0 + 1 ∈ f
        · simp only [List.contains_eq_mem, hb, decide_true, if_true]
          rw [(afterFailUndo_frame _ f
            { cache := { P := P', A := s.cache.A }, db := s.db, engine := s.engine, calls := 0 + 1 } .storeFailed _).1]
          exact h1
        · simp only [List.contains_eq_mem, hb, decide_false, Bool.false_eq_true, if_false]
          split
          · cases buildCache.goA P' {} s.cache.A.reindexList <;> exact h1
          split
          · rw [(afterFail_frame f
              { cache := { P := P', A := s.cache.A },
                db := { provs := s.db.provs.map (fun q => if q.id = p.id then p else q), adms := s.db.adms, policy := s.db.policy, used := s.db.used },
                engine := s.engine, calls := 0 + 1 } .ok).1]
            exact h1
          · exact h1
  | removeProv id =>
    unfold Auth.step
    simp only
    cases hg : s.cache.P.byID.get id with
    | none => exact h1
    | some p =>
      simp only
      split
      · exact h1
      have hl := removeAdmins_super U hU Variant.fixed f (((s.cache.A.byProv.get p.name).getD []).map (·.id))
        { s with calls := 0 } E hE h1
      generalize Auth.removeAdmins Variant.fixed f { s with calls := 0 } (((s.cache.A.byProv.get p.name).getD []).map (·.id)) = r at *
      split
      · exact hl
      cases hrem : r.1.cache.P.remove p.id with
      | mk P' e =>
        cases e with
        | some e => exact hl
        | none =>
          simp only [tick]
          by_cases hb : r.1.calls + 1 ∈ f
          · simp only [List.contains_eq_mem, hb, decide_true, if_true]
            rw [(afterFailUndo_frame _ f
              { cache := { P := P', A := r.1.cache.A }, db := r.1.db, engine := r.1.engine, calls := r.1.calls + 1 } .storeFailed _).1]
            exact hl
          · simp only [List.contains_eq_mem, hb, decide_false, Bool.false_eq_true, if_false]
            exact hl
  | createPolicy cur p =>
    unfold Auth.step
    rw [policyWrite_adms]; exact h1
  | updatePolicy cur p =>
    unfold Auth.step
    rw [policyWrite_adms]; exact h1
  | removePolicy =>
    unfold Auth.step
    simp only [tick]
    by_cases hb : 0 + 1 ∈ f
    · simp only [List.contains_eq_mem, hb, decide_true, if_true]; exact h1
    simp only [List.contains_eq_mem, hb, decide_false, Bool.false_eq_true, if_false]
    cases s.db.policy with
    | none => exact h1
    | some q => simp only; rw [reloadPolicy_db]; exact h1
  | restart =>
    unfold Auth.step
    simp only
    have := reload_frame f { s with calls := 0 }
    cases hb : reload f { s with calls := 0 } with
    | mk s' b =>
      rw [hb] at this
      cases b <;> simp only <;> rw [this.1] <;> exact h1

/-! ## `RemoveProvisioner`: its own guard, and that it runs to completion -/

theorem nsuper_filter_all {l : List Adm} (q : Adm → Bool) (h : ∀ a ∈ l, a.super = true → q a = true) :
    nsuper (l.filter q) = nsuper l := by
  induction l with
  | nil => rfl
  | cons x r ih =>
    have ihr := ih (fun a ha => h a (List.mem_cons_of_mem _ ha))
    by_cases hq : q x = true
    · rw [List.filter_cons_of_pos hq, nsuper_cons, nsuper_cons, ihr]
    · rw [List.filter_cons_of_neg hq, nsuper_cons, ihr]
      have : x.super = false := by
        cases hs : x.super with
        | false => rfl
        | true => exact absurd (h x List.mem_cons_self hs) hq
      simp [this]

theorem nsuper_pos_of_mem {l : List Adm} {a : Adm} (ha : a ∈ l) (hs : a.super = true) : 1 ≤ nsuper l := by
  induction l with
  | nil => cases ha
  | cons x r ih =>
    rw [nsuper_cons]
    rcases List.mem_cons.mp ha with rfl | ha
    · simp [hs]
    · have := ih ha; omega

/-- **RemoveProvisioner's guard** — when every super administrator in the database belongs to the
    provisioner, `RemoveProvisioner` refuses and changes nothing. -/
theorem removeProv_guard (U : List Prov) (v : Variant) (f : Faults) (s : Auth) (id : Str) (h : FullInv U s)
    (hall : ∀ a ∈ s.db.adms, a.super = true → a.provId = id) :
    (Auth.step v f s (.removeProv id)).2 = .badRequest ∧
    (Auth.step v f s (.removeProv id)).1.db = s.db ∧ (Auth.step v f s (.removeProv id)).1.cache = s.cache := by
  have img := inv_is_image h
  unfold Auth.step
  simp only
  cases hg : s.cache.P.byID.get id with
  | none => exact ⟨rfl, rfl, rfl⟩
  | some p =>
    obtain ⟨hp, hpid⟩ := (img.2.2.2.2.2.1 id p).mp hg
    have hcnt := img.2.2.2.2.2.2.2.1 p hp
    have heq : s.cache.A.superCount = s.cache.A.superBy p.name := by
      rw [hcnt, img.2.2.2.2.2.2.1, nsuper_filter_all]
      intro a ha hs
      simpa [hpid] using hall a ha hs
    simp only [heq, if_true]
    exact ⟨trivial, trivial, trivial⟩

theorem group_get {c : AColl} {E : List Ent} (g : GRep c E) {n : Str} {a : Adm} (h : (n, a) ∈ E) :
    ∃ l, c.byProv.get n = some l ∧ a ∈ l := by
  have := (g.grp n a).mpr h
  unfold group at this
  cases hg : c.byProv.get n with
  | none => simp [hg] at this
  | some l => exact ⟨l, rfl, by simpa [hg] using this⟩

/-- the administrator collection accepts the removal of a listed administrator that is not the
    last super administrator -/
theorem cache_remove_succeeds {s : Cache} {E : List Ent} (hp : PInv s.P) (hi : AInv s.A) (g : GRep s.A E)
    (hl : Linked s.P E) {n : Str} {adm : Adm} (hE : (n, adm) ∈ E)
    (hlast : ¬(adm.super = true ∧ s.A.superCount = 1)) :
    ∃ A', s.A.remove s.provName adm.id = .val (A', none) := by
  have hmem := g.mem_listed hE
  have hget : s.A.byID.get adm.id = some adm := hi.idx.get_some.mpr ⟨hmem, rfl⟩
  have hname : s.provName adm.provId = some n := hl.name hp hE
  obtain ⟨l, hgl, hal⟩ := group_get g hE
  obtain ⟨_, hdw⟩ := remove_sorted (key := fun (a : Adm) => a.id) hi.sorted hmem
  unfold AColl.remove
  simp only [hget, hname, hgl]
  rw [if_neg hlast]
  rw [hdw]
  simp only [ne_eq, not_true_eq_false, if_false]
  have hany : l.any (fun x => decide (x.id = adm.id)) = true := List.any_eq_true.mpr ⟨adm, hal, by simp⟩
  simp only [hany, not_true_eq_false, if_false]
  exact ⟨_, rfl⟩

theorem two_supers {l : List Adm} (nd : (l.map (·.id)).Nodup) {a b : Adm} (ha : a ∈ l) (hb : b ∈ l)
    (hne : a.id ≠ b.id) (sa : a.super = true) (sb : b.super = true) : 2 ≤ nsuper l := by
  have h1 := nsuper_remove nd ha
  have hbf : b ∈ l.filter (fun e => decide (e.id ≠ a.id)) := by
    rw [List.mem_filter]; exact ⟨hb, by simpa using (fun h => hne h.symm)⟩
  have h2 := nsuper_pos_of_mem hbf sb
  simp only [sa, if_true] at h1
  omega

theorem removeAdmin1_ok (U : List Prov) (v : Variant) (f : Faults) (s : Auth) (E : List Ent) (h : Agrees U s.cache s.db E)
    (hf : s.calls + 1 ∉ f) {n : Str} {adm : Adm} (hE : (n, adm) ∈ E)
    (hlast : ¬(adm.super = true ∧ s.cache.A.superCount = 1)) : (Auth.removeAdmin1 v f s adm.id).2 = .ok := by
  obtain ⟨A', hr⟩ := cache_remove_succeeds h.pinv h.ast.ainv h.ast.grep h.ast.linked hE hlast
  unfold Auth.removeAdmin1
  simp only [hr, tick, List.contains_eq_mem, hf, decide_false, Bool.false_eq_true, if_false]

theorem removeAdmins_ok (U : List Prov) (hU : SumsOK U) (v : Variant) : ∀ (ids : List Str) (s : Auth) (E : List Ent),
    Agrees U s.cache s.db E → ids.Nodup → (∀ id ∈ ids, ∃ n adm, (n, adm) ∈ E ∧ adm.id = id) →
    (∃ m a0, (m, a0) ∈ E ∧ a0.super = true ∧ a0.id ∉ ids) → (Auth.removeAdmins v [] s ids).2 = .ok
  | [], s, _, _, _, _, _ => by unfold Auth.removeAdmins; rfl
  | id :: r, s, E, h, hnd, hids, ⟨m, a0, ha0, hs0, hnot⟩ => by
    obtain ⟨n, adm, hE, hid⟩ := hids id List.mem_cons_self
    have hne : adm.id ≠ a0.id := by
      intro e; rw [hid] at e; exact hnot (by rw [← e]; exact List.mem_cons_self)
    have hlast : ¬(adm.super = true ∧ s.cache.A.superCount = 1) := by
      rintro ⟨hs, hc⟩
      have h2 := two_supers h.ast.ainv.nodup_id (h.ast.grep.mem_listed hE) (h.ast.grep.mem_listed ha0) hne hs hs0
      have := h.ast.cinv
      unfold CInv supers at this
      omega
    have hok := removeAdmin1_ok U v [] s E h (by simp) hE hlast
    rw [hid] at hok
    unfold Auth.removeAdmins
    simp only
    rw [if_pos hok]
    have hag := ((removeAdmin1_spec U hU v [] s id E h).1 hok).1
    rw [List.nodup_cons] at hnd
    apply removeAdmins_ok U hU v r _ _ hag hnd.2
    · intro id' hid'
      obtain ⟨n', adm', hE', hid2⟩ := hids id' (List.mem_cons_of_mem _ hid')
      refine ⟨n', adm', ?_, hid2⟩
      rw [List.mem_filter]
      refine ⟨hE', ?_⟩
      have : adm'.id ≠ id := by rw [hid2]; intro e; rw [e] at hid'; exact hnd.1 hid'
      simpa using this
    · refine ⟨m, a0, ?_, hs0, fun hin => hnot (List.mem_cons_of_mem _ hin)⟩
      rw [List.mem_filter]
      refine ⟨ha0, ?_⟩
      have : a0.id ≠ id := fun e => hnot (by rw [e]; exact List.mem_cons_self)
      simpa using this

/-- **remove_provisioner_exact (completion)** — without storage failures, `RemoveProvisioner` of a
    registered provisioner that does not hold every super administrator runs to the end: it
    succeeds, deletes exactly the administrators of that provisioner and the provisioner itself from
    the database, touches nothing else, and the caches follow (`removeProv_spec`). -/
theorem removeProv_complete (U : List Prov) (hU : SumsOK U) (v : Variant) (s : Auth) (id : Str) (h : FullInv U s)
    (hreg : ∃ p ∈ s.db.provs, p.id = id)
    (hsuper : ∃ a ∈ s.db.adms, a.super = true ∧ a.provId ≠ id) :
    (Auth.step v [] s (.removeProv id)).2 = .ok ∧
    (∀ a, a ∈ (Auth.step v [] s (.removeProv id)).1.db.adms ↔ a ∈ s.db.adms ∧ a.provId ≠ id) ∧
    (∀ q, q ∈ (Auth.step v [] s (.removeProv id)).1.db.provs ↔ q ∈ s.db.provs ∧ q.id ≠ id) ∧
    (Auth.step v [] s (.removeProv id)).1.db.policy = s.db.policy ∧
    AuthInv U (Auth.step v [] s (.removeProv id)).1 := by
  obtain ⟨E, hE⟩ := h.1
  have spec := removeProv_spec U hU v [] s id E hE
  suffices hok : (Auth.step v [] s (.removeProv id)).2 = .ok by
    obtain ⟨_, h1, h2, h3⟩ := spec.2 hok
    exact ⟨hok, h1, h2, h3, spec.1 (by rw [hok]; simp)⟩
  have img := inv_is_image h
  obtain ⟨p, hp, hpid⟩ := hreg
  obtain ⟨a0, ha0, hs0, hne0⟩ := hsuper
  have hpl : p ∈ s.cache.P.provs := (hE.agreeP p).mpr hp
  have hg : s.cache.P.byID.get id = some p := (img.2.2.2.2.2.1 id p).mpr ⟨hp, hpid⟩
  have ha0l : a0 ∈ s.cache.A.sorted := (hE.agreeA a0).mpr ha0
  obtain ⟨m0, hm0⟩ := (hE.ast.grep.listed a0).mp ha0l
  -- the guard passes: a super administrator outside the provisioner is counted in superCount only
  have hguard : s.cache.A.superCount ≠ s.cache.A.superBy p.name := by
    rw [img.2.2.2.2.2.2.2.1 p hp, img.2.2.2.2.2.2.1]
    have hrem := nsuper_remove hE.dbA ha0
    have hsub : nsuper (s.db.adms.filter (fun a => decide (a.provId = p.id))) ≤
        nsuper (s.db.adms.filter (fun e => decide (e.id ≠ a0.id))) := by
      apply nsuper_le_of_subset
      · exact List.Nodup.sublist (List.Sublist.map _ List.filter_sublist) hE.dbA
      · exact List.Nodup.sublist (List.Sublist.map _ List.filter_sublist) hE.dbA
      · intro x hx
        rw [List.mem_filter] at hx ⊢
        refine ⟨hx.1, ?_⟩
        have hxp : x.provId = p.id := by simpa using hx.2
        have : x.id ≠ a0.id := by
          intro e
          have := inj_of_nodup_map _ hE.dbA hx.1 ha0 e
          rw [this, hpid] at hxp; exact hne0 hxp
        simpa using this
    simp only [hs0, if_true] at hrem
    omega
  have hids : ∀ i ∈ ((s.cache.A.byProv.get p.name).getD []).map (·.id), ∃ n adm, (n, adm) ∈ E ∧ adm.id = i := by
    intro i hi
    obtain ⟨x, hx, rfl⟩ := List.mem_map.mp hi
    exact ⟨p.name, x, (hE.ast.grep.grp p.name x).mp hx, rfl⟩
  have hloop := removeAdmins_ok U hU v (((s.cache.A.byProv.get p.name).getD []).map (·.id)) { s with calls := 0 } E hE
    (hE.ast.grep.gnd p.name) hids
    ⟨m0, a0, hm0, hs0, by
      intro hin
      have := (group_is_provisioner hE hpl ha0l).mp (by simpa [group] using hin)
      rw [hpid] at this; exact hne0 this⟩
  -- with the loop done, nothing else can refuse
  have hag := (removeAdmins_spec U hU v [] (((s.cache.A.byProv.get p.name).getD []).map (·.id))
    { s with calls := 0 } E hE).1 hloop
  unfold Auth.step
  simp only [hg]
  rw [if_neg hguard, if_neg (by simpa using hloop)]
  generalize Auth.removeAdmins v [] { s with calls := 0 } (((s.cache.A.byProv.get p.name).getD []).map (·.id)) = r at *
  have hrs := PColl.remove_succeeds hag.1.pinv (p := p) (by rw [hag.2.1]; exact hpl)
  cases hrem : r.1.cache.P.remove p.id with
  | mk P' e =>
    rw [hrem] at hrs
    simp only at hrs
    subst hrs
    simp [tick]

/-! ## (5) policies: an accepted policy locks no administrator out -/

theorem polCheck_ok {p : Pol} {subjects : List Str} (h : Auth.polOut (polCheck p subjects) = none) :
    p.kind = .noX509 ∨ (p.kind = .engine ∧ ∀ sub ∈ subjects, verdictOf p sub = .allowed) := by
  unfold polCheck at h
  cases hk : p.kind with
  | noX509 => exact .inl rfl
  | badConfig => simp [hk, Auth.polOut] at h
  | engine =>
    right
    refine ⟨rfl, ?_⟩
    simp only [hk] at h
    cases hc : checkPolicy (verdictOf p) subjects with
    | ok => exact (policy_no_lockout _ _).mp hc
    | lockOut => simp [hc, Auth.polOut] at h
    | evalFailure => simp [hc, Auth.polOut] at h

theorem policyWrite_ok (v : Variant) (f : Faults) (s : Auth) (cur : Str) (p : Pol) (create : Bool)
    (h : (Auth.policyWrite v f s cur p create).2 = .ok) :
    Auth.polOut (polCheck p (cur :: s.db.adms.map (·.sub))) = none ∧
    (Auth.policyWrite v f s cur p create).1.db.policy = some p ∧
    (Auth.policyWrite v f s cur p create).1.engine = some p := by
  unfold Auth.policyWrite at h ⊢
  simp only [tick] at h ⊢
  by_cases hb : s.calls + 1 ∈ f
  · simp [hb] at h
  simp only [List.contains_eq_mem, hb, decide_false, Bool.false_eq_true, if_false] at h ⊢
  cases hpc : Auth.polOut (polCheck p (cur :: s.db.adms.map (·.sub))) with
  | some o =>
    exfalso
    simp only [hpc] at h
    unfold Auth.polOut at hpc
    cases hq : polCheck p (cur :: s.db.adms.map (·.sub)) <;> rw [hq] at hpc <;> simp at hpc <;> subst hpc <;> simp at h
  | none =>
    simp only [hpc] at h ⊢
    by_cases hb2 : s.calls + 1 + 1 ∈ f
    · simp [hb2] at h
    simp only [hb2, decide_false, Bool.false_eq_true, if_false] at h ⊢
    by_cases h1' : (create && s.db.policy.isSome) = true
    · simp [h1'] at h
    have h1 : (create && s.db.policy.isSome) = false := Bool.eq_false_iff.mpr h1'
    simp only [h1, Bool.false_eq_true, if_false] at h ⊢
    by_cases h2' : (!create && s.db.policy.isNone) = true
    · simp [h2'] at h
    have h2 : (!create && s.db.policy.isNone) = false := Bool.eq_false_iff.mpr h2'
    simp only [h2, Bool.false_eq_true, if_false] at h ⊢
    unfold Auth.reloadPolicy at h ⊢
    simp only [tick] at h ⊢
    by_cases hb3 : s.calls + 1 + 1 + 1 ∈ f
    · simp [hb3] at h
    · simp [hb3]

/-- **policy_no_lockout (authority operations)** — when `CreateAuthorityPolicy` or
    `UpdateAuthorityPolicy` is accepted, the policy is stored and enforced, and (unless it has no
    X.509 part at all) its engine allows the subject of the requesting administrator and of
    *every administrator in the database*. -/
theorem policy_op_no_lockout (v : Variant) (f : Faults) (s : Auth) (cur : Str) (p : Pol) (op : AOp)
    (hop : op = .createPolicy cur p ∨ op = .updatePolicy cur p) (h : (Auth.step v f s op).2 = .ok) :
    (Auth.step v f s op).1.db.policy = some p ∧ (Auth.step v f s op).1.engine = some p ∧
    (p.kind = .noX509 ∨ (p.kind = .engine ∧ verdictOf p cur = .allowed ∧
        ∀ a ∈ (Auth.step v f s op).1.db.adms, verdictOf p a.sub = .allowed)) := by
  rcases hop with rfl | rfl
  all_goals
    unfold Auth.step at h ⊢
    simp only at h ⊢
    obtain ⟨hc, hp, he⟩ := policyWrite_ok v f _ cur p _ h
    refine ⟨hp, he, ?_⟩
    rcases polCheck_ok hc with hk | ⟨hk, hall⟩
    · exact .inl hk
    · right
      refine ⟨hk, hall cur List.mem_cons_self, ?_⟩
      rw [policyWrite_adms]
      intro a ha
      exact hall a.sub (List.mem_cons_of_mem _ (List.mem_map.mpr ⟨a, ha, rfl⟩))

/-- the provisioner-policy check: an accepted policy allows every administrator registered under
    the name the check was given -/
theorem prov_policy_checked (A : AColl) (nm : Str) (p : Prov) (pol : Pol) (hp : p.pol = some pol)
    (h : Auth.provPolicyCheck A nm p = none) :
    pol.kind = .noX509 ∨ (pol.kind = .engine ∧ ∀ a ∈ group A nm, verdictOf pol a.sub = .allowed) := by
  unfold Auth.provPolicyCheck at h
  simp only [hp] at h
  rcases polCheck_ok h with hk | ⟨hk, hall⟩
  · exact .inl hk
  · exact .inr ⟨hk, fun a ha => hall a.sub (List.mem_map.mpr ⟨a, ha, rfl⟩)⟩

/-- **provisioner policy (any update, rename included)** — for a consistent CA, an
    `UpdateProvisioner` of the repaired code that gets past the policy check carries a policy that
    allows every administrator of that provisioner in the database, whatever name the update
    gives the provisioner: the check reads the administrators under the name the provisioner has
    *now*. -/
theorem prov_policy_no_lockout {U : List Prov} {s : Auth} (h : FullInv U s) (p : Prov) (pol : Pol)
    (hp : p.pol = some pol) (hreg : ∃ q ∈ s.db.provs, q.id = p.id) (hk : pol.kind = .engine)
    (hout : (Auth.step Variant.fixed [] s (.updateProv p)).2 = .ok) :
    ∀ a ∈ s.db.adms, a.provId = p.id → verdictOf pol a.sub = .allowed := by
  obtain ⟨E, hE⟩ := h.1
  obtain ⟨q, hq, hqid⟩ := hreg
  have hql := (hE.agreeP q).mpr hq
  have hname : s.cache.provName p.id = some q.name := hE.pinv.provName.mpr ⟨q, hql, hqid, rfl⟩
  have hconv : p.conv = true := by
    cases hcv : p.conv with
    | true => rfl
    | false => unfold Auth.step at hout; simp [Variant.fixed, hcv] at hout
  have hc : Auth.provPolicyCheck s.cache.A q.name p = none := by
    unfold Auth.step at hout
    simp only [tick, Variant.fixed, if_true, hname, Option.getD_some, hconv, Bool.true_eq_false, and_false,
      if_false] at hout
    cases hpc : Auth.provPolicyCheck s.cache.A q.name p with
    | none => rfl
    | some o =>
      simp only [hpc] at hout
      have := provPolicyCheck_out hpc
      unfold Auth.provPolicyCheck at hpc
      simp only [hp] at hpc
      unfold Auth.polOut at hpc
      cases hq2 : polCheck pol (((s.cache.A.byProv.get q.name).getD []).map (·.sub)) <;> rw [hq2] at hpc <;>
        simp at hpc <;> subst hpc <;> simp at hout
  rcases prov_policy_checked s.cache.A q.name p pol hp hc with h0 | ⟨_, hall⟩
  · rw [hk] at h0; cases h0
  intro a ha hid
  have hal := (hE.agreeA a).mpr ha
  have := (group_is_provisioner hE hql hal).mpr (by rw [hid, hqid])
  simp only [List.contains_eq_mem, List.mem_map, decide_eq_true_eq] at this
  obtain ⟨x, hx, hxid⟩ := this
  have hxl := hE.ast.grep.mem_listed ((hE.ast.grep.grp q.name x).mp hx)
  have hxa : x = a := hE.ast.ainv.sorted.inj hxl hal hxid
  rw [← hxa]
  exact hall x hx

/-! ## what had turned out false (F1–F3, repaired since) and what remains (two failures) -/

namespace Witness
/-- a policy whose engine does not allow the name `step` -/
def polNoStep : Pol := { tag := s "no-step", kind := .engine, verdicts := [(s "step", .notAllowed)] }
/-- the provisioner of `db0`, renamed to `n2` and given that policy in the same update -/
def p0pol (name : String) : Prov := { p0 with name := s name, tok := s "t2", pol := some polNoStep }
end Witness
open Witness

example : FullInv [p0, p0'] (booted .fixed) := by
  refine boot_inv [p0, p0'] ⟨?_, ?_⟩ db0 ⟨⟨by decide, by decide, by decide, by simp [db0]⟩, by decide, by decide, by
    simp [db0, p0]⟩ (by decide)
  · intro p hp
    simp only [List.mem_cons, List.not_mem_nil, or_false] at hp
    rcases hp with rfl | rfl <;> exact ⟨by decide, by decide⟩
  · intro p hp q hq
    simp only [List.mem_cons, List.not_mem_nil, or_false] at hp hq
    rcases hp with rfl | rfl <;> rcases hq with rfl | rfl <;> decide

/-- **F1 before `fix:` 2b0b009 (historic)** — the reload added by 2140646 was two database reads
    after the write had succeeded; one failing read left the provisioner renamed in database and
    provisioner cache while the administrator cache still used the old name. -/
example :
    let r := Auth.step Variant.renameFixed [2] (booted .renameFixed) (.updateProv p0')
    r.2 = .reloadFailed ∧ r.1.db.provs = [p0'] ∧ r.1.cache.P.byName.get (s "n2") = some p0' ∧
    r.1.cache.A.bySubProv.get (s "step", s "n2") = none ∧ r.1.db.adms = db0.adms := by decide

/-- … and /repo as it stands on the same request: the rename succeeds without any read, the
    failure position is never reached, the administrator is found under the new name -/
theorem rename_reindex_current :
    let r := Auth.step current [2] (booted current) (.updateProv p0')
    r.2 = .ok ∧ r.1.db.provs = [p0'] ∧ r.1.cache.A.bySubProv.get (s "step", s "n2") ≠ none ∧
    (Auth.step current [1] (booted current) (.updateProv p0')).2 = .storeFailed ∧
    (Auth.step current [1] (booted current) (.updateProv p0')).1.db.provs = [p0] := by decide

/-- **F2 before `fix:` 6f70a0d (historic)** — `reloadPolicyEngines` re-read the policy it had just
    stored; when that read failed the new policy was in the database and the old one enforced. -/
example :
    let r := Auth.step Variant.renameFixed [3] (booted .renameFixed) (.createPolicy (s "root") { tag := s "p", kind := .noX509 })
    r.2 = .reloadFailed ∧ r.1.db.policy ≠ none ∧ r.1.engine = none := by decide

/-- … and /repo as it stands: the failure is still reported, but the engine is the stored policy -/
theorem policy_enforced_current :
    let r := Auth.step current [3] (booted current) (.createPolicy (s "root") { tag := s "p", kind := .noX509 })
    r.2 = .reloadFailed ∧ r.1.db.policy ≠ none ∧ r.1.engine = r.1.db.policy := by decide

/-- **two failures (what remains)** — the write fails and so does the reload: the cache keeps the
    change that the database never received. This is the only way left to make the two disagree
    (`cache_eq_store_unless_two_faults`). -/
theorem double_failure_diverges :
    let s1 := (Auth.step Variant.fixed [] (booted .fixed)
        (.storeAdmin { id := s "a1", sub := s "s1", provId := s "p0", super := true } (s "p0") (s "n0"))).1
    let r := Auth.step Variant.fixed [1, 2] s1 (.updateAdmin (s "a0") false)
    r.2 = .reloadFailed ∧ nsuper r.1.cache.A.sorted = 1 ∧ nsuper r.1.db.adms = 2 := by decide

/-- **F3 before `fix:` 67d968e (historic)** — `checkProvisionerPolicy` looked the administrators
    up under the *new* name: rename + excluding policy accepted, same policy without rename refused. -/
example :
    (Auth.step Variant.renameFixed [] (booted .renameFixed) (.updateProv (p0pol "n0"))).2 = .lockOut ∧
    (Auth.step Variant.renameFixed [] (booted .renameFixed) (.updateProv (p0pol "n2"))).2 = .ok ∧
    (Auth.step Variant.renameFixed [] (booted .renameFixed) (.updateProv (p0pol "n2"))).1.db.provs = [p0pol "n2"] := by
  decide

/-- … and /repo as it stands: refused with or without the rename (`prov_policy_no_lockout`) -/
theorem prov_policy_rename_current :
    (Auth.step current [] (booted current) (.updateProv (p0pol "n0"))).2 = .lockOut ∧
    (Auth.step current [] (booted current) (.updateProv (p0pol "n2"))).2 = .lockOut ∧
    (Auth.step current [] (booted current) (.updateProv (p0pol "n2"))).1.db.provs = [p0] := by decide

/-! ## the slice aliasing in `RemoveProvisioner`'s loop -/

theorem firstIdx_some_of_mem {id : Str} : ∀ {l : List Adm}, (∃ a ∈ l, a.id = id) → ∃ i, firstIdx id l = some i
  | [], h => by obtain ⟨a, ha, _⟩ := h; cases ha
  | x :: r, h => by
    unfold firstIdx
    by_cases hx : x.id = id
    · exact ⟨0, by simp [hx]⟩
    · obtain ⟨a, ha, hid⟩ := h
      rcases List.mem_cons.mp ha with rfl | ha
      · exact absurd hid hx
      · obtain ⟨i, hi⟩ := firstIdx_some_of_mem (l := r) ⟨a, ha, hid⟩
        exact ⟨i + 1, by simp [hx, hi]⟩

theorem firstIdx_lt {id : Str} : ∀ {l : List Adm} {i : Nat}, firstIdx id l = some i → i < l.length
  | [], _, h => by simp [firstIdx] at h
  | x :: r, i, h => by
    unfold firstIdx at h
    by_cases hx : x.id = id
    · simp [hx] at h; subst h; simp
    · simp only [hx, if_false, Option.map_eq_some_iff] at h
      obtain ⟨j, hj, rfl⟩ := h
      have := firstIdx_lt hj
      simp; omega

/-- the first match is at or before any position holding that id -/
theorem firstIdx_le {id : Str} : ∀ {l : List Adm} {i k : Nat} {a : Adm}, firstIdx id l = some i →
    l[k]? = some a → a.id = id → i ≤ k
  | [], _, _, _, h, _, _ => by simp [firstIdx] at h
  | x :: r, i, k, a, h, hk, hid => by
    unfold firstIdx at h
    by_cases hx : x.id = id
    · simp [hx] at h; omega
    · simp only [hx, if_false, Option.map_eq_some_iff] at h
      obtain ⟨j, hj, rfl⟩ := h
      cases k with
      | zero => simp at hk; rw [hk] at hx; exact absurd hid hx
      | succ k' =>
        simp at hk
        have := firstIdx_le hj hk hid
        omega

/-- the in-place write `l[i] = l[len-1]` followed by dropping the last position is the
    swap-with-last removal of the model; the array keeps the old last element beyond the new end -/
theorem set_eq_swapRemove {id : Str} : ∀ {l : List Adm} {i : Nat}, firstIdx id l = some i →
    ∃ z, l.getLast? = some z ∧ l.set i z = swapRemove id l ++ [z]
  | [], _, h => by simp [firstIdx] at h
  | x :: r, i, h => by
    unfold firstIdx at h
    unfold swapRemove
    by_cases hx : x.id = id
    · simp only [hx, if_true, Option.some.injEq] at h
      subst h
      simp only [hx, if_true]
      cases r with
      | nil => exact ⟨x, rfl, by simp⟩
      | cons y r' =>
        obtain ⟨ys, hys⟩ : ∃ ys, (y :: r') = ys ++ [(y :: r').getLast (by simp)] :=
          ⟨(y :: r').dropLast, (List.dropLast_concat_getLast (by simp)).symm⟩
        have hlast : (y :: r').getLast? = some ((y :: r').getLast (by simp)) := List.getLast?_eq_some_getLast (by simp)
        refine ⟨(y :: r').getLast (by simp), by rw [List.getLast?_cons_cons]; exact hlast, ?_⟩
        rw [hlast]
        simp only [List.set_cons_zero, List.cons_append, List.cons.injEq, true_and]
        exact (List.dropLast_concat_getLast (by simp)).symm
    · simp only [hx, if_false, Option.map_eq_some_iff] at h
      obtain ⟨j, hj, rfl⟩ := h
      obtain ⟨z, hz, hset⟩ := set_eq_swapRemove hj
      have hr : r ≠ [] := by intro h0; rw [h0] at hj; simp [firstIdx] at hj
      obtain ⟨y, r', rfl⟩ := List.exists_cons_of_ne_nil hr
      refine ⟨z, by rw [List.getLast?_cons_cons]; exact hz, ?_⟩
      simp only [hx, if_false, List.set_cons_succ, List.cons_append, List.cons.injEq, true_and]
      exact hset

theorem sliceRemove_eq {l tail : List Adm} {id : Str} (h : ∃ a ∈ l, a.id = id) :
    ∃ i z, firstIdx id l = some i ∧ (sliceRemove l tail id).1 = swapRemove id l ∧
      (sliceRemove l tail id).2 = z :: tail ∧
      (sliceRemove l tail id).1 ++ (sliceRemove l tail id).2 = (l ++ tail).set i z := by
  obtain ⟨i, hi⟩ := firstIdx_some_of_mem h
  obtain ⟨z, hz, hset⟩ := set_eq_swapRemove hi
  have h1 : (l.set i z).dropLast = swapRemove id l := by rw [hset]; simp
  refine ⟨i, z, hi, ?_, ?_, ?_⟩
  · unfold sliceRemove; simp only [hi, hz]; exact h1
  · unfold sliceRemove; simp only [hi, hz]
  · unfold sliceRemove; simp only [hi, hz]
    rw [h1, List.set_append_left _ _ (firstIdx_lt hi), hset]
    simp

/-- what holds before iteration `k` of the aliased loop: the array still has its original length,
    positions `k…` still hold the original elements, and the stored slice is the not yet removed rest -/
structure AliasInv (orig : List Adm) (k : Nat) (l tail : List Adm) : Prop where
  len : (l ++ tail).length = orig.length
  same : ∀ j, k ≤ j → (l ++ tail)[j]? = orig[j]?
  mem : ∀ x, x ∈ l ↔ x ∈ orig.drop k
  nd : (l.map (·.id)).Nodup

theorem aliasedLoop_spec (orig : List Adm) (hnd : (orig.map (·.id)).Nodup) : ∀ (fuel k : Nat) (l tail : List Adm),
    AliasInv orig k l tail → orig.length - k ≤ fuel → aliasedLoop fuel k l tail = orig.drop k
  | 0, k, l, tail, _, hf => by
    unfold aliasedLoop
    exact (List.drop_eq_nil_iff.mpr (by omega)).symm
  | fuel + 1, k, l, tail, inv, hf => by
    unfold aliasedLoop
    by_cases hk : k < orig.length
    · have hok : orig[k]? = some orig[k] := List.getElem?_eq_getElem hk
      have hrd : (l ++ tail)[k]? = some orig[k] := by rw [inv.same k (Nat.le_refl k)]; exact hok
      have hdrop : orig.drop k = orig[k] :: orig.drop (k + 1) := List.drop_eq_getElem_cons hk
      have hal : orig[k] ∈ l := (inv.mem _).mpr (by rw [hdrop]; exact List.mem_cons_self)
      obtain ⟨i, z, hi, hl', ht', hset⟩ := sliceRemove_eq (tail := tail) ⟨orig[k], hal, rfl⟩
      have hik : i ≤ k := by
        by_cases hkl : k < l.length
        · have : l[k]? = some orig[k] := by rw [← List.getElem?_append_left hkl (l₂ := tail)]; exact hrd
          exact firstIdx_le hi this rfl
        · have := firstIdx_lt hi; omega
      -- ids below position k+1 of the original list differ from the one just read
      have hndrop : ((orig.drop k).map (·.id)).Nodup :=
        List.Nodup.sublist (List.Sublist.map _ (List.drop_sublist k orig)) hnd
      rw [hdrop] at hndrop
      simp only [List.map_cons, List.nodup_cons, List.mem_map] at hndrop
      have inv' : AliasInv orig (k + 1) (sliceRemove l tail orig[k].id).1 (sliceRemove l tail orig[k].id).2 := by
        refine ⟨?_, ?_, ?_, ?_⟩
        · rw [hset, List.length_set]; exact inv.len
        · intro j hj
          rw [hset, List.getElem?_set_ne (by omega)]
          exact inv.same j (by omega)
        · intro x
          rw [hl', mem_swapRemove inv.nd, inv.mem, hdrop, List.mem_cons]
          constructor
          · rintro ⟨rfl | hx, hne⟩
            · exact absurd rfl hne
            · exact hx
          · intro hx
            exact ⟨.inr hx, fun e => hndrop.1 ⟨x, hx, e⟩⟩
        · rw [hl']; exact nodup_swapRemove inv.nd
      simp only [hrd]
      rw [aliasedLoop_spec orig hnd fuel (k + 1) _ _ inv' (by omega), hdrop]
    · have hnone : (l ++ tail)[k]? = none := by
        rw [inv.same k (Nat.le_refl k)]; exact List.getElem?_eq_none (by omega)
      simp only [hnone]
      exact (List.drop_eq_nil_iff.mpr (by omega)).symm

/-- **the `range` loop of `RemoveProvisioner` visits every administrator exactly once, in the
    order of the slice it started from** — although every `removeAdmin` it calls rewrites one
    position of the very slice being ranged over (swap with the last element) and shortens the
    stored header. Needs only that the ids in the group are distinct (`GRep.gnd`). This justifies
    the snapshot of ids in `Auth.step (.removeProv …)`. -/
theorem aliased_loop_visits_all (l : List Adm) (hnd : (l.map (·.id)).Nodup) :
    aliasedLoop l.length 0 l [] = l := by
  have := aliasedLoop_spec l hnd l.length 0 l [] ⟨by simp, fun j _ => by simp, fun x => by simp, hnd⟩ (by omega)
  simpa using this

/-- each step of the aliased loop leaves as stored slice exactly what the model's `swapRemove`
    computes -/
theorem sliceRemove_is_swapRemove (l tail : List Adm) (a : Adm) (ha : a ∈ l) :
    (sliceRemove l tail a.id).1 = swapRemove a.id l := by
  obtain ⟨_, _, _, h, _, _⟩ := sliceRemove_eq (tail := tail) ⟨a, ha, rfl⟩
  exact h

example : aliasedLoop 3 0 [Witness.a0, Witness.a1, Witness.ordAdm] [] = [Witness.a0, Witness.a1, Witness.ordAdm] := by
  decide

/-! ## paging while administrators are deleted between the pages -/

theorem dropWhile_eq_self_of_head {α : Type} {p : α → Bool} : ∀ {l : List α}, (∀ x, l.head? = some x → p x = false) →
    l.dropWhile p = l
  | [], _ => rfl
  | x :: r, h => by simp [h x rfl]

/-- skipping below a cursor commutes with deleting elements from a sorted list -/
theorem dropWhile_filter_sorted {α : Type} {key : α → Str} (q : α → Bool) (c : Str) : ∀ {l : List α}, Sorted key l →
    (l.filter q).dropWhile (fun e => slt (key e) c) = (l.dropWhile (fun e => slt (key e) c)).filter q
  | [], _ => rfl
  | x :: r, hs => by
    unfold Sorted at hs
    rw [List.pairwise_cons] at hs
    have ih := dropWhile_filter_sorted q c (l := r) hs.2
    by_cases hx : slt (key x) c = true
    · have e1 : (x :: r).dropWhile (fun e => slt (key e) c) = r.dropWhile (fun e => slt (key e) c) := by
        simp [hx]
      rw [e1]
      by_cases hq : q x = true
      · rw [List.filter_cons_of_pos hq]
        have e2 : (x :: r.filter q).dropWhile (fun e => slt (key e) c) = (r.filter q).dropWhile (fun e => slt (key e) c) := by
          simp [hx]
        rw [e2]; exact ih
      · rw [List.filter_cons_of_neg hq]; exact ih
    · have e1 : (x :: r).dropWhile (fun e => slt (key e) c) = x :: r := by
        simp [hx]
      rw [e1]
      apply dropWhile_eq_self_of_head
      intro y hy
      have hyl : y ∈ (x :: r).filter q := List.mem_of_mem_head? hy
      rcases List.mem_cons.mp (List.mem_filter.mp hyl).1 with rfl | hyr
      · simpa using hx
      · cases hyc : slt (key y) c with
        | false => rfl
        | true => exact absurd (slt_trans (hs.1 y hyr) hyc) hx

/-- **paging_exact under interleaved deletion** — a client fetches one page of `k ≥ 1`
    administrators; then any administrator is deleted (possibly one it has already seen, possibly
    the one the cursor names); then it follows the cursor to the end. What it has received is the
    first page *as it was when fetched* followed by everything after it that still exists:
    every surviving administrator exactly once, in order. (Pages are values: nothing that happens
    later may change a page already handed out.) -/
theorem paging_interleaved_remove {α : Type} (key : α → Str) (l : List α) (hs : Sorted key l) (k : Nat) (hk : 1 ≤ k)
    (q : α → Bool) (fuel : Nat) (hf : l.length < fuel) :
    let p1 := findG key id id l [] k
    p1.1 = l.take k ∧
    (if p1.2 = [] then [] else (pagesG key id id (l.filter q) k fuel p1.2).flatten) = (l.drop k).filter q := by
  have h0 : l.dropWhile (fun e => slt (key e) (id [])) = l := by
    apply dropWhile_eq_self_of_head; intro x _; exact slt_nil _
  simp only [findG, h0]
  refine ⟨trivial, ?_⟩
  cases hd : l.drop k with
  | nil => simp
  | cons e rest =>
    have hsplit : l = l.take k ++ e :: rest := by rw [← hd, List.take_append_drop]
    have htake : l.take k ≠ [] := by
      intro h0'
      rcases List.take_eq_nil_iff.mp h0' with h | h
      · omega
      · rw [h] at hd; simp at hd
    obtain ⟨x0, t0, ht0⟩ := List.exists_cons_of_ne_nil htake
    have hlt : slt (key x0) (key e) = true := by
      have hs' := hs
      unfold Sorted at hs'
      rw [hsplit, ht0] at hs'
      exact (List.pairwise_append.mp hs').2.2 x0 (by simp) e (by simp)
    have hne : key e ≠ [] := by
      intro h; rw [h, slt_nil] at hlt; cases hlt
    simp only [id, hne, if_false]
    have hsf : Sorted key (l.filter q) := List.Pairwise.filter _ hs
    have hdw : (l.filter q).dropWhile (fun x => slt (key x) (id (key e))) = (e :: rest).filter q := by
      rw [dropWhile_filter_sorted q _ hs]
      have := dropWhile_sorted (key := key) (l.take k) e rest (by rw [← hsplit]; exact hs)
      rw [← hsplit] at this
      simp only [id, this]
    obtain ⟨pre, hpre⟩ : ∃ pre, l.filter q = pre ++ (e :: rest).filter q :=
      ⟨(l.take k).filter q, by conv => lhs; rw [hsplit, List.filter_append]⟩
    exact pagesG_suffix key id id (l.filter q) k hsf hk (fun _ _ => rfl)
      (by intro a _ b _ hab h; simp only [id] at h; rw [h, slt_nil] at hab; cases hab)
      fuel pre _ (key e) hpre hdw
      (by have := (List.filter_sublist (l := e :: rest) (p := q)).length_le
          have h2 : (e :: rest).length ≤ l.length := by rw [← hd, List.length_drop]; omega
          omega)

/-- the same for the administrator collection: `Remove` of any administrator between two `Find`s -/
theorem admin_paging_interleaved_remove (c c' : AColl) (h : AInv c) (id : Str)
    (hrm : c'.sorted = c.sorted.filter (fun e => decide (e.id ≠ id))) (limit : Int) (fuel : Nat)
    (hf : c.sorted.length < fuel) :
    (c.find [] limit).1 = c.sorted.take (normLimit limit) ∧
    (if (c.find [] limit).2 = [] then []
      else (pagesG (·.id) _root_.id _root_.id c'.sorted (normLimit limit) fuel (c.find [] limit).2).flatten) =
      (c.sorted.drop (normLimit limit)).filter (fun e => decide (e.id ≠ id)) := by
  rw [hrm]
  exact paging_interleaved_remove (fun (a : Adm) => a.id) c.sorted h.sorted (normLimit limit) (normLimit_pos limit) _ fuel hf

/-! ## a refused collection call changes nothing -/

def isRefusal : Out → Bool
  | .perr _ => true
  | .aerr _ => true
  | _ => false

/-- **rejected ⇒ unchanged** — on consistent collections, every `Store` / `Remove` / `Update` that
    returns an error leaves both collections exactly as they were (in particular a refused
    provisioner `Update` cannot drop the provisioner: its pre-checks make the `Remove`+`Store`
    inside it infallible). -/
theorem cstep_rejected_unchanged (v : Variant) (U : List Prov) (hU : SumsOK U) (s : Cache) (op : COp)
    (hop : ∀ p, provOf op = some p → p ∈ U) (hp : PInv s.P) (hsU : ∀ e ∈ s.P.sorted, e.2 ∈ U) (ha : AInv s.A)
    (href : isRefusal (cstep v s op).2 = true) : (cstep v s op).1 = s := by
  cases op with
  | pStore p =>
    have hpU := hop p rfl
    have sp := PColl.store_spec s.P p hp (hU.1 p hpU) (fun e he heq => hU.2 e.2 (hsU e he) p hpU heq)
    simp only [cstep] at href ⊢
    cases hr : (s.P.store p).2 with
    | none => rw [hr] at href; simp [pOut, isRefusal] at href
    | some e => rw [sp.2.1 (by rw [hr]; simp)]
  | pRemove id =>
    have sp := PColl.remove_spec s.P id hp
    simp only [cstep] at href ⊢
    cases hr : (s.P.remove id).2 with
    | none => rw [hr] at href; simp [pOut, isRefusal] at href
    | some e => rw [sp.2.1 (by rw [hr]; simp)]
  | pUpdate p =>
    have hpU := hop p rfl
    have full := PColl.update_full s.P p hp (hU.1 p hpU) (fun e he heq => hU.2 e.2 (hsU e he) p hpU heq)
    simp only [cstep] at href ⊢
    cases hr : (s.P.update p).2 with
    | none => rw [hr] at href; simp [pOut, isRefusal] at href
    | some e => rw [full.1 (by rw [hr]; simp)]
  | aStore a pid pname =>
    have sp := AColl.store_spec s.A a pid pname ha
    simp only at sp
    simp only [cstep] at href ⊢
    cases hr : (s.A.store a pid pname).2 with
    | none => rw [hr] at href; simp [aOut, isRefusal] at href
    | some e => rw [sp.2.1 (by rw [hr]; simp)]
  | aRemove id =>
    obtain ⟨r, hr, _, hsame, _⟩ := AColl.remove_spec s.A s.provName id ha
    simp only [cstep, hr] at href ⊢
    cases hr2 : r.2 with
    | none => rw [hr2] at href; simp [aOut, isRefusal] at href
    | some e => rw [hsame (by rw [hr2]; simp)]
  | aUpdate id t =>
    simp only [cstep] at href ⊢
    cases hr : s.A.update v s.provName id t with
    | crash => rfl
    | val r =>
      obtain ⟨_, hsame, _⟩ := AColl.update_spec v s.A s.provName id t ha r hr
      simp only [hr] at href ⊢
      cases hr2 : r.2 with
      | none => rw [hr2] at href; simp [aOut, isRefusal] at href
      | some e => rw [hsame (by rw [hr2]; simp)]


/-! ## the stored set of used tokens is only ever extended by requests -/

theorem removeAdmin1_used (v : Variant) (f : Faults) (s : Auth) (id : Str) :
    (Auth.removeAdmin1 v f s id).1.db.used = s.db.used := by
  unfold Auth.removeAdmin1
  cases hr : s.cache.A.remove s.cache.provName id with
  | crash => rfl
  | val r =>
    obtain ⟨A', e⟩ := r
    cases e with
    | some e => rfl
    | none =>
      simp only [tick]
      by_cases hb : s.calls + 1 ∈ f
      · simp only [List.contains_eq_mem, hb, decide_true, if_true]
        have := fun u => afterFailUndo_frame v f
          { cache := { P := s.cache.P, A := A' }, db := s.db, engine := s.engine, calls := s.calls + 1 } .storeFailed u
        rw [(this _).1]
      · simp [hb]

theorem removeAdmins_used (v : Variant) (f : Faults) : ∀ (ids : List Str) (s : Auth),
    (Auth.removeAdmins v f s ids).1.db.used = s.db.used
  | [], s => by unfold Auth.removeAdmins; rfl
  | id :: r, s => by
    unfold Auth.removeAdmins
    simp only
    have h1 := removeAdmin1_used v f s id
    split
    · have := removeAdmins_used v f r (Auth.removeAdmin1 v f s id).1
      rw [this, h1]
    · exact h1

/-- administrator and provisioner operations never touch the stored set of used tokens -/
theorem step_used0 (v : Variant) (f : Faults) (s : Auth) (op : AOp) (hop : isPolicyOp op = false) :
    (Auth.step v f s op).1.db.used = s.db.used := by
  cases op with
  | storeAdmin a pid pname =>
    unfold Auth.step
    simp only [tick]
    split
    · rfl
    split
    · rfl
    by_cases hb : 0 + 1 ∈ f
    · simp [hb]
    simp only [List.contains_eq_mem, hb, decide_false, Bool.false_eq_true, if_false]
    by_cases hany' : (s.db.adms.any fun x => decide (x.id = a.id)) = true
    · simp only [hany', if_true]
    have hany : (s.db.adms.any fun x => decide (x.id = a.id)) = false := by simpa using hany'
    simp only [hany, Bool.false_eq_true, if_false]
    cases hst : s.cache.A.store a pid pname with
    | mk A e =>
      cases e with
      | none => rfl
      | some e =>
        have := afterFail_frame f
          { cache := { P := s.cache.P, A := A },
            db := { provs := s.db.provs, adms := insDB (fun x => x.id) a s.db.adms, policy := s.db.policy, used := s.db.used },
            engine := s.engine, calls := 0 + 1 } .cacheFailed
        rw [this.1]
  | updateAdmin id t =>
    unfold Auth.step
    simp only [tick]
    split
    · rfl
    · rfl
    · rename_i A _
      by_cases hb : 0 + 1 ∈ f
      · simp only [List.contains_eq_mem, hb, decide_true, if_true]
        have := fun u => afterFailUndo_frame v f
          { cache := { P := s.cache.P, A := A }, db := s.db, engine := s.engine, calls := 0 + 1 } .storeFailed u
        rw [(this _).1]
      · simp [hb]
  | removeAdmin id =>
    unfold Auth.step
    exact removeAdmin1_used v f { s with calls := 0 } id
  | storeProv p =>
    unfold Auth.step
    simp only [tick]
    split
    · rfl
    split
    · rfl
    split
    · rfl
    split
    · rfl
    split
    · rfl
    by_cases hb : 0 + 1 ∈ f
    · simp [hb]
    simp only [List.contains_eq_mem, hb, decide_false, Bool.false_eq_true, if_false]
    by_cases hany' : (s.db.provs.any fun x => decide (x.id = p.id)) = true
    · simp only [hany', if_true]
    have hany : (s.db.provs.any fun x => decide (x.id = p.id)) = false := by simpa using hany'
    simp only [hany, Bool.false_eq_true, if_false]
    cases hst : s.cache.P.store p with
    | mk P e =>
      cases e with
      | none => rfl
      | some e =>
        have := afterFail_frame f
          { cache := { P := P, A := s.cache.A },
            db := { provs := insDB (fun x => x.id) p s.db.provs, adms := s.db.adms, policy := s.db.policy, used := s.db.used },
            engine := s.engine, calls := 0 + 1 } .cacheFailed
        rw [this.1]
  | updateProv p =>
    unfold Auth.step
    simp only [tick]
    split
    · rfl
    split
    · rfl
    split
    · rfl
    split
    · rfl
    · rfl
    · rename_i P _
      by_cases hb : 0 + 1 ∈ f
      · simp only [List.contains_eq_mem, hb, decide_true, if_true]
        have := fun u => afterFailUndo_frame v f
          { cache := { P := P, A := s.cache.A }, db := s.db, engine := s.engine, calls := 0 + 1 } .storeFailed u
        rw [(this _).1]
      · simp only [List.contains_eq_mem, hb, decide_false, Bool.false_eq_true, if_false]
        split
        · cases buildCache.goA P {} s.cache.A.reindexList <;> rfl
        split
        · have := afterFail_frame f
            { cache := { P := P, A := s.cache.A },
              db := { provs := s.db.provs.map (fun q => if q.id = p.id then p else q), adms := s.db.adms, policy := s.db.policy, used := s.db.used },
              engine := s.engine, calls := 0 + 1 } .ok
          rw [this.1]
        · rfl
  | removeProv id =>
    unfold Auth.step
    simp only [tick]
    split
    · rfl
    split
    · rfl
    rename_i p _ _
    have hl := removeAdmins_used v f (((s.cache.A.byProv.get p.name).getD []).map (·.id)) { s with calls := 0 }
    split
    · exact hl
    generalize Auth.removeAdmins v f { s with calls := 0 } (((s.cache.A.byProv.get p.name).getD []).map (·.id)) = r at *
    split
    · exact hl
    · rename_i P' _
      by_cases hb : r.1.calls + 1 ∈ f
      · simp only [List.contains_eq_mem, hb, decide_true, if_true]
        have := fun u => afterFailUndo_frame v f
          { cache := { P := P', A := r.1.cache.A }, db := r.1.db, engine := r.1.engine, calls := r.1.calls + 1 } .storeFailed u
        rw [(this _).1]; exact hl
      · simp only [List.contains_eq_mem, hb, decide_false, Bool.false_eq_true, if_false]
        exact hl
  | createPolicy cur p => simp [isPolicyOp] at hop
  | updatePolicy cur p => simp [isPolicyOp] at hop
  | removePolicy => simp [isPolicyOp] at hop
  | restart => simp [isPolicyOp] at hop

theorem policyWrite_used (v : Variant) (f : Faults) (s : Auth) (cur : Str) (p : Pol) (create : Bool) :
    (Auth.policyWrite v f s cur p create).1.db.used = s.db.used := by
  unfold Auth.policyWrite
  simp only [tick]
  by_cases hb : s.calls + 1 ∈ f
  · simp [hb]
  simp only [List.contains_eq_mem, hb, decide_false, Bool.false_eq_true, if_false]
  cases Auth.polOut (polCheck p (cur :: s.db.adms.map (·.sub))) with
  | some o => rfl
  | none =>
    simp only
    by_cases hb2 : s.calls + 1 + 1 ∈ f
    · simp [hb2]
    simp only [hb2, decide_false, Bool.false_eq_true, if_false]
    by_cases h1' : (create && s.db.policy.isSome) = true
    · simp [h1']
    have h1 : (create && s.db.policy.isSome) = false := Bool.eq_false_iff.mpr h1'
    simp only [h1, Bool.false_eq_true, if_false]
    by_cases h2' : (!create && s.db.policy.isNone) = true
    · simp [h2']
    have h2 : (!create && s.db.policy.isNone) = false := Bool.eq_false_iff.mpr h2'
    simp only [h2, Bool.false_eq_true, if_false]
    rw [reloadPolicy_db]

/-- no authority operation, restart or storage failure removes a used-token record -/
theorem step_used (v : Variant) (f : Faults) (s : Auth) (op : AOp) :
    (Auth.step v f s op).1.db.used = s.db.used := by
  by_cases hop : isPolicyOp op = false
  · exact step_used0 v f s op hop
  cases op with
  | createPolicy cur p => unfold Auth.step; exact policyWrite_used v f _ cur p true
  | updatePolicy cur p => unfold Auth.step; exact policyWrite_used v f _ cur p false
  | removePolicy =>
    unfold Auth.step
    simp only [tick]
    by_cases hb : 0 + 1 ∈ f
    · simp [hb]
    simp only [List.contains_eq_mem, hb, decide_false, Bool.false_eq_true, if_false]
    cases s.db.policy with
    | none => rfl
    | some q => simp only; rw [reloadPolicy_db]
  | restart =>
    unfold Auth.step
    simp only
    have := reload_frame f { s with calls := 0 }
    cases hb : reload f { s with calls := 0 } with
    | mk s' b =>
      rw [hb] at this
      cases b <;> simp only <;> rw [this.1]
  | storeAdmin a pid pname => simp [isPolicyOp] at hop
  | updateAdmin id t => simp [isPolicyOp] at hop
  | removeAdmin id => simp [isPolicyOp] at hop
  | storeProv p => simp [isPolicyOp] at hop
  | updateProv p => simp [isPolicyOp] at hop
  | removeProv id => simp [isPolicyOp] at hop

theorem authorizeAdmin_used_mono (A : AColl) (used : List Str) (r : AdminReq) (k : Str) (hk : k ∈ used) :
    k ∈ (authorizeAdmin A used r).1 := by
  unfold authorizeAdmin
  repeat' split
  all_goals first | exact hk | (unfold record; split <;> simp [hk])

theorem event_used_mono (v : Variant) (s : Auth) (e : Event) (k : Str) (hk : k ∈ s.db.used) :
    k ∈ (s.event v e).1.db.used := by
  cases e with
  | request r => exact authorizeAdmin_used_mono s.cache.A s.db.used r k hk
  | op o f => simp only [Auth.event]; rw [step_used]; exact hk

theorem events_used_mono (v : Variant) : ∀ (evs : List Event) (s : Auth) (k : Str), k ∈ s.db.used →
    k ∈ (Auth.events v s evs).db.used
  | [], _, _, hk => hk
  | e :: r, s, k, hk => events_used_mono v r _ k (event_used_mono v s e k hk)

/-- **single use, across everything** — once a request carrying a token with reuse key `k` has
    been authorized, no later request with the same key is ever authorized again: not after other
    requests, not after any administrative operations with any storage failures, and not after any
    number of restarts (the record is in the database, not in the process). -/
theorem token_single_use_across_history (v : Variant) (s : Auth) (r : AdminReq) (k : Str) (adm : Adm)
    (hk : r.reuseKey = some k) (hok : (s.request r).2 = .ok adm) (evs : List Event) (r' : AdminReq)
    (hk' : r'.reuseKey = some k) (adm' : Adm) :
    ((Auth.events v (s.request r).1 evs).request r').2 ≠ .ok adm' := by
  have h1 : k ∈ (s.request r).1.db.used := (admin_token_single_use s.cache.A s.db.used r k hk).2 adm hok
  have h2 := events_used_mono v evs _ k h1
  exact (admin_token_single_use _ _ r' k hk').1 h2 adm'

example : (({ cache := { A := tokA } } : Auth).request (patchReq "GET" "ord")).2 = .ok ordAdm ∧
    ((Auth.events current (({ cache := { A := tokA } } : Auth).request (patchReq "GET" "ord")).1
        [.op .restart [], .op (.removeAdmin (s "zz")) [1, 2]]).request (patchReq "GET" "ord")).2 = .unauthorized := by
  decide

/-! ## every route of the admin API is behind the token check -/

/-- **admin_routes_authenticated** (table, re-derived from handler.go on every run) — the first
    middleware of every registered admin-API route is `extractAuthorizeTokenAdmin`, and every route
    has a handler behind it. -/
theorem admin_routes_authenticated :
    ∀ rt ∈ adminRoutes, rt.chain.head? = some authMw ∧ 2 ≤ rt.chain.length := by decide

/-- **route_handler_only_if_authorized** — on every registered route, nothing after the first
    middleware (the other middlewares, the handler) runs unless `AuthorizeAdminToken` authorized
    the request — with everything `admin_token_only_if` says about such a request. -/
theorem route_handler_only_if_authorized (rt : Route) (hrt : rt ∈ adminRoutes) (s : Auth) (r : AdminReq)
    (h : rt.pastAuth (s.request r).2 = true) : ∃ adm, (s.request r).2 = .ok adm := by
  have hd := (admin_routes_authenticated rt hrt).1
  unfold Route.pastAuth at h
  cases hc : rt.chain with
  | nil => rw [hc] at hd; simp at hd
  | cons m rest =>
    rw [hc] at hd h
    simp only [List.head?_cons, Option.some.injEq] at hd
    simp only [hd, if_true] at h
    cases hres : (s.request r).2 with
    | ok adm => exact ⟨adm, rfl⟩
    | unauthorized => rw [hres] at h; cases h
    | provNotFound => rw [hres] at h; cases h

/-- the routes on the two administrator paths: two reads, three writes (POST, PATCH, DELETE) -/
theorem admin_write_routes :
    (adminRoutes.filter (fun rt => (rt.path = "/admins" ∨ rt.path = "/admins/{id}") ∧ rt.method ≠ "GET")).map
      (fun rt => (rt.method, rt.path)) = [("POST", "/admins"), ("PATCH", "/admins/{id}"), ("DELETE", "/admins/{id}")] := by
  decide

/-- no two registrations for the same method and path -/
theorem admin_routes_distinct : (adminRoutes.map (fun rt => (rt.method, rt.path))).Nodup := by decide

/-! ## every stored provisioner can be built again (F4, 17718b3)

`ProvisionerToCertificates` is the first thing `StoreProvisioner` and `UpdateProvisioner` do, and
it is what `ReloadAdminResources` (start-up, and every reload after a failed write) does with each
stored record. A record whose details are not the ones of its type is stored under its type and
reads back without content; building it dereferences nil. The repaired conversion refuses such a
record before anything is written, so the set of stored records stays buildable. -/

/-- every provisioner record in the database can be converted back into a provisioner -/
def Conv (s : Auth) : Prop := ∀ p ∈ s.db.provs, p.conv = true

theorem removeAdmin1_provs (v : Variant) (f : Faults) (s : Auth) (id : Str) :
    (Auth.removeAdmin1 v f s id).1.db.provs = s.db.provs := by
  unfold Auth.removeAdmin1
  cases hr : s.cache.A.remove s.cache.provName id with
  | crash => rfl
  | val r =>
    obtain ⟨A', e⟩ := r
    cases e with
    | some e => rfl
    | none =>
      simp only [tick]
      by_cases hb : s.calls + 1 ∈ f
      · simp only [List.contains_eq_mem, hb, decide_true, if_true]
        have := fun u => afterFailUndo_frame v f
          { cache := { P := s.cache.P, A := A' }, db := s.db, engine := s.engine, calls := s.calls + 1 } .storeFailed u
        rw [(this _).1]
      · simp [hb]

theorem removeAdmins_provs (v : Variant) (f : Faults) : ∀ (ids : List Str) (s : Auth),
    (Auth.removeAdmins v f s ids).1.db.provs = s.db.provs
  | [], s => by unfold Auth.removeAdmins; rfl
  | id :: r, s => by
    unfold Auth.removeAdmins
    simp only
    have h1 := removeAdmin1_provs v f s id
    split
    · have := removeAdmins_provs v f r (Auth.removeAdmin1 v f s id).1
      rw [this, h1]
    · exact h1

theorem policyWrite_provs (v : Variant) (f : Faults) (s : Auth) (cur : Str) (p : Pol) (create : Bool) :
    (Auth.policyWrite v f s cur p create).1.db.provs = s.db.provs := by
  unfold Auth.policyWrite
  simp only [tick]
  by_cases hb : s.calls + 1 ∈ f
  · simp [hb]
  simp only [List.contains_eq_mem, hb, decide_false, Bool.false_eq_true, if_false]
  cases Auth.polOut (polCheck p (cur :: s.db.adms.map (·.sub))) with
  | some o => rfl
  | none =>
    simp only
    by_cases hb2 : s.calls + 1 + 1 ∈ f
    · simp [hb2]
    simp only [hb2, decide_false, Bool.false_eq_true, if_false]
    by_cases h1' : (create && s.db.policy.isSome) = true
    · simp [h1']
    have h1 : (create && s.db.policy.isSome) = false := Bool.eq_false_iff.mpr h1'
    simp only [h1, Bool.false_eq_true, if_false]
    by_cases h2' : (!create && s.db.policy.isNone) = true
    · simp [h2']
    have h2 : (!create && s.db.policy.isNone) = false := Bool.eq_false_iff.mpr h2'
    simp only [h2, Bool.false_eq_true, if_false]
    rw [reloadPolicy_db]

/-- where the stored provisioner records of the next state come from: they were stored before, or
    they are the record of this very `StoreProvisioner` / `UpdateProvisioner` — and then, in the
    repaired code, a record that got past the conversion -/
theorem step_provs_mem (v : Variant) (f : Faults) (s : Auth) (op : AOp) :
    ∀ q ∈ (Auth.step v f s op).1.db.provs,
      q ∈ s.db.provs ∨ ((op = .storeProv q ∨ op = .updateProv q) ∧ (v.fixDetails = true → q.conv = true)) := by
  intro q
  cases op with
  | storeAdmin a pid pname =>
    unfold Auth.step
    simp only [tick]
    split
    · exact fun h => .inl h
    split
    · exact fun h => .inl h
    by_cases hb : 0 + 1 ∈ f
    · simp only [List.contains_eq_mem, hb, decide_true, if_true]; exact fun h => .inl h
    simp only [List.contains_eq_mem, hb, decide_false, Bool.false_eq_true, if_false]
    by_cases hany' : (s.db.adms.any fun x => decide (x.id = a.id)) = true
    · simp only [hany', if_true]; exact fun h => .inl h
    have hany : (s.db.adms.any fun x => decide (x.id = a.id)) = false := by simpa using hany'
    simp only [hany, Bool.false_eq_true, if_false]
    cases hst : s.cache.A.store a pid pname with
    | mk A e =>
      cases e with
      | none => exact fun h => .inl h
      | some e =>
        have := afterFail_frame f
          { cache := { P := s.cache.P, A := A },
            db := { provs := s.db.provs, adms := insDB (fun x => x.id) a s.db.adms, policy := s.db.policy, used := s.db.used },
            engine := s.engine, calls := 0 + 1 } .cacheFailed
        simp only
        rw [this.1]; exact fun h => .inl h
  | updateAdmin id t =>
    unfold Auth.step
    simp only [tick]
    split
    · exact fun h => .inl h
    · exact fun h => .inl h
    · rename_i A _
      by_cases hb : 0 + 1 ∈ f
      · simp only [List.contains_eq_mem, hb, decide_true, if_true]
        have := fun u => afterFailUndo_frame v f
          { cache := { P := s.cache.P, A := A }, db := s.db, engine := s.engine, calls := 0 + 1 } .storeFailed u
        rw [(this _).1]; exact fun h => .inl h
      · simp only [List.contains_eq_mem, hb, decide_false, Bool.false_eq_true, if_false]; exact fun h => .inl h
  | removeAdmin id =>
    unfold Auth.step
    rw [removeAdmin1_provs v f { s with calls := 0 } id]; exact fun h => .inl h
  | storeProv p =>
    unfold Auth.step
    simp only [tick]
    by_cases hg : v.fixDetails = true ∧ p.conv = false
    · rw [if_pos hg]; exact fun h => .inl h
    rw [if_neg hg]
    have hconv : v.fixDetails = true → p.conv = true := by
      intro hv
      cases hc : p.conv with
      | true => rfl
      | false => exact absurd ⟨hv, hc⟩ hg
    split
    · exact fun h => .inl h
    split
    · exact fun h => .inl h
    split
    · exact fun h => .inl h
    split
    · exact fun h => .inl h
    by_cases hb : 0 + 1 ∈ f
    · simp only [List.contains_eq_mem, hb, decide_true, if_true]; exact fun h => .inl h
    simp only [List.contains_eq_mem, hb, decide_false, Bool.false_eq_true, if_false]
    by_cases hany' : (s.db.provs.any fun x => decide (x.id = p.id)) = true
    · simp only [hany', if_true]; exact fun h => .inl h
    have hany : (s.db.provs.any fun x => decide (x.id = p.id)) = false := by simpa using hany'
    simp only [hany, Bool.false_eq_true, if_false]
    have key : q ∈ insDB (fun x => x.id) p s.db.provs →
        q ∈ s.db.provs ∨ ((AOp.storeProv p = .storeProv q ∨ AOp.storeProv p = .updateProv q) ∧ (v.fixDetails = true → q.conv = true)) := by
      intro h
      rcases mem_insertBy.mp h with e | h
      · subst e; exact .inr ⟨.inl rfl, hconv⟩
      · exact .inl h
    cases hst : s.cache.P.store p with
    | mk P e =>
      cases e with
      | none => exact key
      | some e =>
        have := afterFail_frame f
          { cache := { P := P, A := s.cache.A },
            db := { provs := insDB (fun x => x.id) p s.db.provs, adms := s.db.adms, policy := s.db.policy, used := s.db.used },
            engine := s.engine, calls := 0 + 1 } .cacheFailed
        simp only
        rw [this.1]; exact key
  | updateProv p =>
    unfold Auth.step
    simp only [tick]
    by_cases hg : v.fixDetails = true ∧ p.conv = false
    · rw [if_pos hg]; exact fun h => .inl h
    rw [if_neg hg]
    have hconv : v.fixDetails = true → p.conv = true := by
      intro hv
      cases hc : p.conv with
      | true => rfl
      | false => exact absurd ⟨hv, hc⟩ hg
    have key : q ∈ s.db.provs.map (fun x => if x.id = p.id then p else x) →
        q ∈ s.db.provs ∨ ((AOp.updateProv p = .storeProv q ∨ AOp.updateProv p = .updateProv q) ∧ (v.fixDetails = true → q.conv = true)) := by
      intro h
      obtain ⟨x, hx, e⟩ := List.mem_map.mp h
      by_cases hid : x.id = p.id
      · rw [if_pos hid] at e; subst e; exact .inr ⟨.inr rfl, hconv⟩
      · rw [if_neg hid] at e; subst e; exact .inl hx
    split
    · exact fun h => .inl h
    split
    · exact fun h => .inl h
    split
    · exact fun h => .inl h
    · exact fun h => .inl h
    · rename_i P _
      by_cases hb : 0 + 1 ∈ f
      · simp only [List.contains_eq_mem, hb, decide_true, if_true]
        have := fun u => afterFailUndo_frame v f
          { cache := { P := P, A := s.cache.A }, db := s.db, engine := s.engine, calls := 0 + 1 } .storeFailed u
        rw [(this _).1]; exact fun h => .inl h
      · simp only [List.contains_eq_mem, hb, decide_false, Bool.false_eq_true, if_false]
        split
        · cases buildCache.goA P {} s.cache.A.reindexList <;> exact key
        split
        · have := afterFail_frame f
            { cache := { P := P, A := s.cache.A },
              db := { provs := s.db.provs.map (fun q => if q.id = p.id then p else q), adms := s.db.adms, policy := s.db.policy, used := s.db.used },
              engine := s.engine, calls := 0 + 1 } .ok
          rw [this.1]; exact key
        · exact key
  | removeProv id =>
    unfold Auth.step
    simp only [tick]
    split
    · exact fun h => .inl h
    split
    · exact fun h => .inl h
    rename_i p _ _
    have hl := removeAdmins_provs v f (((s.cache.A.byProv.get p.name).getD []).map (·.id)) { s with calls := 0 }
    split
    · rw [hl]; exact fun h => .inl h
    generalize Auth.removeAdmins v f { s with calls := 0 } (((s.cache.A.byProv.get p.name).getD []).map (·.id)) = r at *
    split
    · rw [hl]; exact fun h => .inl h
    · rename_i P' _
      by_cases hb : r.1.calls + 1 ∈ f
      · simp only [List.contains_eq_mem, hb, decide_true, if_true]
        have := fun u => afterFailUndo_frame v f
          { cache := { P := P', A := r.1.cache.A }, db := r.1.db, engine := r.1.engine, calls := r.1.calls + 1 } .storeFailed u
        rw [(this _).1, hl]; exact fun h => .inl h
      · simp only [List.contains_eq_mem, hb, decide_false, Bool.false_eq_true, if_false]
        rw [hl]
        exact fun h => .inl (List.mem_filter.mp h).1
  | createPolicy cur p => unfold Auth.step; rw [policyWrite_provs]; exact fun h => .inl h
  | updatePolicy cur p => unfold Auth.step; rw [policyWrite_provs]; exact fun h => .inl h
  | removePolicy =>
    unfold Auth.step
    simp only [tick]
    by_cases hb : 0 + 1 ∈ f
    · simp only [List.contains_eq_mem, hb, decide_true, if_true]; exact fun h => .inl h
    simp only [List.contains_eq_mem, hb, decide_false, Bool.false_eq_true, if_false]
    cases s.db.policy with
    | none => exact fun h => .inl h
    | some q0 => simp only; rw [reloadPolicy_db]; exact fun h => .inl h
  | restart =>
    unfold Auth.step
    simp only
    have := reload_frame f { s with calls := 0 }
    cases hb : reload f { s with calls := 0 } with
    | mk s' b =>
      rw [hb] at this
      cases b <;> simp only <;> rw [this.1] <;> exact fun h => .inl h

/-- **stored records stay buildable (full strength)** — in the repaired code, whatever the
    operation, its arguments and the storage failures during it, every provisioner record in the
    database afterwards can be converted back into a provisioner: a reload or a restart never
    meets a record it cannot build. No hypothesis on the state other than that the records it
    already holds are buildable. -/
theorem stored_records_buildable (v : Variant) (hv : v.fixDetails = true) (f : Faults) (s : Auth) (op : AOp)
    (h : Conv s) : Conv (Auth.step v f s op).1 := by
  intro q hq
  rcases step_provs_mem v f s op q hq with h0 | ⟨_, hc⟩
  · exact h q h0
  · exact hc hv

theorem run_buildable (v : Variant) (hv : v.fixDetails = true) :
    ∀ (ops : List (AOp × Faults)) (s : Auth), Conv s → Conv (Auth.run v s ops)
  | [], _, h => h
  | (o, f) :: r, s, h => by
    unfold Auth.run
    exact run_buildable v hv r _ (stored_records_buildable v hv f s o h)

/-- a record with details of another type is refused and nothing changes (create and update):
    caches, database and engine are the ones before (`calls` is the per-request call counter) -/
theorem mismatched_details_refused (v : Variant) (hv : v.fixDetails = true) (f : Faults) (s : Auth) (p : Prov)
    (hp : p.conv = false) :
    Auth.step v f s (.storeProv p) = ({ s with calls := 0 }, .internalFailure) ∧
    Auth.step v f s (.updateProv p) = ({ s with calls := 0 }, .internalFailure) := by
  constructor <;> (unfold Auth.step; simp only [hv, hp, and_self, if_true])

/-- an accepted create or update carries details of its own type -/
theorem accepted_details_match (v : Variant) (hv : v.fixDetails = true) (f : Faults) (s : Auth) (p : Prov) :
    ((Auth.step v f s (.storeProv p)).2 = .ok → p.conv = true) ∧
    ((Auth.step v f s (.updateProv p)).2 = .ok → p.conv = true) := by
  constructor <;> intro h <;> cases hc : p.conv with
  | true => rfl
  | false =>
    have := mismatched_details_refused v hv f s p hc
    first
      | (rw [this.1] at h; cases h)
      | (rw [this.2] at h; cases h)

namespace Witness
/-- a JWK-typed record (`kind 0`) carrying ACME details (`dkind 5`) -/
def pMixed : Prov := { id := s "p9", name := s "n9", tok := s "t9", kid := none, sum := s "99887766554433221100ffeeddccbbaa",
                       kind := 0, dkind := some 5 }
end Witness

/-- the hypothesis of `stored_records_buildable` is met by a started CA, and a well-formed create is accepted -/
example : Conv (Witness.booted current) ∧
    (Auth.step current [] (Witness.booted current) (.storeProv { Witness.pMixed with dkind := some 0 })).2 = .ok := by
  unfold Conv; decide

/-- **F4 (historic refutation: tree before `fix:` 17718b3, `Variant.detailsOpen`)** — a create
    with the details of another type is accepted and stored, and the database then holds a record
    that cannot be built again (the real reload / restart dereferences nil on it); the same through
    an update of an existing provisioner. -/
example :
    let r := Auth.step Variant.detailsOpen [] (Witness.booted .detailsOpen) (.storeProv Witness.pMixed)
    r.2 = .ok ∧ ¬ Conv r.1 := by
  unfold Conv; decide

example :
    let r := Auth.step Variant.detailsOpen [] (Witness.booted .detailsOpen) (.updateProv { Witness.p0 with dkind := none })
    r.2 = .ok ∧ ¬ Conv r.1 := by
  unfold Conv; decide

/-- … and at HEAD both are refused with nothing changed -/
theorem mismatched_details_current :
    (Auth.step current [] (Witness.booted current) (.storeProv Witness.pMixed)).2 = .internalFailure ∧
    (Auth.step current [] (Witness.booted current) (.updateProv { Witness.p0 with dkind := none })).2 = .internalFailure ∧
    (Auth.step current [] (Witness.booted current) (.storeProv Witness.pMixed)).1.db = (Witness.booted current).db := by
  decide

/-! ## request validation in front of the authority: claims, templates, webhooks -/

/-- what `ValidateDurations` is meant to establish: every given duration parses and is not
    negative, and the given ones are ordered min ≤ default ≤ max -/
def Durs.Ordered (d : Durs) : Prop :=
  d.min.wellFormed = true ∧ d.max.wellFormed = true ∧ d.dflt.wellFormed = true ∧
  (d.min.present = true → d.max.present = true → d.min.value ≤ d.max.value) ∧
  (d.min.present = true → d.dflt.present = true → d.min.value ≤ d.dflt.value) ∧
  (d.dflt.present = true → d.max.present = true → d.dflt.value ≤ d.max.value)

/-- … and what the code as it stands establishes: the same without default ≤ max -/
def Durs.OrderedBelow (d : Durs) : Prop :=
  d.min.wellFormed = true ∧ d.max.wellFormed = true ∧ d.dflt.wellFormed = true ∧
  (d.min.present = true → d.max.present = true → d.min.value ≤ d.max.value) ∧
  (d.min.present = true → d.dflt.present = true → d.min.value ≤ d.dflt.value)

/-- **claims validation (full statement; holds for the comparison as announced, `cmpFixed`)** —
    a durations block is accepted exactly when it is well formed and ordered. -/
theorem validateDurations_fixed_iff (d : Durs) : validateDurations true d = true ↔ d.Ordered := by
  obtain ⟨a, b, c⟩ := d
  cases a <;> cases b <;> cases c <;>
    simp [validateDurations, Durs.Ordered, Dur.wellFormed, Dur.present, Dur.value] <;> omega

/-- **claims validation (_partial, historic: the code before e2d04ab)** — accepted exactly when well formed,
    min ≤ max and min ≤ default. Missing against the full statement: default ≤ max; the last
    comparison of `ValidateDurations` repeats min > default, which can no longer be true there. -/
theorem validateDurations_coded_iff_partial (d : Durs) : validateDurations false d = true ↔ d.OrderedBelow := by
  obtain ⟨a, b, c⟩ := d
  cases a <;> cases b <;> cases c <;>
    simp [validateDurations, Durs.OrderedBelow, Dur.wellFormed, Dur.present, Dur.value] <;> omega

/-- the full statement was false before e2d04ab: max 1h, default 2h was accepted
    (`authority.ValidateDurations(&linkedca.Durations{Max: "1h", Default: "2h"}) == nil`) -/
example : validateDurations false { max := .val 3600, dflt := .val 7200 } = true ∧
    ¬ Durs.Ordered { max := .val 3600, dflt := .val 7200 } := by
  refine ⟨by decide, fun h => ?_⟩
  have := h.2.2.2.2.2 (by decide) (by decide)
  simp [Dur.value] at this

/-- hypotheses met: an ordered block is accepted by both -/
example : validateDurations false { min := .val 300, max := .val 86400, dflt := .val 3600 } = true ∧
    validateDurations true { min := .val 300, max := .val 86400, dflt := .val 3600 } = true := by decide

/-- a provisioner body reaches the authority exactly when it parses, every claims block present
    is accepted and the templates validate -/
theorem provBodyCheck_none_iff (c : Bool) (b : ProvBody) :
    provBodyCheck c b = none ↔ b.parses = true ∧ validateClaims c b.claims = true ∧ b.templatesOK = true := by
  unfold provBodyCheck
  cases b.parses <;> cases validateClaims c b.claims <;> cases b.templatesOK <;> simp

/-- every refusal in front of the authority is a bad request -/
theorem provBodyCheck_some (c : Bool) (b : ProvBody) (o : AuthOut) (h : provBodyCheck c b = some o) : o = .badRequest := by
  unfold provBodyCheck at h
  split at h
  · exact (Option.some.inj h).symm
  split at h
  · exact (Option.some.inj h).symm
  split at h
  · exact (Option.some.inj h).symm
  · cases h

/-- `POST /admin/provisioners` and `PUT /admin/provisioners/{name}` behind authentication: the
    body checks, then the authority operation -/
def Auth.apiProv (v : Variant) (c : Bool) (f : Faults) (s : Auth) (b : ProvBody) (p : Prov) (update : Bool) : Auth × AuthOut :=
  match provBodyCheck c b with
  | some o => (s, o)
  | none => Auth.step v f s (if update then .updateProv p else .storeProv p)

/-- **refused means untouched** — a create or update refused by the body checks leaves the whole
    state (caches, database, engine) exactly as it was -/
theorem api_body_refusal_unchanged (v : Variant) (c : Bool) (f : Faults) (s : Auth) (b : ProvBody) (p : Prov) (u : Bool)
    (h : provBodyCheck c b ≠ none) : (Auth.apiProv v c f s b p u).1 = s := by
  unfold Auth.apiProv
  cases hb : provBodyCheck c b with
  | none => exact absurd hb h
  | some o => rfl

/-- **accepted only if valid (full strength)** — a create or update answered with success had a
    body that parses, claims blocks that are well formed and ordered min ≤ default ≤ max
    (`Durs.Ordered`, since e2d04ab), templates that validate, and details of the provisioner's own
    type. -/
theorem api_accepted_only_if (f : Faults) (s : Auth) (b : ProvBody) (p : Prov) (u : Bool)
    (h : (Auth.apiProv current durCmpFixed f s b p u).2 = .ok) :
    b.parses = true ∧ (∀ d ∈ b.claims, d.Ordered) ∧ b.templatesOK = true ∧ p.conv = true := by
  unfold Auth.apiProv at h
  cases hb : provBodyCheck durCmpFixed b with
  | some o =>
    rw [hb] at h
    have := provBodyCheck_some durCmpFixed b o hb
    simp only at h; rw [this] at h; cases h
  | none =>
    rw [hb] at h
    simp only at h
    obtain ⟨h1, h2, h3⟩ := (provBodyCheck_none_iff durCmpFixed b).mp hb
    refine ⟨h1, fun d hd => ?_, h3, ?_⟩
    · exact (validateDurations_fixed_iff d).mp (List.all_eq_true.mp h2 d hd)
    · have acc := accepted_details_match current rfl f s p
      cases u with
      | true => exact acc.2 h
      | false => exact acc.1 h

/-- stored records stay buildable through the API as well -/
theorem api_records_buildable (c : Bool) (f : Faults) (s : Auth) (b : ProvBody) (p : Prov) (u : Bool) (h : Conv s) :
    Conv (Auth.apiProv current c f s b p u).1 := by
  unfold Auth.apiProv
  cases provBodyCheck c b with
  | some o => exact h
  | none => exact stored_records_buildable current rfl f s _ h

/-- **webhook create** — `UpdateProvisioner` is reached exactly when the body parses, has a name,
    an https URL with a host and without user information, a known kind, no secret and no id of
    its own, and the name is not taken; a taken name is a conflict, everything else a bad request -/
theorem createWebhook_proceed_iff (b : WebhookBody) :
    createWebhookCheck b = .proceed ↔
      b.parses = true ∧ b.nameGiven = true ∧ b.urlParses = true ∧ b.hostGiven = true ∧ b.https = true ∧
      b.userinfo = false ∧ b.kindKnown = true ∧ b.secretGiven = false ∧ b.idGiven = false ∧ b.nameTaken = false := by
  obtain ⟨a1, a2, a3, a4, a5, a6, a7, a8, a9, a10⟩ := b
  cases a1 <;> cases a2 <;> cases a3 <;> cases a4 <;> cases a5 <;> cases a6 <;> cases a7 <;> cases a8 <;>
    cases a9 <;> cases a10 <;> decide

theorem createWebhook_conflict_iff (b : WebhookBody) :
    createWebhookCheck b = .conflict ↔ createWebhookCheck { b with nameTaken := false } = .proceed ∧ b.nameTaken = true := by
  obtain ⟨a1, a2, a3, a4, a5, a6, a7, a8, a9, a10⟩ := b
  cases a1 <;> cases a2 <;> cases a3 <;> cases a4 <;> cases a5 <;> cases a6 <;> cases a7 <;> cases a8 <;>
    cases a9 <;> cases a10 <;> decide

/-- the table of details kinds has no duplicate: one kind of details per provisioner type -/
theorem provisionerKinds_distinct : provisionerKinds.Nodup := by decide

/-- over the table, `conv` accepts exactly the diagonal -/
theorem conv_diagonal : ∀ k ∈ provisionerKinds, ∀ d ∈ provisionerKinds,
    (({ id := [], name := [], tok := [], kid := none, sum := [], kind := k, dkind := some d } : Prov).conv = true ↔ k = d) := by
  decide

/-- **X.509 claims: the gap of `ValidateDurations` is closed by `Init`** — a durations block that
    passes `ValidateDurations` as coded and the claimer's validation is fully ordered. Only the
    X.509 block gets the second check; for the SSH blocks `validateDurations_coded_iff_partial` is
    all there is. -/
theorem x509_block_ordered (g : Int × Int × Int) (d : Durs) (h1 : validateDurations false d = true)
    (h2 : claimerValidate g d = true) : d.Ordered := by
  have h := (validateDurations_coded_iff_partial d).mp h1
  refine ⟨h.1, h.2.1, h.2.2.1, h.2.2.2.1, h.2.2.2.2, fun hd hm => ?_⟩
  unfold claimerValidate at h2
  simp only [hd, hm, if_true, Bool.and_eq_true, decide_eq_true_eq] at h2
  exact h2.2

/-- hypotheses met -/
example : validateDurations false { min := .val 300000000000, max := .val 3600000000000 } = true ∧
    claimerValidate globalClaims { min := .val 300000000000, max := .val 3600000000000 } = false ∧
    claimerValidate globalClaims { min := .val 300000000000, max := .val 3600000000000, dflt := .val 600000000000 } = true := by
  decide

theorem provPolicyCheck_not_ok {A : AColl} {nm : Str} {p : Prov} {o : AuthOut}
    (h : Auth.provPolicyCheck A nm p = some o) : o ≠ .ok := by
  unfold Auth.provPolicyCheck at h
  cases hpp : p.pol with
  | none => simp [hpp] at h
  | some pol =>
    simp only [hpp] at h
    unfold Auth.polOut at h
    cases hq : polCheck pol (((A.byProv.get nm).getD []).map (·.sub)) <;> rw [hq] at h <;> simp at h <;>
      subst h <;> simp

/-- **accepted only if `Init` succeeded** -/
theorem accepted_init_ok (v : Variant) (f : Faults) (s : Auth) (p : Prov) :
    ((Auth.step v f s (.storeProv p)).2 = .ok → p.initOK = true) ∧
    ((Auth.step v f s (.updateProv p)).2 = .ok → p.initOK = true) := by
  constructor <;> intro h <;> cases hc : p.initOK with
  | true => rfl
  | false =>
    exfalso
    unfold Auth.step at h
    simp only [tick, hc, if_true] at h
    repeat' split at h
    all_goals first
      | (rename_i hpc; simp only at h; exact provPolicyCheck_not_ok hpc h)
      | (rename_i hpc; exact provPolicyCheck_not_ok hpc h)
      | cases h

/-- **refused by `Init` means untouched** — a create or update whose provisioner does not
    initialise leaves caches, database and engine exactly as they were and reports an error -/
theorem init_refused_unchanged (v : Variant) (f : Faults) (s : Auth) (p : Prov) (hc : p.initOK = false) :
    ((Auth.step v f s (.storeProv p)).1 = { s with calls := 0 } ∧ (Auth.step v f s (.storeProv p)).2 ≠ .ok) ∧
    ((Auth.step v f s (.updateProv p)).1 = { s with calls := 0 } ∧ (Auth.step v f s (.updateProv p)).2 ≠ .ok) := by
  have hne := accepted_init_ok v f s p
  refine ⟨⟨?_, fun h => by have := hne.1 h; rw [hc] at this; cases this⟩,
          ⟨?_, fun h => by have := hne.2 h; rw [hc] at this; cases this⟩⟩
  · unfold Auth.step
    simp only [tick, hc, if_true]
    repeat' split
    all_goals rfl
  · unfold Auth.step
    simp only [tick, hc, if_true]
    repeat' split
    all_goals rfl

/-! ## the order of checks, writes and reloads (table re-derived from the source on every run) -/

/-- **checks come before writes** — in every write method of the authority, the first occurrence
    of every call that can refuse the request lies before the first call that changes the
    database or the caches: a refusal has nothing to undo. -/
theorem checks_before_writes :
    ∀ e ∈ writeOrder, ∀ c ∈ e.2, isCheckCall c = true →
      firstIdxOf (· = c) e.2 < firstIdxOf (fun x => isDBWrite x || isCacheWrite x) e.2 := by decide

/-- **a database write is never alone** — every method that writes the database also changes the
    caches (or delegates to `removeAdmin`, which does), and a reload call stands after the
    database write (run when that write fails; for the policy methods, always). -/
theorem db_write_has_cache_write_and_reload :
    ∀ e ∈ writeOrder, e.2.any isDBWrite = true →
      e.2.any isCacheWrite = true ∧
      ∃ r ∈ ["ReloadAdminResources", "reloadPolicyEngines"],
        firstIdxOf isDBWrite e.2 < firstIdxOf (· = r) e.2 ∧ firstIdxOf (· = r) e.2 < e.2.length := by decide

/-- exactly one database write per method (the granularity of the fault model: one failing
    admin.DB call per write) -/
theorem one_db_write_per_method : ∀ e ∈ writeOrder, (e.2.filter isDBWrite).length ≤ 1 := by decide

theorem writeOrder_distinct : (writeOrder.map (·.1)).Nodup := by decide

/-! ## the issuing provisioner of the presented certificate -/

/-- what `byCertificate` returns is a listed provisioner; when the record names an id that is still
    there, it is the provisioner with that **id** (whatever it is called now, whoever else carries
    its old name) -/
theorem byCertificate_recorded {P : PColl} (hp : PInv P) (o : CertOrigin) (id : Str) (p : Prov)
    (hrec : o.recorded = some id) (hget : P.byID.get id = some p) : P.byCertificate o = some p ∧ p.id = id := by
  refine ⟨?_, ((hp.idx_id.get_some.mp hget).2).symm⟩
  unfold PColl.byCertificate
  simp only [hrec, Option.bind_some, hget]

/-- the provable core of `AdminTokenIssuer` on the structural invariants — on a consistent CA, when the certificate's database record names a
    provisioner id that still exists, a request is authorized only on behalf of an administrator
    registered with *that provisioner id*: renaming the provisioner, creating another one under
    its old name and registering the same subject there do not change whose certificate it is. -/
theorem admin_token_issuer_core {s : Auth} {E : List Ent} (hp : PInv s.cache.P) (ha : AInv s.cache.A)
    (g : GRep s.cache.A E) (hl : Linked s.cache.P E) (o : CertOrigin) (r : AdminReq) (adm : Adm) (id : Str)
    (hrec : o.recorded = some id) (hex : s.cache.P.byID.get id ≠ none)
    (h : (s.requestFrom o r).2 = .ok adm) :
    adm.provId = id ∧ adm ∈ s.cache.A.sorted ∧ adm.sub ∈ r.sans := by
  cases hget : s.cache.P.byID.get id with
  | none => exact absurd hget hex
  | some p =>
    have hb := byCertificate_recorded hp o id p hrec hget
    unfold Auth.requestFrom Auth.request at h
    simp only at h
    generalize hres : authorizeAdmin s.cache.A s.db.used { r with prov := (s.cache.P.byCertificate o).map (·.name) } = res at h
    obtain ⟨used', z⟩ := res
    simp only at h
    subst h
    have reg := admin_token_registered hp ha g hl s.db.used used' _ adm hres
    simp only [hb.1, Option.map_some] at reg
    obtain ⟨q, hq, hqid, hqn⟩ := (PInv.provName hp).mp reg.2.2
    have hpl : p ∈ s.cache.P.provs := (hp.idx_id.get_some.mp hget).1
    have : q = p := (hp.unique hq hpl).2.1 hqn
    refine ⟨?_, reg.1, reg.2.1⟩
    rw [← hqid, this]; exact hb.2

namespace Witness
/-- `n0` renamed to `n2`, a new provisioner created under the old name `n0`, and `nobody` made its
    super administrator -/
def pNew : Prov := { id := s "p9", name := s "n0", tok := s "t9", kid := none, sum := s "99887766554433221100ffeeddccbbaa" }
def reused (v : Variant) : Auth :=
  Auth.run v (booted v) [(.updateProv p0', []), (.storeProv pNew, []),
    (.storeAdmin { id := s "a9", sub := s "nobody", provId := s "p9", super := true } (s "p9") (s "n0"), [])]
/-- a GET /admin/admins token of `nobody`, signed with a certificate issued while `p0` was called `n0` -/
def nobodyReq : AdminReq := { patchReq "GET" "nobody" with prov := none }
end Witness

/-- **rename and reuse of the name (the scenario, on the model of HEAD)** — the certificate that
    provisioner `p0` issued to `nobody` stays a certificate of `p0` (now `n2`), where `nobody` is no
    administrator: refused. `step`, administrator of `p0`, is still accepted with the certificate
    issued before the rename. Only a certificate without a database record is attributed by the
    name in its extension. -/
theorem renamed_issuer_current :
    ((Witness.reused current).requestFrom { recorded := some (s "p0"), extName := some (s "n0") } Witness.nobodyReq).2 = .unauthorized ∧
    ((Witness.reused current).requestFrom { recorded := some (s "p0"), extName := some (s "n0") }
        { Witness.nobodyReq with sub := s "step", sans := [s "step"] }).2
      = .ok { id := s "a0", sub := s "step", provId := s "p0", super := true } ∧
    ((Witness.reused current).requestFrom { recorded := none, extName := some (s "n0") } Witness.nobodyReq).2
      = .ok { id := s "a9", sub := s "nobody", provId := s "p9", super := true } := by
  decide

/-- the limit as the code stands (see `admin_token_issuer_refuted_deleted`): when the recorded issuer has been
    *deleted*, the lookup falls back to the name in the extension, and a provisioner created under
    that name inherits the old certificates (hypothesis `hex` of the theorem fails) -/
example :
    let s1 := Auth.run current (Witness.booted current) [(.storeProv Witness.pNew, []),
      (.storeAdmin { id := s "a9", sub := s "nobody", provId := s "p9", super := true } (s "p9") (s "n0"), [])]
    -- a certificate issued by a provisioner `px` that no longer exists, whose extension says `n0`
    (s1.requestFrom { recorded := some (s "px"), extName := some (s "n0") } Witness.nobodyReq).2
      = .ok { id := s "a9", sub := s "nobody", provId := s "p9", super := true } := by
  decide

/-! ### `admin_token_issuer`: full statement, refutation (open finding C16-O4), proved part -/

/-- **admin_token_issuer (full strength; the first sentence of the property: "… a certificate that
    this CA issued to a registered administrator of the issuing provisioner")** — on a CA that is
    consistent with its database, a request presented with a certificate whose database record names
    provisioner `id` is authorized only on behalf of an administrator registered with provisioner
    `id`. **False for the code as it stands** (`admin_token_issuer_refuted_deleted`). -/
def AdminTokenIssuer : Prop :=
  ∀ (U : List Prov) (s : Auth) (o : CertOrigin) (r : AdminReq) (adm : Adm) (id : Str),
    SumsOK U → FullInv U s → o.recorded = some id → (s.requestFrom o r).2 = .ok adm → adm.provId = id

namespace Witness
/-- a CA started on `db0` to which provisioner `p9` named `n0`… no: `db0` has `p0` named `n0`; a second
    provisioner `p8`/`n8` is created and `nobody` made its super administrator -/
def p8 : Prov := { id := s "p8", name := s "n8", tok := s "t8", kid := none, sum := s "8899aabbccddeeff0011223344556677" }
def afterRecreate : Auth :=
  Auth.run Variant.fixed (booted .fixed) [(.storeProv p8, []),
    (.storeAdmin { id := s "a8", sub := s "nobody", provId := s "p8", super := true } (s "p8") (s "n8"), [])]
end Witness

theorem sumsOK_witness : SumsOK [p0, Witness.p8] := by
  refine ⟨?_, ?_⟩
  · intro p hp
    simp only [List.mem_cons, List.not_mem_nil, or_false] at hp
    rcases hp with rfl | rfl <;> exact ⟨by decide, by decide⟩
  · intro p hp q hq
    simp only [List.mem_cons, List.not_mem_nil, or_false] at hp hq
    rcases hp with rfl | rfl <;> rcases hq with rfl | rfl <;> decide

theorem fullInv_witness : FullInv [p0, Witness.p8] Witness.afterRecreate := by
  have hb : FullInv [p0, Witness.p8] (booted .fixed) :=
    boot_inv [p0, Witness.p8] sumsOK_witness db0 ⟨⟨by decide, by decide, by decide, by simp [db0]⟩, by decide, by decide, by
      simp [db0, p0]⟩ (by decide)
  exact run_inv [p0, Witness.p8] sumsOK_witness _ _ hb
    ⟨by simp [ValidOp], not_twoFaults_of_single (by decide), by unfold ValidOp; decide,
      not_twoFaults_of_single (by decide), trivial⟩

/-- **admin_token_issuer_refuted_deleted (open finding C16-O4)** — the full statement is false for
    /repo as it stands. A consistent CA serves provisioner `p8` named `n8` with super administrator
    `nobody`. A certificate for `nobody` whose database record names a provisioner `px` that no
    longer exists (deleted), and whose extension carries the name `n8` (the name `px` had, given
    to `p8` since), is accepted as `nobody` of `p8`: `LoadProvisionerByCertificate` falls back from
    the recorded id to the name in the extension. -/
theorem admin_token_issuer_refuted_deleted : ¬ AdminTokenIssuer := by
  intro h
  have := h [p0, Witness.p8] Witness.afterRecreate { recorded := some (s "px"), extName := some (s "n8") }
    Witness.nobodyReq { id := s "a8", sub := s "nobody", provId := s "p8", super := true } (s "px")
    sumsOK_witness fullInv_witness rfl (by decide)
  revert this; decide

/-- **admin_token_issuer_partial** — the statement holds whenever the recorded provisioner still
    exists: renaming it, creating another provisioner under its old name and registering the same
    subject there do not change whose certificate it is (seed C16/1's shape). Missing against the
    full statement: the case of a *deleted* recorded provisioner (refuted above). -/
theorem admin_token_issuer_partial (U : List Prov) (s : Auth) (o : CertOrigin) (r : AdminReq) (adm : Adm) (id : Str)
    (hinv : FullInv U s) (hrec : o.recorded = some id) (hex : s.cache.P.byID.get id ≠ none)
    (h : (s.requestFrom o r).2 = .ok adm) :
    adm.provId = id ∧ adm ∈ s.cache.A.sorted ∧ adm.sub ∈ r.sans := by
  obtain ⟨E, hE⟩ := hinv.1
  exact admin_token_issuer_core hE.pinv hE.ast.ainv hE.ast.grep hE.ast.linked o r adm id hrec hex h

/-- … and when the certificate has no database record at all, the request is authorized only on
    behalf of an administrator of the provisioner that carries the name in its extension now -/
theorem admin_token_issuer_unrecorded (U : List Prov) (s : Auth) (o : CertOrigin) (r : AdminReq) (adm : Adm)
    (hinv : FullInv U s) (hrec : o.recorded = none) (h : (s.requestFrom o r).2 = .ok adm) :
    ∃ n p, o.extName = some n ∧ s.cache.P.byName.get n = some p ∧ adm.provId = p.id := by
  obtain ⟨E, hE⟩ := hinv.1
  unfold Auth.requestFrom Auth.request at h
  simp only at h
  generalize hres : authorizeAdmin s.cache.A s.db.used { r with prov := (s.cache.P.byCertificate o).map (·.name) } = res at h
  obtain ⟨used', z⟩ := res
  simp only at h
  subst h
  have reg := admin_token_registered hE.pinv hE.ast.ainv hE.ast.grep hE.ast.linked s.db.used used' _ adm hres
  have hbc : s.cache.P.byCertificate o = o.extName.bind s.cache.P.byName.get := by
    unfold PColl.byCertificate; simp [hrec]
  cases hn : o.extName with
  | none =>
    rw [hbc, hn] at reg
    simp only [Option.bind_none, Option.map_none] at reg
    obtain ⟨_, _, _, _, pn, hpn, _⟩ := admin_token_only_if s.cache.A s.db.used used' _ adm hres
    rw [hbc, hn] at hpn; simp at hpn
  | some n =>
    cases hg : s.cache.P.byName.get n with
    | none =>
      obtain ⟨_, _, _, _, pn, hpn, _⟩ := admin_token_only_if s.cache.A s.db.used used' _ adm hres
      rw [hbc, hn] at hpn; simp [hg] at hpn
    | some p =>
      refine ⟨n, p, rfl, hg, ?_⟩
      rw [hbc, hn] at reg
      simp only [Option.bind_some, hg, Option.map_some] at reg
      obtain ⟨q, hq, hqid, hqn⟩ := (PInv.provName hE.pinv).mp reg.2.2
      have hpl : p ∈ s.cache.P.provs := (hE.pinv.idx_name.get_some.mp hg).1
      have : q = p := (hE.pinv.unique hq hpl).2.1 hqn
      rw [← hqid, this]

/-- with the strict lookup the two agree as long as the recorded provisioner exists … -/
theorem byCertificateStrict_eq {P : PColl} (o : CertOrigin)
    (h : ∀ id, o.recorded = some id → P.byID.get id ≠ none) : P.byCertificateStrict o = P.byCertificate o := by
  unfold PColl.byCertificateStrict PColl.byCertificate
  cases hr : o.recorded with
  | none => simp
  | some id =>
    cases hg : P.byID.get id with
    | none => exact absurd hg (h id hr)
    | some p => simp [hg]

/-- **… and the full statement holds for it (the repair sketched in notes/C16.md proves the
    clause)**: with a lookup that does not fall back to the name when the record names a
    provisioner, a request is authorized only for an administrator of the recorded provisioner —
    no hypothesis about that provisioner still existing. The driver of stage `token` runs this
    lookup; the lines on which /repo differs are the known finding C16-O4. -/
theorem admin_token_issuer_strict (U : List Prov) (s : Auth) (o : CertOrigin) (r : AdminReq) (adm : Adm) (id : Str)
    (hinv : FullInv U s) (hrec : o.recorded = some id) (h : (s.requestFromStrict o r).2 = .ok adm) :
    adm.provId = id := by
  cases hg : s.cache.P.byID.get id with
  | none =>
    exfalso
    unfold Auth.requestFromStrict Auth.request at h
    simp only at h
    generalize hres : authorizeAdmin s.cache.A s.db.used { r with prov := (s.cache.P.byCertificateStrict o).map (·.name) } = res at h
    obtain ⟨used', z⟩ := res
    simp only at h
    subst h
    obtain ⟨_, _, _, _, pn, hpn, _⟩ := admin_token_only_if s.cache.A s.db.used used' _ adm hres
    unfold PColl.byCertificateStrict at hpn
    simp [hrec, hg] at hpn
  | some p =>
    have he : s.cache.P.byCertificateStrict o = s.cache.P.byCertificate o :=
      byCertificateStrict_eq o (fun id' h' => by rw [hrec] at h'; cases h'; rw [hg]; simp)
    have h' : (s.requestFrom o r).2 = .ok adm := by
      unfold Auth.requestFrom; unfold Auth.requestFromStrict at h; rw [← he]; exact h
    exact (admin_token_issuer_partial U s o r adm id hinv hrec (by rw [hg]; simp) h').1

/-! ## first start: migration of the configuration's provisioners into the admin database -/

theorem insDB_perm {α : Type} (key : α → Str) (x : α) (l : List α) : (insDB key x l).Perm (x :: l) :=
  insertBy_perm key x l

/-- the loop, whatever the faults: on success everything was stored; in any case the ids of what
    is stored are among the ids recorded as created, and a failure is at a failing call -/
theorem migrateProvs_spec (f : Faults) : ∀ (l : List Prov) (k : Nat) (acc : List Prov) (cr : List Str),
    (∀ p ∈ acc, p.id ∈ cr) →
    (∃ k' provs cr', migrateProvs f k acc cr l = (k', provs, cr', true) ∧ provs.Perm (l ++ acc) ∧ k' = k + l.length ∧
        (∀ p ∈ provs, p.id ∈ cr')) ∨
    (∃ k' provs cr', migrateProvs f k acc cr l = (k', provs, cr', false) ∧ k' ∈ f ∧ k < k' ∧ (∀ p ∈ provs, p.id ∈ cr'))
  | [], k, acc, cr, h => .inl ⟨k, acc, cr, by simp [migrateProvs], List.Perm.refl _, by simp, h⟩
  | p :: r, k, acc, cr, h => by
    unfold migrateProvs
    by_cases hb : k + 1 ∈ f
    · simp only [List.contains_eq_mem, hb, decide_true, if_true]
      exact .inr ⟨k + 1, acc, cr, rfl, hb, by omega, h⟩
    · simp only [List.contains_eq_mem, hb, decide_false, Bool.false_eq_true, if_false]
      have h' : ∀ q ∈ insDB (fun x : Prov => x.id) p acc, q.id ∈ p.id :: cr := by
        intro q hq
        rcases mem_insertBy.mp hq with e | hq
        · subst e; exact List.mem_cons_self
        · exact List.mem_cons_of_mem _ (h q hq)
      rcases migrateProvs_spec f r (k + 1) _ _ h' with ⟨k', provs, cr', he, hp, hk, hc⟩ | ⟨k', provs, cr', he, hk, hlt, hc⟩
      · refine .inl ⟨k', provs, cr', he, ?_, by simp only [List.length_cons]; omega, hc⟩
        refine hp.trans ?_
        exact (List.Perm.append_left r (insDB_perm (fun x : Prov => x.id) p acc)).trans List.perm_middle
      · exact .inr ⟨k', provs, cr', he, hk, by omega, hc⟩

/-- a rollback that meets no failing call deletes everything whose id it was given -/
theorem rollback_clean (f : Faults) : ∀ (ids : List Str) (k : Nat) (provs : List Prov),
    (∀ j, k < j → j ∉ f) → (∀ p ∈ provs, p.id ∈ ids) → (rollback f k provs ids).2 = []
  | [], k, provs, _, h => by
    unfold rollback
    cases provs with
    | nil => rfl
    | cons p r => exact absurd (h p List.mem_cons_self) (by simp)
  | id :: r, k, provs, hf, h => by
    unfold rollback
    have hb : k + 1 ∉ f := hf (k + 1) (by omega)
    simp only [List.contains_eq_mem, hb, decide_false, Bool.false_eq_true, if_false]
    refine rollback_clean f r (k + 1) _ (fun j hj => hf j (by omega)) ?_
    intro p hp
    obtain ⟨hp1, hp2⟩ := List.mem_filter.mp hp
    have hne : p.id ≠ id := by simpa using hp2
    rcases List.mem_cons.mp (h p hp1) with e | e
    · exact absurd e hne
    · exact e

theorem single_fault_after {f : Faults} (h1 : f.length ≤ 1) {k : Nat} (hk : k ∈ f) : ∀ j, k < j → j ∉ f := by
  intro j hj hjf
  match f, h1 with
  | [x], _ =>
    simp only [List.mem_singleton] at hk hjf
    omega

/-- the provisioners a complete first start writes: the configuration's, plus the default one when
    none of them is a JWK provisioner -/
def FirstStart.written (m : FirstStart) : List Prov :=
  match m.cfg.find? (fun p => p.kind == jwkKind) with
  | some _ => m.cfg
  | none => m.dflt :: m.cfg

/-- the provisioner the first super administrator belongs to -/
def FirstStart.adminProv (m : FirstStart) : Prov :=
  (m.cfg.find? (fun p => p.kind == jwkKind)).getD m.dflt

/-- the first super administrator -/
def FirstStart.admin (m : FirstStart) : Adm :=
  { id := m.admId, sub := stepSub, provId := m.adminProv.id, super := true }

theorem migrateFail_shape (atomic : Bool) (f : Faults) (db : DB) (ha : db.adms = []) (k : Nat) (provs : List Prov) (cr : List Str)
    (hk : k ∈ f) (hc : ∀ p ∈ provs, p.id ∈ cr) :
    (migrateFail atomic f db k provs cr).2.2 ≠ none ∧ (migrateFail atomic f db k provs cr).1.adms = [] ∧
    (atomic = true → f.length ≤ 1 → (migrateFail atomic f db k provs cr).1.provs = []) ∧ f ≠ [] := by
  have hne : f ≠ [] := by intro e; rw [e] at hk; cases hk
  unfold migrateFail
  cases atomic with
  | false => exact ⟨by simp, ha, by simp, hne⟩
  | true =>
    refine ⟨by simp, ha, fun _ h1 => ?_, hne⟩
    simp only [if_true]
    exact rollback_clean f _ k provs (single_fault_after h1 hk) (fun p hp => List.mem_reverse.mpr (hc p hp))

/-- **what the migration block leaves on an empty database**, whatever the fault schedule: either
    it completed — every provisioner it had to write is stored and the only administrator is the
    super administrator `step` — or it failed without an administrator; the all-or-nothing block
    then leaves no provisioner either when that was the only failure. -/
theorem migrate_shape (atomic : Bool) (f : Faults) (db : DB) (hpe : db.provs = []) (ha : db.adms = []) (m : FirstStart) :
    ((Auth.migrate atomic f db m).2.2 = none ∧ (Auth.migrate atomic f db m).1.adms = [m.admin] ∧
      (Auth.migrate atomic f db m).1.provs.Perm m.written) ∨
    ((Auth.migrate atomic f db m).2.2 ≠ none ∧ (Auth.migrate atomic f db m).1.adms = [] ∧
      (atomic = true → f.length ≤ 1 → (Auth.migrate atomic f db m).1.provs = []) ∧ f ≠ []) := by
  unfold Auth.migrate
  simp only
  by_cases h1 : 1 ∈ f
  · simp only [List.contains_eq_mem, h1, decide_true, if_true]
    exact .inr ⟨by simp, ha, fun _ _ => hpe, by intro e; rw [e] at h1; cases h1⟩
  simp only [List.contains_eq_mem, h1, decide_false, Bool.false_eq_true, if_false]
  have he0 : (db.provs.isEmpty) = true := by rw [hpe]; rfl
  simp only [he0, Bool.not_true, Bool.false_eq_true, if_false]
  rcases migrateProvs_spec f m.cfg 1 [] [] (by simp) with ⟨k', provs, cr', he, hp, _, hc⟩ | ⟨k', provs, cr', he, hk, _, hc⟩
  · rw [he]
    simp only
    have hp' : provs.Perm m.cfg := by simpa using hp
    cases hf : m.cfg.find? (fun p => p.kind == jwkKind) with
    | some p =>
      simp only
      by_cases hb : k' + 1 ∈ f
      · simp only [hb, decide_true, if_true]
        exact .inr (migrateFail_shape atomic f db ha (k' + 1) provs cr' hb hc)
      · simp only [hb, decide_false, Bool.false_eq_true, if_false]
        refine .inl ⟨trivial, ?_, ?_⟩
        · simp [ha, insDB, insertBy, FirstStart.admin, FirstStart.adminProv, hf]
        · simpa [FirstStart.written, hf] using hp'
    | none =>
      simp only
      by_cases hb : k' + 1 ∈ f
      · simp only [hb, decide_true, if_true]
        exact .inr (migrateFail_shape atomic f db ha (k' + 1) provs cr' hb hc)
      simp only [hb, decide_false, Bool.false_eq_true, if_false]
      have hc2 : ∀ q ∈ insDB (fun x : Prov => x.id) m.dflt provs, q.id ∈ m.dflt.id :: cr' := by
        intro q hq
        rcases mem_insertBy.mp hq with e | hq
        · subst e; exact List.mem_cons_self
        · exact List.mem_cons_of_mem _ (hc q hq)
      by_cases hb2 : k' + 2 ∈ f
      · simp only [hb2, decide_true, if_true]
        exact .inr (migrateFail_shape atomic f db ha (k' + 2) _ _ hb2 hc2)
      · simp only [hb2, decide_false, Bool.false_eq_true, if_false]
        refine .inl ⟨trivial, ?_, ?_⟩
        · simp [ha, insDB, insertBy, FirstStart.admin, FirstStart.adminProv, hf]
        · simp only [FirstStart.written, hf]
          exact (insDB_perm (fun x : Prov => x.id) m.dflt provs).trans (List.Perm.cons _ hp')
  · rw [he]
    simp only
    exact .inr (migrateFail_shape atomic f db ha k' provs cr' hk hc)

theorem restart_db (v : Variant) (f : Faults) (s : Auth) : (Auth.step v f s .restart).1.db = s.db := by
  unfold Auth.step
  simp only
  have := reload_frame f { s with calls := 0 }
  cases hb : reload f { s with calls := 0 } with
  | mk s' b =>
    rw [hb] at this
    cases b <;> simp only <;> rw [this.1]

theorem DBInvP.perm {U : List Prov} {l l' : List Prov} (h : DBInvP U l) (hp : l'.Perm l) : DBInvP U l' :=
  ⟨(hp.map _).nodup_iff.mpr h.pid, (hp.map _).nodup_iff.mpr h.pname, (hp.map _).nodup_iff.mpr h.ptok,
   fun p hpm => h.pU p (hp.mem_iff.mp hpm)⟩

theorem FirstStart.adminProv_written (m : FirstStart) : m.adminProv ∈ m.written := by
  unfold FirstStart.adminProv FirstStart.written
  cases hf : m.cfg.find? (fun p => p.kind == jwkKind) with
  | some p => simpa using List.mem_of_find?_eq_some hf
  | none => simp

/-- the database a start leaves: the one after the migration block (the reload only reads) -/
theorem firstStart_db (v : Variant) (atomic : Bool) (f : Faults) (db : DB) (m : FirstStart) :
    (Auth.firstStart v atomic f db m).1.db = (Auth.migrate atomic f db m).1 := by
  unfold Auth.firstStart
  cases hm : Auth.migrate atomic f db m with
  | mk db' r =>
    obtain ⟨k, o⟩ := r
    cases o with
    | some o => rfl
    | none => simp only; rw [restart_db]

/-- a start on a database that already holds provisioners does not migrate -/
theorem migrate_skip (atomic : Bool) (db : DB) (m : FirstStart) (h : db.provs ≠ []) :
    (Auth.migrate atomic [] db m).1 = db := by
  unfold Auth.migrate
  cases hp : db.provs with
  | nil => exact absurd hp h
  | cons p r => simp [hp]

/-- **first start, no storage failure (full strength)** — for every configuration whose
    provisioners (plus the default one when none is a JWK provisioner) have distinct ids, names
    and token ids, a first start on an empty database that reports success leaves a CA that is
    consistent with its database and has exactly one administrator: the super administrator
    `step`, registered with a provisioner that was stored. Either form of the migration block. -/
theorem first_start_complete (U : List Prov) (hU : SumsOK U) (atomic : Bool) (m : FirstStart) (hd : DBInvP U m.written)
    (hok : (Auth.firstStart Variant.fixed atomic [] {} m).2 = .ok) :
    FullInv U (Auth.firstStart Variant.fixed atomic [] {} m).1 ∧
    (Auth.firstStart Variant.fixed atomic [] {} m).1.db.adms = [m.admin] ∧
    m.adminProv ∈ (Auth.firstStart Variant.fixed atomic [] {} m).1.db.provs := by
  have hdbeq := firstStart_db Variant.fixed atomic [] {} m
  rcases migrate_shape atomic [] {} rfl rfl m with ⟨hn, hadm, hp⟩ | ⟨_, _, _, hne⟩
  · refine ⟨?_, by rw [hdbeq]; exact hadm, by rw [hdbeq]; exact hp.mem_iff.mpr m.adminProv_written⟩
    unfold Auth.firstStart at hok ⊢
    cases hm : Auth.migrate atomic [] {} m with
    | mk db' r =>
      obtain ⟨k, o⟩ := r
      rw [hm] at hn hadm hp hok
      simp only at hn hadm hp
      subst hn
      simp only at hok ⊢
      have hsh : shiftFaults k [] = [] := rfl
      rw [hsh] at hok ⊢
      have hdb : DBInv U db' := by
        refine ⟨hd.perm hp, by rw [hadm]; simp, by rw [hadm]; simp, ?_⟩
        intro a ha
        rw [hadm] at ha
        simp only [List.mem_singleton] at ha
        subst ha
        exact ⟨m.adminProv, hp.mem_iff.mpr m.adminProv_written, rfl⟩
      exact boot_inv U hU db' hdb hok
  · exact absurd rfl hne

/-- **first start and one transient storage failure (full statement)** — whatever single admin
    database call of a first start fails, the next start without failures comes up with a super
    administrator. False for the migration block before the all-or-nothing repair
    (`first_start_interrupted_refuted`), proved for the repaired block (`first_start_recovers`). -/
def FirstStartRecovers (atomic : Bool) : Prop :=
  ∀ (f : Faults) (m : FirstStart), f.length ≤ 1 →
    let r1 := Auth.firstStart current atomic f {} m
    let r2 := Auth.firstStart current atomic [] r1.1.db m
    1 ≤ nsuper r2.1.db.adms

theorem FirstStart.written_ne_nil (m : FirstStart) : m.written ≠ [] := by
  intro h
  have := m.adminProv_written
  rw [h] at this; cases this

/-- **first_start_recovers (full strength, the all-or-nothing migration)** — for every
    configuration and every single failing database call of a first start, the next start comes
    up with exactly one administrator, the super administrator `step` (no success hypothesis: the
    statement is about the database the start leaves). -/
theorem first_start_recovers : FirstStartRecovers true := by
  intro f m h1
  simp only
  rw [firstStart_db, firstStart_db]
  rcases migrate_shape true f {} rfl rfl m with ⟨_, hadm, hp⟩ | ⟨_, hadm, hprov, _⟩
  · -- the migration completed (the failure, if any, hit the reload): the next start does not migrate
    have hne : (Auth.migrate true f {} m).1.provs ≠ [] := by
      intro e; rw [e] at hp; exact m.written_ne_nil (List.Perm.nil_eq hp).symm
    rw [migrate_skip true _ m hne, hadm]
    simp [nsuper, FirstStart.admin]
  · -- the migration failed and took back what it had stored: the next start is a first start again
    rcases migrate_shape true [] (Auth.migrate true f {} m).1 (hprov rfl h1) hadm m with ⟨_, hadm2, _⟩ | ⟨_, _, _, hne⟩
    · rw [hadm2]; simp [nsuper, FirstStart.admin]
    · exact absurd rfl hne

namespace Witness
def pAcme : Prov := { id := s "p1", name := s "n1", tok := s "acme/n1", kid := none, sum := s "11ec06f96af3ca654c22172a5d746c40", kind := 6, dkind := some 6 }
def pJwk : Prov := { p0 with kind := 1, dkind := some 1 }
def pDflt : Prov := { id := s "pd", name := s "Admin JWK", tok := s "Admin JWK:kd", kid := some (s "kd"), sum := s "ddccbbaa99887766554433221100ffee", kind := 1, dkind := some 1 }
/-- ca.json with a JWK provisioner `n0` and an ACME provisioner `n1` -/
def cfg2 : FirstStart := { cfg := [pJwk, pAcme], dflt := pDflt, admId := s "a0" }
end Witness

/-- **first_start_interrupted_refuted (finding C16-F7, the block before the repair)** — ca.json has
    a JWK provisioner `n0` and an ACME provisioner `n1`. The fourth database call of the first
    start (`CreateAdmin` of the super administrator `step`) fails: the start reports a storage
    failure with both provisioners stored. The next start finds provisioners, does not run the
    migration, and comes up — without any administrator, for good (no admin token can ever be
    authorized). -/
theorem first_start_interrupted_refuted : ¬ FirstStartRecovers false := by
  intro h
  have := h [4] Witness.cfg2 (by decide)
  revert this; decide

/-- the positions, block before the repair: before anything is written (1, 2) and after everything
    is written (5, 6) the next start recovers; in between (3, 4) it comes up with no administrator
    (and after 3 without `n1`, which is never migrated). With the all-or-nothing block 3 and 4
    leave an empty database. -/
example :
    (∀ n ∈ [1, 2, 5, 6],
       nsuper (Auth.firstStart current false [] (Auth.firstStart current false [n] {} Witness.cfg2).1.db Witness.cfg2).1.db.adms = 1) ∧
    (∀ n ∈ [3, 4], (Auth.firstStart current false [n] {} Witness.cfg2).2 = .storeFailed ∧
       (Auth.firstStart current false [] (Auth.firstStart current false [n] {} Witness.cfg2).1.db Witness.cfg2).2 = .ok ∧
       (Auth.firstStart current false [] (Auth.firstStart current false [n] {} Witness.cfg2).1.db Witness.cfg2).1.db.adms = []) ∧
    (∀ n ∈ [3, 4], (Auth.firstStart current true [n] {} Witness.cfg2).2 = .storeFailed ∧
       (Auth.firstStart current true [n] {} Witness.cfg2).1.db.provs = []) := by
  decide

/-- hypotheses of `first_start_complete` met; without a JWK provisioner in ca.json the default one is created -/
example : (Auth.firstStart Variant.fixed false [] {} Witness.cfg2).2 = .ok ∧
    (Auth.firstStart Variant.fixed true [] {} { Witness.cfg2 with cfg := [Witness.pAcme] }).2 = .ok ∧
    (Auth.firstStart Variant.fixed true [] {} { Witness.cfg2 with cfg := [Witness.pAcme] }).1.db.provs.map (·.name) = [s "n1", s "Admin JWK"] := by
  decide

/-! ## conversions ca.json ↔ admin database (table re-measured on every run) -/

/-- **conv_loss_spares_identity** — for every provisioner type and both directions, nothing the
    administrative state is made of is lost or changed by the conversions: id, name, type and
    details, keys, roots, claims, template content, webhooks. (SSHPOP has no options in its
    configuration format: in direction `lc` its record's templates and webhooks do not reach the
    provisioner; it has no use for them.) -/
theorem conv_loss_spares_identity :
    ∀ r ∈ convLoss, r.typ ≠ "SSHPOP" → ∀ x ∈ r.loss, ∀ p ∈ convProtected, pathBelow p x = false := by decide

theorem conv_loss_spares_identity_sshpop :
    ∀ r ∈ convLoss, r.typ = "SSHPOP" → ∀ x ∈ r.loss,
      ∀ p ∈ [["ID"], ["Name"], ["Claims"], ["id"], ["name"], ["type"], ["details"], ["claims"]], pathBelow p x = false := by decide

/-- **conv_loss_classified** — everything that is lost is one of: the name policy, a template *file*
    (its content is kept), ACME Wire options, AWS `IIDRoots` / `IMDSVersions` (no field in linkedca),
    the spelling of the type string, database bookkeeping, SSHPOP's unused options. -/
theorem conv_loss_classified :
    ∀ r ∈ convLoss, ∀ x ∈ r.loss,
      x ∈ goNamePolicyPaths ∨ x ∈ pbPolicyPaths ∨
      x ∈ [["Options", "SSH", "TemplateFile"], ["Options", "X509", "TemplateFile"], ["Options", "Wire"], ["IIDRoots"], ["IMDSVersions"], ["Type"],
           ["authority_id"], ["created_at", "nanos"], ["created_at", "seconds"], ["deleted_at", "nanos"], ["deleted_at", "seconds"]] ∨
      (r.typ = "SSHPOP" ∧ (pathBelow ["webhooks"] x = true ∨ pathBelow ["ssh_template"] x = true ∨ pathBelow ["x509_template"] x = true)) := by
  decide

/-- one row per direction and type: 11 types, both ways -/
theorem conv_rows_complete : (convLoss.map fun r => (r.dir, r.typ)).Nodup ∧ convLoss.length = 22 := by decide

/-- **webhook update** — `UpdateProvisioner` is reached exactly when the body parses and validates
    (as for create), the provisioner has a webhook of that name, and the body carries no other
    secret and no other id than the stored ones; an unknown name is not-found, the rest a bad request -/
theorem updateWebhook_proceed_iff (b : WebhookBody) (sd idd : Bool) :
    updateWebhookCheck b sd idd = .proceed ↔
      b.parses = true ∧ webhookValid b = true ∧ b.nameTaken = true ∧ sd = false ∧ idd = false := by
  unfold updateWebhookCheck
  cases b.parses <;> cases webhookValid b <;> cases b.nameTaken <;> cases sd <;> cases idd <;> simp

theorem updateWebhook_notFound_iff (b : WebhookBody) (sd idd : Bool) :
    updateWebhookCheck b sd idd = .notFound ↔ b.parses = true ∧ webhookValid b = true ∧ b.nameTaken = false := by
  unfold updateWebhookCheck
  cases b.parses <;> cases webhookValid b <;> cases b.nameTaken <;> cases sd <;> cases idd <;> simp

/-- create and update validate the same way -/
theorem createWebhook_validates (b : WebhookBody) (h : createWebhookCheck b = .proceed) : webhookValid b = true := by
  have := (createWebhook_proceed_iff b).mp h
  unfold webhookValid
  simp [this.2.1, this.2.2.1, this.2.2.2.1, this.2.2.2.2.1, this.2.2.2.2.2.1, this.2.2.2.2.2.2.1]

/-- **provisioner-policy handlers** — `UpdateProvisioner` (and with it the lock-out check of
    `prov_policy_no_lockout`) is reached exactly when: create — no policy yet, body parses and
    validates; update — a policy exists, body parses and validates; delete — a policy exists. -/
theorem provPolicyHandler_proceed_iff (verb : PolicyVerb) (has p v : Bool) :
    provPolicyHandlerCheck verb has p v = .proceed ↔
      (verb = .create ∧ has = false ∧ p = true ∧ v = true) ∨
      (verb = .update ∧ has = true ∧ p = true ∧ v = true) ∨
      (verb = .delete ∧ has = true) := by
  cases verb <;> cases has <;> cases p <;> cases v <;> decide

/-- **a second provisioner with a token id that is already served is refused before anything is
    written** — whatever its name, its id (the database assigns one; an id in the request plays no
    part) and the storage failures: token ids that do not depend on the name (all Kubernetes
    service-account provisioners share one; OIDC: the client id; Azure: the tenant id) collide
    between differently named provisioners. -/
theorem storeProv_duplicate_token_refused (v : Variant) (f : Faults) (s : Auth) (p : Prov)
    (hc : p.conv = true) (hn : s.cache.P.byName.has p.name = false) (ht : s.cache.P.byTok.has p.tok = true) :
    Auth.step v f s (.storeProv p) = ({ s with calls := 0 }, .badRequest) := by
  unfold Auth.step
  simp [hc, hn, ht]

/-- **one admin request at a time** — every public write method of the authority takes the admin
    lock before its first check and before anything it writes (`removeAdmin` is the helper that
    runs under its callers' lock): check and write of one request are not interleaved with another
    request's. This is the source-derived fact behind the sequential model of `Auth.step`. -/
theorem lock_before_everything :
    ∀ e ∈ writeOrder, e.1 ≠ "removeAdmin" → e.2.head? = some "adminMutex.Lock" ∧ (e.2.filter (· = "adminMutex.Lock")).length = 1 := by
  decide

end Verif.Admin
