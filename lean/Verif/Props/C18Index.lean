import Verif.Generated.IndexSites
/-!
  C18 — index expressions with a constant integer index (`x[0]`, `certs[0]`, `parts[1]` …).

  `Generated/IndexSites.lean` (rewritten from /repo on every run by /verif/extract, table
  `IndexSites`) lists, per function of the request-path packages, how many index expressions with
  a constant integer index it contains: the shape of every out-of-range panic found in this code
  base so far. This file holds one reviewed entry per function: the guard that keeps a client
  (any bytes sent to any public endpoint, including values inside well-formed tokens, CSRs, JWS,
  SSH certificates, PKCS#7) from making the indexed value shorter than index+1 at that point.
  A review matches a site only with equal location AND equal count, so a new constant index in a
  reviewed function, a new function with one, or a removed one is an undischarged obligation.

  The `why` texts are human judgements (read from the source of the pinned tree, every path to the
  index traced); they are the trusted part of this table. An entry whose text starts with
  "FINDING:" would mean a client can drive that index out of range.

  Library guarantees used below (read in the pinned dependency versions):
  * go-jose v3.0.4 `ParseSigned` (behind go.step.sm/crypto/jose `ParseSigned`/`ParseJWS`): compact
    and flattened input yield exactly one signature, the general form with an empty/missing
    `signatures` array is treated as flattened (`rawJSONWebSignature.sanitized`), so
    `len(Signatures) >= 1` and `jwt.Headers` (built one per signature) has `len >= 1`;
  * crypto/x509 `Certificate.Verify` (go1.23): on `err == nil` the result has at least one chain and
    every chain starts with the leaf (`len(chains) == 0` is turned into an error);
  * `strings.Split`/`SplitN` with a non-empty separator return at least one element.
-/
namespace Verif.IndexSites
open Verif.Generated.IndexSites

structure Review where
  loc : String          -- "pkg/file.go:Func" (methods as "Type.Method"), exactly as in the table
  count : Nat           -- reviewed number of constant-index expressions in that function
  why : String          -- the guard; starts with "FINDING:" if a client can break it
  deriving Repr, DecidableEq

def signedChainNote : String :=
  "reached only after the authority returned err == nil, and Authority.signX509 / Authority.renewContext (authority/tls.go) build the returned chain as append([]*x509.Certificate{resp.Certificate}, resp.CertificateChain...), i.e. length >= 1"

def reviews : List Review := [
  -- api
  ⟨"api/api.go:LogSSHCertificate", 3,
    "parts[1] is under `len(parts) > 1`; parts[0] is the first element of strings.Split(mak, ' ') which always has at least one element; fpParts[1] is under `len(fpParts) > 3`."⟩,
  ⟨"api/rekey.go:Rekey", 4,
    "r.TLS.PeerCertificates[0]: the handler answers 400 first when r.TLS == nil or len(PeerCertificates) == 0. certChainPEM[1] is under `len(certChainPEM) > 1`. certChain[0] and certChainPEM[0]: " ++ signedChainNote ++ "; certChainToPEM returns one element per certificate."⟩,
  ⟨"api/renew.go:Renew", 3,
    "certChainPEM[1] is under `len(certChainPEM) > 1`. certChain[0] and certChainPEM[0]: " ++ signedChainNote ++ "; certChainToPEM returns one element per certificate."⟩,
  ⟨"api/renew.go:getPeerCertificate", 3,
    "PeerCertificates[0] is under `r.TLS != nil && len(r.TLS.PeerCertificates) > 0`; parts[1] (twice) is under `len(parts) == 2` of strings.SplitN. (The call made here, AuthorizeRenewToken -> jose.ParseX5cInsecure, panics inside the dependency for an empty x5cInsecure header: see the AuthorizeRenewToken entry.)"⟩,
  ⟨"api/revoke.go:Revoke", 1,
    "the mTLS branch answers 400 first when r.TLS == nil or len(r.TLS.PeerCertificates) == 0."⟩,
  ⟨"api/sign.go:Sign", 3,
    "certChainPEM[1] is under `len(certChainPEM) > 1`. certChain[0] and certChainPEM[0]: " ++ signedChainNote ++ "; certChainToPEM returns one element per certificate."⟩,
  ⟨"api/ssh.go:SSHGetHosts", 1,
    "under `r.TLS != nil && len(r.TLS.PeerCertificates) > 0`."⟩,
  ⟨"api/sshRenew.go:renewIdentityCertificate", 1,
    "the function returns (nil, nil) first when r.TLS == nil or len(r.TLS.PeerCertificates) == 0."⟩,
  -- acme
  ⟨"acme/challenge.go:tlsalpn01Validate", 3,
    "certs[0]: `len(certs) == 0` stores an error and returns before. IPAddresses[0] and DNSNames[0] are the right operand of `len(...) != 1 || ...`, evaluated only when the length is exactly 1 (the peer here is the challenged host, which the client controls)."⟩,
  ⟨"acme/challenge.go:parseAndVerifyWireAccessToken", 6,
    "jwt.Headers[0] (three times) after `len(jwt.Headers) != 1` returns an error; dpopJWT.Headers[0] (three times) after `len(dpopJWT.Headers) != 1` returns an error. (The nil dereference of KeyToID(Headers[0].JSONWebKey) for a token with neither kid nor jwk header, found during this review, was repaired by fix e48a32d, which added the third jwt.Headers[0].)"⟩,
  ⟨"acme/challenge.go:doTPMAttestationFormat", 1,
    "x5c[0] after `len(x5c) == 0` returns badAttestationStatement; x5c is the type-asserted []interface{} of the client's attestation statement."⟩,
  ⟨"acme/challenge.go:validateAKCertificateExtendedKeyUsage", 1,
    "ekus[0] is the last operand of `err != nil || len(ekus) == 0 || !ekus[0].Equal(…)` since fix fb3a9b4 (before it an Extended Key Usage extension holding an empty SEQUENCE made it panic, reproduced through validateAKCertificate during this review)."⟩,
  ⟨"acme/challenge.go:doAppleAttestationFormat", 1,
    "x5c[0] after `len(x5c) == 0` returns badAttestationStatement."⟩,
  ⟨"acme/challenge.go:doStepAttestationFormat", 1,
    "x5c[0] after `len(x5c) == 0` returns rejectedIdentifier."⟩,
  ⟨"acme/challenge.go:reverseAddr", 4,
    "ip[12..15] only in the `ip.To4() != nil` branch; the only caller, serverName, passes net.ParseIP(ch.Value), which returns 16-byte slices for IPv4 and IPv6 alike (never the 4-byte form), and nil is excluded by the caller."⟩,
  ⟨"acme/linker.go:GetUnescapedPathSuffix", 5,
    "inputs is the variadic tail written in the source of each call, not data sized by a request: all call sites (route registration in acme/api/handler.go, Location/Link headers, linker.LinkOrder/LinkAccount/LinkChallenge/LinkOrdersByAccountID, challenge audiences, middleware.go) pass one string for Account/Order/Authz/Certificate/OrdersByAccount/Finalize link types and two for Challenge; types that take none never index."⟩,
  ⟨"acme/order.go:Order.Finalize", 1,
    "certChain[0] after auth.SignWithContext returned err == nil; the CertificateAuthority is *authority.Authority: " ++ signedChainNote ++ "."⟩,
  ⟨"acme/order.go:createWireSubject", 1,
    "Organization[0] is the right operand of `len(csr.Subject.Organization) == 0 || ...`. (Not an index: entry.Value.(string) two lines above panics for a display-name attribute that is not a string; reported separately.)"⟩,
  ⟨"acme/api/eab.go:validateEABJWS", 2,
    "jws.Signatures[0] after `len(jws.Signatures) != 1` returns malformed; outerJWS.Signatures[0] after `len(outerJWS.Signatures) != 1` returns malformed."⟩,
  ⟨"acme/api/middleware.go:validateJWS", 1,
    "jws.Signatures[0] after `len(jws.Signatures) == 0` and `len(jws.Signatures) > 1` both answer malformed and return."⟩,
  ⟨"acme/api/middleware.go:extractJWK", 1,
    "used only inside validatingMiddleware (handler.go route: parseJWS(validateJWS(...)) wraps extractPayloadByJWK and extractOrLookupJWK), so validateJWS already answered 400 unless len(Signatures) == 1 on the same *JSONWebSignature kept in the context; independently go-jose's parser never yields zero signatures."⟩,
  ⟨"acme/api/middleware.go:lookupJWK", 1,
    "used only inside validatingMiddleware (extractPayloadByKid, extractOrLookupJWK), after validateJWS enforced len(Signatures) == 1 on the same context value; independently go-jose's parser never yields zero signatures."⟩,
  ⟨"acme/api/middleware.go:canExtractJWKFrom", 1,
    "after `jws == nil` and `len(jws.Signatures) == 0` both return false."⟩,
  ⟨"acme/api/middleware.go:verifyAndExtractJWSPayload", 1,
    "innermost middleware of extractPayloadByJWK/ByKid/ByKidOrJWK, all built on validatingMiddleware, so validateJWS enforced len(Signatures) == 1 on the same context value; independently go-jose's parser never yields zero signatures."⟩,
  ⟨"acme/api/order.go:NewOrderRequest.validateWireIdentifiers", 2,
    "userIdentifiers[0] after `len(userIdentifiers) != 1` returns an error; deviceIdentifiers[0] after `len(deviceIdentifiers) != 1` returns an error."⟩,
  ⟨"acme/api/revoke.go:wrapUnauthorizedError", 1,
    "inside `case len(unauthorizedIdentifiers) > 0`."⟩,
  ⟨"acme/db/nosql/certificate.go:DB.GetCertificate", 1,
    "certs is parseBundle(Leaf ++ Intermediates) of a record of the acme_certs table; only DB.CreateCertificate writes that table and always stores the PEM block of the just-issued leaf, so at least one certificate parses. A client chooses the key (certificate id), never the value; a corrupted store is outside the client model."⟩,
  -- scep
  ⟨"scep/authority.go:Authority.SignCSR", 1,
    "certChain[0] after a.signAuth.SignWithContext returned err == nil; signAuth is *authority.Authority: " ++ signedChainNote ++ "."⟩,
  ⟨"scep/api/api.go:GetCACert", 1,
    "after `len(certs) == 0` returns an error, inside `len(certs) == 1`; certs are the CA's own configured certificates."⟩,
  -- authority
  ⟨"authority/authority.go:Authority.init", 2,
    "start-up only (New/NewEmbedded; a reload builds a new Authority), values from configuration: intermediateX509Certs[0] is under `len(a.intermediateX509Certs) > 0`; options.Intermediates[0] is reached only with a configured intermediate key, and is indexed unguarded (a mis-configured RA with an intermediate key but no intermediate certificate fails at start, not on a request)."⟩,
  ⟨"authority/authorize.go:Authority.AuthorizeAdminToken", 3,
    "jwt.Headers[0]: jose.ParseSigned succeeded, so there is at least one header. verifiedChains[0][0]: Header.Certificates returns an error for an empty x5c header and otherwise the result of x509 Verify, which on err == nil has a non-empty first chain starting with the leaf."⟩,
  ⟨"authority/authorize.go:Authority.AuthorizeRenewToken", 2,
    "chain[0][0]: chain is the verifiedChains value jose.ParseX5cInsecure returns after leaf.Verify succeeded, non-empty with non-empty chains. Dependency defect on the way here (found during this review, not one of these two sites): go.step.sm/crypto v0.60.0 jose.ParseX5cInsecure does `leaf := chain[0]` on the decoded header with no length test, so an unauthenticated POST /1.0/renew with header x5cInsecure = [] panicked under this function; since fix 089cf95 the empty header is refused before the library is called (the fuzzer's `renew-bearer-jws` cases keep it covered)."⟩,
  ⟨"authority/linkedca.go:newLinkedCAClient", 1,
    "after `len(claims.Audience) != 1` returns an error; the token is the operator's linked-CA token given at start-up, not request data."⟩,
  ⟨"authority/linkedca.go:linkedCaClient.StoreCertificateChain", 1,
    "called only from Authority.storeCertificate, whose single caller signX509 passes append([]{resp.Certificate}, ...) (length >= 1)."⟩,
  ⟨"authority/linkedca.go:linkedCaClient.StoreRenewedCertificate", 1,
    "called only from Authority.storeRenewedCertificate, whose single caller renewContext passes append([]{resp.Certificate}, ...) (length >= 1)."⟩,
  ⟨"authority/root.go:Authority.GetRootCertificate", 1,
    "no caller outside tests in this tree (handlers use GetRoots/GetRootCertificates); rootX509Certs comes from the configured root files read at start-up (config.Validate rejects an empty root list for the default CAS)."⟩,
  ⟨"authority/root.go:Authority.GetIntermediateCertificate", 1,
    "under `len(a.intermediateX509Certs) > 0`."⟩,
  ⟨"authority/ssh.go:IsValidForAddUser", 1,
    "ValidPrincipals[1] inside `case 2` of `switch len(cert.ValidPrincipals)`."⟩,
  ⟨"authority/ssh.go:Authority.SignSSHAddUser", 1,
    "ValidPrincipals[0] after IsValidForAddUser(subject) returned nil, which returns an error for zero principals (and for more than two)."⟩,
  ⟨"authority/tls.go:Authority.storeCertificate", 1,
    "single caller signX509 passes the chain built as append([]{resp.Certificate}, resp.CertificateChain...) (length >= 1)."⟩,
  ⟨"authority/tls.go:Authority.storeRenewedCertificate", 1,
    "single caller renewContext passes the chain built as append([]{resp.Certificate}, resp.CertificateChain...) (length >= 1)."⟩,
  ⟨"authority/tls.go:Authority.GenerateCertificateRevocationList", 1,
    "config.Audience(path) allocates len(DNSNames)+1 elements (the last one is the bare path), so element 0 always exists; no request value takes part."⟩,
  -- provisioners
  ⟨"authority/provisioner/azure.go:Azure.authorizeToken", 4,
    "jwt.Headers[0] after `len(jwt.Headers) == 0` returns unauthorized; re[1], re[2], re[4] after `len(re) != 5` returns unauthorized (FindStringSubmatch of a 4-group expression)."⟩,
  ⟨"authority/provisioner/collection.go:Collection.LoadByToken", 3,
    "token.Headers[0]: both callers (Authority.getProvisionerFromToken, Authority.Revoke via LoadProvisionerByToken) pass the result of a successful jose.ParseSigned, which has at least one header. payload.Audience[0] (twice) after `len(payload.Audience) == 0` returns (nil, false); the Kubernetes branch before it returns without indexing."⟩,
  ⟨"authority/provisioner/collection.go:Collection.Store", 8,
    "sum is the 20-byte SHA-1 slice of provisionerSum and bi is make([]byte, 4): fixed sizes, indices 0..3."⟩,
  ⟨"authority/provisioner/gcp.go:GCP.authorizeToken", 1,
    "after `len(jwt.Headers) == 0` returns unauthorized."⟩,
  ⟨"authority/provisioner/keystore.go:getCacheAge", 3,
    "match[0] under `len(match) > 0`, match[0][1] under `len(match[0]) == 2`; the input is the cache-control header of the identity provider's JWKS response, not a CA client's request."⟩,
  ⟨"authority/provisioner/nebula.go:Nebula.AuthorizeSign", 1,
    "sans was just allocated with make([]string, len(crt.Details.Ips)+1), length >= 1."⟩,
  ⟨"authority/provisioner/nebula.go:Nebula.AuthorizeSSHSign", 1,
    "principals was just allocated with make([]string, len(crt.Details.Ips)+1), length >= 1."⟩,
  ⟨"authority/provisioner/nebula.go:Nebula.authorizeToken", 1,
    "jwt.Headers[0] after jose.ParseSigned succeeded: at least one header."⟩,
  ⟨"authority/provisioner/oidc.go:OIDC.authorizeToken", 1,
    "jwt.Headers[0] after jose.ParseSigned succeeded: at least one header."⟩,
  ⟨"authority/provisioner/provisioner.go:Uninitialized.MarshalJSON", 1,
    "reasonJSON is json.Marshal of a two-field struct literal after its error check: it always starts with an opening brace and is never empty."⟩,
  ⟨"authority/provisioner/sign_options.go:forceCNOption.Modify", 1,
    "after `len(cert.DNSNames) == 0` returns 400."⟩,
  ⟨"authority/provisioner/sshpop.go:ExtractSSHPOPCert", 1,
    "jwt.Headers[0] after jose.ParseSigned succeeded: at least one header."⟩,
  ⟨"authority/provisioner/x5c.go:X5C.authorizeToken", 3,
    "jwt.Headers[0] after jose.ParseSigned succeeded. verifiedChains[0][0]: Header.Certificates returns an error for an empty x5c header and otherwise the result of x509 Verify, which on err == nil has a non-empty first chain starting with the leaf."⟩,
  ⟨"authority/provisioner/x5c.go:X5C.AuthorizeSign", 2,
    "claims.chains is set only by authorizeToken to its verifiedChains, after x509 Verify succeeded (non-empty, chains non-empty); a failed authorizeToken returns before this line."⟩,
  ⟨"authority/provisioner/x5c.go:X5C.AuthorizeSSHSign", 2,
    "claims.chains is set only by authorizeToken to its verifiedChains, after x509 Verify succeeded (non-empty, chains non-empty); a failed authorizeToken returns before this line."⟩,
  -- name constraints (copied from crypto/x509)
  ⟨"authority/internal/constraints/verify.go:matchDomainConstraint", 1,
    "constraint[0] after `constraint == \"\"` returns (true, nil); constraints are the CA certificates' name constraints."⟩,
  ⟨"authority/internal/constraints/verify.go:domainToReverseLabels", 1,
    "right operand of `len(reverseLabels) > 0 && ...`."⟩,
  ⟨"authority/internal/constraints/verify.go:parseRFC2821Mailbox", 13,
    "every in[0] is dominated by an emptiness test of the current value of in: the initial `in == \"\"` return, `if in == \"\" return` at the head of the quoted-string loop and again after a backslash, the loop condition `in != \"\"` of the atom loop (and `if in == \"\" return` after it advances past a backslash before the fallthrough), and the left operand of `in == \"\" || in[0] != '@'`. localPartBytes[0] after `len(localPartBytes) == 0` returns."⟩,
  -- policy engine
  ⟨"policy/options.go:normalizeAndValidateDNSDomainConstraint", 2,
    "both under `len(normalizedConstraint) >= 2 && ...` (left to right)."⟩,
  ⟨"policy/options.go:normalizeAndValidateEmailConstraint", 2,
    "first [0] after `normalizedConstraint == \"\"` returns an error; second [0] after the re-check `normalizedConstraint == \"\"` that follows the removal of a leading '@'."⟩,
  ⟨"policy/validate.go:domainToReverseLabels", 1,
    "right operand of `len(reverseLabels) > 0 && ...`."⟩,
  ⟨"policy/validate.go:parseRFC2821Mailbox", 13,
    "same code as constraints.parseRFC2821Mailbox: every in[0] is dominated by an emptiness test of the current value of in (initial return, head of the quoted-string loop, after a backslash in both loops, the atom loop condition, the left operand of `in == \"\" || in[0] != '@'`); localPartBytes[0] after `len(localPartBytes) == 0` returns."⟩,
  ⟨"policy/validate.go:NamePolicyEngine.matchDomainConstraint", 4,
    "domain[0] (twice) after `domain == \"\"` returns an error (the guard added for the earlier empty-domain panic); domain[1] is the right operand of `len(domain) == 1 || ...` with domain non-empty; constraint[0] after `constraint == \"\"` returned at the top."⟩,
  -- db
  ⟨"db/db.go:DB.StoreCertificateChain", 1,
    "called only from Authority.storeCertificate, whose single caller signX509 passes a chain of length >= 1."⟩,
  ⟨"db/db.go:DB.StoreRenewedCertificate", 1,
    "called only from Authority.storeRenewedCertificate, whose single caller renewContext passes a chain of length >= 1."⟩,
  -- ca: client SDK and start-up
  ⟨"ca/acmeClient.go:serialize", 3,
    "client-side ACME library (never runs in the CA's handlers); parts are the three dot-separated fields of the CompactSerialize output it just produced."⟩,
  ⟨"ca/acmeClient.go:ACMEClient.GetCertificate", 1,
    "client-side ACME library; `block == nil` returns an error first and the loop appends once per non-nil block, so certs has at least one element."⟩,
  ⟨"ca/bootstrap.go:Bootstrap", 2,
    "client SDK helper run by applications that bootstrap against the CA, never by the CA's handlers; claims.Audience[0] is unguarded (a bootstrap token without aud panics the calling client program, not the CA)."⟩,
  ⟨"ca/ca.go:CA.Init", 1,
    "start-up: cfg.DNSNames[0] after authority.New validated the configuration (config.Validate rejects `len(DNSNames) == 0`)."⟩,
  ⟨"ca/ca.go:CA.Run", 1,
    "start-up logging: DNSNames of the validated configuration (non-empty)."⟩,
  ⟨"ca/client.go:WithAdminX5C", 4,
    "client SDK option; certs[0] after jose.ValidateX5C(certs, key) succeeded (it rejects an empty chain); DNSNames[0] and EmailAddresses[0] inside `case len(...) > 0`."⟩,
  ⟨"ca/client.go:parseEndpoint", 2,
    "client SDK; parts[0] of strings.SplitN (at least one element), parts[1] under `len(parts) == 2`."⟩,
  ⟨"ca/tls.go:TLSCertificate", 1,
    "client SDK; cert.Certificate[0] after tls.X509KeyPair succeeded, which fails when no certificate block is found."⟩,
  -- software CAS
  ⟨"cas/softcas/softcas.go:SoftCAS.CreateCertificate", 2,
    "chain is the configured issuer chain: softcas.New rejects `len(opts.CertificateChain) == 0` unless a CertificateSigner callback supplies it (embedding application) or IsCreator (offline `ca init`); no request value takes part."⟩,
  ⟨"cas/softcas/softcas.go:SoftCAS.RenewCertificate", 2,
    "chain is the configured issuer chain: softcas.New rejects `len(opts.CertificateChain) == 0` unless a CertificateSigner callback supplies it or IsCreator; no request value takes part."⟩,
  ⟨"cas/softcas/softcas.go:SoftCAS.CreateCRL", 1,
    "certChain is the configured issuer chain (non-empty by softcas.New); no request value takes part."⟩
]

/-- sites of the current tree with no review of equal location AND equal count -/
def unaccounted (rs : List Review) (ss : List (String × Nat)) : List (String × Nat) :=
  ss.filter fun s => !rs.any fun r => r.loc == s.1 && r.count == s.2

/-- reviews that match no site of the current tree (function gone, renamed, or count changed) -/
def stale (rs : List Review) (ss : List (String × Nat)) : List Review :=
  rs.filter fun r => !ss.any fun s => r.loc == s.1 && r.count == s.2

theorem index_sites_extracted : extractorOk = true := by decide +kernel

/-- **every function with a constant-index expression in the current tree has a review for exactly that many sites** -/
theorem index_sites_covered : unaccounted reviews sites = [] := by decide +kernel

/-- no review is stale -/
theorem index_reviews_current : stale reviews sites = [] := by decide +kernel

end Verif.IndexSites
