import Verif.Model.CRL
import Verif.Generated.Locks
/-!
  C08 — published CRLs are complete and strictly increasing.

  Property theorems about `Verif.CRL` (model of `GenerateCertificateRevocationList` and its
  callers, tied to /repo by the C08 correspondence stages; DER encoding and the signature are
  validated on every fetched list by the harness, not modelled).  Histories are arbitrary event
  lists over arbitrary sets of revocations and generations (start-up, ticks, forced), i.e.
  every interleaving of their atomic steps and every placement of restarts.
  Scope, stated in the hypotheses: one generator per database (`lock` is that authority's mutex);
  section 4 shows that a reload which stops the old generator re-establishes it (`reload_discharges`)
  and what happens when it does not (`reload_without_stop`).
-/
namespace Verif.CRL
open Verif Verif.Store

/-! ## invariants -/

/-- control-state facts of one request (with the mutex in place) -/
def Loc (r : Req) : Prop :=
  (r.holding = true → r.out = .pending ∧ 2 ≤ r.pc ∧ r.pc ≤ 5) ∧
  (r.out = .pending → 2 ≤ r.pc → r.pc ≤ 5 → r.holding = true)

def Inv (s : G × List Req) : Prop :=
  s.1.mutex = true ∧
  s.1.log.Pairwise (fun a b => a.number > b.number) ∧
  s.1.crl = s.1.log.head? ∧
  s.2.countP (·.holding) = (if s.1.lock then 1 else 0) ∧
  (∀ r ∈ s.2, Loc r ∧ (r.holding = true → (r.pc = 3 ∨ r.pc = 4) → r.prev = s.1.crl.map (·.number)))

theorem loc_step (g : G) (r : Req) (hm : g.mutex = true) : Loc r → Loc (step g r).2 := by
  unfold Loc step failExit
  intro ⟨a, b⟩
  split
  · exact ⟨a, b⟩
  · split <;> grind

/-- frame rule: a step that leaves list, log and lock alone and does not change who holds -/
theorem inv_frame (s : G × List Req) (t : Nat) (r x : Req) (g' : G) (h : Inv s)
    (hr : s.2[t]? = some r) (hm : g'.mutex = s.1.mutex) (hlog : g'.log = s.1.log)
    (hcrl : g'.crl = s.1.crl) (hlock : g'.lock = s.1.lock) (hhold : x.holding = r.holding)
    (hloc : Loc x) (h4 : x.holding = true → (x.pc = 3 ∨ x.pc = 4) → x.prev = s.1.crl.map (·.number)) :
    Inv (g', s.2.set t x) := by
  obtain ⟨i1, i2, i3, i4, i5⟩ := h
  refine ⟨by rw [hm]; exact i1, by rw [hlog]; exact i2, by rw [hcrl, hlog]; exact i3, ?_, ?_⟩
  · show (s.2.set t x).countP (·.holding) = _
    rw [hlock, countP_set_same (·.holding) s.2 t r x hr hhold]; exact i4
  · show ∀ y ∈ s.2.set t x, _
    rw [hcrl]
    exact forall_set _ s.2 t x i5 ⟨hloc, h4⟩

theorem holders_le_one (s : G × List Req) (h : Inv s) : s.2.countP (·.holding) ≤ 1 := by
  rw [h.2.2.2.1]; split <;> omega

/-- while `r` (at index `t`) holds the mutex, nobody else in the list does -/
theorem others_not_holding (s : G × List Req) (h : Inv s) (t : Nat) (r x y : Req)
    (hr : s.2[t]? = some r) (hh : r.holding = true) (hy : y ∈ s.2.set t x) :
    y = x ∨ y.holding = false := by
  rcases mem_set_index s.2 t x y hy with h1 | ⟨j, hj, hyj⟩
  · exact .inl h1
  · right
    cases hyh : y.holding with
    | false => rfl
    | true =>
      have := countP_ge_two (·.holding) s.2 t j r y hr hyj (fun h => hj h.symm) hh hyh
      have := holders_le_one s h
      omega

theorem inv_exec (s : G × List Req) (e : Ev) : Inv s → Inv (machine.exec s e) := by
  intro h
  have h' := h
  obtain ⟨i1, i2, i3, i4, i5⟩ := h
  cases e with
  | restart now =>
    simp only [Machine.exec, machine, Inv, restartG]
    refine ⟨i1, i2, i3, ?_, ?_⟩
    · simp
      intro r hr
      have := (i5 r hr).1
      unfold restartL; unfold Loc at this
      split
      · simp
      · rename_i hn
        cases hh : r.holding with
        | false => rfl
        | true => exfalso; apply hn; have := this.1 hh; exact ⟨this.1, by omega⟩
    · intro y hy
      rcases List.mem_map.1 hy with ⟨r, hr, rfl⟩
      obtain ⟨⟨a, b⟩, c⟩ := i5 r hr
      unfold restartL
      split
      · unfold Loc; simp
      · exact ⟨⟨a, b⟩, c⟩
  | step t =>
    simp only [Machine.exec, machine]
    cases hr : s.2[t]? with
    | none => exact h'
    | some r =>
      show Inv ((step s.1 r).1, s.2.set t (step s.1 r).2)
      have hmem := mem_of_getElem? _ _ _ hr
      obtain ⟨⟨la, lb⟩, l4⟩ := i5 r hmem
      have hloc' := loc_step s.1 r i1 ⟨la, lb⟩
      by_cases hp : r.out = .pending
      · -- case analysis on the program counter
        rcases Nat.lt_or_ge r.pc 6 with hlt | hge
        · have hpc : r.pc = 0 ∨ r.pc = 1 ∨ r.pc = 2 ∨ r.pc = 3 ∨ r.pc = 4 ∨ r.pc = 5 := by omega
          by_cases hfail : (r.pc = 2 ∨ r.pc = 3 ∨ r.pc = 4) ∧ r.inp.fail = r.pc
          · -- a failing generation: returns through the deferred unlock, nothing written
            have hh : r.holding = true := lb hp (by omega) (by omega)
            have hst : step s.1 r = ({ s.1 with lock := false }, { r with pc := 6, holding := false, out := .err }) := by
              unfold step failExit
              rcases hfail.1 with h | h | h
              · have hf : r.inp.fail = 2 := by rw [hfail.2, h]
                simp [hp, h, i1, hf]
              · have hf : r.inp.fail = 3 := by rw [hfail.2, h]
                simp [hp, h, i1, hf]
              · have hf : r.inp.fail = 4 := by rw [hfail.2, h]
                simp [hp, h, i1, hf]
            rw [hst]
            have hc := countP_set (·.holding) s.2 t r { r with pc := 6, holding := false, out := .err } hr
            have hle := holders_le_one s h'
            rw [hh] at hc; simp at hc
            refine ⟨i1, i2, i3, ?_, ?_⟩
            · dsimp only
              have h0 : (s.2.set t { r with pc := 6, holding := false, out := .err }).countP (·.holding) = 0 := by omega
              rw [h0]; simp
            · refine forall_set _ s.2 t _ i5 ⟨?_, ?_⟩
              · unfold Loc; simp
              · simp
          have hnf : ∀ n, r.pc = n → (n = 2 ∨ n = 3 ∨ n = 4) → ¬ r.inp.fail = n := by
            intro n hn hn' hf
            exact hfail ⟨by rw [hn]; exact hn', by rw [hf, hn]⟩
          rcases hpc with h0 | h1 | h2 | h3 | h4 | h5
          · -- arrival / the revocation's CAS: the CRL state is untouched
            have hnh : r.holding = false := by
              cases hh : r.holding with
              | false => rfl
              | true => have := (la hh).2.1; omega
            refine inv_frame s t r _ _ h' hr ?_ ?_ ?_ ?_ ?_ hloc' ?_ <;>
              (unfold step failExit; simp only [hp, h0]; (repeat' split) <;> simp_all)
          · by_cases hl : s.1.lock = true
            · -- blocked
              have : step s.1 r = (s.1, r) := by unfold step failExit; simp [hp, h1, i1, hl]
              rw [this]
              exact inv_frame s t r r s.1 h' hr rfl rfl rfl rfl rfl ⟨la, lb⟩ l4
            · -- acquire
              have hl : s.1.lock = false := by simpa using hl
              have hst : step s.1 r = ({ s.1 with lock := true }, { r with pc := 2, holding := true }) := by
                unfold step failExit; simp [hp, h1, i1, hl]
              rw [hst]
              have hnh : r.holding = false := by
                cases hh : r.holding with
                | false => rfl
                | true => have := (la hh).2.1; omega
              have hc := countP_set (·.holding) s.2 t r { r with pc := 2, holding := true } hr
              rw [i4, hl, hnh] at hc; simp at hc
              refine ⟨i1, i2, i3, by simpa using hc, ?_⟩
              refine forall_set _ s.2 t _ i5 ⟨?_, ?_⟩
              · unfold Loc; simp [hp]
              · simp
          · -- read the stored number
            have hst : step s.1 r = (s.1, { r with pc := 3, prev := s.1.crl.map (·.number) }) := by
              unfold step failExit; simp [hp, h2, hnf 2 h2 (.inl rfl)]
            rw [hst]
            exact inv_frame s t r _ s.1 h' hr rfl rfl rfl rfl rfl (by rw [← hst]; exact hloc') (by simp)
          · have hst : step s.1 r = (s.1, { r with pc := 4, snap := s.1.revoked }) := by
              unfold step failExit; simp [hp, h3, hnf 3 h3 (.inr (.inl rfl))]
            rw [hst]
            exact inv_frame s t r _ s.1 h' hr rfl rfl rfl rfl rfl (by rw [← hst]; exact hloc')
              (fun hh _ => l4 hh (.inl h3))
          · -- store
            have hh : r.holding = true := lb hp (by omega) (by omega)
            have hprev := l4 hh (.inr h4)
            have hst : step s.1 r = ({ s.1 with crl := some (mkCRL r.prev r.snap r.inp.now s.1.cache), log := mkCRL r.prev r.snap r.inp.now s.1.cache :: s.1.log }, { r with pc := 5 }) := by
              unfold step failExit; simp [hp, h4, hnf 4 h4 (.inr (.inr rfl))]
            rw [hst]
            refine ⟨i1, ?_, rfl, ?_, ?_⟩
            · show (mkCRL r.prev r.snap r.inp.now s.1.cache :: s.1.log).Pairwise _
              rw [List.pairwise_cons]
              refine ⟨?_, i2⟩
              intro b hb
              rw [hprev, i3]
              cases hlog : s.1.log with
              | nil => rw [hlog] at hb; cases hb
              | cons c rest =>
                rw [hlog] at hb i2
                simp [mkCRL]
                rcases List.mem_cons.1 hb with hbc | hbr
                · subst hbc; omega
                · have := (List.pairwise_cons.1 i2).1 b hbr; omega
            · have hcs := countP_set_same (·.holding) s.2 t r { r with pc := 5 } hr rfl
              dsimp only
              rw [hcs]; exact i4
            · intro y hy
              rcases others_not_holding s h' t r _ y hr hh hy with hyx | hyn
              · subst hyx
                refine ⟨by rw [← hst]; exact hloc', ?_⟩
                intro _ hpc; simp at hpc
              · rcases mem_set_cases s.2 t _ y hy with hyx | hyl
                · subst hyx; simp [hh] at hyn
                · exact ⟨(i5 y hyl).1, fun hyh => by rw [hyn] at hyh; cases hyh⟩
          · -- unlock
            have hh : r.holding = true := lb hp (by omega) (by omega)
            have hst : step s.1 r = ({ s.1 with lock := false }, { r with pc := 6, holding := false, out := .ok }) := by
              unfold step failExit; simp [hp, h5, i1]
            rw [hst]
            have hc := countP_set (·.holding) s.2 t r { r with pc := 6, holding := false, out := .ok } hr
            have hle := holders_le_one s h'
            rw [hh] at hc; simp at hc
            refine ⟨i1, i2, i3, ?_, ?_⟩
            · dsimp only
              have h0 : (s.2.set t { r with pc := 6, holding := false, out := .ok }).countP (·.holding) = 0 := by omega
              rw [h0]; simp
            · refine forall_set _ s.2 t _ i5 ⟨?_, ?_⟩
              · unfold Loc; simp
              · simp
        · have : step s.1 r = (s.1, r) := by
            unfold step failExit; simp only [hp]; simp
            split <;> first | omega | rfl
          rw [this]
          exact inv_frame s t r r s.1 h' hr rfl rfl rfl rfl rfl ⟨la, lb⟩ l4
      · have : step s.1 r = (s.1, r) := by unfold step failExit; simp [hp]
        rw [this]
        exact inv_frame s t r r s.1 h' hr rfl rfl rfl rfl rfl ⟨la, lb⟩ l4

theorem inv_init (g : G) (rs : List Req) (hm : g.mutex = true) (hl : g.lock = false)
    (hsorted : g.log.Pairwise (fun a b => a.number > b.number)) (hcrl : g.crl = g.log.head?)
    (hfresh : ∀ r ∈ rs, r.fresh) : Inv (g, rs) := by
  refine ⟨hm, hsorted, hcrl, ?_, ?_⟩
  · simp [hl]; intro r hr; exact (hfresh r hr).2.1
  · intro r hr
    obtain ⟨h1, h2, h3⟩ := hfresh r hr
    unfold Loc; simp [h1, h2, h3]

/-! ## 1. numbers strictly increase -/

/-- **numbers_increase.** One process per database, the mutex as written. Start from any durable
    state whose history of stored lists is strictly increasing and whose current list is the
    last one stored (in particular: the empty database). For every set of revocations (with or
    without generate-on-revoke) and generations (start-up, ticks, forced), every interleaving of
    their atomic steps and every placement of restarts, the numbers of the lists ever stored —
    old and new, in storage order — are strictly increasing: every list the CA can serve has a
    number greater than every list served before, also across restarts. -/
theorem numbers_increase (g : G) (rs : List Req) (hm : g.mutex = true) (hl : g.lock = false)
    (hsorted : g.log.Pairwise (fun a b => a.number > b.number)) (hcrl : g.crl = g.log.head?)
    (hfresh : ∀ r ∈ rs, r.fresh) (evs : List Ev) :
    (numbers (machine.run (g, rs) evs).1).Pairwise (· < ·) := by
  have h := Machine.run_inv machine Inv (fun s e h => inv_exec s e h) evs (g, rs)
    (inv_init g rs hm hl hsorted hcrl hfresh)
  unfold numbers
  rw [List.pairwise_reverse, List.pairwise_map]
  exact h.2.1

/-- nothing is ever removed from the history of stored lists, and the current list is the newest -/
theorem log_grows (s : G × List Req) (evs : List Ev) :
    ∃ new, (machine.run s evs).1.log = new ++ s.1.log := by
  refine Machine.run_inv machine (fun s' => ∃ new, s'.1.log = new ++ s.1.log) ?_ evs s ⟨[], rfl⟩
  intro s' e ⟨new, hn⟩
  cases e with
  | restart now => exact ⟨new, hn⟩
  | step t =>
    simp only [Machine.exec, machine]
    cases hr : s'.2[t]? with
    | none => exact ⟨new, hn⟩
    | some r =>
      show ∃ new, (step s'.1 r).1.log = new ++ s.1.log
      unfold step failExit
      (repeat' split) <;> first | exact ⟨new, hn⟩ | exact ⟨mkCRL r.prev r.snap r.inp.now s'.1.cache :: new, by simp [hn]⟩

def genReq (now : Nat) : Req := { inp := { kind := .gen, key := [], record := ⟨0, none⟩, now := now } }

/-- **needs_mutex (refutation of the lock-free variant).** The same steps without
    `crlMutex.Lock()` admit a schedule in which two generations read the same previous number
    and store the same number twice: the mutual exclusion is what `numbers_increase` rests on. -/
theorem needs_mutex :
    ∃ (g : G) (rs : List Req) (evs : List Ev), g.mutex = false ∧ g.lock = false ∧ g.log = [] ∧ g.crl = none ∧
      (∀ r ∈ rs, r.fresh) ∧ numbers (machine.run (g, rs) evs).1 = [0, 0] :=
  ⟨{ revoked := [], crl := none, log := [], lock := false, cache := 600, mutex := false },
   [genReq 10, genReq 10],
   [.step 0, .step 1, .step 0, .step 1, .step 0, .step 1, .step 0, .step 1, .step 0, .step 1, .step 0, .step 1],
   by decide⟩

/-- with the mutex the same schedule stores 0 then 1 (the second generation waits) -/
example : numbers (machine.run ({ revoked := [], crl := none, log := [], lock := false, cache := 600, mutex := true },
    [genReq 10, genReq 10])
    [.step 0, .step 1, .step 0, .step 1, .step 0, .step 1, .step 0, .step 1, .step 0, .step 1, .step 0, .step 1,
     .step 1, .step 1, .step 1, .step 1, .step 1]).1 = [0, 1] := by decide

/-- **restart_continues.** Whatever the process was doing when it stopped (the mutex may have
    been held: `g.lock` is arbitrary), after a restart the start-up generation is not blocked and
    stores the durable number + 1 (or 0 on an empty database); the earlier lists are kept. -/
theorem restart_continues (g : G) (hm : g.mutex = true) (now t : Nat) :
    let s := machine.run (g, [genReq t]) [.restart now, .step 0, .step 0, .step 0, .step 0, .step 0, .step 0]
    s.1.log = mkCRL (g.crl.map (·.number)) g.revoked t g.cache :: g.log ∧
    s.1.crl = some (mkCRL (g.crl.map (·.number)) g.revoked t g.cache) ∧ s.1.lock = false ∧
    s.2.map (·.out) = [.ok] := by
  simp [Machine.run, Machine.exec, machine, step, restartG, restartL, genReq, hm]

/-! ## 2. what a stored list contains: entries and interval -/

/-- every list in the history was made by `mkCRL` from a snapshot of revoked records -/
def Made (s : G × List Req) : Prop :=
  (∀ c ∈ s.1.log, ∃ prev snap now, c = mkCRL prev snap now s.1.cache ∧ ∀ e ∈ snap, e ∈ s.1.revoked) ∧
  (∀ r ∈ s.2, ∀ e ∈ r.snap, e ∈ s.1.revoked)

theorem mem_casNil {ν : Type} (m : Map ν) (k : Str) (v : ν) (e : Str × ν) (h : e ∈ m) : e ∈ (casNil m k v).1 := by
  unfold casNil; split
  · exact h
  · exact List.mem_cons_of_mem _ h

theorem made_exec (s : G × List Req) (e : Ev) : Made s → Made (machine.exec s e) := by
  intro ⟨hlog, hsnap⟩
  cases e with
  | restart now =>
    simp only [Machine.exec, machine, Made, restartG]
    refine ⟨hlog, ?_⟩
    intro r hr
    rcases List.mem_map.1 hr with ⟨r', hr', rfl⟩
    have : (restartL r').snap = r'.snap := by unfold restartL; split <;> simp
    rw [this]; exact hsnap r' hr'
  | step t =>
    simp only [Machine.exec, machine]
    cases hr : s.2[t]? with
    | none => exact ⟨hlog, hsnap⟩
    | some r =>
      show Made ((step s.1 r).1, s.2.set t (step s.1 r).2)
      have hmem := mem_of_getElem? _ _ _ hr
      have hrs := hsnap r hmem
      unfold Made; dsimp only
      unfold step failExit
      (repeat' split) <;> dsimp only
      all_goals first
        | exact ⟨hlog, forall_set _ s.2 t _ hsnap (by first | exact hrs | (intro e he; exact he))⟩
        | (refine ⟨?_, forall_set _ s.2 t _ (fun y hy e he => mem_casNil _ _ _ e (hsnap y hy e he)) (fun e he => mem_casNil _ _ _ e (hrs e he))⟩
           intro c hc
           obtain ⟨p, sn, nw, h1, h2⟩ := hlog c hc
           exact ⟨p, sn, nw, h1, fun e he => mem_casNil _ _ _ e (h2 e he)⟩)
        | (refine ⟨?_, forall_set _ s.2 t _ hsnap hrs⟩
           intro c hc
           rcases List.mem_cons.1 hc with h | h
           · exact ⟨r.prev, r.snap, r.inp.now, h, hrs⟩
           · exact hlog c h)

/-- **entries_exact / interval_exact.** In every history that starts with an empty list history,
    every list ever stored has: validity interval `[now, now + cache duration]` for the clock
    reading `now` of its generation, and as entries exactly the (serial, revocation time) pairs
    of those records of its snapshot of the revoked table that have no expiry or had not expired
    more than the retention window (1 h) before `now`; every snapshot record is a record of the
    revoked table (so nothing is listed that was not revoked, with its stored revocation time). -/
theorem entries_exact (g : G) (hlog : g.log = []) (rs : List Req) (hfresh : ∀ r ∈ rs, r.snap = []) (evs : List Ev)
    (c : CRLRec) (hc : c ∈ (machine.run (g, rs) evs).1.log) :
    ∃ (snap : List (Str × RevRec)) (now : Nat), c.thisUpdate = now ∧ c.nextUpdate = now + (machine.run (g, rs) evs).1.cache ∧
      c.entries = (snap.filter (fun e => e.2.expiresAt = none ∨ ∃ x, e.2.expiresAt = some x ∧ now ≤ x + 3600)).map (fun e => (e.1, e.2.revokedAt)) ∧
      ∀ e ∈ snap, e ∈ (machine.run (g, rs) evs).1.revoked := by
  have h := Machine.run_inv machine Made (fun s e h => made_exec s e h) evs (g, rs)
    ⟨(by intro c hc; rw [hlog] at hc; cases hc), (by intro r hr e he; rw [hfresh r hr] at he; cases he)⟩
  obtain ⟨p, sn, nw, h1, h2⟩ := h.1 c hc
  refine ⟨sn, nw, by rw [h1]; rfl, by rw [h1]; rfl, ?_, h2⟩
  rw [h1]; unfold mkCRL; dsimp only
  congr 1
  apply List.filter_congr
  intro e _
  unfold keep retention
  cases e.2.expiresAt <;> simp

/-! ## 3. generate-on-revoke: an acknowledged revocation is in every list stored afterwards -/

/-- every generation that has taken its snapshot and may still store has `e` in the snapshot -/
def K (e : Str × RevRec) (s : G × List Req) : Prop :=
  e ∈ s.1.revoked ∧ ∀ y ∈ s.2, y.out = .pending → (y.pc = 4 ∨ y.pc = 5) → e ∈ y.snap

theorem step_revoked_mono (g : G) (r : Req) (e : Str × RevRec) (h : e ∈ g.revoked) : e ∈ (step g r).1.revoked := by
  unfold step failExit
  (repeat' split) <;> first | exact h | exact mem_casNil _ _ _ e h

theorem step_snap (g : G) (r : Req) (e : Str × RevRec) (h : e ∈ g.revoked)
    (hr : r.out = .pending → (r.pc = 4 ∨ r.pc = 5) → e ∈ r.snap) :
    (step g r).2.out = .pending → ((step g r).2.pc = 4 ∨ (step g r).2.pc = 5) → e ∈ (step g r).2.snap := by
  unfold step failExit
  (repeat' split) <;> simp_all

theorem k_exec (e : Str × RevRec) (s : G × List Req) (ev : Ev) : K e s → K e (machine.exec s ev) := by
  intro ⟨h1, h2⟩
  cases ev with
  | restart now =>
    simp only [Machine.exec, machine, K, restartG]
    refine ⟨h1, ?_⟩
    intro y hy
    rcases List.mem_map.1 hy with ⟨r, hr, rfl⟩
    unfold restartL
    split
    · simp
    · exact h2 r hr
  | step t =>
    simp only [Machine.exec, machine]
    cases hr : s.2[t]? with
    | none => exact ⟨h1, h2⟩
    | some r =>
      show K e ((step s.1 r).1, s.2.set t (step s.1 r).2)
      have hmem := mem_of_getElem? _ _ _ hr
      refine ⟨step_revoked_mono s.1 r e h1, ?_⟩
      exact forall_set _ s.2 t _ h2 (step_snap s.1 r e h1 (h2 r hmem))

def ent (r : Req) : Str × RevRec := (r.inp.key, r.inp.record)

/-- a generate-on-revoke revocation that has got the mutex (or has been acknowledged) is seen by
    everybody who can still store; once past its CAS its record is in the table -/
def Q (s : G × List Req) : Prop :=
  ∀ r ∈ s.2, r.inp.kind = .revoke true →
    ((r.out = .pending → 1 ≤ r.pc → ent r ∈ s.1.revoked) ∧ (r.out = .ok ∨ (r.out = .pending ∧ 2 ≤ r.pc) → K (ent r) s))

theorem step_inp (g : G) (r : Req) : (step g r).2.inp = r.inp := by
  unfold step failExit; (repeat' split) <;> simp

theorem q_exec (s : G × List Req) (ev : Ev) (hinv : Inv s) : Q s → Q (machine.exec s ev) := by
  intro hq
  have hinv' := inv_exec s ev hinv
  cases ev with
  | restart now =>
    intro y hy hk
    simp only [Machine.exec, machine] at hy
    rcases List.mem_map.1 hy with ⟨r, hr, rfl⟩
    have hi : (restartL r).inp = r.inp := by unfold restartL; split <;> simp
    have hent : ent (restartL r) = ent r := by unfold ent; rw [hi]
    rw [hi] at hk
    obtain ⟨q1, q2⟩ := hq r hr hk
    rw [hent]
    refine ⟨?_, ?_⟩
    · intro hp hpc
      have : restartL r = r := by
        revert hp; unfold restartL; split <;> simp
      rw [this] at hp hpc
      exact q1 hp hpc
    · intro h
      apply k_exec (ent r) s (.restart now)
      apply q2
      revert h; unfold restartL; split <;> simp_all
  | step t =>
    cases hr : s.2[t]? with
    | none =>
      have : machine.exec s (.step t) = s := by simp [Machine.exec, hr]
      rw [this]; exact hq
    | some r =>
      have hmem := mem_of_getElem? _ _ _ hr
      have hex : machine.exec s (.step t) = ((step s.1 r).1, s.2.set t (step s.1 r).2) := by
        simp [Machine.exec, machine, hr]
      intro y hy hk
      rw [hex] at hy
      rcases mem_set_cases s.2 t _ y hy with hyx | hyl
      · -- the stepping request itself
        subst hyx
        have hi := step_inp s.1 r
        have hent : ent (step s.1 r).2 = ent r := by unfold ent; rw [hi]
        rw [hi] at hk
        obtain ⟨q1, q2⟩ := hq r hmem hk
        rw [hent]
        refine ⟨?_, ?_⟩
        · intro hp hpc
          rw [hex]
          by_cases h0 : r.out = .pending ∧ 1 ≤ r.pc
          · exact step_revoked_mono s.1 r _ (q1 h0.1 h0.2)
          · -- it was the CAS step
            have hp0 : r.out = .pending := by
              revert hp; unfold step failExit; (repeat' split) <;> simp_all
            have hpc0 : r.pc = 0 := by
              cases hz : r.pc with
              | zero => rfl
              | succ n => exact absurd ⟨hp0, by omega⟩ h0
            revert hp hpc
            unfold step failExit ent
            simp only [hp0, hpc0, hk]
            by_cases hc : (casNil s.1.revoked r.inp.key r.inp.record).2 = true
            · have hn := (casNil_swapped _ _ _).1 hc
              simp [hc]
              unfold casNil; simp [hn]
            · simp [hc]
        · intro h
          by_cases hold : r.out = .ok ∨ (r.out = .pending ∧ 2 ≤ r.pc)
          · exact k_exec (ent r) s (.step t) (q2 hold)
          · -- it just acquired the mutex: nobody else is between snapshot and unlock
            have hp : r.out = .pending := by
              revert h hold; unfold step failExit; (repeat' split) <;> simp_all
            have hpc : r.pc = 1 := by
              revert h hold; unfold step failExit; simp only [hp]; (repeat' split) <;> simp_all <;> omega
            have hfree : s.1.lock = false := by
              revert h; unfold step failExit; simp only [hp, hpc, hinv.1]
              cases hl : s.1.lock <;> simp [hpc, hp]
            have hin : ent r ∈ s.1.revoked := q1 hp (by omega)
            rw [hex]
            refine ⟨step_revoked_mono s.1 r _ hin, ?_⟩
            have hnone : ∀ z ∈ s.2, z.holding = false := by
              have := hinv.2.2.2.1
              rw [hfree] at this; simp at this
              exact this
            intro z hz hzp hzpc
            rcases mem_set_cases s.2 t _ z hz with hzx | hzl
            · subst hzx
              exfalso; revert hzpc; unfold step failExit; simp [hp, hpc, hinv.1, hfree]
            · have := ((hinv.2.2.2.2 z hzl).1).2 hzp (by omega) (by omega)
              rw [hnone z hzl] at this; cases this
      · obtain ⟨q1, q2⟩ := hq y hyl hk
        refine ⟨fun hp hpc => by rw [hex]; exact step_revoked_mono s.1 r _ (q1 hp hpc), fun h => ?_⟩
        have := k_exec (ent y) s (.step t) (q2 h)
        exact this

theorem mem_entries (prev : Option Nat) (snap : List (Str × RevRec)) (now cache : Nat) (e : Str × RevRec)
    (he : e ∈ snap) (hk : keep now e = true) : (e.1, e.2.revokedAt) ∈ (mkCRL prev snap now cache).entries := by
  unfold mkCRL; dsimp only
  exact List.mem_map.2 ⟨e, List.mem_filter.2 ⟨he, hk⟩, rfl⟩

/-- lists stored from now on contain `e` unless it is outside the retention window -/
def W (e : Str × RevRec) (log1 : List CRLRec) (s : G × List Req) : Prop :=
  K e s ∧ ∃ new, s.1.log = new ++ log1 ∧
    ∀ c ∈ new, keep c.thisUpdate e = true → (e.1, e.2.revokedAt) ∈ c.entries

theorem w_exec (e : Str × RevRec) (log1 : List CRLRec) (s : G × List Req) (ev : Ev) :
    W e log1 s → W e log1 (machine.exec s ev) := by
  intro ⟨hk, new, hlog, hall⟩
  refine ⟨k_exec e s ev hk, ?_⟩
  cases ev with
  | restart now => exact ⟨new, hlog, hall⟩
  | step t =>
    simp only [Machine.exec, machine]
    cases hr : s.2[t]? with
    | none => exact ⟨new, hlog, hall⟩
    | some r =>
      show ∃ new, (step s.1 r).1.log = new ++ log1 ∧ _
      have hmem := mem_of_getElem? _ _ _ hr
      by_cases h4 : r.out = .pending ∧ r.pc = 4 ∧ ¬ r.inp.fail = 4
      · have hst : (step s.1 r).1.log = mkCRL r.prev r.snap r.inp.now s.1.cache :: s.1.log := by
          unfold step failExit; simp [h4.1, h4.2.1, h4.2.2]
        refine ⟨mkCRL r.prev r.snap r.inp.now s.1.cache :: new, by rw [hst, hlog]; rfl, ?_⟩
        intro c hc hkeep
        rcases List.mem_cons.1 hc with h | h
        · subst h
          exact mem_entries _ _ _ _ e (hk.2 r hmem h4.1 (.inl h4.2.1)) hkeep
        · exact hall c h hkeep
      · have hst : (step s.1 r).1.log = s.1.log := by
          unfold step failExit; (repeat' split) <;> simp_all
        exact ⟨new, by rw [hst, hlog], hall⟩

/-- **on_revoke_visible.** With generate-on-revoke: take any history `evs1` after which a
    revocation `R` has been acknowledged. Every list stored during any continuation `evs2`
    — by ticks, start-up generations after restarts, or other revocations, under any
    interleaving — contains `R`'s serial with its revocation time, unless the certificate
    expired more than the retention window before that list's `thisUpdate`. In particular the
    list served right after the acknowledgement (the newest stored one) contains it. -/
theorem on_revoke_visible (g : G) (rs : List Req) (hm : g.mutex = true) (hl : g.lock = false)
    (hsorted : g.log.Pairwise (fun a b => a.number > b.number)) (hcrl : g.crl = g.log.head?)
    (hfresh : ∀ r ∈ rs, r.fresh) (evs1 evs2 : List Ev) (R : Req)
    (hR : R ∈ (machine.run (g, rs) evs1).2) (hk : R.inp.kind = .revoke true) (hok : R.out = .ok) :
    (R.inp.key, R.inp.record) ∈ (machine.run (g, rs) evs1).1.revoked ∧
    ∃ new, (machine.run (g, rs) (evs1 ++ evs2)).1.log = new ++ (machine.run (g, rs) evs1).1.log ∧
      ∀ c ∈ new, keep c.thisUpdate (R.inp.key, R.inp.record) = true →
        (R.inp.key, R.inp.record.revokedAt) ∈ c.entries := by
  have h1 := Machine.run_inv machine (fun s => Inv s ∧ Q s)
    (fun s e ⟨hi, hq⟩ => ⟨inv_exec s e hi, q_exec s e hi hq⟩) evs1 (g, rs)
    ⟨inv_init g rs hm hl hsorted hcrl hfresh, by
      intro r hr _
      obtain ⟨a, b, c⟩ := hfresh r hr
      refine ⟨fun _ h => by omega, fun h => ?_⟩
      rcases h with h | ⟨_, h⟩
      · rw [c] at h; cases h
      · omega⟩
  have hK : K (ent R) (machine.run (g, rs) evs1) := (h1.2 R hR hk).2 (.inl hok)
  have h2 := Machine.run_inv machine (W (ent R) (machine.run (g, rs) evs1).1.log)
    (fun s e h => w_exec _ _ s e h) evs2 (machine.run (g, rs) evs1) ⟨hK, [], rfl, fun c hc => by cases hc⟩
  rw [Machine.run_append]
  exact ⟨hK.1, h2.2⟩

/-! ## 4. reload: the hypothesis "one generator per database" across a configuration reload -/

/-- `numbers_increase` from any state that satisfies the invariant (not only from a fresh one) -/
theorem numbers_increase_inv (s : G × List Req) (h : Inv s) (evs : List Ev) :
    (numbers (machine.run s evs).1).Pairwise (· < ·) := by
  have h := Machine.run_inv machine Inv (fun s e h => inv_exec s e h) evs s h
  unfold numbers
  rw [List.pairwise_reverse, List.pairwise_map]
  exact h.2.1

theorem step_cache (g : G) (r : Req) : (step g r).1.cache = g.cache := by
  unfold step failExit; (repeat' split) <;> simp

/-- every list stored from now on carries the interval of the configured cache duration -/
theorem interval_new (s : G × List Req) (evs : List Ev) :
    (machine.run s evs).1.cache = s.1.cache ∧
    ∃ new, (machine.run s evs).1.log = new ++ s.1.log ∧ ∀ c ∈ new, c.nextUpdate = c.thisUpdate + s.1.cache := by
  refine Machine.run_inv machine (fun s' => s'.1.cache = s.1.cache ∧
    ∃ new, s'.1.log = new ++ s.1.log ∧ ∀ c ∈ new, c.nextUpdate = c.thisUpdate + s.1.cache) ?_ evs s
    ⟨rfl, [], rfl, fun c hc => by cases hc⟩
  intro s' e ⟨hc, new, hn, hall⟩
  cases e with
  | restart now => exact ⟨hc, new, hn, hall⟩
  | step t =>
    simp only [Machine.exec, machine]
    cases hr : s'.2[t]? with
    | none => exact ⟨hc, new, hn, hall⟩
    | some r =>
      show (step s'.1 r).1.cache = s.1.cache ∧ ∃ new, (step s'.1 r).1.log = new ++ s.1.log ∧ _
      refine ⟨by rw [step_cache]; exact hc, ?_⟩
      by_cases h4 : r.out = .pending ∧ r.pc = 4 ∧ ¬ r.inp.fail = 4
      · have hst : (step s'.1 r).1.log = mkCRL r.prev r.snap r.inp.now s'.1.cache :: s'.1.log := by
          unfold step failExit; simp [h4.1, h4.2.1, h4.2.2]
        refine ⟨mkCRL r.prev r.snap r.inp.now s'.1.cache :: new, by rw [hst, hn]; rfl, ?_⟩
        intro c hcm
        rcases List.mem_cons.1 hcm with h | h
        · subst h; simp [mkCRL, hc]
        · exact hall c h
      · have hst : (step s'.1 r).1.log = s'.1.log := by
          unfold step failExit; (repeat' split) <;> simp_all
        exact ⟨new, by rw [hst, hn], hall⟩

/-! ### reload -/

/-- how the single-authority machine sees a request of the two-authority machine: a tick of a
    stopped old generator is a request that never does anything -/
def pr (q : Req2) : Req := if q.old then { q.r with out := .dropped, holding := false } else q.r

def proj (s2 : G2 × List Req2) : G × List Req := (s2.1.g, s2.2.map pr)

/-- the old generator is stopped and none of its ticks is in flight -/
def OldInert (s2 : G2 × List Req2) : Prop :=
  s2.1.oldStopped = true ∧ ∀ q ∈ s2.2, q.old = true → q.r.out = .pending → q.r.pc = 0

theorem step_nonpending (g : G) (r : Req) (h : r.out ≠ .pending) : step g r = (g, r) := by
  unfold step failExit; simp [h]

theorem step2_sim (g2 : G2) (q : Req2) (hs : g2.oldStopped = true)
    (hq : q.old = true → q.r.out = .pending → q.r.pc = 0) :
    (step2 g2 q).1.g = (step g2.g (pr q)).1 ∧ pr (step2 g2 q).2 = (step g2.g (pr q)).2 ∧
    (step2 g2 q).1.oldStopped = true ∧
    ((step2 g2 q).2.old = true → (step2 g2 q).2.r.out = .pending → (step2 g2 q).2.r.pc = 0) := by
  cases hold : q.old with
  | false =>
    unfold step2 pr; simp [hold, hs]
  | true =>
    have hpr : (pr q).out ≠ .pending := by unfold pr; simp [hold]
    rw [step_nonpending _ _ hpr]
    by_cases hp : q.r.out = .pending
    · have hpc := hq hold hp
      unfold step2 pr; simp [hold, hs, hp, hpc]
    · unfold step2
      simp only [hold, if_true]
      have hn : ¬ (g2.oldStopped = true ∧ q.r.pc = 0 ∧ q.r.out = .pending) := fun h => hp h.2.2
      simp only [hn, if_false]
      rw [step_nonpending _ _ hp]
      refine ⟨by cases g2; rename_i g _ _ _; cases g; rfl, by unfold pr; simp [hold], hs, fun _ h => absurd h hp⟩

theorem sim_exec (s2 : G2 × List Req2) (e : Ev) (h : OldInert s2) :
    proj (machine2.exec s2 e) = machine.exec (proj s2) e ∧ OldInert (machine2.exec s2 e) := by
  obtain ⟨hs, hq⟩ := h
  cases e with
  | restart now =>
    simp only [Machine.exec, machine2, machine, proj, restartG2, List.map_map]
    refine ⟨?_, rfl, ?_⟩
    · congr 1
      apply List.map_congr_left
      intro q _
      simp only [Function.comp, restartL2, pr]
      by_cases hold : q.old = true
      · simp only [hold, if_true]; unfold restartL; split <;> simp
      · simp [hold]
    · intro q hqm hold hp
      rcases List.mem_map.1 hqm with ⟨q', hq', rfl⟩
      revert hp; simp only [restartL2]; unfold restartL
      split
      · simp
      · intro hp; exact hq q' hq' hold hp
  | step t =>
    simp only [Machine.exec, machine2, machine, proj]
    cases hr : s2.2[t]? with
    | none => simp [hr]; exact ⟨hs, hq⟩
    | some q =>
      have hmem := mem_of_getElem? _ _ _ hr
      obtain ⟨a, b, c, d⟩ := step2_sim s2.1 q hs (hq q hmem)
      simp [hr, List.map_set, a, b]
      exact ⟨c, forall_set _ s2.2 t _ hq d⟩

theorem sim_run (s2 : G2 × List Req2) (evs : List Ev) (h : OldInert s2) :
    proj (machine2.run s2 evs) = machine.run (proj s2) evs := by
  induction evs generalizing s2 with
  | nil => rfl
  | cons e evs ih =>
    rw [Machine.run_cons, Machine.run_cons, ih _ (sim_exec s2 e h).2, (sim_exec s2 e h).1]

/-- **reload_discharges.** A reload — new authority on the same database, `CloseForReload` on the
    old one — that stops the old generator restores the hypothesis "one generator per database":
    whatever ticks the old ticker still had ahead of it (`old` requests, not yet fired), and
    whatever the new authority does (start-up generation, ticks, revocations), under every
    interleaving and restart placement the numbers of all lists ever stored are strictly
    increasing, and every list stored from the reload on has the interval
    `[thisUpdate, thisUpdate + the NEW cache duration]`. -/
theorem reload_discharges (g2 : G2) (qs : List Req2) (hstop : g2.oldStopped = true)
    (hm : g2.g.mutex = true) (hl : g2.g.lock = false)
    (hsorted : g2.g.log.Pairwise (fun a b => a.number > b.number)) (hcrl : g2.g.crl = g2.g.log.head?)
    (hfresh : ∀ q ∈ qs, q.r.fresh) (evs : List Ev) :
    (numbers (machine2.run (g2, qs) evs).1.g).Pairwise (· < ·) ∧
    ∃ new, (machine2.run (g2, qs) evs).1.g.log = new ++ g2.g.log ∧
      ∀ c ∈ new, c.nextUpdate = c.thisUpdate + g2.g.cache := by
  have hin : OldInert (g2, qs) := ⟨hstop, fun q hq _ _ => (hfresh q hq).1⟩
  have hsim := sim_run (g2, qs) evs hin
  have hinv : Inv (proj (g2, qs)) := by
    refine ⟨hm, hsorted, hcrl, ?_, ?_⟩
    · simp [proj, hl]
      intro q hq
      unfold pr; split
      · rfl
      · exact (hfresh q hq).2.1
    · intro r hr
      simp only [proj] at hr
      rcases List.mem_map.1 hr with ⟨q, hq, rfl⟩
      obtain ⟨h1, h2, h3⟩ := hfresh q hq
      unfold pr Loc; split <;> simp [h1, h2, h3]
  have h1 := numbers_increase_inv (proj (g2, qs)) hinv evs
  have h2 := interval_new (proj (g2, qs)) evs
  rw [← hsim] at h1 h2
  exact ⟨h1, h2.2⟩

def tick (old : Bool) (now : Nat) : Req2 := { old := old, r := genReq now }

/-- **reload_without_stop (refutation).** If the old authority's generator is *not* stopped by the
    reload (`CloseForReload` doing nothing), a tick of the old ticker after the new authority's
    start-up generation stores a list with the OLD interval (600 s instead of the configured
    3600 s), and an old tick interleaved with a new generation stores the same number twice —
    the two authorities have different mutexes. -/
theorem reload_without_stop :
    ∃ (g2 : G2) (qs : List Req2) (evs evs' : List Ev), g2.oldStopped = false ∧ g2.g.mutex = true ∧
      g2.g.lock = false ∧ g2.oldLock = false ∧ g2.g.log = [] ∧ g2.g.crl = none ∧ (∀ q ∈ qs, q.r.fresh) ∧
      (machine2.run (g2, qs) evs).1.g.log.map (fun c => c.nextUpdate - c.thisUpdate) = [600, 3600] ∧
      numbers (machine2.run (g2, qs) evs').1.g = [0, 0] :=
  ⟨{ g := { revoked := [], crl := none, log := [], lock := false, cache := 3600, mutex := true },
     oldLock := false, oldCache := 600, oldStopped := false },
   [tick false 10, tick true 12],
   [.step 0, .step 0, .step 0, .step 0, .step 0, .step 0, .step 1, .step 1, .step 1, .step 1, .step 1, .step 1],
   [.step 0, .step 1, .step 0, .step 1, .step 0, .step 1, .step 0, .step 1, .step 0, .step 1, .step 0, .step 1],
   by decide⟩

/-- with the old generator stopped the same requests and schedules give one list, interval 3600 -/
def g2stopped : G2 := { g := { revoked := [], crl := none, log := [], lock := false, cache := 3600, mutex := true }, oldLock := false, oldCache := 600, oldStopped := true }

example : (machine2.run (g2stopped, [tick false 10, tick true 12])
   [.step 0, .step 1, .step 0, .step 1, .step 0, .step 1, .step 0, .step 1, .step 0, .step 1, .step 0, .step 1]).1.g.log.map
     (fun c => (c.number, c.nextUpdate - c.thisUpdate)) = [(0, 3600)] := by decide
/-! ## 5. errors inside a generation -/

/-- **failed_generation_harmless.** A generation that fails inside the critical section
    (`GetCRL` with an error other than not-found, `GetRevokedCertificates`, `CreateCRL`/`StoreCRL`)
    leaves the stored list, the history of stored lists and the revoked table exactly as they
    were — the previous list stays served — releases the mutex, and is answered with an error. -/
theorem failed_generation_harmless (g : G) (r : Req) (hm : g.mutex = true) (hp : r.out = .pending)
    (hpc : r.pc = 2 ∨ r.pc = 3 ∨ r.pc = 4) (hf : r.inp.fail = r.pc) :
    (step g r).1.crl = g.crl ∧ (step g r).1.log = g.log ∧ (step g r).1.revoked = g.revoked ∧
    (step g r).1.lock = false ∧ (step g r).2.out = .err ∧ (step g r).2.holding = false := by
  unfold step failExit
  rcases hpc with h | h | h
  · have : r.inp.fail = 2 := by rw [hf, h]
    simp [hp, h, hm, this]
  · have : r.inp.fail = 3 := by rw [hf, h]
    simp [hp, h, hm, this]
  · have : r.inp.fail = 4 := by rw [hf, h]
    simp [hp, h, hm, this]

/-- the history of stored lists carries the numbers k−1, …, 1, 0 -/
def Consec : List CRLRec → Prop
  | [] => True
  | c :: rest => c.number = rest.length ∧ Consec rest

theorem consec_exec (s : G × List Req) (e : Ev) (hi : Inv s) (hc : Consec s.1.log) :
    Consec (machine.exec s e).1.log := by
  cases e with
  | restart now => exact hc
  | step t =>
    simp only [Machine.exec, machine]
    cases hr : s.2[t]? with
    | none => exact hc
    | some r =>
      show Consec (step s.1 r).1.log
      have hmem := mem_of_getElem? _ _ _ hr
      obtain ⟨i1, i2, i3, i4, i5⟩ := hi
      obtain ⟨⟨la, lb⟩, l4⟩ := i5 r hmem
      by_cases h4 : r.out = .pending ∧ r.pc = 4 ∧ ¬ r.inp.fail = 4
      · have hst : (step s.1 r).1.log = mkCRL r.prev r.snap r.inp.now s.1.cache :: s.1.log := by
          unfold step failExit; simp [h4.1, h4.2.1, h4.2.2]
        rw [hst]
        have hh : r.holding = true := lb h4.1 (by omega) (by omega)
        have hprev := l4 hh (.inr h4.2.1)
        refine ⟨?_, hc⟩
        rw [hprev, i3]
        cases hlog : s.1.log with
        | nil => simp [mkCRL]
        | cons c rest =>
          rw [hlog] at hc
          simp [mkCRL, hc.1]
      · have hst : (step s.1 r).1.log = s.1.log := by
          unfold step failExit; (repeat' split) <;> simp_all
        rw [hst]; exact hc

/-- **numbers_consecutive.** Starting from an empty database, in every history — any
    interleaving, restarts, and generations failing at any of their steps — the lists ever
    stored carry exactly the numbers 0, 1, 2, … in storage order: a failed generation does not
    consume a number, and none is skipped or repeated. -/
theorem numbers_consecutive (g : G) (rs : List Req) (hm : g.mutex = true) (hl : g.lock = false)
    (hlog : g.log = []) (hcrl : g.crl = none) (hfresh : ∀ r ∈ rs, r.fresh) (evs : List Ev) :
    numbers (machine.run (g, rs) evs).1 = List.range (machine.run (g, rs) evs).1.log.length := by
  have h := Machine.run_inv machine (fun s => Inv s ∧ Consec s.1.log)
    (fun s e ⟨hi, hc⟩ => ⟨inv_exec s e hi, consec_exec s e hi hc⟩) evs (g, rs)
    ⟨inv_init g rs hm hl (by rw [hlog]; exact List.Pairwise.nil) (by rw [hlog, hcrl]; rfl) hfresh, by rw [hlog]; trivial⟩
  have hc := h.2
  unfold numbers
  generalize (machine.run (g, rs) evs).1.log = l at hc
  induction l with
  | nil => rfl
  | cons c rest ih =>
    simp only [List.map_cons, List.reverse_cons, List.length_cons]
    rw [ih hc.2, hc.1, List.range_succ]

def genFail (now fail : Nat) : Req := { inp := { kind := .gen, key := [], record := ⟨0, none⟩, now := now, fail := fail } }

/-- a failing generation between two successful ones: numbers 0, 1 and the failed request answered `err` -/
example : (fun s : G × List Req => (numbers s.1, s.2.map (·.out), s.1.lock))
    (machine.run ({ revoked := [], crl := none, log := [], lock := false, cache := 600, mutex := true },
      [genReq 10, genFail 11 4, genReq 12])
      [.step 0, .step 0, .step 0, .step 0, .step 0, .step 0, .step 1, .step 1, .step 1, .step 1, .step 1,
       .step 2, .step 2, .step 2, .step 2, .step 2, .step 2]) = ([0, 1], [.ok, .err, .ok], false) := by decide
/-! ## 6. the critical section as the code has it (regenerated table) -/

/-- **crl_section.** Regenerated from /repo on every run (extractor table `Locks`):
    `GenerateCertificateRevocationList` takes `crlMutex` at the top with a deferred unlock, and
    `GetCRL`, `GetRevokedCertificates`, `CreateCRL` and `StoreCRL` are all present and all lie
    lexically inside that section.  This is the hypothesis `mutex = true` / the five-step critical
    section of `numbers_increase`, `on_revoke_visible` and `numbers_consecutive`; if the section
    shrinks this obligation fails closed.  (Same statement as `Verif.Conc.crl_section` of C19, kept
    here so that C08 does not depend on the build of another property's module.) -/
theorem crl_section :
    Verif.Generated.Locks.crlLockedAtTop = true ∧ Verif.Generated.Locks.crlCalls.all (·.2) = true ∧
    ["GetCRL", "GetRevokedCertificates", "CreateCRL", "StoreCRL"].all
      (fun n => Verif.Generated.Locks.crlCalls.any (·.1 == n)) = true := by
  decide

end Verif.CRL
