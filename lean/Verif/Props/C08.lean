import Verif.Model.CRL
import Verif.Generated.Locks
/-!
  C08 — published CRLs are complete and strictly increasing.

  Property theorems about `Verif.CRL` (model of `GenerateCertificateRevocationList` and its
  callers, tied to /repo by the C08 correspondence stages; DER encoding and the signature are
  validated on every fetched list by the harness, not modelled).  Histories are arbitrary event
  lists over arbitrary sets of revocations and generations (start-up, ticks, forced), i.e.
  every interleaving of their atomic steps and every placement of restarts.
  Scope, stated in the hypotheses: one generator per database (`lock` is that authority's mutex);
  section 4 shows that a reload which stops the old generator re-establishes it (`reload_discharges`)
  and what happens when it does not (`reload_without_stop`).
-/
namespace Verif.CRL
open Verif Verif.Store

/-! ## invariants -/

/-- control-state facts of one request (with the mutex in place) -/
def Loc (r : Req) : Prop :=
  (r.holding = true → r.out = .pending ∧ 2 ≤ r.pc ∧ r.pc ≤ 5) ∧
  (r.out = .pending → 2 ≤ r.pc → r.pc ≤ 5 → r.holding = true)

def Inv (s : G × List Req) : Prop :=
  s.1.mutex = true ∧
  s.1.log.Pairwise (fun a b => a.number > b.number) ∧
  s.1.crl = s.1.log.head? ∧
  s.2.countP (·.holding) = (if s.1.lock then 1 else 0) ∧
  (∀ r ∈ s.2, Loc r ∧ (r.holding = true → (r.pc = 3 ∨ r.pc = 4) → r.prev = s.1.crl.map (·.number)))

theorem loc_step (g : G) (r : Req) (hm : g.mutex = true) : Loc r → Loc (step g r).2 := by
  unfold Loc step failExit
  intro ⟨a, b⟩
  split
  · exact ⟨a, b⟩
  · split <;> grind

/-- frame rule: a step that leaves list, log and lock alone and does not change who holds -/
theorem inv_frame (s : G × List Req) (t : Nat) (r x : Req) (g' : G) (h : Inv s)
    (hr : s.2[t]? = some r) (hm : g'.mutex = s.1.mutex) (hlog : g'.log = s.1.log)
    (hcrl : g'.crl = s.1.crl) (hlock : g'.lock = s.1.lock) (hhold : x.holding = r.holding)
    (hloc : Loc x) (h4 : x.holding = true → (x.pc = 3 ∨ x.pc = 4) → x.prev = s.1.crl.map (·.number)) :
    Inv (g', s.2.set t x) := by
  obtain ⟨i1, i2, i3, i4, i5⟩ := h
  refine ⟨by rw [hm]; exact i1, by rw [hlog]; exact i2, by rw [hcrl, hlog]; exact i3, ?_, ?_⟩
  · show (s.2.set t x).countP (·.holding) = _
    rw [hlock, countP_set_same (·.holding) s.2 t r x hr hhold]; exact i4
  · show ∀ y ∈ s.2.set t x, _
    rw [hcrl]
    exact forall_set _ s.2 t x i5 ⟨hloc, h4⟩

theorem holders_le_one (s : G × List Req) (h : Inv s) : s.2.countP (·.holding) ≤ 1 := by
  rw [h.2.2.2.1]; split <;> omega

/-- while `r` (at index `t`) holds the mutex, nobody else in the list does -/
theorem others_not_holding (s : G × List Req) (h : Inv s) (t : Nat) (r x y : Req)
    (hr : s.2[t]? = some r) (hh : r.holding = true) (hy : y ∈ s.2.set t x) :
    y = x ∨ y.holding = false := by
  rcases mem_set_index s.2 t x y hy with h1 | ⟨j, hj, hyj⟩
  · exact .inl h1
  · right
    cases hyh : y.holding with
    | false => rfl
    | true =>
      have := countP_ge_two (·.holding) s.2 t j r y hr hyj (fun h => hj h.symm) hh hyh
      have := holders_le_one s h
      omega

theorem inv_exec (s : G × List Req) (e : Ev) : Inv s → Inv (machine.exec s e) := by
  intro h
  have h' := h
  obtain ⟨i1, i2, i3, i4, i5⟩ := h
  cases e with
  | restart now =>
    simp only [Machine.exec, machine, Inv, restartG]
    refine ⟨i1, i2, i3, ?_, ?_⟩
    · simp
      intro r hr
      have := (i5 r hr).1
      unfold restartL; unfold Loc at this
      split
      · simp
      · rename_i hn
        cases hh : r.holding with
        | false => rfl
        | true => exfalso; apply hn; have := this.1 hh; exact ⟨this.1, by omega⟩
    · intro y hy
      rcases List.mem_map.1 hy with ⟨r, hr, rfl⟩
      obtain ⟨⟨a, b⟩, c⟩ := i5 r hr
      unfold restartL
      split
      · unfold Loc; simp
      · exact ⟨⟨a, b⟩, c⟩
  | step t =>
    simp only [Machine.exec, machine]
    cases hr : s.2[t]? with
    | none => exact h'
    | some r =>
      show Inv ((step s.1 r).1, s.2.set t (step s.1 r).2)
      have hmem := mem_of_getElem? _ _ _ hr
      obtain ⟨⟨la, lb⟩, l4⟩ := i5 r hmem
      have hloc' := loc_step s.1 r i1 ⟨la, lb⟩
      by_cases hp : r.out = .pending
      · -- case analysis on the program counter
        rcases Nat.lt_or_ge r.pc 6 with hlt | hge
        · have hpc : r.pc = 0 ∨ r.pc = 1 ∨ r.pc = 2 ∨ r.pc = 3 ∨ r.pc = 4 ∨ r.pc = 5 := by omega
          by_cases hfail : (r.pc = 2 ∨ r.pc = 3 ∨ r.pc = 4) ∧ r.inp.fail = r.pc
          · -- a failing generation: returns through the deferred unlock, nothing written
            have hh : r.holding = true := lb hp (by omega) (by omega)
            have hst : step s.1 r = ({ s.1 with lock := false }, { r with pc := 6, holding := false, out := .err }) := by
              unfold step failExit
              rcases hfail.1 with h | h | h
              · have hf : r.inp.fail = 2 := by rw [hfail.2, h]
                simp [hp, h, i1, hf]
              · have hf : r.inp.fail = 3 := by rw [hfail.2, h]
                simp [hp, h, i1, hf]
              · have hf : r.inp.fail = 4 := by rw [hfail.2, h]
                simp [hp, h, i1, hf]
            rw [hst]
            have hc := countP_set (·.holding) s.2 t r { r with pc := 6, holding := false, out := .err } hr
            have hle := holders_le_one s h'
            rw [hh] at hc; simp at hc
            refine ⟨i1, i2, i3, ?_, ?_⟩
            · dsimp only
              have h0 : (s.2.set t { r with pc := 6, holding := false, out := .err }).countP (·.holding) = 0 := by omega
              rw [h0]; simp
            · refine forall_set _ s.2 t _ i5 ⟨?_, ?_⟩
              · unfold Loc; simp
              · simp
          have hnf : ∀ n, r.pc = n → (n = 2 ∨ n = 3 ∨ n = 4) → ¬ r.inp.fail = n := by
            intro n hn hn' hf
            exact hfail ⟨by rw [hn]; exact hn', by rw [hf, hn]⟩
          rcases hpc with h0 | h1 | h2 | h3 | h4 | h5
          · -- arrival / the revocation's CAS: the CRL state is untouched
            have hnh : r.holding = false := by
              cases hh : r.holding with
              | false => rfl
              | true => have := (la hh).2.1; omega
            refine inv_frame s t r _ _ h' hr ?_ ?_ ?_ ?_ ?_ hloc' ?_ <;>
              (unfold step failExit; simp only [hp, h0]; (repeat' split) <;> simp_all)
          · by_cases hl : s.1.lock = true
            · -- blocked
              have : step s.1 r = (s.1, r) := by unfold step failExit; simp [hp, h1, i1, hl]
              rw [this]
              exact inv_frame s t r r s.1 h' hr rfl rfl rfl rfl rfl ⟨la, lb⟩ l4
            · -- acquire
              have hl : s.1.lock = false := by simpa using hl
              have hst : step s.1 r = ({ s.1 with lock := true }, { r with pc := 2, holding := true }) := by
                unfold step failExit; simp [hp, h1, i1, hl]
              rw [hst]
              have hnh : r.holding = false := by
                cases hh : r.holding with
                | false => rfl
                | true => have := (la hh).2.1; omega
              have hc := countP_set (·.holding) s.2 t r { r with pc := 2, holding := true } hr
              rw [i4, hl, hnh] at hc; simp at hc
              refine ⟨i1, i2, i3, by simpa using hc, ?_⟩
              refine forall_set _ s.2 t _ i5 ⟨?_, ?_⟩
              · unfold Loc; simp [hp]
              · simp
          · -- read the stored number
            have hst : step s.1 r = (s.1, { r with pc := 3, prev := s.1.crl.map (·.number) }) := by
              unfold step failExit; simp [hp, h2, hnf 2 h2 (.inl rfl)]
            rw [hst]
            exact inv_frame s t r _ s.1 h' hr rfl rfl rfl rfl rfl (by rw [← hst]; exact hloc') (by simp)
          · have hst : step s.1 r = (s.1, { r with pc := 4, snap := s.1.revoked }) := by
              unfold step failExit; simp [hp, h3, hnf 3 h3 (.inr (.inl rfl))]
            rw [hst]
            exact inv_frame s t r _ s.1 h' hr rfl rfl rfl rfl rfl (by rw [← hst]; exact hloc')
              (fun hh _ => l4 hh (.inl h3))
          · -- store
            have hh : r.holding = true := lb hp (by omega) (by omega)
            have hprev := l4 hh (.inr h4)
            have hst : step s.1 r = ({ s.1 with crl := some (mkCRL r.prev r.snap r.inp.now s.1.cache), log := mkCRL r.prev r.snap r.inp.now s.1.cache :: s.1.log }, { r with pc := 5 }) := by
              unfold step failExit; simp [hp, h4, hnf 4 h4 (.inr (.inr rfl))]
            rw [hst]
            refine ⟨i1, ?_, rfl, ?_, ?_⟩
            · show (mkCRL r.prev r.snap r.inp.now s.1.cache :: s.1.log).Pairwise _
              rw [List.pairwise_cons]
              refine ⟨?_, i2⟩
              intro b hb
              rw [hprev, i3]
              cases hlog : s.1.log with
              | nil => rw [hlog] at hb; cases hb
              | cons c rest =>
                rw [hlog] at hb i2
                simp [mkCRL]
                rcases List.mem_cons.1 hb with hbc | hbr
                · subst hbc; omega
                · have := (List.pairwise_cons.1 i2).1 b hbr; omega
            · have hcs := countP_set_same (·.holding) s.2 t r { r with pc := 5 } hr rfl
              dsimp only
              rw [hcs]; exact i4
            · intro y hy
              rcases others_not_holding s h' t r _ y hr hh hy with hyx | hyn
              · subst hyx
                refine ⟨by rw [← hst]; exact hloc', ?_⟩
                intro _ hpc; simp at hpc
              · rcases mem_set_cases s.2 t _ y hy with hyx | hyl
                · subst hyx; simp [hh] at hyn
                · exact ⟨(i5 y hyl).1, fun hyh => by rw [hyn] at hyh; cases hyh⟩
          · -- unlock
            have hh : r.holding = true := lb hp (by omega) (by omega)
            have hst : step s.1 r = ({ s.1 with lock := false }, { r with pc := 6, holding := false, out := .ok }) := by
              unfold step failExit; simp [hp, h5, i1]
            rw [hst]
            have hc := countP_set (·.holding) s.2 t r { r with pc := 6, holding := false, out := .ok } hr
            have hle := holders_le_one s h'
            rw [hh] at hc; simp at hc
            refine ⟨i1, i2, i3, ?_, ?_⟩
            · dsimp only
              have h0 : (s.2.set t { r with pc := 6, holding := false, out := .ok }).countP (·.holding) = 0 := by omega
              rw [h0]; simp
            · refine forall_set _ s.2 t _ i5 ⟨?_, ?_⟩
              · unfold Loc; simp
              · simp
        · have : step s.1 r = (s.1, r) := by
            unfold step failExit; simp only [hp]; simp
            split <;> first | omega | rfl
          rw [this]
          exact inv_frame s t r r s.1 h' hr rfl rfl rfl rfl rfl ⟨la, lb⟩ l4
      · have : step s.1 r = (s.1, r) := by unfold step failExit; simp [hp]
        rw [this]
        exact inv_frame s t r r s.1 h' hr rfl rfl rfl rfl rfl ⟨la, lb⟩ l4

theorem inv_init (g : G) (rs : List Req) (hm : g.mutex = true) (hl : g.lock = false)
    (hsorted : g.log.Pairwise (fun a b => a.number > b.number)) (hcrl : g.crl = g.log.head?)
    (hfresh : ∀ r ∈ rs, r.fresh) : Inv (g, rs) := by
  refine ⟨hm, hsorted, hcrl, ?_, ?_⟩
  · simp [hl]; intro r hr; exact (hfresh r hr).2.1
  · intro r hr
    obtain ⟨h1, h2, h3⟩ := hfresh r hr
    unfold Loc; simp [h1, h2, h3]

/-! ## 1. numbers strictly increase -/

/-- **numbers_increase.** One process per database, the mutex as written. Start from any durable
    state whose history of stored lists is strictly increasing and whose current list is the
    last one stored (in particular: the empty database). For every set of revocations (with or
    without generate-on-revoke) and generations (start-up, ticks, forced), every interleaving of
    their atomic steps and every placement of restarts, the numbers of the lists ever stored —
    old and new, in storage order — are strictly increasing: every list the CA can serve has a
    number greater than every list served before, also across restarts. -/
theorem numbers_increase (g : G) (rs : List Req) (hm : g.mutex = true) (hl : g.lock = false)
    (hsorted : g.log.Pairwise (fun a b => a.number > b.number)) (hcrl : g.crl = g.log.head?)
    (hfresh : ∀ r ∈ rs, r.fresh) (evs : List Ev) :
    (numbers (machine.run (g, rs) evs).1).Pairwise (· < ·) := by
  have h := Machine.run_inv machine Inv (fun s e h => inv_exec s e h) evs (g, rs)
    (inv_init g rs hm hl hsorted hcrl hfresh)
  unfold numbers
  rw [List.pairwise_reverse, List.pairwise_map]
  exact h.2.1

/-- nothing is ever removed from the history of stored lists, and the current list is the newest -/
theorem log_grows (s : G × List Req) (evs : List Ev) :
    ∃ new, (machine.run s evs).1.log = new ++ s.1.log := by
  refine Machine.run_inv machine (fun s' => ∃ new, s'.1.log = new ++ s.1.log) ?_ evs s ⟨[], rfl⟩
  intro s' e ⟨new, hn⟩
  cases e with
  | restart now => exact ⟨new, hn⟩
  | step t =>
    simp only [Machine.exec, machine]
    cases hr : s'.2[t]? with
    | none => exact ⟨new, hn⟩
    | some r =>
      show ∃ new, (step s'.1 r).1.log = new ++ s.1.log
      unfold step failExit
      (repeat' split) <;> first | exact ⟨new, hn⟩ | exact ⟨mkCRL r.prev r.snap r.inp.now s'.1.cache :: new, by simp [hn]⟩

def genReq (now : Nat) : Req := { inp := { kind := .gen, key := [], record := ⟨0, none⟩, now := now } }

/-- **needs_mutex (refutation of the lock-free variant).** The same steps without
    `crlMutex.Lock()` admit a schedule in which two generations read the same previous number
    and store the same number twice: the mutual exclusion is what `numbers_increase` rests on. -/
theorem needs_mutex :
    ∃ (g : G) (rs : List Req) (evs : List Ev), g.mutex = false ∧ g.lock = false ∧ g.log = [] ∧ g.crl = none ∧
      (∀ r ∈ rs, r.fresh) ∧ numbers (machine.run (g, rs) evs).1 = [0, 0] :=
  ⟨{ revoked := [], crl := none, log := [], lock := false, cache := 600, mutex := false },
   [genReq 10, genReq 10],
   [.step 0, .step 1, .step 0, .step 1, .step 0, .step 1, .step 0, .step 1, .step 0, .step 1, .step 0, .step 1],
   by decide⟩

/-- with the mutex the same schedule stores 0 then 1 (the second generation waits) -/
example : numbers (machine.run ({ revoked := [], crl := none, log := [], lock := false, cache := 600, mutex := true },
    [genReq 10, genReq 10])
    [.step 0, .step 1, .step 0, .step 1, .step 0, .step 1, .step 0, .step 1, .step 0, .step 1, .step 0, .step 1,
     .step 1, .step 1, .step 1, .step 1, .step 1]).1 = [0, 1] := by decide

/-- **restart_continues.** Whatever the process was doing when it stopped (the mutex may have
    been held: `g.lock` is arbitrary), after a restart the start-up generation is not blocked and
    stores the durable number + 1 (or 0 on an empty database); the earlier lists are kept. -/
theorem restart_continues (g : G) (hm : g.mutex = true) (now t : Nat) :
    let s := machine.run (g, [genReq t]) [.restart now, .step 0, .step 0, .step 0, .step 0, .step 0, .step 0]
    s.1.log = mkCRL (g.crl.map (·.number)) g.revoked t g.cache :: g.log ∧
    s.1.crl = some (mkCRL (g.crl.map (·.number)) g.revoked t g.cache) ∧ s.1.lock = false ∧
    s.2.map (·.out) = [.ok] := by
  simp [Machine.run, Machine.exec, machine, step, restartG, restartL, genReq, hm]

/-! ## 2. what a stored list contains: entries and interval -/

/-- every list in the history was made by `mkCRL` from a snapshot of revoked records -/
def Made (s : G × List Req) : Prop :=
  (∀ c ∈ s.1.log, ∃ prev snap now, c = mkCRL prev snap now s.1.cache ∧ ∀ e ∈ snap, e ∈ s.1.revoked) ∧
  (∀ r ∈ s.2, ∀ e ∈ r.snap, e ∈ s.1.revoked)

theorem mem_casNil {ν : Type} (m : Map ν) (k : Str) (v : ν) (e : Str × ν) (h : e ∈ m) : e ∈ (casNil m k v).1 := by
  unfold casNil; split
  · exact h
  · exact List.mem_cons_of_mem _ h

theorem made_exec (s : G × List Req) (e : Ev) : Made s → Made (machine.exec s e) := by
  intro ⟨hlog, hsnap⟩
  cases e with
  | restart now =>
    simp only [Machine.exec, machine, Made, restartG]
    refine ⟨hlog, ?_⟩
    intro r hr
    rcases List.mem_map.1 hr with ⟨r', hr', rfl⟩
    have : (restartL r').snap = r'.snap := by unfold restartL; split <;> simp
    rw [this]; exact hsnap r' hr'
  | step t =>
    simp only [Machine.exec, machine]
    cases hr : s.2[t]? with
    | none => exact ⟨hlog, hsnap⟩
    | some r =>
      show Made ((step s.1 r).1, s.2.set t (step s.1 r).2)
      have hmem := mem_of_getElem? _ _ _ hr
      have hrs := hsnap r hmem
      unfold Made; dsimp only
      unfold step failExit
      (repeat' split) <;> dsimp only
      all_goals first
        | exact ⟨hlog, forall_set _ s.2 t _ hsnap (by first | exact hrs | (intro e he; exact he))⟩
        | (refine ⟨?_, forall_set _ s.2 t _ (fun y hy e he => mem_casNil _ _ _ e (hsnap y hy e he)) (fun e he => mem_casNil _ _ _ e (hrs e he))⟩
           intro c hc
           obtain ⟨p, sn, nw, h1, h2⟩ := hlog c hc
           exact ⟨p, sn, nw, h1, fun e he => mem_casNil _ _ _ e (h2 e he)⟩)
        | (refine ⟨?_, forall_set _ s.2 t _ hsnap hrs⟩
           intro c hc
           rcases List.mem_cons.1 hc with h | h
           · exact ⟨r.prev, r.snap, r.inp.now, h, hrs⟩
           · exact hlog c h)

/-- **entries_exact / interval_exact.** In every history that starts with an empty list history,
    every list ever stored has: validity interval `[now, now + cache duration]` for the clock
    reading `now` of its generation, and as entries exactly the (serial, revocation time) pairs
    of those records of its snapshot of the revoked table that have no expiry or had not expired
    more than the retention window (1 h) before `now`; every snapshot record is a record of the
    revoked table (so nothing is listed that was not revoked, with its stored revocation time). -/
theorem entries_exact (g : G) (hlog : g.log = []) (rs : List Req) (hfresh : ∀ r ∈ rs, r.snap = []) (evs : List Ev)
    (c : CRLRec) (hc : c ∈ (machine.run (g, rs) evs).1.log) :
    ∃ (snap : List (Str × RevRec)) (now : Nat), c.thisUpdate = now ∧ c.nextUpdate = now + (machine.run (g, rs) evs).1.cache ∧
      c.entries = (snap.filter (fun e => e.2.expiresAt = none ∨ ∃ x, e.2.expiresAt = some x ∧ now ≤ x + 3600)).map (fun e => (e.1, e.2.revokedAt)) ∧
      ∀ e ∈ snap, e ∈ (machine.run (g, rs) evs).1.revoked := by
  have h := Machine.run_inv machine Made (fun s e h => made_exec s e h) evs (g, rs)
    ⟨(by intro c hc; rw [hlog] at hc; cases hc), (by intro r hr e he; rw [hfresh r hr] at he; cases he)⟩
  obtain ⟨p, sn, nw, h1, h2⟩ := h.1 c hc
  refine ⟨sn, nw, by rw [h1]; rfl, by rw [h1]; rfl, ?_, h2⟩
  rw [h1]; unfold mkCRL; dsimp only
  congr 1
  apply List.filter_congr
  intro e _
  unfold keep retention
  cases e.2.expiresAt <;> simp

/-! ## 3. generate-on-revoke: an acknowledged revocation is in every list stored afterwards -/

/-- every generation that has taken its snapshot and may still store has `e` in the snapshot -/
def K (e : Str × RevRec) (s : G × List Req) : Prop :=
  e ∈ s.1.revoked ∧ ∀ y ∈ s.2, y.out = .pending → (y.pc = 4 ∨ y.pc = 5) → e ∈ y.snap

theorem step_revoked_mono (g : G) (r : Req) (e : Str × RevRec) (h : e ∈ g.revoked) : e ∈ (step g r).1.revoked := by
  unfold step failExit
  (repeat' split) <;> first | exact h | exact mem_casNil _ _ _ e h

theorem step_snap (g : G) (r : Req) (e : Str × RevRec) (h : e ∈ g.revoked)
    (hr : r.out = .pending → (r.pc = 4 ∨ r.pc = 5) → e ∈ r.snap) :
    (step g r).2.out = .pending → ((step g r).2.pc = 4 ∨ (step g r).2.pc = 5) → e ∈ (step g r).2.snap := by
  unfold step failExit
  (repeat' split) <;> simp_all

theorem k_exec (e : Str × RevRec) (s : G × List Req) (ev : Ev) : K e s → K e (machine.exec s ev) := by
  intro ⟨h1, h2⟩
  cases ev with
  | restart now =>
    simp only [Machine.exec, machine, K, restartG]
    refine ⟨h1, ?_⟩
    intro y hy
    rcases List.mem_map.1 hy with ⟨r, hr, rfl⟩
    unfold restartL
    split
    · simp
    · exact h2 r hr
  | step t =>
    simp only [Machine.exec, machine]
    cases hr : s.2[t]? with
    | none => exact ⟨h1, h2⟩
    | some r =>
      show K e ((step s.1 r).1, s.2.set t (step s.1 r).2)
      have hmem := mem_of_getElem? _ _ _ hr
      refine ⟨step_revoked_mono s.1 r e h1, ?_⟩
      exact forall_set _ s.2 t _ h2 (step_snap s.1 r e h1 (h2 r hmem))

def ent (r : Req) : Str × RevRec := (r.inp.key, r.inp.record)

/-- a generate-on-revoke revocation that has got the mutex (or has been acknowledged) is seen by
    everybody who can still store; once past its CAS its record is in the table -/
def Q (s : G × List Req) : Prop :=
  ∀ r ∈ s.2, r.inp.kind = .revoke true →
    ((r.out = .pending → 1 ≤ r.pc → ent r ∈ s.1.revoked) ∧ (r.out = .ok ∨ (r.out = .pending ∧ 2 ≤ r.pc) → K (ent r) s))

theorem step_inp (g : G) (r : Req) : (step g r).2.inp = r.inp := by
  unfold step failExit; (repeat' split) <;> simp

theorem q_exec (s : G × List Req) (ev : Ev) (hinv : Inv s) : Q s → Q (machine.exec s ev) := by
  intro hq
  have hinv' := inv_exec s ev hinv
  cases ev with
  | restart now =>
    intro y hy hk
    simp only [Machine.exec, machine] at hy
    rcases List.mem_map.1 hy with ⟨r, hr, rfl⟩
    have hi : (restartL r).inp = r.inp := by unfold restartL; split <;> simp
    have hent : ent (restartL r) = ent r := by unfold ent; rw [hi]
    rw [hi] at hk
    obtain ⟨q1, q2⟩ := hq r hr hk
    rw [hent]
    refine ⟨?_, ?_⟩
    · intro hp hpc
      have : restartL r = r := by
        revert hp; unfold restartL; split <;> simp
      rw [this] at hp hpc
      exact q1 hp hpc
    · intro h
      apply k_exec (ent r) s (.restart now)
      apply q2
      revert h; unfold restartL; split <;> simp_all
  | step t =>
    cases hr : s.2[t]? with
    | none =>
      have : machine.exec s (.step t) = s := by simp [Machine.exec, hr]
      rw [this]; exact hq
    | some r =>
      have hmem := mem_of_getElem? _ _ _ hr
      have hex : machine.exec s (.step t) = ((step s.1 r).1, s.2.set t (step s.1 r).2) := by
        simp [Machine.exec, machine, hr]
      intro y hy hk
      rw [hex] at hy
      rcases mem_set_cases s.2 t _ y hy with hyx | hyl
      · -- the stepping request itself
        subst hyx
        have hi := step_inp s.1 r
        have hent : ent (step s.1 r).2 = ent r := by unfold ent; rw [hi]
        rw [hi] at hk
        obtain ⟨q1, q2⟩ := hq r hmem hk
        rw [hent]
        refine ⟨?_, ?_⟩
        · intro hp hpc
          rw [hex]
          by_cases h0 : r.out = .pending ∧ 1 ≤ r.pc
          · exact step_revoked_mono s.1 r _ (q1 h0.1 h0.2)
          · -- it was the CAS step
            have hp0 : r.out = .pending := by
              revert hp; unfold step failExit; (repeat' split) <;> simp_all
            have hpc0 : r.pc = 0 := by
              cases hz : r.pc with
              | zero => rfl
              | succ n => exact absurd ⟨hp0, by omega⟩ h0
            revert hp hpc
            unfold step failExit ent
            simp only [hp0, hpc0, hk]
            by_cases hc : (casNil s.1.revoked r.inp.key r.inp.record).2 = true
            · have hn := (casNil_swapped _ _ _).1 hc
              simp [hc]
              unfold casNil; simp [hn]
            · simp [hc]
        · intro h
          by_cases hold : r.out = .ok ∨ (r.out = .pending ∧ 2 ≤ r.pc)
          · exact k_exec (ent r) s (.step t) (q2 hold)
          · -- it just acquired the mutex: nobody else is between snapshot and unlock
            have hp : r.out = .pending := by
              revert h hold; unfold step failExit; (repeat' split) <;> simp_all
            have hpc : r.pc = 1 := by
              revert h hold; unfold step failExit; simp only [hp]; (repeat' split) <;> simp_all <;> omega
            have hfree : s.1.lock = false := by
              revert h; unfold step failExit; simp only [hp, hpc, hinv.1]
              cases hl : s.1.lock <;> simp [hpc, hp]
            have hin : ent r ∈ s.1.revoked := q1 hp (by omega)
            rw [hex]
            refine ⟨step_revoked_mono s.1 r _ hin, ?_⟩
            have hnone : ∀ z ∈ s.2, z.holding = false := by
              have := hinv.2.2.2.1
              rw [hfree] at this; simp at this
              exact this
            intro z hz hzp hzpc
            rcases mem_set_cases s.2 t _ z hz with hzx | hzl
            · subst hzx
              exfalso; revert hzpc; unfold step failExit; simp [hp, hpc, hinv.1, hfree]
            · have := ((hinv.2.2.2.2 z hzl).1).2 hzp (by omega) (by omega)
              rw [hnone z hzl] at this; cases this
      · obtain ⟨q1, q2⟩ := hq y hyl hk
        refine ⟨fun hp hpc => by rw [hex]; exact step_revoked_mono s.1 r _ (q1 hp hpc), fun h => ?_⟩
        have := k_exec (ent y) s (.step t) (q2 h)
        exact this

theorem mem_entries (prev : Option Nat) (snap : List (Str × RevRec)) (now cache : Nat) (e : Str × RevRec)
    (he : e ∈ snap) (hk : keep now e = true) : (e.1, e.2.revokedAt) ∈ (mkCRL prev snap now cache).entries := by
  unfold mkCRL; dsimp only
  exact List.mem_map.2 ⟨e, List.mem_filter.2 ⟨he, hk⟩, rfl⟩

/-- lists stored from now on contain `e` unless it is outside the retention window -/
def W (e : Str × RevRec) (log1 : List CRLRec) (s : G × List Req) : Prop :=
  K e s ∧ ∃ new, s.1.log = new ++ log1 ∧
    ∀ c ∈ new, keep c.thisUpdate e = true → (e.1, e.2.revokedAt) ∈ c.entries

theorem w_exec (e : Str × RevRec) (log1 : List CRLRec) (s : G × List Req) (ev : Ev) :
    W e log1 s → W e log1 (machine.exec s ev) := by
  intro ⟨hk, new, hlog, hall⟩
  refine ⟨k_exec e s ev hk, ?_⟩
  cases ev with
  | restart now => exact ⟨new, hlog, hall⟩
  | step t =>
    simp only [Machine.exec, machine]
    cases hr : s.2[t]? with
    | none => exact ⟨new, hlog, hall⟩
    | some r =>
      show ∃ new, (step s.1 r).1.log = new ++ log1 ∧ _
      have hmem := mem_of_getElem? _ _ _ hr
      by_cases h4 : r.out = .pending ∧ r.pc = 4 ∧ ¬ r.inp.fail = 4
      · have hst : (step s.1 r).1.log = mkCRL r.prev r.snap r.inp.now s.1.cache :: s.1.log := by
          unfold step failExit; simp [h4.1, h4.2.1, h4.2.2]
        refine ⟨mkCRL r.prev r.snap r.inp.now s.1.cache :: new, by rw [hst, hlog]; rfl, ?_⟩
        intro c hc hkeep
        rcases List.mem_cons.1 hc with h | h
        · subst h
          exact mem_entries _ _ _ _ e (hk.2 r hmem h4.1 (.inl h4.2.1)) hkeep
        · exact hall c h hkeep
      · have hst : (step s.1 r).1.log = s.1.log := by
          unfold step failExit; (repeat' split) <;> simp_all
        exact ⟨new, by rw [hst, hlog], hall⟩

/-- **on_revoke_visible.** With generate-on-revoke: take any history `evs1` after which a
    revocation `R` has been acknowledged. Every list stored during any continuation `evs2`
    — by ticks, start-up generations after restarts, or other revocations, under any
    interleaving — contains `R`'s serial with its revocation time, unless the certificate
    expired more than the retention window before that list's `thisUpdate`. In particular the
    list served right after the acknowledgement (the newest stored one) contains it. -/
theorem on_revoke_visible (g : G) (rs : List Req) (hm : g.mutex = true) (hl : g.lock = false)
    (hsorted : g.log.Pairwise (fun a b => a.number > b.number)) (hcrl : g.crl = g.log.head?)
    (hfresh : ∀ r ∈ rs, r.fresh) (evs1 evs2 : List Ev) (R : Req)
    (hR : R ∈ (machine.run (g, rs) evs1).2) (hk : R.inp.kind = .revoke true) (hok : R.out = .ok) :
    (R.inp.key, R.inp.record) ∈ (machine.run (g, rs) evs1).1.revoked ∧
    ∃ new, (machine.run (g, rs) (evs1 ++ evs2)).1.log = new ++ (machine.run (g, rs) evs1).1.log ∧
      ∀ c ∈ new, keep c.thisUpdate (R.inp.key, R.inp.record) = true →
        (R.inp.key, R.inp.record.revokedAt) ∈ c.entries := by
  have h1 := Machine.run_inv machine (fun s => Inv s ∧ Q s)
    (fun s e ⟨hi, hq⟩ => ⟨inv_exec s e hi, q_exec s e hi hq⟩) evs1 (g, rs)
    ⟨inv_init g rs hm hl hsorted hcrl hfresh, by
      intro r hr _
      obtain ⟨a, b, c⟩ := hfresh r hr
      refine ⟨fun _ h => by omega, fun h => ?_⟩
      rcases h with h | ⟨_, h⟩
      · rw [c] at h; cases h
      · omega⟩
  have hK : K (ent R) (machine.run (g, rs) evs1) := (h1.2 R hR hk).2 (.inl hok)
  have h2 := Machine.run_inv machine (W (ent R) (machine.run (g, rs) evs1).1.log)
    (fun s e h => w_exec _ _ s e h) evs2 (machine.run (g, rs) evs1) ⟨hK, [], rfl, fun c hc => by cases hc⟩
  rw [Machine.run_append]
  exact ⟨hK.1, h2.2⟩

/-! ## 4. reload: the hypothesis "one generator per database" across a configuration reload -/

/-- `numbers_increase` from any state that satisfies the invariant (not only from a fresh one) -/
theorem numbers_increase_inv (s : G × List Req) (h : Inv s) (evs : List Ev) :
    (numbers (machine.run s evs).1).Pairwise (· < ·) := by
  have h := Machine.run_inv machine Inv (fun s e h => inv_exec s e h) evs s h
  unfold numbers
  rw [List.pairwise_reverse, List.pairwise_map]
  exact h.2.1

theorem step_cache (g : G) (r : Req) : (step g r).1.cache = g.cache := by
  unfold step failExit; (repeat' split) <;> simp

/-- every list stored from now on carries the interval of the configured cache duration -/
theorem interval_new (s : G × List Req) (evs : List Ev) :
    (machine.run s evs).1.cache = s.1.cache ∧
    ∃ new, (machine.run s evs).1.log = new ++ s.1.log ∧ ∀ c ∈ new, c.nextUpdate = c.thisUpdate + s.1.cache := by
  refine Machine.run_inv machine (fun s' => s'.1.cache = s.1.cache ∧
    ∃ new, s'.1.log = new ++ s.1.log ∧ ∀ c ∈ new, c.nextUpdate = c.thisUpdate + s.1.cache) ?_ evs s
    ⟨rfl, [], rfl, fun c hc => by cases hc⟩
  intro s' e ⟨hc, new, hn, hall⟩
  cases e with
  | restart now => exact ⟨hc, new, hn, hall⟩
  | step t =>
    simp only [Machine.exec, machine]
    cases hr : s'.2[t]? with
    | none => exact ⟨hc, new, hn, hall⟩
    | some r =>
      show (step s'.1 r).1.cache = s.1.cache ∧ ∃ new, (step s'.1 r).1.log = new ++ s.1.log ∧ _
      refine ⟨by rw [step_cache]; exact hc, ?_⟩
      by_cases h4 : r.out = .pending ∧ r.pc = 4 ∧ ¬ r.inp.fail = 4
      · have hst : (step s'.1 r).1.log = mkCRL r.prev r.snap r.inp.now s'.1.cache :: s'.1.log := by
          unfold step failExit; simp [h4.1, h4.2.1, h4.2.2]
        refine ⟨mkCRL r.prev r.snap r.inp.now s'.1.cache :: new, by rw [hst, hn]; rfl, ?_⟩
        intro c hcm
        rcases List.mem_cons.1 hcm with h | h
        · subst h; simp [mkCRL, hc]
        · exact hall c h
      · have hst : (step s'.1 r).1.log = s'.1.log := by
          unfold step failExit; (repeat' split) <;> simp_all
        exact ⟨new, by rw [hst, hn], hall⟩

/-! ### reload -/

/-- how the single-authority machine sees a request of the two-authority machine: a tick of a
    stopped old generator is a request that never does anything -/
def pr (q : Req2) : Req := if q.old then { q.r with out := .dropped, holding := false } else q.r

def proj (s2 : G2 × List Req2) : G × List Req := (s2.1.g, s2.2.map pr)

/-- the old generator is stopped and none of its ticks is in flight -/
def OldInert (s2 : G2 × List Req2) : Prop :=
  s2.1.oldStopped = true ∧ ∀ q ∈ s2.2, q.stop = false ∧ (q.old = true → q.r.out = .pending → q.r.pc = 0)

theorem step_nonpending (g : G) (r : Req) (h : r.out ≠ .pending) : step g r = (g, r) := by
  unfold step failExit; simp [h]

theorem step2_sim (g2 : G2) (q : Req2) (hs : g2.oldStopped = true) (hst : q.stop = false)
    (hq : q.old = true → q.r.out = .pending → q.r.pc = 0) :
    (step2 g2 q).1.g = (step g2.g (pr q)).1 ∧ pr (step2 g2 q).2 = (step g2.g (pr q)).2 ∧
    (step2 g2 q).1.oldStopped = true ∧ (step2 g2 q).2.stop = false ∧
    ((step2 g2 q).2.old = true → (step2 g2 q).2.r.out = .pending → (step2 g2 q).2.r.pc = 0) := by
  cases hold : q.old with
  | false =>
    unfold step2 pr; simp [hold, hs, hst]
  | true =>
    have hpr : (pr q).out ≠ .pending := by unfold pr; simp [hold]
    rw [step_nonpending _ _ hpr]
    by_cases hp : q.r.out = .pending
    · have hpc := hq hold hp
      unfold step2 pr; simp [hold, hs, hp, hpc, hst]
    · unfold step2
      simp only [hold, hst, if_true]
      have hn : ¬ (g2.oldStopped = true ∧ q.r.pc = 0 ∧ q.r.out = .pending) := fun h => hp h.2.2
      simp [hn]
      rw [step_nonpending _ _ hp]
      refine ⟨?_, by unfold pr; simp [hold], hs, fun h => absurd h hp⟩
      unfold oldView
      cases g2 with
      | mk g ol oc os sh => cases g; cases sh <;> rfl

theorem sim_exec (s2 : G2 × List Req2) (e : Ev) (h : OldInert s2) :
    proj (machine2.exec s2 e) = machine.exec (proj s2) e ∧ OldInert (machine2.exec s2 e) := by
  obtain ⟨hs, hq⟩ := h
  cases e with
  | restart now =>
    simp only [Machine.exec, machine2, machine, proj, restartG2, List.map_map]
    refine ⟨?_, rfl, ?_⟩
    · congr 1
      apply List.map_congr_left
      intro q _
      simp only [Function.comp, restartL2, pr]
      by_cases hold : q.old = true
      · simp only [hold, if_true]; unfold restartL; split <;> simp
      · simp [hold]
    · intro q hqm
      rcases List.mem_map.1 hqm with ⟨q', hq', rfl⟩
      refine ⟨(hq q' hq').1, ?_⟩
      intro hold hp
      revert hp; simp only [restartL2]; unfold restartL
      split
      · simp
      · intro hp; exact (hq q' hq').2 hold hp
  | step t =>
    simp only [Machine.exec, machine2, machine, proj]
    cases hr : s2.2[t]? with
    | none => simp [hr]; exact ⟨hs, hq⟩
    | some q =>
      have hmem := mem_of_getElem? _ _ _ hr
      obtain ⟨a, b, c, d1, d2⟩ := step2_sim s2.1 q hs (hq q hmem).1 (hq q hmem).2
      simp [hr, List.map_set, a, b]
      exact ⟨c, forall_set _ s2.2 t _ hq ⟨d1, d2⟩⟩

theorem sim_run (s2 : G2 × List Req2) (evs : List Ev) (h : OldInert s2) :
    proj (machine2.run s2 evs) = machine.run (proj s2) evs := by
  induction evs generalizing s2 with
  | nil => rfl
  | cons e evs ih =>
    rw [Machine.run_cons, Machine.run_cons, ih _ (sim_exec s2 e h).2, (sim_exec s2 e h).1]

/-- **reload_discharges.** A reload — new authority on the same database, `CloseForReload` on the
    old one — that stops the old generator restores the hypothesis "one generator per database":
    whatever ticks the old ticker still had ahead of it (`old` requests, not yet fired), and
    whatever the new authority does (start-up generation, ticks, revocations), under every
    interleaving and restart placement the numbers of all lists ever stored are strictly
    increasing, and every list stored from the reload on has the interval
    `[thisUpdate, thisUpdate + the NEW cache duration]`. -/
theorem reload_discharges (g2 : G2) (qs : List Req2) (hstop : g2.oldStopped = true)
    (hm : g2.g.mutex = true) (hl : g2.g.lock = false)
    (hsorted : g2.g.log.Pairwise (fun a b => a.number > b.number)) (hcrl : g2.g.crl = g2.g.log.head?)
    (hfresh : ∀ q ∈ qs, q.r.fresh ∧ q.stop = false) (evs : List Ev) :
    (numbers (machine2.run (g2, qs) evs).1.g).Pairwise (· < ·) ∧
    ∃ new, (machine2.run (g2, qs) evs).1.g.log = new ++ g2.g.log ∧
      ∀ c ∈ new, c.nextUpdate = c.thisUpdate + g2.g.cache := by
  have hfresh' : ∀ q ∈ qs, q.r.fresh := fun q hq => (hfresh q hq).1
  have hin : OldInert (g2, qs) := ⟨hstop, fun q hq => ⟨(hfresh q hq).2, fun _ _ => (hfresh q hq).1.1⟩⟩
  have hsim := sim_run (g2, qs) evs hin
  have hinv : Inv (proj (g2, qs)) := by
    refine ⟨hm, hsorted, hcrl, ?_, ?_⟩
    · simp [proj, hl]
      intro q hq
      unfold pr; split
      · rfl
      · exact (hfresh' q hq).2.1
    · intro r hr
      simp only [proj] at hr
      rcases List.mem_map.1 hr with ⟨q, hq, rfl⟩
      obtain ⟨h1, h2, h3⟩ := hfresh' q hq
      unfold pr Loc; split <;> simp [h1, h2, h3]
  have h1 := numbers_increase_inv (proj (g2, qs)) hinv evs
  have h2 := interval_new (proj (g2, qs)) evs
  rw [← hsim] at h1 h2
  exact ⟨h1, h2.2⟩

def tick (old : Bool) (now : Nat) : Req2 := { old := old, r := genReq now }

/-- **reload_without_stop (refutation).** If the old authority's generator is *not* stopped by the
    reload (`CloseForReload` doing nothing), a tick of the old ticker after the new authority's
    start-up generation stores a list with the OLD interval (600 s instead of the configured
    3600 s), and an old tick interleaved with a new generation stores the same number twice —
    the two authorities have different mutexes. -/
theorem reload_without_stop :
    ∃ (g2 : G2) (qs : List Req2) (evs evs' : List Ev), g2.oldStopped = false ∧ g2.shared = false ∧ g2.g.mutex = true ∧
      g2.g.lock = false ∧ g2.oldLock = false ∧ g2.g.log = [] ∧ g2.g.crl = none ∧ (∀ q ∈ qs, q.r.fresh) ∧
      (machine2.run (g2, qs) evs).1.g.log.map (fun c => c.nextUpdate - c.thisUpdate) = [600, 3600] ∧
      numbers (machine2.run (g2, qs) evs').1.g = [0, 0] :=
  ⟨{ g := { revoked := [], crl := none, log := [], lock := false, cache := 3600, mutex := true },
     oldLock := false, oldCache := 600, oldStopped := false, shared := false },
   [tick false 10, tick true 12],
   [.step 0, .step 0, .step 0, .step 0, .step 0, .step 0, .step 1, .step 1, .step 1, .step 1, .step 1, .step 1],
   [.step 0, .step 1, .step 0, .step 1, .step 0, .step 1, .step 0, .step 1, .step 0, .step 1, .step 0, .step 1],
   by decide⟩

/-- with the old generator stopped the same requests and schedules give one list, interval 3600 -/
def g2stopped : G2 := { g := { revoked := [], crl := none, log := [], lock := false, cache := 3600, mutex := true }, oldLock := false, oldCache := 600, oldStopped := true }

example : (machine2.run (g2stopped, [tick false 10, tick true 12])
   [.step 0, .step 1, .step 0, .step 1, .step 0, .step 1, .step 0, .step 1, .step 0, .step 1, .step 0, .step 1]).1.g.log.map
     (fun c => (c.number, c.nextUpdate - c.thisUpdate)) = [(0, 3600)] := by decide
def c0 : CRLRec := { number := 0, thisUpdate := 5, nextUpdate := 3605, entries := [] }

/-- the state `ca.Reload` finds when a generation of the old authority is in flight: it holds the old
    mutex, has read the stored number 0 and has listed the (empty) revoked table -/
def inflightState : G2 × List Req2 :=
  ({ g := { revoked := [], crl := some c0, log := [c0], lock := false, cache := 3600, mutex := true },
     oldLock := true, oldCache := 3600, oldStopped := true, shared := false },
   [{ old := true, r := { inp := { kind := .gen, key := [], record := ⟨0, none⟩, now := 9 }, pc := 4, holding := true, prev := some 0 } },
    { old := false, r := genReq 10 },
    { old := false, r := { inp := { kind := .revoke true, key := Verif.s "16", record := ⟨11, none⟩, now := 11 } } }])

/-- **reload_inflight_overlap (historic refutation, D18, fixed in /repo by 7329bb4; `shared := false` is the code before).**
    With one mutex per authority `reload_discharges` needs the reload to be quiescent: if a
    generation of the old authority is in flight when the new authority is built (`ca.Reload` calls `New`,
    whose start-up generation runs under the NEW mutex, before `CloseForReload`), then even with the old
    ticker stopped there is a schedule in which the numbers stored are 0, 1, 2, 1: the new authority stores
    1 (start-up) and 2 (a generate-on-revoke revocation it acknowledges), then the old request, which had read
    0 and listed before the revocation, stores 1 — the served number goes back and the acknowledged serial is
    not in the served list. -/
theorem reload_inflight_overlap :
    ∃ evs, (fun s : G2 × List Req2 =>
      (numbers s.1.g, s.2.map (·.r.out), s.1.g.crl.map (fun c => (c.number, c.entries))))
      (machine2.run inflightState evs) = ([0, 1, 2, 1], [.ok, .ok, .ok], some (1, [])) :=
  ⟨[.step 1, .step 1, .step 1, .step 1, .step 1, .step 1,
    .step 2, .step 2, .step 2, .step 2, .step 2, .step 2, .step 2,
    .step 0, .step 0], by decide⟩

/-! ## 5. errors inside a generation -/

/-- **failed_generation_harmless.** A generation that fails inside the critical section
    (`GetCRL` with an error other than not-found, `GetRevokedCertificates`, `CreateCRL`/`StoreCRL`)
    leaves the stored list, the history of stored lists and the revoked table exactly as they
    were — the previous list stays served — releases the mutex, and is answered with an error. -/
theorem failed_generation_harmless (g : G) (r : Req) (hm : g.mutex = true) (hp : r.out = .pending)
    (hpc : r.pc = 2 ∨ r.pc = 3 ∨ r.pc = 4) (hf : r.inp.fail = r.pc) :
    (step g r).1.crl = g.crl ∧ (step g r).1.log = g.log ∧ (step g r).1.revoked = g.revoked ∧
    (step g r).1.lock = false ∧ (step g r).2.out = .err ∧ (step g r).2.holding = false := by
  unfold step failExit
  rcases hpc with h | h | h
  · have : r.inp.fail = 2 := by rw [hf, h]
    simp [hp, h, hm, this]
  · have : r.inp.fail = 3 := by rw [hf, h]
    simp [hp, h, hm, this]
  · have : r.inp.fail = 4 := by rw [hf, h]
    simp [hp, h, hm, this]

/-- the history of stored lists carries the numbers k−1, …, 1, 0 -/
def Consec : List CRLRec → Prop
  | [] => True
  | c :: rest => c.number = rest.length ∧ Consec rest

theorem consec_exec (s : G × List Req) (e : Ev) (hi : Inv s) (hc : Consec s.1.log) :
    Consec (machine.exec s e).1.log := by
  cases e with
  | restart now => exact hc
  | step t =>
    simp only [Machine.exec, machine]
    cases hr : s.2[t]? with
    | none => exact hc
    | some r =>
      show Consec (step s.1 r).1.log
      have hmem := mem_of_getElem? _ _ _ hr
      obtain ⟨i1, i2, i3, i4, i5⟩ := hi
      obtain ⟨⟨la, lb⟩, l4⟩ := i5 r hmem
      by_cases h4 : r.out = .pending ∧ r.pc = 4 ∧ ¬ r.inp.fail = 4
      · have hst : (step s.1 r).1.log = mkCRL r.prev r.snap r.inp.now s.1.cache :: s.1.log := by
          unfold step failExit; simp [h4.1, h4.2.1, h4.2.2]
        rw [hst]
        have hh : r.holding = true := lb h4.1 (by omega) (by omega)
        have hprev := l4 hh (.inr h4.2.1)
        refine ⟨?_, hc⟩
        rw [hprev, i3]
        cases hlog : s.1.log with
        | nil => simp [mkCRL]
        | cons c rest =>
          rw [hlog] at hc
          simp [mkCRL, hc.1]
      · have hst : (step s.1 r).1.log = s.1.log := by
          unfold step failExit; (repeat' split) <;> simp_all
        rw [hst]; exact hc

/-- **numbers_consecutive.** Starting from an empty database, in every history — any
    interleaving, restarts, and generations failing at any of their steps — the lists ever
    stored carry exactly the numbers 0, 1, 2, … in storage order: a failed generation does not
    consume a number, and none is skipped or repeated. -/
theorem numbers_consecutive (g : G) (rs : List Req) (hm : g.mutex = true) (hl : g.lock = false)
    (hlog : g.log = []) (hcrl : g.crl = none) (hfresh : ∀ r ∈ rs, r.fresh) (evs : List Ev) :
    numbers (machine.run (g, rs) evs).1 = List.range (machine.run (g, rs) evs).1.log.length := by
  have h := Machine.run_inv machine (fun s => Inv s ∧ Consec s.1.log)
    (fun s e ⟨hi, hc⟩ => ⟨inv_exec s e hi, consec_exec s e hi hc⟩) evs (g, rs)
    ⟨inv_init g rs hm hl (by rw [hlog]; exact List.Pairwise.nil) (by rw [hlog, hcrl]; rfl) hfresh, by rw [hlog]; trivial⟩
  have hc := h.2
  unfold numbers
  generalize (machine.run (g, rs) evs).1.log = l at hc
  induction l with
  | nil => rfl
  | cons c rest ih =>
    simp only [List.map_cons, List.reverse_cons, List.length_cons]
    rw [ih hc.2, hc.1, List.range_succ]

def genFail (now fail : Nat) : Req := { inp := { kind := .gen, key := [], record := ⟨0, none⟩, now := now, fail := fail } }

/-- a failing generation between two successful ones: numbers 0, 1 and the failed request answered `err` -/
example : (fun s : G × List Req => (numbers s.1, s.2.map (·.out), s.1.lock))
    (machine.run ({ revoked := [], crl := none, log := [], lock := false, cache := 600, mutex := true },
      [genReq 10, genFail 11 4, genReq 12])
      [.step 0, .step 0, .step 0, .step 0, .step 0, .step 0, .step 1, .step 1, .step 1, .step 1, .step 1,
       .step 2, .step 2, .step 2, .step 2, .step 2, .step 2]) = ([0, 1], [.ok, .err, .ok], false) := by decide
/-! ## 5b. what the handler serves -/

/-- the stored list is the newest one ever stored (it is the head of the history) -/
theorem served_is_newest (g : G) (rs : List Req) (hm : g.mutex = true) (hl : g.lock = false)
    (hsorted : g.log.Pairwise (fun a b => a.number > b.number)) (hcrl : g.crl = g.log.head?)
    (hfresh : ∀ r ∈ rs, r.fresh) (evs : List Ev) :
    (machine.run (g, rs) evs).1.crl = (machine.run (g, rs) evs).1.log.head? ∧
    ∀ c ∈ (machine.run (g, rs) evs).1.log, ∀ d, (machine.run (g, rs) evs).1.crl = some d → c.number ≤ d.number := by
  have h := Machine.run_inv machine Inv (fun s e h => inv_exec s e h) evs (g, rs)
    (inv_init g rs hm hl hsorted hcrl hfresh)
  refine ⟨h.2.2.1, ?_⟩
  intro c hc d hd
  rw [h.2.2.1] at hd
  cases hlog : (machine.run (g, rs) evs).1.log with
  | nil => rw [hlog] at hc; cases hc
  | cons x rest =>
    rw [hlog] at hc hd
    have hp := h.2.1; rw [hlog] at hp
    simp at hd; subst hd
    rcases List.mem_cons.1 hc with h1 | h1
    · subst h1; exact Nat.le_refl _
    · exact Nat.le_of_lt ((List.pairwise_cons.1 hp).1 c h1)

/-- **served_response_exact.** From an empty database, in every history: whenever `GET /crl` (or `/1.0/crl`)
    answers 200, the body is the newest list ever stored, its number is the largest stored, and the `Expires`
    header is that list's NextUpdate = its thisUpdate + the configured cache duration; with publication
    disabled the answer is 404 whatever is stored. -/
theorem served_response_exact (g : G) (rs : List Req) (hm : g.mutex = true) (hl : g.lock = false)
    (hlog : g.log = []) (hcrl : g.crl = none) (hfresh : ∀ r ∈ rs, r.fresh) (evs : List Ev) (pem : Bool) :
    let s := machine.run (g, rs) evs
    (crlHandler false s.1 pem).status = 404 ∧
    ((crlHandler true s.1 pem).status = 200 →
      ∃ c, (crlHandler true s.1 pem).body = some c ∧ s.1.log.head? = some c ∧
        (∀ c' ∈ s.1.log, c'.number ≤ c.number) ∧
        (crlHandler true s.1 pem).expires = c.thisUpdate + s.1.cache ∧ (crlHandler true s.1 pem).pem = pem) := by
  intro s
  refine ⟨rfl, ?_⟩
  have hnew := served_is_newest g rs hm hl (by rw [hlog]; exact List.Pairwise.nil) (by rw [hlog, hcrl]; rfl) hfresh evs
  have hint := interval_new (g, rs) evs
  intro h200
  unfold crlHandler at h200 ⊢
  cases hc : s.1.crl with
  | none => simp [hc] at h200
  | some c =>
    simp only [hc]
    refine ⟨c, rfl, by rw [← hnew.1]; exact hc, fun c' hc' => hnew.2 c' hc' c hc, ?_, rfl⟩
    obtain ⟨hcache, new, hl2, hall⟩ := hint
    have hmem : c ∈ new := by
      have : c ∈ s.1.log := by
        have := hnew.1; rw [hc] at this
        cases hlg : s.1.log with
        | nil => rw [hlg] at this; cases this
        | cons x r => rw [hlg] at this; simp at this; subst this; exact List.mem_cons_self
      rw [hl2, hlog] at this; simpa using this
    show c.nextUpdate = c.thisUpdate + s.1.cache
    rw [hall c hmem, hcache]

/-- the distribution point is the configured URL, or the CA's own /1.0/crl URL -/
theorem idp_exact (configured dns : Str) :
    (configured ≠ [] → idpURL configured dns = configured) ∧
    (configured = [] → idpURL configured dns = Verif.s "https://" ++ dns ++ Verif.s "/1.0/crl") := by
  unfold idpURL; constructor <;> intro h <;> simp [h]

/-! ## 5b'. the configuration of the CRL section -/

/-- **ticker_within_cache.** For every ca.json CRL section that a CA accepts (`Config.Init`, `Validate`, the authority's
    defaulting, in that order) with publication enabled: the cache duration is positive, and the generator's period is
    positive (`time.NewTicker` never sees 0: D61, fixed by 057148c) and not longer than the cache duration — a list is
    regenerated before (or when) the previous one expires. -/
theorem ticker_within_cache (c : CRLCfg) (he : c.enabled = true) (d t : Int) (h : pipeline c = some (d, t)) :
    0 < d ∧ 0 < t ∧ t ≤ d := by
  cases c with
  | mk en ca re =>
    simp only at he
    subst he
    cases ca with
    | none =>
      cases re with
      | none =>
        simp [pipeline, CRLCfg.init, CRLCfg.valid, CRLCfg.validOld, CRLCfg.effective, CRLCfg.ticker, dayNs] at h
        omega
      | some r =>
        simp only [pipeline, CRLCfg.init, CRLCfg.valid, CRLCfg.validOld, CRLCfg.effective, CRLCfg.ticker, dayNs, Option.isNone_none,
          Bool.and_self, if_true, Bool.not_true, Bool.false_eq_true, if_false, Option.getD_some] at h
        by_cases hr : 0 < r <;> simp [hr] at h <;> omega
    | some d0 =>
      cases re with
      | none =>
        simp only [pipeline, CRLCfg.init, CRLCfg.valid, CRLCfg.validOld, CRLCfg.effective, CRLCfg.ticker, dayNs, Option.isNone_some,
          Bool.and_false, Bool.false_eq_true, if_false, Bool.not_true] at h
        by_cases hd : d0 ≤ 0 <;> simp [hd] at h <;> omega
      | some r =>
        simp only [pipeline, CRLCfg.init, CRLCfg.valid, CRLCfg.validOld, CRLCfg.effective, CRLCfg.ticker, dayNs, Option.isNone_some,
          Bool.and_false, Bool.false_eq_true, if_false, Bool.not_true] at h
        by_cases hd : d0 ≤ 0 <;> by_cases hr : 0 < r <;> simp [hd, hr] at h <;> omega

/-- **tiny_cache_duration_accepted_historic (D61, fixed by 057148c).** Before the fix a cache duration of 1 or 2 ns passed
    `Validate` with publication enabled and gave the generator a period of 0, for which `time.NewTicker` panics in
    `startCRLGenerator`: the CA accepted the configuration and then aborted during start-up. -/
theorem tiny_cache_duration_accepted_historic :
    ∃ c : CRLCfg, c.enabled = true ∧ c.init.validOld = true ∧ pipelineOld c = some (2, 0) :=
  ⟨{ enabled := true, cache := some 2, renew := none }, by decide⟩

/-- the repaired `Validate` only refuses more … -/
theorem pipeline_sub_old (c : CRLCfg) (x : Int × Int) (h : pipeline c = some x) : pipelineOld c = some x := by
  unfold pipeline at h
  unfold pipelineOld
  unfold CRLCfg.valid at h
  cases hv : c.init.validOld <;> simp [hv] at h ⊢
  exact h.2

/-- … and exactly the configurations that made the generator's period 0 -/
theorem pipeline_of_old (c : CRLCfg) (d t : Int) (h : pipelineOld c = some (d, t)) (ht : c.enabled = false ∨ 0 < t) :
    pipeline c = some (d, t) := by
  cases c with
  | mk en ca re =>
    cases en
    · simp [pipeline, pipelineOld, CRLCfg.init, CRLCfg.valid, CRLCfg.validOld] at h ⊢
      exact h
    · have ht' : 0 < t := by rcases ht with h' | h'; simp at h'; exact h'
      cases ca <;> cases re <;>
        simp [pipeline, pipelineOld, CRLCfg.init, CRLCfg.valid, CRLCfg.validOld, CRLCfg.effective, CRLCfg.ticker, dayNs] at h ⊢ <;>
        (try split at h) <;> (try split) <;> simp_all <;> omega

/-! ## 5c. one process-wide CRL section (since 7329bb4): old and new authority on one database -/

/-- forget what depends on the cache duration: the NextUpdate of the lists -/
def erC (c : CRLRec) : CRLRec := { c with nextUpdate := 0 }
def er (g : G) : G := { g with cache := 0, crl := g.crl.map erC, log := g.log.map erC }

theorem erC_mk (p : Option Nat) (sn : List (Str × RevRec)) (now c c' : Nat) :
    erC (mkCRL p sn now c) = erC (mkCRL p sn now c') := by
  simp [erC, mkCRL]

theorem er_number (a b : Option CRLRec) (h : a.map erC = b.map erC) : a.map (·.number) = b.map (·.number) := by
  cases a <;> cases b <;> simp [erC] at h ⊢
  exact h.1

/-- **cache_irrelevant.** The cache duration influences nothing but the NextUpdate of the lists: two states that
    agree up to it stay in agreement, and the request's own evolution is identical. -/
theorem step_congr (g g' : G) (r : Req) (h : er g = er g') :
    er (step g r).1 = er (step g' r).1 ∧ (step g r).2 = (step g' r).2 := by
  cases g with
  | mk rv crl log lock cache mutex =>
    cases g' with
    | mk rv' crl' log' lock' cache' mutex' =>
      simp only [er, G.mk.injEq] at h
      obtain ⟨h1, h2, h3, h4, _, h6⟩ := h
      subst h1 h4 h6
      have hn := er_number crl crl' h2
      unfold step failExit
      (repeat' split) <;> simp_all [er] <;> exact erC_mk ..

/-- `on_revoke_visible` from any state satisfying the invariants (not only from a fresh one) -/
theorem on_revoke_visible_inv (s : G × List Req) (hi : Inv s) (hq : Q s) (evs1 evs2 : List Ev) (R : Req)
    (hR : R ∈ (machine.run s evs1).2) (hk : R.inp.kind = .revoke true) (hok : R.out = .ok) :
    (R.inp.key, R.inp.record) ∈ (machine.run s evs1).1.revoked ∧
    ∃ new, (machine.run s (evs1 ++ evs2)).1.log = new ++ (machine.run s evs1).1.log ∧
      ∀ c ∈ new, keep c.thisUpdate (R.inp.key, R.inp.record) = true →
        (R.inp.key, R.inp.record.revokedAt) ∈ c.entries := by
  have h1 := Machine.run_inv machine (fun s => Inv s ∧ Q s)
    (fun s e ⟨hi, hq⟩ => ⟨inv_exec s e hi, q_exec s e hi hq⟩) evs1 s ⟨hi, hq⟩
  have hK : K (ent R) (machine.run s evs1) := (h1.2 R hR hk).2 (.inl hok)
  have h2 := Machine.run_inv machine (W (ent R) (machine.run s evs1).1.log)
    (fun s e h => w_exec _ _ s e h) evs2 (machine.run s evs1) ⟨hK, [], rfl, fun c hc => by cases hc⟩
  rw [Machine.run_append]
  exact ⟨hK.1, h2.2⟩

/-! ### one process-wide mutex: the two-authority machine refines the one-authority machine -/

/-- a tick of the old generator that was cancelled by the stop is a request that is never scheduled -/
def prS (q : Req2) : Req :=
  if q.old ∧ q.r.pc = 0 ∧ q.r.out = .dropped then { q.r with out := .pending } else q.r

/-- well-formed stop markers: inert, not old, not a revocation -/
def StopWF (q : Req2) : Prop :=
  q.stop = true → q.old = false ∧ q.r.out = .ok ∧ q.r.holding = false ∧ q.r.inp.kind = .gen ∧ q.r.pc = 6

def Rel (s2 : G2 × List Req2) (s : G × List Req) : Prop :=
  s2.1.shared = true ∧ er s2.1.g = er s.1 ∧ s2.2.map prS = s.2 ∧ ∀ q ∈ s2.2, StopWF q

theorem step_not_dropped (g : G) (r : Req) (h : r.out ≠ .dropped) : (step g r).2.out ≠ .dropped := by
  unfold step failExit; (repeat' split) <;> simp_all

theorem set_same {α : Type} (l : List α) (t : Nat) (a : α) (h : l[t]? = some a) : l.set t a = l := by
  apply List.ext_getElem?
  intro i
  rw [List.getElem?_set]
  by_cases hti : t = i
  · subst hti
    rcases List.getElem?_eq_some_iff.1 h with ⟨hlt, hl⟩
    simp [hlt, hl]
  · simp [hti]

theorem er_restart (now : Nat) (g g' : G) (h : er g = er g') : er (restartG now g) = er (restartG now g') := by
  cases g; cases g'; simp only [er, restartG, G.mk.injEq] at h ⊢; simp_all

theorem step2_nonpending (g2 : G2) (q : Req2) (hstop : q.stop = false) (hnp : q.r.out ≠ .pending)
    (hsh : g2.shared = true) :
    (step2 g2 q).1.g = g2.g ∧ (step2 g2 q).1.shared = true ∧ (step2 g2 q).2 = q := by
  cases q with
  | mk old r stop =>
    simp only at hstop hnp
    subst hstop
    have hn : ¬ (g2.oldStopped = true ∧ r.pc = 0 ∧ r.out = .pending) := fun h => hnp h.2.2
    cases old with
    | true =>
      simp [step2, hn, hsh, step_nonpending _ _ hnp, oldView]
    | false =>
      simp [step2, step_nonpending _ _ hnp, hsh]

theorem prS_cancel (q : Req2) (hold : q.old = true) (hpc : q.r.pc = 0) (hp : q.r.out = .pending) :
    prS { q with r := { q.r with out := .dropped } } = prS q := by
  cases q with
  | mk old r stop =>
    cases r with
    | mk inp pc holding prev snap out =>
      simp only at hold hpc hp
      subst hold hpc hp
      simp [prS]

theorem step2_cancel (g2 : G2) (q : Req2) (hstop : q.stop = false) (hold : q.old = true)
    (hs : g2.oldStopped = true) (hpc : q.r.pc = 0) (hp : q.r.out = .pending) :
    step2 g2 q = (g2, { q with r := { q.r with out := .dropped } }) := by
  unfold step2; simp [hstop, hold, hs, hpc, hp]

theorem step2_real (g2 : G2) (q : Req2) (hstop : q.stop = false) (hsh : g2.shared = true)
    (hcan : ¬ (q.old = true ∧ g2.oldStopped = true ∧ q.r.pc = 0 ∧ q.r.out = .pending)) :
    er (step2 g2 q).1.g = er (step g2.g q.r).1 ∧ (step2 g2 q).2.r = (step g2.g q.r).2 ∧
    (step2 g2 q).1.shared = true ∧ (step2 g2 q).2.stop = false := by
  cases q with
  | mk old r stop =>
    simp only at hstop hcan
    subst hstop
    cases old with
    | false => simp [step2, hsh]
    | true =>
      have hn : ¬ (g2.oldStopped = true ∧ r.pc = 0 ∧ r.out = .pending) := fun h => hcan ⟨rfl, h.1, h.2.1, h.2.2⟩
      have hv : er (oldView g2) = er g2.g := by unfold oldView er; simp [hsh]
      obtain ⟨c1, c2⟩ := step_congr (oldView g2) g2.g r hv
      simp only [step2, hn, hsh, if_true, if_false, Bool.false_eq_true]
      refine ⟨?_, c2, trivial, trivial⟩
      rw [← c1]; simp [er]

/-- one event of the two-authority machine is one event of the one-authority machine, or none -/
theorem rel_exec (s2 : G2 × List Req2) (s : G × List Req) (e : Ev) (h : Rel s2 s) :
    Rel (machine2.exec s2 e) (machine.exec s e) ∨ Rel (machine2.exec s2 e) s := by
  obtain ⟨hsh, her, hmap, hwf⟩ := h
  cases e with
  | restart now =>
    left
    refine ⟨hsh, ?_, ?_, ?_⟩
    · simp only [Machine.exec, machine2, machine, restartG2]; exact er_restart now _ _ her
    · simp only [Machine.exec, machine2, machine, ← hmap, List.map_map]
      apply List.map_congr_left
      intro q _
      simp only [Function.comp, restartL2, prS]
      by_cases hc : q.old = true ∧ q.r.pc = 0 ∧ q.r.out = .dropped
      · have : restartL q.r = q.r := by unfold restartL; simp [hc.2.2]
        simp [this, hc]; unfold restartL; simp [hc.2.1]
      · have hc' : ¬ (q.old = true ∧ (restartL q.r).pc = 0 ∧ (restartL q.r).out = .dropped) := by
          intro ⟨a, b, c⟩
          apply hc
          revert b c; unfold restartL; split
          · rename_i hh; intro b; simp at b; exact absurd b hh.2
          · intro b c; exact ⟨a, b, c⟩
        simp [hc, hc']
    · intro q hq
      simp only [Machine.exec, machine2] at hq
      rcases List.mem_map.1 hq with ⟨q', hq', rfl⟩
      intro hst
      obtain ⟨a, b, c, d, e'⟩ := hwf q' hq' hst
      refine ⟨a, ?_, ?_, ?_, ?_⟩ <;> (simp only [restartL2]; unfold restartL; simp [b, c, d, e'])
  | step t =>
    cases hr : s2.2[t]? with
    | none =>
      left
      have hr' : s.2[t]? = none := by rw [← hmap]; simp [hr]
      simp [Machine.exec, hr, hr']; exact ⟨hsh, her, hmap, hwf⟩
    | some q =>
      have hmem := mem_of_getElem? _ _ _ hr
      have hr' : s.2[t]? = some (prS q) := by rw [← hmap]; simp [hr]
      have hex2 : machine2.exec s2 (.step t) = ((step2 s2.1 q).1, s2.2.set t (step2 s2.1 q).2) := by
        simp [Machine.exec, machine2, hr]
      have hex : machine.exec s (.step t) = ((step s.1 (prS q)).1, s.2.set t (step s.1 (prS q)).2) := by
        simp [Machine.exec, machine, hr']
      rw [hex2, hex]
      -- the three cases in which the one-authority machine does nothing
      have stutter : (step2 s2.1 q).1.g = s2.1.g → (step2 s2.1 q).1.shared = true → prS (step2 s2.1 q).2 = prS q →
          StopWF (step2 s2.1 q).2 → Rel ((step2 s2.1 q).1, s2.2.set t (step2 s2.1 q).2) s := by
        intro h1 h2 h3 h4
        refine ⟨h2, by rw [h1]; exact her, ?_, forall_set _ s2.2 t _ hwf h4⟩
        show (s2.2.set t (step2 s2.1 q).2).map prS = s.2
        rw [List.map_set, h3, hmap]
        exact set_same s.2 t (prS q) hr'
      by_cases hstop : q.stop = true
      · right
        obtain ⟨a, b, c, d, e'⟩ := hwf q hmem hstop
        have hs2 : step2 s2.1 q = ({ s2.1 with oldStopped := true }, q) := by unfold step2; simp [hstop]
        rw [hs2] at stutter ⊢
        exact stutter rfl hsh rfl (hwf q hmem)
      · have hstop : q.stop = false := by simpa using hstop
        by_cases hnp : q.r.out ≠ .pending
        · -- a finished (or cancelled) request: nothing happens
          right
          obtain ⟨n1, n2, n3⟩ := step2_nonpending s2.1 q hstop hnp hsh
          exact stutter n1 n2 (by rw [n3]) (by rw [n3]; exact hwf q hmem)
        · have hp : q.r.out = .pending := by simpa using hnp
          have hprq : prS q = q.r := by unfold prS; simp [hp]
          by_cases hcan : q.old = true ∧ s2.1.oldStopped = true ∧ q.r.pc = 0 ∧ q.r.out = .pending
          · -- a tick of the stopped old generator: cancelled
            right
            have hs2 := step2_cancel s2.1 q hstop hcan.1 hcan.2.1 hcan.2.2.1 hp
            rw [hs2] at stutter ⊢
            exact stutter rfl hsh (prS_cancel q hcan.1 hcan.2.2.1 hp) (by intro h; simp [hstop] at h)
          · -- a real step, under the process-wide mutex
            left
            obtain ⟨k1, k2, k3, k5⟩ := step2_real s2.1 q hstop hsh hcan
            obtain ⟨c1, c2⟩ := step_congr s2.1.g s.1 q.r her
            have hnd : (step2 s2.1 q).2.r.out ≠ .dropped := by
              rw [k2]; exact step_not_dropped _ _ (by rw [hp]; simp)
            have hpr' : prS (step2 s2.1 q).2 = (step s.1 (prS q)).2 := by
              unfold prS; simp [hnd]; rw [k2, c2]
              have : prS q = q.r := hprq
              unfold prS at this; rw [this]
            refine ⟨k3, by rw [k1, c1, hprq], ?_, forall_set _ s2.2 t _ hwf (fun h => by rw [k5] at h; cases h)⟩
            show (s2.2.set t (step2 s2.1 q).2).map prS = s.2.set t (step s.1 (prS q)).2
            rw [List.map_set, hpr', hmap]

theorem rel_run (s2 : G2 × List Req2) (s : G × List Req) (evs : List Ev) (h : Rel s2 s) :
    ∃ evs', Rel (machine2.run s2 evs) (machine.run s evs') := by
  induction evs generalizing s2 s with
  | nil => exact ⟨[], h⟩
  | cons e evs ih =>
    rcases rel_exec s2 s e h with h' | h'
    · obtain ⟨evs', hr⟩ := ih _ _ h'
      exact ⟨e :: evs', hr⟩
    · obtain ⟨evs', hr⟩ := ih _ _ h'
      exact ⟨evs', hr⟩

theorem numbers_er (g g' : G) (h : er g = er g') : numbers g = numbers g' := by
  have hl : g.log.map erC = g'.log.map erC := by
    have := congrArg G.log h; simpa [er] using this
  have : g.log.map (·.number) = g'.log.map (·.number) := by
    have := congrArg (List.map (·.number)) hl
    have he : ((fun x : CRLRec => x.number) ∘ erC) = (fun x => x.number) := by funext x; simp [erC]
    simpa [List.map_map, he] using this
  unfold numbers; rw [this]

theorem step_log (g : G) (r : Req) : (step g r).1.log = g.log ∨ ∃ c, (step g r).1.log = c :: g.log := by
  unfold step failExit
  (repeat' split) <;> first | (left; rfl) | (left; simp; done) | (right; exact ⟨_, rfl⟩)

theorem step2_log (g2 : G2) (q : Req2) :
    (step2 g2 q).1.g.log = g2.g.log ∨ ∃ c, (step2 g2 q).1.g.log = c :: g2.g.log := by
  unfold step2
  split
  · left; rfl
  · split
    · split
      · left; rfl
      · have := step_log (oldView g2) q.r
        simpa [oldView] using this
    · exact step_log g2.g q.r

theorem log_grows2 (s2 : G2 × List Req2) (evs : List Ev) :
    ∃ new, (machine2.run s2 evs).1.g.log = new ++ s2.1.g.log := by
  refine Machine.run_inv machine2 (fun s' => ∃ new, s'.1.g.log = new ++ s2.1.g.log) ?_ evs s2 ⟨[], rfl⟩
  intro s' e ⟨new, hn⟩
  cases e with
  | restart now => exact ⟨new, by simpa [Machine.exec, machine2, restartG2, restartG] using hn⟩
  | step t =>
    simp only [Machine.exec, machine2]
    cases hr : s'.2[t]? with
    | none => exact ⟨new, hn⟩
    | some q =>
      show ∃ new, (step2 s'.1 q).1.g.log = new ++ s2.1.g.log
      rcases step2_log s'.1 q with h | ⟨c, h⟩
      · exact ⟨new, by rw [h, hn]⟩
      · exact ⟨c :: new, by rw [h, hn]; rfl⟩

/-- the initial state of a two-authority history: requests that have not arrived yet, and stop markers -/
def Init2 (qs : List Req2) : Prop := ∀ q ∈ qs, StopWF q ∧ (q.stop = false → q.r.fresh)

theorem init_rel (g2 : G2) (qs : List Req2) (hsh : g2.shared = true) (hm : g2.g.mutex = true) (hl : g2.g.lock = false)
    (hsorted : g2.g.log.Pairwise (fun a b => a.number > b.number)) (hcrl : g2.g.crl = g2.g.log.head?)
    (hq : Init2 qs) :
    Rel (g2, qs) (g2.g, qs.map prS) ∧ Inv (g2.g, qs.map prS) ∧ Q (g2.g, qs.map prS) := by
  have hshape : ∀ q ∈ qs, (prS q).holding = false ∧ Loc (prS q) ∧
      ((prS q).inp.kind = .revoke true → (prS q).fresh) := by
    intro q hq'
    obtain ⟨hw, hf⟩ := hq q hq'
    cases hst : q.stop with
    | true =>
      obtain ⟨a, b, c, d, e⟩ := hw hst
      have : prS q = q.r := by unfold prS; simp [a]
      rw [this]
      refine ⟨c, ?_, fun h => by rw [d] at h; cases h⟩
      unfold Loc; simp [b, c]
    | false =>
      obtain ⟨f1, f2, f3⟩ := hf hst
      have : prS q = q.r := by unfold prS; simp [f3]
      rw [this]
      refine ⟨f2, ?_, fun _ => ⟨f1, f2, f3⟩⟩
      unfold Loc; simp [f1, f2, f3]
  refine ⟨⟨hsh, rfl, rfl, fun q hq' => (hq q hq').1⟩, ⟨hm, hsorted, hcrl, ?_, ?_⟩, ?_⟩
  · simp [hl]
    intro q hq'
    exact (hshape q hq').1
  · intro r hr
    rcases List.mem_map.1 hr with ⟨q, hq', rfl⟩
    exact ⟨(hshape q hq').2.1, fun h => by rw [(hshape q hq').1] at h; cases h⟩
  · intro r hr hk
    rcases List.mem_map.1 hr with ⟨q, hq', rfl⟩
    obtain ⟨a, b, c⟩ := (hshape q hq').2.2 hk
    refine ⟨fun _ h => by omega, fun h => ?_⟩
    rcases h with h | ⟨_, h⟩
    · rw [c] at h; cases h
    · omega

/-- **shared_mutex_numbers_increase.** With one process-wide CRL section (the code since 7329bb4): an old and a
    new authority on one database — generations (ticks, start-up, forced) and revocations of both, requests of the
    old one still in flight while the new one is built, the old generator stopped at any moment of the history or
    never, restarts anywhere — under every interleaving the numbers of the lists ever stored strictly increase. -/
theorem shared_mutex_numbers_increase (g2 : G2) (qs : List Req2) (hsh : g2.shared = true) (hm : g2.g.mutex = true)
    (hl : g2.g.lock = false) (hsorted : g2.g.log.Pairwise (fun a b => a.number > b.number))
    (hcrl : g2.g.crl = g2.g.log.head?) (hq : Init2 qs) (evs : List Ev) :
    (numbers (machine2.run (g2, qs) evs).1.g).Pairwise (· < ·) := by
  obtain ⟨hrel, hinv, _⟩ := init_rel g2 qs hsh hm hl hsorted hcrl hq
  obtain ⟨evs', hr⟩ := rel_run (g2, qs) (g2.g, qs.map prS) evs hrel
  rw [numbers_er _ _ hr.2.1]
  exact numbers_increase_inv _ hinv evs'

/-- **shared_mutex_revoke_visible.** Same setting: once a generate-on-revoke revocation — served by the old or by
    the new authority — has been acknowledged, every list stored afterwards by either authority contains its
    serial with its revocation time, unless the certificate expired more than the retention window before that
    list's thisUpdate. -/
theorem shared_mutex_revoke_visible (g2 : G2) (qs : List Req2) (hsh : g2.shared = true) (hm : g2.g.mutex = true)
    (hl : g2.g.lock = false) (hsorted : g2.g.log.Pairwise (fun a b => a.number > b.number))
    (hcrl : g2.g.crl = g2.g.log.head?) (hq : Init2 qs) (evs1 evs2 : List Ev) (R : Req2)
    (hR : R ∈ (machine2.run (g2, qs) evs1).2) (hk : R.r.inp.kind = .revoke true) (hok : R.r.out = .ok) :
    ∃ new, (machine2.run (g2, qs) (evs1 ++ evs2)).1.g.log = new ++ (machine2.run (g2, qs) evs1).1.g.log ∧
      ∀ c ∈ new, keep c.thisUpdate (R.r.inp.key, R.r.inp.record) = true →
        (R.r.inp.key, R.r.inp.record.revokedAt) ∈ c.entries := by
  obtain ⟨hrel, hinv, hQ⟩ := init_rel g2 qs hsh hm hl hsorted hcrl hq
  obtain ⟨e1, r1⟩ := rel_run (g2, qs) (g2.g, qs.map prS) evs1 hrel
  have r2' := rel_run (machine2.run (g2, qs) evs1) (machine.run (g2.g, qs.map prS) e1) evs2 r1
  obtain ⟨e2, r2⟩ := r2'
  -- the acknowledged request in the one-authority run
  have hRb : prS R ∈ (machine.run (g2.g, qs.map prS) e1).2 := by
    rw [← r1.2.2.1]; exact List.mem_map.2 ⟨R, hR, rfl⟩
  have hprR : prS R = R.r := by unfold prS; simp [hok]
  rw [hprR] at hRb
  obtain ⟨_, newb, hlb, hallb⟩ := on_revoke_visible_inv _ hinv hQ e1 e2 R.r hRb hk hok
  rw [Machine.run_append] at hlb
  obtain ⟨new2, hl2⟩ := log_grows2 (machine2.run (g2, qs) evs1) evs2
  rw [Machine.run_append]
  refine ⟨new2, hl2, ?_⟩
  -- the two histories of stored lists agree up to NextUpdate
  have hlog1 : (machine2.run (g2, qs) evs1).1.g.log.map erC = (machine.run (g2.g, qs.map prS) e1).1.log.map erC := by
    have := congrArg G.log r1.2.1; simpa [er] using this
  have hlog2 : (machine2.run (machine2.run (g2, qs) evs1) evs2).1.g.log.map erC =
      (machine.run (machine.run (g2.g, qs.map prS) e1) e2).1.log.map erC := by
    have := congrArg G.log r2.2.1; simpa [er] using this
  rw [hl2, hlb, List.map_append, List.map_append, ← hlog1] at hlog2
  have hnew : new2.map erC = newb.map erC := by
    have hlen : (new2.map erC).length = (newb.map erC).length := by
      have := congrArg List.length hlog2
      simp only [List.length_append, List.length_map] at this ⊢
      omega
    exact (List.append_inj hlog2 hlen).1
  intro c hc hkeep
  have : erC c ∈ newb.map erC := by rw [← hnew]; exact List.mem_map.2 ⟨c, hc, rfl⟩
  rcases List.mem_map.1 this with ⟨c', hc', hce⟩
  have ht : c'.thisUpdate = c.thisUpdate := by have := congrArg CRLRec.thisUpdate hce; simpa [erC] using this
  have he : c'.entries = c.entries := by have := congrArg CRLRec.entries hce; simpa [erC] using this
  rw [← he]
  exact hallb c' hc' (by rw [ht]; exact hkeep)

/-- an old request in flight, a new start-up generation and a revocation served by the new authority, under one
    mutex: whatever the schedule, e.g. the one of `reload_inflight_overlap`, the numbers increase -/
example : numbers (machine2.run ({ inflightState.1 with shared := true, oldLock := false, g := { inflightState.1.g with lock := true } },
    inflightState.2)
    [.step 1, .step 1, .step 0, .step 0, .step 1, .step 1, .step 1, .step 1, .step 1,
     .step 2, .step 2, .step 2, .step 2, .step 2, .step 2, .step 2]).1.g = [0, 1, 2, 3] := by decide

/-! ## 6. the critical section as the code has it (regenerated table) -/

/-- **crl_mutex_shared.** Regenerated from /repo on every run: the mutex `GenerateCertificateRevocationList` takes is a
    package-level variable, one for every `Authority` of the process — the hypothesis `shared = true` of
    `shared_mutex_numbers_increase` / `shared_mutex_revoke_visible` (before 7329bb4 it was a field of `Authority`:
    `reload_inflight_overlap`). -/
theorem crl_mutex_shared : Verif.Generated.Locks.crlMutexShared = true := by decide

/-- **crl_section.** Regenerated from /repo on every run (extractor table `Locks`):
    `GenerateCertificateRevocationList` takes `crlMutex` at the top with a deferred unlock, and
    `GetCRL`, `GetRevokedCertificates`, `CreateCRL` and `StoreCRL` are all present and all lie
    lexically inside that section.  This is the hypothesis `mutex = true` / the five-step critical
    section of `numbers_increase`, `on_revoke_visible` and `numbers_consecutive`; if the section
    shrinks this obligation fails closed.  (Same statement as `Verif.Conc.crl_section` of C19, kept
    here so that C08 does not depend on the build of another property's module.) -/
theorem crl_section :
    Verif.Generated.Locks.crlLockedAtTop = true ∧ Verif.Generated.Locks.crlCalls.all (·.2) = true ∧
    ["GetCRL", "GetRevokedCertificates", "CreateCRL", "StoreCRL"].all
      (fun n => Verif.Generated.Locks.crlCalls.any (·.1 == n)) = true := by
  decide

/-! ## 5d. which authority serves, and who is named as issuer -/

/-- **both_authorities_serve_stored_list.** During a reload the replaced and the new authority answer the CRL endpoint with the same
    response, the list stored in the shared database: whatever either of them published last is what both serve. -/
theorem both_authorities_serve_stored_list (enabled : Bool) (g2 : G2) (pem : Bool) :
    serve2 enabled g2 true pem = serve2 enabled g2 false pem ∧
    (enabled = true → (serve2 enabled g2 true pem).body = g2.g.crl) := by
  unfold serve2 crlHandler oldView
  constructor
  · simp
  · intro h; subst h; cases hc : g2.g.crl <;> simp [hc]

/-- **served_after_reload_window.** Old and new authority on one database under the process-wide mutex: once a generate-on-revoke
    revocation served by either of them is acknowledged, the list either of them serves from then on is the head of the stored history,
    and every list stored after the acknowledgement carries the serial (`shared_mutex_revoke_visible`); no authority can go on serving
    an older list of its own. -/
theorem served_after_reload_window (g2 : G2) (qs : List Req2) (evs : List Ev) (old pem : Bool) :
    (serve2 true (machine2.run (g2, qs) evs).1 old pem).body = (machine2.run (g2, qs) evs).1.g.crl := by
  have := (both_authorities_serve_stored_list true (machine2.run (g2, qs) evs).1 pem)
  cases old
  · rw [← this.1]; exact this.2 rfl
  · exact this.2 rfl

/-- **crl_issuer_is_signer.** The issuer of a list is the first certificate of the intermediate bundle (the certificate of the signing
    key), however many CA certificates follow it. -/
theorem crl_issuer_is_signer {α : Type} (signer : α) (rest : List α) : crlIssuerOf (signer :: rest) = some signer := rfl

end Verif.CRL
