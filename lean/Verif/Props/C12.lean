import Verif.Model.AcmeAuth
import Verif.Generated.AcmeRoutes
/-!
  C12 — ACME requests are authenticated, replay-protected and confined to their account.

  Property theorems about `Verif.AcmeAuth` (model of acme/api/middleware.go, the route table of
  acme/api/handler.go, the authorisation tests of the handlers, the nonce table; tied to the code
  by the C12 correspondence stages `matrix`, `shapes`, `routes`, `nonce`, `d15`).

  * `routes_guarded`            — (table, `decide`) every POST route of the table is
                                  `… parseJWS, validateJWS, <selector its handler requires>, verify [, isPostAsGet]`
                                  and no resource handler hangs off another method
  * `request_honoured_only_if`  — handler behind a guarded chain reached ⇒ the full conjunction
  * `served_only_if`            — the same for every row of any guarded table
  * `nonce_once`                — in every sequence of nonce issues and requests (any number, any
                                  shape, any order), at most one request carrying nonce n passes validateJWS
  * `confined`                  — a response carries an order / authorization / challenge /
                                  certificate / order list / account ⇒ it belongs to the account in context
                                  (orders: and to the provisioner of the URL)
  * `confined_served`           — end to end on kid routes: … ⇒ it belongs to the active account named
                                  by kid under whose stored key the signature verified
  * `revoke_only_owner_or_holder` — revocation ⇒ active owner account, or signature verifies under the certificate's key
  * `deactivated_nothing`       — no guarded chain lets a request through that names, or embeds the key of, a non-active account
  * `deactivated_forever`       — over every history: once deactivated, always deactivated
  * `attest_authz_confined`     — an accepted device-attest-01 response writes only into the authorization its
                                  challenge belongs to, of the requester (D15 fixed by 365cae8, e055659); `provisioner_confined` — every account, old
                                  records included, acts only under its recorded provisioner (8fb1ad6)
  * (historic) a challenge response could be used with another account's
                                  authorization id (D15): `GetChallenge` checks the challenge's owner only
  * `challenge_authz_binding_partial` — what does hold: the *challenge* answered is the requester's
-/
namespace Verif.AcmeAuth

theorem runChain_append (a b : List Mw) (rq : Req) (w : World) (c : Ctx) :
    runChain (a ++ b) rq w c =
      match runChain a rq w c with
      | (w', .error e) => (w', .error e)
      | (w', .ok c') => runChain b rq w' c' := by
  induction a generalizing w c with
  | nil => simp [runChain]
  | cons m ms ih =>
    simp only [List.cons_append, runChain]
    cases h : runMw m rq w c with
    | mk w1 r =>
      cases r with
      | error e => simp
      | ok c1 => simp only []; exact ih w1 c1

theorem consumeNonce_true {w w' : World} {n : Nat} (h : consumeNonce w n = (w', true)) :
    n ∈ w.nonces ∧ w' = { w with nonces := w.nonces.filter (· != n) } ∧ n ∉ w'.nonces := by
  unfold consumeNonce at h
  split at h
  · rename_i hc
    simp at h
    refine ⟨by simpa using hc, h.symm, ?_⟩
    rw [← h]; simp
  · simp at h

theorem algCheck_ok {j : Jws} (h : algCheck j = .ok ()) :
    j.algClass ≠ .other ∧ (j.algClass = .rsa → ∀ k, j.jwk = some k → k.isRsa = true ∧ 256 ≤ k.rsaBytes) := by
  unfold algCheck at h
  split at h
  · rename_i hr
    refine ⟨by simp [hr], fun _ k hk => ?_⟩
    simp only [hk] at h
    split at h
    · split at h
      · simp at h
      · rename_i h1 h2; exact ⟨h1, by omega⟩
    · simp at h
  · rename_i hr; exact ⟨by simp [hr], fun h' => by simp [hr] at h'⟩
  · simp at h

/-- what `validateJWS` has established when it lets a request through -/
structure Validated (rq : Req) (w w' : World) (j : Jws) : Prop where
  oneSig : j.nsigs = 1
  noUnprot : j.unprotEmpty = true
  asym : j.algClass ≠ .other
  rsaKey : j.algClass = .rsa → ∀ k, j.jwk = some k → k.isRsa = true ∧ 256 ≤ k.rsaBytes
  nonceLive : j.nonce ∈ w.nonces
  nonceGone : j.nonce ∉ w'.nonces
  world : w' = { w with nonces := w.nonces.filter (· != j.nonce) }
  url : j.url = some rq.url
  jwkXorKid : (j.jwk.isSome = true ∧ j.kid = 0) ∨ (j.jwk = none ∧ j.kid ≠ 0)

theorem validateJWS_ok {rq : Req} {w w' : World} {c c' : Ctx}
    (h : validateJWS rq w c = (w', .ok c')) : c' = c ∧ ∃ j, c.jws = some j ∧ Validated rq w w' j := by
  unfold validateJWS at h
  split at h
  · simp at h
  · rename_i j hj
    split at h; · simp at h
    rename_i hn0
    split at h; · simp at h
    rename_i hn1
    split at h; · simp at h
    rename_i hue
    split at h
    · simp at h
    · rename_i halg
      have ⟨a1, a2⟩ := algCheck_ok halg
      split at h
      · simp at h
      · rename_i w1 hc
        have ⟨n1, n2, n3⟩ := consumeNonce_true hc
        split at h
        · simp at h
        · rename_i u hu
          split at h; · simp at h
          rename_i hurl
          split at h; · simp at h
          rename_i hboth
          split at h; · simp at h
          rename_i hnone
          simp at h
          obtain ⟨hw, hcc⟩ := h
          subst hw
          refine ⟨hcc.symm, j, hj, ?_⟩
          refine ⟨by omega, by simpa using hue, a1, a2, n1, n3, n2, by simp_all, ?_⟩
          cases hjk : j.jwk with
          | none => right; simp_all
          | some k => left; simp_all

/-- the embedded-key route: what `extractJWK` has established -/
structure ByJwk (w : World) (j : Jws) (c' : Ctx) : Prop where
  embedded : ∃ k, j.jwk = some k ∧ k.valid = true ∧ k.thumb ≠ 0 ∧ c'.jwk = some (k.thumb, k.alg) ∧
    ((accByKey w k.thumb = none ∧ c'.acc = none) ∨
     (∃ a, accByKey w k.thumb = some a ∧ a.status = .valid ∧ c'.acc = some a))

theorem extractJWK_ok {w w' : World} {c c' : Ctx} (hacc : c.acc = none)
    (h : extractJWK w c = (w', .ok c')) :
    w' = w ∧ c'.jws = c.jws ∧ c'.payload = c.payload ∧ c'.prov = c.prov ∧ ∃ j, c.jws = some j ∧ ByJwk w j c' := by
  unfold extractJWK at h
  split at h; · simp at h
  rename_i j hj
  split at h; · simp at h
  split at h; · simp at h
  rename_i k hk
  split at h; · simp at h
  rename_i hvalid
  split at h; · simp at h
  rename_i hthumb
  split at h
  · rename_i hnone
    simp at h
    obtain ⟨hw, hc⟩ := h
    subst hw; subst hc
    exact ⟨rfl, rfl, rfl, rfl, j, hj, ⟨k, hk, by simpa using hvalid, hthumb, rfl, .inl ⟨hnone, hacc⟩⟩⟩
  · rename_i a ha
    split at h; · simp at h
    rename_i hst
    simp at h
    obtain ⟨hw, hc⟩ := h
    subst hw; subst hc
    exact ⟨rfl, rfl, rfl, rfl, j, hj, ⟨k, hk, by simpa using hvalid, hthumb, rfl, .inr ⟨a, ha, by simpa using hst, rfl⟩⟩⟩

/-- the provisioner test of `lookupJWK` -/
def provMatches (a : Account) (rq : Req) : Prop :=
  (a.provId = 0 → a.provName = rq.provName) ∧ (a.provId ≠ 0 → a.provId = rq.provId)

/-- the same as far as the record says anything: records written by old versions may lack the id,
    or id and name (the legacy branch of `lookupJWK`, commit 8fb1ad6) -/
def provRecordedMatches (a : Account) (rq : Req) : Prop :=
  (a.provId ≠ 0 → a.provId = rq.provId) ∧ (a.provId = 0 → a.provName ≠ 0 → a.provName = rq.provName)

theorem provMatches.recorded {a : Account} {rq : Req} (h : provMatches a rq) : provRecordedMatches a rq :=
  ⟨h.2, fun h0 _ => h.1 h0⟩

/-- the key-id route: what `lookupJWK` has established -/
structure ByKid (rq : Req) (w : World) (j : Jws) (c' : Ctx) : Prop where
  named : ∃ a, j.kid ≠ 0 ∧ accById w j.kidBase = some a ∧ a.status = .valid ∧
    c'.acc = some a ∧ c'.jwk = some (a.key, a.keyAlg) ∧
    ((a.loc ≠ 0 ∧ j.kid = a.loc ∧ provMatches a rq) ∨
     (a.loc = 0 ∧ j.kidHasPrefix = true ∧ provRecordedMatches a rq))

theorem lookupJWK_ok {rq : Req} {w w' : World} {c c' : Ctx}
    (h : lookupJWK rq w c = (w', .ok c')) :
    w' = w ∧ c'.jws = c.jws ∧ c'.payload = c.payload ∧ c'.prov = c.prov ∧ ∃ j, c.jws = some j ∧ ByKid rq w j c' := by
  unfold lookupJWK at h
  split at h; · simp at h
  rename_i j hj
  split at h; · simp at h
  split at h; · simp at h
  rename_i hkid
  split at h; · simp at h
  rename_i a ha
  split at h; · simp at h
  rename_i hst
  split at h
  · rename_i hloc
    split at h; · simp at h
    rename_i hkl
    split at h; · simp at h
    rename_i hp1
    split at h; · simp at h
    rename_i hp2
    simp at h
    obtain ⟨hw, hc⟩ := h
    subst hw; subst hc
    refine ⟨rfl, rfl, rfl, rfl, j, hj, ⟨a, hkid, ha, by simpa using hst, rfl, rfl, .inl ⟨hloc, by simpa using hkl, ?_⟩⟩⟩
    constructor
    · intro h0; simp [h0] at hp1; exact hp1
    · intro h0; simp [h0] at hp2; exact hp2
  · rename_i hloc
    split at h; · simp at h
    rename_i hpre
    split at h; · simp at h
    rename_i hprov
    simp at h
    obtain ⟨hw, hc⟩ := h
    subst hw; subst hc
    refine ⟨rfl, rfl, rfl, rfl, j, hj, ⟨a, hkid, ha, by simpa using hst, rfl, rfl,
      .inr ⟨by simpa using hloc, by simpa using hpre, ?_⟩⟩⟩
    simp only [Bool.or_eq_true, Bool.and_eq_true, decide_eq_true_eq, not_or, not_and] at hprov
    constructor
    · intro h0; have := hprov.1 h0; simpa using this
    · intro h0 h1; have := hprov.2 ⟨h0, h1⟩; simpa using this

theorem extractOrLookupJWK_ok {rq : Req} {w w' : World} {c c' : Ctx} (hacc : c.acc = none)
    (h : extractOrLookupJWK rq w c = (w', .ok c')) :
    w' = w ∧ c'.jws = c.jws ∧ c'.payload = c.payload ∧ c'.prov = c.prov ∧ ∃ j, c.jws = some j ∧
      ((j.jwk.isSome = true ∧ ByJwk w j c') ∨ (j.jwk = none ∧ ByKid rq w j c')) := by
  unfold extractOrLookupJWK at h
  split at h; · simp at h
  rename_i j hj
  split at h
  · rename_i hcond
    have ⟨a, b, c1, d, j', hj', hb⟩ := extractJWK_ok hacc h
    rw [hj] at hj'; cases hj'
    exact ⟨a, b, c1, d, j, hj, .inl ⟨by simp at hcond; exact hcond.2, hb⟩⟩
  · rename_i hcond
    have ⟨a, b, c1, d, j', hj', hb⟩ := lookupJWK_ok h
    rw [hj] at hj'; cases hj'
    refine ⟨a, b, c1, d, j, hj, ?_⟩
    by_cases hjk : j.jwk = none
    · exact .inr ⟨hjk, hb⟩
    · -- nsigs = 0 with a jwk: lookupJWK crashes, so it cannot have succeeded
      exfalso
      unfold lookupJWK at h
      simp only [hj] at h
      have : j.jwk.isSome = true := by cases hh : j.jwk <;> simp_all
      simp [this] at hcond
      simp [hcond] at h

theorem verifyPayload_ok {w w' : World} {c c' : Ctx} (h : verifyPayload w c = (w', .ok c')) :
    w' = w ∧ ∃ j thumb kalg, c.jws = some j ∧ c.jwk = some (thumb, kalg) ∧
      (kalg = 0 ∨ kalg = j.alg) ∧ verifies j thumb = true ∧ c' = { c with payload := some j.payloadEmpty } := by
  unfold verifyPayload at h
  split at h; · simp at h
  rename_i j hj
  split at h; · simp at h
  rename_i thumb kalg hk
  split at h; · simp at h
  split at h; · simp at h
  rename_i halg
  split at h; · simp at h
  rename_i hver
  simp at h
  refine ⟨h.1.symm, j, thumb, kalg, hj, hk, ?_, by simpa using hver, h.2.symm⟩
  by_cases h0 : kalg = 0
  · exact .inl h0
  · right; simp [h0] at halg; exact halg

theorem isPostAsGet_ok {w w' : World} {c c' : Ctx} (h : isPostAsGet w c = (w', .ok c')) :
    w' = w ∧ c' = c ∧ c.payload = some true := by
  unfold isPostAsGet at h
  split at h; · simp at h
  rename_i e he
  split at h; · simp at h
  rename_i hh
  simp at h
  refine ⟨h.1.symm, h.2.symm, ?_⟩
  simp at hh; rw [he, hh]

theorem runChain_cons_ok {m : Mw} {ms : List Mw} {rq : Req} {w w' : World} {c c' : Ctx}
    (h : runChain (m :: ms) rq w c = (w', .ok c')) :
    ∃ w1 c1, runMw m rq w c = (w1, .ok c1) ∧ runChain ms rq w1 c1 = (w', .ok c') := by
  simp only [runChain] at h
  cases hm : runMw m rq w c with
  | mk w1 r =>
    rw [hm] at h
    cases r with
    | error e => simp at h
    | ok c1 => exact ⟨w1, c1, rfl, h⟩

/-- `verifyContentType` lets the request through -/
def ctAccepted (rq : Req) : Prop := rq.ct = 0 ∨ (rq.certPath = true ∧ (rq.ct = 1 ∨ rq.ct = 2))

/-- the context behind `validateJWS` -/
def ctxValidated (rq : Req) : Ctx := { prov := true, jws := some rq.jws, acc := none, jwk := none, payload := none }

theorem validating_ok {rq : Req} {w w' : World} {c : Ctx}
    (h : runChain validating rq w Ctx.empty = (w', .ok c)) :
    rq.provKnown = true ∧ ctAccepted rq ∧ rq.parsed = true ∧ c = ctxValidated rq ∧
      Validated rq (issueNonce w rq.fresh) w' rq.jws := by
  simp only [validating, common, List.cons_append, List.nil_append] at h
  obtain ⟨w1, c1, h1, g1⟩ := runChain_cons_ok h
  obtain ⟨w2, c2, h2, g2⟩ := runChain_cons_ok g1
  obtain ⟨w3, c3, h3, g3⟩ := runChain_cons_ok g2
  obtain ⟨w4, c4, h4, g4⟩ := runChain_cons_ok g3
  obtain ⟨w5, c5, h5, g5⟩ := runChain_cons_ok g4
  obtain ⟨w6, c6, h6, g6⟩ := runChain_cons_ok g5
  obtain ⟨w7, c7, h7, g7⟩ := runChain_cons_ok g6
  clear g1 g2 g3 g4 g5 g6 h
  simp only [runChain] at g7
  simp only [runMw] at h1 h2 h3 h4 h5 h6 h7
  -- linker
  split at h1; · simp at h1
  rename_i hp
  split at h1; · simp at h1
  rename_i hpa
  simp at h1; obtain ⟨e1, e1'⟩ := h1; subst e1; subst e1'
  split at h2; · simp at h2
  split at h2; · simp at h2
  simp at h2; obtain ⟨e2, e2'⟩ := h2; subst e2; subst e2'
  simp at h3; obtain ⟨e3, e3'⟩ := h3; subst e3; subst e3'
  simp at h4; obtain ⟨e4, e4'⟩ := h4; subst e4; subst e4'
  -- verifyContentType
  simp only [Ctx.empty, Bool.not_true, Bool.false_eq_true, if_false] at h5
  split at h5
  · rename_i hct
    simp at h5; obtain ⟨e5, e5'⟩ := h5; subst e5; subst e5'
    -- parseJWS
    split at h6; · simp at h6
    rename_i hparsed
    simp at h6; obtain ⟨e6, e6'⟩ := h6; subst e6; subst e6'
    have ⟨e7, j, hj, hval⟩ := validateJWS_ok h7
    simp at hj; subst hj
    simp at g7; obtain ⟨hw, hc⟩ := g7; subst hw; subst hc
    refine ⟨by simpa using hp, ?_, by simpa using hparsed, e7, hval⟩
    simp at hct
    exact hct
  · simp at h5

/-- the common prefix (`linker`, `checkPrerequisites`) refuses, before anything else looks at the request and
    before a nonce is minted, when a prerequisites checker is installed and objects (501) or fails (500) -/
theorem validating_prereq {rq : Req} {w w' : World} {c : Ctx}
    (h : runChain validating rq w Ctx.empty = (w', .ok c)) : rq.prereq ≠ 1 ∧ rq.prereq ≠ 2 := by
  simp only [validating, common, List.cons_append, List.nil_append] at h
  obtain ⟨w1, c1, h1, g1⟩ := runChain_cons_ok h
  obtain ⟨w2, c2, h2, g2⟩ := runChain_cons_ok g1
  simp only [runMw] at h2
  split at h2; · simp at h2
  rename_i n1
  split at h2; · simp at h2
  rename_i n2
  exact ⟨n1, n2⟩

/-- the linker lets only ACME provisioners through -/
theorem validating_acme {rq : Req} {w w' : World} {c : Ctx}
    (h : runChain validating rq w Ctx.empty = (w', .ok c)) : rq.provAcme = true := by
  simp only [validating, common, List.cons_append, List.nil_append] at h
  obtain ⟨w1, c1, h1, g1⟩ := runChain_cons_ok h
  simp only [runMw] at h1
  split at h1; · simp at h1
  split at h1; · simp at h1
  rename_i n
  simpa using n

/-- **prerequisites_refuse_untouched.** With a prerequisites checker that objects or fails, every chain that
    starts with the common prefix answers 501 / 500 and leaves the world exactly as it was: no nonce is
    minted, none is consumed, nothing is looked up. -/
theorem prerequisites_refuse_untouched (rest : List Mw) (rq : Req) (w : World)
    (hp : rq.provKnown = true) (hpa : rq.provAcme = true) (h : rq.prereq = 1 ∨ rq.prereq = 2) :
    runChain (common ++ rest) rq w Ctx.empty =
      (w, .error (if rq.prereq = 1 then .notImplemented else .serverInternal)) := by
  rcases h with h | h <;> simp [common, runChain, runMw, hp, hpa, h]

/-- what `extractJWK` decides: the world, the refusal, or the (account, key) it puts into the context -/
def jwkOutcome (s : Step) : World × Except Rej (Option Account × Option (Nat × Nat)) :=
  (s.1, match s.2 with | .error e => .error e | .ok c => .ok (c.acc, c.jwk))

/-- **embedded_kid_ignored.** A "kid" member that the client puts inside the embedded jwk — for instance the
    thumbprint of somebody else's account key — changes nothing: the key in context is the embedded key under its
    own RFC 7638 thumbprint and the account in context is the account of THAT key (`ByJwk`), whatever the member says. -/
theorem embedded_kid_ignored (w : World) (c : Ctx) (j : Jws) (k : Jwk) (m : Nat)
    (hj : c.jws = some j) (hk : j.jwk = some k) :
    jwkOutcome (extractJWK w { c with jws := some { j with jwk := some { k with kidMember := m } } }) =
      jwkOutcome (extractJWK w c) := by
  unfold jwkOutcome extractJWK
  simp only [hj, hk]
  by_cases h0 : j.nsigs = 0
  · simp [h0]
  by_cases hv : k.valid = true
  · by_cases ht : k.thumb = 0
    · simp [h0, hv, ht]
    · cases ha : accByKey w k.thumb with
      | none => simp [h0, hv, ht, ha]
      | some a =>
        by_cases hs : a.status = .valid
        · simp [h0, hv, ht, ha, hs]
        · simp [h0, hv, ht, ha, hs]
  · simp [h0, hv]

/-- whose key the request is checked against, per selector -/
def signerProof (sel : Sel) (rq : Req) (w : World) (c : Ctx) : Prop :=
  match sel with
  | .jwk => ByJwk w rq.jws c
  | .kid => ByKid rq w rq.jws c
  | .either => (rq.jws.jwk.isSome = true ∧ ByJwk w rq.jws c) ∨ (rq.jws.jwk = none ∧ ByKid rq w rq.jws c)

/-- Everything that is true of a request that got through a guarded chain to its handler. -/
structure Honoured (sel : Sel) (pag : Bool) (rq : Req) (w w' : World) (c : Ctx) : Prop where
  prov : rq.provKnown = true
  contentType : ctAccepted rq
  parsed : rq.parsed = true
  /-- one signature, no unprotected header, asymmetric algorithm (RSA ≥ 2048 bits when embedded),
      the nonce was in the table and is no longer, url = request URL, jwk xor kid -/
  validated : Validated rq (issueNonce w rq.fresh) w' rq.jws
  ctxProv : c.prov = true
  ctxJws : c.jws = some rq.jws
  /-- the key in context is the embedded key (and the account, if that key has one, is active) or
      the stored key of the active account the kid names, kid = its location, its provisioner = the URL's -/
  signer : signerProof sel rq w' c
  /-- the signature verifies under that key, and the key's algorithm (if it names one) is the JWS's -/
  verified : ∃ thumb kalg, c.jwk = some (thumb, kalg) ∧ (kalg = 0 ∨ kalg = rq.jws.alg) ∧ verifies rq.jws thumb = true
  payload : c.payload = some rq.jws.payloadEmpty
  postAsGet : pag = true → rq.jws.payloadEmpty = true
  /-- a prerequisites checker installed in the request context did not object -/
  prereq : rq.prereq ≠ 1 ∧ rq.prereq ≠ 2
  /-- the provisioner named in the URL is an ACME provisioner -/
  provAcme : rq.provAcme = true

theorem selector_ok {sel : Sel} {rq : Req} {w w' : World} {c c' : Ctx} (hacc : c.acc = none) (hj : c.jws = some rq.jws)
    (h : runMw sel.mw rq w c = (w', .ok c')) :
    w' = w ∧ c'.jws = c.jws ∧ c'.payload = c.payload ∧ c'.prov = c.prov ∧ signerProof sel rq w c' := by
  cases sel with
  | jwk =>
    have hx : extractJWK w c = (w', .ok c') := by simpa [Sel.mw, runMw] using h
    have ⟨a, b, c1, d, j, hj', hb⟩ := extractJWK_ok hacc hx
    rw [hj] at hj'; cases hj'
    exact ⟨a, b, c1, d, hb⟩
  | kid =>
    have hx : lookupJWK rq w c = (w', .ok c') := by simpa [Sel.mw, runMw] using h
    have ⟨a, b, c1, d, j, hj', hb⟩ := lookupJWK_ok hx
    rw [hj] at hj'; cases hj'
    exact ⟨a, b, c1, d, hb⟩
  | either =>
    have hx : extractOrLookupJWK rq w c = (w', .ok c') := by simpa [Sel.mw, runMw] using h
    have ⟨a, b, c1, d, j, hj', hb⟩ := extractOrLookupJWK_ok hacc hx
    rw [hj] at hj'; cases hj'
    exact ⟨a, b, c1, d, hb⟩

theorem signerProof_payload {sel : Sel} {rq : Req} {w : World} {c : Ctx} (p : Option Bool)
    (h : signerProof sel rq w c) : signerProof sel rq w { c with payload := p } := by
  cases sel with
  | jwk => exact ⟨h.embedded⟩
  | kid => exact ⟨h.named⟩
  | either =>
    rcases h with ⟨a, b⟩ | ⟨a, b⟩
    · exact .inl ⟨a, ⟨b.embedded⟩⟩
    · exact .inr ⟨a, ⟨b.named⟩⟩

/-- **request_honoured_only_if.** A handler behind a guarded chain is reached only if the request
    is a parsed JWS with exactly one signature, no unprotected header, an asymmetric algorithm, a
    nonce that was in the server's table and has been removed from it, a protected url equal to the
    request URL, exactly one of jwk/kid, and a signature that verifies under the key the selector
    put in context: the embedded key on the jwk routes, the stored key of the *active* account named
    by kid (kid = its stored location, created under the provisioner of the URL) on the kid routes. -/
theorem request_honoured_only_if {sel : Sel} {pag : Bool} {rq : Req} {w w' : World} {c : Ctx}
    (h : runChain (guardedChain sel pag) rq w Ctx.empty = (w', .ok c)) : Honoured sel pag rq w w' c := by
  unfold guardedChain at h
  rw [List.append_assoc, runChain_append] at h
  cases hv : runChain validating rq w Ctx.empty with
  | mk w1 r =>
    rw [hv] at h
    cases r with
    | error e => simp at h
    | ok c1 =>
      simp only [] at h
      have ⟨v1, v2, v3, v4, v5⟩ := validating_ok hv
      have vp := validating_prereq hv
      have va := validating_acme hv
      subst v4
      simp only [List.cons_append, List.nil_append] at h
      obtain ⟨w2, c2, h2, g2⟩ := runChain_cons_ok h
      obtain ⟨w3, c3, h3, g3⟩ := runChain_cons_ok g2
      have ⟨s1, s2, s3, s4, s5⟩ := selector_ok (c := ctxValidated rq) rfl rfl h2
      have hx3 : verifyPayload w2 c2 = (w3, .ok c3) := by simpa [runMw] using h3
      have ⟨p1, j, thumb, kalg, pj, pk, palg, pver, pc⟩ := verifyPayload_ok hx3
      have hj : j = rq.jws := by
        rw [s2] at pj; simp [ctxValidated] at pj; exact pj.symm
      subst hj
      have hw31 : w3 = w1 := p1.trans s1
      have base : Honoured sel false rq w w3 c3 := by
        rw [hw31, pc]
        exact ⟨v1, v2, v3, v5, by simp [s4, ctxValidated], by simp [s2, ctxValidated],
          signerProof_payload _ s5, ⟨thumb, kalg, pk, palg, pver⟩, rfl, by simp, vp, va⟩
      cases pag with
      | false =>
        simp [runChain] at g3
        obtain ⟨e1, e2⟩ := g3
        rw [← e1, ← e2]
        exact base
      | true =>
        simp only [if_true] at g3
        obtain ⟨w4, c4, h4, g4⟩ := runChain_cons_ok g3
        have hx4 : isPostAsGet w3 c3 = (w4, .ok c4) := by simpa [runMw] using h4
        have ⟨q1, q2, q3⟩ := isPostAsGet_ok hx4
        simp [runChain] at g4
        obtain ⟨e1, e2⟩ := g4
        rw [← e1, ← e2, q1, q2]
        refine { base with postAsGet := fun _ => ?_ }
        have := base.payload
        rw [q3] at this
        simpa using this.symm
/-! ## the route table -/

/-- **routes_guarded** (table closed by evaluation) for the copy of the table the driver uses. -/
theorem routes_guarded : tableGuarded pastedRoutes = true := by decide

/-- **routes_generated** — the table regenerated by /verif/extract from acme/api/handler.go on this
    run converts (every name known) to exactly the table above; so `routes_guarded` and everything
    derived from it is about the route registrations of the current source. -/
theorem routes_generated : ofGenerated Verif.Generated.AcmeRoutes.routes = some pastedRoutes := by decide

/-- **routes_guarded_generated** — stated directly on the regenerated table. -/
theorem routes_guarded_generated :
    (ofGenerated Verif.Generated.AcmeRoutes.routes).map tableGuarded = some true := by decide

theorem guarded_row {rs : List Route} (hg : tableGuarded rs = true) {r : Route} (hr : r ∈ rs) :
    (r.method = .POST → ∃ h pag, r.handler = .h h ∧ r.chain = guardedChain (requiredSel h) pag) ∧
    (r.method ≠ .POST → r.handler = .other) := by
  have := List.all_eq_true.mp hg r hr
  unfold rowGuarded at this
  constructor
  · intro hp
    cases hh : r.handler with
    | other => simp [hp, hh] at this
    | h h =>
      simp only [hp, hh, Bool.or_eq_true, beq_iff_eq] at this
      rcases this with e | e
      · exact ⟨h, false, rfl, e⟩
      · exact ⟨h, true, rfl, e⟩
  · intro hp
    cases hh : r.handler with
    | other => rfl
    | h h => cases hm : r.method <;> simp_all

/-- **served_only_if.** For every row of every guarded table: the handler's answer is produced
    only behind the full conjunction of `Honoured`. -/
theorem served_only_if {rs : List Route} (hg : tableGuarded rs = true) {r : Route} (hr : r ∈ rs)
    {h : Handler} (hh : r.handler = .h h) {rq : Req} {w w' : World} {res : Res}
    (hs : serve r.chain h rq w = (w', .ok res)) :
    ∃ pag w1 c, Honoured (requiredSel h) pag rq w w1 c ∧ runHandler h rq w1 c = (w', .ok res) := by
  have hp : r.method = .POST := by
    cases hm : r.method with
    | POST => rfl
    | GET => have := (guarded_row hg hr).2 (by simp [hm]); rw [hh] at this; cases this
    | HEAD => have := (guarded_row hg hr).2 (by simp [hm]); rw [hh] at this; cases this
  obtain ⟨h', pag, e1, e2⟩ := (guarded_row hg hr).1 hp
  rw [hh] at e1; cases e1
  unfold serve at hs
  rw [e2] at hs
  cases hc : runChain (guardedChain (requiredSel h) pag) rq w Ctx.empty with
  | mk w1 r1 =>
    rw [hc] at hs
    cases r1 with
    | error e => simp at hs
    | ok c => exact ⟨pag, w1, c, request_honoured_only_if hc, hs⟩

/-- the hypotheses are satisfiable: a well-formed POST-as-GET for one's own order is served -/
def exAcct : Account :=
  { id := 1, key := 11, keyAlg := 0, status := .valid, loc := 21, provId := 31, provName := 32 }
def exJws : Jws :=
  { nsigs := 1, unprotEmpty := true, algClass := .ecEd, alg := 5, isES := true, short := 0, jwk := none,
    kid := 21, kidBase := 1, kidHasPrefix := true, nonce := 7, url := some 40,
    ver := [(11, ⟨true, false, false, false⟩)], payloadEmpty := true }
def exReq : Req :=
  { provId := 31, provName := 32, provKnown := true, url := 40, ct := 0, certPath := false, parsed := true,
    jws := exJws, fresh := 8, target := 50, target2 := 0, payloadOk := true, wantDeactivate := false,
    onlyExisting := false, certKey := 0, certSame := true, attest := false, attPayload := 0 }

/-- the hypotheses of `prerequisites_refuse_untouched` are satisfiable, and the refusal is what it says:
    a guarded chain answers 501 without minting the nonce `exReq.fresh` -/
example : ({ exReq with prereq := 1 } : Req).provKnown = true ∧ ({ exReq with prereq := 1 } : Req).provAcme = true ∧
    ({ exReq with prereq := 1 } : Req).prereq = 1 := by decide
def exWorldP : World :=
  ⟨[7], [exAcct], [], [], [], []⟩
example : runChain (guardedChain .kid true) { exReq with prereq := 1 } exWorldP Ctx.empty = (exWorldP, .error .notImplemented) := by
  rfl
example : runChain (guardedChain .jwk false) { exReq with prereq := 2 } exWorldP Ctx.empty = (exWorldP, .error .serverInternal) := by
  rfl
def exWorld : World :=
  { nonces := [7], accounts := [exAcct, { exAcct with id := 2, key := 12, loc := 22 }],
    orders := [⟨50, 1, 31⟩, ⟨51, 2, 31⟩], authzs := [⟨60, 1, 0⟩, ⟨61, 2, 0⟩, ⟨62, 1, 0⟩],
    challenges := [⟨70, 1, 60⟩, ⟨71, 2, 61⟩, ⟨72, 1, 62⟩], certs := [⟨80, 1, false⟩, ⟨81, 2, false⟩] }

deriving instance DecidableEq for Except

example : (serve (byKid ++ [.isPostAsGet]) .getOrder exReq exWorld).2 = .ok (.order 50) := by decide
example : (serve (byKid ++ [.isPostAsGet]) .getOrder { exReq with target := 51 } exWorld).2 = .error .unauthorized := by decide
-- the same request again: its nonce is gone
example : (serve (byKid ++ [.isPostAsGet]) .getOrder exReq
    (serve (byKid ++ [.isPostAsGet]) .getOrder exReq exWorld).1).2 = .error .badNonce := by decide

/-! ## each nonce is accepted once, in every order of events -/

/-- the events that touch the nonce table: `CreateNonce` (any middleware chain's `addNonce`) and
    the `validateJWS` of a request — its tests before and after `DeleteNonce` are local to the
    request, and `DeleteNonce` is one atomic `Update`, so the order of these events is the
    interleaving -/
inductive Op where
  | issue (n : Nat)
  | request (rq : Req)

/-- number of requests carrying nonce `n` that get past `validateJWS` -/
def passesWith (n : Nat) (w : World) : List Op → Nat
  | [] => 0
  | .issue m :: ops => passesWith n (issueNonce w m) ops
  | .request rq :: ops =>
    match validateJWS rq w (ctxValidated rq) with
    | (w', .ok _) => (if rq.jws.nonce = n then 1 else 0) + passesWith n w' ops
    | (w', .error _) => passesWith n w' ops

theorem consumeNonce_notin (w : World) (n x : Nat) (hx : x ∉ w.nonces) : x ∉ (consumeNonce w n).1.nonces := by
  unfold consumeNonce
  split
  · simp; intro h; exact absurd h hx
  · exact hx

theorem validateJWS_world (rq : Req) (w : World) (c : Ctx) :
    (validateJWS rq w c).1 = w ∨ ∃ n, (validateJWS rq w c).1 = (consumeNonce w n).1 := by
  unfold validateJWS
  repeat' split
  all_goals first
    | exact .inl rfl
    | (right
       have hc := ‹consumeNonce w _ = _›
       exact ⟨_, by rw [hc]⟩)

theorem validateJWS_nonces (rq : Req) (w : World) (c : Ctx) (x : Nat)
    (hx : x ∉ w.nonces) : x ∉ (validateJWS rq w c).1.nonces := by
  rcases validateJWS_world rq w c with h | ⟨n, h⟩
  · rw [h]; exact hx
  · rw [h]; exact consumeNonce_notin w n x hx

/-- **nonce_once.** Whatever the sequence of nonce issues and requests — any number of requests,
    of any shape, in any order — as long as the server never mints the value `n` twice
    (`CreateNonce` draws 32 random characters), at most one request carrying `n` gets past
    `validateJWS`; none if `n` is not in the table at the start. -/
theorem nonce_once (n : Nat) (ops : List Op) (w : World)
    (hfresh : ∀ m, Op.issue m ∈ ops → m ≠ n) :
    passesWith n w ops ≤ 1 ∧ (n ∉ w.nonces → passesWith n w ops = 0) := by
  induction ops generalizing w with
  | nil => simp [passesWith]
  | cons op ops ih =>
    have hf' : ∀ m, Op.issue m ∈ ops → m ≠ n := fun m hm => hfresh m (List.mem_cons_of_mem _ hm)
    cases op with
    | issue m =>
      have hm : m ≠ n := hfresh m List.mem_cons_self
      simp only [passesWith]
      refine ⟨(ih _ hf').1, fun hn => (ih _ hf').2 ?_⟩
      simp [issueNonce]; exact ⟨fun h => hm h.symm, hn⟩
    | request rq =>
      simp only [passesWith]
      cases hv : validateJWS rq w (ctxValidated rq) with
      | mk w1 r =>
        have hkeep : n ∉ w.nonces → n ∉ w1.nonces := by
          intro hn
          have := validateJWS_nonces rq w (ctxValidated rq) n hn
          rw [hv] at this; exact this
        cases r with
        | error e =>
          simp only []
          exact ⟨(ih w1 hf').1, fun hn => (ih w1 hf').2 (hkeep hn)⟩
        | ok c1 =>
          simp only []
          have ⟨_, j, hj, hval⟩ := validateJWS_ok hv
          simp [ctxValidated] at hj; subst hj
          by_cases hnn : rq.jws.nonce = n
          · have hgone : n ∉ w1.nonces := hnn ▸ hval.nonceGone
            have h0 := (ih w1 hf').2 hgone
            refine ⟨by simp [hnn, h0], fun hn => ?_⟩
            exact absurd (hnn ▸ hval.nonceLive) hn
          · simp only [hnn, if_false, Nat.zero_add]
            exact ⟨(ih w1 hf').1, fun hn => (ih w1 hf').2 (hkeep hn)⟩

-- three well-formed requests with one nonce, nonces being issued in between: exactly one passes
example : passesWith 7 exWorld [.request exReq, .issue 9, .request { exReq with target := 51 }, .request exReq] = 1 := by decide
-- the theorem needs the atomic step: with Get and Delete as two separate steps, two requests that
-- both read before either deletes both pass
example : let get := fun (w : World) (n : Nat) => w.nonces.contains n
          let del := fun (w : World) (n : Nat) => { w with nonces := w.nonces.filter (· != n) }
          let r1 := get exWorld 7; let r2 := get exWorld 7
          let w2 := del (del exWorld 7) 7
          (r1, r2, w2.nonces) = (true, true, []) := by decide

/-! ## confinement -/

/-- the resource a response carries belongs to account `a` (orders: and provisioner `prov`) -/
def OwnedBy (w : World) (a prov : Nat) : Res → Prop
  | .order id => ∃ o, findOwned w.orders id = some o ∧ o.acct = a ∧ o.prov = prov
  | .authz id => ∃ z, findOwned w.authzs id = some z ∧ z.acct = a
  | .challenge id _ => ∃ ch, findOwned w.challenges id = some ch ∧ ch.acct = a
  | .attested id az => (∃ ch, findOwned w.challenges id = some ch ∧ ch.acct = a) ∧
      (∃ z, findOwned w.authzs az = some z ∧ z.acct = a)
  | .cert id => ∃ x, findCert w id = some x ∧ x.acct = a
  | .ordersOf acct => acct = a
  | .account id => id = a
  | .newOrder acct p => acct = a ∧ p = prov
  | .revoked _ => False
  | .newAccount => False

theorem find?_id {l : List Owned} {id : Nat} {o : Owned} (h : findOwned l id = some o) : o.id = id := by
  unfold findOwned at h
  simpa using List.find?_some h

/-- **confined.** Whatever is in the request context, a resource handler answers with an order,
    authorization, challenge, certificate, order list or account only if that object belongs to the
    account in context (orders also to the provisioner of the URL); the object is the one the URL names. -/
theorem confined {h : Handler} {rq : Req} {w w' : World} {c : Ctx} {res : Res}
    (hh : h ≠ .revokeCert) (hn : h ≠ .newAccount)
    (hr : runHandler h rq w c = (w', .ok res)) :
    ∃ a, c.acc = some a ∧ OwnedBy w a.id rq.provId res := by
  cases h with
  | revokeCert => exact absurd rfl hh
  | newAccount => exact absurd rfl hn
  | keyChange => simp [runHandler] at hr
  | getOrUpdateAccount =>
    simp only [runHandler] at hr
    repeat' (split at hr <;> try (simp at hr))
    all_goals (obtain ⟨_, rfl⟩ := hr; exact ⟨_, ‹c.acc = some _›, rfl⟩)
  | newOrder =>
    simp only [runHandler] at hr
    repeat' (split at hr <;> try (simp at hr))
    obtain ⟨_, rfl⟩ := hr
    exact ⟨_, ‹c.acc = some _›, rfl, rfl⟩
  | getOrder =>
    simp only [runHandler] at hr
    repeat' (split at hr <;> try (simp at hr))
    obtain ⟨_, rfl⟩ := hr
    have ho := ‹findOwned w.orders rq.target = some _›
    refine ⟨_, ‹c.acc = some _›, _, by rw [find?_id ho]; exact ho, ?_, ?_⟩ <;> simp_all
  | finalize =>
    simp only [runHandler] at hr
    repeat' (split at hr <;> try (simp at hr))
    obtain ⟨_, rfl⟩ := hr
    have ho := ‹findOwned w.orders rq.target = some _›
    refine ⟨_, ‹c.acc = some _›, _, by rw [find?_id ho]; exact ho, ?_, ?_⟩ <;> simp_all
  | ordersByAccount =>
    simp only [runHandler] at hr
    repeat' (split at hr <;> try (simp at hr))
    obtain ⟨_, rfl⟩ := hr
    exact ⟨_, ‹c.acc = some _›, rfl⟩
  | getAuthz =>
    simp only [runHandler] at hr
    repeat' (split at hr <;> try (simp at hr))
    obtain ⟨_, rfl⟩ := hr
    have ho := ‹findOwned w.authzs rq.target = some _›
    refine ⟨_, ‹c.acc = some _›, _, by rw [find?_id ho]; exact ho, ?_⟩
    simp_all
  | getChallenge =>
    simp only [runHandler] at hr
    repeat' (split at hr <;> try (simp at hr))
    all_goals (
      obtain ⟨_, rfl⟩ := hr
      have ho := ‹findOwned w.challenges rq.target2 = some _›
      first
        | (refine ⟨_, ‹c.acc = some _›, _, by rw [find?_id ho]; exact ho, ?_⟩
           simp_all)
        | (have hz := ‹findOwned w.authzs rq.target = some _›
           refine ⟨_, ‹c.acc = some _›, ⟨_, by rw [find?_id ho]; exact ho, ?_⟩, ⟨_, by rw [find?_id hz]; exact hz, ?_⟩⟩ <;> simp_all))
  | getCertificate =>
    simp only [runHandler] at hr
    repeat' (split at hr <;> try (simp at hr))
    obtain ⟨_, rfl⟩ := hr
    have hx := ‹findCert w rq.target = some _›
    have hid := hx
    unfold findCert at hid
    have hid' := List.find?_some hid
    simp at hid'
    refine ⟨_, ‹c.acc = some _›, _, by rw [hid']; exact hx, ?_⟩
    simp_all

theorem validated_accounts {rq : Req} {w w' : World} {j : Jws} {m : Nat}
    (h : Validated rq (issueNonce w m) w' j) :
    w'.accounts = w.accounts ∧ w'.orders = w.orders ∧ w'.authzs = w.authzs ∧
      w'.challenges = w.challenges ∧ w'.certs = w.certs := by
  rw [h.world]; exact ⟨rfl, rfl, rfl, rfl, rfl⟩

theorem OwnedBy_congr {w w' : World} (ho : w'.orders = w.orders) (hz : w'.authzs = w.authzs)
    (hc : w'.challenges = w.challenges) (hx : w'.certs = w.certs) {a p : Nat} {res : Res}
    (h : OwnedBy w' a p res) : OwnedBy w a p res := by
  cases res <;> simp only [OwnedBy, findCert] at h ⊢ <;> simp_all

/-- **confined_served.** End to end, for every row of a guarded table whose handler is reached
    through the kid selector: a response that carries a resource carries one that belongs to the
    *active* account named by the request's kid — the account under whose stored key the signature
    verified, whose stored location equals the kid and which was created under the provisioner of the URL. -/
theorem confined_served {rs : List Route} (hg : tableGuarded rs = true) {r : Route} (hr : r ∈ rs)
    {h : Handler} (hh : r.handler = .h h) (hk : requiredSel h = .kid)
    {rq : Req} {w w' : World} {res : Res}
    (hs : serve r.chain h rq w = (w', .ok res)) :
    ∃ a, accById w rq.jws.kidBase = some a ∧ a.status = .valid ∧ verifies rq.jws a.key = true ∧
      ((a.loc ≠ 0 ∧ rq.jws.kid = a.loc ∧ provMatches a rq) ∨
       (a.loc = 0 ∧ rq.jws.kidHasPrefix = true ∧ provRecordedMatches a rq)) ∧
      OwnedBy w a.id rq.provId res := by
  obtain ⟨pag, w1, c, hon, hrun⟩ := served_only_if hg hr hh hs
  rw [hk] at hon
  have ⟨a, _, ha, hst, hacc, hjwk, hloc⟩ := hon.signer.named
  have ⟨e1, e2, e3, e4, e5⟩ := validated_accounts hon.validated
  have hne1 : h ≠ .revokeCert := by intro e; subst e; simp [requiredSel] at hk
  have hne2 : h ≠ .newAccount := by intro e; subst e; simp [requiredSel] at hk
  obtain ⟨a', ha', hown⟩ := confined hne1 hne2 hrun
  rw [hacc] at ha'; cases ha'
  obtain ⟨thumb, kalg, hj, _, hver⟩ := hon.verified
  rw [hjwk] at hj; cases hj
  refine ⟨a, ?_, hst, hver, hloc, OwnedBy_congr e2 e3 e4 e5 hown⟩
  simpa [accById, e1] using ha

/-- `canExtractJWKFrom` -/
def canExtract (j : Jws) : Bool := j.nsigs ≠ 0 && j.jwk.isSome

/-- **revoke_only_owner_or_holder.** `RevokeCert` revokes only a stored, not yet revoked certificate,
    only when the certificate submitted is byte for byte the stored one with that serial (so
    `certKey`, the key of the submitted certificate, is the key of the certificate being revoked),
    and only for the active account that owns it (no embedded key) or for a request whose signature —
    the bytes `verifyAndExtractJWSPayload` accepted — verifies under that certificate's key
    (embedded key). -/
theorem revoke_only_owner_or_holder {rq : Req} {w w' : World} {c : Ctx} {res : Res}
    (hr : runHandler .revokeCert rq w c = (w', .ok res)) :
    ∃ j x, c.jws = some j ∧ findCert w rq.target = some x ∧ rq.certSame = true ∧ x.revoked = false ∧
      res = .revoked x.id ∧
      ((canExtract j = false ∧ ∃ a, c.acc = some a ∧ a.status = .valid ∧ x.acct = a.id) ∨
       (canExtract j = true ∧ ∃ thumb kalg, c.jwk = some (thumb, kalg) ∧
          verifiesIn j (sigState j thumb) rq.certKey = true)) := by
  simp only [runHandler] at hr
  split at hr
  · rename_i j p hj hp
    split at hr; · simp at hr
    split at hr; · simp at hr
    rename_i x hx
    split at hr; · simp at hr
    rename_i hsame
    split at hr; · simp at hr
    rename_i hauth
    split at hr; · simp at hr
    rename_i hrev
    simp at hr
    refine ⟨j, x, hj, hx, by simpa using hsame, by simpa using hrev, hr.2.symm, ?_⟩
    split at hauth
    · rename_i hcond
      left
      split at hauth; · simp at hauth
      rename_i a ha
      split at hauth; · simp at hauth
      rename_i hst
      split at hauth
      · rename_i hown
        refine ⟨?_, a, ha, by simpa using hst, hown⟩
        simp only [canExtract]; simp at hcond ⊢; rcases hcond with h0 | h0
        · exact fun hh => absurd h0 hh
        · exact fun _ => h0
      · simp at hauth
    · rename_i hcond
      right
      refine ⟨by simp only [canExtract]; simp at hcond ⊢; exact ⟨hcond.1, by cases hjk : j.jwk <;> simp_all⟩, ?_⟩
      split at hauth; · simp at hauth
      rename_i thumb kalg hk
      split at hauth
      · rename_i hv; exact ⟨thumb, kalg, hk, hv⟩
      · simp at hauth
  · simp at hr

/-- end to end for the revocation row of a guarded table: who may revoke -/
theorem revoke_served {rs : List Route} (hg : tableGuarded rs = true) {r : Route} (hr : r ∈ rs)
    (hh : r.handler = .h .revokeCert) {rq : Req} {w w' : World} {res : Res}
    (hs : serve r.chain .revokeCert rq w = (w', .ok res)) :
    ∃ x, findCert w rq.target = some x ∧ rq.certSame = true ∧ x.revoked = false ∧ res = .revoked x.id ∧
      ((rq.jws.jwk = none ∧ ∃ a, accById w rq.jws.kidBase = some a ∧ a.status = .valid ∧
          verifies rq.jws a.key = true ∧ x.acct = a.id) ∨
       (∃ k, rq.jws.jwk = some k ∧ verifies rq.jws k.thumb = true ∧
          verifiesIn rq.jws (sigState rq.jws k.thumb) rq.certKey = true)) := by
  obtain ⟨pag, w1, c, hon, hrun⟩ := served_only_if hg hr hh hs
  obtain ⟨j, x, hj, hx, hsame, hrev, hres, hwho⟩ := revoke_only_owner_or_holder hrun
  rw [hon.ctxJws] at hj; cases hj
  have ⟨e1, e2, e3, e4, e5⟩ := validated_accounts hon.validated
  have hx' : findCert w rq.target = some x := by simpa [findCert, e5] using hx
  refine ⟨x, hx', hsame, hrev, hres, ?_⟩
  have hone := hon.validated.oneSig
  obtain ⟨thumb, kalg, hk, _, hver⟩ := hon.verified
  have hsig : signerProof .either rq w1 c := hon.signer
  rcases hwho with ⟨hce, a, ha, hst, hown⟩ | ⟨hce, t2, k2, hk2, hv2⟩
  · left
    have hnone : rq.jws.jwk = none := by
      cases hjk : rq.jws.jwk with
      | none => rfl
      | some k => simp [canExtract, hone, hjk] at hce
    rcases hsig with ⟨hs1, _⟩ | ⟨_, hb⟩
    · simp [hnone] at hs1
    · have ⟨a', _, ha', hst', hacc', hjwk', _⟩ := hb.named
      rw [hacc'] at ha; cases ha
      rw [hjwk'] at hk; cases hk
      exact ⟨hnone, _, by simpa [accById, e1] using ha', hst', hver, hown⟩
  · right
    rcases hsig with ⟨_, hb⟩ | ⟨hs1, _⟩
    · obtain ⟨k, hjk, _, _, hcj, _⟩ := hb.embedded
      rw [hcj] at hk hk2; cases hk; cases hk2
      exact ⟨k, hjk, hver, hv2⟩
    · simp [canExtract, hs1] at hce

/-! ## deactivated accounts can do nothing -/

/-- **deactivated_nothing.** No guarded chain lets a request through that names (kid) an account
    that is not active, or embeds (jwk) the key of an account that is not active. -/
theorem deactivated_nothing {sel : Sel} {pag : Bool} {rq : Req} {w w' : World} {c : Ctx}
    (h : runChain (guardedChain sel pag) rq w Ctx.empty = (w', .ok c)) :
    (∀ a, rq.jws.jwk = none → accById w rq.jws.kidBase = some a → a.status = .valid) ∧
    (∀ k a, rq.jws.jwk = some k → accByKey w k.thumb = some a → a.status = .valid) := by
  have hon := request_honoured_only_if h
  have ⟨e1, _⟩ := validated_accounts hon.validated
  have byKid : ByKid rq w' rq.jws c → ∀ a, accById w rq.jws.kidBase = some a → a.status = .valid := by
    intro hb a ha
    obtain ⟨a', _, ha', hst, _⟩ := hb.named
    have : accById w' rq.jws.kidBase = accById w rq.jws.kidBase := by simp [accById, e1]
    rw [this, ha] at ha'; cases ha'; exact hst
  have byJwk : ByJwk w' rq.jws c → ∀ k a, rq.jws.jwk = some k → accByKey w k.thumb = some a → a.status = .valid := by
    intro hb k a hk ha
    obtain ⟨k', hk', _, _, _, hcase⟩ := hb.embedded
    rw [hk] at hk'; cases hk'
    have : accByKey w' k.thumb = accByKey w k.thumb := by simp [accByKey, e1]
    rcases hcase with ⟨hn, _⟩ | ⟨a', ha', hst, _⟩
    · rw [this, ha] at hn; cases hn
    · rw [this, ha] at ha'; cases ha'; exact hst
  have hx := hon.validated.jwkXorKid
  have hs := hon.signer
  cases sel with
  | jwk =>
    refine ⟨fun a hn _ => ?_, byJwk hs⟩
    obtain ⟨k, hk, _⟩ := hs.embedded
    rw [hn] at hk; cases hk
  | kid =>
    refine ⟨fun a _ ha => byKid hs a ha, fun k a hk _ => ?_⟩
    obtain ⟨_, hkid, _⟩ := hs.named
    rcases hx with ⟨_, h0⟩ | ⟨hn, _⟩
    · exact absurd h0 hkid
    · rw [hk] at hn; cases hn
  | either =>
    rcases hs with ⟨hsome, hb⟩ | ⟨hnone, hb⟩
    · exact ⟨fun a hn _ => by simp [hn] at hsome, byJwk hb⟩
    · exact ⟨fun a _ ha => byKid hb a ha, fun k a hk _ => by rw [hk] at hnone; cases hnone⟩

-- a deactivated account: every route refuses
example : (serve byKid .newOrder exReq { exWorld with accounts := [{ exAcct with status := .deactivated }] }).2
    = .error .unauthorized := by decide

/-! ### … for ever -/

theorem runMw_accounts (m : Mw) (rq : Req) (w : World) (c : Ctx) : (runMw m rq w c).1.accounts = w.accounts := by
  cases m <;> simp only [runMw, extractJWK, lookupJWK, extractOrLookupJWK, verifyPayload, isPostAsGet]
  case validateJWS =>
    rcases validateJWS_world rq w c with h | ⟨n, h⟩
    · rw [h]
    · rw [h]; unfold consumeNonce; split <;> rfl
  all_goals (repeat' split) <;> rfl

theorem runChain_accounts (ms : List Mw) (rq : Req) (w : World) (c : Ctx) :
    (runChain ms rq w c).1.accounts = w.accounts := by
  induction ms generalizing w c with
  | nil => rfl
  | cons m ms ih =>
    simp only [runChain]
    have := runMw_accounts m rq w c
    cases hm : runMw m rq w c with
    | mk w1 r =>
      rw [hm] at this
      cases r with
      | error e => exact this
      | ok c1 => simp only []; rw [ih w1 c1]; exact this

/-- account `id` is stored and not active -/
def Inactive (w : World) (id : Nat) : Prop := ∀ a ∈ w.accounts, a.id = id → a.status ≠ .valid

theorem runHandler_inactive (h : Handler) (rq : Req) (w : World) (c : Ctx) (id : Nat)
    (hi : Inactive w id) : Inactive (runHandler h rq w c).1 id := by
  have key : ∀ x, Inactive (setStatus w x .deactivated) id := by
    intro x a ha hid
    simp only [setStatus, List.mem_map] at ha
    obtain ⟨b, hb, rfl⟩ := ha
    split
    · simp
    · rename_i hne; simp only [hne] at hid ⊢; exact hi b hb hid
  have keyR : ∀ x, Inactive (setRevoked w x) id := fun x a ha hid => hi a (by simpa [setRevoked] using ha) hid
  cases h <;> simp only [runHandler] <;> (repeat' split) <;> first | exact hi | exact key _ | exact keyR _

/-- **deactivated_forever.** Over every history of requests through any chains and handlers, an
    account that is not active stays not active (the only status change the API makes is
    valid → deactivated); by `deactivated_nothing` every later request naming it is refused. -/
theorem deactivated_forever (id : Nat) (hist : List (List Mw × Handler × Req)) (w : World)
    (hi : Inactive w id) :
    Inactive (hist.foldl (fun w x => (serve x.1 x.2.1 x.2.2 w).1) w) id := by
  induction hist generalizing w with
  | nil => exact hi
  | cons x xs ih =>
    simp only [List.foldl_cons]
    apply ih
    unfold serve
    have hacc := runChain_accounts x.1 x.2.2 w Ctx.empty
    cases hc : runChain x.1 x.2.2 w Ctx.empty with
    | mk w1 r =>
      rw [hc] at hacc
      have hi1 : Inactive w1 id := fun a ha => hi a (by rw [← hacc]; exact ha)
      cases r with
      | error e => exact hi1
      | ok c => exact runHandler_inactive _ _ _ _ _ hi1

/-! ## a challenge response and the authorization it writes into (D15, fixed by 365cae8) -/

/-- **attest_authz_confined.** A device-attest-01 response that is accepted — the only challenge
    response that writes into an authorization (the attested key fingerprint) — writes into the
    authorization named by the URL only if that authorization belongs to the requesting account, the
    challenge answered is the requester's too, **and the challenge is a challenge of that very
    authorization**. (Before commit 365cae8 the authorization was loaded by the id in the URL and written
    without any test; before e055659 any authorization of the same account was accepted, which let the key
    attested for one identifier become the key of another order.) -/
theorem attest_authz_confined {rq : Req} {w w' : World} {c : Ctx} {ch az : Nat}
    (h : runHandler .getChallenge rq w c = (w', .ok (.attested ch az))) :
    ∃ a x z, c.acc = some a ∧ findOwned w.challenges ch = some x ∧ x.acct = a.id ∧
      az = rq.target ∧ findOwned w.authzs az = some z ∧ z.acct = a.id ∧ x.prov = az := by
  obtain ⟨a, ha, ⟨x, hx, hxo⟩, ⟨z, hz, hzo⟩⟩ := confined (by decide) (by decide) h
  simp only [runHandler] at h
  repeat' (split at h <;> try (simp at h))
  rename_i hbel _
  have hid := find?_id ‹findOwned w.authzs rq.target = some _›
  have hcid := find?_id ‹findOwned w.challenges rq.target2 = some _›
  have haz : az = rq.target := by rw [← h.2.2, hid]
  refine ⟨a, x, z, ha, hx, hxo, haz, hz, hzo, ?_⟩
  have hc := ‹findOwned w.challenges rq.target2 = some _›
  have hch : ch = rq.target2 := by rw [← h.2.1, hcid]
  rw [hch, hc] at hx
  injection hx with hx
  rw [← hx, haz, ← hid]
  exact hbel

/-- a response that does not write (http-01, dns-01, tls-alpn-01, or no attestation) answers the
    requester's own challenge; the authorization id of the URL is only echoed in the `Link: up` header -/
theorem challenge_answer_confined {rq : Req} {w w' : World} {c : Ctx} {ch az : Nat}
    (h : runHandler .getChallenge rq w c = (w', .ok (.challenge ch az))) :
    az = rq.target ∧ ch = rq.target2 ∧ ∃ a x, c.acc = some a ∧ findOwned w.challenges ch = some x ∧ x.acct = a.id := by
  obtain ⟨a, ha, x, hx, hown⟩ := confined (by decide) (by decide) h
  simp only [runHandler] at h
  repeat' (split at h <;> try (simp at h))
  all_goals (
    have hid := find?_id ‹findOwned w.challenges rq.target2 = some _›
    refine ⟨h.2.2.symm, ?_, a, x, ha, hx, hown⟩
    rw [← h.2.1, hid])

-- account 1 attests its challenge 70 under its own authorization 60: accepted, written there
example : (runHandler .getChallenge { exReq with target := 60, target2 := 70, attest := true } exWorld
    { prov := true, jws := some exJws, acc := some exAcct, jwk := some (11, 0), payload := some false }).2
    = .ok (.attested 70 60) := by decide
-- … under authorization 61 of account 2 (the D15 request): refused since 365cae8
example : (runHandler .getChallenge { exReq with target := 61, target2 := 70, attest := true } exWorld
    { prov := true, jws := some exJws, acc := some exAcct, jwk := some (11, 0), payload := some false }).2
    = .error .unauthorized := by decide
-- … under authorization 62, another authorization of account 1 itself: refused since e055659
example : (runHandler .getChallenge { exReq with target := 62, target2 := 70, attest := true } exWorld
    { prov := true, jws := some exJws, acc := some exAcct, jwk := some (11, 0), payload := some false }).2
    = .error .unauthorized := by decide

/-! ## an account acts only through the provisioner it was created under (LEGACY-PROV, fixed by 8fb1ad6) -/

/-- **provisioner_confined.** Every request honoured through the kid selector — whatever kind of
    record the account has — names an account whose recorded provisioner is the provisioner of the URL:
    the recorded id when there is one, else the recorded name when there is one (a record that names
    neither cannot be confined by anything). For accounts with a stored location the kid is that
    location and the name comparison is unconditional (`provisioner_confined_located`). -/
theorem provisioner_confined {pag : Bool} {rq : Req} {w w' : World} {c : Ctx}
    (h : runChain (guardedChain .kid pag) rq w Ctx.empty = (w', .ok c))
    {a : Account} (ha : c.acc = some a) : provRecordedMatches a rq := by
  have hon := request_honoured_only_if h
  obtain ⟨a', _, _, _, hacc, _, hcase⟩ := hon.signer.named
  rw [hacc] at ha; cases ha
  rcases hcase with ⟨_, _, hp⟩ | ⟨_, _, hp⟩
  · exact hp.recorded
  · exact hp

theorem provisioner_confined_located {pag : Bool} {rq : Req} {w w' : World} {c : Ctx}
    (h : runChain (guardedChain .kid pag) rq w Ctx.empty = (w', .ok c))
    {a : Account} (ha : c.acc = some a) (hloc : a.loc ≠ 0) :
    rq.jws.kid = a.loc ∧ provMatches a rq := by
  have hon := request_honoured_only_if h
  obtain ⟨a', _, _, _, hacc, _, hcase⟩ := hon.signer.named
  rw [hacc] at ha; cases ha
  rcases hcase with ⟨_, hk, hp⟩ | ⟨h0, _⟩
  · exact ⟨hk, hp⟩
  · exact absurd h0 hloc

/-- an account as old versions stored it: no location; created under provisioner 31 -/
def exLegacy : Account := { exAcct with loc := 0 }

-- under its own provisioner the old record is served, under provisioner 99 (the LEGACY-PROV request) refused
example : (serve byKid .newOrder { exReq with jws := { exJws with kid := 77 } }
    { exWorld with accounts := [exLegacy] }).2 = .ok (.newOrder 1 31) := by decide
example : (serve byKid .newOrder { exReq with provId := 99, provName := 98, jws := { exJws with kid := 77 } }
    { exWorld with accounts := [exLegacy] }).2 = .error .unauthorized := by decide

/-! ## account keys never change (key-change is not implemented) -/

/-- **key_change_refused.** The key-change handler answers notImplemented and touches nothing. -/
theorem key_change_refused (rq : Req) (w : World) (c : Ctx) :
    runHandler .keyChange rq w c = (w, .error .notImplemented) := by
  simp [runHandler]

def keyView (w : World) : List (Nat × Nat × Nat) := w.accounts.map fun a => (a.id, a.key, a.keyAlg)

theorem runHandler_keys (h : Handler) (rq : Req) (w : World) (c : Ctx) :
    keyView (runHandler h rq w c).1 = keyView w := by
  have hs : ∀ id st, keyView (setStatus w id st) = keyView w := by
    intro id st
    simp only [keyView, setStatus, List.map_map]
    apply List.map_congr_left
    intro a _
    simp only [Function.comp]
    split <;> rfl
  have hr : ∀ id, keyView (setRevoked w id) = keyView w := fun id => rfl
  cases h <;> simp only [runHandler] <;> (repeat' split) <;> first | rfl | exact hs _ _ | exact hr _

/-- **account_keys_forever.** Over every history of requests through any chains and handlers, the
    key (and its algorithm) recorded for every account is the one it was created with: there is no way
    to replace the key a request is verified against. -/
theorem account_keys_forever (hist : List (List Mw × Handler × Req)) (w : World) :
    keyView (hist.foldl (fun w x => (serve x.1 x.2.1 x.2.2 w).1) w) = keyView w := by
  induction hist generalizing w with
  | nil => rfl
  | cons x xs ih =>
    simp only [List.foldl_cons]
    rw [ih]
    unfold serve
    have hacc := runChain_accounts x.1 x.2.2 w Ctx.empty
    cases hc : runChain x.1 x.2.2 w Ctx.empty with
    | mk w1 r =>
      rw [hc] at hacc
      have hk : keyView w1 = keyView w := by
        have : w1.accounts = w.accounts := hacc
        simp [keyView, this]
      cases r with
      | error e => exact hk
      | ok c => simp only []; rw [runHandler_keys]; exact hk

/-! ## `validateJWS` step by step: each nonce once under every interleaving of k requests -/

def vThree (w : World) (t : VThread) : World × VThread :=
  let (w1, t1) := vStep w t
  let (w2, t2) := vStep w1 t1
  vStep w2 t2

/-- the three steps back to back are `validateJWS` -/
theorem vsteps_refine (rq : Req) (w : World) :
    (vThree w ⟨rq, .pre⟩).1 = (validateJWS rq w (ctxValidated rq)).1 ∧
    ((vThree w ⟨rq, .pre⟩).2.pc = .passed ↔ ∃ c, (validateJWS rq w (ctxValidated rq)).2 = .ok c) := by
  simp only [vThree, vStep, vPre, validateJWS, ctxValidated]
  by_cases h0 : rq.jws.nsigs = 0
  · simp [h0]
  by_cases h1 : rq.jws.nsigs > 1
  · simp [h0, h1]
  by_cases h2 : rq.jws.unprotEmpty = true
  · simp only [h0, h1, h2, if_false, Bool.not_true, Bool.false_eq_true]
    cases ha : algCheck rq.jws with
    | error e => simp
    | ok u =>
      cases u
      simp only [vStep]
      cases hc : consumeNonce w rq.jws.nonce with
      | mk w1 found =>
        cases found with
        | false => simp
        | true =>
          simp only [vStep, vPost]
          cases hu : rq.jws.url with
          | none => simp
          | some u =>
            simp only []
            repeat' split
            all_goals simp
  · simp [h0, h1, h2]

def cnt (f : VThread → Bool) : List VThread → Nat
  | [] => 0
  | t :: ts => (if f t then 1 else 0) + cnt f ts

theorem cnt_setNth (f : VThread → Bool) (ts : List VThread) (i : Nat) (t t' : VThread)
    (h : ts[i]? = some t) :
    cnt f (setNth ts i t') + (if f t then 1 else 0) = cnt f ts + (if f t' then 1 else 0) := by
  induction ts generalizing i with
  | nil => simp at h
  | cons x xs ih =>
    cases i with
    | zero => simp at h; subst h; simp only [setNth, cnt]; omega
    | succ i =>
      simp at h
      have := ih i h
      simp only [setNth, cnt]; omega

theorem cnt_mono (f g : VThread → Bool) (hfg : ∀ t, f t = true → g t = true) (ts : List VThread) :
    cnt f ts ≤ cnt g ts := by
  induction ts with
  | nil => simp [cnt]
  | cons x xs ih =>
    simp only [cnt]
    by_cases hf : f x = true
    · simp [hf, hfg x hf]; exact ih
    · simp [hf]; split <;> omega

/-- the request carries nonce `n` and holds the fruit of a successful `DeleteNonce` -/
def holds (n : Nat) (t : VThread) : Bool := t.rq.jws.nonce == n && (t.pc == .post || t.pc == .passed)
/-- … and got through `validateJWS` -/
def passedWith (n : Nat) (t : VThread) : Bool := t.rq.jws.nonce == n && t.pc == .passed

theorem vPre_cases (j : Jws) : vPre j = .del ∨ ∃ r, vPre j = .refused r := by
  unfold vPre
  repeat' split
  all_goals first | exact .inl rfl | exact .inr ⟨_, rfl⟩

theorem vPost_cases (rq : Req) (j : Jws) : vPost rq j = .passed ∨ ∃ r, vPost rq j = .refused r := by
  unfold vPost
  repeat' split
  all_goals first | exact .inl rfl | exact .inr ⟨_, rfl⟩

theorem vStep_inv (n : Nat) (w : World) (t : VThread) :
    (if holds n (vStep w t).2 then 1 else 0) + (if (vStep w t).1.nonces.contains n then 1 else 0)
      ≤ (if holds n t then 1 else 0) + (if w.nonces.contains n then 1 else 0) := by
  cases hp : t.pc with
  | pre =>
    have hw : (vStep w t).1 = w := by simp [vStep, hp]
    have hh : holds n (vStep w t).2 = false := by
      simp only [vStep, hp, holds]
      rcases vPre_cases t.rq.jws with h | ⟨r, h⟩ <;> simp [h]
    rw [hw, hh]; simp
  | del =>
    simp only [vStep, hp]
    unfold consumeNonce
    by_cases hc : w.nonces.contains t.rq.jws.nonce = true
    · simp only [hc, if_true]
      by_cases hn : t.rq.jws.nonce = n
      · subst hn
        have h0 : holds t.rq.jws.nonce t = false := by simp [holds, hp]
        have h1 : holds t.rq.jws.nonce { t with pc := VPc.post } = true := by simp [holds]
        have h2 : (List.filter (fun x => x != t.rq.jws.nonce) w.nonces).contains t.rq.jws.nonce = false := by
          simp
        simp only [h0, h1, h2, hc]; simp
      · have h1 : holds n { t with pc := VPc.post } = false := by simp [holds, hn]
        have h2 : (List.filter (fun x => x != t.rq.jws.nonce) w.nonces).contains n = w.nonces.contains n := by
          simp only [List.contains_eq_mem, List.mem_filter]
          have : (n != t.rq.jws.nonce) = true := by simpa using fun h => hn h.symm
          simp [this]
        simp only [h1, h2]; simp
    · have h1 : holds n { t with pc := VPc.refused Rej.badNonce } = false := by simp [holds]
      have hc' : w.nonces.contains t.rq.jws.nonce = false := by simpa using hc
      simp only [hc', Bool.false_eq_true, if_false]
      rw [h1]; simp
  | post =>
    have hw : (vStep w t).1 = w := by simp [vStep, hp]
    have hh : holds n (vStep w t).2 = true → holds n t = true := by
      simp only [vStep, hp, holds]
      rcases vPost_cases t.rq t.rq.jws with h | ⟨r, h⟩ <;> simp [h]
    rw [hw]
    by_cases h1 : holds n (vStep w t).2 = true
    · simp [h1, hh h1]
    · simp [h1]
  | passed => simp [vStep, hp]
  | refused r => simp [vStep, hp]

/-- **nonce_once_steps.** k requests, each taking its `validateJWS` in three steps (local tests,
    the atomic `DeleteNonce`, local tests), interleaved in any way with each other and with the
    minting of other nonces: at most one request carrying nonce `n` gets through. -/
theorem nonce_once_steps (n : Nat) (ops : List VOp) (w : World) (ts : List VThread)
    (hfresh : ∀ m, VOp.issue m ∈ ops → m ≠ n) :
    cnt (holds n) (vRun w ts ops).2 + (if (vRun w ts ops).1.nonces.contains n then 1 else 0)
      ≤ cnt (holds n) ts + (if w.nonces.contains n then 1 else 0) := by
  induction ops generalizing w ts with
  | nil => simp [vRun]
  | cons op ops ih =>
    have hf' : ∀ m, VOp.issue m ∈ ops → m ≠ n := fun m hm => hfresh m (List.mem_cons_of_mem _ hm)
    cases op with
    | issue m =>
      have hm : m ≠ n := hfresh m List.mem_cons_self
      simp only [vRun]
      refine Nat.le_trans (ih _ ts hf') ?_
      have : (issueNonce w m).nonces.contains n = w.nonces.contains n := by
        simp [issueNonce, List.contains_cons]
        intro h; exact absurd h.symm hm
      rw [this]; exact Nat.le_refl _
    | move i =>
      cases hi : ts[i]? with
      | none => simp only [vRun, hi]; exact ih w ts hf'
      | some t =>
        simp only [vRun, hi]
        refine Nat.le_trans (ih _ _ hf') ?_
        have h1 := cnt_setNth (holds n) ts i t (vStep w t).2 hi
        have h2 := vStep_inv n w t
        omega

/-- corollary in the form of the property: all requests at the start of `validateJWS`, the nonce
    in the table or not — at the end at most one request carrying `n` has passed -/
theorem nonce_once_interleaved (n : Nat) (ops : List VOp) (w : World) (rqs : List Req)
    (hfresh : ∀ m, VOp.issue m ∈ ops → m ≠ n) :
    cnt (passedWith n) (vRun w (rqs.map (⟨·, .pre⟩)) ops).2 ≤ 1 := by
  have h := nonce_once_steps n ops w (rqs.map (⟨·, .pre⟩)) hfresh
  have h0 : ∀ l : List Req, cnt (holds n) (l.map (⟨·, .pre⟩)) = 0 := by
    intro l
    induction l with
    | nil => rfl
    | cons r rs ih => simp [cnt, holds, ih]
  have hm := cnt_mono (passedWith n) (holds n) (by
    intro t ht; simp [passedWith, holds] at ht ⊢; exact ⟨ht.1, .inr ht.2⟩)
    (vRun w (rqs.map (⟨·, .pre⟩)) ops).2
  rw [h0 rqs] at h
  have : (if w.nonces.contains n then 1 else 0) ≤ 1 := by split <;> omega
  omega

-- two well-formed requests with one nonce, fully interleaved: one passes, the other is refused at `del`
example : cnt (passedWith 7) (vRun exWorld [⟨exReq, .pre⟩, ⟨{ exReq with target := 51 }, .pre⟩]
    [.move 0, .move 1, .move 1, .move 0, .issue 9, .move 0, .move 1]).2 = 1 := by decide

/-! ## overlapping account updates: a stored deactivation is final (stage `acctrace`) -/

def reqDeact : UpdThread := ⟨.deactivate, .start⟩
def reqContact : UpdThread := ⟨.contact, .start⟩

/-- one step of any request, in any state of that request, leaves a deactivated account deactivated -/
theorem updStep_sticks (t : UpdThread) : (updStep .deactivated t).1 = .deactivated := by
  obtain ⟨k, pc⟩ := t
  cases pc with
  | start => simp [updStep]
  | done b => simp [updStep]
  | loaded seen =>
    cases k with
    | deactivate => simp [updStep]
    | contact =>
      simp only [updStep]
      cases seen <;> simp

/-- **deactivation_sticks.** Any number of update requests of one account (deactivations, contact
    updates, in whatever state each of them is — including holding a copy loaded while the account was
    still valid), interleaved in any way: once the stored status is `deactivated` it is `deactivated`
    in every later state. -/
theorem deactivation_sticks (ts : List UpdThread) (sched : List Nat) :
    (updRunN .deactivated ts sched).1 = .deactivated := by
  induction sched generalizing ts with
  | nil => rfl
  | cons i rest ih =>
    simp only [updRunN]
    cases hi : ts[i]? with
    | none => exact ih ts
    | some t => simp only []; rw [updStep_sticks t]; exact ih _

theorem updRunN_append (st : Status) (ts : List UpdThread) (s1 s2 : List Nat) :
    updRunN st ts (s1 ++ s2) = updRunN (updRunN st ts s1).1 (updRunN st ts s1).2 s2 := by
  induction s1 generalizing st ts with
  | nil => rfl
  | cons i rest ih =>
    simp only [List.cons_append, updRunN]
    cases hi : ts[i]? with
    | none => exact ih st ts
    | some t => exact ih _ _

/-- … from whatever state and at whatever point of the schedule the deactivation was stored -/
theorem deactivation_sticks_later (st : Status) (ts : List UpdThread) (s1 s2 : List Nat)
    (h : (updRunN st ts s1).1 = .deactivated) : (updRunN st ts (s1 ++ s2)).1 = .deactivated := by
  rw [updRunN_append, h]; exact deactivation_sticks _ _

theorem mem_setNth {α : Type} {l : List α} {i : Nat} {a x : α} (h : x ∈ setNth l i a) : x = a ∨ x ∈ l := by
  induction l generalizing i with
  | nil => simp [setNth] at h
  | cons y ys ih =>
    cases i with
    | zero =>
      simp only [setNth, List.mem_cons] at h
      rcases h with h | h
      · exact .inl h
      · exact .inr (List.mem_cons_of_mem _ h)
    | succ i =>
      simp only [setNth, List.mem_cons] at h
      rcases h with h | h
      · exact .inr (by rw [h]; exact List.mem_cons_self)
      · rcases ih h with h' | h'
        · exact .inl h'
        · exact .inr (List.mem_cons_of_mem _ h')

/-- a deactivation request has been answered 200 -/
def ServedDeact (ts : List UpdThread) : Prop := ∃ t ∈ ts, t.kind = .deactivate ∧ t.pc = .done true

theorem updStep_served {st : Status} {t : UpdThread}
    (h : (updStep st t).2.kind = .deactivate ∧ (updStep st t).2.pc = .done true) :
    (t.kind = .deactivate ∧ t.pc = .done true) ∨ (updStep st t).1 = .deactivated := by
  obtain ⟨k, pc⟩ := t
  cases pc with
  | start => simp only [updStep] at h; split at h <;> simp at h
  | done b => simp only [updStep] at h; exact .inl h
  | loaded seen =>
    cases k with
    | deactivate => right; simp [updStep]
    | contact => simp only [updStep] at h; split at h <;> simp at h

/-- **deactivation_served_sticks.** Any number of update requests, all starting from scratch,
    interleaved in any way: in every reachable state in which some deactivation has been answered
    200, the stored account is deactivated (so by `deactivated_nothing` every later request of the
    account is refused). -/
theorem deactivation_served_sticks (st : Status) (ts : List UpdThread) (sched : List Nat)
    (hinv : ServedDeact ts → st = .deactivated) :
    ServedDeact (updRunN st ts sched).2 → (updRunN st ts sched).1 = .deactivated := by
  induction sched generalizing st ts with
  | nil => exact hinv
  | cons i rest ih =>
    simp only [updRunN]
    cases hi : ts[i]? with
    | none => exact ih st ts hinv
    | some t =>
      simp only []
      apply ih
      intro ⟨x, hx, hk, hp⟩
      rcases mem_setNth hx with rfl | hx'
      · rcases updStep_served ⟨hk, hp⟩ with ⟨h1, h2⟩ | h
        · have := hinv ⟨t, List.mem_of_getElem? hi, h1, h2⟩
          rw [this]; exact updStep_sticks t
        · exact h
      · have := hinv ⟨x, hx', hk, hp⟩
        rw [this]; exact updStep_sticks t

/-- the same from the natural start: a valid account, every request at its beginning -/
theorem deactivation_served_sticks_init (kinds : List UpdKind) (sched : List Nat) :
    ServedDeact (updRunN .valid (kinds.map (⟨·, .start⟩)) sched).2 →
      (updRunN .valid (kinds.map (⟨·, .start⟩)) sched).1 = .deactivated := by
  apply deactivation_served_sticks
  intro ⟨t, ht, _, hp⟩
  simp only [List.mem_map] at ht
  obtain ⟨k, _, rfl⟩ := ht
  cases hp

/-- **account_update_interleavings** (table, `decide`; what stage `acctrace` demands of the real
    handlers): the 6 interleavings AABB ABAB ABBA BAAB BABA BBAA of a deactivation A and a contact
    update B (two store steps each) — stored status, A served, B served. In ABAB and BAAB the contact
    update loaded the account before the deactivation was stored and is refused by `UpdateAccount`. -/
theorem account_update_interleavings :
    [[false, false, true, true], [false, true, false, true], [false, true, true, false],
     [true, false, false, true], [true, false, true, false], [true, true, false, false]].map
      (fun s => let r := updRun .valid reqDeact reqContact s; (r.1, r.2.1.pc, r.2.2.pc))
    = [(.deactivated, .done true, .done false), (.deactivated, .done true, .done false),
       (.deactivated, .done true, .done true), (.deactivated, .done true, .done false),
       (.deactivated, .done true, .done true), (.deactivated, .done true, .done true)] := by decide

-- three requests: two contact updates racing one deactivation, fully interleaved
example : (updRunN .valid [reqContact, reqDeact, reqContact] [0, 1, 2, 1, 0, 2]).1 = .deactivated := by decide

/-! ## … down to the compare-and-swap of the store (stage `acctrace`, 20 interleavings)

  `CasInv`: every copy that waits for its swap carries a version ≤ the record's, and if it carries THE record's
  version then the guard it passed holds for the record as it is now (a deactivated record ⇒ the copy writes
  `deactivated`). A write bumps the version, so every other waiting copy is stale from then on. -/

def CasInv (r : Status × Nat) (ts : List CThread) : Prop :=
  ∀ t ∈ ts, ∀ seen v, t.pc = .read seen v →
    v ≤ r.2 ∧ (v = r.2 → r.1 = .deactivated → newStatus t.kind seen = .deactivated)

def CServedDeact (ts : List CThread) : Prop := ∃ t ∈ ts, t.kind = .deactivate ∧ t.pc = .done .ok

/-- threads other than the one that moved keep the invariant when the record did not change -/
theorem casInv_same {r : Status × Nat} {ts : List CThread} {i : Nat} {t' : CThread}
    (hinv : CasInv r ts) (ht' : ∀ seen v, t'.pc = .read seen v →
      v ≤ r.2 ∧ (v = r.2 → r.1 = .deactivated → newStatus t'.kind seen = .deactivated)) :
    CasInv r (setNth ts i t') := by
  intro x hx seen v hp
  rcases mem_setNth hx with rfl | hx'
  · exact ht' seen v hp
  · exact hinv x hx' seen v hp

/-- … and when it was written (version + 1): no waiting copy carries the new version -/
theorem casInv_written {r : Status × Nat} {ts : List CThread} {i : Nat} {t' : CThread} {st : Status}
    (hinv : CasInv r ts) (ht' : ∀ seen v, t'.pc ≠ .read seen v) :
    CasInv (st, r.2 + 1) (setNth ts i t') := by
  intro x hx seen v hp
  rcases mem_setNth hx with rfl | hx'
  · exact absurd hp (ht' seen v)
  · have := (hinv x hx' seen v hp).1
    exact ⟨Nat.le_succ_of_le this, fun hv => by simp at hv; omega⟩

/-- one step of a request of the list keeps the invariant; a deactivated record stays deactivated; a deactivation
    that becomes served has stored `deactivated` -/
theorem casStep_inv {r : Status × Nat} {ts : List CThread} {i : Nat} {t : CThread}
    (hi : ts[i]? = some t) (hinv : CasInv r ts) :
    CasInv (casStep r t).1 (setNth ts i (casStep r t).2) ∧
    (r.1 = .deactivated → (casStep r t).1.1 = .deactivated) ∧
    (((casStep r t).2.kind = .deactivate ∧ (casStep r t).2.pc = .done .ok) →
      (t.kind = .deactivate ∧ t.pc = .done .ok) ∨ (casStep r t).1.1 = .deactivated) := by
  have hmem : t ∈ ts := List.mem_of_getElem? hi
  obtain ⟨k, pc⟩ := t
  cases pc with
  | start =>
    by_cases hc : r.1 ≠ .valid
    · have e : casStep r ⟨k, .start⟩ = (r, ⟨k, .done .unauthorized⟩) := by simp only [casStep, if_pos hc]
      rw [e]
      exact ⟨casInv_same hinv (by intro _ _ h; simp at h), id, by intro h; simp at h⟩
    · have e : casStep r ⟨k, .start⟩ = (r, ⟨k, .loaded r.1⟩) := by simp only [casStep, if_neg hc]
      rw [e]
      exact ⟨casInv_same hinv (by intro _ _ h; simp at h), id, by intro h; simp at h⟩
  | done b =>
    have e : casStep r ⟨k, .done b⟩ = (r, ⟨k, .done b⟩) := rfl
    rw [e]
    exact ⟨casInv_same hinv (by intro _ _ h; simp at h), id, fun h => .inl h⟩
  | loaded s =>
    by_cases hc : r.1 = .deactivated ∧ newStatus k s ≠ .deactivated
    · have e : casStep r ⟨k, .loaded s⟩ = (r, ⟨k, .done .unauthorized⟩) := by simp only [casStep, if_pos hc]
      rw [e]
      exact ⟨casInv_same hinv (by intro _ _ h; simp at h), id, by intro h; simp at h⟩
    · have e : casStep r ⟨k, .loaded s⟩ = (r, ⟨k, .read s r.2⟩) := by simp only [casStep, if_neg hc]
      rw [e]
      refine ⟨casInv_same hinv ?_, id, by intro h; simp at h⟩
      intro seen v hp
      simp only [CPc.read.injEq] at hp
      obtain ⟨rfl, rfl⟩ := hp
      refine ⟨Nat.le_refl _, fun _ hd => ?_⟩
      apply Classical.byContradiction
      intro hn
      exact hc ⟨hd, hn⟩
  | read s v0 =>
    have hme := hinv _ hmem s v0 rfl
    by_cases hc : v0 ≠ r.2
    · have e : casStep r ⟨k, .read s v0⟩ = (r, ⟨k, .done .conflict⟩) := by simp only [casStep, if_pos hc]
      rw [e]
      exact ⟨casInv_same hinv (by intro _ _ h; simp at h), id, by intro h; simp at h⟩
    · have e : casStep r ⟨k, .read s v0⟩ = ((newStatus k s, r.2 + 1), ⟨k, .done .ok⟩) := by
        simp only [casStep, if_neg hc]
      rw [e]
      have hv : v0 = r.2 := by
        apply Classical.byContradiction; intro hn; exact hc hn
      refine ⟨casInv_written hinv (by intro _ _ h; simp at h), fun h => hme.2 hv h, ?_⟩
      intro h
      right
      have hk : k = .deactivate := h.1
      subst hk
      rfl

theorem casRunN_inv (r : Status × Nat) (ts : List CThread) (sched : List Nat)
    (hinv : CasInv r ts) (hs : CServedDeact ts → r.1 = .deactivated) :
    CasInv (casRunN r ts sched).1 (casRunN r ts sched).2 ∧
    (r.1 = .deactivated → (casRunN r ts sched).1.1 = .deactivated) ∧
    (CServedDeact (casRunN r ts sched).2 → (casRunN r ts sched).1.1 = .deactivated) := by
  induction sched generalizing r ts with
  | nil => exact ⟨hinv, id, hs⟩
  | cons i rest ih =>
    simp only [casRunN]
    cases hi : ts[i]? with
    | none => exact ih r ts hinv hs
    | some t =>
      simp only []
      obtain ⟨h1, h2, h3⟩ := casStep_inv hi hinv
      have hs' : CServedDeact (setNth ts i (casStep r t).2) → (casStep r t).1.1 = .deactivated := by
        intro ⟨x, hx, hk, hp⟩
        rcases mem_setNth hx with rfl | hx'
        · rcases h3 ⟨hk, hp⟩ with ⟨a, b⟩ | h
          · exact h2 (hs ⟨t, List.mem_of_getElem? hi, a, b⟩)
          · exact h
        · exact h2 (hs ⟨x, hx', hk, hp⟩)
      obtain ⟨g1, g2, g3⟩ := ih _ _ h1 hs'
      exact ⟨g1, fun h => g2 (h2 h), g3⟩

theorem casInv_start (r : Status × Nat) (kinds : List UpdKind) : CasInv r (kinds.map (⟨·, .start⟩)) := by
  intro t ht seen v hp
  simp only [List.mem_map] at ht
  obtain ⟨k, _, rfl⟩ := ht
  cases hp

theorem casRunN_append (r : Status × Nat) (ts : List CThread) (s1 s2 : List Nat) :
    casRunN r ts (s1 ++ s2) = casRunN (casRunN r ts s1).1 (casRunN r ts s1).2 s2 := by
  induction s1 generalizing r ts with
  | nil => rfl
  | cons i rest ih =>
    simp only [List.cons_append, casRunN]
    cases hi : ts[i]? with
    | none => exact ih r ts
    | some t => exact ih _ _

/-- **cas_deactivation_sticks.** Any number of account-update requests, each in any state (also holding a copy read
    while the account was valid), any interleaving of their three store steps: once the stored record is deactivated
    it is deactivated in every later state. The compare-and-swap is what makes it true: the copy of a contact update
    that read a valid record is stale after the deactivation was written. -/
theorem cas_deactivation_sticks (r : Status × Nat) (ts : List CThread) (sched : List Nat)
    (hinv : CasInv r ts) (h : r.1 = .deactivated) : (casRunN r ts sched).1.1 = .deactivated :=
  (casRunN_inv r ts sched hinv (fun _ => h)).2.1 h

/-- … from a valid account with every request at its beginning, from whatever point on the deactivation is stored -/
theorem cas_deactivation_sticks_init (kinds : List UpdKind) (s1 s2 : List Nat)
    (h : (casRunN (.valid, 0) (kinds.map (⟨·, .start⟩)) s1).1.1 = .deactivated) :
    (casRunN (.valid, 0) (kinds.map (⟨·, .start⟩)) (s1 ++ s2)).1.1 = .deactivated := by
  rw [casRunN_append]
  have hs : CServedDeact (kinds.map (⟨·, CPc.start⟩)) → ((Status.valid, 0) : Status × Nat).1 = .deactivated := by
    intro ⟨t, ht, _, hp⟩
    simp only [List.mem_map] at ht
    obtain ⟨k, _, rfl⟩ := ht
    cases hp
  exact cas_deactivation_sticks _ _ s2 (casRunN_inv _ _ s1 (casInv_start _ kinds) hs).1 h

/-- **cas_deactivation_served_sticks_init.** In every reachable state in which a deactivation has been answered 200
    the stored account is deactivated. -/
theorem cas_deactivation_served_sticks_init (kinds : List UpdKind) (sched : List Nat) :
    CServedDeact (casRunN (.valid, 0) (kinds.map (⟨·, .start⟩)) sched).2 →
      (casRunN (.valid, 0) (kinds.map (⟨·, .start⟩)) sched).1.1 = .deactivated := by
  apply (casRunN_inv _ _ sched (casInv_start _ kinds) ?_).2.2
  intro ⟨t, ht, _, hp⟩
  simp only [List.mem_map] at ht
  obtain ⟨k, _, rfl⟩ := ht
  cases hp

def cDeact : CThread := ⟨.deactivate, .start⟩
def cContact : CThread := ⟨.contact, .start⟩

def interleave3 : List (List Bool) :=
  [[false,false,false,true,true,true],[false,false,true,false,true,true],[false,false,true,true,false,true],[false,false,true,true,true,false],
   [false,true,false,false,true,true],[false,true,false,true,false,true],[false,true,false,true,true,false],[false,true,true,false,false,true],
   [false,true,true,false,true,false],[false,true,true,true,false,false],[true,false,false,false,true,true],[true,false,false,true,false,true],
   [true,false,false,true,true,false],[true,false,true,false,false,true],[true,false,true,false,true,false],[true,false,true,true,false,false],
   [true,true,false,false,false,true],[true,true,false,false,true,false],[true,true,false,true,false,false],[true,true,true,false,false,false]]

/-- **cas_update_interleavings** (table, `decide`; what stage `acctrace` demands of the real handlers and store): all
    20 interleavings of a deactivation A and a contact update B at three store steps each (lookup, re-read, swap):
    stored status (D/V), answer to A, answer to B (o = 200, u = 401, c = 500 changed since last read). A deactivation
    that is answered 200 is stored in every row; where the account stays valid the deactivation lost the swap and was
    answered 500. -/
def casRow (s : List Bool) : String :=
  let x := casRun2 (.valid, 0) cDeact cContact s
  let r : CPc → String := fun pc => match pc with
    | .done .ok => "o" | .done .unauthorized => "u" | .done .conflict => "c" | _ => "?"
  (if x.1.1 = .deactivated then "D" else "V") ++ r x.2.1.pc ++ r x.2.2.pc

theorem cas_update_interleavings :
    interleave3.map casRow =
      ["Dou", "Dou", "Doc", "Vco", "Dou", "Doc", "Vco", "Doc", "Vco", "Doo", "Dou", "Doc", "Vco", "Doc", "Vco", "Doo",
       "Doc", "Vco", "Doo", "Doo"] := by decide

-- the interleaving of seed r6 C12/1: B reads (valid), A reads, A swaps (deactivated, 200), B swaps: refused, 500
example : casRow [true, true, false, false, false, true] = "Doc" := by decide

/-- historic (before commit 48b7457): `UpdateAccount` copied the status of the handler's stale copy
    without looking at the stored one; load_A load_B update_A update_B left the account valid -/
def updStepBeforeFix (st : Status) (t : UpdThread) : Status × UpdThread :=
  match t.pc with
  | .loaded seen => match t.kind with
    | .deactivate => (.deactivated, { t with pc := .done true })
    | .contact => (seen, { t with pc := .done true })
  | _ => updStep st t

example :
    let s1 := updStepBeforeFix .valid reqDeact       -- load_A
    let s2 := updStepBeforeFix s1.1 reqContact        -- load_B
    let s3 := updStepBeforeFix s2.1 s1.2              -- update_A
    let s4 := updStepBeforeFix s3.1 s2.2              -- update_B
    (s3.1, s4.1) = (.deactivated, .valid) := by decide

end Verif.AcmeAuth
