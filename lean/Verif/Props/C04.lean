import Verif.Model.Policy
import Verif.Lemmas.PolicyCase
/-!
  C04 — name policies are sound and total for every name and rule set.

  Property theorems only. All statements are about `Verif.Policy` (the model of
  /repo/policy tied to the code by the C04 correspondence check).
-/
namespace Verif.Policy
open Verif Verif.Str

/-! ## 1. `checkNameConstraints`: deny wins, allow needs a matching permitted rule -/

theorem checkExcluded_inr {C : Type} (m : C → MR) (xs : List C) :
    checkExcluded m xs = .inr () → ∀ c ∈ xs, m c = .no := by
  induction xs with
  | nil => intro _ c hc; cases hc
  | cons x xs ih =>
    intro h c hc
    unfold checkExcluded at h
    cases hx : m x <;> simp [hx] at h
    cases hc with
    | head => exact hx
    | tail _ hc => exact ih h c hc

theorem checkPermitted_inr {C : Type} (m : C → MR) (ps : List C) :
    checkPermitted m ps = .inr () → ps = [] ∨ ∃ c ∈ ps, m c = .yes := by
  induction ps with
  | nil => intro _; exact .inl rfl
  | cons p ps ih =>
    intro h
    right
    unfold checkPermitted at h
    cases hp : m p <;> simp [hp] at h
    · exact ⟨p, List.mem_cons_self, hp⟩
    · cases ps with
      | nil => simp at h
      | cons q qs =>
        simp at h
        rcases ih h with h0 | ⟨c, hc, hy⟩
        · cases h0
        · exact ⟨c, List.mem_cons_of_mem _ hc, hy⟩

/-- The generic verdict: a name passes `checkNameConstraints` only if **no** excluded
    constraint matches it and, when permitted constraints of its kind exist, one of them does. -/
theorem checkName_none {C : Type} (k : Kind) (m : C → MR) (P X : List C) :
    checkName k m P X = none →
      (∀ c ∈ X, m c = .no) ∧ (P = [] ∨ ∃ c ∈ P, m c = .yes) := by
  intro h
  unfold checkName at h
  cases hx : checkExcluded m X with
  | inl r => cases r <;> simp [hx] at h
  | inr u =>
    cases u
    simp [hx] at h
    cases hp : checkPermitted m P with
    | inl r => cases r <;> simp [hp] at h
    | inr u => cases u; exact ⟨checkExcluded_inr m X hx, checkPermitted_inr m P hp⟩

/-- deny always wins over allow: one matching excluded constraint refuses the name,
    whatever the permitted constraints are. -/
theorem deny_wins {C : Type} (k : Kind) (m : C → MR) (P X : List C) (c : C)
    (hc : c ∈ X) (hm : m c = .yes) : checkName k m P X ≠ none := by
  intro h
  have := (checkName_none k m P X h).1 c hc
  rw [hm] at this; cases this

/-! ## 2. `validateNames`: every name of every kind went through its check -/

theorem firstErr_none {α : Type} (f : α → Option Fail) (l : List α) :
    firstErr f l = none → ∀ a ∈ l, f a = none := by
  induction l with
  | nil => intro _ a ha; cases ha
  | cons x xs ih =>
    intro h a ha
    unfold firstErr at h
    cases hx : f x with
    | some v => simp [hx] at h
    | none =>
      simp [hx] at h
      cases ha with
      | head => exact hx
      | tail _ ha => exact ih h a ha

/-- What an `allow` verdict of `validateNames` means, kind by kind. -/
structure AllowedBy (e : Engine) (n : Names) : Prop where
  dns : ∀ d ∈ n.dns, checkDNS e d = none
  ips : ∀ i ∈ n.ips, checkIP e i = none
  emails : ∀ m ∈ n.emails, checkEmail e m = none
  uris : ∀ u ∈ n.uris, checkURI e u = none
  principals : ∀ p ∈ n.principals, checkPrincipal e p = none

theorem validateNames_allow (e : Engine) (n : Names) (ht : e.total ≠ 0) :
    validateNames e n = .allow → AllowedBy e n := by
  intro h
  unfold validateNames at h
  simp [ht] at h
  cases h1 : firstErr (checkDNS e) n.dns with
  | some v => simp [h1] at h; cases v <;> simp [Fail.verdict] at h
  | none =>
  simp [h1] at h
  cases h2 : firstErr (checkIP e) n.ips with
  | some v => simp [h2] at h; cases v <;> simp [Fail.verdict] at h
  | none =>
  simp [h2] at h
  cases h3 : firstErr (checkEmail e) n.emails with
  | some v => simp [h3] at h; cases v <;> simp [Fail.verdict] at h
  | none =>
  simp [h3] at h
  cases h4 : firstErr (checkURI e) n.uris with
  | some v => simp [h4] at h; cases v <;> simp [Fail.verdict] at h
  | none =>
  simp [h4] at h
  cases h5 : firstErr (checkPrincipal e) n.principals with
  | some v => simp [h5] at h; cases v <;> simp [Fail.verdict] at h
  | none =>
  exact ⟨firstErr_none _ _ h1, firstErr_none _ _ h2, firstErr_none _ _ h3,
         firstErr_none _ _ h4, firstErr_none _ _ h5⟩


/-! ## 3. Totality: no name and no accepted rule set makes the engine abort -/

theorem matchDomain_ne_crash (w : Bool) (d c : Str) : matchDomain w d c ≠ .crash := by
  unfold matchDomain; grind (splits := 30)

theorem matchIP_ne_crash (i : Ip) (n : Net) : matchIP i n ≠ .crash := by
  unfold matchIP; split <;> simp

theorem matchEmail_ne_crash (w : Bool) (mb : Mailbox) (c : Str) : matchEmail w mb c ≠ .crash := by
  have := matchDomain_ne_crash
  unfold matchEmail; grind (splits := 30)

theorem matchURI_ne_crash (w : Bool) (u : Uri) (c : Str) : matchURI w u c ≠ .crash := by
  have := matchDomain_ne_crash
  unfold matchURI; grind (splits := 30)

theorem matchPrincipal_ne_crash (p c : Str) : matchPrincipal p c ≠ .crash := by
  unfold matchPrincipal; grind

theorem matchCN_ne_crash (p c : Str) : matchCN p c ≠ .crash := by
  unfold matchCN; grind

theorem checkExcluded_ne_crash {C : Type} (m : C → MR) (hm : ∀ c, m c ≠ .crash) (xs : List C) :
    checkExcluded m xs ≠ .inl none := by
  induction xs with
  | nil => simp [checkExcluded]
  | cons x xs ih =>
    unfold checkExcluded
    cases hx : m x <;> simp
    · exact ih
    · exact hm x hx

theorem checkPermitted_ne_crash {C : Type} (m : C → MR) (hm : ∀ c, m c ≠ .crash) (xs : List C) :
    checkPermitted m xs ≠ .inl none := by
  induction xs with
  | nil => simp [checkPermitted]
  | cons x xs ih =>
    unfold checkPermitted
    cases hx : m x <;> simp
    · cases xs with
      | nil => simp
      | cons y ys => simpa using ih
    · exact hm x hx

theorem checkName_ne_crash {C : Type} (k : Kind) (m : C → MR) (hm : ∀ c, m c ≠ .crash)
    (P X : List C) : checkName k m P X ≠ some .crash := by
  unfold checkName
  have hx := checkExcluded_ne_crash m hm X
  have hp := checkPermitted_ne_crash m hm P
  cases h1 : checkExcluded m X with
  | inl r => cases r with
    | none => exact absurd h1 hx
    | some r => simp
  | inr u =>
    cases u
    cases h2 : checkPermitted m P with
    | inl r => cases r with
      | none => exact absurd h2 hp
      | some r => simp
    | inr u => cases u; simp

theorem firstErr_ne_crash {α : Type} (f : α → Option Fail) (hf : ∀ a, f a ≠ some .crash)
    (l : List α) : firstErr f l ≠ some .crash := by
  induction l with
  | nil => simp [firstErr]
  | cons x xs ih =>
    unfold firstErr
    cases hx : f x with
    | none => simpa using ih
    | some v => intro h; simp at h; subst h; exact hf x hx

theorem checkDNS_ne_crash (e : Engine) (d : DnsName) : checkDNS e d ≠ some .crash := by
  have := @checkName_ne_crash Str .dns
  have := matchDomain_ne_crash
  unfold checkDNS; grind (splits := 30)

theorem checkIP_ne_crash (e : Engine) (i : Ip) : checkIP e i ≠ some .crash := by
  unfold checkIP
  split
  · simp
  · exact checkName_ne_crash _ _ (matchIP_ne_crash _) _ _

theorem checkEmail_ne_crash (e : Engine) (m : EmailName) : checkEmail e m ≠ some .crash := by
  have := @checkName_ne_crash Str .email
  have := matchEmail_ne_crash
  unfold checkEmail; grind (splits := 30)

theorem checkURI_ne_crash (e : Engine) (u : Uri) : checkURI e u ≠ some .crash := by
  unfold checkURI
  split
  · simp
  · exact checkName_ne_crash _ _ (matchURI_ne_crash _ _) _ _

theorem checkPrincipal_ne_crash (e : Engine) (p : Str) : checkPrincipal e p ≠ some .crash := by
  unfold checkPrincipal
  split
  · simp
  · exact checkName_ne_crash _ _ (matchPrincipal_ne_crash _) _ _

theorem Fail.verdict_crash (f : Fail) : f.verdict = .crash ↔ f = .crash := by
  cases f <;> simp [Fail.verdict]

/-- **Totality of name evaluation**: for every engine (in particular every engine built from
    an accepted rule set) and every list of names, the verdict is `allow` or a `deny`. -/
theorem validateNames_total (e : Engine) (n : Names) : validateNames e n ≠ .crash := by
  unfold validateNames
  have h1 := firstErr_ne_crash _ (checkDNS_ne_crash e) n.dns
  have h2 := firstErr_ne_crash _ (checkIP_ne_crash e) n.ips
  have h3 := firstErr_ne_crash _ (checkEmail_ne_crash e) n.emails
  have h4 := firstErr_ne_crash _ (checkURI_ne_crash e) n.uris
  have h5 := firstErr_ne_crash _ (checkPrincipal_ne_crash e) n.principals
  have hv := Fail.verdict_crash
  grind (splits := 30)

theorem validateCN_total (e : Engine) (cn : Str) (cls : CnClass) : validateCN e cn cls ≠ .crash := by
  have h := validateNames_total e cls.names
  have h2 : ∀ v : Verdict, v ≠ .crash → v.asCN ≠ .crash := by
    intro v hv; cases v <;> simp_all [Verdict.asCN]
  unfold validateCN; grind

/-- totality of the two X.509 entry points (`IsX509Certificate(Request)Allowed`) -/
theorem x509Allowed_total (e : Engine) (n : Names) (cn : Str) (cls : CnClass) :
    x509Allowed e n cn cls ≠ .crash := by
  unfold x509Allowed
  have h := validateNames_total e { n with principals := [] }
  have h' := validateCN_total e cn cls
  repeat' split
  all_goals simp_all

/-- totality of the SSH entry point -/
theorem sshAllowed_total (e : Engine) (host : Bool) (n : Names) (ps : List Str) :
    sshAllowed e host n ps ≠ .verdict .crash := by
  have h := validateNames_total e
  unfold sshAllowed; grind

/-- the section dispatch never aborts either: in particular a certificate of a type whose section is absent is
    refused, not evaluated against a missing engine -/
theorem sshDispatch_total (own other : Option Engine) (host : Bool) (n : Names) (ps : List Str) :
    sshDispatch own other host n ps ≠ .verdict .crash := by
  unfold sshDispatch
  split
  · simp
  · simp
  · exact sshAllowed_total _ host n ps

/-- a policy that has only the other certificate type's section refuses every certificate of this type -/
theorem ssh_other_section_only_denies (o : Engine) (host : Bool) (n : Names) (ps : List Str) :
    sshDispatch none (some o) host n ps = .verdict (.deny .notAllowed .principal) := rfl

/-- with its own section present the other section is irrelevant -/
theorem ssh_own_section_decides (e : Engine) (other : Option Engine) (host : Bool) (n : Names) (ps : List Str) :
    sshDispatch (some e) other host n ps = sshAllowed e host n ps := rfl

/-! ### totality of rule normalisation (`policy.New` on any configuration strings) -/

theorem normEmail_ne_crash (raw : Str) (i : Option Str) : normEmail raw i ≠ .crash := by
  unfold normEmail; grind (splits := 30)

def Build.isCrash {α : Type} : Build α → Bool
  | .crash => true
  | _ => false

theorem Build.bind_not_crash {α β : Type} (x : Build α) (f : α → Build β)
    (hx : x.isCrash = false) (hf : ∀ a, (f a).isCrash = false) : (x.bind f).isCrash = false := by
  cases x <;> simp_all [Build.bind, Build.isCrash]

theorem optAll_not_crash {α β : Type} (f : α → Option β) (l : List α) :
    (optAll f l).isCrash = false := by
  induction l with
  | nil => rfl
  | cons a as ih =>
    unfold optAll
    cases f a with
    | none => rfl
    | some b => exact Build.bind_not_crash _ _ ih (fun _ => rfl)

theorem mAll_not_crash {α β : Type} (f : α → M (Option β)) (hf : ∀ a, f a ≠ .crash) (l : List α) :
    (mAll f l).isCrash = false := by
  induction l with
  | nil => rfl
  | cons a as ih =>
    unfold mAll
    cases h : f a with
    | crash => exact absurd h (hf a)
    | val o => cases o with
      | none => rfl
      | some b => exact Build.bind_not_crash _ _ ih (fun _ => rfl)

theorem normRules_not_crash (r : RawRules) : (normRules r).isCrash = false := by
  unfold normRules
  refine Build.bind_not_crash _ _ (optAll_not_crash _ _) fun _ => ?_
  refine Build.bind_not_crash _ _ (optAll_not_crash _ _) fun _ => ?_
  refine Build.bind_not_crash _ _ (optAll_not_crash _ _) fun _ => ?_
  refine Build.bind_not_crash _ _ (mAll_not_crash _ (fun (p : Str × Option Str) => normEmail_ne_crash p.1 p.2) _) fun _ => ?_
  refine Build.bind_not_crash _ _ (optAll_not_crash _ _) fun _ => rfl

/-- **Totality of `policy.New`**: any configuration strings yield an engine or a rejection. -/
theorem buildEngine_total (vcn w : Bool) (allow deny : RawRules) :
    (buildEngine vcn w allow deny).isCrash = false := by
  unfold buildEngine
  refine Build.bind_not_crash _ _ (normRules_not_crash _) fun _ => ?_
  exact Build.bind_not_crash _ _ (normRules_not_crash _) fun _ => rfl

/-- the function as it stood before the `fix:` commit did abort (historic witnesses, D1) -/
theorem unguarded_crash_empty : matchDomainUnguarded false [] (s "local") = .crash := by decide
theorem unguarded_crash_star : matchDomainUnguarded false (s "*") (s "local") = .crash := by decide

/-! ## 4. Per-kind meaning of an `allow` -/

/-- the parsed form `matchDomainConstraint` sees for a DNS name -/
def DnsName.parsed (d : DnsName) (a : Str) : Str := if hasPrefix [42, 46] d.raw then 42 :: a else a

/-- A DNS name passes only if: DNS is not an unruled kind while allow rules exist; a literal
    wildcard name is explicitly enabled; the name converts to ASCII and parses; **no** excluded
    DNS constraint matches; and if permitted DNS constraints exist, one matches. -/
theorem dns_sound (e : Engine) (d : DnsName) (h : checkDNS e d = none) :
    ¬ (e.pDNS = [] ∧ e.xDNS = [] ∧ e.nPermitted > 0) ∧
    (hasPrefix [42, 46] d.raw = true → e.allowWild = true) ∧
    ∃ a, d.idna = some a ∧ reverseLabels (d.parsed a) ≠ none ∧
      (∀ c ∈ e.xDNS, matchDomain e.allowWild (d.parsed a) c = .no) ∧
      (e.pDNS = [] ∨ ∃ c ∈ e.pDNS, matchDomain e.allowWild (d.parsed a) c = .yes) := by
  unfold checkDNS at h
  have hn := @checkName_none Str .dns
  unfold DnsName.parsed
  cases hi : d.idna with
  | none => simp [hi] at h; grind
  | some a =>
    simp [hi] at h
    grind

theorem ip_sound (e : Engine) (i : Ip) (h : checkIP e i = none) :
    ¬ (e.pIP = [] ∧ e.xIP = [] ∧ e.nPermitted > 0) ∧
    (∀ c ∈ e.xIP, netContains c i = false) ∧
    (e.pIP = [] ∨ ∃ c ∈ e.pIP, netContains c i = true) := by
  unfold checkIP at h
  have hn := checkName_none .ip (matchIP i) e.pIP e.xIP
  have hm : ∀ c, (matchIP i c = .no ↔ netContains c i = false) ∧ (matchIP i c = .yes ↔ netContains c i = true) := by
    intro c; unfold matchIP; cases netContains c i <;> simp
  grind

theorem principal_sound (e : Engine) (p : Str) (h : checkPrincipal e p = none) :
    ¬ (e.pPrin = [] ∧ e.xPrin = [] ∧ e.nPermitted > 0) ∧
    (∀ c ∈ e.xPrin, c ≠ [42] ∧ foldEq p c = false) ∧
    (e.pPrin = [] ∨ ∃ c ∈ e.pPrin, c = [42] ∨ foldEq p c = true) := by
  unfold checkPrincipal at h
  have hn := checkName_none .principal (matchPrincipal p) e.pPrin e.xPrin
  have hm : ∀ c, (matchPrincipal p c = .no ↔ (c ≠ [42] ∧ foldEq p c = false)) ∧
      (matchPrincipal p c = .yes ↔ (c = [42] ∨ foldEq p c = true)) := by
    intro c; unfold matchPrincipal; grind
  grind

theorem email_sound (e : Engine) (m : EmailName) (h : checkEmail e m = none) :
    ¬ (e.pEmail = [] ∧ e.xEmail = [] ∧ e.nPermitted > 0) ∧
    ∃ mb a, parseMailbox m.raw = some mb ∧ m.idna = some a ∧
      (∀ c ∈ e.xEmail, matchEmail e.allowWild { mb with domain := a } c = .no) ∧
      (e.pEmail = [] ∨ ∃ c ∈ e.pEmail, matchEmail e.allowWild { mb with domain := a } c = .yes) := by
  unfold checkEmail at h
  have hn := @checkName_none Str .email
  cases hp : parseMailbox m.raw with
  | none => simp [hp] at h; grind
  | some mb =>
    cases hi : m.idna with
    | none => simp [hp, hi] at h; grind
    | some a => simp [hp, hi] at h; grind

theorem uri_sound (e : Engine) (u : Uri) (h : checkURI e u = none) :
    ¬ (e.pURI = [] ∧ e.xURI = [] ∧ e.nPermitted > 0) ∧
    (∀ c ∈ e.xURI, matchURI e.allowWild u c = .no) ∧
    (e.pURI = [] ∨ ∃ c ∈ e.pURI, matchURI e.allowWild u c = .yes) := by
  unfold checkURI at h
  have hn := checkName_none .uri (matchURI e.allowWild u) e.pURI e.xURI
  grind

/-- a URI never matches through a host that contains `*`, has no host, or is an IP -/
theorem uri_no_wildcard (w : Bool) (u : Uri) (c : Str) (h : has 42 u.host = true) :
    matchURI w u c = .err := by
  unfold matchURI; grind

/-- **wildcard gate**: with wildcard names not enabled, no literal wildcard DNS name passes,
    whatever the rules are (this is the statement the `fix:` commit 4a97232 made true). -/
theorem wildcard_gate (e : Engine) (d : DnsName) (hw : e.allowWild = false)
    (hd : hasPrefix [42, 46] d.raw = true) : checkDNS e d ≠ none := by
  intro h
  have := (dns_sound e d h).2.1 hd
  simp [hw] at this

/-- and the whole verdict for any name list containing one -/
theorem wildcard_gate_names (e : Engine) (n : Names) (d : DnsName) (hd : d ∈ n.dns)
    (ht : e.total ≠ 0) (hw : e.allowWild = false) (hp : hasPrefix [42, 46] d.raw = true) :
    validateNames e n ≠ .allow := by
  intro h
  exact wildcard_gate e d hw hp ((validateNames_allow e n ht h).dns d hd)

/-- **IDNA-alike**: the verdict on a DNS name depends only on its ASCII (punycode) form and on
    whether it is written as a wildcard; Unicode and punycode spellings with the same
    `idna.Lookup.ToASCII` image are treated alike. -/
theorem idna_alike (e : Engine) (d d' : DnsName) (hi : d.idna = d'.idna)
    (hw : hasPrefix [42, 46] d.raw = hasPrefix [42, 46] d'.raw) : checkDNS e d = checkDNS e d' := by
  unfold checkDNS; rw [hi, hw]

/-- non-vacuity: a concrete engine and name that pass, and one refused by a deny rule -/
def exEngine : Engine :=
  { verifyCN := true, allowWild := false, pCN := [], xCN := [], pDNS := [s ".example.com"],
    xDNS := [s "bad.example.com"], pIP := [], xIP := [], pEmail := [], xEmail := [], pURI := [], xURI := [],
    pPrin := [], xPrin := [] }
example : checkDNS exEngine ⟨s "www.example.com", some (s "www.example.com")⟩ = none := by decide
example : checkDNS exEngine ⟨s "WWW.Example.COM", some (s "www.example.com")⟩ = none := by decide
example : checkDNS exEngine ⟨s "bad.example.com", some (s "bad.example.com")⟩ = some (.deny .notAllowed .dns) := by decide
example : checkDNS exEngine ⟨s "a.b.example.com", some (s "a.b.example.com")⟩ = some (.deny .notAllowed .dns) := by decide
example : checkDNS exEngine ⟨s "*.example.com", some (s ".example.com")⟩ = some (.deny .notAllowed .dns) := by decide

/-! ## 5. Case-insensitivity and refinement of the DNS matcher to its declarative specification -/

theorem lower_eq_space (d : Str) : lower d = [32] ↔ d = [32] := by
  unfold lower
  match d with
  | [] => simp
  | [a] => have := lo_32 a; simp; exact this
  | a :: b :: r => simp

theorem head?_lower_46 (d : Str) : ((lower d).head? = some 46) ↔ (d.head? = some 46) := by
  cases d with
  | nil => simp [lower]
  | cons a r => have := lo_46 a; simp [lower]; exact this

/-- **matching ignores letter case**: ASCII case-folding the name leaves every match outcome unchanged -/
theorem matchDomain_lower_name (w : Bool) (d c : Str) :
    matchDomain w (lower d) c = matchDomain w d c := by
  cases d with
  | nil => rfl
  | cons d0 dr =>
    have e1 : (lo d0 :: lower dr = [32] ↔ d0 :: dr = [32]) := lower_eq_space (d0 :: dr)
    have e2 := lo_46 d0
    have e3 := lo_42 d0
    have e4 := head?_lower_46 dr
    have e5 : hasPrefix [42, 46] (lo d0 :: lower dr) = hasPrefix [42, 46] (d0 :: dr) := hasPrefix_star_dot_lower (d0 :: dr)
    have e6 : starAfterFirst (lo d0 :: lower dr) = starAfterFirst (d0 :: dr) := starAfterFirst_lower (d0 :: dr)
    have e7 : reverseLabels (lo d0 :: lower dr) = (reverseLabels (d0 :: dr)).map (List.map lower) := reverseLabels_lower (d0 :: dr)
    have e8 := fun cl dl => labelsFoldEq_lower_right cl dl
    show matchDomain w (lo d0 :: lower dr) c = matchDomain w (d0 :: dr) c
    unfold matchDomain
    simp only []
    cases hr : reverseLabels (d0 :: dr) with
    | none => simp [hr] at e7; grind (splits := 40)
    | some dl => simp [hr] at e7; grind (splits := 40)

theorem foldEq_iff (a b : Str) : foldEq a b = true ↔ lower a = lower b := by
  unfold foldEq lower; simp

theorem labelsFoldEq_iff (cl dl : List Str) :
    labelsFoldEq cl dl = true ↔ ∃ rest, dl.map lower = cl.map lower ++ rest := by
  induction cl generalizing dl with
  | nil => simp [labelsFoldEq]
  | cons c cs ih =>
    cases dl with
    | nil => simp [labelsFoldEq]
    | cons d ds =>
      simp only [labelsFoldEq, Bool.and_eq_true, foldEq_iff, ih, List.map_cons, List.cons_append, List.cons.injEq]
      constructor
      · rintro ⟨h, r, hr⟩; exact ⟨r, h.symm, hr⟩
      · rintro ⟨r, h, hr⟩; exact ⟨h.symm, r, hr⟩

theorem fold_len_iff (cl dl : List Str) (k : Nat) :
    (dl.length = cl.length + k ∧ labelsFoldEq cl dl = true) ↔
      ∃ extra : List Str, extra.length = k ∧ dl.map lower = cl.map lower ++ extra := by
  constructor
  · rintro ⟨hl, hf⟩
    obtain ⟨rest, hrest⟩ := (labelsFoldEq_iff _ _).mp hf
    refine ⟨rest, ?_, hrest⟩
    have := congrArg List.length hrest
    simp at this; omega
  · rintro ⟨extra, hk, he⟩
    refine ⟨?_, (labelsFoldEq_iff _ _).mpr ⟨extra, he⟩⟩
    have := congrArg List.length he
    simp at this; omega

/-- Declarative meaning of a DNS rule, labels read from the top-level domain downwards
    (`reverseLabels`): the rule's labels are a case-insensitive prefix of the name's labels and the
    name has exactly `k` more labels, `k = 1` for a rule written with a leading period
    (`*.example.com` is normalised to `.example.com`: exactly one sub-label), `k = 0` otherwise. -/
def DomainSpec (name rule : Str) : Prop :=
  let must := rule.head? = some 46
  ∃ nl rl, reverseLabels name = some nl ∧
    reverseLabels (if must then rule.tail else rule) = some rl ∧
    ∃ extra : List Str, extra.length = (if must then 1 else 0) ∧ nl.map lower = rl.map lower ++ extra

/-- the syntactic gate in front of the label comparison -/
def NameShapeOk (w : Bool) (d : Str) : Prop :=
  d ≠ [32] ∧ d ≠ [] ∧ d.head? ≠ some 46 ∧ ¬ (d.head? = some 42 ∧ d.tail.head? ≠ some 46) ∧
  ¬ (hasPrefix [42, 46] d = true ∧ w = false) ∧ starAfterFirst d = false

/-- **refinement to the specification**: for a non-empty rule, `matchDomainConstraint` answers
    "match" exactly when the name passes the syntactic gate, the rule has no empty label, and the
    declarative label-prefix relation holds. -/
theorem matchDomain_yes_iff (w : Bool) (d c : Str) (hc : c ≠ []) :
    matchDomain w d c = .yes ↔ NameShapeOk w d ∧ containsSub [46, 46] c = false ∧ DomainSpec d c := by
  unfold NameShapeOk DomainSpec
  cases d with
  | nil => unfold matchDomain; simp [hc]
  | cons d0 dr =>
    unfold matchDomain
    simp only []
    cases hr : reverseLabels (d0 :: dr) with
    | none => simp [hc]; grind (splits := 40)
    | some dl =>
      cases hcl : reverseLabels (if c.head? = some 46 then c.tail else c) with
      | none => simp [hc]; grind (splits := 40)
      | some cl =>
        have key := fold_len_iff cl dl (if c.head? = some 46 then 1 else 0)
        simp [hc]
        grind (splits := 40)

/-- principals and common names are compared case-insensitively too -/
theorem matchPrincipal_lower (p c : Str) : matchPrincipal (lower p) c = matchPrincipal p c := by
  unfold matchPrincipal foldEq
  rw [show (lower p).map lo = lower (lower p) from rfl, lower_lower]; rfl

theorem matchCN_lower (p c : Str) : matchCN (lower p) c = matchCN p c := by
  unfold matchCN foldEq
  rw [show (lower p).map lo = lower (lower p) from rfl, lower_lower]; rfl

/-- non-vacuity of the specification: one sub-label under a leading-period rule matches, two do not -/
example : matchDomain false (s "Www.Example.com") (s ".example.com") = .yes := by decide
example : DomainSpec (s "www.example.com") (s ".example.com") :=
  ⟨[s "com", s "example", s "www"], [s "com", s "example"], by decide, by decide, [s "www"], by decide, by decide⟩
example : matchDomain false (s "a.b.example.com") (s ".example.com") = .no := by decide
example : matchDomain true (s "*.example.com") (s ".example.com") = .yes := by decide


end Verif.Policy
