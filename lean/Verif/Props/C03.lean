import Verif.Model.SignNames
/-!
  C03 — an issued X.509 certificate names exactly what the credential authorized.

  Property theorems only; all statements are about `Verif.SignNames.sign`, the model of
  `Authority.signX509` applied to the options `JWK/X5C/OIDC.AuthorizeSign` return, tied to the
  code by the end-to-end correspondence check harness/cmd/c03 <-> lean/Driver/C03.lean.
-/
namespace Verif.SignNames
open Verif

/-- the names of a certificate as `(type, value)` pairs, grouped dns, ip, email, uri -/
def Cert.names (c : Cert) : List Name :=
  c.dns.map (Name.mk .dns) ++ c.ips.map (Name.mk .ip) ++
  c.emails.map (Name.mk .email) ++ c.uris.map (Name.mk .uri)

/-- the CSR's names of one kind -/
def CSR.ofKind (c : CSR) : Kind → List Str
  | .dns => c.dns | .ip => c.ips | .email => c.emails | .uri => c.uris

/-! ## helper lemmas -/

theorem valsOf_map (k k' : Kind) (xs : List Str) :
    valsOf k (xs.map (Name.mk k')) = if k' = k then xs else [] := by
  induction xs with
  | nil => simp [valsOf]
  | cons x xs ih =>
    simp only [valsOf] at ih ⊢
    by_cases h : k' = k <;> simp_all

theorem valsOf_append (k : Kind) (a b : List Name) : valsOf k (a ++ b) = valsOf k a ++ valsOf k b := by
  simp [valsOf]

theorem valsOf_createSANs (k : Kind) (l : List San) : valsOf k (createSANs l) = ofKind k l := by
  unfold createSANs
  simp only [valsOf_append, valsOf_map]
  cases k <;> simp

theorem applyLeaf_names (d : Data) (c : CSR) (l : List San) (h : d.sans = createSANs l) :
    (applyLeaf d c).names = createSANs l := by
  simp only [Cert.names, applyLeaf, h, valsOf_createSANs]
  simp [createSANs]

/-- `createSANs` only regroups: every `(type, value)` pair occurs as often as in the token list -/
theorem createSANs_count (l : List San) (n : Name) :
    (createSANs l).count n = (l.map San.name).count n := by
  induction l with
  | nil => simp [createSANs, ofKind]
  | cons x l ih =>
    obtain ⟨k, r, v⟩ := x
    cases k <;>
      simp [createSANs, ofKind, San.name, List.count_append, List.count_cons] at ih ⊢ <;>
      omega

theorem createSANs_perm (l : List San) : (createSANs l).Perm (l.map San.name) :=
  List.perm_iff_count.mpr (createSANs_count l)

theorem setEq_false_of_extra (want got : List Str) (v : Str) (hv : v ∈ got) (hn : v ∉ want) :
    setEq want got = false := by
  unfold setEq
  have : got.all (fun x => want.contains x) = false := by
    rw [List.all_eq_false]
    exact ⟨v, hv, by simpa using hn⟩
  rw [this]; simp

theorem setEq_false_of_missing (want got : List Str) (w : Str) (hw : w ∈ want) (hn : w ∉ got) :
    setEq want got = false := by
  unfold setEq
  have : want.all (fun x => got.contains x) = false := by
    rw [List.all_eq_false]
    exact ⟨w, hw, by simpa using hn⟩
  rw [this]; simp

theorem kindValid_false (want got : List Str) (hne : got ≠ []) (h : setEq want got = false) :
    kindValid want got = false := by
  unfold kindValid
  cases got with
  | nil => exact absurd rfl hne
  | cons a as => simp [h]

theorem sansValid_false (sans : List San) (c : CSR) (k : Kind)
    (h : kindValid (ofKind k sans) (c.ofKind k) = false) : sansValid sans c = false := by
  unfold sansValid
  cases k <;> simp [CSR.ofKind] at h <;> simp [h]

/-- the plan of a JWK / X5C token always carries the SAN validator for the effective names -/
theorem authorize_sans (cfg : Cfg) (t : Token) (hp : cfg.prov = .jwk ∨ cfg.prov = .x5c) :
    (authorize cfg t).sans = some (effSans t) ∧
    (authorize cfg t).data.cn = t.sub.raw ∧ (authorize cfg t).data.sans = createSANs (effSans t) ∧
    (authorize cfg t).tpl ≠ .admin := by
  rcases hp with h | h <;> simp [authorize, h] <;> split <;> simp

theorem refused_of_reqValid_false (cfg : Cfg) (t : Token) (c : CSR) (ud : Option UserData) (enc : Enc)
    (h : reqValid (authorize cfg t) c = false) : ∃ st, sign cfg t c ud enc = .refused st := by
  unfold sign
  by_cases hs : c.sigOK = false
  · exact ⟨400, by simp [hs]⟩
  · exact ⟨403, by simp [hs, h]⟩

/-- inversion of `sign`: what an issued certificate went through -/
theorem sign_issued {cfg : Cfg} {t : Token} {c : CSR} {ud : Option UserData} {enc : Enc} {crt : Cert}
    (h : sign cfg t c ud enc = .issued crt) :
    c.sigOK = true ∧ reqValid (authorize cfg t) c = true ∧ hasDupOid crt.exts = false ∧
    crt = finalCert cfg (authorize cfg t) c (templateUser cfg ud) := by
  unfold sign at h
  split at h
  · cases h
  · split at h
    · cases h
    · split at h
      · cases h
      · split at h
        · cases h
        · split at h
          · cases h
          · split at h
            · cases h
            · rename_i h1 h2 _ _ _ h3
              injection h with h
              subst h
              simp at h1 h2 h3
              exact ⟨h1, h2, h3.2, rfl⟩

/-- an issued request was not denied by a webhook -/
theorem sign_issued_webhooks {cfg : Cfg} {t : Token} {c : CSR} {ud : Option UserData} {enc : Enc} {crt : Cert}
    (h : sign cfg t c ud enc = .issued crt) : enc.whEnrich ≠ some false ∧ enc.whAuthz ≠ some false := by
  unfold sign at h
  split at h
  · cases h
  · split at h
    · cases h
    · split at h
      · cases h
      · split at h
        · cases h
        · split at h
          · cases h
          · rename_i h3 _ h4; exact ⟨h3, h4⟩

/-! ## 1. names_exact -/

theorem tpl_not_iid (cfg : Cfg) (t : Token) (h : ∀ d, cfg.prov ≠ .aws d) : (authorize cfg t).tpl ≠ .iid := by
  cases hp : cfg.prov with
  | aws d => exact absurd hp (h d)
  | jwk => simp only [authorize, hp]; split <;> simp
  | x5c => simp only [authorize, hp]; split <;> simp
  | oidc a => simp only [authorize, hp]; split <;> (try split) <;> simp
  | nebula => simp only [authorize, hp]; split <;> simp
  | k8ssa => simp only [authorize, hp]; split <;> simp
  | acme => simp only [authorize, hp]; split <;> simp
  | scep => simp only [authorize, hp]; split <;> simp

theorem finalCert_leafish (cfg : Cfg) (p : Plan) (c : CSR) (u : Option UserData) (l : List San)
    (hs : p.data.sans = createSANs l) (ht : p.tpl ≠ .admin) (hi : p.tpl ≠ .iid) :
    (finalCert cfg p c u).names = createSANs l ∧ (finalCert cfg p c u).cn = p.data.cn ∧
    (finalCert cfg p c u).key = c.key := by
  cases htpl : p.tpl with
  | admin => exact absurd htpl ht
  | iid => exact absurd htpl hi
  | leaf =>
    have := applyLeaf_names { p.data with user := u } c l hs
    simp only [finalCert, applyTemplate, htpl]
    exact ⟨by simpa [Cert.names] using this, by simp [applyLeaf], by simp [applyLeaf]⟩
  | custom =>
    have := applyLeaf_names { p.data with user := u } c l hs
    simp only [finalCert, applyTemplate, htpl, applyCustom]
    exact ⟨by simpa [Cert.names] using this, by simp [applyLeaf], by simp [applyLeaf]⟩

/-- **names_exact.** For a JWK or X5C token: whenever a certificate is issued, its names are,
    kind by kind and in token order, the names listed in the token (the subject when the token
    lists none), its common name is the token subject and its key is the request's key —
    for every CSR, every template data object and either template the model knows. -/
theorem names_exact (cfg : Cfg) (t : Token) (c : CSR) (ud : Option UserData) (enc : Enc) (crt : Cert)
    (hp : cfg.prov = .jwk ∨ cfg.prov = .x5c)
    (h : sign cfg t c ud enc = .issued crt) :
    crt.names = createSANs (effSans t) ∧ crt.cn = t.sub.raw ∧ crt.key = c.key := by
  obtain ⟨_, hcn, hsans, hadm⟩ := authorize_sans cfg t hp
  obtain ⟨_, _, _, rfl⟩ := sign_issued h
  have := finalCert_leafish cfg (authorize cfg t) c (templateUser cfg ud) (effSans t) hsans hadm
    (tpl_not_iid cfg t (by intro d; rcases hp with h | h <;> simp [h]))
  rw [hcn] at this
  exact this

/-- the same as a multiset statement over `(type, value)` pairs: the certificate's names are a
    permutation of the token's classified names -/
theorem names_exact_multiset (cfg : Cfg) (t : Token) (c : CSR) (ud : Option UserData) (enc : Enc) (crt : Cert)
    (hp : cfg.prov = .jwk ∨ cfg.prov = .x5c)
    (h : sign cfg t c ud enc = .issued crt) :
    crt.names.Perm ((effSans t).map San.name) := by
  rw [(names_exact cfg t c ud enc crt hp h).1]
  exact createSANs_perm _

/-- hypotheses satisfiable: a token with a DNS name and an IPv4-mapped address, matching CSR -/
example :
    let a : San := ⟨.dns, s "a.example.com", s "a.example.com"⟩
    let i : San := ⟨.ip, s "::ffff:10.0.0.1", s "10.0.0.1"⟩
    let g : Ext := ⟨0, [48, 0]⟩
    sign ⟨.jwk, false, noClaims, noClaims, g⟩ ⟨a, [i, a], .absent, none, none, none, []⟩
      ⟨true, s "a.example.com", [s "a.example.com"], [s "10.0.0.1"], [], [], 1, true, []⟩ none ⟨true, true, none, none⟩
    = .issued ⟨s "a.example.com", [s "a.example.com"], [s "10.0.0.1"], [], [], 1, [g]⟩ := by decide

/-! ## 2. csr_extra_refused: never widened, never narrowed -/

/-- **csr_extra_refused.** A CSR that carries a name of any kind which is not among the token's
    names of that kind is refused (status 400/403), whatever else it contains. -/
theorem csr_extra_refused (cfg : Cfg) (t : Token) (c : CSR) (ud : Option UserData) (enc : Enc)
    (hp : cfg.prov = .jwk ∨ cfg.prov = .x5c)
    (k : Kind) (v : Str) (hv : v ∈ c.ofKind k) (hn : v ∉ ofKind k (effSans t)) :
    ∃ st, sign cfg t c ud enc = .refused st := by
  apply refused_of_reqValid_false
  obtain ⟨hsans, _⟩ := authorize_sans cfg t hp
  have hk : kindValid (ofKind k (effSans t)) (c.ofKind k) = false :=
    kindValid_false _ _ (List.ne_nil_of_mem hv) (setEq_false_of_extra _ _ v hv hn)
  have := sansValid_false (effSans t) c k hk
  simp [reqValid, hsans, this]

/-- **csr_narrow_refused.** A CSR that lists names of some kind but leaves out one of the token's
    names of that kind is refused: the certificate is never a silently narrowed one.
    (A CSR that lists *no* name of a kind is accepted and the certificate still carries all the
    token's names of that kind — see `names_exact`.) -/
theorem csr_narrow_refused (cfg : Cfg) (t : Token) (c : CSR) (ud : Option UserData) (enc : Enc)
    (hp : cfg.prov = .jwk ∨ cfg.prov = .x5c)
    (k : Kind) (hne : c.ofKind k ≠ []) (w : Str) (hw : w ∈ ofKind k (effSans t)) (hn : w ∉ c.ofKind k) :
    ∃ st, sign cfg t c ud enc = .refused st := by
  apply refused_of_reqValid_false
  obtain ⟨hsans, _⟩ := authorize_sans cfg t hp
  have hk : kindValid (ofKind k (effSans t)) (c.ofKind k) = false :=
    kindValid_false _ _ hne (setEq_false_of_missing _ _ w hw hn)
  have := sansValid_false (effSans t) c k hk
  simp [reqValid, hsans, this]

theorem cnValid_false_exact (c : CSR) (x : Str) (hne : c.cn ≠ []) (h : c.cn ≠ x) :
    cnValid (.exactly x) c = false := by
  have hemp : c.cn.isEmpty = false := by cases h : c.cn <;> simp_all
  simp [cnValid, hemp, h]

theorem cnValid_false_oneOf (c : CSR) (l : List Str) (hne : c.cn ≠ []) (h : c.cn ∉ l) :
    cnValid (.oneOf l) c = false := by
  have hemp : c.cn.isEmpty = false := by cases h : c.cn <;> simp_all
  simp [cnValid, hemp, h]

/-- **csr_cn_refused.** A CSR with a non-empty common name that is neither the token subject nor
    (JWK only) one of the token's names is refused. -/
theorem csr_cn_refused (cfg : Cfg) (t : Token) (c : CSR) (ud : Option UserData) (enc : Enc)
    (hp : cfg.prov = .jwk ∨ cfg.prov = .x5c)
    (hne : c.cn ≠ []) (hsub : c.cn ≠ t.sub.raw)
    (hn : cfg.prov = .jwk → c.cn ∉ (effSans t).map (·.raw)) :
    ∃ st, sign cfg t c ud enc = .refused st := by
  apply refused_of_reqValid_false
  rcases hp with h | h
  · have h1 : (authorize cfg t).cnRule = .oneOf (t.sub.raw :: (effSans t).map (·.raw)) := by
      simp [authorize, h]
    have h2 := cnValid_false_oneOf c (t.sub.raw :: (effSans t).map (·.raw)) hne
      (by intro hm
          rw [List.mem_cons] at hm
          rcases hm with hm | hm
          · exact hsub hm
          · exact hn h hm)
    simp [reqValid, h1, h2]
  · have h1 : (authorize cfg t).cnRule = .exactly t.sub.raw := by simp [authorize, h]
    have h2 := cnValid_false_exact c t.sub.raw hne hsub
    simp [reqValid, h1, h2]

/-- what acceptance means for the request: signature, key and fingerprint checks passed, and
    every kind of name in the CSR is either absent or set-equal to the token's -/
theorem issued_request_shape (cfg : Cfg) (t : Token) (c : CSR) (ud : Option UserData) (enc : Enc) (crt : Cert)
    (hp : cfg.prov = .jwk ∨ cfg.prov = .x5c)
    (h : sign cfg t c ud enc = .issued crt) :
    c.sigOK = true ∧ c.keyOK = true ∧ fpValid t.cnf = true ∧
    ∀ k, c.ofKind k = [] ∨ setEq (ofKind k (effSans t)) (c.ofKind k) = true := by
  obtain ⟨hsans, _⟩ := authorize_sans cfg t hp
  obtain ⟨hs, hv, _, _⟩ := sign_issued h
  have hcnf : (authorize cfg t).cnf = t.cnf := by rcases hp with h | h <;> simp [authorize, h]
  simp only [reqValid, hsans, hcnf, Bool.and_eq_true] at hv
  obtain ⟨⟨⟨⟨⟨hfp, _⟩, hk⟩, hsv⟩, _⟩, _⟩ := hv
  refine ⟨hs, hk, hfp, ?_⟩
  intro k
  simp only [sansValid, Bool.and_eq_true, kindValid, Bool.or_eq_true, List.isEmpty_iff] at hsv
  obtain ⟨⟨⟨h1, h2⟩, h3⟩, h4⟩ := hsv
  cases k
  · exact h1
  · exact h3
  · exact h2
  · exact h4

/-- the refusal hypotheses are satisfiable: an extra DNS name next to the authorized one -/
example :
    let a : San := ⟨.dns, s "a", s "a"⟩
    sign ⟨.jwk, false, noClaims, noClaims, ⟨0, []⟩⟩ ⟨a, [a], .absent, none, none, none, []⟩
      ⟨true, [], [s "a", s "b"], [], [], [], 1, true, []⟩ none ⟨true, true, none, none⟩ = .refused 403 := by decide

/-! ## 3. oidc_nonadmin_names -/

/-- **oidc_nonadmin_names.** For a single-sign-on token of a non-administrator the
    certificate's names are exactly the e-mail claim (when present) and the `iss#sub` URI (when
    the issuer is a URL), the common name is the subject and the key is the request's —
    whatever names, common name or extensions the CSR asks for. -/
theorem oidc_nonadmin_names (cfg : Cfg) (t : Token) (c : CSR) (ud : Option UserData) (enc : Enc) (crt : Cert)
    (hp : cfg.prov = .oidc false)
    (h : sign cfg t c ud enc = .issued crt) :
    crt.names = createSANs (oidcSans t) ∧ crt.cn = t.sub.raw ∧ crt.key = c.key ∧
    (∀ n ∈ crt.names, some n = t.email.map San.name ∨ some n = t.issUri.map San.name) := by
  obtain ⟨_, _, _, rfl⟩ := sign_issued h
  have hs : (authorize cfg t).data.sans = createSANs (oidcSans t) := by simp [authorize, hp]
  have hc : (authorize cfg t).data.cn = t.sub.raw := by simp [authorize, hp]
  have ht : (authorize cfg t).tpl ≠ .admin := by
    simp only [authorize, hp]; split <;> simp
  obtain ⟨h1, h2, h3⟩ := finalCert_leafish cfg (authorize cfg t) c (templateUser cfg ud) (oidcSans t) hs ht
    (tpl_not_iid cfg t (by intro d; simp [hp]))
  refine ⟨h1, by rw [h2, hc], h3, ?_⟩
  intro n hn
  rw [h1] at hn
  have hmem : n ∈ (oidcSans t).map San.name := (createSANs_perm _).mem_iff.mp hn
  simp only [oidcSans, List.map_append, List.mem_append, List.mem_map] at hmem
  rcases hmem with ⟨x, hx, rfl⟩ | ⟨x, hx, rfl⟩
  · left; cases he : t.email <;> simp_all
  · right; cases he : t.issUri <;> simp_all

example :
    let e : San := ⟨.email, s "a@example.com", s "a@example.com"⟩
    let u : San := ⟨.uri, s "https://idp#1", s "https://idp#1"⟩
    let g : Ext := ⟨0, [48, 0]⟩
    sign ⟨.oidc false, false, noClaims, noClaims, g⟩ ⟨⟨.dns, s "1", s "1"⟩, [], .absent, some e, some u, none, []⟩
      ⟨true, s "evil", [s "evil.example.com"], [], [], [], 1, true, []⟩ none ⟨true, true, none, none⟩
    = .issued ⟨s "1", [], [], [s "a@example.com"], [s "https://idp#1"], 1, [g]⟩ := by decide

/-! ## 4. ext_once -/

theorem replaceFirst_none (g : Ext) (l : List Ext) :
    replaceFirst g l = none ↔ l.filter Ext.isProv = [] := by
  induction l with
  | nil => simp [replaceFirst]
  | cons e es ih =>
    unfold replaceFirst
    by_cases he : e.isProv <;> simp [he, ih]

theorem replaceFirst_some (g : Ext) (hg : g.isProv = true) (l l' : List Ext) (h : replaceFirst g l = some l') :
    l'.filter Ext.isProv = g :: (l.filter Ext.isProv).tail ∧
    l'.filter (fun e => !e.isProv) = l.filter (fun e => !e.isProv) := by
  induction l generalizing l' with
  | nil => simp [replaceFirst] at h
  | cons e es ih =>
    unfold replaceFirst at h
    by_cases he : e.isProv
    · simp [he] at h; subst h; simp [he, hg]
    · simp [he] at h
      obtain ⟨m, hm, rfl⟩ := h
      obtain ⟨h1, h3⟩ := ih m hm
      simp [he, h1, h3]

/-- **ext_filter.** For *every* extension list the template produced: after `Modify` the
    extensions carrying the provisioner OID are the genuine one followed by whatever followed
    the first such extension before; every other extension is untouched. -/
theorem ext_filter (g : Ext) (hg : g.isProv = true) (l : List Ext) :
    (modifyExt false g l).filter Ext.isProv = g :: (l.filter Ext.isProv).tail ∧
    (modifyExt false g l).filter (fun e => !e.isProv) = l.filter (fun e => !e.isProv) := by
  unfold modifyExt
  cases h : replaceFirst g l with
  | none =>
    have := (replaceFirst_none g l).mp h
    simp [this, hg]
  | some l' =>
    obtain ⟨h1, h3⟩ := replaceFirst_some g hg l l' h
    simp [h1, h3]

/-- the first extension with the provisioner OID is the genuine one -/
theorem ext_first (g : Ext) (hg : g.isProv = true) (l : List Ext) :
    (modifyExt false g l).find? Ext.isProv = some g := by
  have := (ext_filter g hg l).1
  rw [← List.head?_filter, this]; rfl

theorem noDup_filter (l : List Ext) (h : hasDupOid l = false) (a b : Ext) (r : List Ext) :
    l.filter Ext.isProv ≠ a :: b :: r := by
  induction l generalizing a b r with
  | nil => simp
  | cons e es ih =>
    unfold hasDupOid at h
    simp only [Bool.or_eq_false_iff] at h
    obtain ⟨h1, h2⟩ := h
    by_cases he : e.isProv
    · simp only [List.filter_cons, he, if_true]
      intro hc
      injection hc with _ hc
      have hb : b ∈ es.filter Ext.isProv := by rw [hc]; exact List.mem_cons_self
      rw [List.mem_filter] at hb
      have : es.any (fun x => x.oid == e.oid) = true := by
        rw [List.any_eq_true]
        refine ⟨b, hb.1, ?_⟩
        simp only [Ext.isProv, beq_iff_eq] at he hb ⊢
        omega
      rw [this] at h1; cases h1
    · simp only [List.filter_cons, he]
      exact ih h2 a b r

/-- **ext_once.** Every issued certificate (extension not disabled) carries exactly one
    extension with the provisioner OID, and it is the genuine one — whatever the CSR carried and
    whatever extension list the user's template data made the template produce. -/
theorem ext_once (cfg : Cfg) (t : Token) (c : CSR) (ud : Option UserData) (enc : Enc) (crt : Cert)
    (hg : cfg.gen.isProv = true) (hd : cfg.extDisabled = false)
    (h : sign cfg t c ud enc = .issued crt) :
    crt.exts.filter Ext.isProv = [cfg.gen] := by
  obtain ⟨_, _, hdup, rfl⟩ := sign_issued h
  simp only [finalCert, hd] at hdup ⊢
  have hf := (ext_filter cfg.gen hg (applyTemplate (authorize cfg t) c (templateUser cfg ud)).exts).1
  cases htl : (List.filter Ext.isProv (applyTemplate (authorize cfg t) c (templateUser cfg ud)).exts).tail with
  | nil => rw [hf, htl]
  | cons b r =>
    rw [htl] at hf
    exact absurd hf (noDup_filter _ hdup _ _ _)

/-- with the extension disabled and no template configured the certificate has no extension
    from the alphabet at all (in particular none with the provisioner OID) -/
theorem ext_disabled_absent (cfg : Cfg) (t : Token) (c : CSR) (ud : Option UserData) (enc : Enc) (crt : Cert)
    (hd : cfg.extDisabled = true) (ht : cfg.hasTemplate = false) (hna : ∀ d, cfg.prov ≠ .aws d)
    (h : sign cfg t c ud enc = .issued crt) : crt.exts = [] := by
  obtain ⟨_, _, _, rfl⟩ := sign_issued h
  have : (authorize cfg t).tpl = .leaf ∨ (authorize cfg t).tpl = .admin := by
    cases hp : cfg.prov with
    | jwk => simp [authorize, hp, ht]
    | x5c => simp [authorize, hp, ht]
    | oidc a => cases a <;> simp [authorize, hp, ht]
    | nebula => simp [authorize, hp, ht]
    | k8ssa => simp [authorize, hp, ht]
    | acme => simp [authorize, hp, ht]
    | scep => simp [authorize, hp, ht]
    | aws d => exact absurd hp (hna d)
  rcases this with h1 | h1 <;> simp [finalCert, modifyExt, hd, applyTemplate, h1, applyLeaf, applyAdmin]

theorem inForce_direct (c : BoolClaims) (h : c.adminForm = false) : c.inForce = c := by
  simp [BoolClaims.inForce, h]

/-- **extDisabled_iff.** For a provisioner in its configured (ca.json) form the extension is
    disabled exactly when the *effective* `disableSmallstepExtensions` claim is true: the
    provisioner's own value if it has one, else the authority-level value, else false. -/
theorem extDisabled_iff (cfg : Cfg) (hd : cfg.provClaims.adminForm = false) :
    cfg.extDisabled = true ↔
      cfg.provClaims.disableExt = some true ∨
      (cfg.provClaims.disableExt = none ∧ cfg.authClaims.disableExt = some true) := by
  unfold Cfg.extDisabled effClaim
  rw [inForce_direct _ hd]
  cases cfg.provClaims.disableExt with
  | some b => cases b <;> simp
  | none =>
    cases cfg.authClaims.disableExt with
    | some b => cases b <;> simp
    | none => simp

/-- **extDisabled_adminForm.** For a provisioner that went through the admin-database form
    (`claimsToLinkedca` / `claimsToCertificates`, plain booleans): the authority-level value is
    inherited only when the provisioner has no boolean claim at all; as soon as it sets one of
    them, an unset `disableSmallstepExtensions` has become an explicit `false`. -/
theorem extDisabled_adminForm (cfg : Cfg) (ha : cfg.provClaims.adminForm = true) :
    cfg.extDisabled = true ↔
      cfg.provClaims.disableExt = some true ∨
      (cfg.provClaims.disableRenewal = none ∧ cfg.provClaims.disableExt = none ∧
        cfg.provClaims.allowAfterExpiry = none ∧ cfg.authClaims.disableExt = some true) := by
  unfold Cfg.extDisabled effClaim BoolClaims.inForce
  obtain ⟨pc⟩ : ∃ pc, pc = cfg.provClaims := ⟨_, rfl⟩
  cases h1 : cfg.provClaims.disableRenewal <;> cases h2 : cfg.provClaims.disableExt <;>
    cases h3 : cfg.provClaims.allowAfterExpiry <;> cases h4 : cfg.authClaims.disableExt <;>
    simp [ha] <;> (try cases ‹Bool›) <;> simp_all

/-- the difference, as a witness: the authority disables the extension, the provisioner only sets
    `disableRenewal`; configured directly it inherits (no extension), loaded from the admin
    database it does not (extension present) -/
example :
    let tok : Token := ⟨⟨.dns, s "a", s "a"⟩, [], .absent, none, none, none, []⟩
    let csr : CSR := ⟨true, [], [], [], [], [], 1, true, []⟩
    sign ⟨.jwk, false, ⟨none, some true, none, false⟩, ⟨some true, none, none, false⟩, ⟨0, [1]⟩⟩ tok csr none ⟨true, true, none, none⟩
      = .issued ⟨s "a", [s "a"], [], [], [], 1, []⟩ ∧
    sign ⟨.jwk, false, ⟨none, some true, none, false⟩, ⟨some true, none, none, true⟩, ⟨0, [1]⟩⟩ tok csr none ⟨true, true, none, none⟩
      = .issued ⟨s "a", [s "a"], [], [], [], 1, [⟨0, [1]⟩]⟩ := by decide

/-- **ext_once_claims.** `ext_once` in terms of the configuration: unless the provisioner sets
    `disableSmallstepExtensions: true`, or leaves it unset while the authority sets it to true, every
    issued certificate carries exactly one, genuine, provisioner extension — whatever the other
    boolean claims (`disableRenewal`, `allowRenewalAfterExpiry`) are at either level, and whichever
    form the provisioner is kept in. -/
theorem ext_once_claims (cfg : Cfg) (t : Token) (c : CSR) (ud : Option UserData) (enc : Enc) (crt : Cert)
    (hg : cfg.gen.isProv = true)
    (hc : cfg.provClaims.disableExt = some false ∨
          (cfg.provClaims.disableExt = none ∧ cfg.authClaims.disableExt ≠ some true))
    (h : sign cfg t c ud enc = .issued crt) :
    crt.exts.filter Ext.isProv = [cfg.gen] := by
  apply ext_once cfg t c ud enc crt hg _ h
  cases hd : cfg.extDisabled with
  | false => rfl
  | true =>
    cases hf : cfg.provClaims.adminForm with
    | false =>
      rcases (extDisabled_iff cfg hf).mp hd with h1 | ⟨h1, h2⟩
      · rcases hc with hc | ⟨hc, _⟩ <;> rw [h1] at hc <;> cases hc
      · rcases hc with hc | ⟨_, hc⟩
        · rw [h1] at hc; cases hc
        · exact absurd h2 hc
    | true =>
      rcases (extDisabled_adminForm cfg hf).mp hd with h1 | ⟨_, h1, _, h2⟩
      · rcases hc with hc | ⟨hc, _⟩ <;> rw [h1] at hc <;> cases hc
      · rcases hc with hc | ⟨_, hc⟩
        · rw [h1] at hc; cases hc
        · exact absurd h2 hc

/-- `sign` looks at the configuration only through the provisioner type, the template flag, the
    genuine extension and the effective extension claim -/
theorem sign_congr (cfg cfg' : Cfg) (t : Token) (c : CSR) (ud : Option UserData) (enc : Enc)
    (h1 : cfg.prov = cfg'.prov) (h2 : cfg.hasTemplate = cfg'.hasTemplate) (h3 : cfg.gen = cfg'.gen)
    (h4 : cfg.extDisabled = cfg'.extDisabled) : sign cfg t c ud enc = sign cfg' t c ud enc := by
  have ha : authorize cfg t = authorize cfg' t := by simp [authorize, h1, h2]
  have hu : templateUser cfg ud = templateUser cfg' ud := by simp [templateUser, h2]
  unfold sign finalCert
  rw [ha, hu, h3, h4]

/-- the claims that are not `disableSmallstepExtensions` never influence a sign request (for a
    provisioner in its configured form) -/
theorem other_claims_irrelevant (cfg : Cfg) (a b a' b' : Option Bool) (t : Token) (c : CSR)
    (ud : Option UserData) (enc : Enc) (hd : cfg.provClaims.adminForm = false) :
    sign { cfg with authClaims := ⟨a, cfg.authClaims.disableExt, b, cfg.authClaims.adminForm⟩,
                    provClaims := ⟨a', cfg.provClaims.disableExt, b', false⟩ } t c ud enc
    = sign cfg t c ud enc := by
  apply sign_congr <;> try rfl
  simp [Cfg.extDisabled, BoolClaims.inForce, hd]

/-- authority-level `disableRenewal: true` alone does not remove the extension; authority-level
    `disableSmallstepExtensions: true` does, unless the provisioner says false -/
example :
    let tok : Token := ⟨⟨.dns, s "a", s "a"⟩, [], .absent, none, none, none, []⟩
    let csr : CSR := ⟨true, [], [], [], [], [], 1, true, []⟩
    sign ⟨.jwk, false, ⟨some true, none, none, false⟩, noClaims, ⟨0, [1]⟩⟩ tok csr none ⟨true, true, none, none⟩
      = .issued ⟨s "a", [s "a"], [], [], [], 1, [⟨0, [1]⟩]⟩ ∧
    sign ⟨.jwk, false, ⟨none, some true, none, false⟩, noClaims, ⟨0, [1]⟩⟩ tok csr none ⟨true, true, none, none⟩
      = .issued ⟨s "a", [s "a"], [], [], [], 1, []⟩ ∧
    sign ⟨.jwk, false, ⟨none, some true, none, false⟩, ⟨none, some false, none, false⟩, ⟨0, [1]⟩⟩ tok csr none ⟨true, true, none, none⟩
      = .issued ⟨s "a", [s "a"], [], [], [], 1, [⟨0, [1]⟩]⟩ := by decide

/-- a forged extension in front of and behind another one: replaced, the rest refused as duplicate -/
example : modifyExt false ⟨0, [1]⟩ [⟨1, [9]⟩, ⟨0, [66]⟩, ⟨2, [9]⟩] = [⟨1, [9]⟩, ⟨0, [1]⟩, ⟨2, [9]⟩] := by decide
example : hasDupOid (modifyExt false ⟨0, [1]⟩ [⟨0, [66]⟩, ⟨0, [67]⟩]) = true := by decide

/-! ## 5. user_data_unreachable, csr_ext_unreachable -/

/-- **user_data_unreachable.** Without a configured template the outcome of a sign request does
    not depend on the user-supplied template data at all. -/
theorem user_data_unreachable (cfg : Cfg) (t : Token) (c : CSR) (ud ud' : Option UserData) (enc : Enc)
    (ht : cfg.hasTemplate = false) :
    sign cfg t c ud enc = sign cfg t c ud' enc := by
  simp [sign, templateUser, ht]

/-- **csr_ext_unreachable.** The extensions a CSR carries (a forged provisioner extension in
    particular) never influence the outcome. -/
theorem csr_ext_unreachable (cfg : Cfg) (t : Token) (c : CSR) (e : List Ext) (ud : Option UserData) (enc : Enc) :
    sign cfg t { c with exts := e } ud enc = sign cfg t c ud enc := by
  simp only [sign, reqValid, cnValid, sansValid, finalCert]
  cases (authorize cfg t).tpl <;> rfl

example :
    sign ⟨.jwk, false, noClaims, noClaims, ⟨0, [1]⟩⟩ ⟨⟨.dns, s "a", s "a"⟩, [], .absent, none, none, none, []⟩
      ⟨true, [], [], [], [], [], 1, true, [⟨0, [66]⟩]⟩ (some ⟨[⟨0, [67]⟩], 5, true⟩) ⟨true, true, none, none⟩
    = .issued ⟨s "a", [s "a"], [], [], [], 1, [⟨0, [1]⟩]⟩ := by decide

/-! ## 6. the source-derived tables and the model -/

/-- **sign_phases_in_source.** The phases of `sign`, in the model's order, are realised by calls
    and loops that occur in that order in `Authority.signX509` as it stands in the source (the
    harness re-derives `signX509Source` with go/ast on every run). In particular the request
    validators run inside the option loop, before `NewCertificate`; the modifiers (provisioner
    extension) run after the template and before the CAS signs. -/
theorem sign_phases_in_source :
    (signPhases.flatMap Phase.marker).isSublist signX509Source = true := by decide

/-- in the type switch the request-validator case precedes nothing that could capture a validator
    first: an option is tried as provisioner, then as template options, then as request validator -/
theorem request_validator_case_position :
    signX509Source.take 7 =
      [.checkSignature, .rangeExtraOpts, .caseInterface, .caseCertificateOptions, .options,
       .caseRequestValidator, .valid] := by decide

/-- **phase_order.** `sign` behaves in that order: a broken CSR signature is answered 400 whatever
    the validators would say; a validator refusal is answered 403 whatever the template, the
    encoder or the extension list would do; and the extension modifier is applied to the
    template's output. -/
theorem phase_order (cfg : Cfg) (t : Token) (c : CSR) (ud : Option UserData) (enc : Enc) :
    (c.sigOK = false → sign cfg t c ud enc = .refused 400) ∧
    (c.sigOK = true → reqValid (authorize cfg t) c = false → sign cfg t c ud enc = .refused 403) ∧
    (∀ crt, sign cfg t c ud enc = .issued crt →
       crt.exts = modifyExt cfg.extDisabled cfg.gen
         (applyTemplate (authorize cfg t) c (templateUser cfg ud)).exts) := by
  refine ⟨fun h => by simp [sign, h], fun h1 h2 => by simp [sign, h1, h2], ?_⟩
  intro crt h
  obtain ⟨_, _, _, rfl⟩ := sign_issued h
  rfl

/-- **options_match_plan.** What `authorize` puts into the plan is exactly what the option lists in
    jwk.go / x5c.go / oidc.go / nebula.go / k8sSA.go / acme.go / scep.go contain (tables re-derived
    from the source on every run): the SAN validator, the common-name validator and its flavour,
    the fingerprint validator; every list carries the provisioner-extension modifier and a key
    validator, and the template options (ACME and SCEP: appended by the protocol layer). -/
theorem options_match_plan (cfg : Cfg) (t : Token) :
    (.sans ∈ optionSource cfg.prov ↔ (authorize cfg t).sans = some (effSans t)) ∧
    (.sans ∉ optionSource cfg.prov ↔ (authorize cfg t).sans = none) ∧
    (.cnSlice ∈ optionSource cfg.prov ↔
        (authorize cfg t).cnRule = .oneOf (t.sub.raw :: (effSans t).map (·.raw))) ∧
    (.cnExact ∈ optionSource cfg.prov ↔ (authorize cfg t).cnRule = .exactly t.sub.raw) ∧
    (.fingerprint ∈ optionSource cfg.prov → (authorize cfg t).cnf = t.cnf) ∧
    (.fingerprint ∉ optionSource cfg.prov → (authorize cfg t).cnf = .absent) ∧
    (.nebulaSans ∈ optionSource cfg.prov ↔ (authorize cfg t).neb.isSome = true) ∧
    .provExt ∈ optionSource cfg.prov ∧
    (.templateOptions ∈ optionSource cfg.prov ∨ cfg.prov = .acme ∨ cfg.prov = .scep) ∧
    (.pubKey ∈ optionSource cfg.prov ∨ .pubKeyMinLen ∈ optionSource cfg.prov) := by
  cases hp : cfg.prov with
  | jwk => simp [authorize, hp, optionSource]
  | x5c => simp [authorize, hp, optionSource]
  | oidc a => simp [authorize, hp, optionSource]
  | nebula => simp [authorize, hp, optionSource]
  | k8ssa => simp [authorize, hp, optionSource]
  | acme => simp [authorize, hp, optionSource]
  | scep => simp [authorize, hp, optionSource]
  | aws d => simp [authorize, hp, optionSource]

/-- **every_provisioner_records_itself.** Every `AuthorizeSign` implementation in
    authority/provisioner that returns an option list at all (i.e. every provisioner type that can
    issue: ACME, AWS, Azure, GCP, JWK, K8sSA, Nebula, OIDC, SCEP, X5C) puts the provisioner-extension
    modifier into it; the only lists without it belong to `noop` (the list is the provisioner
    alone) — table re-derived from the source on every run (`src fn=allsign`). Together with
    `ext_once` (which holds for every configuration) this is the clause "every issued certificate
    records which provisioner authorized it" for all provisioner types, cloud ones included. -/
theorem every_provisioner_records_itself :
    ∀ e ∈ allSignSource, e.2 = .extTpl ∨ e.2 = .ext ∨ e.2 = .none ∨ (e.2 = .self ∧ e.1 = "noop") := by
  decide

theorem issuing_provisioners_listed :
    (allSignSource.filter fun e => e.2 == .extTpl || e.2 == .ext).map (·.1) =
      ["ACME", "AWS", "Azure", "GCP", "JWK", "K8sSA", "Nebula", "OIDC", "SCEP", "X5C"] := by decide

/-! ## 6b. webhooks -/

/-- **webhook_allow_neutral.** A provisioner's ENRICHING / AUTHORIZING webhooks that answer "allow"
    change nothing: whatever data the enriching webhook returns (it lands under `.Webhooks` of the
    template data, which the default templates do not read), the outcome is the one without webhooks. -/
theorem webhook_allow_neutral (cfg : Cfg) (t : Token) (c : CSR) (ud : Option UserData) (enc : Enc)
    (he : enc.whEnrich ≠ some false) (ha : enc.whAuthz ≠ some false) :
    sign cfg t c ud enc = sign cfg t c ud { enc with whEnrich := none, whAuthz := none } := by
  unfold sign encOK
  simp [he, ha]

/-- **webhook_only_refuses.** Webhooks can turn an issuance into a refusal and nothing else: a
    certificate issued with webhooks configured is the certificate issued without them. -/
theorem webhook_only_refuses (cfg : Cfg) (t : Token) (c : CSR) (ud : Option UserData) (enc : Enc) (crt : Cert)
    (h : sign cfg t c ud enc = .issued crt) :
    sign cfg t c ud { enc with whEnrich := none, whAuthz := none } = .issued crt := by
  obtain ⟨he, ha⟩ := sign_issued_webhooks h
  rw [← webhook_allow_neutral cfg t c ud enc he ha]; exact h

/-- **webhook_deny_refused.** A denying webhook means no certificate. -/
theorem webhook_deny_refused (cfg : Cfg) (t : Token) (c : CSR) (ud : Option UserData) (enc : Enc)
    (hd : enc.whEnrich = some false ∨ enc.whAuthz = some false) (crt : Cert) :
    sign cfg t c ud enc ≠ .issued crt := by
  intro h
  obtain ⟨h1, h2⟩ := sign_issued_webhooks h
  rcases hd with hd | hd
  · exact h1 hd
  · exact h2 hd

/-- **user_data_shape.** With a template that prints the user's `extensions`, user data that does
    not decode as a list of extensions never yields a certificate (the decoder refuses the rendered
    JSON, 500); without a template the shape does not matter (`user_data_unreachable`). -/
theorem user_data_shape (cfg : Cfg) (t : Token) (c : CSR) (u : UserData) (enc : Enc) (crt : Cert)
    (ht : cfg.hasTemplate = true) (hp : cfg.prov = .jwk) (hbad : u.extsOK = false) :
    sign cfg t c (some u) enc ≠ .issued crt := by
  intro h
  have hf : templateFails (authorize cfg t) (templateUser cfg (some u)) = true := by
    simp [templateFails, authorize, hp, ht, templateUser, hbad]
  unfold sign at h
  split at h
  · cases h
  · split at h
    · cases h
    · split at h
      · cases h
      · cases h

example :
    sign ⟨.jwk, false, noClaims, noClaims, ⟨0, [1]⟩⟩ ⟨⟨.dns, s "a", s "a"⟩, [], .absent, none, none, none, []⟩
      ⟨true, [], [], [], [], [], 1, true, []⟩ none ⟨true, true, some true, some false⟩ = .refused 403 := by decide

/-! ## 7. Nebula and K8sSA -/

theorem ofKind_append (k : Kind) (a b : List San) : ofKind k (a ++ b) = ofKind k a ++ ofKind k b := by
  simp [ofKind]

theorem ofKind_ip_map (l : List Str) : ofKind .ip (l.map fun ip => (⟨.ip, ip, ip⟩ : San)) = l := by
  induction l with
  | nil => rfl
  | cons a as ih => simp only [ofKind] at ih ⊢; simp [ih]

/-- **nebula_default_names.** Nebula token that lists no names: the certificate's names are the
    Nebula certificate's name and addresses, CN = token subject, key = CSR key. -/
theorem nebula_default_names (cfg : Cfg) (t : Token) (c : CSR) (ud : Option UserData) (enc : Enc) (crt : Cert)
    (hp : cfg.prov = .nebula) (hs : t.sans = [])
    (h : sign cfg t c ud enc = .issued crt) :
    crt.names = createSANs (nebCreds t) ∧ crt.cn = t.sub.raw ∧ crt.key = c.key := by
  obtain ⟨_, _, _, rfl⟩ := sign_issued h
  have h1 : (authorize cfg t).data.sans = createSANs (nebCreds t) := by simp [authorize, hp, hs]
  have h2 : (authorize cfg t).data.cn = t.sub.raw := by simp [authorize, hp]
  have h3 : (authorize cfg t).tpl ≠ .admin := by simp only [authorize, hp]; split <;> simp
  have := finalCert_leafish cfg (authorize cfg t) c (templateUser cfg ud) (nebCreds t) h1 h3
    (tpl_not_iid cfg t (by intro d; simp [hp]))
  rw [h2] at this
  exact this

/-- **nebula_csr_extra_refused.** A CSR name of any kind that the Nebula certificate does not
    certify (its name, classified, or one of its addresses) is refused. -/
theorem nebula_csr_extra_refused (cfg : Cfg) (t : Token) (c : CSR) (ud : Option UserData) (enc : Enc)
    (hp : cfg.prov = .nebula) (k : Kind) (v : Str) (hv : v ∈ c.ofKind k) (hn : v ∉ ofKind k (nebCreds t)) :
    ∃ st, sign cfg t c ud enc = .refused st := by
  apply refused_of_reqValid_false
  have hneb : (authorize cfg t).neb = some (t.nebName.toList, t.nebIPs) := by
    simp [authorize, hp]
  rw [nebCreds, ofKind_append, List.mem_append, not_or] at hn
  obtain ⟨hn1, hn2⟩ := hn
  have hne : c.ofKind k ≠ [] := List.ne_nil_of_mem hv
  have : nebValid t.nebName.toList t.nebIPs c = false := by
    unfold nebValid
    cases k with
    | dns =>
      have h0 : c.dns.isEmpty = false := by simpa [CSR.ofKind] using hne
      have := setEq_false_of_extra (ofKind .dns t.nebName.toList) c.dns v hv hn1
      simp [h0, this]
    | email =>
      have h0 : c.emails.isEmpty = false := by simpa [CSR.ofKind] using hne
      have := setEq_false_of_extra (ofKind .email t.nebName.toList) c.emails v hv hn1
      simp [h0, this]
    | uri =>
      have h0 : c.uris.isEmpty = false := by simpa [CSR.ofKind] using hne
      have := setEq_false_of_extra (ofKind .uri t.nebName.toList) c.uris v hv hn1
      simp [h0, this]
    | ip =>
      rw [ofKind_ip_map] at hn2
      have : c.ips.all (fun ip => (ofKind .ip t.nebName.toList ++ t.nebIPs).contains ip) = false := by
        rw [List.all_eq_false]
        exact ⟨v, hv, by simp [hn1, hn2]⟩
      rw [this]; simp
  simp [reqValid, hneb, this]

/-! ### Authorize + Sign (`request`) -/

theorem request_issued {cfg : Cfg} {t : Token} {c : CSR} {ud : Option UserData} {enc : Enc} {crt : Cert}
    (h : request cfg t c ud enc = .issued crt) :
    tokenAuthorized cfg t = true ∧ sign cfg t c ud enc = .issued crt := by
  unfold request at h
  split at h
  · cases h
  · rename_i ha; exact ⟨by simpa using ha, h⟩

/-- for every provisioner but Nebula `AuthorizeSign` refuses nothing beyond token verification:
    the request is the sign stage, and every theorem about `sign` above is one about `request` -/
theorem request_eq_sign (cfg : Cfg) (t : Token) (c : CSR) (ud : Option UserData) (enc : Enc)
    (hp : cfg.prov ≠ .nebula) : request cfg t c ud enc = sign cfg t c ud enc := by
  unfold request tokenAuthorized
  cases h : cfg.prov <;> simp_all

theorem nebCertified_creds (t : Token) : ∀ x ∈ nebCreds t, nebCertified t x = true := by
  intro x hx
  simp only [nebCreds, List.mem_append, List.mem_map, Option.mem_toList] at hx
  rcases hx with hx | ⟨ip, hip, rfl⟩
  · simp [nebCertified, hx]
  · simp [nebCertified, hip]

/-- **nebula_names_certified.** (positive form since 62bb26c.) Every name of a certificate issued
    for a Nebula token is the `(type, value)` form of a name the Nebula certificate certifies: its
    `Details.Name`, or an IP equal to one of its `Details.Ips` — for every token (with or without a
    `sans` claim), every CSR and every template data object. CN = token subject, key = CSR key. -/
theorem nebula_names_certified (cfg : Cfg) (t : Token) (c : CSR) (ud : Option UserData) (enc : Enc) (crt : Cert)
    (hp : cfg.prov = .nebula) (h : request cfg t c ud enc = .issued crt) :
    (∀ n ∈ crt.names, ∃ x : San, n = x.name ∧ nebCertified t x = true) ∧
    crt.cn = t.sub.raw ∧ crt.key = c.key := by
  obtain ⟨ha, hs⟩ := request_issued h
  obtain ⟨_, _, _, rfl⟩ := sign_issued hs
  have hcert : ∀ x ∈ (if t.sans.isEmpty then nebCreds t else t.sans), nebCertified t x = true := by
    split
    · exact nebCertified_creds t
    · intro x hx
      simp only [tokenAuthorized, hp, List.all_eq_true] at ha
      exact ha x hx
  have h1 : (authorize cfg t).data.sans = createSANs (if t.sans.isEmpty then nebCreds t else t.sans) := by
    simp [authorize, hp]
  have h2 : (authorize cfg t).data.cn = t.sub.raw := by simp [authorize, hp]
  have h3 : (authorize cfg t).tpl ≠ .admin := by simp only [authorize, hp]; split <;> simp
  obtain ⟨hn, hc, hk⟩ := finalCert_leafish cfg (authorize cfg t) c (templateUser cfg ud) _ h1 h3
    (tpl_not_iid cfg t (by intro d; simp [hp]))
  refine ⟨?_, by rw [hc, h2], hk⟩
  intro n hmem
  rw [hn] at hmem
  have := (createSANs_perm _).mem_iff.mp hmem
  obtain ⟨x, hx, rfl⟩ := List.mem_map.mp this
  exact ⟨x, rfl, hcert x hx⟩

/-- **nebula_foreign_token_refused.** A Nebula token that lists a name its certificate does not
    certify is refused at authorization (403), whatever the CSR contains — in particular with the
    empty CSR that used to get the certificate before 62bb26c. -/
theorem nebula_foreign_token_refused (cfg : Cfg) (t : Token) (c : CSR) (ud : Option UserData) (enc : Enc)
    (hp : cfg.prov = .nebula) (x : San) (hx : x ∈ t.sans) (hf : nebCertified t x = false) :
    request cfg t c ud enc = .unauthorized 403 := by
  have : tokenAuthorized cfg t = false := by
    simp only [tokenAuthorized, hp, List.all_eq_false]
    exact ⟨x, hx, by simp [hf]⟩
  simp [request, this]

/-- the former failing input (host-a.neb / 10.1.1.7 asking for evil.example.com and 8.8.8.8 with an
    empty CSR): refused -/
example :
    request ⟨.nebula, false, noClaims, noClaims, ⟨0, [1]⟩⟩
      ⟨⟨.dns, s "evil", s "evil"⟩, [⟨.dns, s "evil.example.com", s "evil.example.com"⟩, ⟨.ip, s "8.8.8.8", s "8.8.8.8"⟩],
        .absent, none, none, some ⟨.dns, s "host-a.neb", s "host-a.neb"⟩, [s "10.1.1.7"]⟩
      ⟨true, [], [], [], [], [], 1, true, []⟩ none ⟨true, true, none, none⟩ = .unauthorized 403 := by decide

/-- a token that lists its own name and a respelled own address is accepted; the subject is free -/
example :
    request ⟨.nebula, false, noClaims, noClaims, ⟨0, [1]⟩⟩
      ⟨⟨.dns, s "svc", s "svc"⟩, [⟨.ip, s "::ffff:10.1.1.7", s "10.1.1.7"⟩, ⟨.dns, s "host-a.neb", s "host-a.neb"⟩],
        .absent, none, none, some ⟨.dns, s "host-a.neb", s "host-a.neb"⟩, [s "10.1.1.7"]⟩
      ⟨true, [], [], [], [], [], 1, true, []⟩ none ⟨true, true, none, none⟩
    = .issued ⟨s "svc", [s "host-a.neb"], [s "10.1.1.7"], [], [], 1, [⟨0, [1]⟩]⟩ := by decide

/-- the same Nebula certificate without a `sans` claim: only its own name and address -/
example :
    sign ⟨.nebula, false, noClaims, noClaims, ⟨0, [1]⟩⟩
      ⟨⟨.dns, s "host-a.neb", s "host-a.neb"⟩, [], .absent, none, none, some ⟨.dns, s "host-a.neb", s "host-a.neb"⟩, [s "10.1.1.7"]⟩
      ⟨true, s "host-a.neb", [s "host-a.neb"], [s "10.1.1.7"], [], [], 1, true, []⟩ none ⟨true, true, none, none⟩
    = .issued ⟨s "host-a.neb", [s "host-a.neb"], [s "10.1.1.7"], [], [], 1, [⟨0, [1]⟩]⟩ := by decide

/-- **k8ssa_names_from_request.** Kubernetes service-account tokens carry no names: with the
    default (request) template the certificate's names, common name and key are the CSR's. The
    property's "names listed in the token" does not apply to this provisioner; recorded as a fact. -/
theorem k8ssa_names_from_request (cfg : Cfg) (t : Token) (c : CSR) (ud : Option UserData) (enc : Enc) (crt : Cert)
    (hp : cfg.prov = .k8ssa) (ht : cfg.hasTemplate = false)
    (h : sign cfg t c ud enc = .issued crt) :
    crt.dns = c.dns ∧ crt.ips = c.ips ∧ crt.emails = c.emails ∧ crt.uris = c.uris ∧
    crt.cn = c.cn ∧ crt.key = c.key := by
  obtain ⟨_, _, _, rfl⟩ := sign_issued h
  simp [finalCert, authorize, hp, ht, applyTemplate, applyAdmin]

/-! ## 7a. AWS instance identity -/

/-- the names an AWS identity document validates: the internal DNS name and the private IP -/
def awsOwn (t : Token) : List San := t.nebName.toList ++ t.nebIPs.map fun ip => ⟨.ip, ip, ip⟩

/-- **aws_dcs_names.** AWS provisioner with `disableCustomSANs` (default template): an issued
    certificate names exactly the instance's internal DNS name and private IP, whatever the CSR
    lists; its common name is empty or the token subject; its key is the CSR's. -/
theorem aws_dcs_names (cfg : Cfg) (t : Token) (c : CSR) (ud : Option UserData) (enc : Enc) (crt : Cert)
    (hp : cfg.prov = .aws true) (ht : cfg.hasTemplate = false) (hown : awsOwn t ≠ [])
    (h : sign cfg t c ud enc = .issued crt) :
    crt.names = createSANs (awsOwn t) ∧ (crt.cn = [] ∨ crt.cn = t.sub.raw) ∧ crt.key = c.key := by
  obtain ⟨_, hv, _, rfl⟩ := sign_issued h
  have hne : (createSANs (awsOwn t)).isEmpty = false := by
    cases hl : createSANs (awsOwn t) with
    | nil =>
      have := (createSANs_perm (awsOwn t)).length_eq
      rw [hl] at this
      simp at this
      exact absurd (List.eq_nil_of_length_eq_zero this.symm) hown
    | cons _ _ => rfl
  have hcn : cnValid (.exactly t.sub.raw) c = true := by
    simp only [reqValid, authorize, hp, Bool.and_eq_true] at hv
    exact hv.1.1.1.1.2
  refine ⟨?_, ?_, ?_⟩
  · have := applyLeaf_names ({ cn := t.sub.raw, sans := createSANs (awsOwn t), user := templateUser cfg ud } : Data) c (awsOwn t) rfl
    simp only [finalCert, applyTemplate, authorize, hp, ht, awsOwn] at this ⊢
    simp only [awsOwn] at hne
    simp [hne, Cert.names] at this ⊢
    exact this
  · simp only [finalCert, applyTemplate, authorize, hp, ht]
    simp only [awsOwn] at hne
    simp only [if_true, hne]
    simp only [cnValid, Bool.or_eq_true, List.isEmpty_iff, beq_iff_eq] at hcn
    simpa using hcn
  · simp only [finalCert, applyTemplate, authorize, hp, ht]
    simp only [awsOwn] at hne
    simp [hne, applyLeaf]

/-- **aws_dcs_csr_extra_refused.** … and a CSR that lists any other DNS name, another IP, an
    e-mail address or a URI is refused. -/
theorem aws_dcs_csr_extra_refused (cfg : Cfg) (t : Token) (c : CSR) (ud : Option UserData) (enc : Enc)
    (hp : cfg.prov = .aws true)
    (hx : (∃ v ∈ c.dns, v ∉ ofKind .dns t.nebName.toList) ∨ (∃ v ∈ c.ips, v ∉ t.nebIPs) ∨
          c.emails ≠ [] ∨ c.uris ≠ []) :
    ∃ st, sign cfg t c ud enc = .refused st := by
  apply refused_of_reqValid_false
  have : awsValid (ofKind .dns t.nebName.toList) t.nebIPs c = false := by
    unfold awsValid
    rcases hx with ⟨v, hv, hn⟩ | ⟨v, hv, hn⟩ | he | hu
    · have : c.dns.all (fun x => (ofKind .dns t.nebName.toList).contains x) = false := by
        rw [List.all_eq_false]; exact ⟨v, hv, by simpa using hn⟩
      rw [this]; simp
    · have := kindValid_false t.nebIPs c.ips (List.ne_nil_of_mem hv) (setEq_false_of_extra _ _ v hv hn)
      simp [this]
    · have : kindValid [] c.emails = false := by
        cases hl : c.emails with
        | nil => exact absurd hl he
        | cons a as => simp [kindValid, setEq]
      simp [this]
    · have : kindValid [] c.uris = false := by
        cases hl : c.uris with
        | nil => exact absurd hl hu
        | cons a as => simp [kindValid, setEq]
      simp [this]
  simp [reqValid, authorize, hp, this]

/-- without `disableCustomSANs` the names are the CSR's (trust on first use; recorded as a fact) -/
theorem aws_custom_names_from_request (cfg : Cfg) (t : Token) (c : CSR) (ud : Option UserData) (enc : Enc) (crt : Cert)
    (hp : cfg.prov = .aws false) (ht : cfg.hasTemplate = false)
    (h : sign cfg t c ud enc = .issued crt) :
    crt.dns = c.dns ∧ crt.ips = c.ips ∧ crt.emails = c.emails ∧ crt.uris = c.uris ∧ crt.cn = c.cn := by
  obtain ⟨_, _, _, rfl⟩ := sign_issued h
  simp [finalCert, applyTemplate, authorize, hp, ht, applyAdmin]

/-! ## 7b. the HTTP handler -/

/-- **http_sign_issued.** A certificate in a 201 answer of POST /1.0/sign is a certificate `request`
    issues: every theorem about `request` / `sign` above holds for what the handler returns; and the
    handler adds only the CSR-signature check in front (400). -/
theorem http_sign_issued (cfg : Cfg) (t : Token) (c : CSR) (ud : Option UserData) (enc : Enc) (crt : Cert)
    (h : httpSign cfg t c ud enc = .issued crt) : request cfg t c ud enc = .issued crt ∧ c.sigOK = true := by
  unfold httpSign at h
  split at h
  · cases h
  · rename_i hs; exact ⟨h, by simpa using hs⟩

/-! ## 8. registration-authority mode -/

def raNames (c1 : Cert) : List San :=
  c1.dns.map (fun v => ⟨.dns, v, v⟩) ++ c1.emails.map (fun v => ⟨.email, v, v⟩) ++
  c1.ips.map (fun v => ⟨.ip, v, v⟩) ++ c1.uris.map (fun v => ⟨.uri, v, v⟩)

theorem ofKind_map_same (k : Kind) (l : List Str) :
    ofKind k (l.map fun v => (⟨k, v, v⟩ : San)) = l := by
  induction l with
  | nil => rfl
  | cons a as ih => simp only [ofKind] at ih ⊢; simp [ih]

theorem ofKind_map_other (k k' : Kind) (hk : k' ≠ k) (l : List Str) :
    ofKind k (l.map fun v => (⟨k', v, v⟩ : San)) = [] := by
  induction l with
  | nil => rfl
  | cons a as ih => simp only [ofKind] at ih ⊢; simp [hk, ih]

theorem createSANs_raNames (c1 : Cert) : createSANs (raNames c1) = c1.names := by
  simp [createSANs, raNames, Cert.names, ofKind_append, ofKind_map_same, ofKind_map_other]

theorem raToken_sans (c1 : Cert) (k : Kind) : (raToken c1 k).sans = raNames c1 := by
  simp [raToken, raNames]

theorem raToken_sub (c1 : Cert) (k : Kind) (h : c1.cn ≠ []) : (raToken c1 k).sub.raw = c1.cn := by
  unfold raToken
  cases hcn : c1.cn with
  | nil => exact absurd hcn h
  | cons a as => simp

/-- **ra_names_exact.** The same guarantee in registration-authority mode (the authority forwards
    to an issuing step-ca through cas/stepcas): for a JWK or X5C end-entity token the certificate the
    issuing CA returns names exactly the token's names, its common name is the token subject
    whatever common name the CSR carried, its key is the CSR's, and its single provisioner
    extension is the issuing CA's. -/
theorem ra_names_exact (cfg : Cfg) (g : Ext) (t : Token) (c : CSR) (ud : Option UserData) (enc : Enc) (crt : Cert)
    (hp : cfg.prov = .jwk ∨ cfg.prov = .x5c) (hsub : t.sub.raw ≠ []) (hg : g.isProv = true)
    (h : raRequest cfg g t c ud enc = .issued crt) :
    crt.names = createSANs (effSans t) ∧ crt.cn = t.sub.raw ∧ crt.key = c.key ∧
    crt.exts.filter Ext.isProv = [g] := by
  unfold raRequest at h
  split at h
  · rename_i c1 hr
    obtain ⟨_, hs1⟩ := request_issued hr
    obtain ⟨hn1, hc1, _⟩ := names_exact cfg t c ud _ c1 hp hs1
    have hcn : c1.cn ≠ [] := by rw [hc1]; exact hsub
    obtain ⟨hn2, hc2, hk2⟩ := names_exact (issuerCfg g) (raToken c1 t.sub.kind) c none _ crt (.inl rfl) h
    have hext := ext_once (issuerCfg g) (raToken c1 t.sub.kind) c none _ crt hg rfl h
    have hne : (raNames c1).isEmpty = false := by
      cases hl : raNames c1 with
      | nil =>
        have : c1.names = [] := by rw [← createSANs_raNames, hl]; rfl
        rw [hn1] at this
        have hlen := (createSANs_perm (effSans t)).length_eq
        rw [this] at hlen
        unfold effSans at hlen
        split at hlen
        · simp at hlen
        · rename_i hne
          simp at hlen
          exact absurd (List.eq_nil_of_length_eq_zero hlen.symm) (by simpa using hne)
      | cons _ _ => rfl
    have heff : effSans (raToken c1 t.sub.kind) = raNames c1 := by
      simp [effSans, raToken_sans, hne]
    refine ⟨?_, ?_, hk2, hext⟩
    · rw [hn2, heff, createSANs_raNames, hn1]
    · rw [hc2, raToken_sub c1 _ hcn, hc1]
  · rename_i hne
    exact absurd h (by intro h'; exact hne _ h')

/-! ## further examples: the hypotheses of the theorems above are satisfiable -/

/-- csr_narrow_refused: token a, b; the CSR lists only a -/
example :
    let a : San := ⟨.dns, s "a", s "a"⟩
    let b : San := ⟨.dns, s "b", s "b"⟩
    sign ⟨.x5c, false, noClaims, noClaims, ⟨0, []⟩⟩ ⟨a, [a, b], .absent, none, none, none, []⟩
      ⟨true, [], [s "a"], [], [], [], 1, true, []⟩ none ⟨true, true, none, none⟩ = .refused 403 := by decide

/-- …while a CSR without any DNS name is accepted and gets both -/
example :
    let a : San := ⟨.dns, s "a", s "a"⟩
    let b : San := ⟨.dns, s "b", s "b"⟩
    sign ⟨.x5c, false, noClaims, noClaims, ⟨0, []⟩⟩ ⟨a, [a, b], .absent, none, none, none, []⟩
      ⟨true, [], [], [], [], [], 1, true, []⟩ none ⟨true, true, none, none⟩
    = .issued ⟨s "a", [s "a", s "b"], [], [], [], 1, [⟨0, []⟩]⟩ := by decide

/-- csr_cn_refused: X5C refuses a common name equal to a SAN that is not the subject, JWK accepts it
    (and still puts the subject into the certificate) -/
example :
    let a : San := ⟨.dns, s "a", s "a"⟩
    let b : San := ⟨.dns, s "b", s "b"⟩
    sign ⟨.x5c, false, noClaims, noClaims, ⟨0, []⟩⟩ ⟨a, [a, b], .absent, none, none, none, []⟩
      ⟨true, s "b", [], [], [], [], 1, true, []⟩ none ⟨true, true, none, none⟩ = .refused 403 ∧
    sign ⟨.jwk, false, noClaims, noClaims, ⟨0, []⟩⟩ ⟨a, [a, b], .absent, none, none, none, []⟩
      ⟨true, s "b", [], [], [], [], 1, true, []⟩ none ⟨true, true, none, none⟩
    = .issued ⟨s "a", [s "a", s "b"], [], [], [], 1, [⟨0, []⟩]⟩ := by decide

/-- ext_disabled_absent: hypotheses satisfiable -/
example :
    sign ⟨.jwk, false, noClaims, ⟨none, some true, none, false⟩, ⟨0, [1]⟩⟩ ⟨⟨.dns, s "a", s "a"⟩, [], .absent, none, none, none, []⟩
      ⟨true, [], [], [], [], [], 1, true, [⟨0, [66]⟩]⟩ (some ⟨[⟨0, [67]⟩], 5, true⟩) ⟨true, true, none, none⟩
    = .issued ⟨s "a", [s "a"], [], [], [], 1, []⟩ := by decide

/-- ext_once with a template that echoes user extensions: forged extension replaced in place -/
example :
    sign ⟨.jwk, true, noClaims, noClaims, ⟨0, [1]⟩⟩ ⟨⟨.dns, s "a", s "a"⟩, [], .absent, none, none, none, []⟩
      ⟨true, [], [], [], [], [], 1, true, []⟩ (some ⟨[⟨3, [9]⟩, ⟨0, [67]⟩], 5, true⟩) ⟨true, true, none, none⟩
    = .issued ⟨s "a", [s "a"], [], [], [], 1, [⟨3, [9]⟩, ⟨0, [1]⟩]⟩ := by decide
end Verif.SignNames
